import PyamgV.Model.KNum
/-! PyamgV (C11): executable whole-kernel models over `Rat` of

* `rs_classical_interpolation_pass1`, `remove_strong_FF_connections`,
  `rs_classical_interpolation_pass2` (`modified` on/off) — ruge_stuben.h:1082-1383,
* `one_point_interpolation`, `approx_ideal_restriction_pass1/2` — air.h:46-328,
* the array arithmetic of `injection_interpolation` (interpolate.py:225-228),

loop by loop, with positional writes into the output arrays as the C++ does them.  A division by
zero (the C++ produces `inf`/`nan`) is `none`.  The local dense solve of AIR is an exact solve over
`Rat` that is *verified* before it is returned (`airRow`), so that theorems about `airRow` need no
assumption on the elimination.  Core Lean only. -/
namespace PyamgV.C11M
open PyamgV.N

@[inline] def isC (split : Array Int) (j : Nat) : Bool := rdI split j == 1
@[inline] def isF (split : Array Int) (j : Nat) : Bool := rdI split j == 0

/-- `signof` of linalg.h -/
def signof (q : Rat) : Int := if q < 0 then -1 else 1

/-- `map[i] = Σ_{j<i} splitting[j]` (the tail of both pass-2 kernels) -/
def cmapArr (n : Nat) (split : Array Int) : Array Int :=
  ((List.range n).foldl (fun (acc : Array Int × Int) i => (acc.1.push acc.2, acc.2 + rdI split i))
    ((#[] : Array Int), (0 : Int))).1

/-- `rs_classical_interpolation_pass1` (identical to the direct pass 1) -/
def classicalPass1 (n : Nat) (S : Csr) (split : Array Int) : Array Nat :=
  ((List.range n).foldl (fun (acc : Array Nat × Nat) i =>
    let nnz := acc.2
    let nnz := if isC split i then nnz + 1 else
      (S.jjs i).foldl (fun nnz jj => if isC split (rdN S.aj jj) ∧ rdN S.aj jj ≠ i then nnz + 1 else nnz) nnz
    (acc.1.push nnz, nnz)) (#[0], 0)).1

/-- `remove_strong_FF_connections`: the new data array of `S` -/
def removeFF (S : Csr) (split : Array Int) : Array Rat :=
  (List.range S.n).foldl (fun sx row =>
    if isF split row then
      (S.jjs row).foldl (fun sx jj =>
        let j := rdN S.aj jj
        if isF split j then
          -- `dependence`: some strong C-point of `row` is in the strength row of `j`
          let dep := (S.jjs row).any (fun ii =>
            let r := rdN S.aj ii
            isC split r && (S.jjs j).any (fun kk => rdN S.aj kk == r))
          if dep then sx else sx.setIfInBounds jj 0
        else sx) sx
    else sx) S.ax

def oadd (a b : Option Rat) : Option Rat := match a, b with | some x, some y => some (x + y) | _, _ => none
def odiv (a : Option Rat) (b : Rat) : Option Rat := match a with | some x => if b = 0 then none else some (x / b) | none => none

/-- the two searches of row `k` of `A`: `(a_kj, a_kk)`; unmodified: first match of `j`, `a_kk = 0` -/
def searchRow (modified : Bool) (A : Csr) (k j : Nat) : Rat × Rat :=
  if modified then
    (A.jjs k).foldl (fun (t : Rat × Rat) s =>
      if rdN A.aj s = j then (rdQ A.ax s, t.2) else if rdN A.aj s = k then (t.1, rdQ A.ax s) else t) (0, 0)
  else
    match (A.jjs k).find? (fun s => rdN A.aj s == j) with
    | some s => (rdQ A.ax s, 0)
    | none => (0, 0)

/-- `inner_denominator` for the strong F-neighbour `k` of row `i` -/
def innerDen (modified : Bool) (A S : Csr) (split : Array Int) (i k : Nat) (akk : Rat) : Rat :=
  (S.jjs i).foldl (fun acc ll =>
    if isC split (rdN S.aj ll) then
      let l := rdN S.aj ll
      match (A.jjs k).find? (fun s => rdN A.aj s == l) with
      | some s =>
        let akl := rdQ A.ax s
        if !modified || signof akl ≠ signof akk then acc + akl else acc
      | none => acc
    else acc) 0

/-- `rs_classical_interpolation_pass2`; `eps` models the literal `1e-15`; returns `(Pj, Px)` of
length `Pp[n]` (entries never written keep `-1` / `none`) -/
def classicalPass2 (eps : Rat) (modified : Bool) (A S : Csr) (split : Array Int) (pp : Array Nat) :
    Array Int × Array (Option Rat) :=
  let n := A.n
  let tot := rdN pp n
  let init : Array Int × Array (Option Rat) := (Array.replicate tot (-1), Array.replicate tot none)
  let (pj, px) := (List.range n).foldl (fun (acc : Array Int × Array (Option Rat)) i =>
    if isC split i then
      (acc.1.setIfInBounds (rdN pp i) (Int.ofNat i), acc.2.setIfInBounds (rdN pp i) (some 1))
    else
      let den0 : Rat := (A.jjs i).foldl (fun d mm => d + rdQ A.ax mm) 0
      let den : Rat := (S.jjs i).foldl (fun d mm => if rdN S.aj mm ≠ i then d - rdQ S.ax mm else d) den0
      ((S.jjs i).foldl (fun (st : (Array Int × Array (Option Rat)) × Nat) jj =>
        if isC split (rdN S.aj jj) then
          let j := rdN S.aj jj
          let num : Option Rat := (S.jjs i).foldl (fun (num : Option Rat) kk =>
            if isF split (rdN S.aj kk) ∧ rdN S.aj kk ≠ i then
              let k := rdN S.aj kk
              let aik := rdQ S.ax kk
              let (akj0, akk) := searchRow modified A k j
              let akj := if modified ∧ signof akj0 = signof akk then 0 else akj0
              if absQ akj > eps * absQ aik then
                oadd num (odiv (some (aik * akj)) (innerDen modified A S split i k akk))
              else num
            else num) (some (rdQ S.ax jj))
          let w := odiv (num.map (fun x => -x)) den
          ((st.1.1.setIfInBounds st.2 (Int.ofNat j), st.1.2.setIfInBounds st.2 w), st.2 + 1)
        else st) (acc, rdN pp i)).1) init
  let map := cmapArr n split
  (pj.map (fun g => if g < 0 then g else map.getD g.toNat (-1)), px)

/-- `one_point_interpolation`: `(Pp, Pj[0..next), Px[0..next))` -/
def onePoint (n : Nat) (C : Csr) (split : Array Int) : Array Nat × Array Int × Array Rat :=
  let pointInd : Array Int := (List.range (n - 1)).foldl (fun (a : Array Int) i =>
    a.push (a.getD i 0 + rdI split i)) #[0]
  (List.range n).foldl (fun (acc : Array Nat × Array Int × Array Rat) row =>
    let (pp, pj, px) := acc
    let (pj, px) :=
      if isC split row then (pj.push (pointInd.getD row 0), px.push 1)
      else
        let (_, ind, val) := (C.jjs row).foldl (fun (t : Rat × Int × Rat) i =>
          if isC split (rdN C.aj i) then
            let vv := absQ (rdQ C.ax i)
            if vv > t.1 then (vv, Int.ofNat (rdN C.aj i), rdQ C.ax i) else t
          else t) ((-1 : Rat), (-1 : Int), (0 : Rat))
        if ind > -1 then (pj.push (pointInd.getD ind.toNat 0), px.push (-val)) else (pj, px)
    (pp.push pj.size, pj, px)) (#[0], #[], #[])

/-- the index arithmetic of `injection_interpolation`: `([0] ++ cumsum(splitting), arange(nc))` -/
def injection (n : Nat) (split : Array Int) : Array Int × Array Int :=
  let rp : Array Int := (List.range n).foldl (fun (a : Array Int) i => a.push (a.getD i 0 + rdI split i)) #[0]
  let nc := (rp.getD n 0).toNat
  (rp, (Array.range nc).map Int.ofNat)

/-! ### approximate ideal restriction -/

/-- `std::set<I>::insert` on a sorted duplicate-free list -/
def setInsert (a : Nat) : List Nat → List Nat
  | [] => [a]
  | b :: l => if a < b then a :: b :: l else if a = b then b :: l else b :: setInsert a l

/-- the F-neighbourhood of the C-point `c`: strongly connected F-points, for `distance = 2` also
their strongly connected F-points; ascending, without repetition (iteration order of `std::set`) -/
def nbrF (S : Csr) (split : Array Int) (distance c : Nat) : List Nat :=
  (S.jjs c).foldl (fun cols i =>
    let p := rdN S.aj i
    if isF split p then
      let cols := setInsert p cols
      if distance = 2 then
        (S.jjs p).foldl (fun cols kk => if isF split (rdN S.aj kk) then setInsert (rdN S.aj kk) cols else cols) cols
      else cols
    else cols) []

/-- `approx_ideal_restriction_pass1` -/
def airPass1 (S : Csr) (cpts : Array Nat) (split : Array Int) (distance : Nat) : Array Nat :=
  (cpts.toList.foldl (fun (acc : Array Nat × Nat) c =>
    let nnz := acc.2 + (nbrF S split distance c).length + 1
    (acc.1.push nnz, nnz)) (#[0], 0)).1

/-- first stored entry `(row, col)` of `A` (search with `break`), `0` when absent -/
def entry (A : Csr) (row col : Nat) : Rat :=
  match (A.jjs row).find? (fun s => rdN A.aj s == col) with
  | some s => rdQ A.ax s
  | none => 0

/-- Gauss–Jordan elimination on an augmented matrix (rows as lists); `none` when singular.
Unverified helper: its result is only used after `airCheck`. -/
def gaussJordan (m : List (List Rat)) (nvars : Nat) : Option (List (List Rat)) :=
  (List.range nvars).foldlM (fun (m : List (List Rat)) c =>
    -- pivot: first row at index ≥ c with non-zero entry in column c
    match (List.range m.length).find? (fun r => r ≥ c && (m.getD r []).getD c 0 != 0) with
    | none => none
    | some r =>
      let prow := m.getD r []
      let pv := prow.getD c 0
      let prow := prow.map (· / pv)
      let m := (m.set r (m.getD c [])).set c prow
      some (m.mapIdx (fun idx row =>
        if idx = c then row else
          let f := row.getD c 0
          List.zipWith (fun a b => a - f * b) row prow))) m

/-- solve `Mᵀ x = b` where `M[j][i] = A[Nf_j, Nf_i]`, `b_i = -A[c, Nf_i]` -/
def airSolve (A : Csr) (c : Nat) (nf : List Nat) : Option (List Rat) :=
  let aug := nf.map (fun fi => (nf.map (fun fj => entry A fj fi)) ++ [-(entry A c fi)])
  (gaussJordan aug nf.length).map (fun m => m.map (fun row => row.getD nf.length 0))

/-- `(R A)[., f]` for the row `r` of `R` given as (column, value) pairs -/
def raEntry (A : Csr) (r : List (Nat × Rat)) (f : Nat) : Rat :=
  (r.map (fun cv => cv.2 * entry A cv.1 f)).sum

/-- the row of `R` for C-point `c`: neighbourhood values then the identity entry (storage order of
`approx_ideal_restriction_pass2`) -/
def airAssemble (c : Nat) (nf : List Nat) (x : List Rat) : List (Nat × Rat) := nf.zip x ++ [(c, 1)]

def airCheck (A : Csr) (c : Nat) (nf : List Nat) (x : List Rat) : Bool :=
  x.length == nf.length && nf.all (fun f => raEntry A (airAssemble c nf x) f == 0)

/-- one row of `approx_ideal_restriction_pass2` with an exact, verified local solve -/
def airRow (A S : Csr) (split : Array Int) (distance c : Nat) : Option (List (Nat × Rat)) :=
  let nf := nbrF S split distance c
  match airSolve A c nf with
  | some x => if airCheck A c nf x then some (airAssemble c nf x) else none
  | none => none

/-- all rows (in the order of `Cpts`); `none` if some local system is singular -/
def airPass2 (A S : Csr) (cpts : Array Nat) (split : Array Int) (distance : Nat) :
    Option (List (List (Nat × Rat))) :=
  cpts.toList.mapM (fun c => airRow A S split distance c)

end PyamgV.C11M
