/-! PyamgV (extension E31, properties C04 / C05): run-time library of the Python -> Lean translator
`harness/py2lean.py`.  Import-free (core Lean only), executable, total.

`PyVal` is the tagged value type the translated functions compute with; every operation of the
documented Python subset is a function here that either returns a value or raises the exception
class Python raises (`PyErr.cls`, the message is informative only).  `Generated/PyLogic.lean` (written
by the translator from the working tree on every run) contains nothing but `do`-blocks in the monad
`PyM = Except PyErr` over these operations.

Conventions: a Python `dict` is an association list with `String` keys (keyword dictionaries) and
pairwise distinct keys (`PyVal.wf`); opaque objects (matrices, callables) are `obj tag` and compare by
identity (`tag`); numbers compare across `bool` / `int` / `float` as in Python (`True == 1 == 1.0`),
floats being exact rationals (the harness only sends dyadic values, no NaN / inf). -/
namespace PyamgV.ExtPy

inductive PyVal where
  | none
  | bool (b : Bool)
  | int (i : Int)
  | float (q : Rat)
  | str (s : String)
  | list (xs : List PyVal)
  | tuple (xs : List PyVal)
  | dict (kvs : List (String × PyVal))
  | obj (tag : String)
deriving Repr, Inhabited

structure PyErr where
  cls : String
  msg : String := ""
deriving Repr, DecidableEq, Inhabited

abbrev PyM := Except PyErr

def raise {α : Type} (cls : String) (msg : String := "") : PyM α := .error ⟨cls, msg⟩

/-- what the translator emits for a function it cannot translate (syntax outside the subset, function
missing): calling it raises the pseudo exception class `Unsupported` -/
def unsupported (reason : String) : PyM PyVal := .error ⟨"Unsupported", reason⟩

/-! ### numbers -/

/-- numeric view: `bool`, `int`, `float` -/
def PyVal.num? : PyVal → Option Rat
  | .bool b => some (if b then 1 else 0)
  | .int i => some (i : Rat)
  | .float q => some q
  | _ => Option.none

/-- integer view (`bool` is a subclass of `int`) -/
def PyVal.int? : PyVal → Option Int
  | .bool b => some (if b then 1 else 0)
  | .int i => some i
  | _ => Option.none

def PyVal.isFloat : PyVal → Bool
  | .float _ => true
  | _ => false

/-! ### equality (`==`) -/

mutual
/-- Python's `a == b` on the value universe -/
def pyEq : PyVal → PyVal → Bool
  | .none, .none => true
  | .bool a, .bool b => a == b
  | .bool a, .int b => (if a then 1 else 0) == b
  | .bool a, .float b => ((if a then 1 else 0 : Int) : Rat) == b
  | .int a, .bool b => a == (if b then 1 else 0)
  | .int a, .int b => a == b
  | .int a, .float b => (a : Rat) == b
  | .float a, .bool b => a == ((if b then 1 else 0 : Int) : Rat)
  | .float a, .int b => a == (b : Rat)
  | .float a, .float b => a == b
  | .str a, .str b => a == b
  | .list a, .list b => pyEqL a b
  | .tuple a, .tuple b => pyEqL a b
  | .dict a, .dict b => dictSub a b && b.all (fun kv => a.any (fun kv' => kv'.1 == kv.1))
  | .obj a, .obj b => a == b
  | _, _ => false
def pyEqL : List PyVal → List PyVal → Bool
  | [], [] => true
  | a :: as, b :: bs => pyEq a b && pyEqL as bs
  | _, _ => false
/-- every entry of the first dictionary is in the second with an equal value -/
def dictSub : List (String × PyVal) → List (String × PyVal) → Bool
  | [], _ => true
  | (k, v) :: r, b => (match b.lookup k with | some v' => pyEq v v' | Option.none => false) && dictSub r b
end

def pyNe (a b : PyVal) : Bool := !pyEq a b

/-- `x is None` -/
def pyIsNone : PyVal → Bool
  | .none => true
  | _ => false

/-- `x is True` / `x is False` -/
def pyIsBool (v : PyVal) (c : Bool) : Bool :=
  match v with
  | .bool b => b == c
  | _ => false

/-- truth value of `if x:` -/
def pyTruthy : PyVal → Bool
  | .none => false
  | .bool b => b
  | .int i => i != 0
  | .float q => q != 0
  | .str s => s != ""
  | .list xs => !xs.isEmpty
  | .tuple xs => !xs.isEmpty
  | .dict kvs => !kvs.isEmpty
  | .obj _ => true

/-- the class name `type(x).__name__` -/
def PyVal.tyName : PyVal → String
  | .none => "NoneType"
  | .bool _ => "bool"
  | .int _ => "int"
  | .float _ => "float"
  | .str _ => "str"
  | .list _ => "list"
  | .tuple _ => "tuple"
  | .dict _ => "dict"
  | .obj _ => "object"

/-- `isinstance(x, (T1, T2, ...))` for the built-in classes the subset knows -/
def pyIsInst (v : PyVal) (tys : List String) : Bool :=
  tys.contains v.tyName || (v.tyName == "bool" && tys.contains "int") || tys.contains "object"

mutual
/-- usable as a dictionary key: everything but lists, dictionaries and tuples containing them -/
def PyVal.hashable : PyVal → Bool
  | .list _ | .dict _ => false
  | .tuple xs => hashableL xs
  | _ => true
def hashableL : List PyVal → Bool
  | [] => true
  | x :: r => x.hashable && hashableL r
end

/-! ### sequences -/

/-- Python index normalisation: negative indices count from the end -/
def normIdx (n : Nat) (i : Int) : Option Nat :=
  if 0 ≤ i then (if i.toNat < n then some i.toNat else Option.none)
  else (if -i ≤ (n : Int) then some ((n : Int) + i).toNat else Option.none)

def strChars (s : String) : List PyVal := s.toList.map (fun c => .str (String.singleton c))

/-- `x[i]` -/
def pyGetItem (x i : PyVal) : PyM PyVal :=
  match x with
  | .list xs | .tuple xs =>
    match i.int? with
    | some k => match normIdx xs.length k with
      | some j => pure (xs.getD j .none)
      | Option.none => raise "IndexError" "index out of range"
    | Option.none => raise "TypeError" "indices must be integers"
  | .str s =>
    match i.int? with
    | some k => match normIdx s.length k with
      | some j => pure ((strChars s).getD j .none)
      | Option.none => raise "IndexError" "string index out of range"
    | Option.none => raise "TypeError" "string indices must be integers"
  | .dict kvs =>
    match i with
    | .str k => match kvs.lookup k with
      | some v => pure v
      | Option.none => raise "KeyError" k
    | _ => if i.hashable then raise "KeyError" "key" else raise "TypeError" "unhashable type"
  | _ => raise "TypeError" "object is not subscriptable"

/-- clamp of a slice bound -/
def sliceBound (n : Nat) (b : Option Int) (dflt : Nat) : Nat :=
  match b with
  | Option.none => dflt
  | some i => if 0 ≤ i then min i.toNat n else ((n : Int) + i).toNat

def sliceArg : Option PyVal → PyM (Option Int)
  | Option.none => pure Option.none
  | some .none => pure Option.none
  | some v => match v.int? with
    | some i => pure (some i)
    | Option.none => raise "TypeError" "slice indices must be integers or None"

/-- `x[lo:hi]` -/
def pySlice (x : PyVal) (lo hi : Option PyVal) : PyM PyVal := do
  let l ← sliceArg lo
  let h ← sliceArg hi
  let cut := fun {α : Type} (xs : List α) =>
    let a := sliceBound xs.length l 0
    let b := sliceBound xs.length h xs.length
    (xs.drop a).take (b - a)
  match x with
  | .list xs => pure (.list (cut xs))
  | .tuple xs => pure (.tuple (cut xs))
  | .str s => pure (.str (String.ofList (cut s.toList)))
  | .dict _ => raise "KeyError" "slice"
  | _ => raise "TypeError" "object is not subscriptable"

/-- `len(x)` -/
def pyLen : PyVal → PyM PyVal
  | .list xs | .tuple xs => pure (.int xs.length)
  | .str s => pure (.int s.length)
  | .dict kvs => pure (.int kvs.length)
  | _ => raise "TypeError" "object has no len()"

/-- the values `for v in x` visits -/
def pyIter : PyVal → PyM (List PyVal)
  | .list xs | .tuple xs => pure xs
  | .str s => pure (strChars s)
  | .dict kvs => pure (kvs.map (fun kv => .str kv.1))
  | _ => raise "TypeError" "object is not iterable"

/-- `range(a)`, `range(a, b)`, `range(a, b, c)` as the list of its values -/
def pyRange (args : List PyVal) : PyM (List PyVal) :=
  match args.map PyVal.int? with
  | [some n] => pure ((List.range n.toNat).map (fun (k : Nat) => .int (k : Int)))
  | [some a, some b] => pure ((List.range (b - a).toNat).map (fun (k : Nat) => .int (a + (k : Int))))
  | [some a, some b, some c] =>
    if c = 0 then raise "ValueError" "range() arg 3 must not be zero"
    else if 0 < c then pure ((List.range ((b - a + c - 1) / c).toNat).map (fun (k : Nat) => .int (a + c * (k : Int))))
    else pure ((List.range ((a - b - c - 1) / (-c)).toNat).map (fun (k : Nat) => .int (a + c * (k : Int))))
  | [] => raise "TypeError" "range expected at least 1 argument"
  | _ => if args.length > 3 then raise "TypeError" "range expected at most 3 arguments"
         else raise "TypeError" "object cannot be interpreted as an integer"

/-- `list(x)` -/
def pyList (x : PyVal) : PyM PyVal := do pure (.list (← pyIter x))
/-- `tuple(x)` -/
def pyTuple (x : PyVal) : PyM PyVal := do pure (.tuple (← pyIter x))

/-- `x.extend(y)` as the new value of `x` -/
def pyExtend (x y : PyVal) : PyM PyVal :=
  match x with
  | .list xs => do pure (.list (xs ++ (← pyIter y)))
  | _ => raise "AttributeError" "extend"

/-- `x.append(y)` as the new value of `x` -/
def pyAppend (x y : PyVal) : PyM PyVal :=
  match x with
  | .list xs => pure (.list (xs ++ [y]))
  | _ => raise "AttributeError" "append"

/-- `x[i] = v` as the new value of `x` -/
def pySetItem (x i v : PyVal) : PyM PyVal :=
  match x with
  | .list xs =>
    match i.int? with
    | some k => match normIdx xs.length k with
      | some j => pure (.list (xs.set j v))
      | Option.none => raise "IndexError" "list assignment index out of range"
    | Option.none => raise "TypeError" "list indices must be integers"
  | .dict kvs =>
    match i with
    | .str k =>
      if kvs.any (fun kv => kv.1 == k) then pure (.dict (kvs.map (fun kv => if kv.1 == k then (k, v) else kv)))
      else pure (.dict (kvs ++ [(k, v)]))
    | _ => if i.hashable then raise "Unsupported" "dict key that is not a string" else raise "TypeError" "unhashable type"
  | .tuple _ | .str _ => raise "TypeError" "object does not support item assignment"
  | _ => raise "TypeError" "object does not support item assignment"

/-- tuple unpacking `a, b, ... = v` with `n` targets -/
def pyUnpack (v : PyVal) (n : Nat) : PyM (List PyVal) := do
  let xs ← pyIter v
  if xs.length < n then raise "ValueError" "not enough values to unpack"
  else if xs.length > n then raise "ValueError" "too many values to unpack"
  else pure xs

/-! ### dictionaries -/

/-- insertion keeps the position of an existing key (Python dict semantics) -/
def dictInsert (kvs : List (String × PyVal)) (k : String) (v : PyVal) : List (String × PyVal) :=
  if kvs.any (fun kv => kv.1 == k) then kvs.map (fun kv => if kv.1 == k then (k, v) else kv) else kvs ++ [(k, v)]

/-- `{k1: v1, ...}` / a dict comprehension: string keys only -/
def pyMkDictAux : List (PyVal × PyVal) → List (String × PyVal) → PyM PyVal
  | [], acc => pure (.dict acc)
  | (k, v) :: r, acc =>
    match k with
    | .str s => pyMkDictAux r (dictInsert acc s v)
    | _ => if k.hashable then raise "Unsupported" "dict key that is not a string" else raise "TypeError" "unhashable type"
def pyMkDict (kvs : List (PyVal × PyVal)) : PyM PyVal := pyMkDictAux kvs []

/-- `d.get(k, dflt)` -/
def pyDictGet (d k dflt : PyVal) : PyM PyVal :=
  match d with
  | .dict kvs =>
    match k with
    | .str s => pure ((kvs.lookup s).getD dflt)
    | _ => if k.hashable then pure dflt else raise "TypeError" "unhashable type"
  | _ => raise "AttributeError" "get"

/-- `d.items()` as a list of 2-tuples -/
def pyItems : PyVal → PyM PyVal
  | .dict kvs => pure (.list (kvs.map (fun kv => .tuple [.str kv.1, kv.2])))
  | _ => raise "AttributeError" "items"
def pyKeys : PyVal → PyM PyVal
  | .dict kvs => pure (.list (kvs.map (fun kv => .str kv.1)))
  | _ => raise "AttributeError" "keys"
def pyValues : PyVal → PyM PyVal
  | .dict kvs => pure (.list (kvs.map (fun kv => kv.2)))
  | _ => raise "AttributeError" "values"

/-! ### membership, comparison, arithmetic -/

def isInfixStr (a b : List Char) : Bool :=
  (List.range (b.length + 1)).any (fun k => (b.drop k).take a.length == a)

/-- `a in b` -/
def pyIn (a b : PyVal) : PyM Bool :=
  match b with
  | .list xs | .tuple xs => pure (xs.any (fun x => pyEq a x))
  | .dict kvs =>
    match a with
    | .str k => pure (kvs.any (fun kv => kv.1 == k))
    | _ => if a.hashable then pure false else raise "TypeError" "unhashable type"
  | .str s =>
    match a with
    | .str t => pure (isInfixStr t.toList s.toList)
    | _ => raise "TypeError" "'in <string>' requires string as left operand"
  | _ => raise "TypeError" "argument is not iterable"

def pyNotIn (a b : PyVal) : PyM Bool := do pure (!(← pyIn a b))

/-- three-way comparison for `<`, `<=`, `>`, `>=`: numbers with numbers, strings with strings -/
def pyCmp (a b : PyVal) : PyM Ordering :=
  match a.num?, b.num? with
  | some x, some y => pure (if x < y then .lt else if x == y then .eq else .gt)
  | _, _ =>
    match a, b with
    | .str s, .str t => pure (if s < t then .lt else if s == t then .eq else .gt)
    | _, _ => raise "TypeError" "ordering not supported between these instances"

def pyLt (a b : PyVal) : PyM Bool := do pure ((← pyCmp a b) == .lt)
def pyLe (a b : PyVal) : PyM Bool := do pure ((← pyCmp a b) != .gt)
def pyGt (a b : PyVal) : PyM Bool := do pure ((← pyCmp a b) == .gt)
def pyGe (a b : PyVal) : PyM Bool := do pure ((← pyCmp a b) != .lt)

/-- integer result when both operands are `int` / `bool`, float when one is a float -/
def arith (name : String) (fi : Int → Int → Int) (fq : Rat → Rat → Rat) (a b : PyVal) : PyM PyVal :=
  match a.int?, b.int? with
  | some x, some y => pure (.int (fi x y))
  | _, _ =>
    match a.num?, b.num? with
    | some x, some y => pure (.float (fq x y))
    | _, _ => raise "TypeError" ("unsupported operand type(s) for " ++ name)

/-- `a + b`: numbers, or concatenation of two lists / tuples / strings -/
def pyAdd (a b : PyVal) : PyM PyVal :=
  match a, b with
  | .list x, .list y => pure (.list (x ++ y))
  | .tuple x, .tuple y => pure (.tuple (x ++ y))
  | .str x, .str y => pure (.str (x ++ y))
  | _, _ => arith "+" (· + ·) (· + ·) a b
def pySub (a b : PyVal) : PyM PyVal := arith "-" (· - ·) (· - ·) a b
/-- `a * b` on numbers (sequence repetition is outside the subset) -/
def pyMul (a b : PyVal) : PyM PyVal :=
  match a, b with
  | .list _, _ | .tuple _, _ | .str _, _ | _, .list _ | _, .tuple _ | _, .str _ =>
    raise "Unsupported" "sequence repetition"
  | _, _ => arith "*" (· * ·) (· * ·) a b
def pyNeg (a : PyVal) : PyM PyVal :=
  match a.int? with
  | some x => pure (.int (-x))
  | Option.none => match a with
    | .float q => pure (.float (-q))
    | _ => raise "TypeError" "bad operand type for unary -"

/-- running minimum / maximum (the first of equal elements is kept, as in Python) -/
def pyBest (isMin : Bool) : PyVal → List PyVal → PyM PyVal
  | best, [] => pure best
  | best, y :: r => do
    let c ← pyCmp y best
    pyBest isMin (if (isMin && c == .lt) || (!isMin && c == .gt) then y else best) r

/-- `min(a, b, ...)` / `max(a, b, ...)` with at least two positional arguments, or one iterable -/
def pyMinMax (isMin : Bool) (args : List PyVal) : PyM PyVal := do
  let xs ← match args with
    | [] => raise "TypeError" "expected at least 1 argument"
    | [x] => pyIter x
    | _ => pure args
  match xs with
  | [] => raise "ValueError" "arg is an empty sequence"
  | x :: r => pyBest isMin x r
def pyMin (args : List PyVal) : PyM PyVal := pyMinMax true args
def pyMax (args : List PyVal) : PyM PyVal := pyMinMax false args

/-! ### strings -/

def strPrefixes (p : PyVal) : PyM (List String) :=
  match p with
  | .str t => pure [t]
  | .tuple ts => ts.mapM (fun t => match t with
      | .str u => pure u
      | _ => raise "TypeError" "tuple for startswith must only contain str")
  | _ => raise "TypeError" "startswith first arg must be str or a tuple of str"

/-- `s.startswith(p)`, `p` a string or a tuple of strings -/
def pyStartswith (s p : PyVal) : PyM Bool :=
  match s with
  | .str t => do pure ((← strPrefixes p).any (fun u => u.toList.isPrefixOf t.toList))
  | _ => raise "AttributeError" "startswith"
def pyEndswith (s p : PyVal) : PyM Bool :=
  match s with
  | .str t => do pure ((← strPrefixes p).any (fun u => u.toList.isSuffixOf t.toList))
  | _ => raise "AttributeError" "endswith"

/-! ### comprehension helper -/

/-- `[f x for x in xs if ...]`: `f` returns `none` for a filtered element -/
def pyComp {α : Type} (xs : List PyVal) (f : PyVal → PyM (Option α)) : PyM (List α) :=
  match xs with
  | [] => pure []
  | x :: r => do
    let y ← f x
    let ys ← pyComp r f
    pure (match y with | some y => y :: ys | Option.none => ys)

/-- target of a two-name comprehension / loop variable `for k, v in ...` -/
def unpackAt (xs : List PyVal) (i : Nat) : PyVal := xs.getD i .none

/-! ### well-formed values: dictionaries have pairwise distinct keys -/

mutual
def PyVal.wf : PyVal → Bool
  | .list xs => wfL xs
  | .tuple xs => wfL xs
  | .dict kvs => wfD kvs && (kvs.map (·.1)).Nodup
  | _ => true
def wfL : List PyVal → Bool
  | [] => true
  | x :: r => x.wf && wfL r
def wfD : List (String × PyVal) → Bool
  | [] => true
  | (_, v) :: r => v.wf && wfD r
end

end PyamgV.ExtPy
