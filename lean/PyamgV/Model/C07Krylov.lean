import PyamgV.Model.CRat
/-! PyamgV (C07): executable models of the *recurrences* of `pyamg/krylov/_cg.py`, `_cr.py`,
`_cgne.py`, `_cgnr.py`, `_steepest_descent.py`, `_minimal_residual.py` -- the body of the
`while True:` loop of each file, statement by statement (alpha, beta, direction update, the periodic
recomputation of the residual, the side on which the preconditioner is applied), without the
bookkeeping (stopping test, status, history: those are C06's).

The recurrences are written once, over an abstract record `Ops K V` of the vector operations they
use.  The driver runs them on `Vector Rat n` / `Vector CRat n` (`vecOps`), the theorems of
`Proofs/C07Refine.lean` are about the same definitions instantiated with the operations of a
`K`-module (`Ops.ofModule`) and are transported to the `Vector` instance (`Proofs/C07Vec.lean`).
Core Lean only. -/
namespace PyamgV.C07

/-- the vector operations a recurrence uses; `dot u v` is `np.inner(u.conjugate(), v)` -/
structure Ops (K V : Type) where
  add : V → V → V
  sub : V → V → V
  smul : K → V → V
  dot : V → V → K
  A : V → V
  AH : V → V
  M : V → V

/-- `np.mod(it, every) and it > 0` -/
def recur (it every : Nat) : Bool := it % every ≠ 0 && it > 0

def iter {σ : Type} (f : σ → σ) : Nat → σ → σ
  | 0, s => s
  | k+1, s => f (iter f k s)

section
variable {K V : Type} [Div K] (o : Ops K V) (b : V)

/-! ### `_cg.py` -/
structure CgSt (K V : Type) where
  x : V
  r : V
  z : V
  p : V
  rz : K
  it : Nat

def cgInit (x0 : V) : CgSt K V :=
  let r := o.sub b (o.A x0)
  let z := o.M r
  ⟨x0, r, z, z, o.dot r z, 0⟩

def cgStep (s : CgSt K V) : CgSt K V :=
  let Ap := o.A s.p
  let pAp := o.dot Ap s.p
  let α := s.rz / pAp                                                   -- 3
  let x := o.add s.x (o.smul α s.p)                                     -- 4
  let r := if recur s.it 8 then o.sub s.r (o.smul α Ap) else o.sub b (o.A x)   -- 5
  let z := o.M r                                                        -- 6
  let rz := o.dot r z
  let β := rz / s.rz                                                    -- 7
  ⟨x, r, z, o.add z (o.smul β s.p), rz, s.it + 1⟩                       -- 8

/-- denominators of the next step -/
def cgDen (s : CgSt K V) : List K := [o.dot (o.A s.p) s.p, s.rz]

/-! ### `_cr.py` -/
structure CrSt (K V : Type) where
  x : V
  r : V
  z : V
  p : V
  Ap : V
  rAz : K
  it : Nat

def crInit (x0 : V) : CrSt K V :=
  let r := o.sub b (o.A x0)
  let z := o.M r
  let Az := o.A z
  ⟨x0, r, z, z, o.A z, o.dot r Az, 0⟩

def crStep (s : CrSt K V) : CrSt K V :=
  let α := s.rAz / o.dot s.Ap s.Ap
  let x := o.add s.x (o.smul α s.p)
  let r := if recur s.it 8 then o.sub s.r (o.smul α s.Ap) else o.sub b (o.A x)
  let z := o.M r
  let Az := o.A z
  let rAz := o.dot r Az
  let β := rAz / s.rAz
  ⟨x, r, z, o.add z (o.smul β s.p), o.add Az (o.smul β s.Ap), rAz, s.it + 1⟩

def crDen (s : CrSt K V) : List K := [o.dot s.Ap s.Ap, s.rAz]

/-! ### `_cgne.py` -/
structure NeSt (K V : Type) where
  x : V
  r : V
  z : V
  p : V
  zr : K
  it : Nat

def cgneInit (x0 : V) : NeSt K V :=
  let r := o.sub b (o.A x0)
  let z := o.M r
  ⟨x0, r, z, o.AH z, o.dot z r, 0⟩

def cgneStep (s : NeSt K V) : NeSt K V :=
  let α := s.zr / o.dot s.p s.p
  let x := o.add s.x (o.smul α s.p)
  let r := if recur s.it 8 then o.sub s.r (o.smul α (o.A s.p)) else o.sub b (o.A x)
  let z := o.M r
  let zr := o.dot z r
  let β := zr / s.zr
  ⟨x, r, z, o.add (o.AH z) (o.smul β s.p), zr, s.it + 1⟩

def cgneDen (s : NeSt K V) : List K := [o.dot s.p s.p, s.zr]

/-! ### `_cgnr.py` -/
structure NrSt (K V : Type) where
  x : V
  r : V
  rhat : V
  z : V
  p : V
  zr : K
  it : Nat

def cgnrInit (x0 : V) : NrSt K V :=
  let r := o.sub b (o.A x0)
  let rhat := o.AH r
  let z := o.M rhat
  ⟨x0, r, rhat, z, z, o.dot z rhat, 0⟩

def cgnrStep (s : NrSt K V) : NrSt K V :=
  let w := o.A s.p
  let α := s.zr / o.dot w w
  let x := o.add s.x (o.smul α s.p)
  let r := if recur s.it 8 then o.sub s.r (o.smul α w) else o.sub b (o.A x)
  let rhat := o.AH r
  let z := o.M rhat
  let zr := o.dot z rhat
  let β := zr / s.zr
  ⟨x, r, rhat, z, o.add z (o.smul β s.p), zr, s.it + 1⟩

def cgnrDen (s : NrSt K V) : List K := [o.dot (o.A s.p) (o.A s.p), s.zr]

/-! ### `_steepest_descent.py` -/
structure SdSt (K V : Type) where
  x : V
  r : V
  z : V
  rz : K
  it : Nat

def sdInit (x0 : V) : SdSt K V :=
  let r := o.sub b (o.A x0)
  let z := o.M r
  ⟨x0, r, z, o.dot r z, 0⟩

def sdStep (s : SdSt K V) : SdSt K V :=
  let q := o.A s.z
  let zAz := o.dot s.z q
  let α := s.rz / zAz
  let x := o.add s.x (o.smul α s.z)
  let it := s.it + 1
  let r := if recur it 50 then o.sub b (o.A x) else o.sub s.r (o.smul α q)
  let z := o.M r
  ⟨x, r, z, o.dot r z, it⟩

def sdDen (s : SdSt K V) : List K := [o.dot s.z (o.A s.z)]

/-! ### `_minimal_residual.py` -/
structure MrSt (K V : Type) where
  x : V
  z : V
  it : Nat

def mrInit (x0 : V) : MrSt K V := ⟨x0, o.M (o.sub b (o.A x0)), 0⟩

def mrStep (s : MrSt K V) : MrSt K V :=
  let p := o.M (o.A s.z)
  let pz := o.dot p s.z
  let α := pz / o.dot p p
  let x := o.add s.x (o.smul α s.z)
  let it := s.it + 1
  let z := if recur it 50 then o.M (o.sub b (o.A x)) else o.sub s.z (o.smul α p)
  ⟨x, z, it⟩

def mrDen (s : MrSt K V) : List K := [o.dot (o.M (o.A s.z)) (o.M (o.A s.z))]

end

/-- iterates `x_1 … x_m` of a recurrence, `m ≤ k`: stops before a step that would divide by zero
(the exact-arithmetic image of "converged / broke down") -/
def iterates {σ K V : Type} [OfNat K 0] [DecidableEq K] (step : σ → σ) (den : σ → List K) (getx : σ → V) :
    Nat → σ → List V
  | 0, _ => []
  | k+1, s =>
    if (den s).any (· == 0) then [] else
      let s' := step s
      getx s' :: iterates step den getx k s'

/-! ### the list instance the driver runs -/
section lists
variable {K : Type} [Add K] [Sub K] [Mul K] [OfNat K 0]

/-- `Σ conj(aᵢ) bᵢ` -/
def dotc (conj : K → K) : List K → List K → K
  | a :: as, b :: bs => conj a * b + dotc conj as bs
  | _, _ => 0
/-- `Σ aᵢ bᵢ` (no conjugation) -/
def dotu : List K → List K → K
  | a :: as, b :: bs => a * b + dotu as bs
  | _, _ => 0
def mv (A : List (List K)) (x : List K) : List K := A.map (fun row => dotu row x)
def vadd (u v : List K) : List K := List.zipWith (· + ·) u v
def vsub (u v : List K) : List K := List.zipWith (· - ·) u v
def vsmul (c : K) (v : List K) : List K := v.map (c * ·)
/-- conjugate transpose of an `n × n` matrix given by rows -/
def ctrans (conj : K → K) (n : Nat) (A : List (List K)) : List (List K) :=
  (List.range n).map (fun j => A.map (fun row => conj (row.getD j 0)))

end lists

/-! ### the instance the driver runs: vectors of `Kⁿ` as `Vector K n` -/
section vectors
variable {K : Type} [Add K] [Sub K] [Mul K] [OfNat K 0] {n : Nat}

/-- `Σ_{i<k} conj(uᵢ) vᵢ` -/
def vdotN (conj : K → K) (u v : Vector K n) : Nat → K
  | 0 => 0
  | k+1 => vdotN conj u v k + conj (u[k]?.getD 0) * (v[k]?.getD 0)
/-- `np.inner(u.conjugate(), v)` -/
def vdot (conj : K → K) (u v : Vector K n) : K := vdotN conj u v n
/-- matrix (rows) times vector -/
def vmv (A : Vector (Vector K n) n) (x : Vector K n) : Vector K n := A.map (fun row => vdot (fun a => a) row x)
/-- conjugate transpose -/
def vctrans (conj : K → K) (A : Vector (Vector K n) n) : Vector (Vector K n) n :=
  Vector.ofFn (fun j => Vector.ofFn (fun i => conj (A[i][j])))

def vecOps (conj : K → K) (A M : Vector (Vector K n) n) : Ops K (Vector K n) :=
  { add := Vector.zipWith (· + ·), sub := Vector.zipWith (· - ·), smul := fun c v => v.map (c * ·),
    dot := vdot conj, A := vmv A, AH := vmv (vctrans conj A), M := vmv M }

/-- rows as lists → `n × n` matrix; `none` when a size is wrong (the driver rejects the request) -/
def toVec? (n : Nat) (l : List K) : Option (Vector K n) :=
  if h : l.toArray.size = n then some ⟨l.toArray, h⟩ else none
def toMat? (n : Nat) (A : List (List K)) : Option (Vector (Vector K n) n) :=
  match A.mapM (toVec? n) with
  | none => none
  | some rows => toVec? n rows
end vectors

/-- the solvers by name: iterates `x_1 … x_m` (`m ≤ k`) -/
def runByName {K : Type} [Add K] [Sub K] [Mul K] [Div K] [OfNat K 0] [DecidableEq K]
    (conj : K → K) (name : String) (A M : List (List K)) (b x0 : List K) (k : Nat) :
    Option (List (List K)) :=
  let n := b.length
  match toMat? n A, toMat? n M, toVec? n b, toVec? n x0 with
  | some A, some M, some b, some x0 =>
    let o := vecOps conj A M
    let out := fun (l : List (Vector K n)) => some (l.map (·.toList))
    match name with
    | "cg" => out (iterates (cgStep o b) (cgDen o) (·.x) k (cgInit o b x0))
    | "cr" => out (iterates (crStep o b) (crDen o) (·.x) k (crInit o b x0))
    | "cgne" => out (iterates (cgneStep o b) (cgneDen o) (·.x) k (cgneInit o b x0))
    | "cgnr" => out (iterates (cgnrStep o b) (cgnrDen o) (·.x) k (cgnrInit o b x0))
    | "steepest_descent" => out (iterates (sdStep o b) (sdDen o) (·.x) k (sdInit o b x0))
    | "minimal_residual" => out (iterates (mrStep o b) (mrDen o) (·.x) k (mrInit o b x0))
    | _ => none
  | _, _, _, _ => none

end PyamgV.C07
