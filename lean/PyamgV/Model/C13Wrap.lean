import PyamgV.Model.RsModel
import PyamgV.Model.KCljp
import PyamgV.Model.KGraph
import PyamgV.Proofs.RsPass2
import PyamgV.Proofs.MisPar

/-! PyamgV (C13): executable models of the *public* splitting routines of
`pyamg/classical/split.py` — everything between the CSR arrays of the caller's strength matrix and
the returned splitting:

* `remove_diagonal` (utils.py:1698): COO round trip; the result has sorted rows without duplicates
  and without diagonal entries (`offRow`);
* `S.T.tocsr()`: row `j` of the transpose lists the rows of `S` containing `j` in increasing order
  (`trRow`);
* `_preprocess`: `G = S + T` with all data set to one, rows = sorted union (`symRow`);
* the kernels, through their validated models (`RS.run`, `RS.pass2`, `KCljp.run`, the parallel MIS in
  both its array form `G.misParallel` and its proof-side form `parIter`);
* `_set_dirichlet` (PMIS only): nodes with an empty row of `G` are made F.

The random weights (NumPy's for PMIS/PMISc, libc's `rand()` stream for CLJP) are inputs of the
models. Core Lean only (no Mathlib). -/
namespace PyamgV.C13
open PyamgV

/-- the caller's CSR pattern (`n`, `indptr`, `indices`) -/
abbrev Pat := RS.Csr

/-- what SciPy guarantees about a `csr_array` (anything else is rejected by the driver) -/
def Pat.valid (S : Pat) : Bool :=
  S.ap.size == S.n + 1 && RS.rdN S.ap 0 == 0 && RS.rdN S.ap S.n == S.aj.size
    && (List.range S.n).all (fun i => RS.rdN S.ap i ≤ RS.rdN S.ap (i+1))
    && S.aj.all (· < S.n)

/-- row `i` of `remove_diagonal(S)`: sorted, no duplicates, no diagonal -/
def offRow (S : Pat) (i : Nat) : List Nat :=
  (List.range S.n).filter (fun j => j != i && (S.row i).contains j)

/-- row `j` of the CSR form of the transpose of the pattern with rows `r` -/
def trRow (n : Nat) (r : Nat → List Nat) (j : Nat) : List Nat :=
  (List.range n).filter (fun i => (r i).contains j)

/-- row `i` of `S + Sᵀ` -/
def symRow (n : Nat) (r : Nat → List Nat) (i : Nat) : List Nat :=
  (List.range n).filter (fun j => (r i).contains j || (r j).contains i)

@[inline] def rowFn (a : Array (List Nat)) (i : Nat) : List Nat := a.getD i []

def offRows (S : Pat) : Array (List Nat) := (Array.range S.n).map (offRow S)
def trRows (n : Nat) (a : Array (List Nat)) : Array (List Nat) := (Array.range n).map (trRow n (rowFn a))
def symRows (n : Nat) (a : Array (List Nat)) : Array (List Nat) := (Array.range n).map (symRow n (rowFn a))

/-- number of stored entries before row `i` -/
def offs (f : Nat → List Nat) (i : Nat) : Nat := ((List.range i).map (fun k => (f k).length)).sum

/-- CSR arrays of the pattern with rows `f 0 … f (n-1)` -/
def ofRows (n : Nat) (f : Nat → List Nat) : RS.Csr :=
  ⟨n, ((List.range (n+1)).map (offs f)).toArray, ((List.range n).flatMap f).toArray⟩

def toK (S : RS.Csr) : KCljp.Csr := ⟨S.n, S.ap, S.aj⟩
def toG (S : RS.Csr) : G.Graph := ⟨S.n, S.ap, S.aj⟩

/-- `remove_diagonal(S)` and its transpose as CSR arrays -/
def prepS (S : Pat) : RS.Csr := ofRows S.n (rowFn (offRows S))
def prepT (S : Pat) : RS.Csr := ofRows S.n (rowFn (trRows S.n (offRows S)))
def prepG (S : Pat) : RS.Csr := ofRows S.n (rowFn (symRows S.n (offRows S)))

/-! ### `RS(S, second_pass)` -/
def rsSplit (S : Pat) (second : Bool) : Array Int :=
  let x := RS.run (prepS S) (prepT S)
  if second then RS.pass2 (prepS S) x else x

/-! ### `PMIS(S)` (`dirichlet = true`) and `PMISc(S, method)` (`dirichlet = false`) for the weights
`w` produced by `_preprocess` -/
def symGraph (S : Pat) : PyamgV.Graph := ⟨S.n, rowFn (symRows S.n (offRows S))⟩

def setDirichlet (S : Pat) (x : Array Int) : Array Int :=
  let g := symGraph S
  (Array.range S.n).map (fun i => if (g.adj i).isEmpty then 0 else x.getD i 0)

variable {W : Type} [LT W] [DecidableRel (α := W) (· < ·)] [DecidableEq W] [Inhabited W]

/-- proof-side form: `n` passes of the sweep over the `adj` function -/
def pmisSplit (S : Pat) (w : Nat → W) (dirichlet : Bool) : Array Int :=
  let x := parIter (symGraph S) (-1) 1 0 w S.n (Array.replicate S.n (-1))
  if dirichlet then setDirichlet S x else x

/-- array form: the kernel model on the CSR arrays of `G` with the kernel's own stopping rule -/
def pmisSplitK (S : Pat) (w : Array W) (dirichlet : Bool) : Array Int :=
  let x := (G.misParallel (toG (prepG S)) (-1) 1 0 w none (Array.replicate S.n (-1))).1
  if dirichlet then setDirichlet S x else x

/-! ### `CLJP(S)` / `CLJPc(S)` -/
/-- colour weights of `cljp_naive_splitting(colorflag = 1)`: `coloring[i] / ncolors` -/
def colorWeights {V : Type} (ofI : Int → V) (div : V → V → V) (S : Pat) : Array V :=
  let c := G.coloringMis (toG (prepS S))
  let nc := c.foldl max (c.getD 0 0) + 1
  c.map (fun v => div (ofI v) (ofI nc))

def cljpSplit {V : Type} [Inhabited V] (o : KCljp.WOps V) (S : Pat) (w0 : Array V) : Array Int × Bool :=
  KCljp.run o (toK (prepS S)) (toK (prepT S)) w0 (S.n + 1)

def ratOps : KCljp.WOps Rat := ⟨fun a b => decide (a < b), fun a => a + 1, fun a => a - 1, 1⟩

end PyamgV.C13
