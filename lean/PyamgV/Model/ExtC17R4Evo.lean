import PyamgV.Model.ExtC17R4Svd

/-! PyamgV (C17, extension E32, round 4): checked-execution (`Ck`) models of `svd_solve` (linalg.h) and of
`evolution_strength_helper` (evolution_strength.h), written loop by loop after the C++.

* the eight work arrays `new T[..]` of the kernel are part of the state (`z`, `zhat` of `max_length`, `DBi`, `Bi` of
  `max_length*NullDim`, `LHS` of `(NullDim+1)²`, `RHS` of `NullDim+1`, `sing_vals` of `NullDim+1`); the array `work` of
  `2(NullDim+1)² + (NullDim+1)` entries is modelled by its three regions `U = work`, `V = work + mn`, `x = work + 2mn` as three
  arrays (an access that leaves its region is a fault of the model although it stays inside `work`);
* `gemm` is `C17.gemmFF`, `svd_jacobi` / `transpose` are the models of `Model/ExtC17R4Svd.lean`;
* running counters (`Bicounter`, `Bcounter`, `LHScounter`, `BDBCounter`, `counter`, `zcounter`) are loop state.

Scalars are abstract (`EsOps`).  Core Lean only. -/
namespace PyamgV.C17R4
open PyamgV.Ck PyamgV.C17

structure EsOps (α : Type) where
  sv : SvOps α
  /-- `imag(.)` -/
  im : α → α
  zeroRe : α → α
  zeroIm : α → α
  /-- `mynormsq` -/
  normsq : α → α
  /-- the constants `1e-8`, `1e-4` -/
  c1em8 : α
  c1em4 : α

variable {α : Type} [Inhabited α]

/-- `svd_solve(Ax, m, n, b, sing_vals, work, work_size)`; `sv = (U, V, sing_vals)`, `xw` the region `x` of `work`;
returns `(b, sv, xw)` -/
def svdSolve (o : SvOps α) (ax : Array α) (m n : Nat) (b : Array α) (sv : SV α) (xw : Array α) :
    Ck (Array α × SV α × Array α) := do
  let r ← svdJacobi o ax 0 sv (m : Int) (n : Int)
  let U ← forRange 0 ((m : Int) * (n : Int)) r.1.U (fun i (U : Array α) => do
    let u ← rd U i
    wr U i (o.conj u))
  let x ← gemmFF o.toK U 0 n m b 0 m 1 xw 0 n 1
  let x ← forRange 0 (n : Int) x (fun j (x : Array α) => do
    let s ← rd r.1.S j
    if o.eq s o.zero then wr x j o.zero
    else do
      let xj ← rd x j
      wr x j (o.div xj s))
  let U ← transposeM r.1.V 0 U 0 (n : Int) (n : Int)
  let b ← gemmFF o.toK U 0 n n x 0 n 1 b 0 n 1
  pure (b, ⟨U, r.1.V, r.1.S⟩, x)

/-- the work arrays of `evolution_strength_helper` -/
structure EW (α : Type) where
  z : Array α
  zhat : Array α
  DBi : Array α
  Bi : Array α
  LHS : Array α
  RHS : Array α
  sv : SV α
  xw : Array α

/-- `max_length = max_i (Sp[i+1] - Sp[i])` -/
def esMaxLen (nrows : Nat) (sp : Array Int) : Ck Int :=
  forRange 0 (nrows : Int) (0 : Int) (fun i (mx : Int) => do
    let e ← rd sp (i+1)
    let s ← rd sp i
    pure (if mx < e - s then e - s else mx))

/-- the local least-squares matrix: the packed rows of `BDB` of the neighbours summed into the `ND × ND` block of `LHS` -/
def esLhs (o : SvOps α) (sj : Array Int) (s e : Int) (nd : Nat) (bdbCols : Int) (bdb : Array α) (lhs : Array α) : Ck (Array α) :=
  forRange s e lhs (fun jj (lhs : Array α) => do
    let j ← rd sj jj
    -- the diagonal; state `(LHS, LHScounter, BDBCounter)`
    let r ← forRange 0 (nd : Int) (lhs, (0 : Int), j * bdbCols) (fun m (st : Array α × Int × Int) => do
      let l ← rd st.1 st.2.1
      let v ← rd bdb st.2.2
      let lhs ← wr st.1 st.2.1 (o.add l v)
      pure (lhs, st.2.1 + ((nd : Int) + 1) + 1, st.2.2 + ((nd : Int) - m)))
    -- the off-diagonals; state `(LHS, BDBCounter)`
    let r ← forRange 0 (nd : Int) (r.1, j * bdbCols) (fun m (st : Array α × Int) => do
      -- state `(LHS, counter)`
      let r ← forRange (m + 1) (nd : Int) (st.1, (1 : Int)) (fun n (s2 : Array α × Int) => do
        let el ← rd bdb (st.2 + s2.2)
        let l1 ← rd s2.1 (m * ((nd : Int) + 1) + n)
        let lhs ← wr s2.1 (m * ((nd : Int) + 1) + n) (o.add l1 (o.conj el))
        let l2 ← rd lhs (n * ((nd : Int) + 1) + m)
        let lhs ← wr lhs (n * ((nd : Int) + 1) + m) (o.add l2 el)
        pure (lhs, s2.2 + 1))
      pure (r.1, st.2 + ((nd : Int) - m)))
    pure r.1)

/-- the last column and the last row of `LHS`: `B[i,:]` and `DB[:,i]` -/
def esBorder (i : Int) (nd nrows : Nat) (B DB : Array α) (lhs : Array α) : Ck (Array α) := do
  let ndp : Int := (nd : Int) + 1
  -- `for(j = NullDim, Bcounter = i*NullDim; j < NullDim*NullDimPone; j += NullDimPone, Bcounter++) LHS[j] = B[Bcounter];`
  let r ← forStep (nd : Int) ((nd : Int) * ndp) ndp (lhs, i * (nd : Int)) (fun j (st : Array α × Int) => do
    let v ← rd B st.2
    let lhs ← wr st.1 j v
    pure (lhs, st.2 + 1))
  -- `for(j = NullDim*NullDimPone, Bcounter = i; j < NullDimPone*NullDimPone - 1; j++, Bcounter += nrows) LHS[j] = DB[Bcounter];`
  let r ← forRange ((nd : Int) * ndp) (ndp * ndp - 1) (r.1, i) (fun j (st : Array α × Int) => do
    let v ← rd DB st.2
    let lhs ← wr st.1 j v
    pure (lhs, st.2 + (nrows : Int)))
  pure r.1

/-- the drop-tolerance pass over `zhat` and the final loop of a row; returns `Sx` -/
def esFinish (o : EsOps α) (tol : α) (sj : Array Int) (i s e : Int) (z zhat : Array α) (sx : Array α) : Ck (Array α) := do
  let v := o.sv
  let mz ← forRange s e (v.zero, (0 : Int)) (fun _ (st : α × Int) => do
    let zh ← rd zhat st.2
    let cn := v.nrm zh
    pure (if v.lt st.1 cn then cn else st.1, st.2 + 1))
  let toli := v.mul tol mz.1
  let zh ← forRange s e (zhat, (0 : Int)) (fun _ (st : Array α × Int) => do
    let c ← rd st.1 st.2
    let zh1 ← (if v.lt (v.nrm (v.re c)) toli then wr st.1 st.2 (o.zeroRe c) else pure st.1)
    let c ← rd zh1 st.2
    let zh2 ← (if v.lt (v.nrm (o.im c)) toli then wr zh1 st.2 (o.zeroIm c) else pure zh1)
    pure (zh2, st.2 + 1))
  let r ← forRange s e (sx, (0 : Int)) (fun jj (st : Array α × Int) => do
    let j ← rd sj jj
    if j = i then do
      let sx ← wr st.1 jj v.one
      pure (sx, st.2 + 1)
    else do
      let a ← rd zh.1 st.2
      let b ← rd z st.2
      let ratio := v.div a b
      let a2 ← rd zh.1 st.2
      let b2 ← rd z st.2
      let dprod := v.add (v.mul (v.re a2) (v.re b2)) (v.mul (o.im a2) (o.im b2))
      let val :=
        if v.le (o.normsq ratio) o.c1em8 then v.zero
        else if v.lt dprod v.zero then v.zero
        else
          let err := v.nrm (v.add (v.neg ratio) v.one)
          if v.lt err (v.sqrt v.eps) then o.c1em4 else err
      let sx ← wr st.1 jj val
      pure (sx, st.2 + 1))
  pure r.1

/-- one row `i` with more than `NullDim` entries; state `(Sx, work arrays)` -/
def esRow (o : EsOps α) (tol : α) (nrows nd : Nat) (bdbCols : Int) (sj : Array Int) (B DB bdb : Array α) (i s e : Int)
    (st : Array α × EW α) : Ck (Array α × EW α) := do
  let v := o.sv
  let len := e - s
  -- `std::copy(Sx + rowstart, Sx + rowend, z)`
  let z ← forRange 0 len st.2.z (fun t (z : Array α) => do
    let a ← rd st.1 (s + t)
    wr z t a)
  -- `z_at_i`, `Bi`; state `(Bi, z_at_i, Bicounter)`
  let r ← forRange s e (st.2.Bi, v.one, (0 : Int)) (fun jj (q : Array α × α × Int) => do
    let j ← rd sj jj
    let a ← rd st.1 jj
    let zi := if i = j then a else q.2.1
    let r ← forRange 0 (nd : Int) (q.1, q.2.2, j * (nd : Int)) (fun _ (p : Array α × Int × Int) => do
      let b ← rd B p.2.2
      let bi ← wr p.1 p.2.1 b
      pure (bi, p.2.1 + 1, p.2.2 + 1))
    pure (r.1, zi, r.2.1))
  -- `DBi`; state `(DBi, Bicounter, Bcounter)`
  let d ← forRange 0 (nd : Int) (st.2.DBi, (0 : Int), (0 : Int)) (fun _ (q : Array α × Int × Int) => do
    let r ← forRange s e (q.1, q.2.1) (fun jj (p : Array α × Int) => do
      let j ← rd sj jj
      let b ← rd DB (q.2.2 + j)
      let dbi ← wr p.1 p.2 b
      pure (dbi, p.2 + 1))
    pure (r.1, r.2, q.2.2 + (nrows : Int)))
  let ndp : Int := (nd : Int) + 1
  let lhs ← forRange 0 (ndp * ndp) st.2.LHS (fun kk (lhs : Array α) => wr lhs kk v.zero)
  let lhs ← esLhs v sj s e nd bdbCols bdb lhs
  let lhs ← esBorder i nd nrows B DB lhs
  let rhs ← gemmFF v.toK d.1 0 nd len.toNat z 0 len.toNat 1 st.2.RHS 0 nd 1
  let rhs ← forRange 0 (nd : Int) rhs (fun j (rhs : Array α) => do
    let a ← rd rhs j
    wr rhs j (v.mul a v.two))
  let rhs ← wr rhs (nd : Int) r.2.1
  let sol ← svdSolve v lhs (nd + 1) (nd + 1) rhs st.2.sv st.2.xw
  let zhat ← gemmFF v.toK r.1 0 len.toNat nd sol.1 0 nd 1 st.2.zhat 0 len.toNat 1
  let sx ← esFinish o tol sj i s e z zhat st.1
  pure (sx, ⟨z, zhat, d.1, r.1, lhs, sol.1, sol.2.1, sol.2.2⟩)

/-- `evolution_strength_helper(Sx, Sp, Sj, nrows, x, y, b, BDBCols, NullDim, tol)`; `zv` is the value of the uninitialised
work arrays; returns `Sx` -/
def evolutionHelper (o : EsOps α) (zv tol : α) (sx : Array α) (sp sj : Array Int) (nrows : Nat) (B DB bdb : Array α)
    (bdbCols : Int) (nd : Nat) : Ck (Array α) := do
  let ml ← esMaxLen nrows sp
  let ndp2 := (nd + 1) * (nd + 1)
  let w : EW α := ⟨Array.replicate ml.toNat zv, Array.replicate ml.toNat zv, Array.replicate (ml.toNat * nd) zv,
    Array.replicate (ml.toNat * nd) zv, Array.replicate ndp2 zv, Array.replicate (nd + 1) zv,
    ⟨Array.replicate ndp2 zv, Array.replicate ndp2 zv, Array.replicate (nd + 1) zv⟩, Array.replicate (nd + 1) zv⟩
  let r ← forRange 0 (nrows : Int) (sx, w) (fun i (st : Array α × EW α) => do
    let s ← rd sp i
    let e ← rd sp (i+1)
    if e - s ≤ (nd : Int) then do
      let sx ← forRange s e st.1 (fun kk (sx : Array α) => wr sx kk o.sv.one)
      pure (sx, st.2)
    else esRow o tol nrows nd bdbCols sj B DB bdb i s e st)
  pure r.1

end PyamgV.C17R4
