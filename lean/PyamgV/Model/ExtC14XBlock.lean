import PyamgV.Model.C14
import PyamgV.Model.ExtSpmm
import PyamgV.Model.ExtC14Energy
/-! PyamgV (C14, extension E40): strength measures on BSR input and on complex input.

Scalars are a type parameter `α` read through three functions: `nrm` (the modulus: `np.abs`, `mynorm`), `nsq` (the squared
modulus: `mynormsq`, `conj(a)*a`) and `re` (the value itself for real scalars; only used by the `'min'` norm, which the code
rejects for complex input with a `TypeError` -- the models then answer `none`).  The instances the driver runs: `α = Rat`
(`absQ`, `v*v`, `id`) and `α = CRat` with the modulus `cmodS sq z = sq (re² + im²)` for a square-root function `sq`
(the driver plugs in `sqrtApprox 100`; every theorem holds for every `sq` with the two properties of `SqrtLike`).

* BSR containers are `Spmm.Bsr α` of `Model/ExtSpmm.lean`; `A.tocsr()` is `Spmm.bsrToCsr` (theorem `val_bsrToCsr`).
* `classicalBlock`   : `classical_strength_of_connection(A_bsr, θ, block=True, norm)` (strength.py:186-245): block-wise
                       reduction (`blockAbsG` / `blockMinG` / `blockFroG`), the absolute `1e-16` drop, the scalar kernel on
                       the nodal matrix, `np.abs`, `scale_rows_by_largest_entry`, `eliminate_zeros`.
* `classicalNoBlock` : the same call with `block=False`: `A.tocsr()`, scalar kernel, tail, `amalgamate(S, blocksize)`.
* `symmetricBsr`     : `symmetric_strength_of_connection(A_bsr, θ)` (strength.py:322-342): ones on the block pattern for
                       `θ = 0`, otherwise the CSR path on `sqrt(Σ |a|²)` per block.
* `cclassical`, `csymmetric` : the CSR paths on complex data with the parametric modulus.
* `energyFullC`      : `energy_based_strength_of_connection` on complex canonical CSR input (complex weighted-Jacobi
                       approximate inverse, sesquilinear energy products, principal complex square root `csqrtS`,
                       NumPy's lexicographic `val > -0.01`, `abs(val)`), then the real tail `energyTailRow`.
* `energyBsrTail`    : the tail of the energy measure for BSR input (`tobsr`, ones on the non-zero blocks, scaling).
Core Lean only. -/
namespace PyamgV.C14X
open PyamgV PyamgV.N PyamgV.C14

variable {α : Type}

/-! ### complex scalars with a parametric square root -/

/-- `mynorm(z) = sqrt(re² + im²)`, `np.abs(z)` -/
def cmodS (sq : Rat → Rat) (z : CRat) : Rat := sq (CRat.normSq z)
def cadd (a b : CRat) : CRat := a + b
def creal (z : CRat) : Rat := z.re

/-- `classical_strength_of_connection(A, θ)` on complex CSR input (`norm='abs'`; `'min'` is a `TypeError`) -/
def cclassical (sq : Rat → Rat) (tiny θ : Rat) (rows : List (RowOf CRat)) : List Row :=
  pubClassical (cmodS sq) (cmodS sq) tiny tiny θ rows

/-- `symmetric_strength_of_connection(A, θ)` on complex CSR input: the kernel compares `mynormsq(a_ij)` (no square
root) with `θ² · mynorm(a_ii) · mynorm(a_jj)` -/
def csymmetric (sq : Rat → Rat) (tiny θ : Rat) (rows : List (RowOf CRat)) : List Row :=
  pubSymmetric (cmodS sq) CRat.normSq cadd 0 tiny θ rows

/-! ### block-wise reductions (strength.py:193-206), any scalar type -/

/-- `np.max(np.max(np.abs(block)))` -/
def blockAbsG (nrm : α → Rat) (b : List α) : Rat := b.foldl (fun m v => max m (nrm v)) 0
/-- `np.sum(np.sum(np.conjugate(block) * block))` -/
def blockFroG (nsq : α → Rat) (b : List α) : Rat := b.foldl (fun s v => s + nsq v) 0
/-- `np.min(np.min(block))` (real scalars) -/
def blockMinG (re : α → Rat) (b : List α) : Rat :=
  match b with | [] => 0 | v :: t => t.foldl (fun m w => min m (re w)) (re v)

/-- the reduction selected by `norm`; `none` is `ValueError('Invalid choice of norm.')` -/
def blockRed (nrm nsq re : α → Rat) (norm : String) : Option (List α → Rat) :=
  if norm = "abs" then some (blockAbsG nrm) else if norm = "min" then some (blockMinG re)
  else if norm = "fro" then some (blockFroG nsq) else none

/-- the `br * bc` entries of stored block number `jj`, row-major -/
def blkEntries [OfNat α 0] (X : Spmm.Bsr α) (jj : Nat) : List α :=
  (List.range (X.br * X.bc)).map fun t => Spmm.rd X.ax (jj * (X.br * X.bc) + t)

/-- nodal CSR row `I`: one value `f(block)` per stored block, in storage order -/
def redRow [OfNat α 0] (X : Spmm.Bsr α) (f : List α → Rat) (I : Nat) : Row :=
  (X.blockRow I).map fun b => (b.1, f (blkEntries X b.2))

/-- the nodal matrix (`N = int(A.shape[0] / blocksize)` rows) -/
def redRows [OfNat α 0] (X : Spmm.Bsr α) (f : List α → Rat) : List Row :=
  (List.range (X.rows / X.br)).map (redRow X f)

/-- `classical_strength_of_connection(A_bsr, θ, block=True, norm)`; `real = false` marks complex scalars (`'min'` is then a
`TypeError` of the kernel binding); `drop` is the double `1e-16` -/
def classicalBlock [OfNat α 0] (nrm nsq re : α → Rat) (real : Bool) (norm : String) (tiny drop θ : Rat)
    (X : Spmm.Bsr α) : Option (List Row) :=
  match blockRed nrm nsq re norm with
  | none => none
  | some red =>
    if norm = "min" ∧ real = false then none
    else some (pubClassicalNorm norm tiny θ (redRows X fun b => dropSmall drop (red b)))

/-! ### `block=False`: the scalar CSR form, the scalar measure, `amalgamate` -/

/-- the rows of `A.tocsr()` -/
def scalarRows [OfNat α 0] (X : Spmm.Bsr α) : List (RowOf α) :=
  (List.range X.rows).map fun i => (Spmm.bsrToCsr X).row i

/-- strength.py:243 `if blocksize > 1 and not block: S = amalgamate(S, blocksize)` -/
def amalgIf (bs : Nat) (S : List Row) : List Row := if bs > 1 then amalgamate bs S else S

/-- `classical_strength_of_connection(A_bsr, θ, block=False, norm)`: `'abs'` and `'fro'` select the abs kernel, `'min'` the
signed kernel (real scalars only), anything else is a `ValueError` -/
def classicalNoBlock [OfNat α 0] (nrm re : α → Rat) (real : Bool) (norm : String) (tiny θ : Rat)
    (X : Spmm.Bsr α) : Option (List Row) :=
  if norm = "min" then
    (if real then some (amalgIf X.br (pubClassical (fun v => negQ (re v)) nrm 0 tiny θ (scalarRows X))) else none)
  else if norm = "abs" ∨ norm = "fro" then
    some (amalgIf X.br (pubClassical nrm nrm tiny tiny θ (scalarRows X)))
  else none

/-! ### symmetric measure on BSR input -/

/-- `symmetric_strength_of_connection(A_bsr, θ)`; `none`: non-square blocks (`ValueError`) -/
def symmetricBsr [OfNat α 0] (sq : Rat → Rat) (nsq : α → Rat) (tiny θ : Rat) (X : Spmm.Bsr α) : Option (List Row) :=
  if X.br ≠ X.bc then none
  else if θ = 0 then some ((redRows X fun _ => 1).map fun r => scaleRow tiny (absRow absQ r))
  else some (pubSymmetric absQ (fun v => v * v) (· + ·) 0 tiny θ (redRows X fun b => sq (blockFroG nsq b)))

/-! ### the energy measure on complex input -/

abbrev CMat := Array (Array CRat)

def cget (M : CMat) (i j : Nat) : CRat := (M.getD i #[]).getD j 0
def mkCMat (n : Nat) (f : Nat → Nat → CRat) : CMat :=
  ((List.range n).map fun i => ((List.range n).map fun j => f i j).toArray).toArray
def sumC (n : Nat) (f : Nat → CRat) : CRat := (List.range n).foldl (fun s k => s + f k) 0

def centry (rows : List (RowOf CRat)) (i j : Nat) : CRat :=
  (((rows.getD i []).find? (fun cv => cv.1 == j)).map (·.2)).getD 0

def cdense (n : Nat) (rows : List (RowOf CRat)) : CMat := mkCMat n fun i j => centry rows i j

/-- `Dinv = 1.0 / D; Dinv[D == 0] = 0.0` -/
def cDinv (A : CMat) (i : Nat) : CRat := if cget A i i = 0 then 0 else 1 / cget A i i

/-- `S + ω D⁻¹ (I - A S)`, `ω` real -/
def cStep (n : Nat) (ω : Rat) (A S : CMat) : CMat :=
  mkCMat n fun i j =>
    cget S i j + CRat.ofRat ω * (cDinv A i * ((if i = j then 1 else 0) - sumC n fun k => cget A i k * cget S k j))

def cS (n : Nat) (ω : Rat) (A : CMat) : Nat → CMat
  | 0 => mkCMat n fun _ _ => 0
  | t + 1 => cStep n ω A (cS n ω A t)

/-- `np.inner(v.conj(), A @ v)` -/
def cQuad (n : Nat) (A : CMat) (v : Nat → CRat) : CRat :=
  sumC n fun r => CRat.conj (v r) * sumC n fun c => cget A r c * v c

def cCol (S : CMat) (i : Nat) (zero : Option Nat) (r : Nat) : CRat := if zero = some r then 0 else cget S r i

/-- principal complex square root (`np.sqrt`), numerically stable form, in terms of a real square root `sq`;
a negative real argument (on the branch cut, `im = +0`) gives `+i·sqrt(-re)` -/
def csqrtS (sq : Rat → Rat) (z : CRat) : CRat :=
  if z.re = 0 ∧ z.im = 0 then 0 else
  let m := sq (CRat.normSq z)
  if 0 ≤ z.re then
    let a := sq ((m + z.re) / 2)
    ⟨a, z.im / (2 * a)⟩
  else
    let b := sq ((m - z.re) / 2)
    ⟨absQ z.im / (2 * b), if z.im < 0 then -b else b⟩

/-- NumPy's ordering of a complex number against a real one: lexicographic -/
def cgtReal (z : CRat) (x : Rat) : Bool := decide (z.re > x) || (decide (z.re = x) && decide (z.im > 0))

/-- the strength value written to position `(i, j)`: `val = sqrt(<v_j, A v_j>) / sqrt(<v, A v>) - 1`,
`abs(val) if val > -0.01 else 0`; `0/0` is NaN and compares false -/
def cEnVal (sq : Rat → Rat) (neg : Rat) (n : Nat) (A S : CMat) (i j : Nat) : Rat :=
  let den := cQuad n A (cCol S i none)
  let num := cQuad n A (cCol S i (some j))
  if den = 0 then 0 else
  let val := csqrtS sq num / csqrtS sq den - 1
  if cgtReal val neg then cmodS sq val else 0

/-- the (real) energy measure on the stored pattern of `A` -/
def cEnMeasure (sq : Rat → Rat) (neg : Rat) (n : Nat) (A S : CMat) (rows : List (RowOf CRat)) : List Row :=
  mapRows (fun i row => row.map fun cv => (cv.1, cEnVal sq neg n A S i cv.1)) rows

def isNegReal (z : CRat) : Bool := decide (z.im = 0) && decide (z.re < 0)
def isPosReal (z : CRat) : Bool := decide (z.im = 0) && decide (0 < z.re)

/-- the model's value is the code's value: no division of a non-zero number by a vanishing `<v, A v>` (the code stores
`inf`/`nan` parts), and no argument of a square root on the branch cut (negative real: in binary64 the sign of the rounding
noise in the imaginary part decides between `+i·s` and `-i·s`) -- except when the other argument is a positive real number:
then `val = ±i·r - 1` has real part `-1` on either side of the cut and the entry is `0` both ways (Hermitian input) -/
def cEnDefined (n : Nat) (A S : CMat) (rows : List (RowOf CRat)) : Bool :=
  (rows.zipIdx).all fun (r, i) =>
    let den := cQuad n A (cCol S i none)
    r.all fun cv =>
      let num := cQuad n A (cCol S i (some cv.1))
      (decide (den ≠ 0) || decide (num = 0)) &&
      ((!isNegReal den && !isNegReal num) || (isNegReal num && isPosReal den) || (isPosReal num && isNegReal den))

/-- `energy_based_strength_of_connection(A, theta, k)` for complex canonical CSR `A` given as its rows -/
def energyFullC (sq : Rat → Rat) (ω neg tiny θ : Rat) (k : Nat) (rows : List (RowOf CRat)) : List Row :=
  let n := rows.length
  let A := cdense n rows
  let S := cS n ω A (k + 1)
  mapRows (energyTailRow tiny θ) (cEnMeasure sq neg n A S rows)

/-! ### the energy measure on BSR input: the tail after the measure (strength.py:474-503) -/

/-- `classical_strength_of_connection(·, θ)`, `eliminate_zeros`, `+ I` on scalar row `i` of the measure -/
def energyPreRow (tiny θ : Rat) (i : Nat) (row : Row) : Row :=
  addDiag i (elimZeros (pubClassicalRow absQ absQ tiny tiny θ i row))

/-- `tobsr(blocksize)`, ones on the stored blocks, `scale_rows_by_largest_entry`; `meas` is the energy measure on the
scalar rows of `A.tocsr()` (nodal columns come out as a sorted set; the code's order is the order of first appearance) -/
def energyBsrTail (tiny θ : Rat) (bs : Nat) (meas : List Row) : List Row :=
  (amalgamate bs (mapRows (energyPreRow tiny θ) meas)).map (scaleRow tiny)

/-- `energy_based_strength_of_connection(A_bsr, theta, k)`, real scalars -/
def energyFullBsr (sq : Rat → Rat) (ω neg tiny θ : Rat) (k : Nat) (X : Spmm.Bsr Rat) : List Row :=
  let rows := scalarRows X
  let n := rows.length
  let A := dense n rows
  let S := enS n ω A (k + 1)
  energyBsrTail tiny θ X.br (enMeasure sq neg n A S rows)

/-- … complex scalars -/
def energyFullBsrC (sq : Rat → Rat) (ω neg tiny θ : Rat) (k : Nat) (X : Spmm.Bsr CRat) : List Row :=
  let rows := scalarRows X
  let n := rows.length
  let A := cdense n rows
  let S := cS n ω A (k + 1)
  energyBsrTail tiny θ X.br (cEnMeasure sq neg n A S rows)

end PyamgV.C14X
