/-! PyamgV: executable models of graph / aggregation / strength kernels. Import-free. -/
namespace PyamgV.G

@[inline] def rdN (a : Array Nat) (i : Nat) : Nat := a.getD i 0
@[inline] def rdI (a : Array Int) (i : Nat) : Int := a.getD i 0
@[inline] def wrI (a : Array Int) (i : Nat) (v : Int) : Array Int := a.setIfInBounds i v

structure Graph where
  n : Nat
  ap : Array Nat
  aj : Array Nat

def Graph.row (G : Graph) (i : Nat) : List Nat :=
  (List.range' (rdN G.ap i) (rdN G.ap (i+1) - rdN G.ap i)).map (rdN G.aj)

/-! ### maximal_independent_set_serial -/
def misSerial (G : Graph) (act C F : Int) (x : Array Int) : Array Int × Nat :=
  (List.range G.n).foldl (fun (acc : Array Int × Nat) i =>
    let (x, cnt) := acc
    if rdI x i ≠ act then (x, cnt) else
      let x := wrI x i C
      ((G.row i).foldl (fun x j => if rdI x j = act then wrI x j F else x) x, cnt + 1)) (x, 0)

/-! ### maximal_independent_set_parallel (weights as rationals/ints compared by `lt`/`eq`) -/
variable {W : Type} [LT W] [DecidableRel (α := W) (· < ·)] [DecidableEq W] [Inhabited W]

/-- scan the neighbours of `i`: `.inl true` = found C neighbour (→F), `.inl false` = blocked,
`.inr ()` = reached row end -/
def scanNbrs (act C : Int) (x : Array Int) (y : Array W) (i : Nat) : List Nat → Option Bool
  | [] => none
  | j :: js =>
    let xj := rdI x j
    if xj = C then some true
    else if xj = act then
      let yj := y.getD j default
      let yi := y.getD i default
      if yi < yj then some false
      else if yj = yi ∧ j > i then some false
      else scanNbrs act C x y i js
    else scanNbrs act C x y i js

def misParPass (G : Graph) (act C F : Int) (y : Array W) (x : Array Int) : Array Int × Nat × Bool :=
  (List.range G.n).foldl (fun (acc : Array Int × Nat × Bool) i =>
    let (x, cnt, active) := acc
    if rdI x i ≠ act then (x, cnt, active) else
      match scanNbrs act C x y i (G.row i) with
      | some true  => (wrI x i F, cnt, true)
      | some false => (x, cnt, true)
      | none =>
        let x := (G.row i).foldl (fun x j => if rdI x j = act then wrI x j F else x) x
        (wrI x i C, cnt + 1, active)) (x, 0, false)

/-- `max_iters = none` means -1 (unbounded); fuel bounds the model -/
def misParallel (G : Graph) (act C F : Int) (y : Array W) (maxIters : Option Nat) (x : Array Int) :
    Array Int × Nat :=
  let rec go (fuel iters : Nat) (x : Array Int) (cnt : Nat) : Array Int × Nat :=
    match fuel with
    | 0 => (x, cnt)
    | fuel+1 =>
      if (match maxIters with | some m => decide (iters ≥ m) | none => false) then (x, cnt) else
      let (x', c, active) := misParPass G act C F y x
      if active then go fuel (iters+1) x' (cnt + c) else (x', cnt + c)
  go (G.n + 2) 0 x 0

/-! ### vertex_coloring_mis -/
def coloringMis (G : Graph) : Array Int :=
  let rec go (fuel : Nat) (K : Int) (N : Nat) (x : Array Int) : Array Int :=
    match fuel with
    | 0 => x
    | fuel+1 =>
      if N ≥ G.n then x else
      let (x', c) := misSerial G (-1 - K) K (-2 - K) x
      go fuel (K+1) (N + c) x'
  go (G.n + 1) 0 0 (Array.replicate G.n (-1))

/-! ### connected_components (stack DFS) -/
def connectedComponents (G : Graph) : Array Int :=
  let rec dfs (fuel : Nat) (stack : List Nat) (comp : Int) (c : Array Int) : Array Int :=
    match fuel, stack with
    | 0, _ => c
    | _, [] => c
    | fuel+1, top :: rest =>
      let (c, stack) := (G.row top).foldl (fun (acc : Array Int × List Nat) j =>
        if rdI acc.1 j = -1 then (wrI acc.1 j comp, j :: acc.2) else acc) (c, rest)
      dfs fuel stack comp c
  let (c, _) := (List.range G.n).foldl (fun (acc : Array Int × Int) i =>
    let (c, comp) := acc
    if rdI c i = -1 then (dfs (G.n + G.aj.size + 1) [i] comp (wrI c i comp), comp + 1) else (c, comp))
    (Array.replicate G.n (-1), 0)
  c

/-! ### breadth_first_search -/
def bfs (G : Graph) (seed : Nat) : Array Int × Array Int :=
  -- order is returned only on its first N entries (rest = -9 marks "uninitialised")
  let rec go (fuel : Nat) (frontier : List Nat) (lvl : Int) (order : List Nat) (level : Array Int) :
      List Nat × Array Int :=
    match fuel with
    | 0 => (order, level)
    | fuel+1 =>
      if frontier.isEmpty then (order, level) else
      let (next, level) := frontier.foldl (fun (acc : List Nat × Array Int) i =>
        (G.row i).foldl (fun (acc : List Nat × Array Int) j =>
          if rdI acc.2 j = -1 then (acc.1 ++ [j], wrI acc.2 j lvl) else acc) acc) ([], level)
      go fuel next (lvl+1) (order ++ next) level
  let level0 := wrI (Array.replicate G.n (-1)) seed 0
  let (order, level) := go (G.n + 1) [seed] 1 [seed] level0
  ((order.map (Int.ofNat ·)).toArray ++ Array.replicate (G.n - order.length) (-9), level)

/-! ### standard_aggregation / naive_aggregation -/
def standardAggregation (G : Graph) : Array Int × Array Int × Nat :=
  let n := G.n
  let nI : Int := n
  -- pass 1
  let (x, y, next) := (List.range n).foldl (fun (acc : Array Int × Array Int × Int) i =>
    let (x, y, next) := acc
    if rdI x i ≠ 0 then acc else
      let nb := G.row i
      -- scan with the kernel's early `break`
      let rec scan (l : List Nat) (hasN hasA : Bool) : Bool × Bool :=
        match l with
        | [] => (hasN, hasA)
        | j :: js => if i ≠ j then (if rdI x j ≠ 0 then (true, true) else scan js true hasA) else scan js hasN hasA
      let (hasN, hasA) := scan nb false false
      if !hasN then (wrI x i (-nI), y, next)
      else if !hasA then
        let x := wrI x i next
        let y := wrI y (next - 1).toNat i
        (nb.foldl (fun x j => wrI x j next) x, y, next + 1)
      else acc) (Array.replicate n 0, Array.replicate n (-7), 1)
  -- pass 2
  let x := (List.range n).foldl (fun x i =>
    if rdI x i ≠ 0 then x else
      match (G.row i).find? (fun j => rdI x j > 0) with
      | some j => wrI x i (-(rdI x j))
      | none => x) x
  let next := next - 1
  -- pass 3
  let (x, y, next) := (List.range n).foldl (fun (acc : Array Int × Array Int × Int) i =>
    let (x, y, next) := acc
    let xi := rdI x i
    if xi ≠ 0 then
      (wrI x i (if xi > 0 then xi - 1 else if xi = -nI then -1 else -xi - 1), y, next)
    else
      let x := wrI x i next
      let y := wrI y next.toNat i
      ((G.row i).foldl (fun x j => if rdI x j = 0 then wrI x j next else x) x, y, next + 1)) (x, y, next)
  (x, y, next.toNat)

def naiveAggregation (G : Graph) : Array Int × Array Int × Nat :=
  let n := G.n
  let (x, y, next) := (List.range n).foldl (fun (acc : Array Int × Array Int × Int) i =>
    let (x, y, next) := acc
    if rdI x i ≠ 0 then acc else
      let x := wrI x i next
      let x := (G.row i).foldl (fun x j => if rdI x j = 0 then wrI x j next else x) x
      (x, wrI y (next - 1).toNat i, next + 1)) (Array.replicate n 0, Array.replicate n (-7), 1)
  (x, y, (next - 1).toNat)

end PyamgV.G
