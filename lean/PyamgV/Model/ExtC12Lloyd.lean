import PyamgV.Model.KNum
/-! PyamgV (C12, extension E18): executable model of Lloyd aggregation.

* `initState`      — the NumPy initialisation in `pyamg/graph.py: lloyd_cluster`
                     (`full(n, inf)`, `full(n, -1)`, `distances[centers] = 0`,
                     `clusters[centers] = arange(k)`; fancy assignment: the last duplicate wins);
* `N.bellmanFord`  — the exact model of the `bellman_ford` kernel (Model/KNum.lean, driver op `bf`);
* `mostInterior`   — `amg_core/graph.h: most_interior_nodes`, loop by loop: boundary marking (`d[i] = 0`
                     iff some stored entry of row `i` leads into a different cluster; the `break` only
                     skips idempotent writes), the nested `bellman_ford` call on the boundary distances,
                     the centre update `if (d[c[a]] < d[i]) c[a] = i` (`a == -1` skipped);
* `lloydLoop`      — `while changed and it < maxiter` with the re-initialisation of every pass;
* `lloydCluster`   — the argument checks of `lloyd_cluster` (centres given explicitly);
* `aggOp`          — the AggOp assembly of `pyamg/aggregation/aggregate.py: lloyd_aggregation`
                     (`row = nonzero(clusters >= 0)`, `col = clusters[row]`, COO -> CSR);
* `lloydAggregation` — measure handling, `naggs`, the replayed centres (`permutation(n)[:naggs]`),
                     clustering and assembly.
Distances are `Option Rat` (`none` = `+inf`); real weights only. -/
namespace PyamgV.ExtLloyd
open PyamgV.N

abbrev DMP := Array (Option Rat) × Array Int × Array Int

/-- `x < y` on `Rat ∪ {+inf}` (IEEE: `inf < inf` is false) -/
def ltO : Option Rat → Option Rat → Bool
  | some a, some b => decide (a < b)
  | some _, none => true
  | none, _ => false

/-- the state `lloyd_cluster` hands to the `bellman_ford` kernel -/
def initState (n : Nat) (c : Array Nat) : DMP :=
  (List.range c.size).foldl (fun (s : DMP) a =>
      (s.1.setIfInBounds (rdN c a) (some 0), wrI s.2.1 (rdN c a) (Int.ofNat a), s.2.2))
    (Array.replicate n none, Array.replicate n (-1), Array.replicate n (-1))

/-- first loop of `most_interior_nodes`: `fill(d, inf)`, then `d[i] = 0` for the boundary nodes -/
def boundary (A : Csr) (m : Array Int) : Array (Option Rat) :=
  (Array.range A.n).map (fun i =>
    if (A.jjs i).any (fun jj => rdI m i != rdI m (rdN A.aj jj)) then some 0 else none)

/-- one step of the last loop of `most_interior_nodes` -/
def centreStep (d : Array (Option Rat)) (m : Array Int) (s : Array Nat × Bool) (i : Nat) : Array Nat × Bool :=
  let a := rdI m i
  if a = -1 then s
  else if ltO (d.getD (rdN s.1 a.toNat) none) (d.getD i none) then (s.1.setIfInBounds a.toNat i, true)
  else s

/-- last loop of `most_interior_nodes`: the node furthest from a boundary becomes the centre -/
def newCentres (n : Nat) (c : Array Nat) (d : Array (Option Rat)) (m : Array Int) : Array Nat × Bool :=
  (List.range n).foldl (centreStep d m) (c, false)

/-- `most_interior_nodes`; `none` = the nested Bellman–Ford loop does not terminate -/
def mostInterior (A : Csr) (c : Array Nat) (m p : Array Int) : Option (Array Nat × DMP × Bool) :=
  let r := bellmanFord A (boundary A m) m p
  if r.2.2.2 then
    let cc := newCentres A.n c r.1 r.2.1
    some (cc.1, (r.1, r.2.1, r.2.2.1), cc.2)
  else none

/-- the body of the `while` loop of `lloyd_cluster`: (re-)initialise, `bellman_ford`,
`most_interior_nodes`; returns the new centres, `clusters`, `changed` -/
def iter (A : Csr) (c : Array Nat) : Option (Array Nat × Array Int × Bool) :=
  let s := initState A.n c
  let r := bellmanFord A s.1 s.2.1 s.2.2
  if r.2.2.2 then
    match mostInterior A c r.2.1 r.2.2.1 with
    | none => none
    | some (c', s', ch) => some (c', s'.2.1, ch)
  else none

/-- `while changed and it < maxiter` -/
def lloydLoop (A : Csr) : Nat → Array Nat → Array Int → Option (Array Int × Array Nat)
  | 0, c, m => some (m, c)
  | k+1, c, _ =>
    match iter A c with
    | none => none
    | some (c', m', ch) => if ch then lloydLoop A k c' m' else some (m', c')

/-- the `ValueError` checks of `lloyd_cluster` -/
def accepts (A : Csr) (c : Array Int) : Bool :=
  A.ax.toList.all (fun v => decide (0 ≤ v)) && decide (0 < c.size) &&
    c.toList.all (fun v => decide (0 ≤ v ∧ v < (A.n : Int)))

/-- `lloyd_cluster(G, centers, maxiter)` with an explicit centre array; `.error` = `ValueError`,
`.ok none` = a kernel loop does not terminate -/
def lloydCluster (A : Csr) (c : Array Int) (maxiter : Nat) : Except String (Option (Array Int × Array Nat)) :=
  if accepts A c then
    let cn := c.map Int.toNat
    .ok (lloydLoop A maxiter cn (initState A.n cn).2.1)
  else .error "ValueError"

/-- AggOp assembly: CSR `(indptr, indices, data)` of the `n × naggs` matrix with a one at
`(i, clusters[i])` for `clusters[i] >= 0` -/
def aggOp (cl : Array Int) : Array Nat × Array Nat × Array Int :=
  let r := (List.range cl.size).foldl (fun (s : Array Nat × Array Nat) i =>
      if 0 ≤ rdI cl i then (s.1.push (s.2.size + 1), s.2.push (rdI cl i).toNat)
      else (s.1.push s.2.size, s.2)) (#[0], #[])
  (r.1, r.2, Array.replicate r.2.size 1)

/-- the `measure` argument of `lloyd_aggregation` on the stored values; `none` = not modelled
(`1/0`) or rejected -/
def applyMeasure (measure : String) (x : Array Rat) : Option (Array Rat) :=
  match measure with
  | "None" => some x
  | "abs" => some (x.map absQ)
  | "inv" => if x.toList.any (· == 0) then none else some (x.map (fun v => 1 / absQ v))
  | "unit" => some (x.map (fun _ => 1))
  | "min" => some (if x.size = 0 then x else
      let mn := x.toList.foldl (fun a b => if b < a then b else a) (rdQ x 0)
      x.map (· - mn))
  | _ => none

/-- `int(min(max(ratio * n, 1), n))` -/
def naggs (ratio : Rat) (n : Nat) : Nat :=
  let t : Rat := ratio * n
  let t := if t < 1 then 1 else t
  let t := if (n : Rat) < t then (n : Rat) else t
  t.floor.toNat

/-- `lloyd_aggregation(C, ratio, measure, maxiter)` where `perm` is the permutation
`numpy.random.permutation(n)` drawn by `lloyd_cluster` -/
def lloydAggregation (A : Csr) (measure : String) (ratio : Rat) (perm : Array Int) (maxiter : Nat) :
    Except String (Option ((Array Nat × Array Nat × Array Int) × Array Nat)) :=
  if ratio ≤ 0 ∨ 1 < ratio then .error "ValueError" else
  match applyMeasure measure A.ax with
  | none => .error "unmodelled"
  | some x =>
    if x.toList.any (fun v => decide (v < 0)) then .error "ValueError" else
    let G : Csr := { A with ax := x }
    match lloydCluster G (perm.extract 0 (naggs ratio A.n)) maxiter with
    | .error e => .error e
    | .ok none => .ok none
    | .ok (some (cl, ce)) => .ok (some (aggOp cl, ce))

end PyamgV.ExtLloyd
