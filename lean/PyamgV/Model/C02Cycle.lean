import PyamgV.Model.KRelax

/-! # C02 model: one multigrid cycle on the validated kernel models, exact arithmetic

Import-free apart from `Model/KRelax.lean` (the relaxation kernels and the drivers of
relaxation.py, compared bit-exactly with the code by C09).  Executable, total, scalar-polymorphic.

* `cycle`  = `MultilevelSolver.__solve(lvl, x, b, cycle, cycles_per_level)` (multilevel.py) for
  `cycle ∈ {V, W, F}` on a list of levels `A, P, R, presmoother, postsmoother`; the coarsest level is
  the `solve` argument (`coarse_solver(levels[-1].A, coarse_b)`), a direct solve.
* `Sm`      = what `setup_gauss_seidel`, `setup_sor`, `setup_jacobi` (the `omega` *actually used*, i.e.
  after the division by the spectral-radius estimate) install on a CSR level.
* `galerkin`/`transpose`/`mkHierarchy` = `R = Pᵀ`, `A_c = R A P` as the constructors form them, here
  exactly; `gaussSolve` = the direct coarse solve (Gauss-Jordan elimination, `none` when singular).
* `energyLe`, `functionalLe` = the exact energy comparisons the check asks for. -/
namespace PyamgV.C02
open PyamgV.K

variable {α : Type} [Add α] [Sub α] [Mul α] [Div α] [OfNat α 0] [OfNat α 1] [DecidableEq α]

/-! ## vectors -/

/-- `A @ x` (rows `0 .. A.n-1`) -/
def spmv (A : Csr α) (x : Array α) : Array α :=
  (Array.range A.n).map (fun i =>
    (A.jjs i).foldl (fun s jj => s + rd A.ax jj * rd x (rdN A.aj jj)) (0 : α))

/-- `x + y`, shape of `x` -/
def vadd (x y : Array α) : Array α := (Array.range x.size).map (fun i => rd x i + rd y i)
/-- `x - y`, shape of `x` -/
def vsub (x y : Array α) : Array α := (Array.range x.size).map (fun i => rd x i - rd y i)
def zeros (n : Nat) : Array α := Array.replicate n (0 : α)
def dot (x y : Array α) : α := (List.range x.size).foldl (fun s i => s + rd x i * rd y i) (0 : α)

/-! ## smoothers and levels -/

/-- a smoother as installed by `change_smoothers` on a CSR level -/
inductive Sm (α : Type) where
  | none
  | gs (ω : α) (sw : Sweep) (iters : Nat)      -- gauss_seidel / sor (`omega != 1` selects the SOR kernel)
  | jac (ω : α) (iters : Nat)                  -- jacobi with the omega actually used

/-- `smoother(A, x, b)` -/
def Sm.run : Sm α → Csr α → Array α → Array α → Array α
  | .none, _, _, x => x
  | .gs ω sw it, A, b, x => pyGaussSeidel ω A b it sw x
  | .jac ω it, A, b, x => pyJacobi ω A b it x

structure Lvl (α : Type) where
  A : Csr α
  P : Csr α
  R : Csr α
  pre : Sm α
  post : Sm α

inductive Cyc | V | W | F
  deriving DecidableEq, Repr

def iterN {β : Type} (f : β → β) : Nat → β → β
  | 0, x => x
  | k + 1, x => iterN f k (f x)

/-- `__solve(lvl, x, b, cycle, cycles_per_level)`; `Ls = levels[lvl:-1]`.  Line by line:
presmooth; `residual = b - A x`; `coarse_b = R residual`; `coarse_x = 0`; on the last but one level
the coarse solver, else the V / W / F branch (the recursive `'V'`/`'W'` calls use the default
`cycles_per_level = 1`, the recursive `'F'` call forwards it); `x += P coarse_x`; postsmooth. -/
def cycle (solve : Array α → Array α) : Cyc → Nat → List (Lvl α) → Array α → Array α → Array α
  | _, _, [], _, b => solve b
  | c, cpl, L :: rest, x, b =>
    let x1 := L.pre.run L.A b x
    let residual := vsub b (spmv L.A x1)
    let coarse_b := spmv L.R residual
    let coarse_x0 : Array α := zeros coarse_b.size
    let coarse_x : Array α := match rest with
      | [] => solve coarse_b
      | _ :: _ => match c with
        | .V => cycle solve .V 1 rest coarse_x0 coarse_b
        | .W => cycle solve .W 1 rest (cycle solve .W 1 rest coarse_x0 coarse_b) coarse_b
        | .F => iterN (fun cx => cycle solve .V 1 rest cx coarse_b) cpl
                  (cycle solve .F cpl rest coarse_x0 coarse_b)
    let x2 := vadd x1 (spmv L.P coarse_x)
    L.post.run L.A b x2

/-! ## dense helpers: transpose, Galerkin product, direct solve -/

abbrev Dense (α : Type) := Array (Array α)

def rdD (M : Dense α) (i j : Nat) : α := rd (M.getD i #[]) j

/-- dense `nrows × ncols` copy of a CSR matrix (duplicates summed, as SciPy does) -/
def toDense (A : Csr α) (ncols : Nat) : Dense α :=
  (Array.range A.n).map (fun i =>
    (A.jjs i).foldl (fun row jj => wr row (rdN A.aj jj) (rd row (rdN A.aj jj) + rd A.ax jj))
      (Array.replicate ncols (0 : α)))

/-- CSR with *every* entry stored (one diagonal entry per row, sorted columns) -/
def ofDense (M : Dense α) (ncols : Nat) : Csr α :=
  ⟨M.size, (Array.range (M.size + 1)).map (fun i => i * ncols),
   (Array.range (M.size * ncols)).map (fun k => k % ncols),
   (Array.range (M.size * ncols)).map (fun k => rdD M (k / ncols) (k % ncols))⟩

def transposeD (M : Dense α) (nrows ncols : Nat) : Dense α :=
  (Array.range ncols).map (fun j => (Array.range nrows).map (fun i => rdD M i j))

def mulD (A B : Dense α) (n m p : Nat) : Dense α :=
  (Array.range n).map (fun i => (Array.range p).map (fun j =>
    (List.range m).foldl (fun s k => s + rdD A i k * rdD B k j) (0 : α)))

/-- Gauss-Jordan elimination on `[A | b]` with the first non-zero pivot of each column;
`none` iff a column has no pivot (singular matrix) -/
def gaussSolve (A : Dense α) (b : Array α) : Option (Array α) :=
  let n := A.size
  let aug : Dense α := (Array.range n).map (fun i => (A.getD i #[]).push (rd b i))
  let step : Option (Dense α) → Nat → Option (Dense α) := fun st c =>
    match st with
    | Option.none => Option.none
    | some M =>
      match (List.range' c (n - c)).find? (fun r => decide (rdD M r c ≠ 0)) with
      | Option.none => Option.none
      | some p =>
        let rowp := M.getD p #[]
        let rowc := M.getD c #[]
        let M := (M.setIfInBounds p rowc).setIfInBounds c rowp
        let piv := rd rowp c
        let prow := rowp.map (fun v => v / piv)
        let M := M.setIfInBounds c prow
        some ((Array.range n).map (fun r =>
          if r = c then prow
          else
            let f := rdD M r c
            (Array.range (n + 1)).map (fun j => rdD M r j - f * rd prow j)))
  match (List.range n).foldl step (some aug) with
  | Option.none => Option.none
  | some M => some ((Array.range n).map (fun i => rdD M i n))

/-- smoothers per non-coarsest level, and the interpolation operators (with their shapes) -/
structure PSpec (α : Type) where
  nrows : Nat
  ncols : Nat
  P : Csr α
  pre : Sm α
  post : Sm α

/-- the hierarchy a Galerkin constructor builds from `A₀` and the `P`s, exactly:
`R = Pᵀ`, `A_{l+1} = R A_l P`; returns the levels and the coarsest matrix (dense) -/
def mkHierarchy (A0 : Csr α) : List (PSpec α) → List (Lvl α) × Dense α × Nat
  | [] => ([], toDense A0 A0.n, A0.n)
  | s :: rest =>
    let Ad := toDense A0 s.nrows
    let Pd := toDense s.P s.ncols
    let Rd := transposeD Pd s.nrows s.ncols
    let Acd := mulD Rd (mulD Ad Pd s.nrows s.nrows s.ncols) s.ncols s.nrows s.ncols
    let Ac := ofDense Acd s.ncols
    let (ls, Acoarse, nc) := mkHierarchy Ac rest
    (⟨A0, s.P, ofDense Rd s.nrows, s.pre, s.post⟩ :: ls, Acoarse, nc)

/-! ## exact energy comparisons -/

/-- `vᵀ A v` -/
def quad (A : Csr α) (v : Array α) : α := dot v (spmv A v)

/-- `e'ᵀ A e' ≤ eᵀ A e` -/
def energyLe [LE α] [DecidableLE α] (A : Csr α) (e e' : Array α) : Bool :=
  decide (quad A e' ≤ quad A e)

/-- `J(x) = xᵀ A x − 2 bᵀ x`; for symmetric `A` and `A x* = b`: `J(x) = ‖x* − x‖²_A − ‖x*‖²_A`,
so `J(x') ≤ J(x)` is `‖x* − x'‖_A ≤ ‖x* − x‖_A` without forming `x*` -/
def functional (A : Csr α) (b x : Array α) : α := quad A x - (dot b x + dot b x)

def functionalLe [LE α] [DecidableLE α] (A : Csr α) (b x x' : Array α) : Bool :=
  decide (functional A b x' ≤ functional A b x)

/-- all pivots of the elimination without row exchanges are positive (for a symmetric matrix: it is
positive definite) -/
def pivotsPositive [LT α] [DecidableLT α] (A : Dense α) : Bool :=
  let n := A.size
  let step : Option (Dense α) → Nat → Option (Dense α) := fun st c =>
    match st with
    | Option.none => Option.none
    | some M =>
      let piv := rdD M c c
      if (0 : α) < piv then
        let prow := M.getD c #[]
        some ((Array.range n).map (fun r =>
          if r ≤ c then M.getD r #[]
          else
            let f := rdD M r c / piv
            (Array.range n).map (fun j => rdD M r j - f * rd prow j)))
      else Option.none
  ((List.range n).foldl step (some A)).isSome

/-- every row of `A` stores exactly one diagonal entry (`HasDiag` of the theorems) -/
def uniqueDiag (A : Csr α) : Bool :=
  (List.range A.n).all (fun i => ((A.jjs i).filter (fun jj => rdN A.aj jj = i)).length = 1)

def denseEq (A B : Dense α) (n m : Nat) : Bool :=
  (List.range n).all (fun i => (List.range m).all (fun j => decide (rdD A i j = rdD B i j)))

/-- admissibility of a smoother on a level with dense matrix `Ad` (size `n`), decided exactly:
Gauss-Seidel/SOR `0 ≤ ω ≤ 2`; Jacobi `0 ≤ ω`, non-zero diagonal and `2D − ωA` positive definite
(the damping bound `ω·A ≤ 2·D` of `jacobi_nonexp`, here with strict inequality) -/
def Sm.admissible [LE α] [DecidableLE α] [LT α] [DecidableLT α] (Ad : Dense α) (n : Nat) : Sm α → Bool
  | .none => true
  | .gs ω _ _ => decide ((0 : α) ≤ ω) && decide (ω ≤ (1 : α) + 1)
  | .jac ω _ =>
    decide ((0 : α) ≤ ω) && (List.range n).all (fun i => decide (rdD Ad i i ≠ 0)) &&
      pivotsPositive ((Array.range n).map (fun i => (Array.range n).map (fun j =>
        (if i = j then rdD Ad i i + rdD Ad i i else (0 : α)) - ω * rdD Ad i j)))

/-- the data-level hypotheses of `model_cycle_nonexp`, decided exactly on a model hierarchy:
shapes, `R = Pᵀ`, next matrix `= R A P`, one stored diagonal per row, admissible smoothers -/
def checkLevels [LE α] [DecidableLE α] [LT α] [DecidableLT α] (Ac : Dense α) (nc : Nat) : List (Lvl α) → Bool
  | [] => true
  | L :: rest =>
    let n := L.A.n
    let m := L.R.n
    let Pd := toDense L.P m
    let Rd := toDense L.R n
    let Ad := toDense L.A n
    let nxt : Dense α × Nat := match rest with
      | [] => (Ac, nc)
      | L' :: _ => (toDense L'.A L'.A.n, L'.A.n)
    decide (L.P.n = n) && decide (nxt.2 = m) &&
      denseEq Rd (transposeD Pd n m) m n &&
      denseEq nxt.1 (mulD Rd (mulD Ad Pd n n m) m n m) m m &&
      uniqueDiag L.A && L.pre.admissible Ad n && L.post.admissible Ad n && checkLevels Ac nc rest

/-- exact symmetry test of a CSR matrix (through its dense copy) -/
def isSymmetric (A : Csr α) : Bool :=
  let D := toDense A A.n
  (List.range A.n).all (fun i => (List.range A.n).all (fun j => decide (rdD D i j = rdD D j i)))

end PyamgV.C02
