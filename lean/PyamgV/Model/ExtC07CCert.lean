import PyamgV.Model.C07Argmin
/-! PyamgV (C07, extension E37): the certificate of the failing-input search re-checked with the `Vector`
operations **with conjugation** -- the complex twin of `certV` / `certAllV` of `Model/C07Argmin.lean`.
`certVH conj G vs t x0 d y` accepts `(d, y)` only if `y = x0 + Σ d_i v_i` and `v_iᴴ G (t − y) = 0` for every `i`,
both decided exactly; `Proofs/ExtC07CCert.lean` proves it sound for Hermitian positive semidefinite `G`.
Core Lean only. -/
namespace PyamgV.C07

section certVH
variable {K : Type} [Add K] [Sub K] [Mul K] [OfNat K 0] [DecidableEq K] {n : Nat}

def certVH (conj : K → K) (G : Vector (Vector K n) n) (vs : List (Vector K n)) (t x0 : Vector K n) (d : List K)
    (y : Vector K n) : Bool :=
  decide (combV x0 d vs = y) &&
    vs.all (fun v => decide (vdot conj v (vmv G (Vector.zipWith (· - ·) t y)) = 0))

/-- all `j`: `(d_j, y_j)` is accepted against the first `j` basis vectors; `false` on any size mismatch -/
def certAllVH (conj : K → K) (n : Nat) (G basis : List (List K)) (t x0 : List K) (ds ys : List (List K)) : Bool :=
  match toMat? n G, basis.mapM (toVec? n), toVec? n t, toVec? n x0, ys.mapM (toVec? n) with
  | some G, some vs, some t, some x0, some ys =>
    ds.length == ys.length &&
    (List.range ys.length).all (fun j =>
      match ys[j]? with
      | some y => certVH conj G (vs.take (j + 1)) t x0 ((ds.getD j []).take (j + 1)) y
      | none => false)
  | _, _, _, _, _ => false

/-- `G = Gᴴ`, decided entrywise -/
def isHermV (conj : K → K) (G : Vector (Vector K n) n) : Bool :=
  (List.finRange n).all (fun i => (List.finRange n).all (fun j => decide (G[i][j] = conj G[j][i])))

/-- the Gram matrix handed to the checker is Hermitian; `false` on a size mismatch -/
def isHermL (conj : K → K) (n : Nat) (G : List (List K)) : Bool :=
  match toMat? n G with
  | some G => isHermV conj G
  | none => false
end certVH

end PyamgV.C07
