import PyamgV.Model.ExtC17CkBlock

/-! PyamgV (C17, extension E19, round 3): checked-execution (`Ck`) models of the indexed BSR / block
relaxation kernels of `relaxation.h` -- `bsr_jacobi_indexed`, `block_jacobi_indexed` -- written loop by
loop after the C++.  They share the block-row pieces (`bsrInitRsum`, `bsrOffDiag`, `bsrPointRow`,
`blkZero`, `blkOffDiag`, `blkResid`, `gemmFF`) with the models of `Model/ExtC17CkBlock.lean`; what is
new is the private copy `std::vector<T> temp(x_size)`, the loop over `indices[]` and the forward
`for(k = 0; k < blocksize; k++)` point loops (the strided kernels sweep the block in either direction).
Core Lean only. -/
namespace PyamgV.C17
open PyamgV.Ck

variable {α : Type} [Inhabited α]

/-- `std::vector<T> temp(x_size); for(i = 0; i < x_size; i++) temp[i] = x[i];` -/
def copyVec (x : Array α) : Ck (Array α) :=
  forRange 0 (x.size : Int) (Array.replicate x.size default) (fun i (t : Array α) => do
    let xi ← rd x i
    wr t i xi)

/-! ### `bsr_jacobi_indexed` -/

/-- one step `k` of the point-wise Jacobi over the diagonal block of block row `row`:
`for(kk = 0; kk < blocksize; kk++)` collects `diag` and updates `rsum[k]`, then
`x[row*bs+k] = (1-omega)*temp[row*bs+k] + omega*rsum[k]/diag`; state `(x, rsum)` -/
def bsrJacIdxPoint (o : KOps α) (om : α) (G : Csr α) (bs : Nat) (temp : Array α) (row dptr : Int) (k : Int)
    (xs : Array α × Array α) : Ck (Array α × Array α) := do
  let dr ← forRange 0 (bs : Int) (xs.2, o.one) (bsrPointRow o G bs temp row dptr k)
  if o.isZero dr.2 then pure (xs.1, dr.1)
  else do
    let t ← rd temp (row * (bs : Int) + k)
    let rk ← rd dr.1 k
    let x ← wr xs.1 (row * (bs : Int) + k) (o.add (o.mul (o.sub o.one om) t) (o.div (o.mul om rk) dr.2))
    pure (x, dr.1)

/-- one entry of `indices[]` of `bsr_jacobi_indexed`; state `(x, rsum, Axloc)` -/
def bsrJacIdxRow (o : KOps α) (om : α) (G : Csr α) (b : Array α) (bs : Nat) (temp : Array α) (row : Int)
    (st : BSt α) : Ck (BSt α) := do
  let s ← rd G.ap row
  let e ← rd G.ap (row+1)
  let rsum ← bsrInitRsum b bs row st.2.1
  let r ← bsrOffDiag o G bs temp row s e rsum st.2.2
  if r.2.2 ≠ -1 then do
    let xr ← forRange 0 (bs : Int) (st.1, r.1) (bsrJacIdxPoint o om G bs temp row r.2.2)
    pure (xr.1, xr.2, r.2.1)
  else pure (st.1, r.1, r.2.1)

/-- `bsr_jacobi_indexed(Ap, Aj, Ax, x, b, indices, blocksize, omega)`; `G.n` block rows; returns
`(x, rsum, Axloc)` -/
def bsrJacobiIndexed (o : KOps α) (omv : Array α) (G : Csr α) (b : Array α) (indices : Array Int)
    (bs : Nat) (x : Array α) : Ck (BSt α) := do
  let om ← rd omv 0
  let temp ← copyVec x
  forRange 0 (indices.size : Int) (x, Array.replicate bs default, Array.replicate bs default)
    (fun i (st : BSt α) => do
      let row ← rd indices i
      bsrJacIdxRow o om G b bs temp row st)

/-! ### `block_jacobi_indexed` -/

/-- one entry of `indices[]` of `block_jacobi_indexed`; state `(x, rsum, v)` -/
def blkJacIdxRow (o : KOps α) (om : α) (G : Csr α) (b dinv : Array α) (bs : Nat) (temp : Array α)
    (row : Int) (st : BSt α) : Ck (BSt α) := do
  let s ← rd G.ap row
  let e ← rd G.ap (row+1)
  let rsum ← blkZero o bs st.2.1
  let r ← blkOffDiag o G bs temp row s e rsum st.2.2
  let rsum ← blkResid o b bs row r.1
  let v ← gemmFF o dinv (row * ((bs : Int) * (bs : Int))) bs bs rsum 0 bs 1 r.2 0 bs 1
  let x ← forRange 0 (bs : Int) st.1 (fun k (x : Array α) => do
    let t ← rd temp (row * (bs : Int) + k)
    let vk ← rd v k
    wr x (row * (bs : Int) + k) (o.add (o.mul (o.sub o.one om) t) (o.mul om vk)))
  pure (x, rsum, v)

/-- `block_jacobi_indexed(Ap, Aj, Ax, x, b, Tx, indices, omega, blocksize)`; returns `(x, rsum, v)` -/
def blockJacobiIndexed (o : KOps α) (omv : Array α) (G : Csr α) (b dinv : Array α) (indices : Array Int)
    (bs : Nat) (x : Array α) : Ck (BSt α) := do
  let om ← rd omv 0
  let temp ← copyVec x
  forRange 0 (indices.size : Int) (x, Array.replicate bs default, Array.replicate bs default)
    (fun i (st : BSt α) => do
      let row ← rd indices i
      blkJacIdxRow o om G b dinv bs temp row st)

end PyamgV.C17
