import PyamgV.Model.ExtC06Gmres
/-! PyamgV (C06, extension E16): a concrete 2 × 2 run of the complete GMRES models evaluated by the kernel
(`A = [[3, 1], [4, 2]]`, `b = (5, 0)`, `x0 = 0`, no preconditioner; every square root that occurs is rational, so the
rational "square root" `qsqrt`, exact on squares, stands in for the exact one): the first inner iteration records the
estimate `|g[1]| = 4`, and indeed `‖b − A x_1‖ = ‖(16/5, −12/5)‖ = 4` for the callback iterate `x_1 = (3/5, 0)`; the
second one ends the cycle at the solution `(5, −10)` with recomputed residual `0`, status `0`.  With the threshold
`9/2` instead of `5/2` the inner loop is left at once (`4 < 9/2`), the recomputed residual `4` confirms it; the
iteration is counted (also by `fgmres`, since 925d7a0).  Core Lean only. -/
namespace PyamgV.ExtC06.Ex
open PyamgV.C07

/-- exact on squares of rationals -/
def qsqrt (q : Rat) : Rat :=
  let f := fun (m : Nat) => ((List.range (m + 1)).find? (fun i => i * i == m)).getD 0
  (f q.num.toNat : Rat) / (f q.den : Rat)
def A₀ : Vector (Vector Rat 2) 2 := #v[#v[3, 1], #v[4, 2]]
def I₀ : Vector (Vector Rat 2) 2 := #v[#v[1, 0], #v[0, 1]]
def b₀ : Vector Rat 2 := #v[5, 0]
def absQ (a : Rat) : Rat := if a < 0 then -a else a
def sgnQ (a : Rat) : Rat := if a == 0 then 1 else a / absQ a

def runM (thr : Rat) : GOut Rat (Vector Rat 2) :=
  gRun (mgsEng (vecOps (fun a => a) A₀ I₀) qsqrt (fun a => decide (0 < a)) (fun a => a != 0) 2 b₀)
    (fun a c => decide (a < c)) absQ thr (fun _ _ => false) ⟨2, 1⟩ #v[0, 0]
def runH (thr : Rat) : GOut Rat (Vector Rat 2) :=
  gRun (hhEng (hopsVec (fun a => a) A₀ I₀) qsqrt sgnQ (fun a => a != 0) 2 b₀)
    (fun a c => decide (a < c)) absQ thr (fun _ _ => false) ⟨2, 1⟩ #v[0, 0]
def runF (thr : Rat) : GOut Rat (Vector Rat 2) :=
  gRun (fgEng (hopsVec (fun a => a) A₀ I₀) qsqrt sgnQ (fun a => a != 0) 2 (fun _ v => v) b₀)
    (fun a c => decide (a < c)) absQ thr (fun _ _ => false) ⟨2, 1⟩ #v[0, 0]

/-- residual norm of an iterate, computed independently of the models -/
def resn₀ (x : Vector Rat 2) : Rat :=
  qsqrt (vdot (fun a => a) (Vector.zipWith (· - ·) b₀ (vmv A₀ x)) (Vector.zipWith (· - ·) b₀ (vmv A₀ x)))

theorem full_cycle :
    (runM (5/2)).status = 0 ∧ (runM (5/2)).niter = 2 ∧ (runM (5/2)).hist = [5, 4, 0] ∧
    (runM (5/2)).log = [#v[3/5, 0], #v[5, -10]] ∧ (runM (5/2)).x = #v[5, -10] ∧
    (runH (5/2)).status = 0 ∧ (runH (5/2)).hist = [5, 4, 0] ∧ (runH (5/2)).log = [#v[3/5, 0], #v[5, -10]] ∧
    (runF (5/2)).status = 0 ∧ (runF (5/2)).hist = [5, 4, 0] ∧ (runF (5/2)).log = [#v[3/5, 0], #v[5, -10]] ∧
    [resn₀ #v[0, 0], resn₀ #v[3/5, 0], resn₀ #v[5, -10]] = [5, 4, 0] := by
  decide +kernel

theorem early_exit :
    (runM (9/2)).status = 0 ∧ (runM (9/2)).niter = 1 ∧ (runM (9/2)).hist = [5, 4] ∧
    (runM (9/2)).log = [#v[3/5, 0]] ∧
    (runF (9/2)).status = 0 ∧ (runF (9/2)).niter = 1 ∧ (runF (9/2)).hist = [5, 4] ∧ (runF (9/2)).log = [#v[3/5, 0]] := by
  decide +kernel

end PyamgV.ExtC06.Ex
