import PyamgV.Model.ExtPyRt
/-! PyamgV (extension E42, properties C16 / C08 / C01): run-time library of the SECOND mode of the
Python -> Lean translator (`harness/py2lean2.py`, output `Generated/PyLogic2.lean`).  Core Lean only,
executable, total.  It extends `Model/ExtPyRt.lean` (same `PyVal` universe) by what is needed to translate
functions that are NOT pure: they read attributes of objects, look names up in modules, call numerical
routines, user callables and methods, create closures and catch exceptions.

The numerical work is abstracted, not translated: every object the function does not build itself
(matrices, vectors, modules, callables, `self`) is an OPAQUE object `PyVal.obj path`, and

* reading an attribute / an item of an opaque object is a pure look-up in the `World` (`heap`: object path ->
  attribute -> value; an object listed in `closed` has no other attributes: `AttributeError` / `IndexError`,
  so `hasattr` can be false; otherwise the result is the opaque object `path.attr` / `path[i]`);
* CALLING an opaque object, applying an arithmetic operator to one, assigning to an item of one is an EVENT:
  it is appended to the trace (`St.trace`) with all its arguments and keyword arguments, and its result is
  the next value the `script` holds for that callee (a value, or the marker `(<raise>, cls)` = the call raises
  `cls`), or, when the script has nothing, the fresh opaque object `#k` (`k` = index of the event).

So one run of a translated function yields (result or exception class, trace of everything it asked the
outside world to do, in order, with every argument).  `harness/extpy2.py` implements exactly the same semantics
on the Python side with mock objects (`Sym`), runs the REAL function against them, and the checks compare result
and trace exactly.  Functions that cause no events (`coarse_grid_solver`'s dispatch) stay in `PyM`. -/
namespace PyamgV.ExtPy2
open PyamgV.ExtPy

/-- the outside world of one call: attribute values, closed objects, opaque objects that are not callable -/
structure World where
  heap : List (String × List (String × PyVal)) := []
  closed : List String := []
  noncallable : List String := []
deriving Repr, Inhabited

/-- the mutable part: events so far, and what the callees still have to answer -/
structure St where
  trace : List PyVal := []
  script : List (String × List PyVal) := []
deriving Repr, Inhabited

/-- exceptions do NOT roll the state back (events that happened stay in the trace) -/
abbrev PyM2 := ExceptT PyErr (StateM St)

instance : MonadLift PyM PyM2 := ⟨fun x => ExceptT.mk (pure x)⟩

/-- run from an initial state -/
def PyM2.exec {α : Type} (x : PyM2 α) (s : St) : Except PyErr α × St := Id.run ((ExceptT.run x).run s)

/-! ### attributes, items, `len`, `isinstance`, `callable` (pure) -/

def heapGet (w : World) (p a : String) : Option PyVal := (w.heap.lookup p).bind (fun m => m.lookup a)

/-- `x.a` -/
def getAttr (w : World) (x : PyVal) (a : String) : PyM PyVal :=
  match x with
  | .obj p =>
    match heapGet w p a with
    | some v => pure v
    | Option.none => if w.closed.contains p then raise "AttributeError" a else pure (.obj (p ++ "." ++ a))
  | .none => raise "AttributeError" a
  | _ => raise "Unsupported" "attribute of a built-in value"

/-- `hasattr(x, a)` -/
def hasAttr (w : World) (x a : PyVal) : PyM Bool :=
  match a with
  | .str s =>
    match getAttr w x s with
    | .ok _ => pure true
    | .error e => if e.cls == "AttributeError" then pure false else .error e
  | _ => raise "TypeError" "attribute name must be string"

/-- `getattr(x, a)` -/
def getAttrDyn (w : World) (x a : PyVal) : PyM PyVal :=
  match a with
  | .str s => getAttr w x s
  | _ => raise "TypeError" "attribute name must be string"

/-- how an index is written in an object path -/
def idxKey : PyVal → Option String
  | .int i => some ("[" ++ toString i ++ "]")
  | .str s => some ("['" ++ s ++ "']")
  | _ => Option.none

/-- `x[i]`: a look-up for opaque objects, `pyGetItem` otherwise -/
def getItem2 (w : World) (x i : PyVal) : PyM PyVal :=
  match x with
  | .obj p =>
    match idxKey i with
    | some k =>
      match heapGet w p k with
      | some v => pure v
      | Option.none => if w.closed.contains p then raise "IndexError" k else pure (.obj (p ++ k))
    | Option.none => raise "Unsupported" "subscript of an opaque object that is not an int or a str"
  | _ => pyGetItem x i

/-- `len(x)` -/
def len2 (w : World) (x : PyVal) : PyM PyVal :=
  match x with
  | .obj p =>
    match heapGet w p "__len__" with
    | some (.int n) => pure (.int n)
    | _ => raise "TypeError" "object has no len()"
  | _ => pyLen x

/-- `isinstance(x, C)` for a class `C` that is an opaque object (`np.ndarray`): decided by the `__class__`
entry of `x` -/
def symIsInst (w : World) (x c : PyVal) : PyM Bool :=
  match c with
  | .obj _ =>
    match x with
    | .obj p => pure (match heapGet w p "__class__" with | some k => pyEq k c | Option.none => false)
    | _ => pure false
  | _ => raise "TypeError" "isinstance() arg 2 must be a type"

def closureTag : PyVal := .obj "<closure>"
def classTag : PyVal := .obj "<class>"
def instanceTag : PyVal := .obj "<instance>"

/-- a nested `def`: its name, which of the enclosing function's nested definitions of that name it is (source
order), the dotted names it calls (a summary of its body), and the enclosing function's variables it
captures with their values at the moment of the definition -/
def mkClosure (name : String) (k : Nat) (calls : List String) (cap : List (String × PyVal)) : PyVal :=
  .tuple [closureTag, .str name, .int k, .list (calls.map .str), .dict cap]

/-- a nested `class`: its name and what its methods capture -/
def mkClass (name : String) (cap : List (String × PyVal)) : PyVal := .tuple [classTag, .str name, .dict cap]

/-- `C()` for a nested class `C` -/
def symInstantiate : PyVal → PyM PyVal
  | .tuple (.obj t :: rest) => if t == "<class>" then pure (.tuple (instanceTag :: rest)) else raise "TypeError" "object is not callable"
  | _ => raise "Unsupported" "call of something that is not a nested class"

/-- `callable(x)` -/
def isCallable (w : World) : PyVal → Bool
  | .obj p => !w.noncallable.contains p
  | .tuple (.obj t :: _) => t == "<closure>" || t == "<class>"
  | _ => false

/-! ### built-in conversions and methods -/

/-- `str(x)` -/
def pyStr : PyVal → PyM PyVal
  | .str s => pure (.str s)
  | .int i => pure (.str (toString i))
  | .bool b => pure (.str (if b then "True" else "False"))
  | .none => pure (.str "None")
  | _ => raise "Unsupported" "str() of this value"

/-- truncation toward zero -/
def ratTrunc (q : Rat) : Int := if 0 ≤ q then q.floor else -((-q).floor)

/-- `int(x)` -/
def pyInt : PyVal → PyM PyVal
  | .int i => pure (.int i)
  | .bool b => pure (.int (if b then 1 else 0))
  | .float q => pure (.int (ratTrunc q))
  | .obj _ => raise "TypeError" "int() argument"
  | .none => raise "TypeError" "int() argument"
  | _ => raise "Unsupported" "int() of this value"

/-- `a / b` on numbers: the exact quotient (CPython rounds it to a double: the two agree when the quotient
is a double, and after `int(...)` / comparisons away from a rounding boundary) -/
def pyTrueDiv (a b : PyVal) : PyM PyVal :=
  match a.num?, b.num? with
  | some x, some y => if y == 0 then raise "ZeroDivisionError" "division by zero" else pure (.float (x / y))
  | _, _ => raise "TypeError" "unsupported operand type(s) for /"

def upperStr (s : String) : String := String.ofList (s.toList.map Char.toUpper)
def lowerStr (s : String) : String := String.ofList (s.toList.map Char.toLower)

/-- `dict(x)` -/
def pyDictCopy : PyVal → PyM PyVal
  | .dict kvs => pure (.dict kvs)
  | .none => raise "TypeError" "object is not iterable"
  | .int _ => raise "TypeError" "object is not iterable"
  | _ => raise "Unsupported" "dict() of this value"

/-- `d.pop(k)`: the value and the dictionary without the key -/
def pyDictPop (d k : PyVal) : PyM (PyVal × PyVal) :=
  match d with
  | .dict kvs =>
    match k with
    | .str s =>
      match kvs.lookup s with
      | some v => pure (v, .dict (kvs.filter (fun kv => kv.1 != s)))
      | Option.none => raise "KeyError" s
    | _ => if k.hashable then raise "KeyError" "key" else raise "TypeError" "unhashable type"
  | _ => raise "Unsupported" "pop on something that is not a dict"

/-- explicit keyword arguments followed by `**extra` -/
def kwMerge (explicit : List (String × PyVal)) (extra : PyVal) : PyM (List (String × PyVal)) :=
  match explicit, extra with
  | [], .dict kvs => pure kvs
  | _, .dict kvs =>
    if kvs.any (fun kv => explicit.any (fun e => e.1 == kv.1)) then raise "TypeError" "got multiple values for keyword argument"
    else pure (explicit ++ kvs)
  | _, _ => raise "TypeError" "argument after ** must be a mapping"

/-- methods of built-in values -/
def builtinMethod (recv : PyVal) (m : String) (args : List PyVal) (kw : List (String × PyVal)) : PyM PyVal :=
  if !kw.isEmpty then raise "Unsupported" "keyword arguments of a built-in method" else
  match recv, m, args with
  | .dict _, "get", [k] => pyDictGet recv k .none
  | .dict _, "get", [k, d] => pyDictGet recv k d
  | .dict _, "items", [] => pyItems recv
  | .dict _, "keys", [] => pyKeys recv
  | .dict _, "values", [] => pyValues recv
  | .dict kvs, "copy", [] => pure (.dict kvs)
  | .list xs, "copy", [] => pure (.list xs)
  | .str s, "upper", [] => pure (.str (upperStr s))
  | .str s, "lower", [] => pure (.str (lowerStr s))
  | .str _, "startswith", [p] => do pure (.bool (← pyStartswith recv p))
  | .str _, "endswith", [p] => do pure (.bool (← pyEndswith recv p))
  | .none, _, _ => raise "AttributeError" m
  | _, _, _ => raise "Unsupported" ("method " ++ m ++ " of a built-in value")

/-! ### events -/

def emit (e : PyVal) : PyM2 Unit := modify (fun s => { s with trace := s.trace ++ [e] })

def raiseTag : PyVal := .obj "<raise>"

/-- the marker a script uses for "this call raises `cls`" -/
def mkRaise (cls : String) : PyVal := .tuple [raiseTag, .str cls]

def scriptSet (sc : List (String × List PyVal)) (label : String) (rest : List PyVal) : List (String × List PyVal) :=
  sc.map (fun e => if e.1 == label then (label, rest) else e)

/-- the class a script entry raises, if it is the marker -/
def raiseCls : PyVal → Option String
  | .tuple [.obj "<raise>", .str cls] => some cls
  | _ => Option.none

/-- the answer to event number `k` of callee `label` -/
def nextResult (label : String) (k : Nat) : PyM2 PyVal := do
  let s ← get
  match s.script.lookup label with
  | some (r :: rest) =>
    set { s with script := scriptSet s.script label rest }
    match raiseCls r with
    | some cls => throw ⟨cls, "scripted"⟩
    | Option.none => pure r
  | _ => pure (.obj ("#" ++ toString k))

/-- `f(*args, **kw)` -/
def symCall (w : World) (f : PyVal) (args : List PyVal) (kw : List (String × PyVal)) : PyM2 PyVal :=
  match f with
  | .obj p =>
    if w.noncallable.contains p then throw ⟨"TypeError", "object is not callable"⟩
    else do
      let k := (← get).trace.length
      emit (.tuple [.str "call", f, .list args, .dict kw])
      nextResult p k
  | .tuple (.obj t :: rest) =>
    if t == "<class>" then
      (if args.isEmpty && kw.isEmpty then pure (.tuple (instanceTag :: rest))
       else throw ⟨"Unsupported", "constructor arguments"⟩)
    else if t == "<closure>" then throw ⟨"Unsupported", "call of a closure"⟩
    else if t == "<bound>" then
      (match rest with
       | [recv, .str m] => (builtinMethod recv m args kw : PyM PyVal)
       | _ => throw ⟨"TypeError", "object is not callable"⟩)
    else throw ⟨"TypeError", "object is not callable"⟩
  | _ => throw ⟨"TypeError", "object is not callable"⟩

/-- what `recv.m` evaluates to in a call `recv.m(...)`: the attribute of an opaque object, or the bound method
of a built-in value -/
def methodOf (w : World) (recv : PyVal) (m : String) : PyM PyVal :=
  match recv with
  | .obj _ => getAttr w recv m
  | .none => raise "AttributeError" m
  | _ => pure (.tuple [.obj "<bound>", recv, .str m])

/-- `recv.m(*args, **kw)` -/
def symMethod (w : World) (recv : PyVal) (m : String) (args : List PyVal) (kw : List (String × PyVal)) : PyM2 PyVal :=
  match recv with
  | .obj _ => do
    let f ← (getAttr w recv m : PyM PyVal)
    symCall w f args kw
  | _ => (builtinMethod recv m args kw : PyM PyVal)

def isObj : PyVal → Bool
  | .obj _ => true
  | _ => false

/-- `a op b`, op one of add sub mul div matmul -/
def symBin (op : String) (a b : PyVal) : PyM2 PyVal :=
  if isObj a || isObj b then do
    let k := (← get).trace.length
    emit (.tuple [.str "binop", .str op, a, b])
    nextResult ("<" ++ op ++ ">") k
  else if op == "add" then (pyAdd a b : PyM PyVal)
  else if op == "sub" then (pySub a b : PyM PyVal)
  else if op == "mul" then (pyMul a b : PyM PyVal)
  else if op == "div" then (pyTrueDiv a b : PyM PyVal)
  else throw ⟨"TypeError", "unsupported operand type(s) for @"⟩

/-- the key of `x[lo:hi]` in an event -/
def sliceKey (lo hi : PyVal) : PyVal := .tuple [.str "<slice>", lo, hi]

/-- `x[key] = v` as the new value of `x` -/
def symSetItem (x key v : PyVal) : PyM2 PyVal :=
  match x with
  | .obj _ => do
    emit (.tuple [.str "setitem", x, key, v])
    pure x
  | .list _ =>
    match key with
    | .tuple [.str "<slice>", .none, .none] => (pyList v : PyM PyVal)
    | .tuple (.str "<slice>" :: _) => throw ⟨"Unsupported", "slice assignment other than x[:] = v"⟩
    | _ => (pySetItem x key v : PyM PyVal)
  | _ => (pySetItem x key v : PyM PyVal)

/-- `x.a = v` on an opaque object: an event (the store is not reflected by later reads: the translator rejects
nothing here, both sides of the comparison behave alike) -/
def symSetAttr (x : PyVal) (a : String) (v : PyVal) : PyM2 Unit :=
  match x with
  | .obj _ => emit (.tuple [.str "setattr", x, .str a, v])
  | .tuple (.obj _ :: _) => throw ⟨"Unsupported", "attribute assignment on a closure / instance value"⟩
  | _ => throw ⟨"AttributeError", a⟩

/-- `x.append(v)` as the new value of `x` -/
def symAppend (w : World) (x v : PyVal) : PyM2 PyVal :=
  match x with
  | .obj _ => do
    let _ ← symMethod w x "append" [v] []
    pure x
  | _ => (pyAppend x v : PyM PyVal)

/-- `x.extend(v)` as the new value of `x` -/
def symExtend (w : World) (x v : PyVal) : PyM2 PyVal :=
  match x with
  | .obj _ => do
    let _ ← symMethod w x "extend" [v] []
    pure x
  | _ => (pyExtend x v : PyM PyVal)

/-- which exception classes an `except (C1, C2, ...)` clause catches.  The translator's pseudo exceptions are
never caught. -/
def excMatches (cls : String) (names : List String) : Bool :=
  cls != "Unsupported" && cls != "FuelExhausted" &&
  (names.contains cls || names.contains "Exception" || names.contains "BaseException" ||
   ((cls == "IndexError" || cls == "KeyError") && names.contains "LookupError") ||
   (cls == "ZeroDivisionError" && names.contains "ArithmeticError"))

end PyamgV.ExtPy2
