import PyamgV.Model.C20Read
/-! PyamgV (C20, extension E21): executable rational twins of the objects of the spectrum theorems
(`Proofs/ExtC20Spectrum.lean` states them over any field of characteristic zero; `Proofs/ExtC20Twin.lean`
proves that over `Rat` they are these functions). Core only; evaluated by the driver (`Driver/ExtE21.lean`). -/
namespace PyamgV.C20

/-- `(U_n(c), U_{n+1}(c))`, Chebyshev polynomials of the second kind by the three-term recurrence -/
def chebPair (c : Rat) : Nat → Rat × Rat
  | 0 => (1, 2 * c)
  | n + 1 => ((chebPair c n).2, 2 * c * (chebPair c n).2 - (chebPair c n).1)

/-- `U_n(c)` -/
def chebUQ (c : Rat) (n : Nat) : Rat := (chebPair c n).1

/-- `v(p) = Π_i u_i(coords_i(p))` on the row-major grid -/
def tvecQ : List Nat → List (Nat → Rat) → Nat → Rat
  | _ :: gs, u :: us, p => u (p / gs.foldl (· * ·) 1) * tvecQ gs us (p % gs.foldl (· * ·) 1)
  | _, _, _ => 1

/-- the eigenvalue of the closed form: `Σ_i (2 - 2 c_i)` (FD) resp. `3^N - Π_i (1 + 2 c_i)` (FE) -/
def eigQ (fe : Bool) (cs : List Rat) : Rat :=
  if fe then (3 : Rat) ^ cs.length - (cs.map fun c => 1 + 2 * c).foldl (· * ·) 1
  else (cs.map fun c => 2 - 2 * c).foldl (· + ·) 0

end PyamgV.C20
