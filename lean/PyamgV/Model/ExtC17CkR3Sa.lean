import PyamgV.Model.ExtC17CkBlock

/-! PyamgV (C17, extension E19, round 3): checked-execution (`Ck`) models of the dense-block helpers of
`smoothed_aggregation.h`, written loop by loop after the C++:

* `gemm` in the two remaining modes that have callers: `('F','F','T')` with overwrite (`gemmFT`: `S` is
  written column-major, `s_counter = i; s_counter += Srows`) and `('F','T','F')` without overwrite
  (`gemmTacc`: row-major `B`, the SMMP loop order),
* `satisfy_constraints_helper` (two `gemm`s per stored block, non-square blocks),
* `calc_BtB` (packed upper-triangular rows of `Bsq`, the running counters `BtBcounter`, `BsqCounter`,
  `counter` are loop state),
* `incomplete_mat_mult_bsr` (non-square blocks; the array of pointers `std::vector<T*> S(n_bcol)` is an
  array of offsets into `Sx` with `-1` for `NULL`).

A C pointer into an array is (array, offset).  Core Lean only. -/
namespace PyamgV.C17
open PyamgV.Ck

variable {α : Type} [Inhabited α]

/-! ### linalg.h: `gemm`, modes `('F','F','T','T')` and `('F','T','F','F')` -/

/-- `gemm(&Ax[ao], arows, acols, 'F', &Bx[bo], brows, bcols, 'F', &Sx[so], srows, scols, 'T', 'T')` -/
def gemmFT (o : KOps α) (ax : Array α) (ao : Int) (arows acols : Nat) (bx : Array α) (bo : Int)
    (brows bcols : Nat) (sx : Array α) (so : Int) (srows scols : Nat) : Ck (Array α) := do
  -- `std::fill(Sx, Sx + Srows*Scols, 0)`
  let sx ← forRange 0 ((srows : Int) * (scols : Int)) sx (fun t (sx : Array α) => wr sx (so + t) o.zero)
  -- state of the `i` loop: `(Sx, a_start)`; `s_counter = i; b_counter = 0;`
  let r ← forRange 0 (arows : Int) (sx, (0 : Int)) (fun i (st : Array α × Int) => do
    -- state of the `j` loop: `(Sx, s_counter, b_counter)`
    let r ← forRange 0 (bcols : Int) (st.1, i, (0 : Int)) (fun _ (st2 : Array α × Int × Int) => do
      -- state of the `k` loop: `(Sx, a_counter, b_counter)`, `a_counter = a_start`
      let r ← forRange 0 (brows : Int) (st2.1, st.2, st2.2.2) (fun _ (st3 : Array α × Int × Int) => do
        let s ← rd st3.1 (so + st2.2.1)
        let a ← rd ax (ao + st3.2.1)
        let b ← rd bx (bo + st3.2.2)
        let sx ← wr st3.1 (so + st2.2.1) (o.add s (o.mul a b))
        pure (sx, st3.2.1 + 1, st3.2.2 + 1))
      -- `s_counter += Srows`
      pure (r.1, st2.2.1 + (srows : Int), r.2.2))
    -- `a_start += Acols`
    pure (r.1, st.2 + (acols : Int)))
  pure r.1

/-- `gemm(&Ax[ao], arows, acols, 'F', &Bx[bo], _, bcols, 'T', &Sx[so], _, scols, 'F', 'F')` -/
def gemmTacc (o : KOps α) (ax : Array α) (ao : Int) (arows acols : Nat) (bx : Array α) (bo : Int)
    (bcols : Nat) (sx : Array α) (so : Int) (scols : Nat) : Ck (Array α) := do
  -- state of the `i` and `j` loops: `(Sx, a_counter)`
  let r ← forRange 0 (arows : Int) (sx, (0 : Int)) (fun i (st : Array α × Int) =>
    forRange 0 (acols : Int) st (fun j (st2 : Array α × Int) => do
      -- state of the `k` loop: `(Sx, s_counter, b_counter)`, `s_counter = i*Scols; b_counter = j*Bcols;`
      let r ← forRange 0 (bcols : Int) (st2.1, i * (scols : Int), j * (bcols : Int))
        (fun _ (st3 : Array α × Int × Int) => do
          let s ← rd st3.1 (so + st3.2.1)
          let a ← rd ax (ao + st2.2)
          let b ← rd bx (bo + st3.2.2)
          let sx ← wr st3.1 (so + st3.2.1) (o.add s (o.mul a b))
          pure (sx, st3.2.1 + 1, st3.2.2 + 1))
      -- `a_counter++`
      pure (r.1, st2.2 + 1)))
  pure r.1

/-! ### `satisfy_constraints_helper` -/

/-- state: `Sx`, `Update`, `C` -/
abbrev SCSt (α : Type) := Array α × Array α × Array α

/-- one stored block `j` of block row `i` -/
def scBlock (o : KOps α) (rpb cpb nd : Nat) (bt ub btbinv : Array α) (S : Csr α) (i j : Int) (st : SCSt α) :
    Ck (SCSt α) := do
  let col ← rd S.aj j
  let c ← gemmFT o btbinv (i * ((nd : Int) * (nd : Int))) nd nd bt (col * ((nd : Int) * (cpb : Int))) nd cpb
    st.2.2 0 nd cpb
  let upd ← gemmFF o ub (i * ((nd : Int) * (rpb : Int))) rpb nd c 0 nd cpb st.2.1 0 rpb cpb
  -- `for(k = 0; k < BlockSize; k++) Sx[j*BlockSize + k] -= Update[k]`
  let sx ← forRange 0 ((rpb : Int) * (cpb : Int)) st.1 (fun k (sx : Array α) => do
    let v ← rd sx (j * ((rpb : Int) * (cpb : Int)) + k)
    let u ← rd upd k
    wr sx (j * ((rpb : Int) * (cpb : Int)) + k) (o.sub v u))
  pure (sx, upd, c)

/-- `satisfy_constraints_helper(rows_per_block, cols_per_block, num_block_rows, NullDim, x, y, z, Sp, Sj, Sx)`
with `Bt = x`, `UB = y`, `BtBinv = z`; `S.n = num_block_rows`; returns `(Sx, Update, C)` -/
def satisfyConstraints (o : KOps α) (rpb cpb nd : Nat) (bt ub btbinv : Array α) (S : Csr α) : Ck (SCSt α) := do
  -- `std::vector<T> C(NullDim_Cols,0); for(i..) C[i] = 0.0;`
  let c ← forRange 0 ((nd : Int) * (cpb : Int)) (Array.replicate (nd * cpb) o.zero) (fun i (c : Array α) => wr c i o.zero)
  forRange 0 (S.n : Int) (S.ax, Array.replicate (rpb * cpb) o.zero, c) (fun i (st : SCSt α) => do
    let s ← rd S.ap i
    let e ← rd S.ap (i+1)
    forRange s e st (fun j (st : SCSt α) => scBlock o rpb cpb nd bt ub btbinv S i j st))

/-! ### `calc_BtB` -/

/-- the diagonal of `BtB_loc`: state `(BtB_loc, BtBcounter, BsqCounter)` -/
def btbDiag (o : KOps α) (bsq : Array α) (nd : Nat) (k bsqCols : Int) (loc : Array α) : Ck (Array α) := do
  let r ← forRange 0 (nd : Int) (loc, (0 : Int), k * bsqCols) (fun m (st : Array α × Int × Int) => do
    let l ← rd st.1 st.2.1
    let v ← rd bsq st.2.2
    let loc ← wr st.1 st.2.1 (o.add l v)
    pure (loc, st.2.1 + (nd : Int) + 1, st.2.2 + ((nd : Int) - m)))
  pure r.1

/-- the off-diagonals of `BtB_loc`: state of the `m` loop `(BtB_loc, BsqCounter)`, of the `n` loop
`(BtB_loc, counter)` -/
def btbOff (o : KOps α) (bsq : Array α) (nd : Nat) (k bsqCols : Int) (loc : Array α) : Ck (Array α) := do
  let r ← forRange 0 (nd : Int) (loc, k * bsqCols) (fun m (st : Array α × Int) => do
    let r ← forRange (m+1) (nd : Int) (st.1, (1 : Int)) (fun n (st2 : Array α × Int) => do
      let e ← rd bsq (st.2 + st2.2)
      let l1 ← rd st2.1 (m * (nd : Int) + n)
      let loc ← wr st2.1 (m * (nd : Int) + n) (o.add l1 (o.conj e))
      let l2 ← rd loc (n * (nd : Int) + m)
      let loc ← wr loc (n * (nd : Int) + m) (o.add l2 e)
      pure (loc, st2.2 + 1))
    pure (r.1, st.2 + ((nd : Int) - m)))
  pure r.1

/-- `calc_BtB(NullDim, Nnodes, cols_per_block, b, BsqCols, x, Sp, Sj)` with `Bsq = b`, `BtB = x`;
returns `(BtB, BtB_loc)` -/
def calcBtB (o : KOps α) (nd nnodes cpb : Nat) (bsq : Array α) (bsqCols : Int) (x : Array α)
    (sp sj : Array Int) : Ck (Array α × Array α) :=
  forRange 0 (nnodes : Int) (x, Array.replicate (nd * nd) default) (fun i (st : Array α × Array α) => do
    let s ← rd sp i
    let e ← rd sp (i+1)
    let loc ← forRange 0 ((nd : Int) * (nd : Int)) st.2 (fun k (loc : Array α) => wr loc k o.zero)
    let loc ← forRange s e loc (fun j (loc : Array α) => do
      let c ← rd sj j
      forRange (c * (cpb : Int)) (c * (cpb : Int) + (cpb : Int)) loc (fun k (loc : Array α) => do
        let loc ← btbDiag o bsq nd k bsqCols loc
        btbOff o bsq nd k bsqCols loc))
    -- `curr_block = BtB + i*NullDimSq; curr_block[k] = BtB_loc[k]`
    let x ← forRange 0 ((nd : Int) * (nd : Int)) st.1 (fun k (x : Array α) => do
      let l ← rd loc k
      wr x (i * ((nd : Int) * (nd : Int)) + k) l)
    pure (x, loc))

/-! ### `incomplete_mat_mult_bsr` -/

/-- `for(jj = Sp[i]; jj < Sp[i+1]; jj++) S[Sj[jj]] = v(jj)` (`&Sx[jj*S_blocksize]` or `NULL`) -/
def imbMark (S : Csr α) (s e : Int) (v : Int → Int) (ptr : Array Int) : Ck (Array Int) :=
  forRange s e ptr (fun jj (ptr : Array Int) => do
    let c ← rd S.aj jj
    wr ptr c (v jj))

/-- the body of the `kk` loop: accumulate block `A[jj]*B[kk]` into `*Sk` if `Sk != NULL` -/
def imbAcc (o : KOps α) (A B : Csr α) (ptr : Array Int) (one : Bool) (browA bcolA bcolB : Nat) (jj kk : Int)
    (sx : Array α) : Ck (Array α) := do
  let k ← rd B.aj kk
  let sk ← rd ptr k
  if sk ≠ -1 then
    if one then do
      -- `*(Sk) += Ax[jj]*Bx[kk]`
      let s ← rd sx sk
      let a ← rd A.ax jj
      let b ← rd B.ax kk
      wr sx sk (o.add s (o.mul a b))
    else
      gemmTacc o A.ax (jj * ((browA : Int) * (bcolA : Int))) browA bcolA B.ax (kk * ((bcolA : Int) * (bcolB : Int)))
        bcolB sx sk bcolB
  else pure sx

/-- `incomplete_mat_mult_bsr(Ap, Aj, Ax, Bp, Bj, Bx, Sp, Sj, Sx, n_brow, n_bcol, brow_A, bcol_A, bcol_B)`;
`S.n = n_brow`; returns `(Sx, S)` (the pointer array as offsets) -/
def incompleteMatMultBsr (o : KOps α) (A B S : Csr α) (nbcol browA bcolA bcolB : Nat) :
    Ck (Array α × Array Int) :=
  let one : Bool := decide (browA * bcolA = 1 ∧ bcolA * bcolB = 1 ∧ browA * bcolB = 1)
  forRange 0 (S.n : Int) (S.ax, Array.replicate nbcol (-1 : Int)) (fun i (st : Array α × Array Int) => do
    let s ← rd S.ap i
    let e ← rd S.ap (i+1)
    let ptr ← imbMark S s e (fun jj => jj * ((browA : Int) * (bcolB : Int))) st.2
    let as ← rd A.ap i
    let ae ← rd A.ap (i+1)
    let sx ← forRange as ae st.1 (fun jj (sx : Array α) => do
      let j ← rd A.aj jj
      let ks ← rd B.ap j
      let ke ← rd B.ap (j+1)
      forRange ks ke sx (fun kk (sx : Array α) => imbAcc o A B ptr one browA bcolA bcolB jj kk sx))
    let ptr ← imbMark S s e (fun _ => -1) ptr
    pure (sx, ptr))

end PyamgV.C17
