import PyamgV.Model.KRelax
import PyamgV.Model.C05Flag

/-! PyamgV (C05): executable model of the preconditioner `aspreconditioner(cycle)` of a
`MultilevelSolver` whose smoothers were installed by `change_smoothers(ml, pre, post)`:

* which specification lands on which level (`preAt` / `postAt` of `Model/C05Flag.lean`),
* what the setup functions of smoothing.py make of a specification (`smOf`: defaults of
  `setup_gauss_seidel`, `setup_sor`, `setup_jacobi`, the block variants with block size one, which
  forward to the point versions, `setup_cf_jacobi` / `setup_fc_jacobi`, `setup_none`),
* the smoothers themselves: the drivers of relaxation.py over the kernels of relaxation.h
  (`Model/KRelax.lean`, the models compared bit-exactly with the code by C09),
* the recursion of `MultilevelSolver.__solve` for V and W cycles with an exact coarsest solve,
* one application `b ↦ solve(b, x0 = 0, maxiter = 1)`.

Scalars are polymorphic (`Rat`, Gaussian rationals `CRat`). Import-free apart from the two models. -/
namespace PyamgV.C05
open PyamgV.K

/-- what a setup function returns, for the smoothers this model covers -/
inductive Sm where
  | none
  | gs (ω : Rat) (sw : Sweep) (iters : Nat)
  | jac (ω : Rat) (iters : Nat)
  | cfjac (cFirst : Bool) (ω : Rat) (iters fIt cIt : Nat)
deriving DecidableEq, Repr

def natOf : Val → Option Nat
  | .num q => if q.den = 1 ∧ 0 ≤ q.num then some q.num.toNat else none
  | _ => none
def ratOf : Val → Option Rat
  | .num q => some q
  | _ => none
def sweepOfVal : Val → Option Sweep
  | .str "forward" => some .forward
  | .str "backward" => some .backward
  | .str "symmetric" => some .symmetric
  | _ => none

/-- keys of `c` lie in `keys` (the others would make the setup call raise or are not modelled) -/
def onlyKeys (c : Cfg) (keys : List String) : Bool := c.kw.all (fun kv => keys.contains kv.1)

/-- `withrho` must be switched off: the rescaling of `omega` by an *estimated* spectral radius is
outside the exact model -/
def noRho (c : Cfg) (dfltOff : Bool) : Bool :=
  match c.kw.lookup "withrho" with
  | some (.num q) => q == 0
  | some _ => false
  | none => dfltOff

def blockOne (c : Cfg) : Bool :=
  match c.kw.lookup "blocksize" with
  | some (.num q) => q == 1
  | some _ => false
  | none => true          -- CSR level matrix: block size one

/-- the families of setup functions the model covers -/
inductive Kind where
  | noSm                                  -- `setup_none`
  | gsLike (omegaDefault : Option Rat)    -- Gauss–Seidel (`none`: no omega, i.e. 1) / SOR (`some` default omega)
  | jacLike                               -- (block size one) Jacobi
  | cfLike (cFirst : Bool)                -- `cf_jacobi` / `fc_jacobi`
deriving DecidableEq, Repr

def smKind : Option String → Option Kind
  | none => some .noSm
  | some "gauss_seidel" => some (.gsLike none)
  | some "block_gauss_seidel" => some (.gsLike none)
  | some "sor" => some (.gsLike (some (1/2)))
  | some "jacobi" => some .jacLike
  | some "block_jacobi" => some .jacLike
  | some "cf_jacobi" => some (.cfLike true)
  | some "fc_jacobi" => some (.cfLike false)
  | _ => none

/-- the specification stays inside the model: only keywords of the setup function, no spectral
rescaling, block size one -/
def gate (c : Cfg) : Bool :=
  match c.name with
  | none => c.kw.isEmpty
  | some "gauss_seidel" => onlyKeys c ["iterations", "sweep"]
  | some "block_gauss_seidel" => onlyKeys c ["iterations", "sweep", "blocksize"] && blockOne c
  | some "sor" => onlyKeys c ["iterations", "sweep", "omega"]
  | some "jacobi" => onlyKeys c ["iterations", "omega", "withrho"] && noRho c false
  | some "block_jacobi" => onlyKeys c ["iterations", "omega", "withrho", "blocksize"] && noRho c false && blockOne c
  | some "cf_jacobi" => onlyKeys c ["iterations", "omega", "withrho", "f_iterations", "c_iterations"] && noRho c true
  | some "fc_jacobi" => onlyKeys c ["iterations", "omega", "withrho", "f_iterations", "c_iterations"] && noRho c true
  | _ => false

/-- defaults and keyword arguments of `setup_gauss_seidel`, `setup_sor`, `setup_jacobi`,
`setup_cf_jacobi`, `setup_fc_jacobi` (the block variants forward to them for block size one) -/
def params (c : Cfg) : Kind → Option Sm
  | .noSm => some .none
  | .gsLike od => do
    let it ← natOf (get c "iterations" defaultNiter)
    let sw ← sweepOfVal (get c "sweep" defaultSweep)
    let om ← match od with
      | none => some 1
      | some d => ratOf (get c "omega" (.num d))
    some (.gs om sw it)
  | .jacLike => do
    let it ← natOf (get c "iterations" defaultNiter)
    let om ← ratOf (get c "omega" (.num 1))
    some (.jac om it)
  | .cfLike cFirst => do
    let it ← natOf (get c "iterations" defaultNiter)
    let fi ← natOf (get c "f_iterations" defaultNiter)
    let ci ← natOf (get c "c_iterations" defaultNiter)
    let om ← ratOf (get c "omega" (.num 1))
    some (.cfjac cFirst om it fi ci)

/-- the smoother a specification produces on a CSR level (`none`: outside the model) -/
def smOf (c : Cfg) : Option Sm :=
  if gate c then (smKind c.name).bind (params c) else none

variable {α : Type} [Add α] [Sub α] [Mul α] [Div α] [OfNat α 0] [OfNat α 1] [DecidableEq α]

structure Lvl (α : Type) where
  A : Csr α
  P : Csr α            -- n rows
  R : Csr α            -- nc rows
  C : List Nat         -- coarse points of the splitting (for cf/fc Jacobi), F = the others
  pre : Sm
  post : Sm

abbrev Mat (α : Type) := Array (Array α)

def spmv (M : Csr α) (x : Array α) : Array α :=
  (Array.range M.n).map (fun i => (M.jjs i).foldl (fun s jj => s + rd M.ax jj * rd x (rdN M.aj jj)) (0:α))

def vadd (x y : Array α) : Array α := (Array.range x.size).map (fun i => rd x i + rd y i)
def vsub (x y : Array α) : Array α := (Array.range x.size).map (fun i => rd x i - rd y i)

/-- apply a smoother: `relaxation.<method>(A, x, b, ...)` -/
def applySm (ofRat : Rat → α) (s : Sm) (A : Csr α) (C : List Nat) (x b : Array α) : Array α :=
  match s with
  | .none => x
  | .gs ω sw it => pyGaussSeidel (ofRat ω) A b it sw x
  | .jac ω it => pyJacobi (ofRat ω) A b it x
  | .cfjac cFirst ω it fi ci =>
    let F := (List.range A.n).filter (fun i => !C.contains i)
    pyCFJacobi cFirst (ofRat ω) A b C F it fi ci x

/-! dense helpers -/
def mget (M : Mat α) (i j : Nat) : α := rd (M.getD i #[]) j
def mOfCols (n : Nat) (cols : List (Array α)) : Mat α :=
  (Array.range n).map (fun i => (cols.map (fun c => rd c i)).toArray)
def mmul (A B : Mat α) (k m : Nat) : Mat α :=
  A.map (fun row => (Array.range m).map (fun j => (List.range k).foldl (fun s l => s + rd row l * mget B l j) (0:α)))
def madd (A B : Mat α) : Mat α := (Array.range A.size).map (fun i => vadd (A.getD i #[]) (B.getD i #[]))
def msub (A B : Mat α) : Mat α := (Array.range A.size).map (fun i => vsub (A.getD i #[]) (B.getD i #[]))
def mconjT (conj : α → α) (A : Mat α) (rows cols : Nat) : Mat α :=
  (Array.range cols).map (fun j => (Array.range rows).map (fun i => conj (mget A i j)))
def unit (n j : Nat) : Array α := (Array.range n).map (fun i => if i = j then (1:α) else 0)
def zeros (n : Nat) : Array α := Array.replicate n (0:α)
def denseOfCsr (M : Csr α) (cols : Nat) : Mat α :=
  (Array.range M.n).map (fun i =>
    (M.jjs i).foldl (fun row jj => wr row (rdN M.aj jj) (rd row (rdN M.aj jj) + rd M.ax jj)) (zeros cols))

/-- Gauss–Jordan elimination with the first non-zero pivot; `none` when singular -/
def solveDense (n : Nat) (A : Mat α) (b : Array α) : Option (Array α) :=
  let aug : Mat α := (Array.range n).map (fun i => (A.getD i #[]).push (rd b i))
  let res := (List.range n).foldl (fun (st : Option (Mat α)) k =>
    match st with
    | none => none
    | some M =>
      match (List.range' k (n - k)).find? (fun r => mget M r k ≠ 0) with
      | none => none
      | some p =>
        let rowp := M.getD p #[]
        let rowk := M.getD k #[]
        let M := (M.setIfInBounds p rowk).setIfInBounds k rowp
        let piv := rd rowp k
        let rown := rowp.map (fun v => v / piv)
        let M := M.setIfInBounds k rown
        some ((Array.range n).map (fun i =>
          if i = k then rown
          else
            let f := mget M i k
            let rowi := M.getD i #[]
            (Array.range (n+1)).map (fun j => rd rowi j - f * rd rown j)))) (some aug)
  res.map (fun M => (Array.range n).map (fun i => mget M i n))

inductive Cyc where | V | W
deriving DecidableEq, Repr

/-- `MultilevelSolver.__solve(lvl, x, b, cycle)`; the list holds the smoothing levels, `Ac` is the
coarsest matrix, solved exactly (`pinv` of a non-singular matrix). `none` when `Ac` is singular. -/
def solveLvl (ofRat : Rat → α) (Ac : Csr α) (cyc : Cyc) : List (Lvl α) → Array α → Array α → Option (Array α)
  | [], _, b => solveDense Ac.n (denseOfCsr Ac Ac.n) b
  | L :: rest, x, b => do
    let x := applySm ofRat L.pre L.A L.C x b
    let residual := vsub b (spmv L.A x)
    let coarse_b := spmv L.R residual
    let coarse_x := zeros coarse_b.size
    let coarse_x ←
      match rest, cyc with
      | [], _ => solveLvl ofRat Ac cyc rest coarse_x coarse_b
      | _ :: _, .V => solveLvl ofRat Ac .V rest coarse_x coarse_b
      | _ :: _, .W => do
        let c1 ← solveLvl ofRat Ac .W rest coarse_x coarse_b
        solveLvl ofRat Ac .W rest c1 coarse_b
    let x := vadd x (spmv L.P coarse_x)
    some (applySm ofRat L.post L.A L.C x b)

/-- the dense matrix of `aspreconditioner(cycle)`: column `j` = one cycle from `x = 0` on `e_j` -/
def denseM (ofRat : Rat → α) (Ac : Csr α) (cyc : Cyc) (Ls : List (Lvl α)) : Option (Mat α) :=
  let n := match Ls with | [] => Ac.n | L :: _ => L.A.n
  ((List.range n).mapM (fun j => solveLvl ofRat Ac cyc Ls (zeros n) (unit n j))).map (mOfCols n)

/-- matrix of the linear part of a smoother on a level: column `j` = smoother(x = 0, b = e_j) -/
def smMat (ofRat : Rat → α) (s : Sm) (A : Csr α) (C : List Nat) : Mat α :=
  mOfCols A.n ((List.range A.n).map (fun j => applySm ofRat s A C (zeros A.n) (unit A.n j)))

/-- `compM A M₁ M₂ = M₁ + M₂ − M₂ A M₁` ("first M₁ then M₂"), all `n × n` -/
def compMat (n : Nat) (A M1 M2 : Mat α) : Mat α :=
  msub (madd M1 M2) (mmul M2 (mmul A M1 n n) n n)

/-- the textbook operator `Mop` of Proofs/LinIter.lean evaluated with matrices -/
def mopMat (ofRat : Rat → α) (Ac : Csr α) (cyc : Cyc) : List (Lvl α) → Option (Mat α)
  | [] => do
    let cols ← (List.range Ac.n).mapM (fun j => solveDense Ac.n (denseOfCsr Ac Ac.n) (unit Ac.n j))
    some (mOfCols Ac.n cols)
  | L :: rest => do
    let n := L.A.n
    let nc := L.R.n
    let A := denseOfCsr L.A n
    let P := denseOfCsr L.P nc
    let R := denseOfCsr L.R n
    let Acoarse := mmul R (mmul A P n nc) n nc
    let Mrest ← mopMat ofRat Ac cyc rest
    let Mc := match rest, cyc with
      | [], _ => Mrest
      | _ :: _, .V => Mrest
      | _ :: _, .W => compMat nc Acoarse Mrest Mrest
    let cgc := mmul P (mmul Mc R nc n) nc n
    some (compMat n A (compMat n A (smMat ofRat L.pre L.A L.C) cgc) (smMat ofRat L.post L.A L.C))

/-- per level: the post-smoother's matrix is the conjugate transpose of the pre-smoother's -/
def adjointPairs (ofRat : Rat → α) (conj : α → α) (Ls : List (Lvl α)) : Bool :=
  Ls.all (fun L => smMat ofRat L.post L.A L.C == mconjT conj (smMat ofRat L.pre L.A L.C) L.A.n L.A.n)

/-- the hierarchy itself is Hermitian: every level matrix, the coarsest one, and `R = Pᴴ` -/
def hermitianHierarchy (conj : α → α) (Ac : Csr α) (Ls : List (Lvl α)) : Bool :=
  Ls.all (fun L =>
    let A := denseOfCsr L.A L.A.n
    A == mconjT conj A L.A.n L.A.n &&
    denseOfCsr L.R L.A.n == mconjT conj (denseOfCsr L.P L.R.n) L.A.n L.R.n) &&
  (let A := denseOfCsr Ac Ac.n; A == mconjT conj A Ac.n Ac.n)

end PyamgV.C05
