import PyamgV.Model.ExtC10bGmres
/-! PyamgV (extension E48, property C10): the energy-minimisation and prolongation-smoothing models run on
Gaussian rationals (`CRat`), i.e. the complex code paths of `smooth.cg_prolongation_smoothing`,
`cgnr_prolongation_smoothing`, `gmres_prolongation_smoothing`, `jacobi_prolongation_smoother` (unfiltered
and filtered) and `richardson_prolongation_smoother`.  Core Lean only.

Nothing is re-modelled: these are the generic functions of `Model/C10.lean` / `Model/ExtC10bGmres.lean`
(`energyCG`, `energyGmres`, `scaledMatrix`, `smoothLoop`, `polyApply`, `filteredLoop`) instantiated with the
conjugation `CRat.conj` -- it enters through the Frobenius product `sum(conj(X) .* Y)`, the local Gram
matrices `B_J^H B_J` and the correction `Y Z B_J^H` of `satisfy_constraints`, `A^H` of cgnr, the rotations
of gmres -- and with NumPy's order on complex scalars. -/
namespace PyamgV.C10cM
open PyamgV PyamgV.C10M PyamgV.C10bM

/-- `<` of NumPy on complex scalars (`newsum < tol`, `normr > tol`): lexicographic on (re, im) -/
def cratLt (a b : CRat) : Bool :=
  decide (a.re < b.re) || (decide (a.re = b.re) && decide (a.im < b.im))

/-- scalar functions of the gmres model on Gaussian rationals: the square root is only ever taken of real
numbers (Frobenius norms, `|h1|^2 + |h2|^2`), the modulus is `sqrt(re^2 + im^2)`; both with `sqrtQ`
(64 significant bits, exact on squares of rationals with short numerators) -/
def cratScal : SOps CRat where
  sqrt := fun z => ⟨sqrtQ z.re, 0⟩
  abs := fun z => ⟨sqrtQ (CRat.normSq z), 0⟩
  conj := CRat.conj
  lt := cratLt

/-- `cg_prolongation_smoothing` / `cgnr_prolongation_smoothing` on complex data -/
def energyCGC (cgnr : Bool) (rpb cpb nd : Nat) (pat : Pat) (A : Mat CRat) (pre : Precond CRat) (T B : Mat CRat)
    (maxiter : Nat) (tol : CRat) (cpts : Array Nat) : EnergyOut CRat :=
  energyCG CRat.conj cratLt cgnr rpb cpb nd pat A pre T B maxiter tol cpts

/-- `gmres_prolongation_smoothing` on complex data -/
def energyGmresC (rpb cpb nd : Nat) (pat : Pat) (A : Mat CRat) (pre : Precond CRat) (T B : Mat CRat)
    (maxiter : Nat) (tol : CRat) (cpts : Array Nat) : Option (EnergyGmresOut CRat) :=
  energyGmres cratScal rpb cpb nd pat A pre T B maxiter tol cpts

/-- `Dinv` of the three loops on complex data (`mkPrecond`; `aux` = the real row sums of `|A|` resp. the
column sums of `|A|^2`, sent by the check) -/
def mkPrecondC (weighting bs : Nat) (A : Mat CRat) (aux : Array CRat) : Option (Precond CRat) :=
  mkPrecond weighting bs A aux

/-- the scaled matrix of the complex Jacobi / Richardson prolongation smoothers -/
def scaledMatrixC (weighting bs : Nat) (w : CRat) (S : Mat CRat) (absRow : Array CRat) : Option (Mat CRat) :=
  scaledMatrix weighting bs w S absRow

def smoothLoopC (M : Mat CRat) (degree : Nat) (P : Mat CRat) : Mat CRat := smoothLoop M degree P
def polyApplyC (M : Mat CRat) (degree : Nat) (T : Mat CRat) : Mat CRat := polyApply M degree T

/-- filtered complex Jacobi: `U = mask(M P)`, `satisfy_constraints(U, B, BtBinv)` with `B^H`, `P <- P - U` -/
def filteredLoopC (rpb cpb nd : Nat) (M B : Mat CRat) (pats : List Pat) (P : Mat CRat) :
    Option (Mat CRat × List (Mat CRat)) :=
  filteredLoop CRat.conj rpb cpb nd M B pats P

end PyamgV.C10cM
