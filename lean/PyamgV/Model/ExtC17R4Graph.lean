import PyamgV.Model.ExtC17Ck

/-! PyamgV (C17, extension E32, round 4): checked-execution (`Ck`) models of the colouring and
independent-set kernels of graph.h, written loop by loop after the C++:

* `maximal_independent_set_serial` (again, in the `Ck` style: it is called by `vertex_coloring_mis`),
* `vertex_coloring_mis` (the loop `while(N < num_rows)` runs on fuel `n` inside `orFault`: `ok = true`
  includes its termination),
* `maximal_independent_set_parallel` (the `while` loop on fuel; `none` = fuel exhausted),
* `vertex_coloring_first_fit` (the `std::vector<bool> mask(K,false)` is an array accessed through
  `rd`/`wr`: `mask[x[j]]` is an unchecked `operator[]`),
* `vertex_coloring_jones_plassmann`, `vertex_coloring_LDF` (outer `while(N < num_rows)` on fuel; `return -1` for
  `num_rows = 0` before the final `*std::max_element(x, x + num_rows)`),
* `csr_propagate_max`, `maximal_independent_set_k_parallel` (the five `std::vector`s are arrays accessed
  through `rd`/`wr`; `std::swap` of the vectors is a swap of the state components).

Node values are `Int` (the instantiated `T = int`), weights are abstract (`WOps`).  Core Lean only. -/
namespace PyamgV.C17R4
open PyamgV.Ck PyamgV.C17

/-- the operations on the weights `R`: `a > b`, `a == b`, `a + (R) int`, `(R) int` -/
structure WOps (ρ : Type) where
  gt : ρ → ρ → Bool
  eq : ρ → ρ → Bool
  addInt : ρ → Int → ρ
  ofInt : Int → ρ

variable {ρ : Type} [Inhabited ρ]

/-! ### `maximal_independent_set_serial`, `vertex_coloring_mis` -/

/-- `if(x[j] == active) x[j] = F` over the row `s..e` -/
def markRow (aj : Array Int) (active F : Int) (s e : Int) (x : Array Int) : Ck (Array Int) :=
  forRange s e x (fun jj (x : Array Int) => do
    let j ← rd aj jj
    let xj ← rd x j
    if xj = active then wr x j F else pure x)

/-- `maximal_independent_set_serial(num_rows, Ap, Aj, active, C, F, x)`; returns `(x, N)` -/
def misSerial (n : Nat) (ap aj : Array Int) (active C F : Int) (x : Array Int) : Ck (Array Int × Int) :=
  forRange 0 (n : Int) (x, (0 : Int)) (fun i (st : Array Int × Int) => do
    let xi ← rd st.1 i
    if xi ≠ active then pure st
    else do
      let x ← wr st.1 i C
      let s ← rd ap i
      let e ← rd ap (i+1)
      let x ← markRow aj active F s e x
      pure (x, st.2 + 1))

/-- state of `vertex_coloring_mis`: `x`, `N`, `K` -/
abbrev VC := Array Int × Int × Int

/-- `N += maximal_independent_set_serial(num_rows,Ap,Aj,-1-K,K,-2-K,x); K++;` -/
def vcMisPass (n : Nat) (ap aj : Array Int) (st : VC) : Ck VC := do
  let r ← misSerial n ap aj (-1 - st.2.2) st.2.2 (-2 - st.2.2) st.1
  pure (r.1, st.2.1 + r.2, st.2.2 + 1)

/-- `while(N < num_rows){ .. }` with fuel; `none` = fuel exhausted -/
def vcMisWhile (n : Nat) (ap aj : Array Int) : Nat → Ck VC → Option (Ck VC)
  | 0, st => if st.val.2.1 < (n : Int) then none else some st
  | f+1, st =>
    if st.val.2.1 < (n : Int) then vcMisWhile n ap aj f (st >>= vcMisPass n ap aj) else some st

/-- `std::fill(x, x + num_rows, v)` -/
def fillN (n : Nat) (v : Int) (x : Array Int) : Ck (Array Int) :=
  forRange 0 (n : Int) x (fun i (x : Array Int) => wr x i v)

/-- `vertex_coloring_mis(num_rows, Ap, Aj, x)`; returns `(x, K)` -/
def vertexColoringMis (n : Nat) (ap aj x : Array Int) : Ck (Array Int × Int) := do
  let x ← fillN n (-1) x
  let r ← orFault (vcMisWhile n ap aj n (pure (x, 0, 0)))
  pure (r.1, r.2.2)

/-! ### `maximal_independent_set_parallel` -/

/-- the first inner loop of a row (with its three `break`s); state `(x, broke)`, `broke = false` is `jj == row_end` -/
def mpScan (w : WOps ρ) (aj : Array Int) (y : Array ρ) (active C F : Int) (i : Int) (yi : ρ) (s e : Int)
    (x : Array Int) : Ck (Array Int × Bool) :=
  forRange s e (x, false) (fun jj (st : Array Int × Bool) =>
    if st.2 then pure st
    else do
      let j ← rd aj jj
      let xj ← rd st.1 j
      if xj = C then do
        let x ← wr st.1 i F
        pure (x, true)
      else if xj = active then do
        let yj ← rd y j
        if w.gt yj yi then pure (st.1, true)
        else if w.eq yj yi ∧ j > i then pure (st.1, true)
        else pure st
      else pure st)

/-- state of one pass: `x`, `N`, `active_nodes` -/
abbrev MPP := Array Int × Int × Bool

/-- the body of `for(I i = 0; i < num_rows; i++)` -/
def mpRow (w : WOps ρ) (ap aj : Array Int) (y : Array ρ) (active C F : Int) (i : Int) (st : MPP) : Ck MPP := do
  let yi ← rd y i
  let xi ← rd st.1 i
  if xi ≠ active then pure st
  else do
    let s ← rd ap i
    let e ← rd ap (i+1)
    let r ← mpScan w aj y active C F i yi s e st.1
    if r.2 then pure (r.1, st.2.1, true)
    else do
      let x ← markRow aj active F s e r.1
      let x ← wr x i C
      pure (x, st.2.1 + 1, st.2.2)

/-- state of the `while` loop: `x`, `N`, `num_iters`, `active_nodes` -/
abbrev MP := Array Int × Int × Int × Bool

/-- one pass of the `while` body -/
def mpPass (w : WOps ρ) (n : Nat) (ap aj : Array Int) (y : Array ρ) (active C F : Int) (st : MP) : Ck MP := do
  let r ← forRange 0 (n : Int) ((st.1, st.2.1, false) : MPP) (mpRow w ap aj y active C F)
  pure (r.1, r.2.1, st.2.2.1 + 1, r.2.2)

/-- `while(active_nodes && (max_iters == -1 || num_iters < max_iters))` with fuel -/
def mpWhile (w : WOps ρ) (n : Nat) (ap aj : Array Int) (y : Array ρ) (active C F maxIters : Int) :
    Nat → Ck MP → Option (Ck MP)
  | 0, st => if st.val.2.2.2 = true ∧ (maxIters = -1 ∨ st.val.2.2.1 < maxIters) then none else some st
  | f+1, st =>
    if st.val.2.2.2 = true ∧ (maxIters = -1 ∨ st.val.2.2.1 < maxIters) then
      mpWhile w n ap aj y active C F maxIters f (st >>= mpPass w n ap aj y active C F)
    else some st

/-- `maximal_independent_set_parallel(num_rows, Ap, Aj, active, C, F, x, y, max_iters)`; returns `(x, N)`;
`none` = the `while` loop did not finish within `fuel` passes -/
def misParallel (w : WOps ρ) (n : Nat) (ap aj : Array Int) (active C F : Int) (x : Array Int) (y : Array ρ)
    (maxIters : Int) (fuel : Nat) : Option (Ck (Array Int × Int)) :=
  (mpWhile w n ap aj y active C F maxIters fuel (pure (x, 0, 0, true))).map
    (fun r => r >>= fun st => pure (st.1, st.2.1))

/-! ### `vertex_coloring_first_fit`, `vertex_coloring_jones_plassmann`, `vertex_coloring_LDF` -/

/-- `std::find(mask.begin(), mask.end(), false) - mask.begin()` -/
def findFalse (mask : Array Bool) : Int := ((mask.toList.findIdx (fun b => !b) : Nat) : Int)

/-- `vertex_coloring_first_fit(num_rows, Ap, Aj, x, K)` -/
def firstFit (n : Nat) (ap aj : Array Int) (K : Int) (x : Array Int) : Ck (Array Int) :=
  forRange 0 (n : Int) x (fun i (x : Array Int) => do
    let xi ← rd x i
    if xi ≠ K then pure x
    else do
      -- `std::vector<bool> mask(K,false)`
      let mask : Array Bool := Array.replicate K.toNat false
      let s ← rd ap i
      let e ← rd ap (i+1)
      let mask ← forRange s e mask (fun jj (mask : Array Bool) => do
        let j ← rd aj jj
        if i = j then pure mask
        else do
          let xj ← rd x j
          if xj < 0 then pure mask else wr mask xj true)
      wr x i (findFalse mask))

/-- `for(i..) if(x[i] == -2) x[i] = -1;` -/
def resetF (n : Nat) (x : Array Int) : Ck (Array Int) :=
  forRange 0 (n : Int) x (fun i (x : Array Int) => do
    let xi ← rd x i
    if xi = -2 then wr x i (-1) else pure x)

/-- `*std::max_element(x, x + num_rows)`: the iterator returned for an empty range is `x` itself -/
def maxElem (n : Nat) (x : Array Int) : Ck Int := do
  let m ← rd x 0
  forRange 1 (n : Int) m (fun i (m : Int) => do
    let xi ← rd x i
    pure (if m < xi then xi else m))

/-- the tail shared by the two parallel colourings: one call of the parallel MIS with `max_iters = 1`
(its `while` loop needs one unit of fuel), un-marking, first fit, `K++`; `y` are the weights of the call -/
def parRound (w : WOps ρ) (n : Nat) (ap aj : Array Int) (y : Array ρ) (st : VC) : Ck VC := do
  let r ← orFault (misParallel w n ap aj (-1) st.2.2 (-2) st.1 y 1 1)
  let x ← resetF n r.1
  let x ← firstFit n ap aj st.2.2 x
  pure (x, st.2.1 + r.2, st.2.2 + 1)

/-- `while(N < num_rows)` of `vertex_coloring_jones_plassmann` with fuel -/
def jpWhile (w : WOps ρ) (n : Nat) (ap aj : Array Int) (z : Array ρ) : Nat → Ck VC → Option (Ck VC)
  | 0, st => if st.val.2.1 < (n : Int) then none else some st
  | f+1, st =>
    if st.val.2.1 < (n : Int) then jpWhile w n ap aj z f (st >>= parRound w n ap aj z) else some st

/-- `z[i] += Ap[i+1] - Ap[i]` -/
def jpWeights (w : WOps ρ) (n : Nat) (ap : Array Int) (z : Array ρ) : Ck (Array ρ) :=
  forRange 0 (n : Int) z (fun i (z : Array ρ) => do
    let zi ← rd z i
    let a1 ← rd ap (i+1)
    let a0 ← rd ap i
    wr z i (w.addInt zi (a1 - a0)))

/-- `vertex_coloring_jones_plassmann(num_rows, Ap, Aj, x, z)`; returns `(x, z, max colour)`;
`none` = the outer loop did not finish within `fuel` rounds -/
def vertexColoringJP (w : WOps ρ) (n : Nat) (ap aj x : Array Int) (z : Array ρ) (fuel : Nat) :
    Option (Ck (Array Int × Array ρ × Int)) :=
  let pre : Ck (Array Int × Array ρ) := do
    let x ← fillN n (-1) x
    let z ← jpWeights w n ap z
    pure (x, z)
  (jpWhile w n ap aj pre.val.2 fuel (pre >>= fun p => pure (p.1, 0, 0))).map (fun r => do
    let st ← r
    -- `if(num_rows == 0) return -1;`
    if n = 0 then pure (st.1, pre.val.2, -1)
    else do
      let m ← maxElem n st.1
      pure (st.1, pre.val.2, m))

/-- state of `vertex_coloring_LDF`: `(x, N, K)` and the private vector `weights` -/
abbrev LDF (ρ : Type) := VC × Array ρ

/-- `weights[i] = y[i] + #{uncoloured neighbours j != i}` for the uncoloured nodes -/
def ldfWeights (w : WOps ρ) (n : Nat) (ap aj : Array Int) (y : Array ρ) (x : Array Int) (wt : Array ρ) :
    Ck (Array ρ) :=
  forRange 0 (n : Int) wt (fun i (wt : Array ρ) => do
    let xi ← rd x i
    if xi ≠ -1 then pure wt
    else do
      let s ← rd ap i
      let e ← rd ap (i+1)
      let nn ← forRange s e (0 : Int) (fun jj (nn : Int) => do
        let j ← rd aj jj
        let xj ← rd x j
        if xj = -1 ∧ i ≠ j then pure (nn + 1) else pure nn)
      let yi ← rd y i
      wr wt i (w.addInt yi nn))

/-- one round of `vertex_coloring_LDF` -/
def ldfRound (w : WOps ρ) (n : Nat) (ap aj : Array Int) (y : Array ρ) (st : LDF ρ) : Ck (LDF ρ) := do
  let wt ← ldfWeights w n ap aj y st.1.1 st.2
  let v ← parRound w n ap aj wt st.1
  pure (v, wt)

/-- `while(N < num_rows)` of `vertex_coloring_LDF` with fuel -/
def ldfWhile (w : WOps ρ) (n : Nat) (ap aj : Array Int) (y : Array ρ) : Nat → Ck (LDF ρ) → Option (Ck (LDF ρ))
  | 0, st => if st.val.1.2.1 < (n : Int) then none else some st
  | f+1, st =>
    if st.val.1.2.1 < (n : Int) then ldfWhile w n ap aj y f (st >>= ldfRound w n ap aj y) else some st

/-- `vertex_coloring_LDF(num_rows, Ap, Aj, x, y)`; returns `(x, max colour)`; `std::vector<R> weights(num_rows)`
is value-initialised -/
def vertexColoringLDF (w : WOps ρ) (n : Nat) (ap aj x : Array Int) (y : Array ρ) (fuel : Nat) :
    Option (Ck (Array Int × Int)) :=
  (ldfWhile w n ap aj y fuel (fillN n (-1) x >>= fun x => pure ((x, 0, 0), Array.replicate n (w.ofInt 0)))).map
    (fun r => do
      let st ← r
      -- `if(num_rows == 0) return -1;`
      if n = 0 then pure (st.1.1, -1)
      else do
        let m ← maxElem n st.1.1
        pure (st.1.1, m))

/-! ### `csr_propagate_max`, `maximal_independent_set_k_parallel` -/

/-- `csr_propagate_max(num_rows, Ap, Aj, i_keys, o_keys, i_vals, o_vals)`; returns `(o_keys, o_vals)` -/
def propagateMax (w : WOps ρ) (n : Nat) (ap aj : Array Int) (ik : Array Int) (iv : Array ρ)
    (okv : Array Int × Array ρ) : Ck (Array Int × Array ρ) :=
  forRange 0 (n : Int) okv (fun i (st : Array Int × Array ρ) => do
    let k0 ← rd ik i
    let v0 ← rd iv i
    let s ← rd ap i
    let e ← rd ap (i+1)
    let km ← forRange s e (k0, v0) (fun jj (km : Int × ρ) => do
      let j ← rd aj jj
      let kj ← rd ik j
      let vj ← rd iv j
      if kj = km.1 then pure km
      else if w.gt km.2 vj then pure km
      else if w.gt vj km.2 ∨ kj > km.1 then pure (kj, vj)
      else pure km)
    let ok ← wr st.1 i km.1
    let ov ← wr st.2 i km.2
    pure (ok, ov))

/-- the vectors of the kernel: `i_keys`, `o_keys`, `i_vals`, `o_vals` -/
structure KV (ρ : Type) where
  ik : Array Int
  ok : Array Int
  iv : Array ρ
  ov : Array ρ

/-- `csr_propagate_max(..); std::swap(i_keys, o_keys); std::swap(i_vals, o_vals);` repeated `k` times -/
def propagateK (w : WOps ρ) (n : Nat) (ap aj : Array Int) (k : Int) (kv : KV ρ) : Ck (KV ρ) :=
  forRange 0 k kv (fun _ (kv : KV ρ) => do
    let o ← propagateMax w n ap aj kv.ik kv.iv (kv.ok, kv.ov)
    pure ⟨o.1, kv.ik, o.2, kv.iv⟩)

/-- state of the outer loop: `x`, `active`, the vectors, `work_left` -/
structure MK (ρ : Type) where
  x : Array Int
  act : Array Bool
  kv : KV ρ
  work : Bool

/-- one iteration of `for(I iter = 0; ..; iter++)` -/
def mkIter (w : WOps ρ) (n : Nat) (ap aj : Array Int) (k : Int) (y : Array ρ) (st : MK ρ) : Ck (MK ρ) := do
  let kv ← propagateK w n ap aj k st.kv
  let r ← forRange 0 (n : Int) (st.x, kv) (fun i (s : Array Int × KV ρ) => do
    let ki ← rd s.2.ik i
    let ai ← rd st.act i
    let x ← (if ki = i ∧ ai = true then wr s.1 i 1 else pure s.1)
    let ik ← wr s.2.ik i i
    let xi ← rd x i
    let iv ← wr s.2.iv i (w.ofInt xi)
    pure (x, ⟨ik, s.2.ok, iv, s.2.ov⟩))
  let kv ← propagateK w n ap aj k r.2
  let f ← forRange 0 (n : Int) (st.act, kv, false) (fun i (s : Array Bool × KV ρ × Bool) => do
    let vi ← rd s.2.1.iv i
    if w.eq vi (w.ofInt 1) then do
      let a ← wr s.1 i false
      let iv ← wr s.2.1.iv i (w.ofInt (-1))
      let ik ← wr s.2.1.ik i i
      pure (a, ⟨ik, s.2.1.ok, iv, s.2.1.ov⟩, s.2.2)
    else do
      let yi ← rd y i
      let iv ← wr s.2.1.iv i yi
      let ik ← wr s.2.1.ik i i
      pure (s.1, ⟨ik, s.2.1.ok, iv, s.2.1.ov⟩, true))
  pure ⟨r.1, f.1, f.2.1, f.2.2⟩

/-- `for(I iter = 0; max_iters == -1 || iter < max_iters; iter++){ ..; if(!work_left) return; }` with fuel;
`none` = fuel exhausted -/
def mkLoop (w : WOps ρ) (n : Nat) (ap aj : Array Int) (k : Int) (y : Array ρ) (maxIters : Int) :
    Nat → Int → Ck (MK ρ) → Option (Ck (MK ρ))
  | 0, iter, st => if maxIters = -1 ∨ iter < maxIters then none else some st
  | f+1, iter, st =>
    if maxIters = -1 ∨ iter < maxIters then
      let r := st >>= mkIter w n ap aj k y
      if r.val.work then mkLoop w n ap aj k y maxIters f (iter + 1) r else some r
    else some st

/-- `maximal_independent_set_k_parallel(num_rows, Ap, Aj, k, x, y, max_iters)`; returns `x` -/
def misKParallel (w : WOps ρ) (n : Nat) (ap aj : Array Int) (k : Int) (x : Array Int) (y : Array ρ)
    (maxIters : Int) (fuel : Nat) : Option (Ck (Array Int)) :=
  let z : ρ := w.ofInt 0
  let init : Ck (MK ρ) := do
    let r ← forRange 0 (n : Int) (x, (Array.replicate n (0 : Int)), (Array.replicate n z))
      (fun i (s : Array Int × Array Int × Array ρ) => do
        let ik ← wr s.2.1 i i
        let yi ← rd y i
        let iv ← wr s.2.2 i yi
        let x ← wr s.1 i 0
        pure (x, ik, iv))
    pure ⟨r.1, Array.replicate n true, ⟨r.2.1, Array.replicate n 0, r.2.2, Array.replicate n z⟩, true⟩
  (mkLoop w n ap aj k y maxIters fuel 0 init).map (fun r => r >>= fun st => pure st.x)

end PyamgV.C17R4
