import PyamgV.Model.CRat
/-! PyamgV (C04), executable, core only:

* `levelize` / `effLimits`: what `levelize_strength_or_aggregation` (pyamg/util/utils.py) does to
  `(max_levels, max_coarse)` and to the length of the per-level option list (the `'predefined'`
  forms overwrite the limits), applied by the aggregation-type constructors to `aggregate`,
  then to `strength`, then to `aggregate` again;
* `nodeSize`: the size the loops compare with `max_coarse` (rows for `ruge_stuben_solver` /
  `air_solver`, rows / blocksize for the aggregation-type constructors);
* dense matrices over the Gaussian rationals and the Boolean hierarchy checker `checkHier` that the
  driver applies to the levels a real constructor returned (`Proofs/C04Check.lean` proves it
  equivalent to the specification `HierOK`). -/
namespace PyamgV.C04

/-! ### limits -/

/-- shape of a `strength=` / `aggregate=` argument as far as the limits are concerned -/
inductive OptKind
  | plain                      -- a string, a non-predefined tuple, or `None`
  | predefTuple                -- `('predefined', {...})`
  | listPlain (len : Nat)      -- a list whose last entry is not predefined
  | listPredef (len : Nat)     -- a list whose last entry is `('predefined', {...})`
deriving Repr, DecidableEq

/-- `(max_levels', max_coarse', length of the levelized list)`; utils.py:1831-1858 -/
def levelize : OptKind → Nat → Nat → Nat × Nat × Nat
  | .plain, ml, mc => (ml, mc, ml - 1)
  | .predefTuple, _, _ => (2, 0, 1)
  | .listPredef len, _, _ => (len + 1, 0, len)
  | .listPlain len, ml, mc => (ml, mc, max len (ml - 1))   -- extended when `len < max_levels - 1`

/-- the limits the loop of `smoothed_aggregation_solver` / `rootnode_solver` really uses -/
def effLimits (aggregate strength : OptKind) (ml mc : Nat) : Nat × Nat :=
  let (ml1, mc1, _) := levelize aggregate ml mc
  let (ml2, mc2, _) := levelize strength ml1 mc1
  let (ml3, mc3, _) := levelize aggregate ml2 mc2
  (ml3, mc3)

/-- `int(A.shape[0] / get_blocksize(A))` for the aggregation-type constructors, `A.shape[0]` for
the classical ones (`blockwise = false`) -/
def nodeSize (blockwise : Bool) (rows blocksize : Nat) : Nat :=
  if blockwise then rows / blocksize else rows

/-! ### dense matrices -/

def rabs (q : Rat) : Rat := if q < 0 then -q else q
/-- 1-norm of a Gaussian rational (an upper bound of the modulus, at most `√2` times it) -/
def n1 (z : CRat) : Rat := rabs z.re + rabs z.im

structure Mat where
  rows : Nat
  cols : Nat
  data : Array CRat     -- row-major
deriving Repr

namespace Mat
def wf (M : Mat) : Bool := M.data.size == M.rows * M.cols
def ent (M : Mat) (i j : Nat) : CRat := if j < M.cols then M.data.getD (i * M.cols + j) 0 else 0
end Mat

def sumN (n : Nat) (f : Nat → CRat) : CRat := (List.range n).foldl (fun acc k => acc + f k) 0

namespace Mat
/-- dense product: entry `(i, j)` is `Σ_{k < A.cols} A[i,k] * B[k,j]` (`Proofs/C04Check.ent_mul`) -/
def mul (A B : Mat) : Mat :=
  ⟨A.rows, B.cols, Array.ofFn (n := A.rows * B.cols) fun t =>
    sumN A.cols fun k => A.ent (t.val / B.cols) k * B.ent k (t.val % B.cols)⟩
/-- entrywise 1-norms -/
def absM (A : Mat) : Mat := ⟨A.rows, A.cols, A.data.map fun z => ⟨n1 z, 0⟩⟩
end Mat

/-- which relation between `R` and `P` the constructor promises -/
inductive Sym | herm | symm | none
deriving Repr, DecidableEq

/-- one level as returned by a constructor; `P`, `R` are ignored on the coarsest level -/
structure Lvl where
  A : Mat
  P : Mat
  R : Mat

def allLt (n : Nat) (p : Nat → Bool) : Bool := (List.range n).all p

def chkWf (f : Lvl) (cA : Mat) : Bool := f.A.wf && f.P.wf && f.R.wf && cA.wf
/-- `A` square on both levels, `P : coarse → fine`, `R : fine → coarse` -/
def chkDims (f : Lvl) (cA : Mat) : Bool :=
  decide (f.A.rows = f.A.cols) && decide (cA.rows = cA.cols) &&
  decide (f.P.rows = f.A.rows) && decide (f.P.cols = cA.rows) &&
  decide (f.R.rows = cA.rows) && decide (f.R.cols = f.A.rows)
def chkDecr (f : Lvl) (cA : Mat) : Bool := decide (cA.rows < f.A.rows)
/-- `|A_c - R A P| ≤ tol · |R| |A| |P|` entrywise (moduli replaced by 1-norms) -/
def chkGalerkin (tol : Rat) (f : Lvl) (cA : Mat) : Bool :=
  let G := f.R.mul (f.A.mul f.P)
  let B := f.R.absM.mul (f.A.absM.mul f.P.absM)
  allLt cA.rows fun i => allLt cA.cols fun j =>
    decide (n1 (cA.ent i j - G.ent i j) ≤ tol * (B.ent i j).re)
def chkTranspose (sym : Sym) (f : Lvl) : Bool :=
  match sym with
  | .none => true
  | .symm => allLt f.R.rows fun i => allLt f.R.cols fun j => decide (f.R.ent i j = f.P.ent j i)
  | .herm => allLt f.R.rows fun i => allLt f.R.cols fun j => decide (f.R.ent i j = (f.P.ent j i).conj)

def chkPair (sym : Sym) (tol : Rat) (f : Lvl) (cA : Mat) : Bool :=
  chkWf f cA && chkDims f cA && chkDecr f cA && chkGalerkin tol f cA && chkTranspose sym f

/-- levels finest first -/
def checkHier (sym : Sym) (tol : Rat) : List Lvl → Bool
  | [] => false
  | [l] => l.A.wf && decide (l.A.rows = l.A.cols) && decide (0 < l.A.rows)
  | f :: c :: rest => chkPair sym tol f c.A && checkHier sym tol (c :: rest)

/-- diagnostic only: first failing (level, clause) -/
def whyFail (sym : Sym) (tol : Rat) : Nat → List Lvl → String
  | _, [] => "no-levels"
  | k, [l] => if l.A.wf && decide (l.A.rows = l.A.cols) && decide (0 < l.A.rows) then "ok"
              else s!"fail:{k}:coarsest-empty-or-not-square"
  | k, f :: c :: rest =>
    if !chkWf f c.A then s!"fail:{k}:encoding"
    else if !chkDims f c.A then s!"fail:{k}:dims"
    else if !chkDecr f c.A then s!"fail:{k}:decrease"
    else if !chkGalerkin tol f c.A then s!"fail:{k}:galerkin"
    else if !chkTranspose sym f then s!"fail:{k}:transpose"
    else whyFail sym tol (k + 1) (c :: rest)

end PyamgV.C04
