import PyamgV.Model.C03Cyc
import PyamgV.Model.ExtC09Block
import PyamgV.Model.ExtC09XIndexed
import PyamgV.Model.ExtSmoothers

/-! # C03 extension E55: the extended cycle model over ANY scalar (complex hierarchies) and with the smoothers of BSR levels

`Model/ExtC03XCyc.lean` (E38) runs the cycle of `MultilevelSolver.__solve` with recorded relaxation calls on rational data;
complex levels, the point smoothers of BSR levels and CF / FC block Jacobi were sent to it as probed matrices.  This file is
the same model with the scalar type as a parameter (`Rat` for real hierarchies, the Gaussian rationals `CRat` for complex
ones; the kernel models of Model/KRelax.lean, Model/ExtC09Block.lean, Model/ExtC09XIndexed.lean, Model/ExtSmoothers.lean are
scalar-polymorphic and are the definitions C09 compares bit-exactly with relaxation.h / relaxation.py on real AND complex data)
and with three more recorded calls:

* `bsrgs`  -- `relaxation.gauss_seidel` / `sor` on a BSR level: the `bsr_gauss_seidel` kernel relaxes the rows of a block row
              one after the other in sweep direction, i.e. it is the point kernel on the point rows of the BSR arrays
              (`Bsr.toCsr`: every stored block entry, explicit zeros included, in storage order; C09 part A compares exactly this
              reading with the kernel); `omega ≠ 1` converts to CSR and runs the SOR kernel,
* `bsrjac` -- `relaxation.jacobi` on a BSR level (`bsr_jacobi`), the same reading,
* `cfbjac` -- `relaxation.cf_block_jacobi` / `fc_block_jacobi` on BSR data with the inverse diagonal blocks
              (`ExtC09X.pyCFBlockJacobi`, kernel `block_jacobi_indexed`).

`conj` is the conjugation the `_ne` / `_nr` kernels apply (`id` for real data, `CRat.conj` for complex data).  Vectors stay
zero-padding lists.  Core Lean only. -/
namespace PyamgV.C03Y
open PyamgV.C03 (Cyc iterN)

variable {α : Type} [Add α] [Sub α] [Mul α] [Div α] [OfNat α 0] [OfNat α 1] [DecidableEq α]

abbrev Vec (α : Type) := List α
abbrev Mat (α : Type) := List (List α)

/-! ## zero-padding dense linear algebra (as Model/C03Cyc.lean, any scalar) -/

def vadd : Vec α → Vec α → Vec α
  | [], ys => ys
  | x :: xs, [] => x :: xs
  | x :: xs, y :: ys => (x + y) :: vadd xs ys

def vneg (x : Vec α) : Vec α := x.map (fun a => 0 - a)

def vsub : Vec α → Vec α → Vec α
  | [], ys => vneg ys
  | x :: xs, [] => x :: xs
  | x :: xs, y :: ys => (x - y) :: vsub xs ys

def dot : Vec α → Vec α → α
  | a :: r, x :: xs => a * x + dot r xs
  | _, _ => 0

def matVec (A : Mat α) (x : Vec α) : Vec α := A.map (fun r => dot r x)

def zeros (n : Nat) : Vec α := List.replicate n 0

/-- one stationary smoothing step in linear-iteration form -/
def smooth (A Q : Mat α) (x b : Vec α) : Vec α := vadd x (matVec Q (vsub b (matVec A x)))

/-! ## the generic cycle: smoothers as functions -/

/-- a non-coarsest level whose smoothers are arbitrary maps `(x, b) ↦ x'` -/
structure LvlF (α : Type) where
  A : Mat α
  P : Mat α
  R : Mat α
  pre : Vec α → Vec α → Vec α
  post : Vec α → Vec α → Vec α

/-- `MultilevelSolver.__solve` line by line (the text of `C03.cycM` / `C03X.cycF`), any scalar -/
def cycF (S : Mat α) : Cyc → Nat → List (LvlF α) → Vec α → Vec α → Vec α
  | _, _, [], x, _ => x
  | c, cpl, L :: rest, x, b =>
    let x1 := L.pre x b
    let residual := vsub b (matVec L.A x1)
    let coarse_b := matVec L.R residual
    let coarse_x0 : Vec α := zeros coarse_b.length
    let coarse_x : Vec α := match rest with
      | [] => matVec S coarse_b
      | _ :: _ => match c with
        | .V => cycF S .V 1 rest coarse_x0 coarse_b
        | .W => cycF S .W 1 rest (cycF S .W 1 rest coarse_x0 coarse_b) coarse_b
        | .F => iterN (fun cx => cycF S .V 1 rest cx coarse_b) cpl (cycF S .F cpl rest coarse_x0 coarse_b)
    let x2 := vadd x1 (matVec L.P coarse_x)
    L.post x2 b

/-! ## the point rows of BSR arrays -/

/-- row `p` of the BSR arrays entry by entry: for every stored block of block row `p / bs`, in storage order, the `bs`
entries of its row `p % bs` (explicit zeros included) -/
def bsrRow (A : K.Bsr α) (p : Nat) : List (Nat × α) :=
  (A.jjs (p / A.bs)).flatMap (fun jj => (List.range A.bs).map (fun l =>
    (K.rdN A.bj jj * A.bs + l, K.rd A.bx (jj * (A.bs * A.bs) + (p % A.bs) * A.bs + l))))

/-- the BSR arrays read as point (CSR) arrays: what the point kernels `bsr_gauss_seidel` / `bsr_jacobi` traverse, and what
`A.tocsr()` of SciPy produces (all stored block entries, no elimination of zeros) -/
def bsrToCsr (A : K.Bsr α) : K.Csr α :=
  let n := A.nb * A.bs
  let rows : List (List (Nat × α)) := (List.range n).map (bsrRow A)
  let ap := (List.range (n + 1)).map (fun p => ((rows.take p).map List.length).sum)
  ⟨n, ap.toArray, (rows.flatten.map (·.1)).toArray, (rows.flatten.map (·.2)).toArray⟩

/-! ## recorded smoothers -/

/-- a recorded relaxation call -/
inductive Sm (α : Type)
  | mat (Q : Mat α)
  | poly (A : K.Csr α) (coeffs : List α) (iters : Nat)
  | bjac (ω : α) (A : K.Bsr α) (Dinv : Array α) (iters : Nat)
  | bgs (A : K.Bsr α) (Dinv : Array α) (iters : Nat) (sw : K.Sweep)
  | jacne (ω : α) (A : K.Csr α) (iters : Nat)
  | gsne (ω : α) (A : K.Csr α) (iters : Nat) (sw : K.Sweep)
  | gsnr (ω : α) (Acsc : K.Csr α) (iters : Nat) (sw : K.Sweep)
  | cfjac (cFirst : Bool) (ω : α) (A : K.Csr α) (C F : List Nat) (iters fIt cIt : Nat)
  | schwarz (A : K.Csr α) (Tx : Array α) (Tp Sj Sp : Array Nat) (iters : Nat) (sw : K.Sweep)
  | gs (ω : α) (A : K.Csr α) (iters : Nat) (sw : K.Sweep)
  | jac (ω : α) (A : K.Csr α) (iters : Nat)
  | bsrgs (ω : α) (A : K.Bsr α) (iters : Nat) (sw : K.Sweep)
  | bsrjac (ω : α) (A : K.Bsr α) (iters : Nat)
  | cfbjac (cFirst : Bool) (ω : α) (A : K.Bsr α) (Dinv : Array α) (C F : List Nat) (iters fIt cIt : Nat)

/-- the first `n` entries of a zero-padded list as an array of size `n` -/
def padA (n : Nat) (v : Vec α) : Array α := ((List.range n).map (fun i => v.getD i 0)).toArray

/-- an array kernel for vectors of size `n` acting on a zero-padding list -/
def viaArr (n : Nat) (g : Array α → Array α → Array α) (x b : Vec α) : Vec α :=
  (List.range n).map (fun i => K.rd (g (padA n x) (padA n b)) i) ++ x.drop n

/-- size of the vectors the recorded call works on -/
def Sm.n : Sm α → Nat
  | .mat _ => 0
  | .poly A _ _ => A.n
  | .bjac _ A _ _ => A.nb * A.bs
  | .bgs A _ _ _ => A.nb * A.bs
  | .jacne _ A _ => A.n
  | .gsne _ A _ _ => A.n
  | .gsnr _ A _ _ => A.n
  | .cfjac _ _ A _ _ _ _ _ => A.n
  | .schwarz A _ _ _ _ _ _ => A.n
  | .gs _ A _ _ => A.n
  | .jac _ A _ => A.n
  | .bsrgs _ A _ _ => A.nb * A.bs
  | .bsrjac _ A _ => A.nb * A.bs
  | .cfbjac _ _ A _ _ _ _ _ _ => A.nb * A.bs

/-- the recorded call on arrays, `(x, b) ↦ x'`; a call the relaxation function rejects leaves `x` (excluded by `Sm.OK`) -/
def Sm.arr (conj : α → α) : Sm α → Array α → Array α → Array α
  | .mat _ => fun x _ => x
  | .poly A cs it => fun x b => (ExtSm.polynomial A cs it b x).getD x
  | .bjac ω A Dinv it => fun x b => (K.pyBlockJacobi ω A b Dinv it x).getD x
  | .bgs A Dinv it sw => fun x b => (K.pyBlockGaussSeidel A b Dinv it sw x).getD x
  | .jacne ω A it => fun x b => K.pyJacobiNE conj ω A b it x
  | .gsne ω A it sw => fun x b => K.pyGaussSeidelNE conj ω A b none it sw x
  | .gsnr ω A it sw => fun x b => K.pyGaussSeidelNR conj ω A b none it sw x
  | .cfjac cf ω A C F it fIt cIt => fun x b => K.pyCFJacobi cf ω A b C F it fIt cIt x
  | .schwarz A Tx Tp Sj Sp it sw => fun x b => K.pySchwarz A b Tx Tp Sj Sp it sw x
  | .gs ω A it sw => fun x b => K.pyGaussSeidel ω A b it sw x
  | .jac ω A it => fun x b => K.pyJacobi ω A b it x
  | .bsrgs ω A it sw => fun x b => K.pyGaussSeidel ω (bsrToCsr A) b it sw x
  | .bsrjac ω A it => fun x b => K.pyJacobi ω (bsrToCsr A) b it x
  | .cfbjac cf ω A Dinv C F it fIt cIt => fun x b => (ExtC09X.pyCFBlockJacobi cf ω A b Dinv C F it fIt cIt x).getD x

/-- `smoother(A, x, b)` of a level with matrix `A` -/
def applySm (conj : α → α) (A : Mat α) : Sm α → Vec α → Vec α → Vec α
  | .mat Q => smooth A Q
  | s => viaArr s.n (s.arr conj)

/-- a non-coarsest level with recorded smoothers -/
structure LvlY (α : Type) where
  A : Mat α
  P : Mat α
  R : Mat α
  pre : Sm α
  post : Sm α

def LvlY.toF (conj : α → α) (L : LvlY α) : LvlF α := ⟨L.A, L.P, L.R, applySm conj L.A L.pre, applySm conj L.A L.post⟩

/-- **the extended cycle model over the scalar `α`**: `__solve` with the recorded relaxation calls as smoothers -/
def cycY (conj : α → α) (S : Mat α) (c : Cyc) (cpl : Nat) (Ls : List (LvlY α)) (x b : Vec α) : Vec α :=
  cycF S c cpl (Ls.map (LvlY.toF conj)) x b

/-- one iteration of the loop of `solve` (one-level hierarchies: the coarse solver on `(A, b)`) -/
def stepY (conj : α → α) (S : Mat α) (c : Cyc) (cpl : Nat) (Ls : List (LvlY α)) (b x : Vec α) : Vec α :=
  match Ls with
  | [] => matVec S b
  | _ :: _ => cycY conj S c cpl Ls x b

/-- the loop `while True: step; it += 1; if normr < tol*normb: return; if it == maxiter: return` (`C03.loopM`) -/
def loopY (step : Vec α → Vec α) (stop : Vec α → Bool) : Nat → Vec α → Vec α
  | 0, x => x
  | k + 1, x =>
    let x' := step x
    if stop x' then x' else if k = 0 then x' else loopY step stop k x'

def solveY (conj : α → α) (S : Mat α) (c : Cyc) (cpl : Nat) (Ls : List (LvlY α)) (stop : Vec α → Bool) (maxiter : Nat)
    (b x0 : Vec α) : Vec α :=
  loopY (stepY conj S c cpl Ls b) stop maxiter x0

/-- `aspreconditioner(cycle).matvec` -/
def precY (conj : α → α) (S : Mat α) (c : Cyc) (Ls : List (LvlY α)) (stop : Vec α → Bool) (v : Vec α) : Vec α :=
  solveY conj S c 1 Ls stop 1 v (zeros v.length)

/-! ## the recorded data are data of the level matrix (decidable, checked by the driver before a run) -/

/-- dense `n × n` form of CSR arrays (stored duplicates add up) -/
def csrDense (A : K.Csr α) : Mat α :=
  (List.range A.n).map (fun i => (List.range A.n).map (fun q =>
    (A.jjs i).foldl (fun s jj => if K.rdN A.aj jj = q then s + K.rd A.ax jj else s) 0))

/-- dense form of CSC arrays (`A.jjs j` = stored entries of column `j`) -/
def cscDense (A : K.Csr α) : Mat α :=
  (List.range A.n).map (fun i => (List.range A.n).map (fun j =>
    (A.jjs j).foldl (fun s ii => if K.rdN A.aj ii = i then s + K.rd A.ax ii else s) 0))

/-- dense form of square-block BSR arrays -/
def bsrDense (A : K.Bsr α) : Mat α :=
  (List.range (A.nb * A.bs)).map (fun p => (List.range (A.nb * A.bs)).map (fun q =>
    (A.jjs (p / A.bs)).foldl (fun s jj =>
      if K.rdN A.bj jj = q / A.bs then s + K.rd A.bx (jj * (A.bs * A.bs) + (p % A.bs) * A.bs + q % A.bs) else s) 0))

/-- every stored column (row, for CSC) index is inside the matrix -/
def ColsOK (A : K.Csr α) : Prop := ∀ i < A.n, ∀ jj ∈ A.jjs i, K.rdN A.aj jj < A.n
instance (A : K.Csr α) : Decidable (ColsOK A) := by unfold ColsOK; infer_instance

def BColsOK (A : K.Bsr α) : Prop := ∀ i < A.nb, ∀ jj ∈ A.jjs i, K.rdN A.bj jj < A.nb
instance (A : K.Bsr α) : Decidable (BColsOK A) := by unfold BColsOK; infer_instance

/-- exactly one stored diagonal entry in every row, and it is not zero (`jacobi`, `gauss_seidel` divide by it) -/
def DiagOK (A : K.Csr α) : Prop :=
  ∀ i < A.n, ((A.jjs i).filter (fun jj => K.rdN A.aj jj = i)).length = 1 ∧
    ∀ jj ∈ A.jjs i, K.rdN A.aj jj = i → K.rd A.ax jj ≠ 0
instance (A : K.Csr α) : Decidable (DiagOK A) := by unfold DiagOK; infer_instance

/-- entry `(k, l)` of the sum of the stored diagonal blocks of block row `i` -/
def diagBlkL (A : K.Bsr α) (i k l : Nat) : α :=
  (A.jjs i).foldl (fun s jj => if K.rdN A.bj jj = i then s + K.rd A.bx (jj * (A.bs * A.bs) + k * A.bs + l) else s) 0

/-- `Dinv_i D_i = I` for every block row -/
def LeftInvOK (A : K.Bsr α) (Dinv : Array α) : Prop :=
  ∀ i < A.nb, ∀ k < A.bs, ∀ m < A.bs,
    (List.range A.bs).foldl (fun s l => s + K.rd Dinv (i * (A.bs * A.bs) + k * A.bs + l) * diagBlkL A i l m) 0 =
      if k = m then 1 else 0
instance (A : K.Bsr α) (Dinv : Array α) : Decidable (LeftInvOK A Dinv) := by unfold LeftInvOK; infer_instance

/-- the subdomain rows are rows of the matrix -/
def SubOK (A : K.Csr α) (Sj Sp : Array Nat) : Prop :=
  ∀ d < Sp.size - 1, ∀ c < K.rdN Sp (d + 1) - K.rdN Sp d, K.rdN Sj (K.rdN Sp d + c) < A.n
instance (A : K.Csr α) (Sj Sp : Array Nat) : Decidable (SubOK A Sj Sp) := by unfold SubOK; infer_instance

/-- **the recorded call is a call for the level matrix `A`**: the matrix copy it holds is `A` entry by entry, indices are in
range (for the point smoothers of a BSR level: in the point rows the kernel traverses, each of which stores one non-zero
diagonal entry), the options are ones the relaxation function accepts, inverse blocks are inverses, the listed C / F block
rows exist -/
def Sm.OK (A : Mat α) : Sm α → Prop
  | .mat _ => True
  | .poly M cs it => A = csrDense M ∧ ColsOK M ∧ (cs ≠ [] ∨ it = 0)
  | .bjac _ M Dinv _ => A = bsrDense M ∧ BColsOK M ∧ 0 < M.bs ∧ Dinv.size = M.nb * (M.bs * M.bs) ∧ LeftInvOK M Dinv
  | .bgs M Dinv _ _ => A = bsrDense M ∧ BColsOK M ∧ 0 < M.bs ∧ Dinv.size = M.nb * (M.bs * M.bs) ∧ LeftInvOK M Dinv
  | .jacne _ M _ => A = csrDense M ∧ ColsOK M
  | .gsne _ M _ _ => A = csrDense M ∧ ColsOK M
  | .gsnr _ M _ _ => A = cscDense M ∧ ColsOK M
  | .cfjac _ _ M C F _ _ _ => A = csrDense M ∧ ColsOK M ∧ DiagOK M ∧ (∀ i ∈ C, i < M.n) ∧ (∀ i ∈ F, i < M.n)
  | .schwarz M _ _ Sj Sp _ _ => A = csrDense M ∧ ColsOK M ∧ SubOK M Sj Sp
  | .gs _ M _ _ => A = csrDense M ∧ ColsOK M ∧ DiagOK M
  | .jac _ M _ => A = csrDense M ∧ ColsOK M ∧ DiagOK M
  | .bsrgs _ M _ _ => A = bsrDense M ∧ 0 < M.bs ∧ ColsOK (bsrToCsr M) ∧ DiagOK (bsrToCsr M)
  | .bsrjac _ M _ => A = bsrDense M ∧ 0 < M.bs ∧ ColsOK (bsrToCsr M) ∧ DiagOK (bsrToCsr M)
  | .cfbjac _ _ M Dinv C F _ _ _ => A = bsrDense M ∧ BColsOK M ∧ 0 < M.bs ∧ Dinv.size = M.nb * (M.bs * M.bs) ∧
      LeftInvOK M Dinv ∧ (∀ i ∈ C, i < M.nb) ∧ (∀ i ∈ F, i < M.nb)

instance (A : Mat α) (s : Sm α) : Decidable (s.OK A) := by
  cases s <;> unfold Sm.OK <;> infer_instance

def LvlY.OK (L : LvlY α) : Prop := L.pre.OK L.A ∧ L.post.OK L.A
instance (L : LvlY α) : Decidable L.OK := by unfold LvlY.OK; infer_instance

def AllOK (Ls : List (LvlY α)) : Prop := ∀ L ∈ Ls, L.OK
instance (Ls : List (LvlY α)) : Decidable (AllOK Ls) := by unfold AllOK; infer_instance

end PyamgV.C03Y
