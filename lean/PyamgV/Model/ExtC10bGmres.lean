import PyamgV.Model.C10
/-! PyamgV (extension E24, property C10): executable model of `smooth.gmres_prolongation_smoothing`
(energy minimisation with GMRES: Arnoldi with modified Gram-Schmidt on matrices with the Frobenius inner
product on the allowed pattern, Givens rotations on the Hessenberg columns, one least-squares solve at
the end).  Core Lean only.

`gmresCore` is generic in the type `M` of the "matrices" (operations `MOps`) and in the scalars (`SOps`:
square root, modulus, conjugate, order): the driver runs it on `Mat Rat` (`energyGmres`, op
`ext_c10b_gmres`; square roots by `sqrtQ`, 64 significant bits, everything else exact), the theorems of
`Proofs/ExtC10bGmres.lean` are about the same function (any `M`, any scalar functions). -/
namespace PyamgV.C10bM
open PyamgV.C10M

/-- operations on the matrices of the Krylov space -/
structure MOps (α M : Type) where
  add : M → M → M
  sub : M → M → M
  smul : α → M → M
  /-- Frobenius product `sum(conj(X) .* Y)` -/
  frob : M → M → α

/-- scalar functions: `np.sqrt`, `np.abs`, `np.conjugate`, `<` on real values -/
structure SOps (α : Type) where
  sqrt : α → α
  abs : α → α
  conj : α → α
  lt : α → α → Bool

section core
variable {α M : Type} [Add α] [Sub α] [Mul α] [Div α] [OfNat α 0] [OfNat α 1] [DecidableEq α]

/-- modified Gram-Schmidt of the new direction against `V[0..i]`:
`H[j, i] = <V[j], V[i+1]>`, `V[i+1] -= H[j, i] V[j]`; returns the remainder and `H[0..i, i]` -/
def mgsStep (o : MOps α M) (V : Array M) (i : Nat) (AV : M) : M × Array α :=
  (List.range (i + 1)).foldl (fun (acc : M × Array α) j =>
    match V[j]? with
    | none => acc
    | some Vj =>
      let h := o.frob Vj acc.1
      (o.sub acc.1 (o.smul h Vj), acc.2.push h)) (AV, #[])

/-- `H[i+1, i] = sqrt(<W, W>)`; `W /= H[i+1, i]` unless it is zero -/
def normalize (o : MOps α M) (sc : SOps α) (W : M) : M × α :=
  let hn := sc.sqrt (o.frob W W)
  (if hn = 0 then W else o.smul (1 / hn) W, hn)

/-- the scalar part of the state: columns of `H` (column `i` holds `H[0..i+1, i]` after the rotations),
right-hand side `g`, rotations `Q[j] = [[c, conj s], [-s, c]]` stored as `(c, s)`, residual norm -/
structure GScal (α : Type) where
  H : Array (Array α)
  g : Array α
  Q : Array (α × α)
  normr : α
  /-- the values of `normr` compared with `tol`, most recent first -/
  normrs : List α
  /-- the values `H[i+1, i]` before the rotation, most recent first -/
  hns : List α
  /-- a division by zero happened (`mu = 0`, `denom = 0`, a rotation the code would not find) -/
  breakdown : Bool
  /-- `H[i+1, i] = 0` at some step -/
  lucky : Bool

/-- everything the loop body does to the scalars once the new column `H[0..i, i]` (`col`) and
`H[i+1, i]` (`hn`) are known: previous rotations, new rotation, `g`, `normr` -/
def scalarStep (sc : SOps α) (i : Nat) (col : Array α) (hn : α) (S : GScal α) : GScal α :=
  let col0 := col.push hn
  -- apply_givens(Q, H[:, i], i)
  let (col1, bad1) := (List.range i).foldl (fun (acc : Array α × Bool) j =>
    match S.Q[j]? with
    | none => (acc.1, true)
    | some (c, s) =>
      let x := acc.1.getD j 0
      let y := acc.1.getD (j + 1) 0
      ((acc.1.setIfInBounds j (c * x + sc.conj s * y)).setIfInBounds (j + 1) ((0 - s) * x + c * y), acc.2)) (col0, false)
  if hn = 0 then
    { S with H := S.H.push col1, normr := sc.abs (S.g.getD (i + 1) 0),
             normrs := sc.abs (S.g.getD (i + 1) 0) :: S.normrs, hns := hn :: S.hns,
             breakdown := S.breakdown || bad1, lucky := true }
  else
    let h1 := col1.getD i 0
    let h2 := col1.getD (i + 1) 0
    let h1m := sc.abs h1
    let h2m := sc.abs h2
    let (tau, bad2) :=
      if sc.lt h1m h2m then
        let mu := h1 / h2
        (sc.conj mu / sc.abs mu, decide (sc.abs mu = 0))
      else
        let mu := h2 / h1
        (mu / sc.abs mu, decide (sc.abs mu = 0))
    let denom := sc.sqrt (h1m * h1m + h2m * h2m)
    let c := h1m / denom
    let s := h2m * tau / denom
    let g0 := S.g.getD i 0
    let g1 := S.g.getD (i + 1) 0
    let g := (S.g.setIfInBounds i (c * g0 + sc.conj s * g1)).setIfInBounds (i + 1) ((0 - s) * g0 + c * g1)
    let col2 := (col1.setIfInBounds i (c * h1 + sc.conj s * h2)).setIfInBounds (i + 1) 0
    let nr := sc.abs (g.getD (i + 1) 0)
    { H := S.H.push col2, g := g, Q := S.Q.push (c, s), normr := nr, normrs := nr :: S.normrs, hns := hn :: S.hns,
      breakdown := S.breakdown || bad1 || bad2 || decide (denom = 0), lucky := S.lucky }

/-- state of the `while` loop: Krylov vectors, the projected matrices computed so far (most recent
first), scalars, `ok = false` when a projection failed (singular local Gram matrix) -/
structure GState (α M : Type) where
  V : Array M
  projs : List M
  S : GScal α
  ok : Bool
  /-- number of passes made (`i + 1` of the source) -/
  iters : Nat

/-- `while i < maxiter-1 and normr > tol`, on fuel `maxiter` -/
def gmresLoop (o : MOps α M) (sc : SOps α) (opA : M → Option M) (tol : α) : Nat → GState α M → GState α M
  | 0, st => st
  | fuel + 1, st =>
    if !(sc.lt tol st.S.normr) then st else
    match st.V[st.iters]? with
    | none => { st with S := { st.S with breakdown := true } }     -- `V[i]` does not exist (normr = 0 > tol)
    | some Vi =>
      match opA Vi with
      | none => { st with ok := false }
      | some AV =>
        let r := mgsStep o st.V st.iters AV
        let w := normalize o sc r.1
        gmresLoop o sc opA tol fuel
          { V := st.V.push w.1, projs := AV :: st.projs, S := scalarStep sc st.iters r.2 w.2 st.S, ok := st.ok,
            iters := st.iters + 1 }

/-- `y = solve(H[0:k, 0:k], g[0:k])` for the upper triangular `H` the rotations leave: back substitution;
the flag is set when a diagonal entry is zero -/
def backSolve (H : Array (Array α)) (g : Array α) (k : Nat) : Array α × Bool :=
  (List.range k).foldl (fun (acc : Array α × Bool) t =>
    let r := k - 1 - t
    let d := (H.getD r #[]).getD r 0
    let s := (List.range' (r + 1) (k - (r + 1))).foldl (fun (s : α) c => s - (H.getD c #[]).getD r 0 * acc.1.getD c 0) (g.getD r 0)
    (acc.1.setIfInBounds r (s / d), acc.2 || decide (d = 0))) (Array.replicate k 0, false)

structure GmresOut (α M : Type) where
  /-- `T + sum_j y[j] V[j]` (before the root-node reset) -/
  T : M
  /-- the updates `(y[j], V[j])` in the order they were applied -/
  ups : List (α × M)
  /-- the projected matrices computed during the run (initial residual last) -/
  projs : List M
  /-- the values of `normr` compared with `tol` (initial value first) -/
  normrs : List α
  /-- the values `H[i+1, i]` before the rotations, and the diagonal of the triangular matrix solved -/
  hns : List α
  diag : List α
  ok : Bool
  breakdown : Bool
  lucky : Bool

/-- the state before the loop: `normr = ||R||_F`, `g[0] = normr`, `V[0] = R / normr` if `normr > 0` -/
def gmresInit (o : MOps α M) (sc : SOps α) (R : M) (maxiter : Nat) : GState α M :=
  let normr := sc.sqrt (o.frob R R)
  { V := if sc.lt 0 normr then #[o.smul (1 / normr) R] else #[],
    projs := [R],
    S := { H := #[], g := (Array.replicate (maxiter + 1) 0).setIfInBounds 0 normr, Q := #[],
           normr := normr, normrs := [normr], hns := [], breakdown := false, lucky := false },
    ok := true, iters := 0 }

/-- `gmres_prolongation_smoothing` after the set-up: `R` is the projected, preconditioned initial
residual, `opA V` the projected, preconditioned pattern-restricted product `A V` -/
def gmresCore (o : MOps α M) (sc : SOps α) (opA : M → Option M) (R T : M) (maxiter : Nat) (tol : α) :
    GmresOut α M :=
  let st := gmresLoop o sc opA tol maxiter (gmresInit o sc R maxiter)
  let yb := backSolve st.S.H st.S.g st.iters
  let ups := (List.range st.iters).filterMap (fun j => (st.V[j]?).map (fun Vj => (yb.1.getD j 0, Vj)))
  { T := ups.foldl (fun T u => o.add T (o.smul u.1 u.2)) T, ups := ups, projs := st.projs,
    normrs := st.S.normrs.reverse, hns := st.S.hns.reverse,
    diag := (List.range st.iters).map (fun r => (st.S.H.getD r #[]).getD r 0), ok := st.ok, breakdown := st.S.breakdown || yb.2, lucky := st.S.lucky }

end core

/-! ### the instance on dense arrays -/

section inst
variable {α : Type} [Add α] [Sub α] [Mul α] [Div α] [OfNat α 0] [OfNat α 1] [DecidableEq α]

def matOps (conj : α → α) : MOps α (Mat α) where
  add := Mat.add
  sub := Mat.sub
  smul := Mat.smul
  frob := Mat.frob conj

/-- `AV = A V` on the pattern, preconditioner, constraint projection -/
def gmresOp (conj : α → α) (rpb cpb nd : Nat) (pat : Pat) (A : Mat α) (pre : Precond α) (B : Mat α) (X : Mat α) :
    Option (Mat α) :=
  satisfyDense conj rpb cpb nd pat (pre.apply (maskDense rpb cpb pat (Mat.mul A X))) B

structure EnergyGmresOut (α : Type) where
  /-- the returned prolongator (after the root-node reset) -/
  T : Mat α
  core : GmresOut α (Mat α)

/-- `gmres_prolongation_smoothing(A, T, B, BtBinv, pattern, maxiter, tol, weighting, Cpt_params)`;
`none`: the pattern is empty (the source returns `T`) or the first projection failed -/
def energyGmres (sc : SOps α) (rpb cpb nd : Nat) (pat : Pat) (A : Mat α) (pre : Precond α) (T B : Mat α)
    (maxiter : Nat) (tol : α) (cpts : Array Nat) : Option (EnergyGmresOut α) :=
  let nnz := (pat.foldl (fun acc J => acc + J.size) 0) * rpb * cpb
  if nnz = 0 then none else
  -- R = -(A T) on the pattern, preconditioner, projection
  match satisfyDense sc.conj rpb cpb nd pat (pre.apply (Mat.neg (maskDense rpb cpb pat (Mat.mul A T)))) B with
  | none => none
  | some R =>
    let out := gmresCore (matOps sc.conj) sc (gmresOp sc.conj rpb cpb nd pat A pre B) R T maxiter tol
    some { T := resetRoots cpts out.T, core := out }

end inst

/-! ### scalars of the driver run: `Rat` with a 64-bit square root -/

/-- square root of a rational to 64 significant bits (rounded down), exact zero only at zero; every
other operation of the model is exact, so the run differs from exact real arithmetic by relative
perturbations of `2^-63` in the norms -/
def sqrtQ (q : Rat) : Rat :=
  if q.num ≤ 0 then 0 else
    let n := q.num.toNat
    let t : Int := (n.log2 : Int) - (q.den.log2 : Int)
    let s : Int := 64 - t / 2
    if s ≥ 0 then
      let r := natSqrt (n * 4 ^ s.toNat / q.den)
      (r : Rat) / ((2 ^ s.toNat : Nat) : Rat)
    else
      let r := natSqrt (n / (q.den * 4 ^ (-s).toNat))
      (r : Rat) * ((2 ^ (-s).toNat : Nat) : Rat)

def ratScal : SOps Rat where
  sqrt := sqrtQ
  abs := fun x => if x < 0 then -x else x
  conj := id
  lt := fun a b => decide (a < b)

end PyamgV.C10bM
