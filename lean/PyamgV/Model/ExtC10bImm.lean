import PyamgV.Model.C10
/-! PyamgV (extension E24, property C10): executable model of `incomplete_mat_mult_csr` and its helper
`my_inner` (`evolution_strength.h`): `S(i,j) = <A_{i,:}, B_{:,j}>` on the stored entries of `S`, `A` in
CSR, `B` in CSC, by a two-pointer merge of the sorted index lists.  Core Lean only (imports `Model/C10.lean` for `rdN`).
Loops and branches mirror the source one by one. -/
namespace PyamgV.C10bM
open PyamgV.C10M (rdN)

section ring
variable {α : Type} [Add α] [Mul α] [OfNat α 0]

/-- `while(A_pos < A_end && B_pos < B_end)` of `my_inner`, on fuel.  Every pass advances at least one
of the two positions, so `fuel = (A_end - A_pos) + (B_end - B_pos)` passes always reach the exit test
(`innerLoop_exit` in `Proofs/ExtC10bImmCsr.lean`); the value returned when the fuel is used up is the
value at the exit test. -/
def innerLoop (aj : Array Nat) (ax : Array α) (bj : Array Nat) (bx : Array α) (aEnd bEnd : Nat) :
    Nat → Nat → Nat → α → α
  | 0, _, _, sum => sum
  | fuel + 1, aPos, bPos, sum =>
    if aPos < aEnd ∧ bPos < bEnd then
      let a := rdN aj aPos
      let b := rdN bj bPos
      if a = b then
        innerLoop aj ax bj bx aEnd bEnd fuel (aPos + 1) (bPos + 1) (sum + ax.getD aPos 0 * bx.getD bPos 0)
      else if a < b then innerLoop aj ax bj bx aEnd bEnd fuel (aPos + 1) bPos sum
      else innerLoop aj ax bj bx aEnd bEnd fuel aPos (bPos + 1) sum
    else sum

/-- `my_inner(Ap, Aj, Ax, Bp, Bj, Bx, row, col)` -/
def myInner (ap aj : Array Nat) (ax : Array α) (bp bj : Array Nat) (bx : Array α) (row col : Nat) : α :=
  let aPos := rdN ap row
  let aEnd := rdN ap (row + 1)
  let bPos := rdN bp col
  let bEnd := rdN bp (col + 1)
  innerLoop aj ax bj bx aEnd bEnd ((aEnd - aPos) + (bEnd - bPos)) aPos bPos 0

/-- `incomplete_mat_mult_csr(Ap, Aj, Ax, Bp, Bj, Bx, Sp, Sj, Sx, num_rows)`; returns `Sx` -/
def incompleteMatMultCsr (ap aj : Array Nat) (ax : Array α) (bp bj : Array Nat) (bx : Array α)
    (sp sj : Array Nat) (sx : Array α) (numRows : Nat) : Array α :=
  (List.range numRows).foldl (fun (sx : Array α) row =>
    (List.range' (rdN sp row) (rdN sp (row + 1) - rdN sp row)).foldl (fun (sx : Array α) ptr =>
      sx.setIfInBounds ptr (myInner ap aj ax bp bj bx row (rdN sj ptr))) sx) sx

end ring
end PyamgV.C10bM
