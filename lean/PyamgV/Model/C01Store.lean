/-! PyamgV: which buffers `MultilevelSolver.solve` (no `accel`) reads, creates and writes — the store
model behind "the caller's right-hand side, initial guess and matrix are left unchanged".  Core only.

ndarray objects are views of buffers; only the buffer an object lives in is tracked.  The NumPy
facts used (stated, and checked per instance by the harness through the level-0 smoother hook):
`np.zeros_like` / `np.array(x0)` / `astype` / a copying `ravel` / the coarse solver return *new*
buffers; `to_type` calls `astype` exactly when the dtype differs; `ravel` of a contiguous array is a
view; a multilevel cycle (`__solve(0, x, b, ...)`) writes the buffer of `x` in place and nothing else
that existed before it started. -/
namespace PyamgV.C01.Store

abbrev Heap (V : Type) := Array (List V)

structure Flags where
  /-- `x0` passed (`np.array(x0)`) or omitted (`np.zeros_like(b)`) -/
  x0given : Bool
  /-- one-level hierarchy: `x = coarse_solver(A, b)` rebinds `x` to a new array in every iteration -/
  oneLevel : Bool
  /-- `b.dtype` differs from the unified type: `to_type` replaces `b` by `b.astype(tp)` -/
  bConv : Bool
  /-- same for `x` -/
  xConv : Bool
  /-- `np.ravel(b)` has to copy (b not contiguous) -/
  bRavelCopy : Bool
  /-- same for `x` (never the case for the fresh `x`, kept for symmetry) -/
  xRavelCopy : Bool
deriving Repr

/-- what the call leaves behind, buffer-wise -/
structure Trace (V : Type) where
  heap : Heap V
  /-- buffer of the array bound to `b` when the cycles run -/
  bUsed : Nat
  /-- buffer of the returned array -/
  ret : Nat
  /-- buffers of the callback arguments, in order -/
  cb : List Nat
  /-- buffers written in place after their creation -/
  writes : List Nat
deriving Repr

variable {V : Type}

def rd (h : Heap V) (i : Nat) : List V := h.getD i []

/-- a new buffer holding `c`; returns the heap and the new buffer's id -/
def alloc (h : Heap V) (c : List V) : Heap V × Nat := (h.push c, h.size)

/-- `if copy then new buffer with f(content) else the same buffer` -/
def maybeCopy (copy : Bool) (f : List V → List V) (h : Heap V) (i : Nat) : Heap V × Nat :=
  if copy then alloc h (f (rd h i)) else (h, i)

/-- `k` iterations of the `while` body: one-level -> `x` rebound to a new buffer; otherwise the
cycle overwrites the buffer of `x`. -/
def cycles (cycle : List V → List V → List V) (coarse : List V → List V) (oneLevel : Bool) (bB : Nat) :
    Nat → Heap V → Nat → List Nat → List Nat → Heap V × Nat × List Nat × List Nat
  | 0, h, xB, cb, wr => (h, xB, cb, wr)
  | k+1, h, xB, cb, wr =>
    if oneLevel then
      let (h', xB') := alloc h (coarse (rd h bB))
      cycles cycle coarse oneLevel bB k h' xB' (cb ++ [xB']) wr
    else
      let h' := h.setIfInBounds xB (cycle (rd h xB) (rd h bB))
      cycles cycle coarse oneLevel bB k h' xB (cb ++ [xB]) (wr ++ [xB])

/-- everything before the loop: returns the heap, the buffer of `b` as the cycles will see it, the
buffer of `x` -/
def prologue (zerosLike conv : List V → List V) (f : Flags) (h0 : Heap V) (bB x0B : Nat) :
    Heap V × Nat × Nat :=
  -- x = np.zeros_like(b) | np.array(x0)
  let a := alloc h0 (if f.x0given then rd h0 x0B else zerosLike (rd h0 bB))
  -- [b, x] = to_type(tp, [b, x])
  let b2 := maybeCopy f.bConv conv a.1 bB
  let x2 := maybeCopy f.xConv conv b2.1 a.2
  -- b = np.ravel(b); x = np.ravel(x)
  let b3 := maybeCopy f.bRavelCopy id x2.1 b2.2
  let x3 := maybeCopy f.xRavelCopy id b3.1 x2.2
  (x3.1, b3.2, x3.2)

/-- the whole call performing `k` cycles on a heap where the caller's `b` and `x0` live in buffers
`bB`, `x0B` (the matrix lives in some other buffers of `h0`; nothing ever refers to them for writing) -/
def solveStore (cycle : List V → List V → List V) (coarse zerosLike conv : List V → List V)
    (f : Flags) (k : Nat) (h0 : Heap V) (bB x0B : Nat) : Trace V :=
  let p := prologue zerosLike conv f h0 bB x0B
  let c := cycles cycle coarse f.oneLevel p.2.1 k p.1 p.2.2 [] []
  ⟨c.1, p.2.1, c.2.1, c.2.2.1, c.2.2.2⟩

end PyamgV.C01.Store
