import PyamgV.Model.ExtC09Block
/-! PyamgV (extension E33, property C09): executable models of the `block_jacobi_indexed` kernel
(relaxation.h), of the Python drivers `cf_block_jacobi` / `fc_block_jacobi` (relaxation.py) and of the
PUBLIC block routines on CSR input (`A.tobsr(blocksize)` / `A.tocsc()` followed by the driver of
Model/ExtC09Block.lean).  Core Lean only, any scalar (run on `Rat` and on Gaussian rationals).
Inverse blocks are exact inputs, as in Model/ExtC09Block.lean. -/
namespace PyamgV.ExtC09X
open PyamgV.K

variable {α : Type} [Add α] [Sub α] [Mul α] [Div α] [OfNat α 0] [OfNat α 1] [DecidableEq α]

/-- `block_jacobi_indexed` kernel: `temp` is a copy of the WHOLE vector `x`; then for `row = indices[0], indices[1], …`:
`rsum = Σ_{jj : Aj[jj] ≠ row} A_jj temp_{Aj[jj]}` (`gemm` per stored block), `rsum = b_row − rsum`,
`v = Dinv_row rsum` (`gemm`), `x_row = (1 − ω) temp_row + ω v` -/
def blockJacobiIndexed (ω : α) (A : Bsr α) (b Dinv : Array α) (indices : List Nat) (x : Array α) : Array α :=
  let temp := x
  indices.foldl (fun x row =>
    let rsum := blockOffSum A row temp
    let v := blockSolve A b Dinv row rsum
    writeBlock A.bs x row (fun k => (1 - ω) * rd temp (row * A.bs + k) + ω * lrd v k)) x

/-- `relaxation.cf_block_jacobi` (`cFirst = true`) / `relaxation.fc_block_jacobi` (`cFirst = false`) after
`A.tobsr`: per iteration `c_iterations` kernel calls on `Cpts` and `f_iterations` kernel calls on `Fpts`, in the
stated order, all with the caller's `omega` and `Dinv`.  `none` = the driver raises (shape checks of `make_system`
and of `Dinv`) or a block index is outside the matrix (the kernel would read outside its arrays: nothing to model) -/
def pyCFBlockJacobi (cFirst : Bool) (ω : α) (A : Bsr α) (b Dinv : Array α) (C F : List Nat)
    (iters fIt cIt : Nat) (x : Array α) : Option (Array α) :=
  if x.size ≠ A.nb * A.bs ∨ b.size ≠ A.nb * A.bs ∨ Dinv.size ≠ A.nb * (A.bs * A.bs) then none
  else if (C ++ F).all (fun i => decide (i < A.nb)) = false then none
  else
    let cs := iter (blockJacobiIndexed ω A b Dinv C) cIt
    let fs := iter (blockJacobiIndexed ω A b Dinv F) fIt
    some (iter (fun x => if cFirst then fs (cs x) else cs (fs x)) iters x)

/-! ### the public routines on CSR input: storage conversion, then the driver -/

/-- `relaxation.block_jacobi(A, x, b, Dinv, blocksize, iterations, omega)` for CSR `A` -/
def pubBlockJacobi (ω : α) (A : Csr α) (bs : Nat) (b Dinv : Array α) (iters : Nat) (x : Array α) : Option (Array α) :=
  (A.toBsr bs).bind fun B => pyBlockJacobi ω B b Dinv iters x

/-- `relaxation.block_gauss_seidel(A, x, b, iterations, sweep, blocksize, Dinv)` for CSR `A` -/
def pubBlockGaussSeidel (A : Csr α) (bs : Nat) (b Dinv : Array α) (iters : Nat) (sw : Sweep) (x : Array α) :
    Option (Array α) :=
  (A.toBsr bs).bind fun B => pyBlockGaussSeidel B b Dinv iters sw x

/-- `relaxation.cf_block_jacobi` / `fc_block_jacobi` for CSR `A` -/
def pubCFBlockJacobi (cFirst : Bool) (ω : α) (A : Csr α) (bs : Nat) (b Dinv : Array α) (C F : List Nat)
    (iters fIt cIt : Nat) (x : Array α) : Option (Array α) :=
  (A.toBsr bs).bind fun B => pyCFBlockJacobi cFirst ω B b Dinv C F iters fIt cIt x

/-- `relaxation.gauss_seidel_nr(A, x, b, iterations, sweep, omega, Dinv)` for CSR `A` (`A.tocsc()` first) -/
def pubGaussSeidelNR (conj : α → α) (ω : α) (A : Csr α) (b : Array α) (Dinv? : Option (Array α))
    (iters : Nat) (sw : Sweep) (x : Array α) : Array α :=
  pyGaussSeidelNR conj ω A.toCsc b Dinv? iters sw x

end PyamgV.ExtC09X
