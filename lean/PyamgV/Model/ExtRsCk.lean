import PyamgV.Model.RsModel
import PyamgV.Proofs.Ck

/-! PyamgV (C17/C13, extension E25): the WHOLE of `rs_cf_splitting` (ruge_stuben.h:284-470) in the
checked-execution monad `Ck` -- the five initialisation loops (lambda, histogram, prefix sums with the
in-place zeroing of `interval_count`, placement, `std::fill` + isolated nodes), the main loop over
`top_index` with its `break`, the three inner loops with the two bucket moves, and the final
`U -> F` clean-up loop -- and of `rs_cf_splitting_pass2`.

Conventions.  The state is the state `RS.St` of the executable model `RS.run` (`Model/RsModel.lean`,
natural-number arrays), every array access goes through `rdc`/`wrc`/`rdcI`/`wrcI`, which return the
value of the *unchecked* model operation (`rdN`, `wrN`, ...) and clear the flag when the index is
outside the array.  The C++ works with signed integers where the model has naturals; every
subtraction whose C++ result could be negative goes through `subc`, which clears the flag when it
would be (so a run with `ok = true` never produced a negative count, position or lambda, and the
natural-number arithmetic IS the signed arithmetic).  The main loop runs on fuel `n`; running out
of fuel clears the flag, so `ok = true` also says that the loop ended (by `break` or at
`top_index = 0`) within `n` iterations.  `influence` is the zero vector (what `RS()` passes unless
the caller supplies one).  Integer overflow is outside the model.  Core Lean only. -/
namespace PyamgV.RS
open PyamgV.Ck

/-- checked read: value of the model's `rdN`, flag = index in range -/
def rdc (a : Array Nat) (i : Nat) : Ck Nat := ⟨rdN a i, decide (i < a.size)⟩
/-- checked write -/
def wrc (a : Array Nat) (i v : Nat) : Ck (Array Nat) := ⟨wrN a i v, decide (i < a.size)⟩
def rdcI (a : Array Int) (i : Nat) : Ck Int := ⟨rdI a i, decide (i < a.size)⟩
def wrcI (a : Array Int) (i : Nat) (v : Int) : Ck (Array Int) := ⟨wrI a i v, decide (i < a.size)⟩
/-- checked subtraction of signed C++ values kept as naturals: a negative result is a fault -/
def subc (a b : Nat) : Ck Nat := ⟨a - b, decide (b ≤ a)⟩

/-- a loop over a list of loop-variable values, state threaded through `Ck` -/
def foldCk {σ β : Type} (f : σ → β → Ck σ) (l : List β) (s : σ) : Ck σ :=
  l.foldl (fun (acc : Ck σ) x => acc >>= fun s => f s x) (pure s)

/-- `for (jj = Gp[i]; jj < Gp[i+1]; jj++) { j = Gj[jj]; body }` -/
def forRow {σ : Type} (G : Csr) (i : Nat) (body : σ → Nat → Ck σ) (s : σ) : Ck σ := do
  let a ← rdc G.ap i
  let b ← rdc G.ap (i+1)
  foldCk (fun s jj => do
    let j ← rdc G.aj jj
    body s j) (List.range' a (b - a)) s

/-- "move k to the end of its interval and increment lambda_k" (the body of the innermost loop) -/
def incrCk (n : Nat) (s : St) (k : Nat) : Ck St := do
  let sk ← rdcI s.sp k
  if sk ≠ U then pure s else do
  let lk ← rdc s.lam k
  if lk ≥ n - 1 then pure s else do
  let old ← rdc s.n2i k
  let ip ← rdc s.iptr lk
  let ic ← rdc s.icnt lk
  let new ← subc (ip + ic) 1
  let a ← rdc s.i2n old
  let b ← rdc s.i2n new
  let n2i ← wrc s.n2i a new
  let n2i ← wrc n2i b old
  let i2n ← wrc s.i2n old b
  let i2n ← wrc i2n new a
  let ic' ← subc ic 1
  let icnt ← wrc s.icnt lk ic'
  let c1 ← rdc icnt (lk+1)
  let icnt ← wrc icnt (lk+1) (c1 + 1)      -- the line marked `//invalid write!` in the source
  let iptr ← wrc s.iptr (lk+1) new
  let lam ← wrc s.lam k (lk+1)
  pure { s with n2i, i2n, icnt, iptr, lam }

/-- "move j to the beginning of its interval and decrement lambda_j" -/
def decrCk (s : St) (j : Nat) : Ck St := do
  let sj ← rdcI s.sp j
  if sj ≠ U then pure s else do
  let lj ← rdc s.lam j
  if lj = 0 then pure s else do
  let old ← rdc s.n2i j
  let new ← rdc s.iptr lj
  let a ← rdc s.i2n old
  let b ← rdc s.i2n new
  let n2i ← wrc s.n2i a new
  let n2i ← wrc n2i b old
  let i2n ← wrc s.i2n old b
  let i2n ← wrc i2n new a
  let ic ← rdc s.icnt lj
  let ic' ← subc ic 1
  let icnt ← wrc s.icnt lj ic'
  let c1 ← rdc icnt (lj-1)
  let icnt ← wrc icnt (lj-1) (c1 + 1)
  let p ← rdc s.iptr lj
  let iptr ← wrc s.iptr lj (p + 1)
  let p1 ← rdc iptr lj
  let c2 ← rdc icnt (lj-1)
  let q ← subc p1 c2
  let iptr ← wrc iptr (lj-1) q
  let lam ← wrc s.lam j (lj-1)
  pure { s with n2i, i2n, icnt, iptr, lam }

/-- first inner loop body: `if (splitting[j] == U_NODE) splitting[j] = PRE_F_NODE` -/
def markCk (s : St) (j : Nat) : Ck St := do
  let sj ← rdcI s.sp j
  if sj = U then do
    let sp ← wrcI s.sp j PF
    pure { s with sp }
  else pure s

/-- second inner loop body: tentative F-points become F-points, lambda of what they depend on goes up -/
def bumpCk (S : Csr) (s : St) (j : Nat) : Ck St := do
  let sj ← rdcI s.sp j
  if sj = PF then do
    let sp ← wrcI s.sp j F
    forRow S j (incrCk S.n) { s with sp }
  else pure s

/-- body of the main loop for position `top`; `none` = `break` -/
def stepCk (S T : Csr) (s : St) (top : Nat) : Ck (Option St) := do
  let i ← rdc s.i2n top
  let li ← rdc s.lam i
  let c ← rdc s.icnt li
  let c' ← subc c 1
  let icnt ← wrc s.icnt li c'
  let s : St := { s with icnt }
  let li' ← rdc s.lam i
  if li' = 0 then pure none else do
  let si ← rdcI s.sp i
  if si ≠ U then pure (some s) else do
  let sp ← wrcI s.sp i C
  let s : St := { s with sp }
  let s ← forRow T i markCk s
  let s ← forRow T i (bumpCk S) s
  let s ← forRow S i decrCk s
  pure (some s)

/-- `lambda[i] = Tp[i+1] - Tp[i]` -/
def lamCk (S T : Csr) : Ck (Array Nat) :=
  foldCk (fun lam i => do
    let a ← rdc T.ap (i+1)
    let b ← rdc T.ap i
    let l ← subc a b
    wrc lam i l) (List.range S.n) (Array.replicate S.n 0)

/-- `interval_count[lambda[i]]++` -/
def histCk (lam : Array Nat) (n L : Nat) : Ck (Array Nat) :=
  foldCk (fun c i => do
    let l ← rdc lam i
    let v ← rdc c l
    wrc c l (v + 1)) (List.range n) (Array.replicate L 0)

/-- `interval_ptr[i] = cumsum; cumsum += interval_count[i]; interval_count[i] = 0`;
state `(interval_ptr, cumsum, interval_count)` -/
def prefixCk (icnt0 : Array Nat) (L : Nat) : Ck (Array Nat × Nat × Array Nat) :=
  foldCk (fun (acc : Array Nat × Nat × Array Nat) v => do
    let iptr ← wrc acc.1 v acc.2.1
    let c ← rdc acc.2.2 v
    let icnt ← wrc acc.2.2 v 0
    pure (iptr, acc.2.1 + c, icnt)) (List.range L) (Array.replicate L 0, 0, icnt0)

/-- placement of the nodes into their intervals; state `(index_to_node, node_to_index, interval_count)` -/
def placeCk (lam iptr icnt : Array Nat) (n : Nat) : Ck (Array Nat × Array Nat × Array Nat) :=
  foldCk (fun (acc : Array Nat × Array Nat × Array Nat) i => do
    let l ← rdc lam i
    let p ← rdc iptr l
    let c ← rdc acc.2.2 l
    let idx := p + c
    let i2n ← wrc acc.1 idx i
    let n2i ← wrc acc.2.1 i idx
    let icnt ← wrc acc.2.2 l (c + 1)
    pure (i2n, n2i, icnt)) (List.range n) (Array.replicate n 0, Array.replicate n 0, icnt)

/-- `std::fill(splitting, splitting + n, U)` (on the caller's array of length `n`), then
`if (lambda[i] == 0 || (lambda[i] == 1 && Tj[Tp[i]] == i)) splitting[i] = F_NODE` -/
def spCk (T : Csr) (lam : Array Nat) (n : Nat) : Ck (Array Int) :=
  foldCk (fun sp i => do
    let l ← rdc lam i
    if l = 0 then wrcI sp i F
    else if l = 1 then do
      let p ← rdc T.ap i
      let j ← rdc T.aj p
      if j = i then wrcI sp i F else pure sp
    else pure sp) (List.range n) (Array.replicate n U)

/-- everything before the main loop -/
def initCk (S T : Csr) : Ck St := do
  let n := S.n
  let lam ← lamCk S T
  let lmax := max (2 * lam.foldl max 0) (n+1)
  let icnt0 ← histCk lam n lmax
  let pr ← prefixCk icnt0 lmax
  let pl ← placeCk lam pr.1 pr.2.2 n
  let sp ← spCk T lam n
  pure { lam, iptr := pr.1, icnt := pl.2.2, i2n := pl.1, n2i := pl.2.1, sp }

/-- the main loop `for (top = n-1; top > -1; top--)` on fuel; fuel exhausted = fault -/
def goCk (S T : Csr) : Nat → Nat → St → Ck St
  | 0, _, s => ⟨s, false⟩
  | fuel+1, top, s => do
    let r ← stepCk S T s top
    match r with
    | none => pure s
    | some s' => if top = 0 then pure s' else goCk S T fuel (top-1) s'

/-- `if (splitting[i] == U_NODE) splitting[i] = F_NODE` -/
def finalCk (sp : Array Int) (n : Nat) : Ck (Array Int) :=
  foldCk (fun sp i => do
    let v ← rdcI sp i
    if v = U then wrcI sp i F else pure sp) (List.range n) sp

/-- `rs_cf_splitting(n, Sp, Sj, Tp, Tj, influence = 0, splitting)` -/
def runCk (S T : Csr) : Ck (Array Int) := do
  let s0 ← initCk S T
  let s ← if S.n = 0 then pure s0 else goCk S T S.n (S.n - 1) s0
  finalCk s.sp S.n

end PyamgV.RS
