/-! PyamgV (C05): model of the `symmetric_smoothing` derivation of `change_smoothers`
(pyamg/relaxation/smoothing.py) as the code is *now* (after commits 255ae68 and 47b225a: equal
smoother names and cf/fc pairs also need equal remaining options, `_same_parameters`). Import-free.

A smoother specification is `(name, kwargs)`: `name = none` is Python's `None`; `kwargs` is the
keyword dictionary as an association list with pairwise distinct keys (a Python dict) whose values
are canonicalised by the harness: numbers (bool/int/float compare equal in Python when numerically
equal) as exact rationals, strings, `None`, and opaque objects by identity tag.

`flag pre post nl` returns `none` where `change_smoothers` raises (unknown smoother name, or a
keyword the setup function of that smoother does not take) and `some b` where it sets
`ml.symmetric_smoothing = b`. -/
namespace PyamgV.C05

inductive Val where
  | num (q : Rat)
  | str (s : String)
  | none
  | other (tag : String)
deriving DecidableEq, Repr

structure Cfg where
  name : Option String
  kw : List (String × Val) := []
deriving DecidableEq, Repr

/-- `SYMMETRIC_RELAXATION` -/
def symmetricRelaxation : List (Option String) :=
  [some "jacobi", some "richardson", some "block_jacobi", some "jacobi_ne", some "chebyshev", none]
/-- `KRYLOV_RELAXATION` -/
def krylovRelaxation : List (Option String) := [some "cg", some "cgne", some "cgnr", some "gmres"]
def defaultSweep : Val := .str "forward"
def defaultNiter : Val := .num 1

/-- the (cf, fc) pairs accepted with equal `f_iterations` / `c_iterations` and equal remaining options -/
def cfPairs : List (Option String × Option String) :=
  [(some "cf_jacobi", some "fc_jacobi"), (some "fc_jacobi", some "cf_jacobi"),
   (some "cf_block_jacobi", some "fc_block_jacobi"), (some "fc_block_jacobi", some "cf_block_jacobi")]

/-- registry names for which `fn.startswith(('cf_', 'fc_'))` holds -/
def cfFcNames : List (Option String) :=
  [some "cf_jacobi", some "fc_jacobi", some "cf_block_jacobi", some "fc_block_jacobi"]

/-- the sweep pairs that keep the flag -/
def sweepPairs : List (Val × Val) :=
  [(.str "forward", .str "backward"), (.str "backward", .str "forward"), (.str "symmetric", .str "symmetric")]

/-- `_setup_call`'s register with the keyword arguments each setup function takes (besides `lvl`);
`None` is registered as `'none'`, and the string `'none'` itself is accepted as well -/
def registry : List (Option String × List String) :=
  [(some "gauss_seidel", ["iterations", "sweep"]),
   (some "jacobi", ["iterations", "omega", "withrho"]),
   (some "schwarz", ["iterations", "subdomain", "subdomain_ptr", "inv_subblock", "inv_subblock_ptr", "sweep"]),
   (some "strength_based_schwarz", ["iterations", "sweep"]),
   (some "block_jacobi", ["iterations", "omega", "Dinv", "blocksize", "withrho"]),
   (some "block_gauss_seidel", ["iterations", "sweep", "Dinv", "blocksize"]),
   (some "richardson", ["iterations", "omega"]),
   (some "sor", ["omega", "iterations", "sweep"]),
   (some "chebyshev", ["lower_bound", "upper_bound", "degree", "iterations"]),
   (some "jacobi_ne", ["iterations", "omega", "withrho"]),
   (some "gauss_seidel_ne", ["iterations", "sweep", "omega"]),
   (some "gauss_seidel_nr", ["iterations", "sweep", "omega"]),
   (some "cf_jacobi", ["f_iterations", "c_iterations", "iterations", "omega", "withrho"]),
   (some "fc_jacobi", ["f_iterations", "c_iterations", "iterations", "omega", "withrho"]),
   (some "cf_block_jacobi", ["f_iterations", "c_iterations", "iterations", "omega", "Dinv", "blocksize", "withrho"]),
   (some "fc_block_jacobi", ["f_iterations", "c_iterations", "iterations", "omega", "Dinv", "blocksize", "withrho"]),
   (some "gmres", ["tol", "maxiter", "restart", "M", "callback", "residuals"]),
   (some "cg", ["tol", "maxiter", "M", "callback", "residuals"]),
   (some "cgne", ["tol", "maxiter", "M", "callback", "residuals"]),
   (some "cgnr", ["tol", "maxiter", "M", "callback", "residuals"]),
   (some "none", []),
   (none, [])]

/-- the setup call of this specification does not raise -/
def valid (c : Cfg) : Bool :=
  match registry.lookup c.name with
  | some keys => c.kw.all (fun kv => keys.contains kv.1)
  | none => false

/-- `kwargs.get(key, dflt)` -/
def get (c : Cfg) (key : String) (dflt : Val) : Val := (c.kw.lookup key).getD dflt

/-- `_same_parameters(kwargs1, kwargs2)`: the dictionaries without their `'sweep'` entry are equal,
i.e. every other key has the same value (or is absent) on both sides -/
def sameParameters (a b : Cfg) : Bool :=
  (a.kw.map (·.1) ++ b.kw.map (·.1)).all (fun k => k == "sweep" || a.kw.lookup k == b.kw.lookup k)

/-- the per-level test of the three (identical) copies in `change_smoothers`; `true` = "this level
keeps the flag" -/
def levelOk (a b : Cfg) : Bool :=
  if get a "iterations" defaultNiter ≠ get b "iterations" defaultNiter then false
  else if (a.name, b.name) ∈ cfPairs then
    (get a "f_iterations" defaultNiter == get b "f_iterations" defaultNiter) &&
    (get a "c_iterations" defaultNiter == get b "c_iterations" defaultNiter) &&
    sameParameters a b
  else if a.name ≠ b.name ∨ sameParameters a b = false then false
  else if a.name ∈ krylovRelaxation ∨ b.name ∈ krylovRelaxation then false
  else if a.name ∉ symmetricRelaxation then
    if a.name ∈ cfFcNames then false
    else (get a "sweep" defaultSweep, get b "sweep" defaultSweep) ∈ sweepPairs
  else true

def dflt : Cfg := ⟨none, []⟩

/-- the specification installed on level `i`: entry `i`, the last entry beyond the list -/
def preAt (pre : List Cfg) (i : Nat) : Cfg := pre.getD (min i (pre.length - 1)) dflt
def postAt (post : List Cfg) (i : Nat) : Cfg := post.getD (min i (post.length - 1)) dflt

/-- number of levels whose pair is examined: the first loop runs to `min_len`, the second (only for
lists of different length) to `mid_len`; the final "fill in remaining levels" loop does not test -/
def testedLevels (pre post : List Cfg) (nl : Nat) : Nat :=
  let minLen := min (min pre.length post.length) nl
  if pre.length = post.length then minLen else min (max pre.length post.length) nl

/-- `change_smoothers(ml, pre, post)` with `nl = len(ml.levels) - 1` smoothing levels and non-empty
lists: `none` = raises, `some flag` otherwise -/
def flag (pre post : List Cfg) (nl : Nat) : Option Bool :=
  if (List.range nl).all (fun i => valid (preAt pre i) && valid (postAt post i)) then
    some ((List.range (testedLevels pre post nl)).all (fun i => levelOk (preAt pre i) (postAt post i)))
  else none

/-- the consumer in `MultilevelSolver.solve`: `accel == 'cg' and not symmetric_smoothing` → warn -/
def cgWarns (flagValue : Bool) (accelIsCg : Bool) : Bool := accelIsCg && !flagValue

end PyamgV.C05
