import PyamgV.Proofs.Ck

/-! PyamgV (C17): checked-execution (`Ck`) models of further native kernels, written loop by loop
after the C++ (`pyamg/amg_core/relaxation.h`, `linalg.h`, `ruge_stuben.h`, `smoothed_aggregation.h`).
Every array access goes through `Ck.rd` / `Ck.wr` (signed index, flag cleared when the index leaves
the array), loops through `Ck.forRange` (`for(jj = s; jj < e; jj++)`) and `Ck.forStride`
(`for(i = start; i != stop; i += step)`, `none` = fuel exhausted = does not terminate).  The `.val`
of each model is what the driver compares with the real kernel, the `.ok` flag is what the safety
theorems in `Proofs/C17Safe*.lean` are about: one definition per kernel.  Scalars are abstract
(`KOps α`); core Lean only. -/
namespace PyamgV.C17
open PyamgV.Ck

structure KOps (α : Type) where
  mul : α → α → α
  add : α → α → α
  sub : α → α → α
  div : α → α → α
  zero : α
  one : α
  isZero : α → Bool
  /-- `mynorm` -/
  norm : α → α
  max : α → α → α
  /-- `std::numeric_limits<F>::min()` -/
  tiny : α
  conj : α → α

/-- structural validity of CSR arrays with `G.n` rows and `m` columns -/
structure WFm {α : Type} (G : Csr α) (m : Nat) : Prop where
  ap_size : G.ap.size = G.n + 1
  ap0 : 0 ≤ G.ap.getD 0 0
  mono : ∀ i, i < G.n → G.ap.getD i 0 ≤ G.ap.getD (i+1) 0
  last_j : G.ap.getD G.n 0 ≤ (G.aj.size : Int)
  last_x : G.ap.getD G.n 0 ≤ (G.ax.size : Int)
  cols : ∀ jj, jj < G.aj.size → 0 ≤ G.aj.getD jj 0 ∧ G.aj.getD jj 0 < (m : Int)

variable {α : Type} [Inhabited α]

/-! ### relaxation.h -/

/-- the inner loop shared by the point relaxation kernels:
`for(jj = Ap[r]; jj < Ap[r+1]; jj++){ j = Aj[jj]; if (r == j) diag = Ax[jj]; else rsum += Ax[jj]*v[j]; }`;
returns `(rsum, diag)` -/
def rowScan (o : KOps α) (G : Csr α) (r : Int) (v : Array α) : Ck (α × α) := do
  let s ← rd G.ap r
  let e ← rd G.ap (r+1)
  forRange s e (o.zero, o.zero) (fun jj (acc : α × α) => do
    let j ← rd G.aj jj
    let a ← rd G.ax jj
    if r = j then pure (acc.1, a)
    else do
      let vj ← rd v j
      pure (o.add acc.1 (o.mul a vj), acc.2))

/-- one row of `sor_gauss_seidel`: `x[i] = omega*((b[i]-rsum)/diag) + (1-omega)*x[i]` -/
def sorRow (o : KOps α) (omega : α) (G : Csr α) (b : Array α) (i : Int) (x : Array α) :
    Ck (Array α) := do
  let acc ← rowScan o G i x
  if o.isZero acc.2 then pure x
  else do
    let bi ← rd b i
    let xi ← rd x i
    wr x i (o.add (o.mul omega (o.div (o.sub bi acc.1) acc.2)) (o.mul (o.sub o.one omega) xi))

/-- `sor_gauss_seidel` -/
def sorSweep (o : KOps α) (omega : α) (G : Csr α) (b : Array α) (start stop step : Int)
    (fuel : Nat) (x : Array α) : Option (Ck (Array α)) :=
  forStride stop step (sorRow o omega G b) fuel start (pure x)

/-- state of `jacobi`: `x`, `temp` -/
abbrev XT (α : Type) := Array α × Array α

/-- `temp[i] = x[i]` -/
def jacCopy (i : Int) (st : XT α) : Ck (XT α) := do
  let xi ← rd st.1 i
  let t ← wr st.2 i xi
  pure (st.1, t)

/-- one row of `jacobi`: `x[i] = (1-omega)*temp[i] + omega*((b[i]-rsum)/diag)` -/
def jacRow (o : KOps α) (omega : α) (G : Csr α) (b : Array α) (i : Int) (st : XT α) :
    Ck (XT α) := do
  let acc ← rowScan o G i st.2
  if o.isZero acc.2 then pure st
  else do
    let ti ← rd st.2 i
    let bi ← rd b i
    let x ← wr st.1 i (o.add (o.mul (o.sub o.one omega) ti) (o.mul omega (o.div (o.sub bi acc.1) acc.2)))
    pure (x, st.2)

/-- `jacobi`: `omega2 = omega[0]`, the copy loop, then the update loop (both strided) -/
def jacobi (o : KOps α) (omega : Array α) (G : Csr α) (b : Array α) (start stop step : Int)
    (fuel : Nat) (x temp : Array α) : Option (Ck (XT α)) :=
  let om := rd omega 0
  match forStride stop step jacCopy fuel start (om >>= fun _ => pure (x, temp)) with
  | none => none
  | some st1 => forStride stop step (jacRow o om.val G b) fuel start st1

/-- `jacobi_indexed`: `temp` is a private copy of `x` (`std::vector<T> temp(x_size)`), rows taken from `indices[]` -/
def jacobiIndexed (o : KOps α) (omega : Array α) (G : Csr α) (b : Array α) (indices : Array Int)
    (x : Array α) : Ck (Array α) := do
  let om ← rd omega 0
  let temp ← forRange 0 (x.size : Int) (Array.replicate x.size default) (fun i (t : Array α) => do
    let xi ← rd x i
    wr t i xi)
  forRange 0 (indices.size : Int) x (fun i (x : Array α) => do
    let row ← rd indices i
    let acc ← rowScan o G row temp
    if o.isZero acc.2 then pure x
    else do
      let ti ← rd temp row
      let bi ← rd b row
      wr x row (o.add (o.mul (o.sub o.one om) ti) (o.mul om (o.div (o.sub bi acc.1) acc.2))))

/-- one step of `gauss_seidel_indexed`: `inew = Id[i]`, then the Gauss-Seidel row update of row `inew` -/
def gsIdxRow (o : KOps α) (G : Csr α) (b : Array α) (Id : Array Int) (i : Int) (x : Array α) :
    Ck (Array α) := do
  let inew ← rd Id i
  let acc ← rowScan o G inew x
  if o.isZero acc.2 then pure x
  else do
    let bi ← rd b inew
    wr x inew (o.div (o.sub bi acc.1) acc.2)

/-- `gauss_seidel_indexed` -/
def gsIndexed (o : KOps α) (G : Csr α) (b : Array α) (Id : Array Int) (start stop step : Int)
    (fuel : Nat) (x : Array α) : Option (Ck (Array α)) :=
  forStride stop step (gsIdxRow o G b Id) fuel start (pure x)

/-- one row of `gauss_seidel_ne`: `delta = (b[i] - sum Ax[j]*x[Aj[j]])*D_inv[i]*omega`, then
`x[Aj[j]] += conj(Ax[j])*delta` -/
def gsNeRow (o : KOps α) (omega : α) (G : Csr α) (b dinv : Array α) (i : Int) (x : Array α) :
    Ck (Array α) := do
  let s ← rd G.ap i
  let e ← rd G.ap (i+1)
  let d ← forRange s e o.zero (fun j (d : α) => do
    let a ← rd G.ax j
    let c ← rd G.aj j
    let xc ← rd x c
    pure (o.add d (o.mul a xc)))
  let bi ← rd b i
  let di ← rd dinv i
  let delta := o.mul (o.mul (o.sub bi d) di) omega
  forRange s e x (fun j (x : Array α) => do
    let c ← rd G.aj j
    let xc ← rd x c
    let a ← rd G.ax j
    wr x c (o.add xc (o.mul (o.conj a) delta)))

/-- `gauss_seidel_ne` (rows `0..G.n-1`, `x` has one entry per column) -/
def gsNe (o : KOps α) (omega : α) (G : Csr α) (b dinv : Array α) (start stop step : Int)
    (fuel : Nat) (x : Array α) : Option (Ck (Array α)) :=
  forStride stop step (gsNeRow o omega G b dinv) fuel start (pure x)

/-- one column of `gauss_seidel_nr` (state `x`, `r`; `G` holds the CSC arrays: `G.n` columns) -/
def gsNrCol (o : KOps α) (omega : α) (G : Csr α) (dinv : Array α) (i : Int) (st : XT α) :
    Ck (XT α) := do
  let s ← rd G.ap i
  let e ← rd G.ap (i+1)
  let d ← forRange s e o.zero (fun j (d : α) => do
    let a ← rd G.ax j
    let c ← rd G.aj j
    let rc ← rd st.2 c
    pure (o.add d (o.mul (o.conj a) rc)))
  let di ← rd dinv i
  let delta := o.mul d (o.mul di omega)
  let xi ← rd st.1 i
  let x ← wr st.1 i (o.add xi delta)
  let r ← forRange s e st.2 (fun j (r : Array α) => do
    let c ← rd G.aj j
    let rc ← rd r c
    let a ← rd G.ax j
    wr r c (o.sub rc (o.mul delta a)))
  pure (x, r)

/-- `gauss_seidel_nr` -/
def gsNr (o : KOps α) (omega : α) (G : Csr α) (dinv : Array α) (start stop step : Int)
    (fuel : Nat) (x r : Array α) : Option (Ck (XT α)) :=
  forStride stop step (gsNrCol o omega G dinv) fuel start (pure (x, r))

/-! ### linalg.h -/

/-- `csc_scale_columns`: `for i < n_col: for jj in Ap[i]..Ap[i+1]: Ax[jj] *= Xx[i]` (`G.n` = `n_col`) -/
def scaleColumns (o : KOps α) (G : Csr α) (xx : Array α) : Ck (Array α) :=
  forRange 0 (G.n : Int) G.ax (fun i (ax : Array α) => do
    let s ← rd G.ap i
    let e ← rd G.ap (i+1)
    forRange s e ax (fun jj (ax : Array α) => do
      let a ← rd ax jj
      let xi ← rd xx i
      wr ax jj (o.mul a xi)))

/-- `csc_scale_rows`: `nnz = Ap[n_col]; for i < nnz: Ax[i] *= Xx[Aj[i]]` -/
def scaleRows (o : KOps α) (G : Csr α) (xx : Array α) : Ck (Array α) := do
  let nnz ← rd G.ap (G.n : Int)
  forRange 0 nnz G.ax (fun i (ax : Array α) => do
    let a ← rd ax i
    let j ← rd G.aj i
    let xj ← rd xx j
    wr ax i (o.mul a xj))

/-! ### ruge_stuben.h -/

/-- `maximum_row_value`: `x[i] = max(numeric_limits::min(), max_jj |Ax[jj]|)` -/
def maxRowValue (o : KOps α) (G : Csr α) (x : Array α) : Ck (Array α) :=
  forRange 0 (G.n : Int) x (fun i (x : Array α) => do
    let s ← rd G.ap i
    let e ← rd G.ap (i+1)
    let m ← forRange s e o.tiny (fun jj (m : α) => do
      let a ← rd G.ax jj
      pure (o.max m (o.norm a)))
    wr x i m)

/-- `rs_direct_interpolation_pass1` / `rs_classical_interpolation_pass1` (identical loops):
row pointer of the interpolation operator; returns `Pp` -/
def interpPass1 (n : Nat) (sp sj splitting : Array Int) (pp : Array Int) : Ck (Array Int) := do
  let pp ← wr pp 0 0
  let r ← forRange 0 (n : Int) (pp, (0 : Int)) (fun i (st : Array Int × Int) => do
    let si ← rd splitting i
    let nnz ← (if si = 1 then pure (st.2 + 1)
      else do
        let s ← rd sp i
        let e ← rd sp (i+1)
        forRange s e st.2 (fun jj (nnz : Int) => do
          let j ← rd sj jj
          let sc ← rd splitting j
          if sc = 1 ∧ j ≠ i then pure (nnz + 1) else pure nnz))
    let pp ← wr st.1 (i+1) nnz
    pure (pp, nnz))
  pure r.1

/-! ### smoothed_aggregation.h -/

/-- state of `naive_aggregation`: `x`, `y`, `next_aggregate` -/
abbrev Agg := Array Int × Array Int × Int

/-- `naive_aggregation` -/
def naiveAgg (n : Nat) (ap aj : Array Int) (x y : Array Int) : Ck Agg := do
  let x ← forRange 0 (n : Int) x (fun i (x : Array Int) => wr x i 0)
  forRange 0 (n : Int) (x, y, (1 : Int)) (fun i (st : Agg) => do
    let xi ← rd st.1 i
    if xi ≠ 0 then pure st
    else do
      let s ← rd ap i
      let e ← rd ap (i+1)
      let x ← wr st.1 i st.2.2
      let x ← forRange s e x (fun jj (x : Array Int) => do
        let j ← rd aj jj
        let xj ← rd x j
        if xj = 0 then wr x j st.2.2 else pure x)
      let y ← wr st.2.1 (st.2.2 - 1) i
      pure (x, y, st.2.2 + 1))

end PyamgV.C17
