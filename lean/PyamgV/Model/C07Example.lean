import PyamgV.Model.C07Krylov
/-! PyamgV (C07): a concrete 2 × 2 instance on which the executable recurrence model is evaluated by
the kernel (non-vacuity of the hypotheses of the C07 theorems, see `Props/C07.lean`). Core Lean only. -/
namespace PyamgV.C07.Ex

def A₀ : Vector (Vector Rat 2) 2 := #v[#v[2, 1], #v[1, 3]]
def M₀ : Vector (Vector Rat 2) 2 := #v[#v[1, 0], #v[0, 1/2]]
def b₀ : Vector Rat 2 := #v[1, 0]
def z₀ : Vector Rat 2 := #v[0, 0]

def cgRun (k : Nat) : CgSt Rat (Vector Rat 2) :=
  iter (cgStep (vecOps (fun a => a) A₀ M₀) b₀) k (cgInit (vecOps (fun a => a) A₀ M₀) b₀ z₀)

/-- no breakdown in the first two steps; the first iterate is `(1/2, 0)`, the second is the exact
solution `(3/5, -1/5)` -/
theorem cg_two_steps : (cgRun 0).rz ≠ 0 ∧ (cgRun 1).rz ≠ 0 ∧ (cgRun 1).x ≠ (cgRun 2).x ∧
    (cgRun 2).x = #v[3/5, -1/5] ∧ vmv A₀ (#v[3/5, -1/5] : Vector Rat 2) = b₀ := by
  decide +kernel

end PyamgV.C07.Ex
