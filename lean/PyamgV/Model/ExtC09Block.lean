import PyamgV.Model.KRelax
/-! PyamgV (extension E15, property C09): executable models of the relaxation methods that carry
dense blocks or are driven from Python: `block_jacobi`, `block_gauss_seidel`, `overlapping_schwarz_csr`
(relaxation.h, with `gemm(...,'F','F','F',...)` of linalg.h specialised to one right-hand column) and the
Python drivers `block_jacobi`, `block_gauss_seidel`, `polynomial`, `jacobi_ne`, `gauss_seidel_ne`,
`gauss_seidel_nr`, `schwarz` of relaxation.py (storage conversion, default `Dinv`, sweep direction,
`iterations`, `omega`).  Core Lean only, any scalar (run on `Rat` and on Gaussian rationals).
Inverse blocks (`Dinv`, `inv_subblock`) are INPUTS: pyamg obtains them from LAPACK / its SVD kernel;
the harness supplies them as exact rationals.  Local work vectors (`rsum`, `v`) are lists of length
`blocksize`. -/
namespace PyamgV.K

/-- square-block BSR matrix: `nb` block rows, `bs × bs` blocks stored row-major in `bx` -/
structure Bsr (α : Type) where
  nb : Nat
  bs : Nat
  bp : Array Nat
  bj : Array Nat
  bx : Array α

variable {α : Type} [Add α] [Sub α] [Mul α] [Div α] [OfNat α 0] [OfNat α 1] [DecidableEq α]

@[inline] def lrd (l : List α) (k : Nat) : α := l.getD k 0

def Bsr.jjs (A : Bsr α) (i : Nat) : List Nat :=
  List.range' (rdN A.bp i) (rdN A.bp (i+1) - rdN A.bp i)

/-- `S = 0; for k: S += M[off+k] * y[k]` (one output entry of `gemm`) -/
def dotRow (M : Array α) (off n : Nat) (y : Nat → α) : α :=
  (List.range n).foldl (fun s k => s + rd M (off + k) * y k) 0

/-- `gemm(M+off, n, n, 'F', y, n, 1, 'F', S, n, 1, 'F', ·)` into a zeroed `S`: `S[i] = Σ_k M[off+i n+k] y[k]` -/
def gemv (M : Array α) (off n : Nat) (y : Nat → α) : List α :=
  (List.range n).map (fun i => dotRow M (off + i * n) n y)

/-- `rsum` after the block dot product of block row `i` with `y`, diagonal blocks skipped -/
def blockOffSum (A : Bsr α) (i : Nat) (y : Array α) : List α :=
  (A.jjs i).foldl (fun rsum jj =>
    let j := rdN A.bj jj
    if i = j then rsum
    else
      let v := gemv A.bx (jj * (A.bs * A.bs)) A.bs (fun k => rd y (j * A.bs + k))
      (List.range A.bs).map (fun k => lrd rsum k + lrd v k)) (List.replicate A.bs 0)

/-- write `g k` to `x[i*bs + k]`, `k = 0..bs-1` -/
def writeBlock (bs : Nat) (x : Array α) (i : Nat) (g : Nat → α) : Array α :=
  (List.range bs).foldl (fun x k => wr x (i * bs + k) (g k)) x

/-- `v = Dinv_i (b_i - rsum)` -/
def blockSolve (A : Bsr α) (b Dinv : Array α) (i : Nat) (rsum : List α) : List α :=
  gemv Dinv (i * (A.bs * A.bs)) A.bs (lrd ((List.range A.bs).map (fun k => rd b (i * A.bs + k) - lrd rsum k)))

/-- the copy loop of `block_jacobi`: the swept blocks of `x` go to `temp` -/
def bjacTemp (bs : Nat) (rows : List Nat) (temp0 x : Array α) : Array α :=
  rows.foldl (fun t i => writeBlock bs t i (fun k => rd x (i * bs + k))) temp0

def bjacStep (ω : α) (A : Bsr α) (b Dinv temp x : Array α) (i : Nat) : Array α :=
  let v := blockSolve A b Dinv i (blockOffSum A i temp)
  writeBlock A.bs x i (fun k => (1 - ω) * rd temp (i * A.bs + k) + ω * lrd v k)

/-- `block_jacobi` kernel (`temp0` = the caller's buffer) -/
def blockJacobi (ω : α) (A : Bsr α) (b Dinv : Array α) (rows : List Nat) (temp0 x : Array α) : Array α :=
  rows.foldl (bjacStep ω A b Dinv (bjacTemp A.bs rows temp0 x)) x

/-- one block row of `block_gauss_seidel`: `gemm` writes `Dinv_i (b_i - rsum)` straight into `x_i` -/
def bgsStep (A : Bsr α) (b Dinv x : Array α) (i : Nat) : Array α :=
  let v := blockSolve A b Dinv i (blockOffSum A i x)
  writeBlock A.bs x i (lrd v)

/-- `block_gauss_seidel` kernel -/
def blockGaussSeidel (A : Bsr α) (b Dinv : Array α) (rows : List Nat) (x : Array α) : Array α :=
  rows.foldl (bgsStep A b Dinv) x

/-! ### storage conversions done by the Python drivers (SciPy `csr_tobsr`, `csr_tocsc`) -/

/-- first position `p ≥ base` with `bj[p] = cb`, or `bj.size` -/
def findFrom (bj : Array Nat) (base cb : Nat) : Nat :=
  ((List.range' base (bj.size - base)).find? (fun p => rdN bj p = cb)).getD bj.size

/-- `A.tobsr(blocksize=(bs,bs))` for CSR `A` (SciPy `csr_tobsr`): blocks of a block row in order of first
appearance, duplicates summed; `bs = 1` re-uses the CSR arrays; `none` = SciPy raises -/
def Csr.toBsr (A : Csr α) (bs : Nat) : Option (Bsr α) :=
  if bs = 0 then none
  else if A.n % bs ≠ 0 then none
  else if bs = 1 then some ⟨A.n, 1, A.ap, A.aj, A.ax⟩
  else
    let nb := A.n / bs
    let out := (List.range nb).foldl (fun (st : Array Nat × Array Nat × Array α) bi =>
      let base := st.2.1.size
      let st2 := (List.range bs).foldl (fun (st : Array Nat × Array α) r =>
        (A.jjs (bs * bi + r)).foldl (fun (st : Array Nat × Array α) jj =>
          let j := rdN A.aj jj
          let cb := j / bs
          let c := j % bs
          let pos := findFrom st.1 base cb
          let st' : Array Nat × Array α :=
            if pos = st.1.size then (st.1.push cb, st.2 ++ Array.replicate (bs * bs) 0) else st
          let k := pos * (bs * bs) + bs * r + c
          (st'.1, wr st'.2 k (rd st'.2 k + rd A.ax jj))) st) (st.2.1, st.2.2)
      (st.1.push st2.1.size, st2.1, st2.2)) ((#[0] : Array Nat), (#[] : Array Nat), (#[] : Array α))
    some ⟨nb, bs, out.1, out.2.1, out.2.2⟩

/-- `csr_tocsc` of a square matrix: column `j` lists its entries by ascending row, stored order inside a row -/
def Csr.toCsc (A : Csr α) : Csr α :=
  let cols : List (List (Nat × α)) := (List.range A.n).map (fun j =>
    (List.range A.n).flatMap (fun i =>
      ((A.jjs i).filter (fun jj => rdN A.aj jj = j)).map (fun jj => (i, rd A.ax jj))))
  let ap := (List.range (A.n + 1)).map (fun j => ((cols.take j).map List.length).sum)
  ⟨A.n, ap.toArray, (cols.flatten.map (·.1)).toArray, (cols.flatten.map (·.2)).toArray⟩

/-! ### vectors -/
def vmap2 (f : α → α → α) (a b : Array α) : Array α :=
  ((List.range a.size).map (fun i => f (rd a i) (rd b i))).toArray
def vadd (a b : Array α) : Array α := vmap2 (· + ·) a b
def vsub (a b : Array α) : Array α := vmap2 (· - ·) a b
def smul (c : α) (a : Array α) : Array α := ((List.range a.size).map (fun i => c * rd a i)).toArray

/-- CSR `A @ x` (SciPy `csr_matvec`), result of length `A.n` -/
def spmv (A : Csr α) (x : Array α) : Array α :=
  ((List.range A.n).map (fun i => (A.jjs i).foldl (fun s jj => s + rd A.ax jj * rd x (rdN A.aj jj)) 0)).toArray

/-- CSC `A @ x` (SciPy `csc_matvec`), square matrix stored by columns -/
def cscmv (A : Csr α) (x : Array α) : Array α :=
  (List.range A.n).foldl (fun y j =>
    (A.jjs j).foldl (fun y ii => wr y (rdN A.aj ii) (rd y (rdN A.aj ii) + rd A.ax ii * rd x j)) y)
    (Array.replicate A.n 0)

def iterO {β : Type} (f : β → Option β) : Nat → β → Option β
  | 0, x => some x
  | k+1, x => (f x).bind (iterO f k)

/-! ### the Python drivers -/

/-- `relaxation.block_jacobi(A, x, b, Dinv, blocksize, iterations, omega)` after `A.tobsr`:
all block rows, `temp = np.empty_like(x)`; `none` = the driver raises (shape checks) -/
def pyBlockJacobi (ω : α) (A : Bsr α) (b Dinv : Array α) (iters : Nat) (x : Array α) : Option (Array α) :=
  if x.size ≠ A.nb * A.bs ∨ b.size ≠ A.nb * A.bs ∨ Dinv.size ≠ A.nb * (A.bs * A.bs) then none
  else some (iter (fun x => blockJacobi ω A b Dinv (List.range A.nb) (Array.replicate x.size 0) x) iters x)

/-- one directional pass of `block_gauss_seidel` -/
def bgsPass (A : Bsr α) (b Dinv : Array α) (backward : Bool) (x : Array α) : Array α :=
  blockGaussSeidel A b Dinv (dirRows A.nb backward) x

/-- `relaxation.block_gauss_seidel(A, x, b, iterations, sweep, blocksize, Dinv)` after `A.tobsr` -/
def pyBlockGaussSeidel (A : Bsr α) (b Dinv : Array α) (iters : Nat) (sw : Sweep) (x : Array α) : Option (Array α) :=
  if x.size ≠ A.nb * A.bs ∨ b.size ≠ A.nb * A.bs ∨ Dinv.size ≠ A.nb * (A.bs * A.bs) then none
  else some (match sw with
    | .forward => iter (bgsPass A b Dinv false) iters x
    | .backward => iter (bgsPass A b Dinv true) iters x
    | .symmetric => iter (fun x => bgsPass A b Dinv true (bgsPass A b Dinv false x)) iters x)

/-- Horner part of `polynomial`: `h = c0*r; for c in rest: h = c*r + A@h` -/
def hornerArr (A : Csr α) (c0 : α) (rest : List α) (r : Array α) : Array α :=
  rest.foldl (fun h c => vadd (smul c r) (spmv A h)) (smul c0 r)

/-- one iteration of `relaxation.polynomial`: the residual is `b` itself when `norm(x) == 0` -/
def polyStep (A : Csr α) (b : Array α) (cs : List α) (x : Array α) : Option (Array α) :=
  match cs with
  | [] => none
  | c0 :: rest =>
    let r := if x.all (fun v => v = 0) then b else vsub b (spmv A x)
    some (vadd x (hornerArr A c0 rest r))

/-- `relaxation.polynomial(A, x, b, coefficients, iterations)`; `none` = IndexError on empty coefficients -/
def pyPolynomial (A : Csr α) (b : Array α) (cs : List α) (iters : Nat) (x : Array α) : Option (Array α) :=
  iterO (polyStep A b cs) iters x

/-- `get_diagonal(A, norm_eq, inv=True)`: inverse squared 2-norm of each stored row (rows of CSR for
`norm_eq=2`, columns of CSC for `norm_eq=1`), 0 where the norm is 0 -/
def normInv (conj : α → α) (A : Csr α) : Array α :=
  ((List.range A.n).map (fun i =>
    let d := (A.jjs i).foldl (fun s jj => s + rd A.ax jj * conj (rd A.ax jj)) 0
    if d = 0 then 0 else 1 / d)).toArray

/-- the scaled residual `delta = (b - A@x) * Dinv` the `jacobi_ne` driver hands to its kernel -/
def neDelta (A : Csr α) (b Dinv x : Array α) : Array α :=
  ((List.range A.n).map (fun i => (rd b i - rd (spmv A x) i) * rd Dinv i)).toArray

/-- `relaxation.jacobi_ne(A, x, b, iterations, omega)` -/
def pyJacobiNE (conj : α → α) (ω : α) (A : Csr α) (b : Array α) (iters : Nat) (x : Array α) : Array α :=
  iter (fun x => jacobiNE conj ω A (neDelta A b (normInv conj A) x) (List.range A.n) x) iters x

def gsnePass (conj : α → α) (ω : α) (A : Csr α) (b Dinv : Array α) (backward : Bool) (x : Array α) : Array α :=
  gaussSeidelNE conj ω A b Dinv (dirRows x.size backward) x

/-- `relaxation.gauss_seidel_ne(A, x, b, iterations, sweep, omega, Dinv)`; `Dinv = none` = default -/
def pyGaussSeidelNE (conj : α → α) (ω : α) (A : Csr α) (b : Array α) (Dinv? : Option (Array α))
    (iters : Nat) (sw : Sweep) (x : Array α) : Array α :=
  let Dinv := Dinv?.getD (normInv conj A)
  match sw with
  | .forward => iter (gsnePass conj ω A b Dinv false) iters x
  | .backward => iter (gsnePass conj ω A b Dinv true) iters x
  | .symmetric => iter (fun x => gsnePass conj ω A b Dinv true (gsnePass conj ω A b Dinv false x)) iters x

/-- one non-symmetric call `gauss_seidel_nr(..., iterations=k, sweep=forward|backward)`: the residual is
computed once and carried through the kernel calls -/
def gsnrCall (conj : α → α) (ω : α) (A : Csr α) (b Dinv : Array α) (backward : Bool) (k : Nat) (x : Array α) : Array α :=
  (iter (fun (xr : Array α × Array α) => gaussSeidelNR conj ω A Dinv (dirRows x.size backward) xr.1 xr.2) k
    (x, vsub b (cscmv A x))).1

/-- `relaxation.gauss_seidel_nr(A, x, b, iterations, sweep, omega, Dinv)`, `A` = the CSC arrays -/
def pyGaussSeidelNR (conj : α → α) (ω : α) (A : Csr α) (b : Array α) (Dinv? : Option (Array α))
    (iters : Nat) (sw : Sweep) (x : Array α) : Array α :=
  let Dinv := Dinv?.getD (normInv conj A)
  match sw with
  | .forward => gsnrCall conj ω A b Dinv false iters x
  | .backward => gsnrCall conj ω A b Dinv true iters x
  | .symmetric => iter (fun x => gsnrCall conj ω A b Dinv true 1 (gsnrCall conj ω A b Dinv false 1 x)) iters x

/-- one subdomain of `overlapping_schwarz_csr`: residual on the subdomain rows, `gemm` with the stored inverse,
correction added to `x` -/
def schwarzStep (A : Csr α) (b Tx : Array α) (Tp Sj Sp : Array Nat) (x : Array α) (d : Nat) : Array α :=
  let s0 := rdN Sp d
  let m := rdN Sp (d + 1) - s0
  let rsum := (List.range m).map (fun c =>
    let row := rdN Sj (s0 + c)
    (A.jjs row).foldl (fun s jj => s - rd A.ax jj * rd x (rdN A.aj jj)) 0 + rd b row)
  let v := gemv Tx (rdN Tp d) m (lrd rsum)
  (List.range m).foldl (fun x c => wr x (rdN Sj (s0 + c)) (rd x (rdN Sj (s0 + c)) + lrd v c)) x

/-- `overlapping_schwarz_csr` kernel over the subdomains `doms` -/
def schwarzSweep (A : Csr α) (b Tx : Array α) (Tp Sj Sp : Array Nat) (doms : List Nat) (x : Array α) : Array α :=
  doms.foldl (schwarzStep A b Tx Tp Sj Sp) x

/-- `relaxation.schwarz(A, x, b, iterations, subdomain, subdomain_ptr, inv_subblock, inv_subblock_ptr, sweep)`
with all four parameter arrays given; `A` = the CSR matrix after `sort_indices` -/
def pySchwarz (A : Csr α) (b Tx : Array α) (Tp Sj Sp : Array Nat) (iters : Nat) (sw : Sweep) (x : Array α) : Array α :=
  let nd := Sp.size - 1
  let pass := fun (bw : Bool) x => schwarzSweep A b Tx Tp Sj Sp (dirRows nd bw) x
  match sw with
  | .forward => iter (pass false) iters x
  | .backward => iter (pass true) iters x
  | .symmetric => iter (fun x => pass true (pass false x)) iters x

end PyamgV.K
