/-! PyamgV (C20, extension E45): the numbering `m ↔ (k_1, .., k_N)`, `1 ≤ k_i ≤ g_i`, of the closed-form
eigenpairs of the Poisson matrices (row-major, like the grid points), executable (run by the driver and compared
with the enumeration the check uses for the numeric spectrum); `Proofs/ExtC20CompThm.lean` proves it equal to
the `kidx` of the completeness theorems. -/
namespace PyamgV.C20

def prodQ (grid : List Nat) : Nat := grid.foldl (· * ·) 1

/-- the index tuple number `m` -/
def kidxQ : List Nat → Nat → List Nat
  | [], _ => []
  | _ :: gs, m => (m / prodQ gs + 1) :: kidxQ gs (m % prodQ gs)

/-- all index tuples, in the order of their numbers -/
def tuplesQ (grid : List Nat) : List (List Nat) := (List.range (prodQ grid)).map (kidxQ grid)

end PyamgV.C20
