import PyamgV.Model.C11
/-! PyamgV (C11, extension E49): executable model over `Rat` of `block_approx_ideal_restriction_pass2`
(air.h:379-587), the BSR variant of the local approximate ideal restriction.  `local_air` sizes the rows
with the scalar `approx_ideal_restriction_pass1` on the block strength matrix (model `C11M.airPass1`,
neighbourhood `C11M.nbrF`, both reused here).

Loop by loop: the dense local matrix `A0` (`num_DOFs x num_DOFs`, written block by block with the
kernel's index arithmetic, read column-major by the solver), the `blocksize` right-hand sides `b0`
(`b0[num_DOFs*r + block_ind*blocksize + c] = -A[cpoint, N_j][r, c]`), one local solve per row of the
block, the drop test `|x| > 1e-15`, the identity block of the C-point.  The local solve is an exact
solve over `Rat` (Gauss-Jordan); the assembled block row is *verified* (`bairCheck`) before it is
returned.  Core Lean only. -/
namespace PyamgV.C11XB
open PyamgV.N PyamgV.C11M

/-- the BSR arrays of `A` as the kernel gets them: square `bs x bs` blocks, `ax = A.data.ravel()` -/
structure BMat where
  bs : Nat
  ap : Array Nat
  aj : Array Nat
  ax : Array Rat

def BMat.jjs (A : BMat) (i : Nat) : List Nat := List.range' (rdN A.ap i) (rdN A.ap (i + 1) - rdN A.ap i)

/-- the search loop `for k in Ap[row] .. Ap[row+1]: if (col == Aj[k]) { ...; break; }` -/
def BMat.find (A : BMat) (row col : Nat) : Option Nat := (A.jjs row).find? (fun k => rdN A.aj k == col)

/-- `Ax[k*bs*bs + r*bs + c]` -/
def BMat.blk (A : BMat) (k r c : Nat) : Rat := rdQ A.ax (k * A.bs * A.bs + r * A.bs + c)

/-- entry `(r, c)` of the first stored block `(row, col)`, `0` when there is none -/
def BMat.entry (A : BMat) (row col r c : Nat) : Rat :=
  match A.find row col with
  | some k => A.blk k r c
  | none => 0

/-- copy block number `k` to block position `(jb, ib)` of `A0`:
`A0[(jb*bs + br)*nd + ib*bs + bc] = Ax[k*bs*bs + br*bs + bc]` -/
def putBlock (A : BMat) (nd k jb ib : Nat) (a0 : Array Rat) : Array Rat :=
  (List.range A.bs).foldl (fun a0 br =>
    (List.range A.bs).foldl (fun a0 bc =>
      a0.setIfInBounds ((jb * A.bs + br) * nd + ib * A.bs + bc) (A.blk k br bc)) a0) a0

/-- the inner loop over the neighbourhood (block columns of `A0`) for block row `jb` -/
def rowA0 (A : BMat) (nf : List Nat) (jb : Nat) (a0 : Array Rat) : Array Rat :=
  (List.range nf.length).foldl (fun a0 ib =>
    match A.find (nf.getD jb 0) (nf.getD ib 0) with
    | some k => putBlock A (nf.length * A.bs) k jb ib a0
    | none => a0) a0

/-- `A0`, zero initialised -/
def assembleA0 (A : BMat) (nf : List Nat) : Array Rat :=
  (List.range nf.length).foldl (fun a0 jb => rowA0 A nf jb a0)
    (Array.replicate (nf.length * A.bs * (nf.length * A.bs)) 0)

/-- `b0[nd*r + bi*bs + cc] = -Ax[k*bs*bs + r*bs + cc]` -/
def putRhs (A : BMat) (nd k bi : Nat) (b0 : Array Rat) : Array Rat :=
  (List.range A.bs).foldl (fun b0 r =>
    (List.range A.bs).foldl (fun b0 cc =>
      b0.setIfInBounds (nd * r + bi * A.bs + cc) (-(A.blk k r cc))) b0) b0

/-- `b0`, zero initialised: `bs` right-hand sides of length `nd` one after the other -/
def assembleB0 (A : BMat) (c : Nat) (nf : List Nat) : Array Rat :=
  (List.range nf.length).foldl (fun b0 bi =>
    match A.find c (nf.getD bi 0) with
    | some k => putRhs A (nf.length * A.bs) k bi b0
    | none => b0) (Array.replicate (nf.length * A.bs * A.bs) 0)

/-- exact solve of the system the kernel hands to its dense solvers: `a0` read column-major,
`Σ_j a0[j*nd + i] x_j = rhs_i`.  Unverified helper (`C11M.gaussJordan`): only used after `bairCheck`. -/
def solveColMajor (a0 : Array Rat) (nd : Nat) (rhs : List Rat) : Option (List Rat) :=
  let aug := (List.range nd).map (fun i => (List.range nd).map (fun j => rdQ a0 (j * nd + i)) ++ [rhs.getD i 0])
  (gaussJordan aug nd).map (fun m => m.map (fun row => row.getD nd 0))

/-- the `r`-th right-hand side `b0[nd*r .. nd*r + nd)` -/
def rhsOf (b0 : Array Rat) (nd r : Nat) : List Rat := (List.range nd).map (fun i => rdQ b0 (nd * r + i))

/-- `if (std::abs(v) > 1e-15) v else 0` -/
def thresh (eps v : Rat) : Rat := if absQ v > eps then v else 0

/-- block `bi` of the row (row-major): entry `(r, cc)` is the thresholded `x_r[bi*bs + cc]` -/
def blockOf (eps : Rat) (bs : Nat) (xs : List (List Rat)) (bi : Nat) : List Rat :=
  (List.range bs).flatMap (fun r => (List.range bs).map (fun cc => thresh eps ((xs.getD r []).getD (bi * bs + cc) 0)))

/-- the identity block, row-major -/
def ident (bs : Nat) : List Rat :=
  (List.range bs).flatMap (fun r => (List.range bs).map (fun cc => if r = cc then (1 : Rat) else 0))

/-- the block row of `R` for C-point `c`: neighbourhood blocks, then the identity block (storage order) -/
def bairAssemble (eps : Rat) (bs c : Nat) (nf : List Nat) (xs : List (List Rat)) : List (Nat × List Rat) :=
  nf.zip ((List.range nf.length).map (blockOf eps bs xs)) ++ [(c, ident bs)]

/-- entry `(r, cc)` of block `(., f)` of `R A` for the block row `row` of `R` -/
def raBlk (A : BMat) (row : List (Nat × List Rat)) (f r cc : Nat) : Rat :=
  (row.map (fun cb => ((List.range A.bs).map (fun t => cb.2.getD (r * A.bs + t) 0 * A.entry cb.1 f t cc)).sum)).sum

def bairCheck (A : BMat) (nf : List Nat) (row : List (Nat × List Rat)) : Bool :=
  nf.all (fun f => (List.range A.bs).all (fun r => (List.range A.bs).all (fun cc => raBlk A row f r cc == 0)))

/-- the `bs` local solves -/
def bairSolve (A : BMat) (c : Nat) (nf : List Nat) : Option (List (List Rat)) :=
  let nd := nf.length * A.bs
  let a0 := assembleA0 A nf
  let b0 := assembleB0 A c nf
  (List.range A.bs).mapM (fun r => solveColMajor a0 nd (rhsOf b0 nd r))

/-- one block row of `block_approx_ideal_restriction_pass2` with exact, verified local solves;
`eps` = the literal `1e-15` of the drop test -/
def bairRow (eps : Rat) (A : BMat) (S : Csr) (split : Array Int) (distance c : Nat) :
    Option (List (Nat × List Rat)) :=
  let nf := nbrF S split distance c
  match bairSolve A c nf with
  | some xs =>
    let row := bairAssemble eps A.bs c nf xs
    if bairCheck A nf row then some row else none
  | none => none

/-- all block rows (in the order of `Cpts`); `none` if some local system is singular -/
def bairPass2 (eps : Rat) (A : BMat) (S : Csr) (cpts : Array Nat) (split : Array Int) (distance : Nat) :
    Option (List (List (Nat × List Rat))) :=
  cpts.toList.mapM (fun c => bairRow eps A S split distance c)

end PyamgV.C11XB
