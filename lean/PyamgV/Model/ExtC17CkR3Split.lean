import PyamgV.Model.ExtC17Ck

/-! PyamgV (C17, extension E19, round 3): checked-execution (`Ck`) models of two integer kernels:

* `rs_cf_splitting_pass2` (ruge_stuben.h): the second pass of the Ruge-Stuben splitting; the dependence
  test is the one of `remove_strong_FF_connections` (`ffDep`), run on the *current* splitting; the
  tentative C-point `Cpt0` is loop state,
* `approx_ideal_restriction_pass1` (air.h): the `std::set<I> colinds` is a duplicate-free list (only its
  size is used).

`F_NODE = 0`, `C_NODE = 1`.  Core Lean only. -/
namespace PyamgV.C17
open PyamgV.Ck

/-- the pattern `Sp`, `Sj` as a `Csr` (no values) -/
abbrev patS (n : Nat) (sp sj : Array Int) : Csr Int := ⟨n, sp, sj, sj⟩

/-! ### ruge_stuben.h: `rs_cf_splitting_pass2` -/

/-- the body of `for(jj = Sp[row]; jj < Sp[row+1]; jj++)`; state `(splitting, Cpt0)` -/
def rsP2Entry (n : Nat) (sp sj : Array Int) (s e : Int) (jj : Int) (st : Array Int × Int) :
    Ck (Array Int × Int) := do
  let j ← rd sj jj
  let sjv ← rd st.1 j
  if sjv = 0 then do
    let dep ← ffDep (patS n sp sj) st.1 s e j
    if dep then pure st
    else if st.2 < 0 then do
      -- `Cpt0 = j; splitting[j] = C_NODE;`
      let spl ← wr st.1 j 1
      pure (spl, j)
    else do
      -- `splitting[Cpt0] = F_NODE; Cpt0 = j; splitting[j] = C_NODE;`
      let spl ← wr st.1 st.2 0
      let spl ← wr spl j 1
      pure (spl, j)
  else pure st

/-- `rs_cf_splitting_pass2(n_nodes, Sp, Sj, splitting)`; returns `splitting` -/
def rsPass2 (n : Nat) (sp sj : Array Int) (splitting : Array Int) : Ck (Array Int) :=
  forRange 0 (n : Int) splitting (fun row (spl : Array Int) => do
    let sr ← rd spl row
    if sr = 0 then do
      let s ← rd sp row
      let e ← rd sp (row+1)
      let r ← forRange s e (spl, (-1 : Int)) (rsP2Entry n sp sj s e)
      pure r.1
    else pure spl)

/-! ### air.h: `approx_ideal_restriction_pass1` -/

/-- `colinds.insert(x)` -/
def setIns (l : List Int) (x : Int) : List Int := if l.contains x then l else x :: l

/-- the distance-two loop `for(kk = Cp[this_point]; kk < Cp[this_point+1]; kk++) if(splitting[Cj[kk]] == F_NODE) colinds.insert(Cj[kk])` -/
def airP1Dist2 (cp cj splitting : Array Int) (tp : Int) (set : List Int) : Ck (List Int) := do
  let s2 ← rd cp tp
  let e2 ← rd cp (tp+1)
  forRange s2 e2 set (fun kk (set : List Int) => do
    let c ← rd cj kk
    let sc ← rd splitting c
    if sc = 0 then pure (setIns set c) else pure set)

/-- one row of `R`: the number of distinct strongly connected F-points (distance one or two) of C-point `cpoint` -/
def airP1Row (cp cj splitting : Array Int) (distance : Int) (cpoint : Int) : Ck (List Int) := do
  let s ← rd cp cpoint
  let e ← rd cp (cpoint+1)
  forRange s e ([] : List Int) (fun i (set : List Int) => do
    let tp ← rd cj i
    let stp ← rd splitting tp
    if stp = 0 then do
      let set := setIns set tp
      if distance = 2 then airP1Dist2 cp cj splitting tp set else pure set
    else pure set)

/-- `approx_ideal_restriction_pass1(Rp, Cp, Cj, Cpts, splitting, distance)`; returns `Rp` -/
def airPass1 (rp cp cj cpts splitting : Array Int) (distance : Int) : Ck (Array Int) := do
  let rp ← wr rp 0 0
  let r ← forRange 0 (cpts.size : Int) (rp, (0 : Int)) (fun row (st : Array Int × Int) => do
    let cpoint ← rd cpts row
    let colinds ← airP1Row cp cj splitting distance cpoint
    let nnz := st.2 + (colinds.length : Int) + 1
    let rp ← wr st.1 (row+1) nnz
    pure (rp, nnz))
  pure r.1

end PyamgV.C17
