/-! PyamgV (extension E43, properties C06/C07): complex scalars as **pairs `(re, im)` over a scalar type `F`**
(`CP F`), with the arithmetic of `std::complex` / NumPy in exact arithmetic: `a / b = a · conj b / |b|²`.
The driver instantiates `F = Float` (binary64), the theorems of `Proofs/ExtCG*.lean` take `F` an ordered field with
an exact square root.  Import-free. -/
namespace PyamgV.ExtCG

structure CP (F : Type) where
  re : F
  im : F
deriving DecidableEq, Repr, Inhabited

namespace CP
variable {F : Type}

instance [Add F] : Add (CP F) := ⟨fun a b => ⟨a.re + b.re, a.im + b.im⟩⟩
instance [Sub F] : Sub (CP F) := ⟨fun a b => ⟨a.re - b.re, a.im - b.im⟩⟩
instance [Neg F] : Neg (CP F) := ⟨fun a => ⟨-a.re, -a.im⟩⟩
instance [Add F] [Sub F] [Mul F] : Mul (CP F) :=
  ⟨fun a b => ⟨a.re * b.re - a.im * b.im, a.re * b.im + a.im * b.re⟩⟩
/-- `|a|²` -/
def normSq [Add F] [Mul F] (a : CP F) : F := a.re * a.re + a.im * a.im
instance [Add F] [Sub F] [Mul F] [Div F] : Div (CP F) :=
  ⟨fun a b => ⟨(a.re * b.re + a.im * b.im) / normSq b, (a.im * b.re - a.re * b.im) / normSq b⟩⟩
instance [OfNat F 0] : OfNat (CP F) 0 := ⟨⟨0, 0⟩⟩
instance [OfNat F 0] [OfNat F 1] : OfNat (CP F) 1 := ⟨⟨1, 0⟩⟩
instance [OfNat F 0] [OfNat F 2] : OfNat (CP F) 2 := ⟨⟨2, 0⟩⟩

/-- complex conjugate -/
def conj [Neg F] (a : CP F) : CP F := ⟨a.re, -a.im⟩
/-- a real number as a complex one -/
def ofRe [OfNat F 0] (x : F) : CP F := ⟨x, 0⟩
/-- the square root of the real part, as a complex number: what `norm(v)` = `sqrt(real(<v, v>))` stores into a
complex array -/
def sqrtRe [OfNat F 0] (sqrt : F → F) (a : CP F) : CP F := ⟨sqrt a.re, 0⟩
/-- the modulus `np.abs(a)` -/
def mod [Add F] [Mul F] (sqrt : F → F) (a : CP F) : F := sqrt (normSq a)

end CP

/-- `a != 0` for a binary64 pair -/
def nzFloat (a : CP Float) : Bool := a.re != 0 || a.im != 0

end PyamgV.ExtCG
