/-! PyamgV: executable models of strength / interpolation / pairwise / Bellman–Ford kernels over `Rat`. -/
namespace PyamgV.N

@[inline] def rdN (a : Array Nat) (i : Nat) : Nat := a.getD i 0
@[inline] def rdI (a : Array Int) (i : Nat) : Int := a.getD i 0
@[inline] def wrI (a : Array Int) (i : Nat) (v : Int) : Array Int := a.setIfInBounds i v
@[inline] def rdQ (a : Array Rat) (i : Nat) : Rat := a.getD i 0

structure Csr where
  n : Nat
  ap : Array Nat
  aj : Array Nat
  ax : Array Rat

def Csr.jjs (A : Csr) (i : Nat) : List Nat := List.range' (rdN A.ap i) (rdN A.ap (i+1) - rdN A.ap i)
def absQ (q : Rat) : Rat := if q < 0 then -q else q

/-- output CSR built row by row -/
structure Out where
  sp : Array Nat := #[0]
  sj : Array Nat := #[]
  sx : Array Rat := #[]

/-- `classical_strength_of_connection_abs`; `tiny` models `numeric_limits<F>::min()` -/
def classicalAbs (tiny θ : Rat) (A : Csr) : Out :=
  (List.range A.n).foldl (fun (o : Out) i =>
    let mx := (A.jjs i).foldl (fun m jj => if rdN A.aj jj ≠ i then max m (absQ (rdQ A.ax jj)) else m) tiny
    let thr := θ * mx
    let o := (A.jjs i).foldl (fun (o : Out) jj =>
      let j := rdN A.aj jj
      let v := rdQ A.ax jj
      let o := if absQ v ≥ thr ∧ j ≠ i then { o with sj := o.sj.push j, sx := o.sx.push v } else o
      if j = i then { o with sj := o.sj.push j, sx := o.sx.push v } else o) o
    { o with sp := o.sp.push o.sj.size }) {}

/-- `classical_strength_of_connection_min` -/
def classicalMin (θ : Rat) (A : Csr) : Out :=
  (List.range A.n).foldl (fun (o : Out) i =>
    let mx := (A.jjs i).foldl (fun m jj => if rdN A.aj jj ≠ i then max m (-(rdQ A.ax jj)) else m) 0
    let thr := θ * mx
    let o := (A.jjs i).foldl (fun (o : Out) jj =>
      let j := rdN A.aj jj
      let v := rdQ A.ax jj
      let o := if -v ≥ thr ∧ j ≠ i then { o with sj := o.sj.push j, sx := o.sx.push v } else o
      if j = i then { o with sj := o.sj.push j, sx := o.sx.push v } else o) o
    { o with sp := o.sp.push o.sj.size }) {}

/-- `symmetric_strength_of_connection` (real data): duplicates on the diagonal are summed -/
def symmetricSoc (θ : Rat) (A : Csr) : Out :=
  let diags : Array Rat := (Array.range A.n).map (fun i =>
    absQ ((A.jjs i).foldl (fun d jj => if rdN A.aj jj = i then d + rdQ A.ax jj else d) 0))
  (List.range A.n).foldl (fun (o : Out) i =>
    let eps := θ * θ * rdQ diags i
    let o := (A.jjs i).foldl (fun (o : Out) jj =>
      let j := rdN A.aj jj
      let v := rdQ A.ax jj
      if i = j then { o with sj := o.sj.push j, sx := o.sx.push v }
      else if v * v ≥ eps * rdQ diags j then { o with sj := o.sj.push j, sx := o.sx.push v }
      else o) o
    { o with sp := o.sp.push o.sj.size }) {}

/-- `rs_direct_interpolation_pass1` + `pass2` (S carries A's values on the strength pattern) -/
def directInterp (A S : Csr) (split : Array Int) : Array Nat × Array Nat × Array (Option Rat) :=
  let n := A.n
  let isC (j : Nat) : Bool := rdI split j = 1
  -- pass 1
  let pp : Array Nat := (List.range n).foldl (fun pp i =>
    let nnz := pp.getD (pp.size - 1) 0
    let add := if isC i then 1 else ((S.jjs i).filter (fun jj => isC (rdN S.aj jj) ∧ rdN S.aj jj ≠ i)).length
    pp.push (nnz + add)) #[0]
  -- coarse numbering
  let cmap : Array Nat := ((List.range n).foldl (fun (acc : Array Nat × Nat) i =>
    (acc.1.push acc.2, acc.2 + (rdI split i).toNat)) (#[], 0)).1
  -- pass 2 (division by zero yields `none`: the C++ produces inf/nan there)
  let (pj, px) := (List.range n).foldl (fun (acc : Array Nat × Array (Option Rat)) i =>
    let (pj, px) := acc
    if isC i then (pj.push (rdN cmap i), px.push (some 1)) else
      let strong := (S.jjs i).filter (fun jj => isC (rdN S.aj jj) ∧ rdN S.aj jj ≠ i)
      let ssn := strong.foldl (fun s jj => if rdQ S.ax jj < 0 then s + rdQ S.ax jj else s) 0
      let ssp := strong.foldl (fun s jj => if rdQ S.ax jj < 0 then s else s + rdQ S.ax jj) 0
      let (san, sap, diag) := (A.jjs i).foldl (fun (t : Rat × Rat × Rat) jj =>
        let v := rdQ A.ax jj
        if rdN A.aj jj = i then (t.1, t.2.1, t.2.2 + v)
        else if v < 0 then (t.1 + v, t.2.1, t.2.2) else (t.1, t.2.1 + v, t.2.2)) (0, 0, 0)
      let diag := if ssp = 0 then diag + sap else diag
      let negc : Option Rat := if ssn = 0 ∨ diag = 0 then none else some (-(san / ssn) / diag)
      let posc : Option Rat := if ssp = 0 then (if diag = 0 then none else some 0)
                               else if diag = 0 then none else some (-(sap / ssp) / diag)
      strong.foldl (fun (acc : Array Nat × Array (Option Rat)) jj =>
        let v := rdQ S.ax jj
        let c := if v < 0 then negc else posc
        (acc.1.push (rdN cmap (rdN S.aj jj)), acc.2.push (c.map (· * v)))) (pj, px)) (#[], #[])
  (pp, pj, px)

/-- `bellman_ford` (distances `none` = +inf); returns (d, m, p) and whether it converged in fuel -/
def bellmanFord (A : Csr) (d : Array (Option Rat)) (m p : Array Int) :
    Array (Option Rat) × Array Int × Array Int × Bool :=
  let pass (s : Array (Option Rat) × Array Int × Array Int × Bool) :=
    (List.range A.n).foldl (fun s i =>
      (A.jjs i).foldl (fun (s : Array (Option Rat) × Array Int × Array Int × Bool) jj =>
        let (d, m, p, _) := s
        let j := rdN A.aj jj
        match d.getD i none with
        | none => s
        | some di =>
          let cand := di + rdQ A.ax jj
          let better := match d.getD j none with | none => true | some dj => cand < dj
          if better then (d.setIfInBounds j (some cand), wrI m j (rdI m i), wrI p j (Int.ofNat i), false) else s) s) s
  let rec go (fuel : Nat) (d : Array (Option Rat)) (m p : Array Int) :=
    match fuel with
    | 0 => (d, m, p, false)
    | fuel+1 =>
      let (d', m', p', done) := pass (d, m, p, true)
      if done then (d', m', p', true) else go fuel d' m' p'
  go (A.n + 2) d m p

end PyamgV.N
