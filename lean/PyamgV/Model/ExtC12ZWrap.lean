import PyamgV.Model.ExtC15Canon
/-! PyamgV (C12, extension E56), executable, core only: the Python WRAPPER `pairwise_aggregation(A, matchings, theta,
norm)` of `pyamg/aggregation/aggregate.py` (CSR input, `compute_P=False`), composed from the models of its parts:

* `matchOnce`   — `classical_strength_of_connection(Ac, theta, block=False, norm)` (`C14.pubClassicalNorm`: kernel,
                  `np.abs`, `scale_rows_by_largest_entry`, `eliminate_zeros`; rows walked in storage order) followed by
                  the kernel `amg_core.pairwise_aggregation` on the arrays of the strength matrix (`ExtPw.pairwise`);
* `tTemp`       — `T_temp = csr_array((ones, Tj - 1, arange(n + 1)), shape = (n, k))` (`Canon.pwT`), resp. the `n x 1`
                  zero matrix when the kernel found no aggregate (`n = 0`);
* `loop`        — the `for i in range(matchings)` loop: `Cpts = new_cpts[:k]` / `Cpts[new_cpts[:k]]`, `T = T_temp` /
                  `T @ T_temp` (`Spmm.mul`: SciPy's `csr_matmat`, raw arrays), the `break`, and the coarse operator
                  `Ac = T_temp.T.tocsr() @ Ac @ T_temp` (`Spmm.transpose`, `Spmm.galerkin`) for `i < matchings - 1`;
* `wrapper`     — the whole call: `(T, Cpts)`; `none` = `matchings = 0` (the code returns `None, None`), a matrix
                  that is not square / not well formed.
`levels` returns, for the same run, the list of the per-level kernel results `(x, y, k)`; `maps` lists the
assignment maps `x - 1` — the objects of `ExtPw.matchChain_fiber`. -/
namespace PyamgV.C12ZW
open PyamgV.Spmm

/-- strength of connection and one kernel call on the level matrix `Ac`: `(x, y[:k], k)` -/
def matchOnce (norm : String) (tiny θ : Rat) (Ac : Csr Rat) : Option (Array Nat × Array Nat × Nat) :=
  let o := C14.rowsToOut (C14.pubClassicalNorm norm tiny θ (Canon.rowsOfCsr Ac))
  ExtPw.pairwise Ac.rows o.1 o.2.1 o.2.2

/-- `T_temp` -/
def tTemp (n k : Nat) (x : Array Nat) : Csr Rat :=
  if k = 0 then ofRows n 1 ((List.range n).map fun _ => []) else Canon.pwT n k x

/-- `Cpts[new_cpts[:k]]` -/
def pickRoots (cp y : Array Nat) : Array Nat := y.map fun r => rdN cp r

/-- the loop body for `i = matchings - (r + 1)`; `T = none` encodes `i = 0` -/
def loop (norm : String) (tiny θ : Rat) : Nat → Csr Rat → Option (Csr Rat × Array Nat) → Option (Csr Rat × Array Nat)
  | 0, _, acc => acc
  | r+1, Ac, acc =>
    match matchOnce norm tiny θ Ac with
    | none => none
    | some (x, y, k) =>
      let Tt := tTemp Ac.rows k x
      let acc' : Csr Rat × Array Nat :=
        match acc with
        | none => (Tt, y)
        | some (T, cp) => (mul T Tt, pickRoots cp y)
      if k = 0 then some acc'
      else if r = 0 then some acc'
      else loop norm tiny θ r (galerkin (transpose Tt) Ac Tt) (some acc')

/-- `pairwise_aggregation(A, matchings, theta, norm)` -> `(T, Cpts)` -/
def wrapper (norm : String) (tiny θ : Rat) (matchings : Nat) (A : Csr Rat) : Option (Csr Rat × Array Nat) :=
  if A.wf ∧ A.rows = A.cols ∧ 0 < matchings then loop norm tiny θ matchings A none else none

/-! ### the per-level kernel results of the same run -/

def levels (norm : String) (tiny θ : Rat) : Nat → Csr Rat → Option (List (Array Nat × Array Nat × Nat))
  | 0, _ => some []
  | r+1, Ac =>
    match matchOnce norm tiny θ Ac with
    | none => none
    | some (x, y, k) =>
      if k = 0 then some [(x, y, k)]
      else if r = 0 then some [(x, y, k)]
      else
        match levels norm tiny θ r (galerkin (transpose (tTemp Ac.rows k x)) Ac (tTemp Ac.rows k x)) with
        | none => none
        | some ls => some ((x, y, k) :: ls)

/-- the assignment maps `Tj = x - 1`, first matching first -/
def maps (ls : List (Array Nat × Array Nat × Nat)) : List (Nat → Nat) :=
  ls.map fun l => fun v => ExtPw.rd l.1 v - 1

end PyamgV.C12ZW
