import PyamgV.Model.KGraph
/-! PyamgV (C18/C13 extension): executable CSR-array models of the remaining graph kernels of
`amg_core/graph.h`: `vertex_coloring_first_fit`, `vertex_coloring_jones_plassmann`,
`vertex_coloring_LDF`, `csr_propagate_max`, `maximal_independent_set_k_parallel`.
Core Lean only.  Weights live in an ordered type `W` (the kernels compare them with `<`, `>`, `==`
and break ties by index); the drivers instantiate `W := Int`.

Modelling conventions: loops with a loop-carried dependency (`first_fit` over the nodes, the mask
of one node, the `(k_max, v_max)` scan of `csr_propagate_max`, the MIS sweep, the outer `while`s) are
literal folds; loops whose iterations are independent (`o_keys[i] = …`, `x[i] = …`, the
`-2 → -1` reset is kept as a fold) are written as tabulations `tab n f` (= `for i < n: a[i] = f i`
into a buffer that is completely overwritten, which is what makes `std::swap(i_*, o_*)` invisible). -/
namespace PyamgV.G

variable {W : Type} [LT W] [DecidableRel (α := W) (· < ·)] [DecidableEq W] [Inhabited W]

/-! ### vertex_coloring_first_fit -/

/-- `for i: if x[i] == -2 then x[i] = -1` -/
def resetF (n : Nat) (x : Array Int) : Array Int :=
  (List.range n).foldl (fun x i => if rdI x i = -2 then wrI x i (-1) else x) x

/-- `std::find(first, last, false) - first` on a predicate: scan `r` positions starting at `c` -/
def ffScan (p : Nat → Bool) : Nat → Nat → Nat
  | 0, c => c
  | r+1, c => if p c then ffScan p r (c+1) else c

/-- `std::find(mask.begin(), mask.end(), false) - mask.begin()` -/
def firstFalse (mask : Array Bool) : Nat := ffScan (fun c => mask.getD c false) mask.size 0

/-- the `std::vector<bool> mask(K,false)` of node `i` after the scan of its row -/
def ffMask (x : Array Int) (K i : Nat) (row : List Nat) : Array Bool :=
  row.foldl (fun (mask : Array Bool) j =>
    if i = j then mask                      -- ignore diagonal
    else if rdI x j < 0 then mask           -- ignore uncolored vertices
    else mask.setIfInBounds (rdI x j).toNat true) (Array.replicate K false)

def firstFit (G : Graph) (K : Nat) (x : Array Int) : Array Int :=
  (List.range G.n).foldl (fun x i =>
    if rdI x i ≠ (K : Int) then x else wrI x i (firstFalse (ffMask x K i (G.row i)))) x

/-- `*std::max_element(x, x + n)` -/
def maxElem (x : Array Int) : Int :=
  (List.range x.size).foldl (fun m i => if m < rdI x i then rdI x i else m) (rdI x 0)

/-! ### the common outer loop of `vertex_coloring_jones_plassmann` / `vertex_coloring_LDF`

`upd x w` is the per-round weight update (`JP`: none; `LDF`: recompute the weights of the uncoloured
nodes); `misParallel … (some 1)` is `maximal_independent_set_parallel(…, -1, K, -2, x, w, max_iters = 1)`.
`none` = fuel exhausted. -/
def parColorLoop (G : Graph) (upd : Array Int → Array W → Array W) :
    Nat → Array Int → Array W → Nat → Nat → Option (Array Int)
  | 0, _, _, _, _ => none
  | f+1, x, w, N, K =>
    if N < G.n then
      let w := upd x w
      let r := misParallel G (-1) (K : Int) (-2) w (some 1) x
      let x := firstFit G K (resetF G.n r.1)
      parColorLoop G upd f x w (N + r.2) (K + 1)
    else some x

/-- `z[i] += Ap[i+1] - Ap[i]` -/
def jpWeights (G : Graph) (z : Array Int) : Array Int :=
  (List.range G.n).foldl (fun z i =>
    z.setIfInBounds i (z.getD i 0 + ((rdN G.ap (i+1) : Int) - (rdN G.ap i : Int)))) z

/-- `vertex_coloring_jones_plassmann`: colours and return value (`max_element`) -/
def coloringJP (G : Graph) (z : Array Int) : Option (Array Int × Int) :=
  (parColorLoop G (fun _ w => w) (G.n + 1) (Array.replicate G.n (-1)) (jpWeights G z) 0 0).map
    (fun x => (x, maxElem x))

/-- LDF: `weights[i] = y[i] + #{uncoloured neighbours j ≠ i}` for the uncoloured `i` -/
def ldfWeights (G : Graph) (y : Array Int) (x : Array Int) (w : Array Int) : Array Int :=
  (List.range G.n).foldl (fun w i =>
    if rdI x i ≠ -1 then w else
      let cnt : Int := (G.row i).foldl (fun (c : Int) j => if rdI x j = -1 ∧ i ≠ j then c + 1 else c) 0
      w.setIfInBounds i (y.getD i 0 + cnt)) w

/-- `vertex_coloring_LDF` -/
def coloringLDF (G : Graph) (y : Array Int) : Option (Array Int × Int) :=
  (parColorLoop G (ldfWeights G y) (G.n + 1) (Array.replicate G.n (-1)) (Array.replicate G.n 0) 0 0).map
    (fun x => (x, maxElem x))

/-! ### csr_propagate_max / maximal_independent_set_k_parallel -/

/-- `for i < n: a[i] = f i` into a fresh (completely overwritten) buffer -/
def tab {α : Type} (n : Nat) (f : Nat → α) : Array α := ((List.range n).map f).toArray

/-- the `(k_max, v_max)` scan of one row of `csr_propagate_max` -/
def propagateRow (keys : Array Nat) (vals : Array W) (i : Nat) (row : List Nat) : Nat × W :=
  row.foldl (fun (acc : Nat × W) j =>
    let kj := keys.getD j 0
    let vj := vals.getD j default
    if kj = acc.1 then acc
    else if vj < acc.2 then acc
    else if acc.2 < vj ∨ kj > acc.1 then (kj, vj)
    else acc) (keys.getD i 0, vals.getD i default)

/-- `csr_propagate_max` followed by the two `std::swap`s -/
def propagateMax (G : Graph) (kv : Array Nat × Array W) : Array Nat × Array W :=
  (tab G.n (fun i => (propagateRow kv.1 kv.2 i (G.row i)).1),
   tab G.n (fun i => (propagateRow kv.1 kv.2 i (G.row i)).2))

def iter {α : Type} (f : α → α) : Nat → α → α
  | 0, a => a
  | k+1, a => iter f k (f a)

/-- loop state at the top of the `for(iter…)` body: `i_keys[i] = i` always holds there -/
structure KState (W : Type) where
  x : Array Int
  active : Array Bool
  vals : Array W

/-- one iteration of the outer loop; the flag is `work_left`. `cast` is the conversion `T → R`. -/
def misKIter (G : Graph) (k : Nat) (cast : Int → W) (y : Array W) (s : KState W) : KState W × Bool :=
  let n := G.n
  let kv := iter (propagateMax G) k (tab n id, s.vals)
  let x := tab n (fun i => if kv.1.getD i 0 = i ∧ s.active.getD i false = true then 1 else rdI s.x i)
  let kv2 := iter (propagateMax G) k (tab n id, tab n (fun i => cast (rdI x i)))
  let hit : Nat → Bool := fun i => decide (kv2.2.getD i default = cast 1)
  (⟨x, tab n (fun i => if hit i then false else s.active.getD i false),
       tab n (fun i => if hit i then cast (-1) else y.getD i default)⟩,
   (List.range n).any (fun i => !hit i))

def misKLoop (G : Graph) (k : Nat) (cast : Int → W) (y : Array W) (maxIters : Option Nat) :
    Nat → Nat → KState W → Option (Array Int)
  | 0, _, _ => none
  | f+1, it, s =>
    if (match maxIters with | some m => decide (it ≥ m) | none => false) then some s.x else
    let r := misKIter G k cast y s
    if r.2 then misKLoop G k cast y maxIters f (it + 1) r.1 else some r.1.x

/-- `maximal_independent_set_k_parallel` (`maxIters = none` is `-1`); `none` = fuel exhausted -/
def misK (G : Graph) (k : Nat) (cast : Int → W) (y : Array W) (maxIters : Option Nat) (fuel : Nat) :
    Option (Array Int) :=
  misKLoop G k cast y maxIters fuel 0
    ⟨tab G.n (fun _ => 0), tab G.n (fun _ => true), tab G.n (fun i => y.getD i default)⟩

end PyamgV.G
