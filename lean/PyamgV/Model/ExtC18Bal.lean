/-! PyamgV (C18 extension E20): executable model of `bellman_ford_balanced` (amg_core/graph.h) and of
the `method='balanced'` branch of `pyamg.graph.bellman_ford`.  Core Lean only.

Conventions
* distances live in `Option Rat` (`none` = `+inf`, the wrapper's initial value); the float tests
  `d[j] - (d[i] + Aij) > 2*tol` and `std::abs(d[i] + Aij - d[j]) < tol` are evaluated with IEEE
  semantics for `+inf` (`inf - x = inf`, `x - inf = -inf`, `inf - inf = NaN`, comparisons with NaN false)
  and exactly on finite values; `tol` is a parameter (the driver passes the exact value of the double `1e-14`).
* the CSR arrays are validated once (`Csr.wf`): every stored position of a row exists and every column
  index is `< n`, the node arrays have length `n`; otherwise the model refuses (`fault`), the C++ would
  read out of bounds.
* the data dependent accesses `s[m[i]]`, `s[m[j]]`, `pc[p[j]]` are *checked*: an index outside the
  array is `fault` (undefined behaviour of the kernel, e.g. `pc[-1]--` when a centre is re-assigned).
* `tooMany` is the kernel's `throw std::runtime_error("too many iterations")` (`++iter > n*n`). -/
namespace PyamgV.Bal

@[inline] def rdN (a : Array Nat) (i : Nat) : Nat := a.getD i 0
@[inline] def rdI (a : Array Int) (i : Nat) : Int := a.getD i 0
@[inline] def wrI (a : Array Int) (i : Nat) (v : Int) : Array Int := a.setIfInBounds i v
@[inline] def rdQ (a : Array Rat) (i : Nat) : Rat := a.getD i 0
@[inline] def rdO (a : Array (Option Rat)) (i : Nat) : Option Rat := a.getD i none
@[inline] def wrO (a : Array (Option Rat)) (i : Nat) (v : Option Rat) : Array (Option Rat) :=
  a.setIfInBounds i v

structure Csr where
  n : Nat
  ap : Array Nat
  aj : Array Nat
  ax : Array Rat

abbrev Edge := Nat × Nat × Rat

def Csr.jjs (A : Csr) (i : Nat) : List Nat := List.range' (rdN A.ap i) (rdN A.ap (i+1) - rdN A.ap i)

/-- stored entries `(i, j, A_ij)` in the order the kernel visits them -/
def Csr.entries (A : Csr) : List Edge :=
  (List.range A.n).flatMap (fun i => (A.jjs i).map (fun jj => (i, rdN A.aj jj, rdQ A.ax jj)))

/-- what the kernel assumes of its CSR input -/
def Csr.wf (A : Csr) : Bool :=
  decide (A.n + 1 ≤ A.ap.size) &&
  (List.range A.n).all (fun i => (A.jjs i).all (fun jj =>
    decide (jj < A.aj.size) && decide (jj < A.ax.size) && decide (rdN A.aj jj < A.n)))

structure St where
  d : Array (Option Rat)
  m : Array Int
  p : Array Int
  pc : Array Int
  s : Array Int

def absQ (q : Rat) : Rat := if q < 0 then -q else q

/-- a C++ index `k` into an array of length `size`: inside the array or undefined behaviour -/
def idx (k : Int) (size : Nat) : Option Nat :=
  if 0 ≤ k ∧ k.toNat < size then some k.toNat else none

/-- `d[j] - (d[i] + Aij) > 2*tol` -/
def test1 (tol : Rat) (di dj : Option Rat) (a : Rat) : Bool :=
  match di, dj with
  | some x, some y => decide (y - (x + a) > 2 * tol)
  | some _, none => true
  | none, _ => false

/-- `std::abs(d[i] + Aij - d[j]) < tol` -/
def close (tol : Rat) (di dj : Option Rat) (a : Rat) : Bool :=
  match di, dj with
  | some x, some y => decide (absQ (x + a - y) < tol)
  | _, _ => false

/-- the tie-breaking test (`none` = out-of-bounds read of `s`) -/
def tieTest (tol : Rat) (tb : Bool) (st : St) (i j : Nat) (a : Rat) : Option Bool :=
  if rdI st.m j > -1 ∧ tb = true then
    if close tol (rdO st.d i) (rdO st.d j) a then
      match idx (rdI st.m i) st.s.size, idx (rdI st.m j) st.s.size with
      | some ki, some kj => some (decide (rdI st.s ki + 1 < rdI st.s kj) && decide (rdI st.pc j = 0))
      | _, _ => none
    else some false
  else some false

/-- `if(m[j] >= 0){ s[m[j]]--; pc[p[j]]--; }` -/
def release (st : St) (j : Nat) : Option St :=
  if rdI st.m j ≥ 0 then
    match idx (rdI st.m j) st.s.size, idx (rdI st.p j) st.pc.size with
    | some kj, some kp =>
      some { st with s := wrI st.s kj (rdI st.s kj - 1), pc := wrI st.pc kp (rdI st.pc kp - 1) }
    | _, _ => none
  else some st

/-- `m[j] = m[i]; d[j] = d[i] + Aij; p[j] = i; s[m[j]]++; pc[p[j]]++;` -/
def assign (st : St) (i j : Nat) (a : Rat) : Option St :=
  match idx (rdI st.m i) st.s.size with
  | some ki =>
    some { d := wrO st.d j ((rdO st.d i).map (· + a)),
           m := wrI st.m j (rdI st.m i),
           p := wrI st.p j (Int.ofNat i),
           s := wrI st.s ki (rdI st.s ki + 1),
           pc := wrI st.pc i (rdI st.pc i + 1) }
  | none => none

/-- body of the inner loop for one stored entry; the flag is `done` -/
def step (tol : Rat) (tb : Bool) (acc : St × Bool) (e : Edge) : Option (St × Bool) :=
  if rdI acc.1.m e.1 < 0 then some acc else
  match tieTest tol tb acc.1 e.1 e.2.1 e.2.2 with
  | none => none
  | some tie =>
    if test1 tol (rdO acc.1.d e.1) (rdO acc.1.d e.2.1) e.2.2 || tie then
      match release acc.1 e.2.1 with
      | none => none
      | some st1 =>
        match assign st1 e.1 e.2.1 e.2.2 with
        | none => none
        | some st2 => some (st2, false)
    else some acc

/-- one sweep over all stored entries, starting with `done = true` -/
def pass (tol : Rat) (tb : Bool) (E : List Edge) (st : St) : Option (St × Bool) :=
  E.foldlM (step tol tb) (st, true)

inductive Res where
  | ok : St → Bool → Res      -- final state and the returned `changed`
  | fault : Res               -- out-of-bounds access
  | tooMany : Res             -- runtime_error("too many iterations")

/-- `do { pass; if(++iter > n*n) throw; } while(!done)`: started with `fuel = n*n`, the pass made
with `fuel = 0` is the `(n*n+1)`-th one and is followed by the `throw` -/
def loop (tol : Rat) (tb : Bool) (E : List Edge) : Nat → St → Bool → Res
  | 0, st, _ =>
    match pass tol tb E st with
    | none => .fault
    | some _ => .tooMany
  | f+1, st, changed =>
    match pass tol tb E st with
    | none => .fault
    | some r => if r.2 then .ok r.1 changed else loop tol tb E f r.1 true

/-- the kernel on given arrays (all node arrays must have length `n`) -/
def kernel (tol : Rat) (tb : Bool) (A : Csr) (st : St) : Res :=
  if A.wf ∧ st.d.size = A.n ∧ st.m.size = A.n ∧ st.p.size = A.n ∧ st.pc.size = A.n then
    loop tol tb A.entries (A.n * A.n) st false
  else .fault

/-! ### the Python wrapper `bellman_ford(G, centers, method='balanced', tiebreaking)` -/

/-- NumPy index normalisation of `distances[centers] = 0` (negative indices wrap once) -/
def normIdx (n : Nat) (c : Int) : Option Nat :=
  if 0 ≤ c then (if c.toNat < n then some c.toNat else none)
  else if 0 ≤ c + n then some (c + n).toNat else none

/-- `nearest[centers] = arange(k)` (a repeated centre keeps the last index) -/
def initM (n : Nat) (cs : List Nat) : Array Int :=
  (cs.zipIdx).foldl (fun m ck => wrI m ck.1 (Int.ofNat ck.2)) (Array.replicate n (-1))

def initD (n : Nat) (cs : List Nat) : Array (Option Rat) :=
  cs.foldl (fun d c => wrO d c (some 0)) (Array.replicate n none)

def initSt (n : Nat) (cs : List Nat) : St :=
  { d := initD n cs, m := initM n cs, p := Array.replicate n (-1),
    pc := Array.replicate n 0, s := Array.replicate cs.length 1 }

inductive WRes where
  | ok : St → WRes
  | valueError : WRes     -- negative weight
  | indexError : WRes     -- centre outside the graph
  | fault : WRes
  | tooMany : WRes

def wrapper (tol : Rat) (tb : Bool) (A : Csr) (centers : List Int) : WRes :=
  if A.ax.any (fun v => decide (v < 0)) then .valueError else
  match centers.mapM (normIdx A.n) with
  | none => .indexError
  | some cs =>
    match kernel tol tb A (initSt A.n cs) with
    | .ok st _ => .ok st
    | .fault => .fault
    | .tooMany => .tooMany

end PyamgV.Bal
