import PyamgV.Model.CRat
/-! PyamgV (C19): executable models of the matrix utilities of `pyamg/util/utils.py` and of the
kernels of `amg_core/linalg.h` / `smoothed_aggregation.h` they call.  Core Lean only.

A compressed matrix is read through `rowsOf`: the list of its *major slices* (rows of a CSR matrix,
columns of a CSC matrix), each the list of stored `(minor index, value)` pairs in storage order.
Unsorted, duplicated, missing and explicitly zero entries are all allowed.  Scalars: any type with
the field operations (`Rat`, Gaussian rationals `CRat`); magnitudes are compared through the squared
modulus `nsq` (exact), which orders like `mynorm`.

* scaling: `scaleMajor` (`csr_scale_rows`, `csc_scale_columns`), `scaleMinor` (`csr_scale_columns`,
  `csc_scale_rows`: `Ax[k] *= Xx[Aj[k]]`), `bsrScaleRows/Cols` (SciPy's BSR loops);
* `diagOf`, `normMajor`, `normMinor`, `invZero` (`get_diagonal`), `symRescale` (`symmetric_rescaling`);
* `filterRowsMax` (`filter_matrix_rows/columns` through `classical_strength_of_connection_abs`
  with the index shift), `filterRowDiag` (`amg_core.filter_matrix_rows`, plain and lumped),
  `qsortTwo` + `truncateRow` (`truncate_rows_csr`);
* dense definitions: `blockDiag`, `Mat.inv`, `Mat.pinv` (rank factorisation, checked against the four
  Penrose equations), `scaleBlockInverse`, `filterOp` (`filter_operator` with the exact local inverse). -/
namespace PyamgV.C19

abbrev RowOf (α : Type) := List (Nat × α)
abbrev Rows (α : Type) := List (RowOf α)

@[inline] def rdN (a : Array Nat) (i : Nat) : Nat := a.getD i 0

section ops
variable {α : Type} [Add α] [Sub α] [Mul α] [Div α] [OfNat α 0] [OfNat α 1] [DecidableEq α]

@[inline] def rd (a : Array α) (i : Nat) : α := a.getD i 0
def sumL (l : List α) : α := l.foldl (· + ·) 0

/-- major slices of a compressed matrix `(ap, aj, ax)` with `n` slices, storage order -/
def rowsOf (n : Nat) (ap aj : Array Nat) (ax : Array α) : Rows α :=
  (List.range n).map fun i =>
    (List.range' (rdN ap i) (rdN ap (i+1) - rdN ap i)).map fun jj => (rdN aj jj, rd ax jj)

/-- the data array of a list of slices (storage order) -/
def dataOf (rows : Rows α) : List α := rows.flatMap fun r => r.map (·.2)
def idxOf (rows : Rows α) : List Nat := rows.flatMap fun r => r.map (·.1)
def ptrOf (rows : Rows α) : List Nat := rows.foldl (fun p r => p ++ [p.getLastD 0 + r.length]) [0]

/-! ### scaling -/

/-- `for i: for jj in Ap[i]..Ap[i+1]: Ax[jj] *= Xx[i]` (`csr_scale_rows`, `csc_scale_columns`) -/
def scaleMajor (v : Array α) (rows : Rows α) : Rows α :=
  rows.mapIdx fun i r => r.map fun cv => (cv.1, cv.2 * rd v i)

/-- `for k < nnz: Ax[k] *= Xx[Aj[k]]` (`csr_scale_columns`, `csc_scale_rows`) -/
def scaleMinor (v : Array α) (rows : Rows α) : Rows α :=
  rows.map fun r => r.map fun cv => (cv.1, cv.2 * rd v cv.1)

/-- block rows of a BSR matrix: `(block column, block data (R*C, row major))` -/
abbrev BRows (α : Type) := List (List (Nat × Array α))

def bRowsOf (nb rc : Nat) (ap aj : Array Nat) (ax : Array α) : BRows α :=
  (List.range nb).map fun i =>
    (List.range' (rdN ap i) (rdN ap (i+1) - rdN ap i)).map fun jj =>
      (rdN aj jj, (Array.range rc).map fun t => rd ax (jj * rc + t))

/-- SciPy `bsr_scale_rows`: row `bi` of every block in block row `i` times `Xx[R*i + bi]` -/
def bsrScaleRows (R C : Nat) (v : Array α) (b : BRows α) : BRows α :=
  b.mapIdx fun i r => r.map fun jb =>
    (jb.1, (Array.range (R * C)).map fun t => rd jb.2 t * rd v (R * i + t / C))

/-- SciPy `bsr_scale_columns`: column `bj` of the block in block column `j` times `Xx[C*j + bj]` -/
def bsrScaleCols (R C : Nat) (v : Array α) (b : BRows α) : BRows α :=
  b.map fun r => r.map fun jb =>
    (jb.1, (Array.range (R * C)).map fun t => rd jb.2 t * rd v (C * jb.1 + t % C))

def bDataOf (b : BRows α) : List α := b.flatMap fun r => r.flatMap fun jb => jb.2.toList

/-- scalar rows of a BSR matrix (block row `i`, inner row `bi` -> row `R*i + bi`) -/
def bsrExpand (R C : Nat) (b : BRows α) : Rows α :=
  b.flatMap fun r => (List.range R).map fun bi =>
    r.flatMap fun jb => (List.range C).map fun bj => (C * jb.1 + bj, rd jb.2 (C * bi + bj))

/-! ### diagonals -/

/-- the matrix entry `(slice, j)`: stored duplicates are summed -/
def entry (r : RowOf α) (j : Nat) : α := sumL ((r.filter (·.1 = j)).map (·.2))

/-- `A.diagonal()` -/
def diagOf (k : Nat) (rows : Rows α) : List α := (List.range k).map fun i => entry (rows.getD i []) i

/-- `diag(A A^H)` of a CSR matrix with `m` columns (`diag(A^H A)` of a CSC matrix with `m` rows):
per slice `sum_{j<m} |a_j|^2`, `a_j` the matrix entry -/
def normMajor (nsq : α → α) (m : Nat) (rows : Rows α) : List α :=
  rows.map fun r => sumL ((List.range m).map fun j => nsq (entry r j))

/-- `diag(A^H A)` of a CSR matrix (`diag(A A^H)` of a CSC matrix): per minor index `sum_i |a_ij|^2` -/
def normMinor (nsq : α → α) (m : Nat) (rows : Rows α) : List α :=
  (List.range m).map fun j => sumL (rows.map fun r => nsq (entry r j))

/-- `Dinv[D != 0] = 1 / D[D != 0]`, zero elsewhere -/
def invZero (d : List α) : List α := d.map fun x => if x = 0 then 0 else 1 / x

/-- all entries present, or nothing -/
def allSome : List (Option α) → Option (List α)
  | [] => some []
  | none :: _ => none
  | some x :: l => match allSome l with | none => none | some t => some (x :: t)

/-- `D_sqrt_inv`: `1/s` where `d != 0`, zero elsewhere -/
def sqrtInv (d s : List α) : List α := (d.zip s).map fun ds => if ds.1 = 0 then 0 else 1 / ds.2

/-- `symmetric_rescaling`: `s = sqrt(|d|)` (complex: `sqrt(d)`), `sinv = 1/s` where `d != 0`, rows then
columns scaled by `sinv`; `sqrt?` rejects a diagonal entry without an exact root -/
def symRescale (sqrt? : α → Option α) (n : Nat) (rows : Rows α) : Option (List α × List α × Rows α) :=
  match allSome ((diagOf n rows).map sqrt?) with
  | none => none
  | some s =>
    let sinv := sqrtInv (diagOf n rows) s
    some (s, sinv, scaleMinor sinv.toArray (scaleMajor sinv.toArray rows))

/-! ### filters and truncation (`nsq` = squared modulus, values in `Rat`) -/

/-- `classical_strength_of_connection_abs` on slice `i` whose minor indices were shifted by `shift`
(so that no entry is "diagonal"), then shifted back: keep `|a| >= theta * max |a|`.  The kernel's
`numeric_limits::min()` start value of the maximum is taken as `0` (it only decides whether explicit
zeros of an all-zero slice are stored) -/
def socAbsRow (nsq : α → Rat) (θ : Rat) (shift i : Nat) (r : RowOf α) : RowOf α :=
  let r := r.map fun cv => (cv.1 + shift, cv.2)
  let mx := r.foldl (fun m cv => if cv.1 ≠ i then max m (nsq cv.2) else m) 0
  let thr := θ * θ * mx
  let out := r.foldl (fun out cv =>
    let out := if nsq cv.2 ≥ thr ∧ cv.1 ≠ i then out ++ [cv] else out
    if cv.1 = i then out ++ [cv] else out) []
  out.map fun cv => (cv.1 - shift, cv.2)

/-- `filter_matrix_rows(A, theta)` on the CSR slices / `filter_matrix_columns` on the CSC slices:
`shift` = number of slices -/
def filterRowsMax (nsq : α → Rat) (θ : Rat) (rows : Rows α) : Rows α :=
  rows.mapIdx fun i r => socAbsRow nsq θ rows.length i r

/-- `amg_core.filter_matrix_rows` on row `i`: threshold `theta * |first stored diagonal entry|`
(`0` when the row stores none); entries below it are zeroed, or (lump) added to that diagonal entry -/
def filterRowDiag (nsq : α → Rat) (θ : Rat) (lump : Bool) (i : Nat) (r : RowOf α) : RowOf α :=
  let dpos := r.findIdx? (·.1 = i)
  let dsq : Rat := match dpos with | none => 0 | some k => nsq ((r.getD k (0, 0)).2)
  let thr := θ * θ * dsq
  if lump then
    match dpos with
    | none => r
    | some k =>
      let s := sumL ((r.filter fun cv => nsq cv.2 < thr ∧ cv.1 ≠ i).map (·.2))
      let z := r.map fun cv => if nsq cv.2 < thr ∧ cv.1 ≠ i then (cv.1, (0 : α)) else cv
      z.modify k fun cv => (cv.1, cv.2 + s)
  else r.map fun cv => if nsq cv.2 < thr then (cv.1, (0 : α)) else cv

def filterRowsDiag (nsq : α → Rat) (θ : Rat) (lump : Bool) (rows : Rows α) : Rows α :=
  rows.mapIdx fun i r => filterRowDiag nsq θ lump i r

def swapA (a : Array (Nat × α)) (i j : Nat) : Array (Nat × α) :=
  let x := a.getD i (0, 0)
  let y := a.getD j (0, 0)
  (a.setIfInBounds i y).setIfInBounds j x

/-- `qsort_twoarrays(x, y, left, right)` (ascending `mynorm`), literally; `fuel` bounds the depth -/
def qsortTwo (nsq : α → Rat) : Nat → Array (Nat × α) → Int → Int → Array (Nat × α)
  | 0, a, _, _ => a
  | fuel + 1, a, left, right =>
    if left ≥ right then a else
    let l := left.toNat
    let r := right.toNat
    let a := swapA a l ((l + r) / 2)
    let st := (List.range' (l + 1) (r - l)).foldl (fun (st : Array (Nat × α) × Nat) i =>
      if nsq (st.1.getD i (0, 0)).2 < nsq (st.1.getD l (0, 0)).2 then (swapA st.1 (st.2 + 1) i, st.2 + 1) else st) (a, l)
    let a := swapA st.1 l st.2
    let a := qsortTwo nsq fuel a left ((st.2 : Int) - 1)
    qsortTwo nsq fuel a ((st.2 : Int) + 1) right

/-- `truncate_rows_csr` on one row: rows longer than `k` are sorted and all but the last `k` zeroed -/
def truncateRow (nsq : α → Rat) (k : Nat) (r : RowOf α) : RowOf α :=
  if r.length > k then
    let a := qsortTwo nsq (r.length + 1) r.toArray 0 ((r.length : Int) - 1)
    a.toList.mapIdx fun t cv => if t < r.length - k then (cv.1, (0 : α)) else cv
  else r

def truncateRows (nsq : α → Rat) (k : Nat) (rows : Rows α) : Rows α := rows.map (truncateRow nsq k)

/-- the array `truncate_rows_csr` zeroes the head of: the row after `qsort_twoarrays` -/
def sortedRow (nsq : α → Rat) (r : RowOf α) : RowOf α :=
  (qsortTwo nsq (r.length + 1) r.toArray 0 ((r.length : Int) - 1)).toList

/-- per-instance certificate for a long row: the sort returned a permutation of the stored entries,
and every entry in the zeroed head is at most as large as every entry of the kept tail -/
def truncCheck (nsq : α → Rat) (k : Nat) (r : RowOf α) : Bool :=
  if r.length > k then
    let a := sortedRow nsq r
    a.isPerm r && (List.range (r.length - k)).all fun t => (List.range' (r.length - k) k).all fun u =>
      decide (nsq (a.getD t (0, 0)).2 ≤ nsq (a.getD u (0, 0)).2)
  else true

/-! ### dense definitions -/

abbrev Mat (α : Type) := Array (Array α)

def Mat.get (M : Mat α) (i j : Nat) : α := (M.getD i #[]).getD j 0
def Mat.ofFn (r c : Nat) (f : Nat → Nat → α) : Mat α :=
  (Array.range r).map fun i => (Array.range c).map fun j => f i j
def Mat.rows (M : Mat α) : Nat := M.size
def Mat.cols (M : Mat α) : Nat := (M.getD 0 #[]).size
def Mat.mul (A B : Mat α) : Mat α :=
  Mat.ofFn A.rows B.cols fun i j => sumL ((List.range A.cols).map fun k => A.get i k * B.get k j)
def Mat.sub (A B : Mat α) : Mat α := Mat.ofFn A.rows A.cols fun i j => A.get i j - B.get i j
def Mat.ctrans (conj : α → α) (A : Mat α) : Mat α := Mat.ofFn A.cols A.rows fun i j => conj (A.get j i)
def Mat.flat (M : Mat α) : Array α := M.foldl (· ++ ·) #[]
def Mat.unflat (r c : Nat) (a : Array α) : Mat α := Mat.ofFn r c fun i j => a.getD (i * c + j) 0
def Mat.one (n : Nat) : Mat α := Mat.ofFn n n fun i j => if i = j then 1 else 0

/-- Gauss-Jordan reduction of `[M | E]` (first non-zero pivot of each column); returns the reduced
augmented matrix and the pivot columns -/
def Mat.rref (M : Mat α) (w : Nat) : Mat α × List Nat :=
  let n := M.rows
  let res := (List.range w).foldl (fun (st : Mat α × Nat × List Nat) c =>
    let (A, rk, piv) := st
    match (List.range' rk (n - rk)).find? (fun r => A.get r c ≠ 0) with
    | none => st
    | some p =>
      let rowp := A.getD p #[]
      let rowk := A.getD rk #[]
      let A : Mat α := (A.setIfInBounds p rowk).setIfInBounds rk rowp
      let pv := A.get rk c
      let rc := (A.getD rk #[]).map fun v => v / pv
      let A : Mat α := (Array.range n).map fun r =>
        if r = rk then rc else
          let f := A.get r c
          (Array.range rc.size).map fun j => A.get r j - f * rc.getD j 0
      (A, rk + 1, piv ++ [c])) (M, 0, [])
  (res.1, res.2.2)

/-- exact inverse, `none` when singular -/
def Mat.inv (M : Mat α) : Option (Mat α) :=
  let n := M.rows
  let aug : Mat α := Mat.ofFn n (2 * n) fun i j => if j < n then M.get i j else if j - n = i then 1 else 0
  let (A, piv) := Mat.rref aug n
  if piv.length = n then some (Mat.ofFn n n fun i j => A.get i (n + j)) else none

/-- the four Penrose equations (decided entry by entry) -/
def Mat.isPenrose (conj : α → α) (A X : Mat α) : Bool :=
  let AX := Mat.mul A X
  let XA := Mat.mul X A
  decide (Mat.mul AX A = A) && decide (Mat.mul XA X = X) &&
  decide (Mat.ctrans conj AX = AX) && decide (Mat.ctrans conj XA = XA)

/-- candidate for the Moore-Penrose inverse by the rank factorisation `A = C F` (`C` = pivot columns,
`F` = non-zero rows of the reduced echelon form): `F^H (F F^H)^-1 (C^H C)^-1 C^H` (zero for `A = 0`) -/
def Mat.pinvCand (conj : α → α) (A : Mat α) : Option (Mat α) :=
  let n := A.rows
  let m := A.cols
  let (E, piv) := Mat.rref A m
  let r := piv.length
  if r = 0 then some (Mat.ofFn m n fun _ _ => 0) else
  let C : Mat α := Mat.ofFn n r fun i k => A.get i (piv.getD k 0)
  let F : Mat α := Mat.ofFn r m fun k j => E.get k j
  let Ch := Mat.ctrans conj C
  let Fh := Mat.ctrans conj F
  match Mat.inv (Mat.mul F Fh), Mat.inv (Mat.mul Ch C) with
  | some G1, some G2 => some (Mat.mul (Mat.mul Fh G1) (Mat.mul G2 Ch))
  | _, _ => none

/-- Moore-Penrose inverse: the candidate, returned only if it passes the four Penrose equations -/
def Mat.pinv (conj : α → α) (A : Mat α) : Option (Mat α) :=
  match Mat.pinvCand conj A with
  | some X => if Mat.isPenrose conj A X then some X else none
  | none => none

/-- `get_block_diag(A, bs, inv_flag=False)`: diagonal blocks of a dense `n x n` matrix -/
def blockDiag (bs : Nat) (A : Mat α) : List (Mat α) :=
  (List.range (A.rows / bs)).map fun k => Mat.ofFn bs bs fun a b => A.get (k * bs + a) (k * bs + b)

/-- `get_block_diag(A, bs, inv_flag=True)`: their Moore-Penrose inverses -/
def blockDiagInv (conj : α → α) (bs : Nat) (A : Mat α) : Option (List (Mat α)) :=
  (blockDiag bs A).mapM (Mat.pinv conj)

/-- `scale_block_inverse`: `(D^+ A, D^+)` with `D^+` the block-diagonal matrix of the inverses -/
def scaleBlockInverse (conj : α → α) (bs : Nat) (A : Mat α) : Option (Mat α × Mat α) := do
  let bl ← blockDiagInv conj bs A
  let n := A.rows
  let D : Mat α := Mat.ofFn n n fun i j =>
    if i / bs = j / bs then (bl.getD (i / bs) #[]).get (i % bs) (j % bs) else 0
  some (Mat.mul D A, D)

/-- block-row pattern: `pat[i]` = block columns stored in block row `i` of `C` -/
abbrev Pat := Array (Array Nat)

/-- `filter_operator(A, C, B, Bf)` on dense data: entries outside the block pattern dropped; then on
every block row `A_i <- A_i - (A_i B - Bf_i) inv(B_J^H B_J) B_J^H` on the pattern columns `J`.  Block
rows whose local Gram matrix is singular are returned masked but uncorrected and flagged `false`
(the code uses a pseudo-inverse there; the property does not constrain those rows) -/
def filterOp (conj : α → α) (rpb cpb nd : Nat) (pat : Pat) (A B Bf : Mat α) : Mat α × List Bool :=
  let Am : Mat α := Mat.ofFn A.rows A.cols fun i j =>
    if (pat.getD (i / rpb) #[]).contains (j / cpb) then A.get i j else 0
  let Y := Mat.sub (Mat.mul Am B) Bf
  (List.range pat.size).foldl (fun (st : Mat α × List Bool) ib =>
    let J := (pat.getD ib #[]).toList.eraseDups
    let cols := J.flatMap fun jb => (List.range cpb).map fun s => jb * cpb + s
    if cols.isEmpty then (st.1, st.2 ++ [false]) else
    let G : Mat α := Mat.ofFn nd nd fun a b => sumL (cols.map fun c => conj (B.get c a) * B.get c b)
    match Mat.inv G with
    | none => (st.1, st.2 ++ [false])
    | some Z =>
      let M := (List.range rpb).foldl (fun (M : Mat α) t =>
        let i := ib * rpb + t
        let yz : Array α := (Array.range nd).map fun b => sumL ((List.range nd).map fun a => Y.get i a * Z.get a b)
        let row := cols.foldl (fun (row : Array α) c =>
          row.setIfInBounds c (row.getD c 0 - sumL ((List.range nd).map fun b => yz.getD b 0 * conj (B.get c b)))) (M.getD i #[])
        M.setIfInBounds i row) st.1
      (M, st.2 ++ [true])) (Am, [])

end ops

/-! ### scalar instances -/

def nsqQ (q : Rat) : Rat := q * q
def absQ (q : Rat) : Rat := if q < 0 then -q else q

def natSqrtGo (n : Nat) : Nat → Nat → Nat
  | 0, x => x
  | fuel + 1, x =>
    let y := (x + n / x) / 2
    if y ≥ x then x else natSqrtGo n fuel y

/-- integer square root (Newton, from above) -/
def natSqrt (n : Nat) : Nat := if n < 2 then n else natSqrtGo n (n.log2 + 8) n

/-- exact rational square root of a non-negative rational, if it has one -/
def ratSqrt? (q : Rat) : Option Rat :=
  if q < 0 then none else
  let a := natSqrt q.num.toNat
  let b := natSqrt q.den
  if a * a = q.num.toNat ∧ b * b = q.den then some ((a : Rat) / (b : Rat)) else none

/-- real `symmetric_rescaling`: `sqrt(abs(d))` -/
def sqrtAbsQ? (q : Rat) : Option Rat := ratSqrt? (absQ q)

/-- principal complex square root of a Gaussian rational, if it is one -/
def csqrt? (z : CRat) : Option CRat := do
  let m ← ratSqrt? (CRat.normSq z)
  let x ← ratSqrt? ((m + z.re) / 2)
  let y ← ratSqrt? ((m - z.re) / 2)
  some ⟨x, if z.im < 0 then -y else y⟩

def cnsq (z : CRat) : CRat := ⟨CRat.normSq z, 0⟩

end PyamgV.C19
