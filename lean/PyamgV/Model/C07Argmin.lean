import PyamgV.Model.C07Krylov
/-! PyamgV (C07): the *specification-level* minimiser, computed without any Krylov recurrence.

For a Hermitian positive definite Gram matrix `G`, a list of spanning vectors `v_0 … v_{k-1}`
(a power basis of the Krylov space), a target `t` and a start `x0`, `argmins` returns, for every
`j = 1 … k`, the point `y_j ∈ x0 + span{v_0 … v_{j-1}}` that minimises `(t − y)ᴴ G (t − y)`:
exact `G`-orthogonal projection over the field (no square roots), dependent vectors are skipped.
`checkCert` re-checks the result against the *definition* of the minimiser (Galerkin condition:
`G (t − y_j)` is orthogonal to every `v_i`, `i < j`) exactly; the driver reports it.
`solve` is Gauss–Jordan elimination (exact solution `xs` of `A x = b`).  Core Lean only. -/
namespace PyamgV.C07

section
variable {K : Type} [Add K] [Sub K] [Mul K] [Div K] [OfNat K 0] [DecidableEq K]

def matMul (A B : List (List K)) (n : Nat) : List (List K) :=
  let BT := ctrans (fun x => x) n B
  A.map (fun row => BT.map (fun col => dotu row col))

/-- Gauss–Jordan elimination with the first non-zero pivot; `none` when singular -/
def solve (n : Nat) (A : List (List K)) (b : List K) : Option (List K) := Id.run do
  let mut m : Array (Array K) := (List.zipWith (fun row bi => (row ++ [bi]).toArray) A b).toArray
  for c in [0:n] do
    let mut piv : Option Nat := none
    for r in [c:n] do
      if piv.isNone && (m.getD r #[]).getD c 0 != 0 then piv := some r
    match piv with
    | none => return none
    | some pr =>
      let rowP := m.getD pr #[]
      let rowC := m.getD c #[]
      m := (m.setIfInBounds pr rowC).setIfInBounds c rowP
      let d := rowP.getD c 0
      let rowN := rowP.map (· / d)
      m := m.setIfInBounds c rowN
      for r in [0:n] do
        if r != c then
          let row := m.getD r #[]
          let f := row.getD c 0
          if f != 0 then
            m := m.setIfInBounds r (Array.zipWith (fun a p => a - f * p) row rowN)
  return some (m.toList.map (fun row => row.getD n 0))

variable (conj : K → K)

/-- `uᴴ G v` -/
def gdot (G : List (List K)) (u v : List K) : K := dotc conj u (mv G v)

/-- successive minimisers `y_1 … y_k` over `x0 + span{v_0 … v_{j-1}}` of `(t−y)ᴴ G (t−y)`, each with its
coefficient list `d` (`y_j = x0 + Σ_i d_i v_i`, length `k`, zero from position `j` on) -/
def argmins (one : K) (G : List (List K)) (basis : List (List K)) (t x0 : List K) : List (List K × List K) :=
  let k := basis.length
  let unit := fun (j : Nat) => (List.range k).map (fun i => if i = j then one else 0)
  let rec go (vs : List (List K)) (ws : List (List K × K × List K)) (y d : List K) (j : Nat) :
      List (List K × List K) :=
    match vs with
    | [] => []
    | v :: rest =>
      let wa := ws.foldl (fun (acc : List K × List K) (wga : List K × K × List K) =>
        let μ := gdot conj G wga.1 v / wga.2.1
        (vsub acc.1 (vsmul μ wga.1), vsub acc.2 (vsmul μ wga.2.2))) (v, unit j)
      let w := wa.1
      let g := gdot conj G w w
      if g = 0 then (y, d) :: go rest ws y d (j + 1)
      else
        let c := gdot conj G w (vsub t y) / g
        let y' := vadd y (vsmul c w)
        let d' := vadd d (vsmul c wa.2)
        (y', d') :: go rest (ws ++ [(w, g, wa.2)]) y' d' (j + 1)
  go basis [] x0 ((List.range k).map (fun _ => 0)) 0

/-- `x0 + Σ_i d_i v_i` -/
def combL : List K → List K → List (List K) → List K
  | x, c :: cs, v :: vs => combL (vadd x (vsmul c v)) cs vs
  | x, _, _ => x

/-- the definition of the minimiser, checked exactly: `y_j = x0 + Σ_{i<j} d_i v_i` and
`⟨v_i, t − y_j⟩_G = 0` for all `i < j` -/
def checkCert (G : List (List K)) (basis : List (List K)) (t x0 : List K) (yds : List (List K × List K)) : Bool :=
  (List.range yds.length).all (fun j =>
    let yd := yds.getD j ([], [])
    (combL x0 (yd.2.take (j + 1)) (basis.take (j + 1)) == yd.1) &&
    (basis.take (j + 1)).all (fun v => gdot conj G v (vsub t yd.1) == 0))

/-- power basis `g, B g, …, B^{k-1} g` mapped by `P` -/
def powerBasis (B P : List K → List K) (g : List K) : Nat → List (List K)
  | 0 => []
  | k+1 => P g :: powerBasis B P (B g) k

structure ArgRes (K : Type) where
  xs : List K
  ys : List (List K)
  /-- coefficients of `y_j − x0` in the power basis -/
  ds : List (List K)
  /-- Gram matrix and power basis used (for the verified re-check `certV`) -/
  G : List (List K)
  basis : List (List K)
  cert : Bool
  /-- value of the minimised quantity at `x0`, `y_1 … y_k` -/
  vals : List K

/-- the minimisers promised by the theory of each method, for `j = 1 … k`:
* `cg`   : energy norm of the error over `x0 + K_j(MA, M r0)`                     (`G = A`)
* `gmres`: 2-norm of the preconditioned residual `M(b − Ay)` over the same space   (`G = (MA)ᴴ MA`)
* `res`  : 2-norm of the residual over `x0 + K_j(MA, M r0) = x0 + M K_j(AM, r0)` (`G = AᴴA`)
           -- fgmres, cr
* `cgnr` : 2-norm of the residual over `x0 + K_j(M AᴴA, M Aᴴ r0)`                (`G = AᴴA`)
* `cgne` : 2-norm of the error over `x0 + Aᴴ K_j(M A Aᴴ, M r0)`                  (`G = I`) -/
def krylovArgmin (kind : String) (A M : List (List K)) (one : K) (b x0 : List K) (k : Nat) :
    Option (ArgRes K) :=
  let n := b.length
  match solve n A b with
  | none => none
  | some xs =>
    let AH := ctrans conj n A
    let r0 := vsub b (mv A x0)
    let MA := fun v => mv M (mv A v)
    let I : List (List K) := (List.range n).map (fun i => (List.range n).map (fun j => if i = j then one else 0))
    let sel : Option (List (List K) × List (List K)) :=
      match kind with
      | "cg" => some (A, powerBasis MA id (mv M r0) k)
      | "gmres" =>
        let B := matMul M A n
        some (matMul (ctrans conj n B) B n, powerBasis MA id (mv M r0) k)
      | "res" => some (matMul AH A n, powerBasis MA id (mv M r0) k)
      | "cgnr" => some (matMul AH A n, powerBasis (fun v => mv M (mv AH (mv A v))) id (mv M (mv AH r0)) k)
      | "cgne" => some (I, powerBasis (fun v => mv M (mv A (mv AH v))) (mv AH) (mv M r0) k)
      | _ => none
    match sel with
    | none => none
    | some (G, basis) =>
      let yds := argmins conj one G basis xs x0
      let ys := yds.map (·.1)
      let val := fun y => gdot conj G (vsub xs y) (vsub xs y)
      some ⟨xs, ys, yds.map (·.2), G, basis, checkCert conj G basis xs x0 yds, (x0 :: ys).map val⟩
end

/-! ### the certificate re-checked with the `Vector` operations the theorems are about (real case)
`certV` is the checker `Proofs/C07Cert.lean` proves sound: it accepts `(d, y)` only if
`y = x0 + Σ d_i v_i` and `G (t − y)` is orthogonal to every `v_i`. -/
section certV
variable {K : Type} [Add K] [Sub K] [Mul K] [OfNat K 0] [DecidableEq K] {n : Nat}

/-- `x0 + Σ_i d_i v_i` -/
def combV : Vector K n → List K → List (Vector K n) → Vector K n
  | x, c :: cs, v :: vs => combV (Vector.zipWith (· + ·) x (v.map (c * ·))) cs vs
  | x, _, _ => x

def certV (G : Vector (Vector K n) n) (vs : List (Vector K n)) (t x0 : Vector K n) (d : List K)
    (y : Vector K n) : Bool :=
  decide (combV x0 d vs = y) &&
    vs.all (fun v => decide (vdot (fun a => a) v (vmv G (Vector.zipWith (· - ·) t y)) = 0))

/-- all `j`: `(d_j, y_j)` is accepted against the first `j` basis vectors; `false` on any size mismatch -/
def certAllV (n : Nat) (G basis : List (List K)) (t x0 : List K) (ds ys : List (List K)) : Bool :=
  match toMat? n G, basis.mapM (toVec? n), toVec? n t, toVec? n x0, ys.mapM (toVec? n) with
  | some G, some vs, some t, some x0, some ys =>
    ds.length == ys.length &&
    (List.range ys.length).all (fun j =>
      match ys[j]? with
      | some y => certV G (vs.take (j + 1)) t x0 ((ds.getD j []).take (j + 1)) y
      | none => false)
  | _, _, _, _, _ => false
end certV

end PyamgV.C07
