import PyamgV.Model.C07Krylov
/-! PyamgV (C07): the *specification-level* minimiser, computed without any Krylov recurrence.

For a Hermitian positive definite Gram matrix `G`, a list of spanning vectors `v_0 … v_{k-1}`
(a power basis of the Krylov space), a target `t` and a start `x0`, `argmins` returns, for every
`j = 1 … k`, the point `y_j ∈ x0 + span{v_0 … v_{j-1}}` that minimises `(t − y)ᴴ G (t − y)`:
exact `G`-orthogonal projection over the field (no square roots), dependent vectors are skipped.
`checkCert` re-checks the result against the *definition* of the minimiser (Galerkin condition:
`G (t − y_j)` is orthogonal to every `v_i`, `i < j`) exactly; the driver reports it.
`solve` is Gauss–Jordan elimination (exact solution `xs` of `A x = b`).  Core Lean only. -/
namespace PyamgV.C07

section
variable {K : Type} [Add K] [Sub K] [Mul K] [Div K] [OfNat K 0] [DecidableEq K]

def matMul (A B : List (List K)) (n : Nat) : List (List K) :=
  let BT := ctrans (fun x => x) n B
  A.map (fun row => BT.map (fun col => dotu row col))

/-- Gauss–Jordan elimination with the first non-zero pivot; `none` when singular -/
def solve (n : Nat) (A : List (List K)) (b : List K) : Option (List K) := Id.run do
  let mut m : Array (Array K) := (List.zipWith (fun row bi => (row ++ [bi]).toArray) A b).toArray
  for c in [0:n] do
    let mut piv : Option Nat := none
    for r in [c:n] do
      if piv.isNone && (m.getD r #[]).getD c 0 != 0 then piv := some r
    match piv with
    | none => return none
    | some pr =>
      let rowP := m.getD pr #[]
      let rowC := m.getD c #[]
      m := (m.setIfInBounds pr rowC).setIfInBounds c rowP
      let d := rowP.getD c 0
      let rowN := rowP.map (· / d)
      m := m.setIfInBounds c rowN
      for r in [0:n] do
        if r != c then
          let row := m.getD r #[]
          let f := row.getD c 0
          if f != 0 then
            m := m.setIfInBounds r (Array.zipWith (fun a p => a - f * p) row rowN)
  return some (m.toList.map (fun row => row.getD n 0))

variable (conj : K → K)

/-- `uᴴ G v` -/
def gdot (G : List (List K)) (u v : List K) : K := dotc conj u (mv G v)

/-- successive minimisers `y_1 … y_k` over `x0 + span{v_0 … v_{j-1}}` of `(t−y)ᴴ G (t−y)` -/
def argmins (G : List (List K)) (basis : List (List K)) (t x0 : List K) : List (List K) :=
  let rec go (vs : List (List K)) (ws : List (List K × K)) (y : List K) : List (List K) :=
    match vs with
    | [] => []
    | v :: rest =>
      let w := ws.foldl (fun acc (wi, gi) => vsub acc (vsmul (gdot conj G wi v / gi) wi)) v
      let g := gdot conj G w w
      if g = 0 then y :: go rest ws y
      else
        let c := gdot conj G w (vsub t y) / g
        let y' := vadd y (vsmul c w)
        y' :: go rest (ws ++ [(w, g)]) y'
  go basis [] x0

/-- the definition of the minimiser, checked exactly: `⟨v_i, t − y_j⟩_G = 0` for all `i < j` -/
def checkCert (G : List (List K)) (basis : List (List K)) (t : List K) (ys : List (List K)) : Bool :=
  (List.range ys.length).all (fun j =>
    let y := ys.getD j []
    (basis.take (j + 1)).all (fun v => gdot conj G v (vsub t y) == 0))

/-- power basis `g, B g, …, B^{k-1} g` mapped by `P` -/
def powerBasis (B P : List K → List K) (g : List K) : Nat → List (List K)
  | 0 => []
  | k+1 => P g :: powerBasis B P (B g) k

structure ArgRes (K : Type) where
  xs : List K
  ys : List (List K)
  cert : Bool
  /-- value of the minimised quantity at `x0`, `y_1 … y_k` -/
  vals : List K

/-- the minimisers promised by the theory of each method, for `j = 1 … k`:
* `cg`   : energy norm of the error over `x0 + K_j(MA, M r0)`                     (`G = A`)
* `gmres`: 2-norm of the preconditioned residual `M(b − Ay)` over the same space   (`G = (MA)ᴴ MA`)
* `res`  : 2-norm of the residual over `x0 + K_j(MA, M r0) = x0 + M K_j(AM, r0)` (`G = AᴴA`)
           -- fgmres, cr
* `cgnr` : 2-norm of the residual over `x0 + K_j(M AᴴA, M Aᴴ r0)`                (`G = AᴴA`)
* `cgne` : 2-norm of the error over `x0 + Aᴴ K_j(M A Aᴴ, M r0)`                  (`G = I`) -/
def krylovArgmin (kind : String) (A M : List (List K)) (one : K) (b x0 : List K) (k : Nat) :
    Option (ArgRes K) :=
  let n := b.length
  match solve n A b with
  | none => none
  | some xs =>
    let AH := ctrans conj n A
    let r0 := vsub b (mv A x0)
    let MA := fun v => mv M (mv A v)
    let I : List (List K) := (List.range n).map (fun i => (List.range n).map (fun j => if i = j then one else 0))
    let sel : Option (List (List K) × List (List K)) :=
      match kind with
      | "cg" => some (A, powerBasis MA id (mv M r0) k)
      | "gmres" =>
        let B := matMul M A n
        some (matMul (ctrans conj n B) B n, powerBasis MA id (mv M r0) k)
      | "res" => some (matMul AH A n, powerBasis MA id (mv M r0) k)
      | "cgnr" => some (matMul AH A n, powerBasis (fun v => mv M (mv AH (mv A v))) id (mv M (mv AH r0)) k)
      | "cgne" => some (I, powerBasis (fun v => mv M (mv A (mv AH v))) (mv AH) (mv M r0) k)
      | _ => none
    match sel with
    | none => none
    | some (G, basis) =>
      let ys := argmins conj G basis xs x0
      let val := fun y => gdot conj G (vsub xs y) (vsub xs y)
      some ⟨xs, ys, checkCert conj G basis xs ys, (x0 :: ys).map val⟩
end

end PyamgV.C07
