import PyamgV.Model.ExtC14Energy
/-! PyamgV (C14, extension E28): executable model of `evolution_strength_of_connection` (strength.py:515-857) for
canonical CSR input, real scalars, one near-null-space vector `B` (`NullDim == 1`: the default `B = ones` and every
`n x 1` candidate), `k = 2^(m+1)` time steps (`k = 2` is `m = 0`), `proj_type` irrelevant for `NullDim == 1`,
finite `epsilon`, `symmetrize_measure` on or off.

Input that is not recomputed: `c = 1.0 / approximate_spectral_radius(D⁻¹A)` (recorded from the real call).

* `evDinv`, `evTt`  : `Dinv[mask] = 1/D[mask]; Dinv[D == 0] = 1`, `Atilde = (Id - c * Dinv_A).T`
* `matSq`           : `for _i in range(nsquare - 1): Atilde = Atilde @ Atilde`
* `spRow/spCol`, `mergeInner`, `evP`
                    : `incomplete_mat_mult_csr(Atilde (CSR), Atilde (CSC), mask)`: for every stored position of the mask
                      (= `A` without explicit zeros) the two-pointer inner product `my_inner` of a sorted sparse row and
                      a sorted sparse column (evolution_strength.h:587-640), then `eliminate_zeros`
* `evStrengthRow`   : the `NullDim == 1` shortcut: `z = (d_i / b_i) * b_j`, `angle`, `ratio = z / x`, `weak_ratio`,
                      `|1 - ratio|`, `eliminate_zeros`, near-perfect connections `< sqrt(eps)` set to `1e-4`
* tail              : `evolTail` of `Model/C14.lean` (`apply_distance_filter`, `eliminate_zeros`, symmetrisation, unit
                      diagonal, inversion, `scale_rows_by_largest_entry`).
Core Lean only. -/
namespace PyamgV.C14
open PyamgV PyamgV.N

def evDinv (A : Mat) (i : Nat) : Rat := if mget A i i = 0 then 1 else 1 / mget A i i

/-- `((Id - c D⁻¹ A)ᵀ)(i, j)` -/
def evTtEntry (c : Rat) (A : Mat) (i j : Nat) : Rat := (if i = j then 1 else 0) - c * (evDinv A j * mget A j i)
def evTt (n : Nat) (c : Rat) (A : Mat) : Mat := mkMat n (evTtEntry c A)

def matSq (n : Nat) (M : Mat) : Mat := mkMat n fun i j => sumR n fun k => mget M i k * mget M k j

def iter {α : Type} (f : α → α) : Nat → α → α
  | 0, a => a
  | t + 1, a => iter f t (f a)

/-- stored (non-zero) entries of row `i` / of column `j` of a dense matrix, indices ascending -/
def spRow (n : Nat) (M : Mat) (i : Nat) : Row :=
  (List.range n).filterMap fun k => if mget M i k ≠ 0 then some (k, mget M i k) else none
def spCol (n : Nat) (M : Mat) (j : Nat) : Row :=
  (List.range n).filterMap fun k => if mget M k j ≠ 0 then some (k, mget M k j) else none

/-- `my_inner`: the two-pointer loop `while(A_pos < A_end && B_pos < B_end)` over a sparse row and a sparse
column, with fuel (`a.length + b.length` suffices) -/
def mergeInner : Nat → Row → Row → Rat → Rat
  | 0, _, _, s => s
  | _ + 1, [], _, s => s
  | _ + 1, _, [], s => s
  | f + 1, (ja, va) :: ta, (jb, vb) :: tb, s =>
    if ja = jb then mergeInner f ta tb (s + va * vb)
    else if ja < jb then mergeInner f ta ((jb, vb) :: tb) s
    else mergeInner f ((ja, va) :: ta) tb s

def myInner (a b : Row) : Rat := mergeInner (a.length + b.length) a b 0

/-- `incomplete_mat_mult_csr(M, M, mask)`: `mask(i, j) = <M(i, :), M(:, j)>` on the stored positions of the mask -/
def evP (n : Nat) (M : Mat) (mask : List Row) : List Row :=
  mapRows (fun i row => row.map fun cv => (cv.1, myInner (spRow n M i) (spCol n M cv.1))) mask

/-- value of the stored entry in column `j` (`0` if there is none): `Atilde.diagonal()` for `j = i` -/
def entryOf (row : Row) (j : Nat) : Rat := ((row.find? (fun cv => cv.1 == j)).map (·.2)).getD 0

/-- `Bmat_forscaling[Bmat_forscaling == 0] = 1.0` -/
def bScal (b : Array Rat) (i : Nat) : Rat := if b.getD i 0 = 0 then 1 else b.getD i 0

/-- the `NullDim == 1` shortcut on row `i`; `p` = row `i` of `Atilde` (zeros eliminated), `wk` = the double `1e-4`
(weak ratio), `sqe = sqrt(eps) = 2^-26`, `perf` = the double `1e-4` (near-perfect connection) -/
def evStrengthRow (wk sqe perf : Rat) (b : Array Rat) (i : Nat) (p : Row) : Row :=
  let d := entryOf p i
  let r1 : Row := p.map fun cv =>
    let z := d / bScal b i * bScal b cv.1
    let ratio := z / cv.2
    (cv.1, if absQ ratio < wk ∨ z * cv.2 < 0 then 0 else absQ (1 - ratio))
  (elimZeros r1).map fun cv => (cv.1, if cv.2 < sqe then perf else cv.2)

/-- `Atilde` handed to the strength computation: `(Mᵀ)^k` restricted to the pattern of `A`, zeros eliminated -/
def evAtilde (c : Rat) (m : Nat) (rows : List Row) : List Row :=
  let n := rows.length
  let M := iter (matSq n) m (evTt n c (dense n rows))
  (evP n M (rows.map elimZeros)).map elimZeros

/-- the strength values handed to `apply_distance_filter` -/
def evMeasure (wk sqe perf c : Rat) (m : Nat) (b : Array Rat) (rows : List Row) : List Row :=
  mapRows (evStrengthRow wk sqe perf b) (evAtilde c m rows)

/-- `evolution_strength_of_connection(A, B, epsilon, k = 2^(m+1), symmetrize_measure)`, `B` a single vector -/
def evolFull (big tiny ε wk sqe perf c : Rat) (m : Nat) (symm : Bool) (b : Array Rat) (rows : List Row) : List Row :=
  evolTail big tiny ε symm (evMeasure wk sqe perf c m b rows)

end PyamgV.C14
