import PyamgV.Model.ExtC17R4Graph

/-! PyamgV (C17, extension E32, round 4): checked-execution (`Ck`) model of `fit_candidates_common`
(smoothed_aggregation.h; `fit_candidates_real` / `fit_candidates_complex` instantiate it with two functors), written loop
by loop after the C++.

* pointers into `Ax`, `B`, `R` are offsets, every dereference is `rd`/`wr`;
* the pointer loops `while(Ax_col < Ax_end){ ..; Ax_col += K2; }` are `forStep` (`whileLt` on fuel `Ax_end - Ax_col`
  inside `orFault`, so `ok = true` includes their termination); the loops with two pointers (`Ax_bi`, `Ax_bj`, the test is on
  `Ax_bi`) carry the second pointer as `p + (bj - bi)`;
* `std::copy(B_start, B_end, Ax_start)` and `std::fill(R, ..)` are element loops.

Scalars are abstract (`FitOps`; `nrm`, `dot` are the two functors, the real type `S` is embedded in `T`).  Core Lean only. -/
namespace PyamgV.C17R4
open PyamgV.Ck PyamgV.C17

structure FitOps (α : Type) where
  add : α → α → α
  sub : α → α → α
  mul : α → α → α
  div : α → α → α
  zero : α
  one : α
  /-- `norm(a)`: `a*a` resp. `re² + im²` -/
  nrm : α → α
  /-- `dot(a, b)`: `b*a` resp. `conj(b)*a` -/
  dot : α → α → α
  sqrt : α → α
  gt : α → α → Bool

variable {α : Type} [Inhabited α]

/-- `while(p < e){ body; p += step; }` with fuel; `none` = fuel exhausted -/
def whileLt {σ : Type} (e step : Int) (body : Int → σ → Ck σ) : Nat → Int → Ck σ → Option (Ck σ)
  | 0, p, st => if p < e then none else some st
  | f+1, p, st => if p < e then whileLt e step body f (p + step) (st >>= body p) else some st

/-- `for(p = s; p < e; p += step)` on fuel `e - s` (enough for `step ≥ 1`) -/
def forStep {σ : Type} [Inhabited σ] (s e step : Int) (init : σ) (body : Int → σ → Ck σ) : Ck σ :=
  orFault (whileLt e step body (e - s).toNat s (pure init))

/-- the first loop nest: copy the blocks of `B` named by `Ai` into `Ax` -/
def fitCopy (ncol : Nat) (BS : Int) (ap ai : Array Int) (B ax : Array α) : Ck (Array α) :=
  forRange 0 (ncol : Int) ax (fun j (ax : Array α) => do
    let s ← rd ap j
    let e ← rd ap (j+1)
    -- `T * Ax_start = Ax + BS * Ap[j]`
    let r ← forRange s e (ax, BS * s) (fun ii (st : Array α × Int) => do
      let row ← rd ai ii
      -- `std::copy(B + BS*Ai[ii], B + BS*Ai[ii] + BS, Ax_start)`
      let ax ← forRange 0 BS st.1 (fun t (ax : Array α) => do
        let b ← rd B (BS * row + t)
        wr ax (st.2 + t) b)
      pure (ax, st.2 + BS))
    pure r.1)

/-- `norm_j = 0; while(Ax_col < Ax_end){ norm_j += norm(*Ax_col); Ax_col += K2; } norm_j = sqrt(norm_j)` -/
def colNorm (o : FitOps α) (ax : Array α) (p0 e K2 : Int) : Ck α := do
  let s ← forStep p0 e K2 o.zero (fun p (acc : α) => do
    let a ← rd ax p
    pure (o.add acc (o.nrm a)))
  pure (o.sqrt s)

/-- orthogonalise column `bj` of the block column against column `bi`; state `(Ax, R)` -/
def fitAgainst (o : FitOps α) (K2 as ae rs bj bi : Int) (st : Array α × Array α) : Ck (Array α × Array α) := do
  let dp ← forStep (as + bi) ae K2 o.zero (fun p (acc : α) => do
    let abj ← rd st.1 (p + (bj - bi))
    let abi ← rd st.1 p
    pure (o.add acc (o.dot abj abi)))
  let ax ← forStep (as + bi) ae K2 st.1 (fun p (ax : Array α) => do
    let abj ← rd ax (p + (bj - bi))
    let abi ← rd ax p
    wr ax (p + (bj - bi)) (o.sub abj (o.mul dp abi)))
  let R ← wr st.2 (rs + K2 * bi + bj) dp
  pure (ax, R)

/-- one column `bj` of a block column -/
def fitColumn (o : FitOps α) (tol : α) (K2 as ae rs bj : Int) (st : Array α × Array α) : Ck (Array α × Array α) := do
  let nj ← colNorm o st.1 (as + bj) ae K2
  let thr := o.mul tol nj
  let st ← forRange 0 bj st (fun bi (st : Array α × Array α) => fitAgainst o K2 as ae rs bj bi st)
  let nj ← colNorm o st.1 (as + bj) ae K2
  let sr ← (if o.gt nj thr then do
      let R ← wr st.2 (rs + K2 * bj + bj) nj
      pure (o.div o.one nj, R)
    else do
      let R ← wr st.2 (rs + K2 * bj + bj) o.zero
      pure (o.zero, R))
  let ax ← forStep (as + bj) ae K2 st.1 (fun p (ax : Array α) => do
    let a ← rd ax p
    wr ax p (o.mul a sr.1))
  pure (ax, sr.2)

/-- the second loop nest: modified Gram-Schmidt in every block column -/
def fitOrth (o : FitOps α) (tol : α) (ncol : Nat) (K1 K2 : Int) (ap : Array Int) (st : Array α × Array α) :
    Ck (Array α × Array α) :=
  forRange 0 (ncol : Int) st (fun j (st : Array α × Array α) => do
    let cs ← rd ap j
    let ce ← rd ap (j+1)
    forRange 0 K2 st (fun bj (st : Array α × Array α) =>
      fitColumn o tol K2 (K1 * K2 * cs) (K1 * K2 * ce) (j * K2 * K2) bj st))

/-- `fit_candidates_common(n_row, n_col, K1, K2, Ap, Ai, Ax, B, R, tol, dot, norm)`; returns `(Ax, R)` -/
def fitCandidates (o : FitOps α) (tol : α) (ncol : Nat) (K1 K2 : Int) (ap ai : Array Int) (ax B R : Array α) :
    Ck (Array α × Array α) := do
  let R ← forRange 0 ((ncol : Int) * K2 * K2) R (fun t (R : Array α) => wr R t o.zero)
  let ax ← fitCopy ncol (K1 * K2) ap ai B ax
  fitOrth o tol ncol K1 K2 ap (ax, R)

end PyamgV.C17R4
