import PyamgV.Model.ExtC06Gmres
import PyamgV.Model.ExtC07Restart
import PyamgV.Model.ExtCGComplex
/-! PyamgV (extension E43, properties C06/C07): executable models of the **complex** runs of
`pyamg/krylov/_gmres_mgs.py`, `_gmres_householder.py` and `_fgmres.py`.

The real models (`Model/C07Gmres.lean`, `Model/ExtC07Hh.lean`, `Model/ExtC06Gmres.lean`) are written over abstract
vector operations `Ops K V` whose `dot u v` is already the conjugated `np.vdot(u, v)` / `dotc` / `dot_prod` of the
code, so the Arnoldi parts (`orthO`, `newColO`, `reflO`, `applyHH`, `newReflO`, `hhCol`, `hornerO`), the
back substitution `backSub` and the final combination `combO` are reused unchanged.  What is different for a complex
dtype, statement by statement:

* `lartg` is `zlartg`: for `g ≠ 0` it returns a *real* `c` and a complex `s` with
  `[[c, s], [-conj s, c]] · (f, g)ᵀ = (r, 0)ᵀ`, `c² + |s|² = 1`, namely `c = |f| / d`, `s = (f/|f|) · conj g / d`,
  `d = sqrt(|f|² + |g|²)` and, for `f = 0`, `c = 0`, `s = conj g / |g|` (`clartg`);
* the rotation block is `Qblock = [[c, s], [-np.conjugate(s), c]]`, applied with `np.dot` (no conjugation) to the
  Hessenberg column and to `g` (`crotL`, `capplyRots`, `cgivensUpdate`);
* `_gmres_householder.py` / `_fgmres.py`: `v = -2.0 * np.conjugate(w[inner]) * w` (`chhDir`), `_mysign(x) = x / |x|`
  (`csgn`);
* norms are `sqrt(real(<v, v>))` stored into complex arrays (`sqrt : K → K` below is instantiated with
  `CP.sqrtRe`), the recorded estimate is `np.abs(g[inner+1])`, a real number (`mod : K → F`).

Everything is written over an abstract scalar type `K` with a conjugation `conj : K → K`; the driver
(`Driver/ExtE43.lean`) runs `K = CP Float`; `Proofs/ExtCG*.lean` are about the same definitions over a field with an
involution (in particular `CP F`, `F` an ordered field with an exact square root).  Core Lean only. -/
namespace PyamgV.ExtCG
open PyamgV.C07 PyamgV.ExtC06

section generic
variable {K V : Type} [Add K] [Sub K] [Mul K] [Div K] [Neg K] [OfNat K 0] [OfNat K 1]

/-- `v[i:i+2] = np.dot([[c, s], [-conj s, c]], v[i:i+2])` -/
def crotL (conj : K → K) (i : Nat) (c s : K) (u : List K) : List K :=
  let a := u.getD i 0
  let b := u.getD (i + 1) 0
  (u.set i (c * a + s * b)).set (i + 1) (-(conj s) * a + c * b)

/-- the first `cs.length` rotations, rotation `0` first (`apply_givens`) -/
def capplyRots (conj : K → K) : Nat → List K → List K → List K → List K
  | i, c :: cs, s :: sn, u => capplyRots conj (i + 1) cs sn (crotL conj i c s u)
  | _, _, _, u => u

/-- `zlartg(f, g)` for `g ≠ 0` (the only way the code calls it): the pair `(c, s)`; `sqrt` is applied to the
"real" numbers `|f|²`, `|f|² + |g|²` only -/
def clartg (conj sqrt : K → K) (nz : K → Bool) (f g : K) : K × K :=
  if nz f then
    let f1 := sqrt (conj f * f)
    let d := sqrt (conj f * f + conj g * g)
    (f1 / d, (f / f1) * (conj g / d))
  else (0, conj g / sqrt (conj g * g))

/-- the Givens bookkeeping of one inner iteration (complex dtype); cf. `givensUpdate` -/
def cgivensUpdate (conj sqrt : K → K) (nz : K → Bool) (lastFull : Bool) (inner : Nat) (cs sn g col : List K) :
    GivUpd K :=
  let rc := capplyRots conj 0 cs sn col
  let hj := rc.getD inner 0
  let hj1 := rc.getD (inner + 1) 0
  let rot := !lastFull && nz hj1
  let cssn := if rot then clartg conj sqrt nz hj hj1 else ((1 : K), (0 : K))
  ⟨if rot then (rc.set inner (cssn.1 * hj + cssn.2 * hj1)).set (inner + 1) 0 else rc, cssn.1, cssn.2,
   if rot then crotL conj inner cssn.1 cssn.2 (g ++ [0]) else g ++ [0]⟩

/-- `_mysign`: `1` at zero, `x / |x|` otherwise -/
def csgn (conj sqrt : K → K) (nz : K → Bool) (x : K) : K := if nz x then x / sqrt (conj x * x) else 1

/-! ### `_gmres_mgs.py`, complex dtype -/

/-- one inner iteration (the breakdown test `H[inner, inner+1] != 0.0` is `nz`) -/
def cgmresStep (o : Ops K V) (conj sqrt : K → K) (nz : K → Bool) (n : Nat) (x0 : V) (s : GmSt K V) : GmSt K V :=
  let inner := s.cols.length
  let vk := s.vs.getLast?.getD x0
  let a := arnoldiO o sqrt nz s.vs vk
  let u := cgivensUpdate conj sqrt nz (inner + 1 == n) inner s.cs s.sn s.g a.2
  let rcols := s.rcols ++ [u.rc]
  let y := backSub rcols u.g (inner + 1) []
  let x := combO o x0 y s.vs
  ⟨s.vs ++ [a.1], s.cols ++ [a.2], rcols, s.cs ++ [u.c], s.sn ++ [u.s], u.g, s.xs ++ [x]⟩

/-- the iterates `x_1 … x_k` of one cycle -/
def cgmresMgs (o : Ops K V) (conj sqrt : K → K) (nz : K → Bool) (n : Nat) (b x0 : V) (k : Nat) : List V :=
  (iter (cgmresStep o conj sqrt nz n x0) k (gmresInit o sqrt b x0)).xs

/-- restart points (cf. `gmresRestartPt`) -/
def cgmresRestartPt (o : Ops K V) (conj sqrt : K → K) (nz : K → Bool) (n : Nat) (b x0 : V) (r : Nat) : Nat → V
  | 0 => x0
  | j+1 =>
    let x := cgmresRestartPt o conj sqrt nz n b x0 r j
    (cgmresMgs o conj sqrt nz n b x r).getLast?.getD x

/-- everything the `callback` of a restarted run sees -/
def cgmresRestart (o : Ops K V) (conj sqrt : K → K) (nz : K → Bool) (n : Nat) (b x0 : V) (r cycles : Nat) : List V :=
  (List.range cycles).flatMap (fun j => cgmresMgs o conj sqrt nz n b (cgmresRestartPt o conj sqrt nz n b x0 r j) r)

/-! ### `_fgmres.py`, `_gmres_householder.py`, complex dtype -/
variable [OfNat K 2]

/-- `v = -2.0 * np.conjugate(w[inner]) * w; v[inner] += 1; apply_householders(v, W, inner-1 … 0)`, then `pre` -/
def chhDir (h : HOps K V) (conj : K → K) (pre : V → V) (ws : List V) (inner : Nat) (x0 : V) : V :=
  let w := ws.getLast?.getD x0
  pre (applyHH h.o (ws.take inner).reverse (h.o.add (h.o.smul (-2 * conj (h.get w inner)) w) (h.basis inner)))

/-- the Householder--Arnoldi part of inner iteration `inner` (cf. `hhArnoldi`) -/
def chhArnoldi (h : HOps K V) (conj sqrt sgn : K → K) (nz : K → Bool) (n : Nat) (pre op : V → V)
    (ws : List V) (inner : Nat) (x0 : V) : HhArn K V :=
  let z := chhDir h conj pre ws inner x0
  let r := hhCol h sqrt sgn nz n inner (applyHH h.o ws (op z))
  ⟨z, r.1, r.2⟩

/-- one inner iteration of `_fgmres.py` -/
def cfgStep (h : HOps K V) (conj sqrt sgn : K → K) (nz : K → Bool) (n : Nat) (pre : Nat → V → V) (x0 : V)
    (s : HhSt K V) : HhSt K V :=
  let inner := s.cols.length
  let a := chhArnoldi h conj sqrt sgn nz n (pre inner) h.o.A s.ws inner x0
  let u := cgivensUpdate conj sqrt nz (inner + 1 == n) inner s.cs s.sn s.g a.col
  let rcols := s.rcols ++ [u.rc]
  let zs := s.zs ++ [a.z]
  let y := backSub rcols u.g (inner + 1) []
  ⟨s.ws ++ [a.w], zs, s.cols ++ [a.col], rcols, s.cs ++ [u.c], s.sn ++ [u.s], u.g,
   s.xs ++ [combO h.o x0 y zs]⟩

def cfgmresHh (h : HOps K V) (conj sqrt sgn : K → K) (nz : K → Bool) (n : Nat) (pre : Nat → V → V) (b x0 : V)
    (k : Nat) : List V :=
  (iter (cfgStep h conj sqrt sgn nz n pre x0) k (hhInit h sqrt sgn (h.o.sub b (h.o.A x0)))).xs

/-- one inner iteration of `_gmres_householder.py` -/
def cghStep (h : HOps K V) (conj sqrt sgn : K → K) (nz : K → Bool) (n : Nat) (x0 : V) (s : HhSt K V) :
    HhSt K V :=
  let inner := s.cols.length
  let a := chhArnoldi h conj sqrt sgn nz n (fun v => v) (fun v => h.o.M (h.o.A v)) s.ws inner x0
  let u := cgivensUpdate conj sqrt nz (inner + 1 == n) inner s.cs s.sn s.g a.col
  let rcols := s.rcols ++ [u.rc]
  let y := backSub rcols u.g (inner + 1) []
  ⟨s.ws ++ [a.w], s.zs ++ [a.z], s.cols ++ [a.col], rcols, s.cs ++ [u.c], s.sn ++ [u.s], u.g,
   s.xs ++ [h.o.add x0 (hornerO h (h.o.smul 0 x0) 0 s.ws y)]⟩

def cgmresHh (h : HOps K V) (conj sqrt sgn : K → K) (nz : K → Bool) (n : Nat) (b x0 : V) (k : Nat) : List V :=
  (iter (cghStep h conj sqrt sgn nz n x0) k (hhInit h sqrt sgn (h.o.M (h.o.sub b (h.o.A x0))))).xs
end generic

/-! ### the complete functions (C06): engines for the control flow `gRun` of `Model/ExtC06Gmres.lean`

The recorded quantities are real: `est = np.abs(g[inner+1])` (`mod`), `resn = sqrt(real(<r, r>))` (`nrm`). -/
section engines
variable {K F V : Type} [Add K] [Sub K] [Mul K] [Div K] [Neg K] [OfNat K 0] [OfNat K 1]

def cmgsEng (o : Ops K V) (conj sqrt : K → K) (nz : K → Bool) (mod nrm : K → F) (n : Nat) (b : V) :
    GEng F V (GmSt K V) :=
  { start := fun x => gmresInit o sqrt b x
    step := fun x s => cgmresStep o conj sqrt nz n x s
    est := fun s => mod (s.g.getD s.cols.length 0)
    cur := fun x s => s.xs.getLast?.getD x
    resn := fun x => nrm (o.dot (o.M (o.sub b (o.A x))) (o.M (o.sub b (o.A x)))) }

variable [OfNat K 2]

def chhEng (h : HOps K V) (conj sqrt sgn : K → K) (nz : K → Bool) (mod nrm : K → F) (n : Nat) (b : V) :
    GEng F V (HhSt K V) :=
  { start := fun x => hhInit h sqrt sgn (h.o.M (h.o.sub b (h.o.A x)))
    step := fun x s => cghStep h conj sqrt sgn nz n x s
    est := fun s => mod (s.g.getD s.cols.length 0)
    cur := fun x s => s.xs.getLast?.getD x
    resn := fun x => nrm (h.o.dot (h.o.M (h.o.sub b (h.o.A x))) (h.o.M (h.o.sub b (h.o.A x)))) }

def cfgEng (h : HOps K V) (conj sqrt sgn : K → K) (nz : K → Bool) (mod nrm : K → F) (n : Nat)
    (pre : Nat → V → V) (b : V) : GEng F V (HhSt K V) :=
  { start := fun x => hhInit h sqrt sgn (h.o.sub b (h.o.A x))
    step := fun x s => cfgStep h conj sqrt sgn nz n pre x s
    est := fun s => mod (s.g.getD s.cols.length 0)
    cur := fun x s => s.xs.getLast?.getD x
    resn := fun x => nrm (h.o.dot (h.o.sub b (h.o.A x)) (h.o.sub b (h.o.A x))) }
end engines

/-! ### the binary64 instances the driver runs (`K = CP Float`) -/

abbrev CF := CP Float

def sqrtCF : CF → CF := CP.sqrtRe Float.sqrt
def modCF : CF → Float := CP.mod Float.sqrt
def nrmCF (a : CF) : Float := Float.sqrt a.re
def sgnCF : CF → CF := csgn CP.conj sqrtCF nzFloat

/-- interleaved `re, im, re, im, …` → complex numbers (`none` for an odd count) -/
def pairs : List Float → Option (List CF)
  | [] => some []
  | a :: b :: t => (pairs t).map (fun l => ⟨a, b⟩ :: l)
  | [_] => none

def unpairs (v : List CF) : List Float := v.flatMap (fun a => [a.re, a.im])

def cmat? (n : Nat) (A : List (List Float)) : Option (Vector (Vector CF n) n) :=
  match A.mapM pairs with
  | none => none
  | some rows => toMat? n rows

def cvec? (n : Nat) (v : List Float) : Option (Vector CF n) :=
  match pairs v with
  | none => none
  | some l => toVec? n l

/-- one cycle / restarted cycles, complex; `kind` = `mgs` | `hh` | `fg` | `mgsr` (`mgsr`: `k` = restart, `cycles`
cycles; otherwise `cycles` is ignored); the iterates handed to `callback` as interleaved `re, im` lists -/
def cgmresCycleFloat (kind : String) (A M : List (List Float)) (b x0 : List Float) (k cycles : Nat) :
    Option (List (List Float)) :=
  let n := b.length / 2
  match cmat? n A, cmat? n M, cvec? n b, cvec? n x0 with
  | some A, some M, some b, some x0 =>
    let h := hopsVec CP.conj A M
    let out := fun (l : List (Vector CF n)) => some (l.map (fun v => unpairs v.toList))
    if kind = "mgs" then out (cgmresMgs h.o CP.conj sqrtCF nzFloat n b x0 k)
    else if kind = "mgsr" then out (cgmresRestart h.o CP.conj sqrtCF nzFloat n b x0 k cycles)
    else if kind = "hh" then out (cgmresHh h CP.conj sqrtCF sgnCF nzFloat n b x0 k)
    else if kind = "fg" then out (cfgmresHh h CP.conj sqrtCF sgnCF nzFloat n (fun _ v => h.o.M v) b x0 k)
    else none
  | _, _, _, _ => none

/-- `change = max |update[i] / x[i]|` over `x[i] != 0`, `change < 1e-12` (the update is recovered as `x' − x`) -/
def cstagFloat {n : Nat} (x x' : Vector CF n) : Bool :=
  let r := (List.range n).foldl (fun (acc : Bool × Float) i =>
    let xi := x'[i]?.getD 0
    if nzFloat xi then
      let c := modCF ((xi - x[i]?.getD 0) / xi)
      (true, if acc.1 then (if c > acc.2 then c else acc.2) else c)
    else acc) (false, 0)
  r.1 && r.2 < 1e-12

def cshowOut {n : Nat} (o : GOut Float (Vector CF n)) : Int × Nat × List Float × List Float × List (List Float) :=
  (o.status, o.niter, o.hist, unpairs o.x.toList, o.log.map (fun v => unpairs v.toList))

/-- the complete functions, complex dtype; `kind` = `mgs` | `hh` | `fg`; `none`: the `n == 1` shortcut (nothing is
recorded) or bad sizes / kind -/
def cgmresFullFloat (kind : String) (A M : List (List Float)) (b x0 : List Float) (tol : Float)
    (restart maxiter : Option Nat) : Option (Int × Nat × List Float × List Float × List (List Float)) :=
  let n := b.length / 2
  if n = 1 then none else
  match cmat? n A, cmat? n M, cvec? n b, cvec? n x0 with
  | some A, some M, some b, some x0 =>
    let d := C06.gmresDims n restart maxiter
    if d.maxInner = 0 then none else
    let h := hopsVec CP.conj A M
    let lt := fun (a c : Float) => decide (a < c)
    let nb := nrmCF (h.o.dot b b)
    if kind = "mgs" then
      let thr := tol * (if nb == 0 then 1 else nrmCF (h.o.dot (h.o.M b) (h.o.M b)))
      some (cshowOut (gRun (cmgsEng h.o CP.conj sqrtCF nzFloat modCF nrmCF n b) lt (fun a => a) thr cstagFloat d x0))
    else if kind = "hh" then
      let thr := tol * (if nb == 0 then 1 else nrmCF (h.o.dot (h.o.M b) (h.o.M b)))
      some (cshowOut (gRun (chhEng h CP.conj sqrtCF sgnCF nzFloat modCF nrmCF n b) lt (fun a => a) thr cstagFloat d x0))
    else if kind = "fg" then
      let thr := tol * (if nb == 0 then 1 else nb)
      some (cshowOut (gRun (cfgEng h CP.conj sqrtCF sgnCF nzFloat modCF nrmCF n (fun _ v => h.o.M v) b) lt
        (fun a => a) thr cstagFloat d x0))
    else none
  | _, _, _, _ => none

end PyamgV.ExtCG
