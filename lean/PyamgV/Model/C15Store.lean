/-! # C15 model: which objects a constructor binds and which it writes in place (store model)

Import-free, executable, total.  Mirrors the prologues of `ruge_stuben_solver`, `air_solver`,
`smoothed_aggregation_solver`, `rootnode_solver`, `pairwise_solver` and the operator filtering of
`air.extend_hierarchy`:

* `A = csr_array(A)` when the input is not sparse / not in an accepted format: a new object;
* `A = asfptype(A)`: the same object for a floating-point dtype, `A.astype(...)` (new object) otherwise;
* `levels[-1].A = A`;
* every later level holds a Galerkin product (new object);
* AIR with `filter_operator`: `filter_matrix_rows` writes in place into `deepcopy(levels[-1].A)` when
  `len(levels) == 1`, into `levels[-1].A` otherwise.

Objects are numbers: `0` = the user's matrix, `1` = the user's candidate array, `≥ 2` = allocated by the
constructor. -/
namespace PyamgV.C15.Store

inductive Ctor | rs | air | sa | rn | pw
  deriving DecidableEq, Repr
inductive Fmt | csr | csc | coo | lil | dia | bsr | dense
  deriving DecidableEq, Repr

/-- formats kept as they are (`A.format != 'csr'` / `A.format not in ('bsr', 'csr')`) -/
def accepts : Ctor → Fmt → Bool
  | .rs, f => f == .csr
  | _, f => f == .csr || f == .bsr

structure St where
  next : Nat            -- next fresh object
  cur : Nat             -- the object bound to the local name `A`
  levels : List Nat     -- the objects bound to `levels[i].A`
  written : List Nat    -- objects that received an in-place write
  targets : List String -- per filter call: `D` (a deep copy) or `L<i>` (`levels[i].A` itself)
  layout : List Nat     -- objects whose index arrays were re-ordered in place (`sort_indices()`): same matrix
  deriving Repr

def init : St := ⟨2, 0, [], [], [], []⟩

inductive Step
  | convert      -- `A = csr_array(A)`
  | upcast       -- `A = A.astype(fp)`
  | bind         -- `levels[-1].A = A` on the first level
  | coarsen      -- append a level with a Galerkin product
  | filter       -- AIR: filter the operator the next level is built from
  | sortLevel (i : Nat)  -- `levels[i].A.sort_indices()` (`setup_schwarz`, `get_diagonal`, strength routines)
  deriving DecidableEq, Repr

/-- `filter_matrix_rows(A, ...)` of `air.extend_hierarchy`, with `A = deepcopy(levels[-1].A)` when
`len(levels) == 1` and `A = levels[-1].A` otherwise -/
def filterStep (s : St) : St :=
  match s.levels with
  | [] => s
  | [_] => { s with next := s.next + 1, written := s.next :: s.written, targets := s.targets ++ ["D"] }
  | _ :: l :: rest =>
    { s with written := (l :: rest).getLast (List.cons_ne_nil l rest) :: s.written,
             targets := s.targets ++ [s!"L{(l :: rest).length}"] }

def step (s : St) : Step → St
  | .convert => { s with next := s.next + 1, cur := s.next }
  | .upcast => { s with next := s.next + 1, cur := s.next }
  | .bind => { s with levels := [s.cur] }
  | .coarsen => { s with next := s.next + 1, levels := s.levels ++ [s.next] }
  | .filter => filterStep s
  | .sortLevel i => match s.levels[i]? with
    | some a => { s with layout := a :: s.layout }
    | none => s

def run (s : St) (steps : List Step) : St := steps.foldl step s

/-- the constructor prologue -/
def prologue (c : Ctor) (f : Fmt) (fp : Bool) : List Step :=
  (if accepts c f then [] else [.convert]) ++ (if fp then [] else [.upcast]) ++ [.bind]

/-- `ext` calls of `extend_hierarchy`, each creating a level -/
def extend (c : Ctor) (filt : Bool) : Nat → List Step
  | 0 => []
  | k + 1 => (if c = .air ∧ filt then [.filter, .coarsen] else [.coarsen]) ++ extend c filt k

def build (c : Ctor) (f : Fmt) (fp filt : Bool) (ext : Nat) : List Step :=
  prologue c f fp ++ extend c filt ext

def parseCtor : String → Option Ctor
  | "rs" => some .rs | "air" => some .air | "sa" => some .sa | "rn" => some .rn | "pw" => some .pw
  | _ => none
def parseFmt : String → Option Fmt
  | "csr" => some .csr | "csc" => some .csc | "coo" => some .coo | "lil" => some .lil
  | "dia" => some .dia | "bsr" => some .bsr | "dense" => some .dense
  | _ => none

/-- may the user's index arrays be re-ordered by a build?  only if the finest level is the user's object -/
def userLayoutAtRisk (c : Ctor) (f : Fmt) (fp : Bool) : Bool := accepts c f && fp

/-- `alias|copy ; does any write hit the user's objects ; filter targets ; may the user's index arrays be re-ordered` -/
def reply (ctor fmt dtype : String) (filt ext : Nat) : String :=
  match parseCtor ctor, parseFmt fmt with
  | some c, some f =>
    let s := run init (build c f (dtype == "fp") (filt != 0) ext)
    let al := if s.levels.head? == some 0 then "alias" else "copy"
    let w := if s.written.contains 0 || s.written.contains 1 then "1" else "0"
    al ++ ";" ++ w ++ ";" ++ (if s.targets.isEmpty then "-" else String.intercalate "," s.targets) ++ ";" ++
      (if userLayoutAtRisk c f (dtype == "fp") then "1" else "0")
  | _, _ => "error"

end PyamgV.C15.Store
