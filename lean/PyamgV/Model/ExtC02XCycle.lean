import PyamgV.Model.C02Cycle
import PyamgV.Model.CRat
import PyamgV.Model.ExtC09Block

/-! # C02 model, extension E35: complex Hermitian hierarchies and BSR levels with block smoothers

Core Lean only (imports other `Model/` files).  Executable, total, scalar-polymorphic.

* `cycleO` : the recursion of `MultilevelSolver.__solve` (the *same* text as `C02.cycle`) on levels whose
  pieces are functions on arrays (`A @ ·`, `P @ ·`, `R @ ·`, `presmoother(A, ·, b)`, `postsmoother(A, ·, b)`).
  `C02.cycle` is `cycleO` on `Lvl.toO` (proved: `Proofs/ExtC02XRefine.lean`), so the real CSR model, the complex
  model and the BSR model are instances of one definition.
* complex: `mkHierarchyH conj` builds `R = Pᴴ`, `A_c = R A P` exactly (over `CRat`: Gaussian rationals);
  the smoothers are the same kernel models (`Sm.run`, no conjugation occurs in Gauss-Seidel / SOR / Jacobi);
  `cfunctional` is `Re(xᴴ A x) − 2 Re(bᴴ x)`, the energy functional of a Hermitian problem; `realForm` is the real
  symmetric `2n × 2n` matrix `[[Re, −Im], [Im, Re]]` (positive definite iff the Hermitian matrix is).
* BSR: `BSm` = what `change_smoothers` installs on a level whose matrix is BSR with blocks larger than 1: the
  pointwise kernels (`.pt`, run on the CSR expansion of the matrix) or `block_gauss_seidel` / `block_jacobi`
  (kernel models of `Model/ExtC09Block.lean`, run on the BSR storage, with the inverse diagonal blocks `Dinv` that
  `diagInv` computes exactly by elimination; pyamg takes `pinv` of the diagonal blocks, the same matrix for a
  nonsingular block). -/
namespace PyamgV.C02X
open PyamgV.K

variable {α : Type} [Add α] [Sub α] [Mul α] [Div α] [OfNat α 0] [OfNat α 1] [DecidableEq α]

/-! ## the cycle on operator levels -/

/-- a level as `__solve` sees it: five functions on arrays; smoothers take `b` first, then `x` -/
structure OLvl (α : Type) where
  A : Array α → Array α
  P : Array α → Array α
  R : Array α → Array α
  pre : Array α → Array α → Array α
  post : Array α → Array α → Array α

/-- `__solve(lvl, x, b, cycle, cycles_per_level)`, line by line as `C02.cycle` -/
def cycleO (solve : Array α → Array α) : C02.Cyc → Nat → List (OLvl α) → Array α → Array α → Array α
  | _, _, [], _, b => solve b
  | c, cpl, L :: rest, x, b =>
    let x1 := L.pre b x
    let residual := C02.vsub b (L.A x1)
    let coarse_b := L.R residual
    let coarse_x0 : Array α := C02.zeros coarse_b.size
    let coarse_x : Array α := match rest with
      | [] => solve coarse_b
      | _ :: _ => match c with
        | .V => cycleO solve .V 1 rest coarse_x0 coarse_b
        | .W => cycleO solve .W 1 rest (cycleO solve .W 1 rest coarse_x0 coarse_b) coarse_b
        | .F => C02.iterN (fun cx => cycleO solve .V 1 rest cx coarse_b) cpl
                  (cycleO solve .F cpl rest coarse_x0 coarse_b)
    let x2 := C02.vadd x1 (L.P coarse_x)
    L.post b x2

/-- a CSR level of `C02.cycle` as an operator level -/
def toO (L : C02.Lvl α) : OLvl α :=
  ⟨C02.spmv L.A, C02.spmv L.P, C02.spmv L.R, L.pre.run L.A, L.post.run L.A⟩

/-! ## complex Hermitian hierarchies -/

/-- conjugate transpose of a dense `nrows × ncols` matrix -/
def ctransposeD (conj : α → α) (M : C02.Dense α) (nrows ncols : Nat) : C02.Dense α :=
  (Array.range ncols).map (fun j => (Array.range nrows).map (fun i => conj (C02.rdD M i j)))

/-- `C02.mkHierarchy` with `R = Pᴴ` (`conj = id` gives `C02.mkHierarchy` back) -/
def mkHierarchyH (conj : α → α) (A0 : Csr α) : List (C02.PSpec α) → List (C02.Lvl α) × C02.Dense α × Nat
  | [] => ([], C02.toDense A0 A0.n, A0.n)
  | s :: rest =>
    let Ad := C02.toDense A0 s.nrows
    let Pd := C02.toDense s.P s.ncols
    let Rd := ctransposeD conj Pd s.nrows s.ncols
    let Acd := C02.mulD Rd (C02.mulD Ad Pd s.nrows s.nrows s.ncols) s.ncols s.nrows s.ncols
    let Ac := C02.ofDense Acd s.ncols
    let (ls, Acoarse, nc) := mkHierarchyH conj Ac rest
    (⟨A0, s.P, C02.ofDense Rd s.nrows, s.pre, s.post⟩ :: ls, Acoarse, nc)

/-- the real form `[[Re, −Im], [Im, Re]]` (size `2n × 2m`) of a dense `n × m` matrix over `CRat` -/
def realForm (M : C02.Dense CRat) (n m : Nat) : C02.Dense Rat :=
  (Array.range (2 * n)).map (fun i => (Array.range (2 * m)).map (fun j =>
    let z := C02.rdD M (i % n) (j % m)
    if i < n then (if j < m then z.re else -z.im) else (if j < m then z.im else z.re)))

/-- `Re(Σ conj(xᵢ) yᵢ)` (`np.vdot(x, y).real`) -/
def cdotRe (x y : Array CRat) : Rat :=
  (List.range x.size).foldl (fun s i => s + ((rd x i).re * (rd y i).re + (rd x i).im * (rd y i).im)) 0

/-- `Re(vᴴ A v)` -/
def cquad (A : Csr CRat) (v : Array CRat) : Rat := cdotRe v (C02.spmv A v)

/-- `J(x) = Re(xᴴ A x) − 2 Re(bᴴ x)`; for Hermitian `A` and `A x* = b`: `J(x) = ‖x* − x‖²_A − ‖x*‖²_A` -/
def cfunctional (A : Csr CRat) (b x : Array CRat) : Rat := cquad A x - (cdotRe b x + cdotRe b x)

def cfunctionalLe (A : Csr CRat) (b x x' : Array CRat) : Bool :=
  decide (cfunctional A b x' ≤ cfunctional A b x)

/-- `e'ᴴ A e' ≤ eᴴ A e` (real parts) -/
def cenergyLe (A : Csr CRat) (e e' : Array CRat) : Bool := decide (cquad A e' ≤ cquad A e)

/-- exact test `A = Aᴴ` -/
def isHermitian (A : Csr CRat) : Bool :=
  let D := C02.toDense A A.n
  (List.range A.n).all (fun i => (List.range A.n).all (fun j =>
    decide (C02.rdD D i j = CRat.conj (C02.rdD D j i))))

/-- admissibility of a smoother on a complex level, decided exactly: Gauss-Seidel / SOR with real
`0 ≤ ω ≤ 2`; Jacobi with real `0 ≤ ω`, non-zero diagonal and `2D − ωA` Hermitian positive definite -/
def cSmAdmissible (Ad : C02.Dense CRat) (n : Nat) : C02.Sm CRat → Bool
  | .none => true
  | .gs ω _ _ => decide (ω.im = 0) && decide (0 ≤ ω.re) && decide (ω.re ≤ 2)
  | .jac ω _ =>
    decide (ω.im = 0) && decide (0 ≤ ω.re) && (List.range n).all (fun i => decide (C02.rdD Ad i i ≠ 0)) &&
      C02.pivotsPositive (realForm ((Array.range n).map (fun i => (Array.range n).map (fun j =>
        (if i = j then C02.rdD Ad i i + C02.rdD Ad i i else (0 : CRat)) - ω * C02.rdD Ad i j))) n n)

/-- the data-level hypotheses of `cmodel_cycle_nonexp` on a complex model hierarchy: shapes, `R = Pᴴ`,
next matrix `= R A P`, one stored diagonal per row, admissible smoothers -/
def ccheckLevels (Ac : C02.Dense CRat) (nc : Nat) : List (C02.Lvl CRat) → Bool
  | [] => true
  | L :: rest =>
    let n := L.A.n
    let m := L.R.n
    let Pd := C02.toDense L.P m
    let Rd := C02.toDense L.R n
    let Ad := C02.toDense L.A n
    let nxt : C02.Dense CRat × Nat := match rest with
      | [] => (Ac, nc)
      | L' :: _ => (C02.toDense L'.A L'.A.n, L'.A.n)
    decide (L.P.n = n) && decide (nxt.2 = m) &&
      C02.denseEq Rd (ctransposeD CRat.conj Pd n m) m n &&
      C02.denseEq nxt.1 (C02.mulD Rd (C02.mulD Ad Pd n n m) m n m) m m &&
      C02.uniqueDiag L.A && cSmAdmissible Ad n L.pre && cSmAdmissible Ad n L.post && ccheckLevels Ac nc rest

/-! ## BSR levels, block smoothers -/

/-- BSR copy (blocks `bs × bs`, `nb` block rows) of a dense `nb·bs × nb·bs` matrix with *every* block stored -/
def bsrOfDense (M : C02.Dense α) (nb bs : Nat) : Bsr α :=
  ⟨nb, bs, (Array.range (nb + 1)).map (fun i => i * nb),
   (Array.range (nb * nb)).map (fun k => k % nb),
   (Array.range (nb * nb * (bs * bs))).map (fun q =>
      let blk := q / (bs * bs)
      let r := q % (bs * bs)
      C02.rdD M ((blk / nb) * bs + r / bs) ((blk % nb) * bs + r % bs))⟩

/-- the `bs × bs` diagonal block `i` of a dense matrix -/
def diagBlock (M : C02.Dense α) (bs i : Nat) : C02.Dense α :=
  (Array.range bs).map (fun l => (Array.range bs).map (fun m => C02.rdD M (i * bs + l) (i * bs + m)))

/-- the inverses of the `nb` diagonal blocks, row-major one after the other (the layout of `Dinv` in
`block_jacobi` / `block_gauss_seidel`), by exact elimination; `none` iff a diagonal block is singular -/
def diagInv (M : C02.Dense α) (nb bs : Nat) : Option (Array α) :=
  (List.range nb).foldl (fun (acc : Option (Array α)) i =>
    match acc with
    | none => none
    | some out =>
      let B := diagBlock M bs i
      -- column `c` of the inverse solves `B z = e_c`
      let cols : List (Option (Array α)) := (List.range bs).map (fun c =>
        C02.gaussSolve B ((Array.range bs).map (fun k => if k = c then (1 : α) else 0)))
      if cols.all Option.isSome then
        some (out ++ (Array.range (bs * bs)).map (fun q => rd ((cols.getD (q % bs) none).getD #[]) (q / bs)))
      else none) (some #[])

/-- a smoother installed on a (possibly BSR) level; `Dinv` is what `diagInv` returned for the level matrix -/
inductive BSm (α : Type) where
  | pt (s : C02.Sm α)                                          -- pointwise kernels
  | bgs (bs : Nat) (Dinv : Array α) (sw : Sweep) (iters : Nat)   -- block_gauss_seidel
  | bjac (bs : Nat) (Dinv : Array α) (ω : α) (iters : Nat)       -- block_jacobi with the omega actually used

/-- a level given by its dense matrix (size `n`), `P`, `R` in CSR and its smoothers -/
structure BLvl (α : Type) where
  Ad : C02.Dense α
  n : Nat
  P : Csr α
  R : Csr α
  pre : BSm α
  post : BSm α

/-- `smoother(A, x, b)` on a level with dense matrix `Ad` (size `n`); the shape checks of the Python drivers
(`x`, `b`, `Dinv` sizes) are decided by `bcheckLevels`, a failing call returns `x` -/
def BSm.run (Ad : C02.Dense α) (n : Nat) : BSm α → Array α → Array α → Array α
  | .pt s => s.run (C02.ofDense Ad n)
  | .bgs bs Dinv sw it => fun b x => (pyBlockGaussSeidel (bsrOfDense Ad (n / bs) bs) b Dinv it sw x).getD x
  | .bjac bs Dinv ω it => fun b x => (pyBlockJacobi ω (bsrOfDense Ad (n / bs) bs) b Dinv it x).getD x

def BLvl.toO (L : BLvl α) : OLvl α :=
  ⟨C02.spmv (C02.ofDense L.Ad L.n), C02.spmv L.P, C02.spmv L.R, L.pre.run L.Ad L.n, L.post.run L.Ad L.n⟩

/-- smoother request of the line protocol: the block inverses are not yet formed -/
inductive BReq (α : Type) where
  | pt (s : C02.Sm α)
  | bgs (bs : Nat) (sw : Sweep) (iters : Nat)
  | bjac (bs : Nat) (ω : α) (iters : Nat)

def BReq.mk (Ad : C02.Dense α) (n : Nat) : BReq α → Option (BSm α)
  | .pt s => some (.pt s)
  | .bgs bs sw it =>
    if bs = 0 ∨ n % bs ≠ 0 then none else (diagInv Ad (n / bs) bs).map (fun D => .bgs bs D sw it)
  | .bjac bs ω it =>
    if bs = 0 ∨ n % bs ≠ 0 then none else (diagInv Ad (n / bs) bs).map (fun D => .bjac bs D ω it)

structure BSpec (α : Type) where
  nrows : Nat
  ncols : Nat
  P : Csr α
  pre : BReq α
  post : BReq α

/-- the Galerkin hierarchy (`R = Pᵀ`, `A_{l+1} = R A_l P`, exact) with block smoothers whose inverse diagonal
blocks are formed exactly; `none` iff a requested block size does not divide the level size or a diagonal
block is singular -/
def bmkHierarchy (Ad : C02.Dense α) : List (BSpec α) → Option (List (BLvl α) × C02.Dense α × Nat)
  | [] => some ([], Ad, Ad.size)
  | s :: rest =>
    let Pd := C02.toDense s.P s.ncols
    let Rd := C02.transposeD Pd s.nrows s.ncols
    let Acd := C02.mulD Rd (C02.mulD Ad Pd s.nrows s.nrows s.ncols) s.ncols s.nrows s.ncols
    match BReq.mk Ad s.nrows s.pre, BReq.mk Ad s.nrows s.post, bmkHierarchy Acd rest with
    | some p, some q, some (ls, Acoarse, nc) =>
      some (⟨Ad, s.nrows, s.P, C02.ofDense Rd s.nrows, p, q⟩ :: ls, Acoarse, nc)
    | _, _, _ => none

/-- exact check `Dinv_i A_ii = I = A_ii Dinv_i` for all diagonal blocks, and the size of `Dinv` -/
def invOK (Ad : C02.Dense α) (nb bs : Nat) (Dinv : Array α) : Bool :=
  decide (Dinv.size = nb * (bs * bs)) &&
  (List.range nb).all (fun i =>
    let B := diagBlock Ad bs i
    let D : C02.Dense α := (Array.range bs).map (fun k => (Array.range bs).map (fun l => rd Dinv (i * (bs * bs) + k * bs + l)))
    let I : C02.Dense α := (Array.range bs).map (fun k => (Array.range bs).map (fun l => if k = l then (1 : α) else 0))
    C02.denseEq (C02.mulD D B bs bs bs) I bs bs && C02.denseEq (C02.mulD B D bs bs bs) I bs bs)

/-- admissibility of a smoother on a level with dense matrix `Ad` (size `n`), decided exactly:
pointwise as `Sm.admissible`; block Gauss-Seidel: `bs | n`, exact inverse blocks; block Jacobi: moreover
`0 ≤ ω` and `2 D_B − ω A` positive definite (`D_B` the block diagonal) -/
def BSm.admissible [LE α] [DecidableLE α] [LT α] [DecidableLT α] (Ad : C02.Dense α) (n : Nat) : BSm α → Bool
  | .pt s => C02.uniqueDiag (C02.ofDense Ad n) && s.admissible Ad n
  | .bgs bs Dinv _ _ => decide (0 < bs) && decide (n % bs = 0) && invOK Ad (n / bs) bs Dinv
  | .bjac bs Dinv ω _ =>
    decide (0 < bs) && decide (n % bs = 0) && invOK Ad (n / bs) bs Dinv && decide ((0 : α) ≤ ω) &&
      C02.pivotsPositive ((Array.range n).map (fun i => (Array.range n).map (fun j =>
        (if i / bs = j / bs then C02.rdD Ad i j + C02.rdD Ad i j else (0 : α)) - ω * C02.rdD Ad i j)))

/-- the data-level hypotheses of `bmodel_cycle_nonexp`: shapes, `R = Pᵀ`, next matrix `= R A P`, admissible smoothers -/
def bcheckLevels [LE α] [DecidableLE α] [LT α] [DecidableLT α] (Ac : C02.Dense α) (nc : Nat) : List (BLvl α) → Bool
  | [] => true
  | L :: rest =>
    let n := L.n
    let m := L.R.n
    let Pd := C02.toDense L.P m
    let Rd := C02.toDense L.R n
    let nxt : C02.Dense α × Nat := match rest with
      | [] => (Ac, nc)
      | L' :: _ => (L'.Ad, L'.n)
    decide (L.P.n = n) && decide (L.Ad.size = n) && decide (nxt.2 = m) &&
      C02.denseEq Rd (C02.transposeD Pd n m) m n &&
      C02.denseEq nxt.1 (C02.mulD Rd (C02.mulD L.Ad Pd n n m) m n m) m m &&
      L.pre.admissible L.Ad n && L.post.admissible L.Ad n && bcheckLevels Ac nc rest

/-- exact symmetry test of a dense matrix -/
def isSymmetricD (D : C02.Dense α) (n : Nat) : Bool :=
  (List.range n).all (fun i => (List.range n).all (fun j => decide (C02.rdD D i j = C02.rdD D j i)))

end PyamgV.C02X
