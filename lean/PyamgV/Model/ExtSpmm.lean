import PyamgV.Model.CRat
/-! PyamgV (extension E27; properties C04, C15), executable, core only, polymorphic scalar:
the sparse-matrix algebra the hierarchy constructors delegate to `scipy.sparse`.

* `Csr` = `(rows, cols, indptr, indices, data)`; `Csr.row i` = the stored entries of row `i` in storage
  order; `Csr.val A i j` = the *dense meaning*: the sum of all stored entries of row `i` whose column
  index is `j` (duplicates summed, order irrelevant, rows `>= A.rows` are zero);
* `mul A B` = `A @ B` as `csr_matmat` (scipy/sparse/sparsetools/csr.h) computes it: row by row, a dense
  accumulator `sums` over the columns of `B`, the set of touched columns kept as a linked list
  (`next` / `head`; here `mark` + the list `touched`, most recently touched first), the second loop
  walks that list, drops exact zeros and resets the accumulator; the output is in general unsorted;
* `transpose A` = `A.T.tocsr()` (`csr_tocsc`: a stable counting sort by column, i.e. row `c` of the
  result lists the entries of column `c` by increasing row, ties in storage order);
  `mapVals g A` = entrywise map of the data (`.conjugate()`), `conjT` = `A.T.conjugate()`;
* `galerkin R A P` = `R @ A @ P` = `(R @ A) @ P`;
* conversions to CSR: `cooToCsr` (`coo_tocsr` then `sum_duplicates`: sorted, duplicates summed, explicit
  zeros kept), `cscToCsr` (`csc_tocsr`), `denseToCsr` (`csr_array(ndarray)`: non-zeros, sorted),
  `bsrToCsr` (`bsr_tocsr`, any block size, `1 x 1` included).

`Proofs/ExtSpmm.lean` proves that each of them has the dense meaning it should have. -/
namespace PyamgV.Spmm

variable {α : Type}

@[inline] def rdN (a : Array Nat) (i : Nat) : Nat := a.getD i 0
@[inline] def rd [OfNat α 0] (a : Array α) (i : Nat) : α := a.getD i 0
@[inline] def wr (a : Array α) (i : Nat) (v : α) : Array α := a.setIfInBounds i v

structure Csr (α : Type) where
  rows : Nat
  cols : Nat
  ap : Array Nat
  aj : Array Nat
  ax : Array α
deriving Repr

/-- stored entries `(column, value)` of row `i`, storage order -/
def Csr.row [OfNat α 0] (A : Csr α) (i : Nat) : List (Nat × α) :=
  (List.range' (rdN A.ap i) (rdN A.ap (i + 1) - rdN A.ap i)).map fun jj => (rdN A.aj jj, rd A.ax jj)

/-- sum of the values stored under key `j` -/
def rowVal [Add α] [OfNat α 0] (l : List (Nat × α)) (j : Nat) : α :=
  l.foldl (fun s e => if e.1 = j then s + e.2 else s) 0

/-- dense meaning -/
def Csr.val [Add α] [OfNat α 0] (A : Csr α) (i j : Nat) : α :=
  if i < A.rows then rowVal (A.row i) j else 0

/-- what SciPy's `check_format` guarantees (index arrays consistent, column indices in range) -/
def Csr.wf (A : Csr α) : Bool :=
  A.ap.size == A.rows + 1 && rdN A.ap 0 == 0 &&
  (List.range A.rows).all (fun i => decide (rdN A.ap i ≤ rdN A.ap (i + 1))) &&
  rdN A.ap A.rows == A.aj.size && A.aj.size == A.ax.size &&
  A.aj.toList.all (fun j => decide (j < A.cols))

/-- row-major dense array of the meaning (what the driver prints) -/
def Csr.toDense [Add α] [OfNat α 0] (A : Csr α) : Array α :=
  Array.ofFn (n := A.rows * A.cols) fun t => A.val (t.val / A.cols) (t.val % A.cols)

/-! ### assembling a CSR matrix row by row (`Cp[i+1] = nnz` after every row) -/

def scanAp {β : Type} : List (List β) → Nat → List Nat
  | [], _ => []
  | l :: ls, off => (off + l.length) :: scanAp ls (off + l.length)

def ofRows (r c : Nat) (ls : List (List (Nat × α))) : Csr α :=
  ⟨r, c, (0 :: scanAp ls 0).toArray, (ls.flatten.map (·.1)).toArray, (ls.flatten.map (·.2)).toArray⟩

/-! ### product -/

/-- state of `csr_matmat` inside one row: `sums`, `next[k] != -1` (`mark`), the linked list from `head` -/
structure Acc (α : Type) where
  sums : Array α
  mark : Array Bool
  touched : List Nat

def Acc.init [OfNat α 0] (n : Nat) : Acc α := ⟨Array.replicate n 0, Array.replicate n false, []⟩

/-- `sums[k] += t; if (next[k] == -1) { next[k] = head; head = k; length++; }` -/
def Acc.add [Add α] [OfNat α 0] (s : Acc α) (k : Nat) (t : α) : Acc α :=
  if s.mark.getD k false then ⟨wr s.sums k (rd s.sums k + t), s.mark, s.touched⟩
  else ⟨wr s.sums k (rd s.sums k + t), s.mark.setIfInBounds k true, k :: s.touched⟩

/-- first loop of row `i`: `for jj in row i of A: for kk in row Aj[jj] of B: sums[Bj[kk]] += Ax[jj] * Bx[kk]` -/
def accumRow [Add α] [Mul α] [OfNat α 0] (A B : Csr α) (i : Nat) (s : Acc α) : Acc α :=
  (A.row i).foldl (fun s e => (B.row e.1).foldl (fun s f => s.add f.1 (e.2 * f.2)) s) s

/-- second loop: walk the linked list, emit the non-zero sums, clear `next` and `sums` -/
def drain [OfNat α 0] [DecidableEq α] (s : Acc α) : List (Nat × α) × Acc α :=
  s.touched.foldl (fun (acc : List (Nat × α) × Acc α) k =>
    (if rd acc.2.sums k = 0 then acc.1 else acc.1 ++ [(k, rd acc.2.sums k)],
     ⟨wr acc.2.sums k 0, acc.2.mark.setIfInBounds k false, []⟩)) ([], ⟨s.sums, s.mark, []⟩)

def mulRows [Add α] [Mul α] [OfNat α 0] [DecidableEq α] (A B : Csr α) : List (List (Nat × α)) :=
  ((List.range A.rows).foldl (fun (acc : List (List (Nat × α)) × Acc α) i =>
      let d := drain (accumRow A B i acc.2)
      (acc.1 ++ [d.1], d.2)) ([], Acc.init B.cols)).1

/-- `A @ B` for CSR operands -/
def mul [Add α] [Mul α] [OfNat α 0] [DecidableEq α] (A B : Csr α) : Csr α :=
  ofRows A.rows B.cols (mulRows A B)

/-- `R @ A @ P` (Python evaluates left to right) -/
def galerkin [Add α] [Mul α] [OfNat α 0] [DecidableEq α] (R A P : Csr α) : Csr α := mul (mul R A) P

/-! ### transpose, conjugate -/

/-- row `c` of the transpose: the entries of column `c`, by row, ties in storage order -/
def transposeRow [OfNat α 0] (A : Csr α) (c : Nat) : List (Nat × α) :=
  (List.range A.rows).flatMap fun i => (A.row i).filterMap fun e => if e.1 = c then some (i, e.2) else none

def transpose [OfNat α 0] (A : Csr α) : Csr α :=
  ofRows A.cols A.rows ((List.range A.cols).map (transposeRow A))

def mapVals (g : α → α) (A : Csr α) : Csr α := ⟨A.rows, A.cols, A.ap, A.aj, A.ax.map g⟩

/-- `A.T.conjugate()` brought to CSR -/
def conjT [OfNat α 0] (conj : α → α) (A : Csr α) : Csr α := mapVals conj (transpose A)

/-! ### the array version of the transpose: `csr_tocsc` loop by loop
(`Proofs/ExtSpmmArr.lean`: row by row it returns what `transpose` returns; the driver runs both) -/

/-- `Bp[Aj[n]]++` over all stored entries, then the exclusive cumulative sum -/
def colCounts [OfNat α 0] (A : Csr α) : Array Nat :=
  (List.range A.rows).foldl (fun cnt i => (A.row i).foldl (fun cnt e => cnt.setIfInBounds e.1 (rdN cnt e.1 + 1)) cnt)
    (Array.replicate A.cols 0)

def exclusiveScan (cnt : Array Nat) : Array Nat :=
  (cnt.toList.foldl (fun (acc : Array Nat × Nat) c => (acc.1.push acc.2, acc.2 + c)) (#[], 0)).1

/-- scatter: `dest = Bp[col]; Bi[dest] = row; Bx[dest] = Ax[jj]; Bp[col]++` -/
def scatter [OfNat α 0] (A : Csr α) (start : Array Nat) (nnz : Nat) : Array Nat × Array Nat × Array α :=
  (List.range A.rows).foldl (fun (st : Array Nat × Array Nat × Array α) i =>
      (A.row i).foldl (fun (st : Array Nat × Array Nat × Array α) e =>
        let dest := rdN st.1 e.1
        (st.1.setIfInBounds e.1 (dest + 1), st.2.1.setIfInBounds dest i, st.2.2.setIfInBounds dest e.2)) st)
    (start, Array.replicate nnz 0, Array.replicate nnz 0)

/-- `csr_tocsc(n_row, n_col, Ap, Aj, Ax, Bp, Bi, Bx)`: after the scatter `Bp[col]` is the end of column
`col`, i.e. the start of column `col + 1`; the kernel shifts it back -/
def transposeArr [OfNat α 0] (A : Csr α) : Csr α :=
  let cnt := colCounts A
  let start := exclusiveScan cnt
  let nnz := cnt.toList.foldl (· + ·) 0
  let st := scatter A start nnz
  ⟨A.cols, A.rows, (start.push nnz), st.2.1, st.2.2⟩

/-! ### conversions -/

structure Coo (α : Type) where
  rows : Nat
  cols : Nat
  ri : Array Nat
  ci : Array Nat
  x : Array α
deriving Repr

def Coo.wf (X : Coo α) : Bool :=
  X.ri.size == X.x.size && X.ci.size == X.x.size &&
  X.ri.toList.all (fun i => decide (i < X.rows)) && X.ci.toList.all (fun j => decide (j < X.cols))

/-- dense meaning of a COO matrix: the sum of all `x[n]` with `(ri[n], ci[n]) = (i, j)` -/
def Coo.val [Add α] [OfNat α 0] (X : Coo α) (i j : Nat) : α :=
  (List.range X.x.size).foldl (fun s n => if rdN X.ri n = i ∧ rdN X.ci n = j then s + rd X.x n else s) 0

/-- `coo_tocsr` (stable by row): the entries of row `i` in storage order -/
def Coo.rowEntries [OfNat α 0] (X : Coo α) (i : Nat) : List (Nat × α) :=
  (List.range X.x.size).filterMap fun n => if rdN X.ri n = i then some (rdN X.ci n, rd X.x n) else none

/-- insert `(c, v)` into a list sorted by key, adding to an existing key -/
def insAdd [Add α] (c : Nat) (v : α) : List (Nat × α) → List (Nat × α)
  | [] => [(c, v)]
  | e :: t => if c < e.1 then (c, v) :: e :: t else if c = e.1 then (e.1, e.2 + v) :: t else e :: insAdd c v t

/-- `sort_indices(); csr_sum_duplicates()` on one row: sorted by column, duplicates summed, zeros kept -/
def canon [Add α] (l : List (Nat × α)) : List (Nat × α) := l.foldl (fun acc e => insAdd e.1 e.2 acc) []

def cooToCsr [Add α] [OfNat α 0] (X : Coo α) : Csr α :=
  ofRows X.rows X.cols ((List.range X.rows).map fun i => canon (X.rowEntries i))

/-- `sum_duplicates()` of a CSR matrix -/
def sumDuplicates [Add α] [OfNat α 0] (A : Csr α) : Csr α :=
  ofRows A.rows A.cols ((List.range A.rows).map fun i => canon (A.row i))

/-- CSC = `(rows, cols, indptr over columns, row indices, data)` -/
structure Csc (α : Type) where
  rows : Nat
  cols : Nat
  ap : Array Nat
  ai : Array Nat
  ax : Array α
deriving Repr

/-- a CSC matrix is the CSR matrix of its transpose on the same arrays -/
def Csc.asCsrT (X : Csc α) : Csr α := ⟨X.cols, X.rows, X.ap, X.ai, X.ax⟩
def Csc.wf (X : Csc α) : Bool := X.asCsrT.wf
def Csc.val [Add α] [OfNat α 0] (X : Csc α) (i j : Nat) : α := X.asCsrT.val j i
def cscToCsr [OfNat α 0] (X : Csc α) : Csr α := transpose X.asCsrT
/-- `A.tocsc()`, `A.T` of a CSR matrix (no data movement for `.T`) -/
def Csr.asCscT (A : Csr α) : Csc α := ⟨A.cols, A.rows, A.ap, A.aj, A.ax⟩

structure Dense (α : Type) where
  rows : Nat
  cols : Nat
  data : Array α
deriving Repr

def Dense.wf (D : Dense α) : Bool := D.data.size == D.rows * D.cols
def Dense.val [OfNat α 0] (D : Dense α) (i j : Nat) : α := if j < D.cols then rd D.data (i * D.cols + j) else 0

def denseToCsr [OfNat α 0] [DecidableEq α] (D : Dense α) : Csr α :=
  ofRows D.rows D.cols ((List.range D.rows).map fun i =>
    (List.range D.cols).filterMap fun j => if D.val i j = 0 then none else some (j, D.val i j))

/-- BSR with `br x bc` blocks: `ap`, `aj` index blocks, `ax` holds the blocks row-major one after the other -/
structure Bsr (α : Type) where
  rows : Nat
  cols : Nat
  br : Nat
  bc : Nat
  ap : Array Nat
  aj : Array Nat
  ax : Array α
deriving Repr

def Bsr.wf (X : Bsr α) : Bool :=
  decide (0 < X.br) && decide (0 < X.bc) && X.rows % X.br == 0 && X.cols % X.bc == 0 &&
  X.ap.size == X.rows / X.br + 1 && rdN X.ap 0 == 0 &&
  (List.range (X.rows / X.br)).all (fun i => decide (rdN X.ap i ≤ rdN X.ap (i + 1))) &&
  rdN X.ap (X.rows / X.br) == X.aj.size && X.ax.size == X.aj.size * (X.br * X.bc) &&
  X.aj.toList.all (fun j => decide (j < X.cols / X.bc))

/-- `(block column, block number)` of the blocks of block row `I` -/
def Bsr.blockRow (X : Bsr α) (I : Nat) : List (Nat × Nat) :=
  (List.range' (rdN X.ap I) (rdN X.ap (I + 1) - rdN X.ap I)).map fun jj => (rdN X.aj jj, jj)

/-- entry `(r, c)` of block number `jj` -/
def Bsr.blk [OfNat α 0] (X : Bsr α) (jj r c : Nat) : α := rd X.ax (jj * (X.br * X.bc) + r * X.bc + c)

/-- dense meaning: the sum over the blocks of block row `i / br` lying in block column `j / bc` -/
def Bsr.val [Add α] [OfNat α 0] (X : Bsr α) (i j : Nat) : α :=
  if i < X.rows then
    (X.blockRow (i / X.br)).foldl (fun s b => if b.1 = j / X.bc then s + X.blk b.2 (i % X.br) (j % X.bc) else s) 0
  else 0

/-- `bsr_tocsr`: scalar row `i = I * br + r` lists, block after block, the `bc` entries of block row `r` -/
def bsrToCsr [OfNat α 0] (X : Bsr α) : Csr α :=
  ofRows X.rows X.cols ((List.range X.rows).map fun i =>
    (X.blockRow (i / X.br)).flatMap fun b => (List.range X.bc).map fun c => (b.1 * X.bc + c, X.blk b.2 (i % X.br) c))

/-! ### a matrix in any of the input formats the constructors accept -/

inductive Input (α : Type) where
  | csr (A : Csr α)
  | csc (X : Csc α)
  | coo (X : Coo α)
  | dense (D : Dense α)
  | bsr (X : Bsr α)

def Input.rows : Input α → Nat
  | .csr A => A.rows | .csc X => X.rows | .coo X => X.rows | .dense D => D.rows | .bsr X => X.rows
def Input.cols : Input α → Nat
  | .csr A => A.cols | .csc X => X.cols | .coo X => X.cols | .dense D => D.cols | .bsr X => X.cols
def Input.wf : Input α → Bool
  | .csr A => A.wf | .csc X => X.wf | .coo X => X.wf | .dense D => D.wf | .bsr X => X.wf
/-- dense meaning, format by format -/
def Input.val [Add α] [OfNat α 0] : Input α → Nat → Nat → α
  | .csr A => A.val | .csc X => X.val | .coo X => X.val | .dense D => D.val | .bsr X => X.val
/-- `.tocsr()` -/
def Input.toCsr [Add α] [OfNat α 0] [DecidableEq α] : Input α → Csr α
  | .csr A => A | .csc X => cscToCsr X | .coo X => cooToCsr X | .dense D => denseToCsr D | .bsr X => bsrToCsr X

/-! ### the instances the driver runs: Gaussian rationals, `CRat.conj` -/

def mulC (A B : Csr CRat) : Csr CRat := mul A B
def galerkinC (R A P : Csr CRat) : Csr CRat := galerkin R A P
def transposeC (A : Csr CRat) : Csr CRat := transpose A
def transposeArrC (A : Csr CRat) : Csr CRat := transposeArr A
def conjTC (A : Csr CRat) : Csr CRat := conjT CRat.conj A
def sumDuplicatesC (A : Csr CRat) : Csr CRat := sumDuplicates A
def toCsrC (X : Input CRat) : Csr CRat := X.toCsr
def valC (A : Csr CRat) (i j : Nat) : CRat := A.val i j
def toDenseC (A : Csr CRat) : Array CRat := A.toDense

end PyamgV.Spmm
