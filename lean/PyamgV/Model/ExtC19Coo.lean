import PyamgV.Model.C19Utils
/-! PyamgV (C19, extension E26): the COO / fallback branch of `scale_rows` / `scale_columns`
(`pyamg/util/utils.py`: `scale_rows(csr_array(A), v).asformat(fmt)` for every format that is not CSR,
CSC or BSR).  Core Lean only.

A COO matrix is its list of stored triples `(row, column, value)` in storage order; unsorted and
duplicated positions and explicit zeros are allowed.  `cooCsr` is SciPy's `coo.tocsr()` (`coo_tocsr`
followed by `sum_duplicates`): row `i` stores the distinct columns of the triples of row `i` in
ascending order, each with the sum of the values stored at that position. -/
namespace PyamgV.C19

section ops
variable {α : Type} [Add α] [Sub α] [Mul α] [Div α] [OfNat α 0] [OfNat α 1] [DecidableEq α]

abbrev Coo (α : Type) := List (Nat × Nat × α)

/-- the matrix entry `(i, j)` of a COO matrix: stored duplicates are summed -/
def cooEntry (coo : Coo α) (i j : Nat) : α :=
  sumL ((coo.filter fun t => t.1 = i ∧ t.2.1 = j).map (·.2.2))

/-- insert a column into an ascending duplicate-free list -/
def insCol (j : Nat) : List Nat → List Nat
  | [] => [j]
  | c :: l => if j < c then j :: c :: l else if j = c then c :: l else c :: insCol j l

/-- the distinct columns of a list of triples, ascending -/
def colsOf (r : Coo α) : List Nat := r.foldl (fun cols t => insCol t.2.1 cols) []

/-- row `i` of `coo.tocsr()`: canonical format (sorted columns, duplicates summed) -/
def cooCsrRow (coo : Coo α) (i : Nat) : RowOf α :=
  let ri := coo.filter (·.1 = i)
  (colsOf ri).map fun j => (j, sumL ((ri.filter (·.2.1 = j)).map (·.2.2)))

/-- `csr_array(A)` of a COO matrix with `n` rows -/
def cooCsr (n : Nat) (coo : Coo α) : Rows α := (List.range n).map (cooCsrRow coo)

/-- the fallback branch of `scale_rows` (`byRows`) / `scale_columns`: the CSR kernel on `csr_array(A)` -/
def cooScale (byRows : Bool) (v : Array α) (n : Nat) (coo : Coo α) : Rows α :=
  if byRows then scaleMajor v (cooCsr n coo) else scaleMinor v (cooCsr n coo)

end ops
end PyamgV.C19
