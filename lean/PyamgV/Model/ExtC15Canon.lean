import PyamgV.Model.ExtSpmm
import PyamgV.Model.C14
import PyamgV.Model.ExtPairwise
/-! PyamgV (extension E41; property C15), executable, core only: the canonical stored form of a CSR matrix.

* `eliminateZeros A` = `A.eliminate_zeros()` (stored entries equal to zero dropped, order kept);
* `canonSD A` = `A.sum_duplicates()` (= `sort_indices()` + `csr_sum_duplicates`: `Spmm.sumDuplicates`): rows strictly
  sorted by column, explicit zeros (stored ones, and sums that cancel) KEPT -- this is the form `coo.tocsr()` returns;
* `canonNZ A` = `A.sum_duplicates(); A.eliminate_zeros()`: rows strictly sorted, no duplicates, no stored zeros.
  `Proofs/ExtC15Canon.lean`: the arrays of `canonNZ A` are a function of the dense meaning of `A` alone, and two
  matrices in the `canonSD` form with the same dense meaning and the same stored pattern have equal arrays;
* `isCanonical`, `noStoredZeros`: the checkers (what `has_canonical_format` says after a fresh check);
* `pwRaw tiny θ A`: ONE real constructor path on arrays, `pairwise_solver(A, aggregate=('pairwise', {'matchings': 1,
  'theta': θ, 'norm': norm}))._extend_hierarchy`: `classical_strength_of_connection(A, θ, norm)` (model `C14.pubClassicalNorm`:
  kernel, `np.abs`, `scale_rows_by_largest_entry`, `eliminate_zeros`), the kernel `pairwise_aggregation` on the arrays
  of the strength matrix (model `ExtPw.pairwise`), `T = csr_array((ones, Tj - 1, arange(n + 1)))`, the stall test
  `P.shape[1] >= P.shape[0]`; it walks the rows in storage order (the kernel takes the LAST of several equal weights);
  `pwStep` = the same behind the canonicaliser. -/
namespace PyamgV.Canon
open PyamgV.Spmm

variable {α : Type}

/-- `eliminate_zeros()` -/
def eliminateZeros [OfNat α 0] [DecidableEq α] (A : Csr α) : Csr α :=
  ofRows A.rows A.cols ((List.range A.rows).map fun i => (A.row i).filter fun e => e.2 ≠ 0)

/-- `sum_duplicates()` then `eliminate_zeros()` on one row -/
def canonRow [Add α] [OfNat α 0] [DecidableEq α] (l : List (Nat × α)) : List (Nat × α) :=
  (canon l).filter fun e => e.2 ≠ 0

/-- `sum_duplicates()`: sorted, duplicate-free, explicit zeros kept -/
def canonSD [Add α] [OfNat α 0] (A : Csr α) : Csr α := sumDuplicates A

/-- `sum_duplicates(); eliminate_zeros()`: the canonical form -/
def canonNZ [Add α] [OfNat α 0] [DecidableEq α] (A : Csr α) : Csr α := eliminateZeros (sumDuplicates A)

/-- column indices strictly increasing -/
def strictAsc : List (Nat × α) → Bool
  | [] => true
  | [_] => true
  | a :: b :: t => decide (a.1 < b.1) && strictAsc (b :: t)

/-- well formed, every row strictly sorted by column (hence duplicate-free) -/
def isCanonical [OfNat α 0] (A : Csr α) : Bool :=
  A.wf && (List.range A.rows).all fun i => strictAsc (A.row i)

def noStoredZeros [OfNat α 0] [DecidableEq α] (A : Csr α) : Bool :=
  (List.range A.rows).all fun i => (A.row i).all fun e => e.2 ≠ 0

/-! ### one real constructor path: pairwise aggregation with one matching -/

def rowsOfCsr (A : Csr Rat) : List C14.Row := (List.range A.rows).map A.row

/-- `T = csr_array((ones, Tj - 1, arange(n + 1)), shape = (n, k))` -/
def pwT (n k : Nat) (x : Array Nat) : Csr Rat :=
  ofRows n k ((List.range n).map fun i => [(ExtPw.rd x i - 1, (1 : Rat))])

/-- strength, kernel, `T`, stall test (`k = 0` happens for `n = 0` only: the `n x 1` zero matrix stalls as well) -/
def pwRaw (norm : String) (tiny θ : Rat) (A : Csr Rat) : Option (Csr Rat) :=
  let o := C14.rowsToOut (C14.pubClassicalNorm norm tiny θ (rowsOfCsr A))
  match ExtPw.pairwise A.rows o.1 o.2.1 o.2.2 with
  | none => none
  | some (x, _, k) => if k = 0 ∨ A.rows ≤ k then none else some (pwT A.rows k x)

/-- the same path reading its matrix through the canonical form -/
def pwStep (norm : String) (tiny θ : Rat) (A : Csr Rat) : Option (Csr Rat) := pwRaw norm tiny θ (canonNZ A)

/-! ### the instances the driver runs -/

def canonSDC (A : Csr CRat) : Csr CRat := canonSD A
def canonNZC (A : Csr CRat) : Csr CRat := canonNZ A
def isCanonicalC (A : Csr CRat) : Bool := isCanonical A
def noStoredZerosC (A : Csr CRat) : Bool := noStoredZeros A

end PyamgV.Canon
