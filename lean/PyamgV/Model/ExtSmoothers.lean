import PyamgV.Model.C02Cycle

/-! # `relaxation.polynomial` (extension E22): executable array model

`polynomial(A, x, b, coefficients, iterations)` is what `setup_richardson` (`coefficients = [omega/rho]`) and
`setup_chebyshev` (Chebyshev coefficients) install.  Per iteration, line by line:
`residual = b if norm(x) == 0 else b - A@x`; `h = coefficients[0]*residual`;
`for c in coefficients[1:]: h = c*residual + A@h`; `x += h`.
With an empty coefficient list `coefficients[0]` raises as soon as the loop body runs (`none`).
Import-free apart from the kernel/cycle models; scalar-polymorphic (ℚ, Gaussian rationals). -/
namespace PyamgV.ExtSm
open PyamgV.K PyamgV.C02

variable {α : Type} [Add α] [Sub α] [Mul α] [Div α] [OfNat α 0] [OfNat α 1] [DecidableEq α]

/-- `c * x` -/
def vscale (c : α) (x : Array α) : Array α := (Array.range x.size).map (fun i => c * rd x i)

/-- `norm(x) == 0` in exact arithmetic -/
def allZero (x : Array α) : Bool := (List.range x.size).all (fun i => decide (rd x i = 0))

/-- one pass of the `for _i in range(iterations)` loop, coefficients `c0 :: cs` -/
def polyStep (A : Csr α) (c0 : α) (cs : List α) (b x : Array α) : Array α :=
  let residual := if allZero x then b else vsub b (spmv A x)
  let h := cs.foldl (fun h c => vadd (vscale c residual) (spmv A h)) (vscale c0 residual)
  vadd x h

/-- `polynomial(A, x, b, coefficients, iterations)`; `none` = the `IndexError` of `coefficients[0]` -/
def polynomial (A : Csr α) (coeffs : List α) (iters : Nat) (b x : Array α) : Option (Array α) :=
  match coeffs with
  | [] => if iters = 0 then some x else none
  | c0 :: cs => some (K.iter (polyStep A c0 cs b) iters x)

end PyamgV.ExtSm
