import PyamgV.Model.C02Cycle

/-! # C16 model: `coarse_grid_solver(solver)` of pyamg/multilevel.py, exact arithmetic

Import-free apart from `Model/KRelax.lean` (relaxation kernels and their Python drivers, compared
bit-exactly with the code by C09) and the dense helpers of `Model/C02Cycle.lean`.  Executable, total,
scalar-polymorphic (`Rat`, Gaussian rationals `CRat` with `conj`).

* `dispatch`   = the `if solver in [...] / elif ...` chain: names, `None`, callables; everything else
                 is `ValueError('unknown solver')` (`none`).  `(name, kwargs)` tuples: `Opts`.
* `Fact`, `factor`, `applyFact` = what the lazily created attributes `self.P`, `self.LU`, `self.L`,
                 `self.LU_Map` hold and how `solve` uses them.  LAPACK / SuperLU are represented by
                 their contracts: `pinv` = the Moore-Penrose inverse (`pinvD`, computed exactly by a rank
                 factorisation and *certified* by the four Penrose equations, `isPinv`), LU / Cholesky
                 / sparse LU = multiplication with the inverse when the (compressed) matrix is
                 nonsingular (certified by `M X = I`), `singular` / `not-hpd` otherwise.
* `nzCols`, `gather`, `scatter`, `submat` = the zero-row/column compression of the `splu` branch
                 (`Map = I[:, nonzero_cols]`, `Mapᵀ A Map`, `Map @ solve(Mapᵀ b)`).
* `relaxSolve` = the relaxation branch: `x = zeros_like(b)`, `iterations` default 10, then the
                 smoother installed by `setup_<name>` (modelled: gauss_seidel, sor, jacobi with
                 `withrho=False`; the others are `unmodelled`).
* `call`       = `GenericSolver.__call__`: the `A.nnz == 0` shortcut, `solve`, reshape to `b.shape`.
* `run`        = a history of calls on one solver object; `nfact` counts calls of the factorisation
                 routine. -/
namespace PyamgV.C16
open PyamgV.K PyamgV.C02

variable {α : Type} [Add α] [Sub α] [Mul α] [Div α] [OfNat α 0] [OfNat α 1] [DecidableEq α]

/-! ## solver argument and dispatch -/

/-- the `solver` argument after `unpack_arg` -/
inductive Arg where
  | str (s : String)
  | none
  | callable
  | other          -- neither a string, `None`, nor callable
deriving DecidableEq, Repr

inductive Kind where
  | pinv | lu | cholesky | splu
  | krylov (name : String)
  | relax (name : String)
  | noSolve
  | callable
deriving DecidableEq, Repr

def krylovNames : List String := ["bicg", "bicgstab", "cg", "cgs", "gmres", "qmr", "minres"]
def relaxNames : List String :=
  ["gauss_seidel", "jacobi", "block_gauss_seidel", "schwarz", "block_jacobi", "richardson", "sor",
   "chebyshev", "jacobi_ne", "gauss_seidel_ne", "gauss_seidel_nr"]

/-- the dispatch chain; `none` = `ValueError('unknown solver: ...')` -/
def dispatch : Arg → Option Kind
  | .str s =>
    if s = "pinv" ∨ s = "pinv2" then some .pinv
    else if s = "lu" then some .lu
    else if s = "cholesky" then some .cholesky
    else if s = "splu" then some .splu
    else if s ∈ krylovNames then some (.krylov s)
    else if s ∈ relaxNames then some (.relax s)
    else none
  | .none => some .noSolve
  | .callable => some .callable
  | .other => none

/-- the keyword dictionary of a `(name, kwargs)` tuple, as far as the model interprets it -/
structure Opts (α : Type) where
  iterations : Option Nat := none
  sweep : Option Sweep := none
  omega : Option α := none
  withrho : Option Bool := none

/-! ## arrays with a NumPy shape -/

inductive Shape where
  | vec          -- (n,)
  | col          -- (n, 1)
deriving DecidableEq, Repr

structure Arr (α : Type) where
  data : Array α
  shape : Shape
deriving DecidableEq

/-- `x.reshape(b.shape)`: succeeds iff the element counts agree -/
def reshape (x : Arr α) (b : Arr α) : Except String (Arr α) :=
  if x.data.size = b.data.size then .ok ⟨x.data, b.shape⟩ else .error "reshape"

/-! ## dense linear algebra (explicit dimensions) -/

def zeroD (nr nc : Nat) : Dense α := (Array.range nr).map (fun _ => (Array.range nc).map (fun _ => (0 : α)))

def idD (n : Nat) : Dense α :=
  (Array.range n).map (fun i => (Array.range n).map (fun j => if i = j then (1 : α) else 0))

/-- the `nr × nc` window of `M` in canonical form (rows of length `nc`) -/
def normalize (M : Dense α) (nr nc : Nat) : Dense α :=
  (Array.range nr).map (fun i => (Array.range nc).map (fun j => rdD M i j))

/-- `M @ x` for an `nr × nc` matrix -/
def matVec (M : Dense α) (nr nc : Nat) (x : Array α) : Array α :=
  (Array.range nr).map (fun i => (List.range nc).foldl (fun s j => s + rdD M i j * rd x j) (0 : α))

/-- conjugate transpose of an `nr × nc` matrix (`conj = id` on the rationals) -/
def conjT (conj : α → α) (M : Dense α) (nr nc : Nat) : Dense α :=
  (Array.range nc).map (fun j => (Array.range nr).map (fun i => conj (rdD M i j)))

/-- `M[rows][:, cols]` -/
def submat (M : Dense α) (rows cols : List Nat) : Dense α :=
  rows.toArray.map (fun i => cols.toArray.map (fun j => rdD M i j))

/-- reduced row echelon form of an `nr × nc` matrix and its pivot columns -/
def rref (M : Dense α) (nr nc : Nat) : Dense α × List Nat :=
  let step : Dense α × Nat × List Nat → Nat → Dense α × Nat × List Nat := fun st c =>
    let (M, r, piv) := st
    match (List.range' r (nr - r)).find? (fun i => decide (rdD M i c ≠ 0)) with
    | Option.none => st
    | some p =>
      let rowp := M.getD p #[]
      let rowr := M.getD r #[]
      let M := (M.setIfInBounds p rowr).setIfInBounds r rowp
      let pv := rd rowp c
      let prow := rowp.map (fun v => v / pv)
      let M' := (Array.range nr).map (fun i =>
        if i = r then prow
        else
          let f := rdD M i c
          (Array.range nc).map (fun j => rdD M i j - f * rd prow j))
      (M', r + 1, piv ++ [c])
  let (R, _, piv) := (List.range nc).foldl step (normalize M nr nc, 0, [])
  (R, piv)

/-- inverse of an `r × r` matrix, column by column with `gaussSolve`; `none` when singular -/
def invD (G : Dense α) (r : Nat) : Option (Dense α) :=
  let Gn := normalize G r r
  let cols := (List.range r).map (fun j =>
    gaussSolve Gn ((Array.range r).map (fun i => if i = j then (1 : α) else 0)))
  if cols.all Option.isSome then
    let cs := cols.map (fun c => c.getD #[])
    some ((Array.range r).map (fun i => (Array.range r).map (fun j => rd (cs.getD j #[]) i)))
  else Option.none

/-- the Moore-Penrose inverse of an `n × n` matrix through a rank factorisation `A = B C`
(`B` = the pivot columns of `A`, `C` = the non-zero rows of `rref A`):
`A⁺ = Cᴴ (C Cᴴ)⁻¹ (Bᴴ B)⁻¹ Bᴴ`.  Its correctness is not assumed anywhere: every use checks `isPinv`. -/
def pinvD (conj : α → α) (A : Dense α) (n : Nat) : Dense α :=
  let (R, piv) := rref A n n
  let r := piv.length
  if r = 0 then zeroD n n
  else
    let B := submat A (List.range n) piv          -- n × r
    let C := submat R (List.range r) (List.range n)   -- r × n
    let Bh := conjT conj B n r                    -- r × n
    let Ch := conjT conj C r n                    -- n × r
    match invD (mulD C Ch r n r) r, invD (mulD Bh B r n r) r with
    | some G1, some G2 => mulD Ch (mulD G1 (mulD G2 Bh r r n) r r n) n r n
    | _, _ => zeroD n n

/-- the four Penrose equations, decided exactly: `A X A = A`, `X A X = X`, `(A X)ᴴ = A X`, `(X A)ᴴ = X A` -/
def isPinv (conj : α → α) (A X : Dense α) (n : Nat) : Bool :=
  let AX := mulD A X n n n
  let XA := mulD X A n n n
  decide (mulD AX A n n n = normalize A n n) && decide (mulD XA X n n n = normalize X n n)
    && decide (conjT conj AX n n = AX) && decide (conjT conj XA n n = XA)

/-- `X` is the inverse of `M`: `M X = I` (for square matrices this gives `X M = I`) -/
def isInv (M X : Dense α) (n : Nat) : Bool := decide (mulD M X n n n = idD n)

/-- the inverse when `M` is nonsingular, certified by `isInv` -/
def inverse? (conj : α → α) (M : Dense α) (n : Nat) : Option (Dense α) :=
  let X := pinvD conj M n
  if isInv M X n then some X else Option.none

/-- Hermitian and positive definite: `M = Mᴴ` and all pivots of the elimination without pivoting are
positive (`isPos`), i.e. all leading principal minors are -/
def isHPD (conj : α → α) (isPos : α → Bool) (M : Dense α) (n : Nat) : Bool :=
  let herm := decide (conjT conj M n n = normalize M n n)
  let step : Option (Dense α) → Nat → Option (Dense α) := fun st c =>
    match st with
    | Option.none => Option.none
    | some M =>
      let p := rdD M c c
      if isPos p then
        some ((Array.range n).map (fun i =>
          if i ≤ c then (Array.range n).map (fun j => rdD M i j)
          else
            let f := rdD M i c / p
            (Array.range n).map (fun j => rdD M i j - f * rdD M c j)))
      else Option.none
  herm && ((List.range n).foldl step (some M)).isSome

/-! ## CSR side: stored entries, the `splu` compression -/

/-- `A.nnz`: the number of stored entries (explicit zeros count) -/
def nnz (A : Csr α) : Nat := rdN A.ap A.n

/-- `nonzero_cols` of the `splu` branch: the columns that keep an entry after `eliminate_zeros()` -/
def nzCols (A : Csr α) : List Nat :=
  (List.range A.n).filter (fun j =>
    (List.range (nnz A)).any (fun jj => rdN A.aj jj = j && decide (rd A.ax jj ≠ 0)))

/-- `Map.T @ b` -/
def gather (nz : List Nat) (b : Array α) : Array α := nz.toArray.map (fun j => rd b j)

/-- `Map @ y`: `x[nz[k]] = y[k]`, zero elsewhere -/
def scatter (nz : List Nat) (y : Array α) (n : Nat) : Array α :=
  (Array.range n).map (fun j => if j ∈ nz then rd y (nz.idxOf j) else (0 : α))

/-! ## cached factorisations -/

/-- what the attributes `self.P` / `self.LU` / `self.L` / `self.LU, self.LU_Map` determine -/
inductive Fact (α : Type) where
  | pinvP (n : Nat) (P : Dense α)
  | inv (n : Nat) (X : Option (Dense α))                       -- lu_factor / cho_factor
  | splu (n : Nat) (nz : List Nat) (X : Dense α)               -- splu of the compressed matrix + Map

/-- the first-call branch `if not hasattr(self, ...)` of the four direct solvers.
An error is an exception raised by the factorisation routine (nothing is stored then). -/
def factor (conj : α → α) (isPos : α → Bool) (k : Kind) (A : Csr α) : Except String (Fact α) :=
  let n := A.n
  let M := toDense A n
  match k with
  | .pinv => .ok (.pinvP n (pinvD conj M n))
  | .lu => .ok (.inv n (inverse? conj M n))           -- lu_factor only warns on a singular matrix
  | .cholesky =>
    if isHPD conj isPos M n then .ok (.inv n (inverse? conj M n))
    else .error "not-hpd"                             -- LinAlgError, or silently one triangle only
  | .splu =>
    let nz := nzCols A
    match inverse? conj (submat M nz nz) nz.length with
    | some X => .ok (.splu n nz X)
    | Option.none => .error "singular"                -- RuntimeError: Factor is exactly singular
  | _ => .error "no-factorisation"

/-- the `return ...` line of the direct solvers: raw result with the shape it has before the
final reshape -/
def applyFact (f : Fact α) (b : Arr α) : Except String (Arr α) :=
  match f with
  | .pinvP n P =>
    if b.data.size = n then .ok ⟨matVec P n n b.data, b.shape⟩ else .error "shape"
  | .inv n (some X) =>
    if b.data.size = n then .ok ⟨matVec X n n b.data, b.shape⟩ else .error "shape"
  | .inv _ Option.none => .error "singular"           -- lu_solve returns inf / nan
  | .splu n nz X =>
    if b.data.size = n then
      .ok ⟨scatter nz (matVec X nz.length nz.length (gather nz b.data)) n, .vec⟩
    else .error "shape"

def isDirect : Kind → Bool
  | .pinv | .lu | .cholesky | .splu => true
  | _ => false

/-! ## relaxation-based coarse solvers -/

/-- `x = np.zeros_like(b); relax(A, x, b); return x` with `relax = setup_<name>(lvl, **kwargs)`,
`kwargs['iterations']` defaulting to 10 -/
def relaxSolve (name : String) (o : Opts α) (A : Csr α) (b : Array α) : Except String (Array α) :=
  let iters := o.iterations.getD 10
  let x0 : Array α := Array.replicate b.size (0 : α)
  if b.size ≠ A.n then .error "shape"
  else if name = "gauss_seidel" then
    if o.omega.isSome || o.withrho.isSome then .error "TypeError"
    else .ok (pyGaussSeidel (1 : α) A b iters (o.sweep.getD .forward) x0)
  else if name = "sor" then
    if o.withrho.isSome then .error "TypeError"
    else .ok (pyGaussSeidel (o.omega.getD ((1 : α) / ((1 : α) + 1))) A b iters (o.sweep.getD .forward) x0)
  else if name = "jacobi" then
    if o.sweep.isSome then .error "TypeError"
    else match o.withrho with
      | some false => .ok (pyJacobi (o.omega.getD (1 : α)) A b iters x0)
      | _ => .error "unmodelled"                      -- omega / rho(D⁻¹A): a spectral-radius estimate
  else .error "unmodelled"

/-! ## the solver object -/

structure St (α : Type) where
  fact : Option (Fact α) := Option.none

/-- `solve(self, A, b)`; returns the new state, the raw result and whether the factorisation routine
was called. `cb` is the user's callable (for `Kind.callable`). -/
def solve (conj : α → α) (isPos : α → Bool) (cb : Csr α → Arr α → Except String (Arr α))
    (k : Kind) (o : Opts α) (st : St α) (A : Csr α) (b : Arr α) : St α × Except String (Arr α) × Bool :=
  match k with
  | .noSolve => (st, .ok ⟨b.data.map (fun _ => (0 : α)), b.shape⟩, false)          -- `0 * b`
  | .callable => (st, cb A b, false)
  | .relax name => (st, (relaxSolve name o A b.data).map (fun x => ⟨x, b.shape⟩), false)
  | .krylov _ => (st, .error "unmodelled", false)
  | k =>
    match st.fact with
    | some f => (st, applyFact f b, false)
    | Option.none =>
      match factor conj isPos k A with
      | .ok f => (⟨some f⟩, applyFact f b, true)
      | .error e => (st, .error e, true)

/-- `GenericSolver.__call__(A, b)` -/
def call (conj : α → α) (isPos : α → Bool) (cb : Csr α → Arr α → Except String (Arr α))
    (k : Kind) (o : Opts α) (st : St α) (A : Csr α) (b : Arr α) : St α × Except String (Arr α) × Bool :=
  if nnz A = 0 then
    (st, .ok ⟨Array.replicate b.data.size (0 : α), b.shape⟩, false)
  else
    let (st', r, f) := solve conj isPos cb k o st A b
    (st', r.bind (fun x => reshape x b), f)

/-- a history of calls on one solver object: final state, results, number of factorisation calls -/
def run (conj : α → α) (isPos : α → Bool) (cb : Csr α → Arr α → Except String (Arr α))
    (k : Kind) (o : Opts α) : St α → List (Csr α × Arr α) → St α × List (Except String (Arr α)) × Nat
  | st, [] => (st, [], 0)
  | st, (A, b) :: rest =>
    let (st', r, f) := call conj isPos cb k o st A b
    let (st'', rs, c) := run conj isPos cb k o st' rest
    (st'', r :: rs, c + (if f then 1 else 0))

/-- `coarse_grid_solver(solver)` followed by a history of calls; `none` = the constructor raised -/
def coarseGridSolver (conj : α → α) (isPos : α → Bool) (cb : Csr α → Arr α → Except String (Arr α))
    (a : Arg) (o : Opts α) (hist : List (Csr α × Arr α)) :
    Option (List (Except String (Arr α)) × Nat) :=
  (dispatch a).map (fun k => let (_, rs, c) := run conj isPos cb k o {} hist; (rs, c))

/-! ## exact judgements of real outputs -/

/-- `xᴴ A x` and `xᴴ b` (with `conj`), the ingredients of `J(x) = xᴴAx − 2 Re xᴴb = ‖x*−x‖²_A − ‖x*‖²_A` -/
def cdot (conj : α → α) (x y : Array α) : α :=
  (List.range x.size).foldl (fun s i => s + conj (rd x i) * rd y i) (0 : α)

end PyamgV.C16
