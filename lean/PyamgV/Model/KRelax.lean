/-! PyamgV: executable models of the relaxation kernels (relaxation.h), polymorphic scalar.
Import-free. Vectors are `Array α`; CSR = (ap, aj, ax). -/
namespace PyamgV.K

structure Csr (α : Type) where
  n  : Nat
  ap : Array Nat
  aj : Array Nat
  ax : Array α

variable {α : Type} [Add α] [Sub α] [Mul α] [Div α] [OfNat α 0] [OfNat α 1] [DecidableEq α]

@[inline] def rd (a : Array α) (i : Nat) : α := a.getD i 0
@[inline] def wr (a : Array α) (i : Nat) (v : α) : Array α := a.setIfInBounds i v
@[inline] def rdN (a : Array Nat) (i : Nat) : Nat := a.getD i 0

/-- entries (jj) of row i -/
def Csr.jjs (A : Csr α) (i : Nat) : List Nat :=
  List.range' (rdN A.ap i) (rdN A.ap (i+1) - rdN A.ap i)

/-- the index sequence of `for(i = start; i != stop; i += step)` for the ranges the Python
callers produce (`range(start, stop, step)` semantics, ints may be negative) -/
def sweepIdx (start stop step : Int) : List Nat :=
  if step > 0 then
    (List.range ((stop - start + step - 1) / step).toNat).map (fun (k : Nat) => (start + step * (k : Int)).toNat)
  else if step < 0 then
    (List.range ((start - stop + (-step) - 1) / (-step)).toNat).map (fun (k : Nat) => (start + step * (k : Int)).toNat)
  else []

/-- `gauss_seidel` -/
def gaussSeidel (A : Csr α) (b : Array α) (rows : List Nat) (x : Array α) : Array α :=
  rows.foldl (fun x i =>
    let (rsum, diag) := (A.jjs i).foldl (fun (acc : α × α) jj =>
      let j := rdN A.aj jj
      if i = j then (acc.1, rd A.ax jj) else (acc.1 + rd A.ax jj * rd x j, acc.2)) ((0:α), (0:α))
    if diag = 0 then x else wr x i ((rd b i - rsum) / diag)) x

/-- `sor_gauss_seidel` -/
def sorGaussSeidel (ω : α) (A : Csr α) (b : Array α) (rows : List Nat) (x : Array α) : Array α :=
  rows.foldl (fun x i =>
    let (rsum, diag) := (A.jjs i).foldl (fun (acc : α × α) jj =>
      let j := rdN A.aj jj
      if i = j then (acc.1, rd A.ax jj) else (acc.1 + rd A.ax jj * rd x j, acc.2)) ((0:α), (0:α))
    if diag = 0 then x else wr x i (ω * ((rd b i - rsum) / diag) + (1 - ω) * rd x i)) x

/-- `jacobi` (temp copied on swept rows only; `temp0` is the caller's uninitialised buffer) -/
def jacobi (ω : α) (A : Csr α) (b : Array α) (rows : List Nat) (temp0 x : Array α) : Array α :=
  let temp := rows.foldl (fun t i => wr t i (rd x i)) temp0
  rows.foldl (fun x i =>
    let (rsum, diag) := (A.jjs i).foldl (fun (acc : α × α) jj =>
      let j := rdN A.aj jj
      if i = j then (acc.1, rd A.ax jj) else (acc.1 + rd A.ax jj * rd temp j, acc.2)) ((0:α), (0:α))
    if diag = 0 then x else wr x i ((1 - ω) * rd temp i + ω * ((rd b i - rsum) / diag))) x

/-- `jacobi_indexed` (temp = full copy of x) -/
def jacobiIndexed (ω : α) (A : Csr α) (b : Array α) (indices : List Nat) (x : Array α) : Array α :=
  let temp := x
  indices.foldl (fun x row =>
    let (rsum, diag) := (A.jjs row).foldl (fun (acc : α × α) jj =>
      let col := rdN A.aj jj
      if row = col then (acc.1, rd A.ax jj) else (acc.1 + rd A.ax jj * rd temp col, acc.2)) ((0:α), (0:α))
    if diag = 0 then x else wr x row ((1 - ω) * rd temp row + ω * ((rd b row - rsum) / diag))) x

/-- `gauss_seidel_indexed`: positions `pos` into `Id` -/
def gaussSeidelIndexed (A : Csr α) (b : Array α) (Id : Array Nat) (pos : List Nat) (x : Array α) : Array α :=
  gaussSeidel A b (pos.map (rdN Id)) x

/-- `gauss_seidel_ne` (Kaczmarz), `conj` supplied by the caller (identity for real data) -/
def gaussSeidelNE (conj : α → α) (ω : α) (A : Csr α) (b Dinv : Array α) (rows : List Nat) (x : Array α) : Array α :=
  rows.foldl (fun x i =>
    let s := (A.jjs i).foldl (fun s jj => s + rd A.ax jj * rd x (rdN A.aj jj)) (0:α)
    let delta := (rd b i - s) * rd Dinv i * ω
    (A.jjs i).foldl (fun x jj => wr x (rdN A.aj jj) (rd x (rdN A.aj jj) + conj (rd A.ax jj) * delta)) x) x

/-- `gauss_seidel_nr` on CSC arrays; returns (x, r) -/
def gaussSeidelNR (conj : α → α) (ω : α) (A : Csr α) (Dinv : Array α) (cols : List Nat)
    (x r : Array α) : Array α × Array α :=
  cols.foldl (fun (xr : Array α × Array α) i =>
    let (x, r) := xr
    let d0 := (A.jjs i).foldl (fun s jj => s + conj (rd A.ax jj) * rd r (rdN A.aj jj)) (0:α)
    let delta := d0 * (rd Dinv i * ω)
    let x := wr x i (rd x i + delta)
    let r := (A.jjs i).foldl (fun r jj => wr r (rdN A.aj jj) (rd r (rdN A.aj jj) - delta * rd A.ax jj)) r
    (x, r)) (x, r)

/-- `jacobi_ne`: x += ω Aᴴ delta on swept rows (`delta` precomputed by the Python driver) -/
def jacobiNE (conj : α → α) (ω : α) (A : Csr α) (delta : Array α) (rows : List Nat) (x : Array α) : Array α :=
  let temp0 : Array α := rows.foldl (fun t i => wr t i 0) (Array.replicate x.size 0)
  let temp := rows.foldl (fun t i =>
    (A.jjs i).foldl (fun t jj => wr t (rdN A.aj jj) (rd t (rdN A.aj jj) + ω * conj (rd A.ax jj) * rd delta i)) t) temp0
  rows.foldl (fun x i => wr x i (rd x i + rd temp i)) x

/-! ### the Python drivers of relaxation.py (CSR input): choice of kernel, sweep range, iterations -/

inductive Sweep where
  | forward | backward | symmetric
deriving DecidableEq, Repr

/-- rows visited by `row_start, row_stop, row_step = 0, n, 1` resp. `n-1, -1, -1` -/
def dirRows (n : Nat) (backward : Bool) : List Nat :=
  if backward then (List.range n).reverse else List.range n

/-- one directional pass of `gauss_seidel(...)`: `sor_gauss_seidel` iff `omega != 1.0` -/
def gsPass (ω : α) (A : Csr α) (b : Array α) (backward : Bool) (x : Array α) : Array α :=
  if ω = 1 then gaussSeidel A b (dirRows A.n backward) x
  else sorGaussSeidel ω A b (dirRows A.n backward) x

def iter {β : Type} (f : β → β) : Nat → β → β
  | 0, x => x
  | k+1, x => iter f k (f x)

/-- `relaxation.gauss_seidel(A, x, b, iterations, sweep, omega)` (and `sor`, which forwards to it):
`symmetric` = per iteration a forward pass then a backward pass, both with the caller's `omega` -/
def pyGaussSeidel (ω : α) (A : Csr α) (b : Array α) (iters : Nat) (sw : Sweep) (x : Array α) : Array α :=
  match sw with
  | .forward => iter (gsPass ω A b false) iters x
  | .backward => iter (gsPass ω A b true) iters x
  | .symmetric => iter (fun x => gsPass ω A b true (gsPass ω A b false x)) iters x

/-- `relaxation.jacobi(A, x, b, iterations, omega)`: all rows, fresh `temp` each call -/
def pyJacobi (ω : α) (A : Csr α) (b : Array α) (iters : Nat) (x : Array α) : Array α :=
  iter (fun x => jacobi ω A b (List.range A.n) (Array.replicate x.size 0) x) iters x

/-- `relaxation.gauss_seidel_indexed(A, x, b, indices, iterations, sweep)` -/
def pyGaussSeidelIndexed (A : Csr α) (b : Array α) (Id : Array Nat) (iters : Nat) (sw : Sweep) (x : Array α) : Array α :=
  let fwd := fun x => gaussSeidelIndexed A b Id (List.range Id.size) x
  let bwd := fun x => gaussSeidelIndexed A b Id (List.range Id.size).reverse x
  match sw with
  | .forward => iter fwd iters x
  | .backward => iter bwd iters x
  | .symmetric => iter (fun x => bwd (fwd x)) iters x

/-- `relaxation.jacobi_indexed(A, x, b, indices, iterations, omega)` -/
def pyJacobiIndexed (ω : α) (A : Csr α) (b : Array α) (indices : List Nat) (iters : Nat) (x : Array α) : Array α :=
  iter (jacobiIndexed ω A b indices) iters x

/-- `cf_jacobi` / `fc_jacobi`: per iteration `c_iterations` C-sweeps and `f_iterations` F-sweeps in the stated order -/
def pyCFJacobi (cFirst : Bool) (ω : α) (A : Csr α) (b : Array α) (C F : List Nat) (iters fIt cIt : Nat) (x : Array α) : Array α :=
  let cs := iter (jacobiIndexed ω A b C) cIt
  let fs := iter (jacobiIndexed ω A b F) fIt
  iter (fun x => if cFirst then fs (cs x) else cs (fs x)) iters x

end PyamgV.K
