/-! PyamgV: executable models of the relaxation kernels (relaxation.h), polymorphic scalar.
Import-free. Vectors are `Array α`; CSR = (ap, aj, ax). -/
namespace PyamgV.K

structure Csr (α : Type) where
  n  : Nat
  ap : Array Nat
  aj : Array Nat
  ax : Array α

variable {α : Type} [Add α] [Sub α] [Mul α] [Div α] [OfNat α 0] [OfNat α 1] [DecidableEq α]

@[inline] def rd (a : Array α) (i : Nat) : α := a.getD i 0
@[inline] def wr (a : Array α) (i : Nat) (v : α) : Array α := a.setIfInBounds i v
@[inline] def rdN (a : Array Nat) (i : Nat) : Nat := a.getD i 0

/-- entries (jj) of row i -/
def Csr.jjs (A : Csr α) (i : Nat) : List Nat :=
  List.range' (rdN A.ap i) (rdN A.ap (i+1) - rdN A.ap i)

/-- the index sequence of `for(i = start; i != stop; i += step)` for the ranges the Python
callers produce (`range(start, stop, step)` semantics, ints may be negative) -/
def sweepIdx (start stop step : Int) : List Nat :=
  if step > 0 then
    (List.range ((stop - start + step - 1) / step).toNat).map (fun (k : Nat) => (start + step * (k : Int)).toNat)
  else if step < 0 then
    (List.range ((start - stop + (-step) - 1) / (-step)).toNat).map (fun (k : Nat) => (start + step * (k : Int)).toNat)
  else []

/-- `gauss_seidel` -/
def gaussSeidel (A : Csr α) (b : Array α) (rows : List Nat) (x : Array α) : Array α :=
  rows.foldl (fun x i =>
    let (rsum, diag) := (A.jjs i).foldl (fun (acc : α × α) jj =>
      let j := rdN A.aj jj
      if i = j then (acc.1, rd A.ax jj) else (acc.1 + rd A.ax jj * rd x j, acc.2)) ((0:α), (0:α))
    if diag = 0 then x else wr x i ((rd b i - rsum) / diag)) x

/-- `sor_gauss_seidel` -/
def sorGaussSeidel (ω : α) (A : Csr α) (b : Array α) (rows : List Nat) (x : Array α) : Array α :=
  rows.foldl (fun x i =>
    let (rsum, diag) := (A.jjs i).foldl (fun (acc : α × α) jj =>
      let j := rdN A.aj jj
      if i = j then (acc.1, rd A.ax jj) else (acc.1 + rd A.ax jj * rd x j, acc.2)) ((0:α), (0:α))
    if diag = 0 then x else wr x i (ω * ((rd b i - rsum) / diag) + (1 - ω) * rd x i)) x

/-- `jacobi` (temp copied on swept rows only; `temp0` is the caller's uninitialised buffer) -/
def jacobi (ω : α) (A : Csr α) (b : Array α) (rows : List Nat) (temp0 x : Array α) : Array α :=
  let temp := rows.foldl (fun t i => wr t i (rd x i)) temp0
  rows.foldl (fun x i =>
    let (rsum, diag) := (A.jjs i).foldl (fun (acc : α × α) jj =>
      let j := rdN A.aj jj
      if i = j then (acc.1, rd A.ax jj) else (acc.1 + rd A.ax jj * rd temp j, acc.2)) ((0:α), (0:α))
    if diag = 0 then x else wr x i ((1 - ω) * rd temp i + ω * ((rd b i - rsum) / diag))) x

/-- `jacobi_indexed` (temp = full copy of x) -/
def jacobiIndexed (ω : α) (A : Csr α) (b : Array α) (indices : List Nat) (x : Array α) : Array α :=
  let temp := x
  indices.foldl (fun x row =>
    let (rsum, diag) := (A.jjs row).foldl (fun (acc : α × α) jj =>
      let col := rdN A.aj jj
      if row = col then (acc.1, rd A.ax jj) else (acc.1 + rd A.ax jj * rd temp col, acc.2)) ((0:α), (0:α))
    if diag = 0 then x else wr x row ((1 - ω) * rd temp row + ω * ((rd b row - rsum) / diag))) x

/-- `gauss_seidel_indexed`: positions `pos` into `Id` -/
def gaussSeidelIndexed (A : Csr α) (b : Array α) (Id : Array Nat) (pos : List Nat) (x : Array α) : Array α :=
  gaussSeidel A b (pos.map (rdN Id)) x

/-- `gauss_seidel_ne` (Kaczmarz), `conj` supplied by the caller (identity for real data) -/
def gaussSeidelNE (conj : α → α) (ω : α) (A : Csr α) (b Dinv : Array α) (rows : List Nat) (x : Array α) : Array α :=
  rows.foldl (fun x i =>
    let s := (A.jjs i).foldl (fun s jj => s + rd A.ax jj * rd x (rdN A.aj jj)) (0:α)
    let delta := (rd b i - s) * rd Dinv i * ω
    (A.jjs i).foldl (fun x jj => wr x (rdN A.aj jj) (rd x (rdN A.aj jj) + conj (rd A.ax jj) * delta)) x) x

/-- `gauss_seidel_nr` on CSC arrays; returns (x, r) -/
def gaussSeidelNR (conj : α → α) (ω : α) (A : Csr α) (Dinv : Array α) (cols : List Nat)
    (x r : Array α) : Array α × Array α :=
  cols.foldl (fun (xr : Array α × Array α) i =>
    let (x, r) := xr
    let d0 := (A.jjs i).foldl (fun s jj => s + conj (rd A.ax jj) * rd r (rdN A.aj jj)) (0:α)
    let delta := d0 * (rd Dinv i * ω)
    let x := wr x i (rd x i + delta)
    let r := (A.jjs i).foldl (fun r jj => wr r (rdN A.aj jj) (rd r (rdN A.aj jj) - delta * rd A.ax jj)) r
    (x, r)) (x, r)

/-- `jacobi_ne`: x += ω Aᴴ delta on swept rows (`delta` precomputed by the Python driver) -/
def jacobiNE (conj : α → α) (ω : α) (A : Csr α) (delta : Array α) (rows : List Nat) (x : Array α) : Array α :=
  let temp0 : Array α := rows.foldl (fun t i => wr t i 0) (Array.replicate x.size 0)
  let temp := rows.foldl (fun t i =>
    (A.jjs i).foldl (fun t jj => wr t (rdN A.aj jj) (rd t (rdN A.aj jj) + ω * conj (rd A.ax jj) * rd delta i)) t) temp0
  rows.foldl (fun x i => wr x i (rd x i + rd temp i)) x

end PyamgV.K
