import PyamgV.Model.ExtC17Ck

/-! PyamgV (C17, extension E7): checked-execution (`Ck`) models of the BSR / block relaxation kernels of
`relaxation.h` -- `bsr_gauss_seidel`, `bsr_jacobi`, `block_jacobi`, `block_gauss_seidel` -- and of the
dense helper `gemm` (linalg.h) in the only mode these kernels use (`Atrans = Btrans = Strans = 'F'`,
`overwrite = 'T'`).

A C pointer into an array (`&(Ax[jj*B2])`) is a pair (array, offset); `gemm` is transcribed with its
running counters `s_counter`, `a_counter`, `b_counter`, `a_start` as loop state and with all six
dimensions as parameters.  The work vectors `new T[blocksize]` (`rsum`, `Axloc`, `v`) are part of the
state.  The point sweeps inside the diagonal block, `for(k = step_start; k != step_end; k += step)`, are
`forStride` loops with fuel `blocksize`, embedded with `orFault`.  The block size is a parameter
(`Nat`, as the Python callers pass it).  Core Lean only. -/
namespace PyamgV.C17
open PyamgV.Ck

variable {α : Type} [Inhabited α]

/-! ### linalg.h: `gemm`, mode `('F','F','F','T')` -/

/-- `gemm(&Ax[ao], arows, acols, 'F', &Bx[bo], brows, bcols, 'F', &Sx[so], srows, scols, 'F', 'T')`;
returns the array holding `S` -/
def gemmFF (o : KOps α) (ax : Array α) (ao : Int) (arows acols : Nat) (bx : Array α) (bo : Int)
    (brows bcols : Nat) (sx : Array α) (so : Int) (srows scols : Nat) : Ck (Array α) := do
  -- `std::fill(Sx, Sx + Srows*Scols, 0)`
  let sx ← forRange 0 ((srows : Int) * (scols : Int)) sx (fun t (sx : Array α) => wr sx (so + t) o.zero)
  -- state of the `i` loop: `(Sx, s_counter, a_start)`
  let r ← forRange 0 (arows : Int) (sx, (0 : Int), (0 : Int)) (fun _ (st : Array α × Int × Int) => do
    -- state of the `j` loop: `(Sx, s_counter, b_counter)`, `b_counter = 0`
    let r ← forRange 0 (bcols : Int) (st.1, st.2.1, (0 : Int)) (fun _ (st2 : Array α × Int × Int) => do
      -- state of the `k` loop: `(Sx, a_counter, b_counter)`, `a_counter = a_start`
      let r ← forRange 0 (brows : Int) (st2.1, st.2.2, st2.2.2) (fun _ (st3 : Array α × Int × Int) => do
        -- `Sx[s_counter] += Ax[a_counter]*Bx[b_counter]; a_counter++; b_counter++;`
        let s ← rd st3.1 (so + st2.2.1)
        let a ← rd ax (ao + st3.2.1)
        let b ← rd bx (bo + st3.2.2)
        let sx ← wr st3.1 (so + st2.2.1) (o.add s (o.mul a b))
        pure (sx, st3.2.1 + 1, st3.2.2 + 1))
      -- `s_counter++`
      pure (r.1, st2.2.1 + 1, r.2.2))
    -- `a_start += Acols`
    pure (r.1, r.2.1, st.2.2 + (acols : Int)))
  pure r.1

/-- direction of the point sweep inside a block: `(step, step_start, step_end)` -/
def blockDir (rowStep : Int) (bs : Nat) : Int × Int × Int :=
  if rowStep < 0 then (-1, (bs : Int) - 1, -1) else (1, 0, (bs : Int))

/-! ### `bsr_gauss_seidel` -/

/-- state: `x`, `rsum`, `Axloc` -/
abbrev BSt (α : Type) := Array α × Array α × Array α

/-- `for(k = 0; k < blocksize; k++) rsum[k] = b[i*blocksize+k]` -/
def bsrInitRsum (b : Array α) (bs : Nat) (i : Int) (rsum : Array α) : Ck (Array α) :=
  forRange 0 (bs : Int) rsum (fun k (rs : Array α) => do
    let bv ← rd b (i * (bs : Int) + k)
    wr rs k bv)

/-- the loop over block row `i`: off-diagonal blocks are multiplied with `v` (`x` or `temp`) through `gemm`
and subtracted from `rsum`; state `(rsum, Axloc, diag_ptr)` -/
def bsrOffDiag (o : KOps α) (G : Csr α) (bs : Nat) (v : Array α) (i s e : Int) (rsum axloc : Array α) :
    Ck (Array α × Array α × Int) :=
  forRange s e (rsum, axloc, (-1 : Int)) (fun jj (acc : Array α × Array α × Int) => do
    let j ← rd G.aj jj
    if i = j then pure (acc.1, acc.2.1, jj * ((bs : Int) * (bs : Int)))
    else do
      let axl ← gemmFF o G.ax (jj * ((bs : Int) * (bs : Int))) bs bs v (j * (bs : Int)) bs 1 acc.2.1 0 bs 1
      let rs ← forRange 0 (bs : Int) acc.1 (fun m (rs : Array α) => do
        let r ← rd rs m
        let a ← rd axl m
        wr rs m (o.sub r a))
      pure (rs, axl, acc.2.2))

/-- the `kk` loop of the point sweep: `diag = Ax[k*bs + kk + diag_ptr]` or
`rsum[k] -= Ax[k*bs + kk + diag_ptr]*v[i*bs+kk]`; state `(rsum, diag)` -/
def bsrPointRow (o : KOps α) (G : Csr α) (bs : Nat) (v : Array α) (i dptr k : Int) (kk : Int)
    (acc : Array α × α) : Ck (Array α × α) :=
  if k = kk then do
    let d ← rd G.ax (k * (bs : Int) + kk + dptr)
    pure (acc.1, d)
  else do
    let rk ← rd acc.1 k
    let a ← rd G.ax (k * (bs : Int) + kk + dptr)
    let xv ← rd v (i * (bs : Int) + kk)
    let rs ← wr acc.1 k (o.sub rk (o.mul a xv))
    pure (rs, acc.2)

/-- one step `k` of the point-wise Gauss-Seidel over the diagonal block; state `(x, rsum)` -/
def bsrGsPoint (o : KOps α) (G : Csr α) (bs : Nat) (dir : Int × Int × Int) (i dptr : Int) (k : Int)
    (xs : Array α × Array α) : Ck (Array α × Array α) := do
  let dr ← orFault (forStride dir.2.2 dir.1 (bsrPointRow o G bs xs.1 i dptr k) bs dir.2.1 (pure (xs.2, o.one)))
  if o.isZero dr.2 then pure (xs.1, dr.1)
  else do
    let rk ← rd dr.1 k
    let x ← wr xs.1 (i * (bs : Int) + k) (o.div rk dr.2)
    pure (x, dr.1)

/-- one block row of `bsr_gauss_seidel` -/
def bsrGsRow (o : KOps α) (G : Csr α) (b : Array α) (bs : Nat) (dir : Int × Int × Int) (i : Int)
    (st : BSt α) : Ck (BSt α) := do
  let s ← rd G.ap i
  let e ← rd G.ap (i+1)
  let rsum ← bsrInitRsum b bs i st.2.1
  let r ← bsrOffDiag o G bs st.1 i s e rsum st.2.2
  if r.2.2 ≠ -1 then do
    let xr ← orFault (forStride dir.2.2 dir.1 (bsrGsPoint o G bs dir i r.2.2) bs dir.2.1 (pure (st.1, r.1)))
    pure (xr.1, xr.2, r.2.1)
  else pure (st.1, r.1, r.2.1)

/-- `bsr_gauss_seidel(Ap, Aj, Ax, x, b, row_start, row_stop, row_step, blocksize)`; `G.n` block rows;
returns `(x, rsum, Axloc)` -/
def bsrGaussSeidel (o : KOps α) (G : Csr α) (b : Array α) (bs : Nat) (start stop step : Int)
    (fuel : Nat) (x : Array α) : Option (Ck (BSt α)) :=
  forStride stop step (bsrGsRow o G b bs (blockDir step bs)) fuel start
    (pure (x, Array.replicate bs default, Array.replicate bs default))

/-! ### `bsr_jacobi` -/

/-- state: `x`, `temp`, `rsum`, `Axloc` -/
abbrev BJSt (α : Type) := Array α × Array α × Array α × Array α

/-- one step `k` of the point-wise Jacobi over the diagonal block; state `(x, rsum)`; reads `temp` -/
def bsrJacPoint (o : KOps α) (om : α) (G : Csr α) (bs : Nat) (dir : Int × Int × Int) (temp : Array α)
    (i dptr : Int) (k : Int) (xs : Array α × Array α) : Ck (Array α × Array α) := do
  let dr ← orFault (forStride dir.2.2 dir.1 (bsrPointRow o G bs temp i dptr k) bs dir.2.1 (pure (xs.2, o.one)))
  if o.isZero dr.2 then pure (xs.1, dr.1)
  else do
    let t ← rd temp (i * (bs : Int) + k)
    let rk ← rd dr.1 k
    let x ← wr xs.1 (i * (bs : Int) + k) (o.add (o.mul (o.sub o.one om) t) (o.div (o.mul om rk) dr.2))
    pure (x, dr.1)

/-- one block row of `bsr_jacobi` -/
def bsrJacRow (o : KOps α) (om : α) (G : Csr α) (b : Array α) (bs : Nat) (dir : Int × Int × Int) (i : Int)
    (st : BJSt α) : Ck (BJSt α) := do
  let s ← rd G.ap i
  let e ← rd G.ap (i+1)
  let rsum ← bsrInitRsum b bs i st.2.2.1
  let r ← bsrOffDiag o G bs st.2.1 i s e rsum st.2.2.2
  if r.2.2 ≠ -1 then do
    let xr ← orFault (forStride dir.2.2 dir.1 (bsrJacPoint o om G bs dir st.2.1 i r.2.2) bs dir.2.1 (pure (st.1, r.1)))
    pure (xr.1, st.2.1, xr.2, r.2.1)
  else pure (st.1, st.2.1, r.1, r.2.1)

/-- `bsr_jacobi(Ap, Aj, Ax, x, b, temp, row_start, row_stop, row_step, blocksize, omega)`:
`omega2 = omega[0]`, `for(i = 0; i < x_size; i++) temp[i] = x[i]`, then the strided block-row loop -/
def bsrJacobi (o : KOps α) (omv : Array α) (G : Csr α) (b : Array α) (bs : Nat) (start stop step : Int)
    (fuel : Nat) (x temp : Array α) : Option (Ck (BJSt α)) :=
  let om := rd omv 0
  let init : Ck (BJSt α) := do
    let _ ← om
    let t ← forRange 0 (x.size : Int) temp (fun i (t : Array α) => do
      let xi ← rd x i
      wr t i xi)
    pure (x, t, Array.replicate bs default, Array.replicate bs default)
  forStride stop step (bsrJacRow o om.val G b bs (blockDir step bs)) fuel start init

/-! ### `block_jacobi`, `block_gauss_seidel` -/

/-- `std::fill(&(rsum[0]), &(rsum[blocksize]), zero)` -/
def blkZero (o : KOps α) (bs : Nat) (rsum : Array α) : Ck (Array α) :=
  forRange 0 (bs : Int) rsum (fun k (rs : Array α) => wr rs k o.zero)

/-- the block dot product of block row `i` with `w` (`temp` or `x`), skipping the diagonal block:
`gemm(&Ax[jj*bs²], .., &w[j*bs], .., v)` and `rsum[k] += v[k]`; state `(rsum, v)` -/
def blkOffDiag (o : KOps α) (G : Csr α) (bs : Nat) (w : Array α) (i s e : Int) (rsum v : Array α) :
    Ck (Array α × Array α) :=
  forRange s e (rsum, v) (fun jj (acc : Array α × Array α) => do
    let j ← rd G.aj jj
    if i = j then pure acc
    else do
      let v ← gemmFF o G.ax (jj * ((bs : Int) * (bs : Int))) bs bs w (j * (bs : Int)) bs 1 acc.2 0 bs 1
      let rs ← forRange 0 (bs : Int) acc.1 (fun k (rs : Array α) => do
        let r ← rd rs k
        let a ← rd v k
        wr rs k (o.add r a))
      pure (rs, v))

/-- `for(k = 0; k < blocksize; k++) rsum[k] = b[iblocksize + k] - rsum[k]` -/
def blkResid (o : KOps α) (b : Array α) (bs : Nat) (i : Int) (rsum : Array α) : Ck (Array α) :=
  forRange 0 (bs : Int) rsum (fun k (rs : Array α) => do
    let bv ← rd b (i * (bs : Int) + k)
    let r ← rd rs k
    wr rs k (o.sub bv r))

/-- `std::copy(&(x[i]), &(x[i+blocksize]), &(temp[i]))` for block row `i` (`i*blocksize` in the C loop) -/
def blkCopy (bs : Nat) (i : Int) (st : BJSt α) : Ck (BJSt α) := do
  let t ← forRange 0 (bs : Int) st.2.1 (fun k (t : Array α) => do
    let xv ← rd st.1 (i * (bs : Int) + k)
    wr t (i * (bs : Int) + k) xv)
  pure (st.1, t, st.2.2.1, st.2.2.2)

/-- one block row of `block_jacobi`; state `(x, temp, rsum, v)` -/
def blkJacRow (o : KOps α) (om : α) (G : Csr α) (b dinv : Array α) (bs : Nat) (i : Int) (st : BJSt α) :
    Ck (BJSt α) := do
  let s ← rd G.ap i
  let e ← rd G.ap (i+1)
  let rsum ← blkZero o bs st.2.2.1
  let r ← blkOffDiag o G bs st.2.1 i s e rsum st.2.2.2
  let rsum ← blkResid o b bs i r.1
  let v ← gemmFF o dinv (i * ((bs : Int) * (bs : Int))) bs bs rsum 0 bs 1 r.2 0 bs 1
  let x ← forRange 0 (bs : Int) st.1 (fun k (x : Array α) => do
    let t ← rd st.2.1 (i * (bs : Int) + k)
    let vk ← rd v k
    wr x (i * (bs : Int) + k) (o.add (o.mul (o.sub o.one om) t) (o.mul om vk)))
  pure (x, st.2.1, rsum, v)

/-- `block_jacobi(Ap, Aj, Ax, x, b, Tx, temp, row_start, row_stop, row_step, omega, blocksize)`:
the copy loop `for(i = row_start*bs; i != row_stop*bs; i += row_step*bs)` is indexed by the block row
(`i/bs`; the same iterations for `bs ≥ 1`), then the strided sweep -/
def blockJacobi (o : KOps α) (omv : Array α) (G : Csr α) (b dinv : Array α) (bs : Nat)
    (start stop step : Int) (fuel : Nat) (x temp : Array α) : Option (Ck (BJSt α)) :=
  let om := rd omv 0
  match forStride stop step (blkCopy bs) fuel start
      (om >>= fun _ => pure (x, temp, Array.replicate bs default, Array.replicate bs default)) with
  | none => none
  | some st1 => forStride stop step (blkJacRow o om.val G b dinv bs) fuel start st1

/-- one block row of `block_gauss_seidel`; state `(x, rsum, v)`; the last `gemm` writes into `x` at
offset `i*blocksize` -/
def blkGsRow (o : KOps α) (G : Csr α) (b dinv : Array α) (bs : Nat) (i : Int) (st : BSt α) :
    Ck (BSt α) := do
  let s ← rd G.ap i
  let e ← rd G.ap (i+1)
  let rsum ← blkZero o bs st.2.1
  let r ← blkOffDiag o G bs st.1 i s e rsum st.2.2
  let rsum ← blkResid o b bs i r.1
  let x ← gemmFF o dinv (i * ((bs : Int) * (bs : Int))) bs bs rsum 0 bs 1 st.1 (i * (bs : Int)) bs 1
  pure (x, rsum, r.2)

/-- `block_gauss_seidel(Ap, Aj, Ax, x, b, Tx, row_start, row_stop, row_step, blocksize)` -/
def blockGaussSeidel (o : KOps α) (G : Csr α) (b dinv : Array α) (bs : Nat) (start stop step : Int)
    (fuel : Nat) (x : Array α) : Option (Ck (BSt α)) :=
  forStride stop step (blkGsRow o G b dinv bs) fuel start
    (pure (x, Array.replicate bs default, Array.replicate bs default))

end PyamgV.C17
