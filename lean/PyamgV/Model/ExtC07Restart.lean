import PyamgV.Model.C07Gmres
/-! PyamgV (C07, extension E11): restarted GMRES(MGS) -- the outer loop of `pyamg/krylov/_gmres_mgs.py`
(`for _outer in range(max_outer)`): a cycle of `restart` inner iterations (`gmresMgs`, the model of
`Model/C07Gmres.lean`; its last recorded iterate is the `x = x + update` of the end of the cycle), then
the next cycle starts from that iterate with a freshly computed preconditioned residual
(`r = M (b - A x)`, which is what `gmresInit` computes).  The stopping tests (`normr < tol * normMb`,
`change < 1e-12`) are bookkeeping and belong to C06; the harness compares only as far as the real
run goes.  Core Lean only. -/
namespace PyamgV.C07

section
variable {K V : Type} [Add K] [Sub K] [Mul K] [Div K] [Neg K] [OfNat K 0] [OfNat K 1]

/-- the restart points: `x^(0) = x0`, `x^(j+1)` = the iterate at the end of a cycle of `r` inner
iterations started from `x^(j)` -/
def gmresRestartPt (o : Ops K V) (sqrt : K → K) (pos nz : K → Bool) (n : Nat) (b x0 : V) (r : Nat) : Nat → V
  | 0 => x0
  | j+1 =>
    let x := gmresRestartPt o sqrt pos nz n b x0 r j
    (gmresMgs o sqrt pos nz n b x r).getLast?.getD x

/-- everything the `callback` of a restarted run sees: the `r` iterates of cycle `0`, then those of
cycle `1`, … -/
def gmresRestart (o : Ops K V) (sqrt : K → K) (pos nz : K → Bool) (n : Nat) (b x0 : V) (r cycles : Nat) : List V :=
  (List.range cycles).flatMap (fun j => gmresMgs o sqrt pos nz n b (gmresRestartPt o sqrt pos nz n b x0 r j) r)
end

/-- the `Float` instance the driver runs -/
def gmresRestartFloat (A M : List (List Float)) (b x0 : List Float) (r cycles : Nat) : Option (List (List Float)) :=
  let n := b.length
  match toMat? n A, toMat? n M, toVec? n b, toVec? n x0 with
  | some A, some M, some b, some x0 =>
    let o := vecOps (fun a => a) A M
    some ((gmresRestart o Float.sqrt (fun a => a > 0) (fun a => a != 0) n b x0 r cycles).map (·.toList))
  | _, _, _, _ => none

end PyamgV.C07
