import PyamgV.Model.C04Model
import PyamgV.Model.C19Utils
/-! PyamgV (extension E50, property C04), executable, core only:

* `mulS`: the dense product of `C04.Mat.mul` computed row by row over the non-zero entries of the left
  factor (what makes the checker affordable beyond 24 unknowns); `Proofs/ExtC04XCheck.mulS_eq` proves
  `mulS A B = A.mul B`, so `checkHierS` below is the proved checker `C04.checkHier` itself
  (`checkHierS_eq`);
* `filterMat`: `filter_matrix_rows(A, theta, diagonal=True, lump)` on the dense meaning of a matrix,
  computed by the model of the kernel of the C19 development (`C19.filterRowDiag`) applied to every row;
* `checkHierF`: the hierarchy checker for `air_solver(..., filter_operator=(lump, theta))`: the step on
  level 0 works with a filtered deep copy `Af0` of the user's matrix (`Af0` = `filter(A0)`, and
  `A_1 = R_0 Af0 P_0`), every coarse level a step was attempted on is filtered IN PLACE, so its stored matrix
  is `filter(R A P)` of its parent (flag `true`); the last level, when no step touched it, is the plain
  Galerkin product (flag `false`).  Decisions `|g_ij| < theta |g_ii|` within the relative `slack` of the
  threshold (widened by the rounding bounds) are skipped (`near`), with lumping also the diagonal entry of
  a row that has such a decision. -/
namespace PyamgV.C04X
open PyamgV PyamgV.C04

/-! ### the dense product over the non-zeros of the left factor -/

/-- the non-zero entries `(k, A[i,k])` of row `i`, left to right -/
def nzRow (A : Mat) (i : Nat) : List (Nat × CRat) :=
  ((List.range A.cols).map fun k => (k, A.ent i k)).filter fun ka => decide (ka.2 ≠ 0)

def dotRow (r : List (Nat × CRat)) (B : Mat) (j : Nat) : CRat :=
  r.foldl (fun acc ka => acc + ka.2 * B.ent ka.1 j) 0

def mulS (A B : Mat) : Mat :=
  let rows : Array (List (Nat × CRat)) := Array.ofFn (n := A.rows) fun i => nzRow A i.val
  ⟨A.rows, B.cols, Array.ofFn (n := A.rows * B.cols) fun t =>
    dotRow (rows.getD (t.val / B.cols) []) B (t.val % B.cols)⟩

/-- `chkGalerkin` with the fast product -/
def chkGalerkinS (tol : Rat) (f : Lvl) (cA : Mat) : Bool :=
  let G := mulS f.R (mulS f.A f.P)
  let B := mulS f.R.absM (mulS f.A.absM f.P.absM)
  allLt cA.rows fun i => allLt cA.cols fun j =>
    decide (n1 (cA.ent i j - G.ent i j) ≤ tol * (B.ent i j).re)

def chkPairS (sym : Sym) (tol : Rat) (f : Lvl) (cA : Mat) : Bool :=
  chkWf f cA && chkDims f cA && chkDecr f cA && chkGalerkinS tol f cA && chkTranspose sym f

/-- `C04.checkHier` with the fast product (`checkHierS_eq`: the same function) -/
def checkHierS (sym : Sym) (tol : Rat) : List Lvl → Bool
  | [] => false
  | [l] => l.A.wf && decide (l.A.rows = l.A.cols) && decide (0 < l.A.rows)
  | f :: c :: rest => chkPairS sym tol f c.A && checkHierS sym tol (c :: rest)

/-! ### the row filter on the dense meaning -/

/-- row `i` of `M` as a stored row: every column, left to right -/
def denseRow (M : Mat) (i : Nat) : C19.RowOf CRat := (List.range M.cols).map fun j => (j, M.ent i j)

/-- the values of the rows of `M` after `amg_core.filter_matrix_rows` (model `C19.filterRowDiag`) -/
def filterRows (θ : Rat) (lump : Bool) (M : Mat) : Array (Array CRat) :=
  Array.ofFn (n := M.rows) fun i =>
    ((C19.filterRowDiag CRat.normSq θ lump i.val (denseRow M i.val)).map (·.2)).toArray

def filterMat (θ : Rat) (lump : Bool) (M : Mat) : Mat :=
  let rs := filterRows θ lump M
  ⟨M.rows, M.cols, Array.ofFn (n := M.rows * M.cols) fun t =>
    (rs.getD (t.val / M.cols) #[]).getD (t.val % M.cols) 0⟩

/-- `|m_ij| < theta |m_ii|` (squared moduli: exact) -/
def below (θ : Rat) (M : Mat) (i j : Nat) : Bool :=
  decide (CRat.normSq (M.ent i j) < θ * θ * CRat.normSq (M.ent i i))

/-- the definition of the filter, entry by entry: entries below `theta |m_ii|` are dropped; with
lumping the dropped off-diagonal entries of the row are added to the diagonal entry (left to right) and
the diagonal entry is never dropped (`Proofs/ExtC04XCheck.filterMat_ent`: this is what `filterMat` computes) -/
def filtDef (θ : Rat) (lump : Bool) (M : Mat) (i j : Nat) : CRat :=
  if lump then
    if j = i then
      M.ent i i + C19.sumL (((List.range M.cols).filter fun k => below θ M i k && decide (k ≠ i)).map fun k => M.ent i k)
    else if below θ M i j then 0 else M.ent i j
  else if below θ M i j then 0 else M.ent i j

/-! ### the filtered Galerkin clause -/

structure FCfg where
  θ : Rat
  lump : Bool
  slack : Rat
deriving Repr

/-- the decision on entry `(i, j)` of `G` is too close to call: `|g_ij|` lies within the relative `slack` of
`theta |g_ii|`, widened by the error bounds `tol * B` of the two entries (moduli as 1-norms: exact for real data) -/
def near (c : FCfg) (tol : Rat) (G B : Mat) (i j : Nat) : Bool :=
  let a := n1 (G.ent i j)
  let d := n1 (G.ent i i)
  let δ := tol * ((B.ent i j).re + c.θ * (B.ent i i).re)
  decide (c.θ * (1 - c.slack) * d - δ ≤ a) && decide (a ≤ c.θ * (1 + c.slack) * d + δ)

def rowNear (c : FCfg) (tol : Rat) (G B : Mat) (i : Nat) : Bool :=
  (List.range G.cols).any fun k => decide (k ≠ i) && near c tol G B i k

/-- entries the clause does not judge: a near decision; with lumping also the diagonal entry of a row with one -/
def skipEnt (c : FCfg) (tol : Rat) (G B : Mat) (i j : Nat) : Bool :=
  near c tol G B i j || (c.lump && decide (j = i) && rowNear c tol G B i)

def rowSumRe (B : Mat) (i : Nat) : Rat := (List.range B.cols).foldl (fun acc k => acc + (B.ent i k).re) 0

/-- error bound of entry `(i, j)` of the filtered matrix: the bound of the entry; with lumping the diagonal
entry accumulates the dropped entries of its row: the sum of the bounds of the row -/
def bnd (c : FCfg) (B : Mat) (i j : Nat) : Rat :=
  if c.lump && decide (j = i) then rowSumRe B i else (B.ent i j).re

/-- the filter drops entry `(i, j)`: below the threshold (with lumping: and off the diagonal) -/
def dropped (c : FCfg) (G : Mat) (i j : Nat) : Bool := below c.θ G i j && (!c.lump || decide (j ≠ i))

/-- `S` is `filter(G)`: a dropped entry is exactly zero (the kernel stores `0.0`), every other entry agrees
up to `tol * bnd`; near decisions skipped -/
def chkFilt (c : FCfg) (tol : Rat) (S G B : Mat) : Bool :=
  let E := filterMat c.θ c.lump G
  allLt S.rows fun i => allLt S.cols fun j =>
    skipEnt c tol G B i j ||
      (if dropped c G i j then decide (S.ent i j = 0)
       else decide (n1 (S.ent i j - E.ent i j) ≤ tol * bnd c B i j))

/-- number of skipped entries (reported, not part of the verdict) -/
def countSkip (c : FCfg) (tol : Rat) (rows cols : Nat) (G B : Mat) : Nat :=
  (List.range rows).foldl (fun acc i =>
    acc + ((List.range cols).filter fun j => skipEnt c tol G B i j).length) 0

/-- the coarse matrix is the filtered Galerkin product -/
def chkGalF (c : FCfg) (tol : Rat) (f : Lvl) (cA : Mat) : Bool :=
  chkFilt c tol cA (mulS f.R (mulS f.A f.P)) (mulS f.R.absM (mulS f.A.absM f.P.absM))

def chkShape (sym : Sym) (f : Lvl) (cA : Mat) : Bool :=
  chkWf f cA && chkDims f cA && chkDecr f cA && chkTranspose sym f

/-- `flag`: the stored coarse matrix was filtered in place -/
def chkPairF (c : FCfg) (sym : Sym) (tol : Rat) (f : Lvl) (cA : Mat) (flag : Bool) : Bool :=
  if flag then chkShape sym f cA && chkGalF c tol f cA else chkPairS sym tol f cA

/-- levels finest first, each with the flag "stored matrix filtered in place" (ignored on the first) -/
def checkLevelsF (c : FCfg) (sym : Sym) (tol : Rat) : List (Lvl × Bool) → Bool
  | [] => false
  | [l] => l.1.A.wf && decide (l.1.A.rows = l.1.A.cols) && decide (0 < l.1.A.rows)
  | f :: n :: rest => chkPairF c sym tol f.1 n.1.A n.2 && checkLevelsF c sym tol (n :: rest)

/-- `A0`: the matrix of level 0 as stored in the hierarchy; the first level of `ls` carries the filtered copy
`Af0` the step on level 0 worked with (observed inside the real step) and the `P`, `R` of level 0 -/
def checkHierF (c : FCfg) (sym : Sym) (tol : Rat) (A0 : Mat) (ls : List (Lvl × Bool)) : Bool :=
  match ls with
  | [] => false
  | f :: _ =>
    A0.wf && f.1.A.wf && decide (f.1.A.rows = A0.rows) && decide (f.1.A.cols = A0.cols) &&
      chkFilt c tol f.1.A A0 A0.absM && checkLevelsF c sym tol ls

/-- diagnostic only -/
def whyFailLevelsF (c : FCfg) (sym : Sym) (tol : Rat) : Nat → List (Lvl × Bool) → String
  | _, [] => "no-levels"
  | k, [l] => if l.1.A.wf && decide (l.1.A.rows = l.1.A.cols) && decide (0 < l.1.A.rows) then "ok"
              else s!"fail:{k}:coarsest-empty-or-not-square"
  | k, f :: n :: rest =>
    if !chkWf f.1 n.1.A then s!"fail:{k}:encoding"
    else if !chkDims f.1 n.1.A then s!"fail:{k}:dims"
    else if !chkDecr f.1 n.1.A then s!"fail:{k}:decrease"
    else if !(if n.2 then chkGalF c tol f.1 n.1.A else chkGalerkinS tol f.1 n.1.A) then
      (if n.2 then s!"fail:{k}:filtered-galerkin" else s!"fail:{k}:galerkin")
    else if !chkTranspose sym f.1 then s!"fail:{k}:transpose"
    else whyFailLevelsF c sym tol (k + 1) (n :: rest)

def whyFailF (c : FCfg) (sym : Sym) (tol : Rat) (A0 : Mat) (ls : List (Lvl × Bool)) : String :=
  match ls with
  | [] => "no-levels"
  | f :: _ =>
    if !(A0.wf && f.1.A.wf && decide (f.1.A.rows = A0.rows) && decide (f.1.A.cols = A0.cols)) then "fail:0:filtered-copy-shape"
    else if !chkFilt c tol f.1.A A0 A0.absM then "fail:0:level0-filter"
    else whyFailLevelsF c sym tol 0 ls

/-- skipped decisions on the coarse levels -/
def countSkipF (c : FCfg) (tol : Rat) : List (Lvl × Bool) → Nat
  | [] => 0
  | [_] => 0
  | f :: n :: rest =>
    (if n.2 then countSkip c tol n.1.A.rows n.1.A.cols (mulS f.1.R (mulS f.1.A f.1.P))
        (mulS f.1.R.absM (mulS f.1.A.absM f.1.P.absM)) else 0) + countSkipF c tol (n :: rest)

end PyamgV.C04X
