import PyamgV.Model.ExtCGGmres
import PyamgV.Model.ExtC06GmresExample
/-! PyamgV (extension E43): a concrete complex 2 × 2 run of the complete complex GMRES models evaluated by the kernel
over the pairs `CP Rat` (`A = [[3i, 1], [4, 2i]]`, `b = (5, 0)`, `x0 = 0`, no preconditioner; every square root that
occurs is rational, so `Ex.qsqrt`, exact on squares, stands in for the exact one).  The first inner iteration computes
the complex rotation `c = 3/5`, `s = 4i/5` (`zlartg(3i, 4)`), records the estimate `|g[1]| = 4`, and indeed
`‖b − A x_1‖ = ‖(16/5, 12i/5)‖ = 4` for the callback iterate `x_1 = (−3i/5, 0)`; the second one ends the cycle at the
solution `(−i, 2)` with recomputed residual `0`, status `0`; with threshold `9/2` the inner loop is left at once. -/
namespace PyamgV.ExtCG.Ex
open PyamgV.C07 PyamgV.ExtC06 PyamgV.ExtCG

def cA : Vector (Vector (CP Rat) 2) 2 := #v[#v[⟨0, 3⟩, ⟨1, 0⟩], #v[⟨4, 0⟩, ⟨0, 2⟩]]
def cI : Vector (Vector (CP Rat) 2) 2 := #v[#v[⟨1, 0⟩, ⟨0, 0⟩], #v[⟨0, 0⟩, ⟨1, 0⟩]]
def cb : Vector (CP Rat) 2 := #v[⟨5, 0⟩, ⟨0, 0⟩]
def nzQ (a : CP Rat) : Bool := a.re != 0 || a.im != 0
def sqQ : CP Rat → CP Rat := CP.sqrtRe ExtC06.Ex.qsqrt
def sgQ : CP Rat → CP Rat := csgn CP.conj sqQ nzQ

def runM (thr : Rat) : GOut Rat (Vector (CP Rat) 2) :=
  gRun (cmgsEng (vecOps CP.conj cA cI) CP.conj sqQ nzQ (CP.mod ExtC06.Ex.qsqrt) (fun z => ExtC06.Ex.qsqrt z.re) 2 cb)
    (fun a c => decide (a < c)) (fun a => a) thr (fun _ _ => false) ⟨2, 1⟩ #v[⟨0, 0⟩, ⟨0, 0⟩]
def runH (thr : Rat) : GOut Rat (Vector (CP Rat) 2) :=
  gRun (chhEng (hopsVec CP.conj cA cI) CP.conj sqQ sgQ nzQ (CP.mod ExtC06.Ex.qsqrt) (fun z => ExtC06.Ex.qsqrt z.re) 2 cb)
    (fun a c => decide (a < c)) (fun a => a) thr (fun _ _ => false) ⟨2, 1⟩ #v[⟨0, 0⟩, ⟨0, 0⟩]
def runF (thr : Rat) : GOut Rat (Vector (CP Rat) 2) :=
  gRun (cfgEng (hopsVec CP.conj cA cI) CP.conj sqQ sgQ nzQ (CP.mod ExtC06.Ex.qsqrt) (fun z => ExtC06.Ex.qsqrt z.re) 2
      (fun _ v => v) cb)
    (fun a c => decide (a < c)) (fun a => a) thr (fun _ _ => false) ⟨2, 1⟩ #v[⟨0, 0⟩, ⟨0, 0⟩]

/-- residual norm of an iterate, computed independently of the models -/
def resn₀ (x : Vector (CP Rat) 2) : Rat :=
  ExtC06.Ex.qsqrt (vdot CP.conj (Vector.zipWith (· - ·) cb (vmv cA x)) (Vector.zipWith (· - ·) cb (vmv cA x))).re

theorem full_cycle :
    (runM (5/2)).status = 0 ∧ (runM (5/2)).niter = 2 ∧ (runM (5/2)).hist = [5, 4, 0] ∧
    (runM (5/2)).log = [#v[⟨0, -3/5⟩, ⟨0, 0⟩], #v[⟨0, -1⟩, ⟨2, 0⟩]] ∧ (runM (5/2)).x = #v[⟨0, -1⟩, ⟨2, 0⟩] ∧
    (runH (5/2)).status = 0 ∧ (runH (5/2)).hist = [5, 4, 0] ∧
    (runH (5/2)).log = [#v[⟨0, -3/5⟩, ⟨0, 0⟩], #v[⟨0, -1⟩, ⟨2, 0⟩]] ∧
    (runF (5/2)).status = 0 ∧ (runF (5/2)).hist = [5, 4, 0] ∧
    (runF (5/2)).log = [#v[⟨0, -3/5⟩, ⟨0, 0⟩], #v[⟨0, -1⟩, ⟨2, 0⟩]] ∧
    [resn₀ #v[⟨0, 0⟩, ⟨0, 0⟩], resn₀ #v[⟨0, -3/5⟩, ⟨0, 0⟩], resn₀ #v[⟨0, -1⟩, ⟨2, 0⟩]] = [5, 4, 0] := by
  decide +kernel

theorem early_exit :
    (runM (9/2)).status = 0 ∧ (runM (9/2)).niter = 1 ∧ (runM (9/2)).hist = [5, 4] ∧
    (runM (9/2)).log = [#v[⟨0, -3/5⟩, ⟨0, 0⟩]] ∧
    (runH (9/2)).status = 0 ∧ (runH (9/2)).niter = 1 ∧ (runH (9/2)).hist = [5, 4] ∧
    (runF (9/2)).status = 0 ∧ (runF (9/2)).niter = 1 ∧ (runF (9/2)).hist = [5, 4] ∧
    (runF (9/2)).log = [#v[⟨0, -3/5⟩, ⟨0, 0⟩]] := by
  decide +kernel

/-- the iterates one cycle hands to `callback` (C07 models): all three orthogonalisations agree, the first iterate is
the minimiser over `x₀ + span{r₀}`, the second the solution -/
theorem cycle_iterates :
    cgmresMgs (vecOps CP.conj cA cI) CP.conj sqQ nzQ 2 cb #v[⟨0, 0⟩, ⟨0, 0⟩] 1 = [#v[⟨0, -3/5⟩, ⟨0, 0⟩]] ∧
    cgmresHh (hopsVec CP.conj cA cI) CP.conj sqQ sgQ nzQ 2 cb #v[⟨0, 0⟩, ⟨0, 0⟩] 1 = [#v[⟨0, -3/5⟩, ⟨0, 0⟩]] ∧
    cfgmresHh (hopsVec CP.conj cA cI) CP.conj sqQ sgQ nzQ 2 (fun _ v => v) cb #v[⟨0, 0⟩, ⟨0, 0⟩] 1 =
      [#v[⟨0, -3/5⟩, ⟨0, 0⟩]] := by
  decide +kernel

end PyamgV.ExtCG.Ex
