import PyamgV.Model.ExtC17R4Air

/-! PyamgV (C17, extension E32, round 4): checked-execution (`Ck`) model of `block_approx_ideal_restriction_pass2` (air.h),
written loop by loop after the C++, on top of the models of `QR`, `upper_tri_solve`, `dense_GMRES` and of the neighbourhood set
of `Model/ExtC17R4Air.lean`.  `bs` is `blocksize`, `c15` the constant `1e-15`.  Core Lean only. -/
namespace PyamgV.C17R4
open PyamgV.Ck PyamgV.C17

variable {α : Type} [Inhabited α]

/-- one row of `block_approx_ideal_restriction_pass2`; state `(Rj, Rx)` -/
def airBRow (o : AirOps α) (c15 : α) (rp : Array Int) (G : Csr α) (cp cj cpts splitting : Array Int) (bs : Int) (distance : Int)
    (useGmres : Bool) (maxiter : Int) (precond : Bool) (row : Int) (st : Array Int × Array α) : Ck (Array Int × Array α) := do
  let v := o.sv
  let cpoint ← rd cpts row
  let r0 ← rd rp row
  let colinds ← airP1Row cp cj splitting distance cpoint
  let ri ← (colinds.mergeSort (fun a b => decide (a ≤ b))).foldl (fun (acc : Ck (Array Int × Int)) cc => do
      let s ← acc
      let rj ← wr s.1 s.2 cc
      pure (rj, s.2 + 1)) (pure (st.1, r0))
  let ind := ri.2
  let _ ← rd rp (row + 1)
  let sizeN := ind - r0
  let D := sizeN * bs
  -- `A0`; `this_block_row = j - Rp[row]`, `this_block_col = i - Rp[row]`
  let a0 ← forRange r0 ind (Array.replicate (D * D).toNat v.zero) (fun j (A0 : Array α) => do
    let thisInd ← rd ri.1 j
    forRange r0 ind A0 (fun i (A0 : Array α) => do
      let thisRow := (j - r0) * bs
      let thisCol := (i - r0) * bs
      let ks ← rd G.ap thisInd
      let ke ← rd G.ap (thisInd + 1)
      let f ← forRange ks ke (A0, false) (fun k (q : Array α × Bool) =>
        if q.2 then pure q
        else do
          let ri_i ← rd ri.1 i
          let ajk ← rd G.aj k
          if ri_i = ajk then do
            let bx := k * bs * bs
            let A0 ← forRange 0 bs q.1 (fun br (A0 : Array α) => do
              let rmi := (thisRow + br) * D + thisCol
              forRange 0 bs A0 (fun bc (A0 : Array α) => do
                let a ← rd G.ax (bx + br * bs + bc)
                wr A0 (rmi + bc) a))
            pure (A0, true)
          else pure q)
      pure f.1))
  -- `b0`
  let b0 ← forRange 0 sizeN (Array.replicate (D * bs).toNat v.zero) (fun bi (b0 : Array α) => do
    let ks ← rd G.ap cpoint
    let ke ← rd G.ap (cpoint + 1)
    let f ← forRange ks ke (b0, false) (fun k (q : Array α × Bool) =>
      if q.2 then pure q
      else do
        let ri_i ← rd ri.1 (r0 + bi)
        let ajk ← rd G.aj k
        if ri_i = ajk then do
          let b0 ← forRange 0 bs q.1 (fun tr (b0 : Array α) =>
            forRange 0 bs b0 (fun tc (b0 : Array α) => do
              let a ← rd G.ax (k * bs * bs + tr * bs + tc)
              wr b0 (D * tr + bi * bs + tc) (v.neg a)))
          pure (b0, true)
        else pure q)
    pure f.1)
  -- the local solves, one right-hand side per row of a block
  let b0 ← (if sizeN > 0 ∧ useGmres = true then
      forRange 0 bs b0 (fun tr (b0 : Array α) => do
        let bind0 := D * tr
        let rhs ← forRange 0 D (Array.replicate D.toNat v.zero) (fun i (rhs : Array α) => do
          let b ← rd b0 (bind0 + i)
          wr rhs i b)
        -- `std::vector<T> A0_copy(A0)`
        let r ← denseGmres o a0 rhs b0 bind0 D true maxiter precond
        pure r.2.2)
    else if sizeN > 0 then do
      let q ← qrM o a0 0 D D true
      let r ← forRange 0 bs b0 (fun tr (b0 : Array α) => do
        let bind0 := D * tr
        let rhs ← forRange 0 D (Array.replicate D.toNat v.zero) (fun i (rhs : Array α) => do
          let rhs ← wr rhs i v.zero
          forRange 0 D rhs (fun k (rhs : Array α) => do
            let r ← rd rhs i
            let b ← rd b0 (bind0 + k)
            let qq ← rd q.2 (getInd true k i D)
            wr rhs i (v.add r (v.mul b qq))))
        upperTriSolve o q.1 0 rhs b0 bind0 D D true)
      pure r
    else pure b0)
  -- copy the solution into `Rx`
  let rx ← forRange 0 sizeN st.2 (fun bi (rx : Array α) =>
    forRange 0 bs rx (fun tr (rx : Array α) =>
      forRange 0 bs rx (fun tc (rx : Array α) => do
        let bsrInd := r0 * bs * bs + bi * bs * bs + tr * bs + tc
        let rowInd := D * tr + bi * bs + tc
        let b ← rd b0 rowInd
        if v.lt c15 (v.abs b) then do
          let b ← rd b0 rowInd
          wr rx bsrInd b
        else wr rx bsrInd v.zero)))
  let rj ← wr ri.1 ind cpoint
  let rx ← forRange 0 bs rx (fun tr (rx : Array α) => wr rx (ind * bs * bs + (bs + 1) * tr) v.one)
  pure (rj, rx)

/-- `block_approx_ideal_restriction_pass2(Rp, Rj, Rx, Ap, Aj, Ax, Cp, Cj, Cx, Cpts, splitting, blocksize, distance, use_gmres,
maxiter, precondition)`; returns `(Rj, Rx)` -/
def airBPass2 (o : AirOps α) (c15 : α) (rp rj : Array Int) (rx : Array α) (G : Csr α) (cp cj cpts splitting : Array Int) (bs : Int)
    (distance : Int) (useGmres : Bool) (maxiter : Int) (precond : Bool) : Ck (Array Int × Array α) :=
  forRange 0 (cpts.size : Int) (rj, rx) (airBRow o c15 rp G cp cj cpts splitting bs distance useGmres maxiter precond)

end PyamgV.C17R4
