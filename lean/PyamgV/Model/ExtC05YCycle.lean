import PyamgV.Model.C05Cycle
import PyamgV.Model.ExtC09Block

/-! PyamgV (extension E36, property C05): the cycle model of `Model/C05Cycle.lean` extended to the other smoother
families `change_smoothers` may flag as symmetric:

* `chebyshev`, `richardson`   -- `relaxation.polynomial` with the coefficients the setup function computed from its
  keyword arguments and the level's spectral-radius estimate; the estimate is floating-point data of the level, so
  the coefficients enter through an *oracle* `orc name [arguments] = coefficients` (one table per level, filled by
  the harness from the installed closures; the same table serves the pre- and the post-smoother of the level);
* `block_jacobi`, `block_gauss_seidel` with `blocksize > 1` (no `Dinv` argument, `withrho=False`): `A.tobsr`,
  diagonal blocks inverted **exactly** (Gauss–Jordan), the kernels of `Model/ExtC09Block.lean`;
* `jacobi_ne` (`withrho=False`), `gauss_seidel_ne`, `gauss_seidel_nr` (drivers of `Model/ExtC09Block.lean`).

Everything else is delegated to `smOf` / `applySm` of the first model.  Import-free apart from the models. -/
namespace PyamgV.C05Y
open PyamgV.K PyamgV.C05

/-- the new families (sweep direction and iteration count are kept outside) -/
inductive Fam where
  | poly (c0 : Rat) (cs : List Rat)
  | bjac (bs : Nat) (ω : Rat)
  | bgs (bs : Nat)
  | jacne (ω : Rat)
  | gsne (ω : Rat)
  | gsnr (ω : Rat)
deriving DecidableEq, Repr

/-- families without a `sweep` argument (they are stored with `sweep = forward`) -/
def Fam.sweepFree : Fam → Bool
  | .poly _ _ => true
  | .bjac _ _ => true
  | .jacne _ => true
  | _ => false

/-- normal-equation families -/
def Fam.isNE : Fam → Bool
  | .jacne _ => true
  | .gsne _ => true
  | .gsnr _ => true
  | _ => false

inductive SmY where
  | base (s : Sm)
  | ext (f : Fam) (sw : Sweep) (iters : Nat)
deriving DecidableEq, Repr

def SmY.isNE : SmY → Bool
  | .ext f _ _ => f.isNE
  | _ => false

/-- the keyword arguments (other than `sweep`) the new setup functions read -/
structure PV where
  iters : Option Val
  omega : Option Val
  bsz : Option Val
  rho : Option Val
  dinv : Option Val
  lower : Option Val
  upper : Option Val
  degree : Option Val
deriving DecidableEq, Repr

def pvOf (c : Cfg) : PV :=
  ⟨c.kw.lookup "iterations", c.kw.lookup "omega", c.kw.lookup "blocksize", c.kw.lookup "withrho",
   c.kw.lookup "Dinv", c.kw.lookup "lower_bound", c.kw.lookup "upper_bound", c.kw.lookup "degree"⟩

/-- does the specification belong to the extension (decided by the name and the `blocksize` argument only) -/
def isNewB (nm : Option String) (pv : PV) : Bool :=
  match nm with
  | some "chebyshev" => true
  | some "richardson" => true
  | some "jacobi_ne" => true
  | some "gauss_seidel_ne" => true
  | some "gauss_seidel_nr" => true
  | some "block_jacobi" => (match pv.bsz with | some (.num q) => q != 1 | _ => false)
  | some "block_gauss_seidel" => (match pv.bsz with | some (.num q) => q != 1 | _ => false)
  | _ => false

/-- `withrho=False` given explicitly (the default `True` rescales `omega` by an estimated spectral radius) -/
def rhoOff (v : Option Val) : Bool :=
  match v with
  | some (.num q) => q == 0
  | _ => false

/-- coefficient oracle of a level: `orc name arguments` = the coefficient list `c0 :: cs` of `polynomial` -/
abbrev Oracle := String → List Val → Option (Rat × List Rat)

/-- family and iteration count from the name and the sweep-free arguments -/
def famOf (orc : Oracle) (nm : Option String) (pv : PV) : Option (Fam × Nat) :=
  match nm with
  | some "chebyshev" => do
    let k ← natOf (pv.iters.getD defaultNiter)
    let c ← orc "chebyshev" [pv.lower.getD .none, pv.upper.getD .none, pv.degree.getD .none]
    some (.poly c.1 c.2, k)
  | some "richardson" => do
    let k ← natOf (pv.iters.getD defaultNiter)
    let c ← orc "richardson" [pv.omega.getD (.num 1)]
    some (.poly c.1 c.2, k)
  | some "block_jacobi" => do
    let k ← natOf (pv.iters.getD defaultNiter)
    let bs ← natOf (pv.bsz.getD .none)
    let ω ← ratOf (pv.omega.getD (.num 1))
    if 2 ≤ bs ∧ rhoOff pv.rho ∧ pv.dinv = none then some (.bjac bs ω, k) else none
  | some "block_gauss_seidel" => do
    let k ← natOf (pv.iters.getD defaultNiter)
    let bs ← natOf (pv.bsz.getD .none)
    if 2 ≤ bs ∧ pv.dinv = none then some (.bgs bs, k) else none
  | some "jacobi_ne" => do
    let k ← natOf (pv.iters.getD defaultNiter)
    let ω ← ratOf (pv.omega.getD (.num 1))
    if rhoOff pv.rho then some (.jacne ω, k) else none
  | some "gauss_seidel_ne" => do
    let k ← natOf (pv.iters.getD defaultNiter)
    let ω ← ratOf (pv.omega.getD (.num 1))
    some (.gsne ω, k)
  | some "gauss_seidel_nr" => do
    let k ← natOf (pv.iters.getD defaultNiter)
    let ω ← ratOf (pv.omega.getD (.num 1))
    some (.gsnr ω, k)
  | _ => none

/-- the smoother of the extension a specification produces -/
def buildY (orc : Oracle) (nm : Option String) (pv : PV) (sw : Val) : Option SmY :=
  match famOf orc nm pv with
  | none => none
  | some (f, k) =>
    if f.sweepFree then some (.ext f .forward k)
    else (sweepOfVal sw).map (fun s => .ext f s k)

/-- what `change_smoothers` installs for the specification `c` on a CSR level whose coefficient oracle is `orc`
(`none`: the setup call raises, or the specification is outside both models) -/
def smOfY (orc : Oracle) (c : Cfg) : Option SmY :=
  if valid c then
    if isNewB c.name (pvOf c) then buildY orc c.name (pvOf c) (get c "sweep" defaultSweep)
    else (smOf c).map .base
  else none

variable {α : Type} [Add α] [Sub α] [Mul α] [Div α] [OfNat α 0] [OfNat α 1] [DecidableEq α]

/-- the dense diagonal block of block row `i` (duplicates summed), row-major -/
def diagBlock (A : Bsr α) (i : Nat) : C05.Mat α :=
  (Array.range A.bs).map (fun l => (Array.range A.bs).map (fun m =>
    (A.jjs i).foldl (fun s jj => if rdN A.bj jj = i then s + rd A.bx (jj * (A.bs * A.bs) + l * A.bs + m) else s) (0:α)))

/-- `get_block_diag(A, blocksize, inv_flag=True)` with exact inverses; `none` when a diagonal block is singular -/
def blockDinv (A : Bsr α) : Option (Array α) := do
  let blocks ← (List.range A.nb).mapM (fun i =>
    let D := diagBlock A i
    ((List.range A.bs).mapM (fun l => solveDense A.bs D (C05.unit A.bs l))).map (fun cols =>
      -- `cols[l]` is column `l` of the inverse; store row-major
      (List.range A.bs).flatMap (fun k => cols.map (fun c => rd c k))))
  some blocks.flatten.toArray

/-- apply a smoother of the extended model -/
def applySmY (ofRat : Rat → α) (conj : α → α) (s : SmY) (A : Csr α) (C : List Nat) (x b : Array α) : Option (Array α) :=
  match s with
  | .base s => some (applySm ofRat s A C x b)
  | .ext (.poly c0 cs) _ k => pyPolynomial A b ((c0 :: cs).map ofRat) k x
  | .ext (.bjac bs ω) _ k => do
    let B ← A.toBsr bs
    let D ← blockDinv B
    pyBlockJacobi (ofRat ω) B b D k x
  | .ext (.bgs bs) sw k => do
    let B ← A.toBsr bs
    let D ← blockDinv B
    pyBlockGaussSeidel B b D k sw x
  | .ext (.jacne ω) _ k => some (pyJacobiNE conj (ofRat ω) A b k x)
  | .ext (.gsne ω) sw k => some (pyGaussSeidelNE conj (ofRat ω) A b none k sw x)
  | .ext (.gsnr ω) sw k => some (pyGaussSeidelNR conj (ofRat ω) A.toCsc b none k sw x)

structure LvlY (α : Type) where
  A : Csr α
  P : Csr α
  R : Csr α
  C : List Nat
  pre : SmY
  post : SmY

/-- `MultilevelSolver.__solve` (as `C05.solveLvl`) over the extended smoothers -/
def solveLvlY (ofRat : Rat → α) (conj : α → α) (Ac : Csr α) (cyc : Cyc) :
    List (LvlY α) → Array α → Array α → Option (Array α)
  | [], _, b => solveDense Ac.n (denseOfCsr Ac Ac.n) b
  | L :: rest, x, b => do
    let x ← applySmY ofRat conj L.pre L.A L.C x b
    let residual := C05.vsub b (C05.spmv L.A x)
    let coarse_b := C05.spmv L.R residual
    let coarse_x := zeros coarse_b.size
    let coarse_x ←
      match rest, cyc with
      | [], _ => solveLvlY ofRat conj Ac cyc rest coarse_x coarse_b
      | _ :: _, .V => solveLvlY ofRat conj Ac .V rest coarse_x coarse_b
      | _ :: _, .W => do
        let c1 ← solveLvlY ofRat conj Ac .W rest coarse_x coarse_b
        solveLvlY ofRat conj Ac .W rest c1 coarse_b
    let x := C05.vadd x (C05.spmv L.P coarse_x)
    applySmY ofRat conj L.post L.A L.C x b

/-- dense matrix of `aspreconditioner(cycle)` -/
def denseMY (ofRat : Rat → α) (conj : α → α) (Ac : Csr α) (cyc : Cyc) (Ls : List (LvlY α)) : Option (C05.Mat α) :=
  let n := match Ls with | [] => Ac.n | L :: _ => L.A.n
  ((List.range n).mapM (fun j => solveLvlY ofRat conj Ac cyc Ls (zeros n) (C05.unit n j))).map (mOfCols n)

/-- matrix of the linear part `Q` of a smoother: column `j` = smoother(x = 0, b = e_j) -/
def smMatY (ofRat : Rat → α) (conj : α → α) (s : SmY) (A : Csr α) (C : List Nat) : Option (C05.Mat α) :=
  ((List.range A.n).mapM (fun j => applySmY ofRat conj s A C (zeros A.n) (C05.unit A.n j))).map (mOfCols A.n)

/-- per level: `Q_post = Q_preᴴ` (what a Hermitian cycle needs) -/
def adjointPairsY (ofRat : Rat → α) (conj : α → α) (Ls : List (LvlY α)) : Bool :=
  Ls.all (fun L =>
    match smMatY ofRat conj L.pre L.A L.C, smMatY ofRat conj L.post L.A L.C with
    | some Qa, some Qb => Qb == mconjT conj Qa L.A.n L.A.n
    | _, _ => false)

/-- per level: `Q_post A = (Q_pre A)ᴴ` -- the error propagators are adjoint for the EUCLIDEAN form -/
def errAdjointPairsY (ofRat : Rat → α) (conj : α → α) (Ls : List (LvlY α)) : Bool :=
  Ls.all (fun L =>
    let n := L.A.n
    let A := denseOfCsr L.A n
    match smMatY ofRat conj L.pre L.A L.C, smMatY ofRat conj L.post L.A L.C with
    | some Qa, some Qb => mmul Qb A n n == mconjT conj (mmul Qa A n n) n n
    | _, _ => false)

/-- per level: `A Q_post = (A Q_pre)ᴴ` -- the residual propagators are adjoint for the Euclidean form -/
def resAdjointPairsY (ofRat : Rat → α) (conj : α → α) (Ls : List (LvlY α)) : Bool :=
  Ls.all (fun L =>
    let n := L.A.n
    let A := denseOfCsr L.A n
    match smMatY ofRat conj L.pre L.A L.C, smMatY ofRat conj L.post L.A L.C with
    | some Qa, some Qb => mmul A Qb n n == mconjT conj (mmul A Qa n n) n n
    | _, _ => false)

/-- strict-reduction parameters (decidable part of `StrictSm`): Gauss–Seidel / SOR with `0 < ω < 2`, `iterations ≥ 1` -/
def strictSmB : SmY → Bool
  | .base (.gs ω _ k) => decide (0 < ω) && decide (ω < 2) && decide (1 ≤ k)
  | _ => false

end PyamgV.C05Y
