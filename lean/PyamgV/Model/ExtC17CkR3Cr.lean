import PyamgV.Model.ExtC17Ck

/-! PyamgV (C17, extension E19, round 3): checked-execution (`Ck`) model of `cr_helper` (ruge_stuben.h),
written loop by loop after the C++.  The `std::vector`s `Uindex`, `neighbors` are arrays grown with
`push`, `omega` is `std::vector<T>(n, 0)`.  The reference `num_Fpts = indices[0]` is read once (the
loops that use it as a bound do not write `indices`) and written through `indices[0]` at the end.  The
loop `while(true){ .. if(new_pt < 0) break; .. }` runs on fuel `n + 1` and is embedded with `orFault`:
fuel exhausted = fault, so `ok = true` also says that the loop terminated.  Core Lean only. -/
namespace PyamgV.C17
open PyamgV.Ck

variable {α : Type} [Inhabited α]

/-- the scalar operations of `cr_helper` that `KOps` does not have: `a > b` and `(T) int` -/
structure CrOps (α : Type) where
  gt : α → α → Bool
  ofInt : Int → α

/-- steps 3.1d/e: `e[pt] = |e[pt]/B[pt]|` over the F-points and the running maximum; state `(e, inf_norm)` -/
def crNorm (o : KOps α) (c : CrOps α) (B : Array α) (indices : Array Int) (nF : Int) (e : Array α) :
    Ck (Array α × α) :=
  forRange 1 (nF + 1) (e, o.zero) (fun i (st : Array α × α) => do
    let pt ← rd indices i
    let ev ← rd st.1 pt
    let bv ← rd B pt
    let v := o.norm (o.div ev bv)
    let e ← wr st.1 pt v
    if c.gt v st.2 then pure (e, v) else pure (e, st.2))

/-- `gamma[pt] = e[pt]/inf_norm; if(gamma[pt] > thetacs) Uindex.push_back(pt)`; state `(gamma, Uindex)` -/
def crCand (o : KOps α) (c : CrOps α) (e : Array α) (indices : Array Int) (nF : Int) (infn thetacs : α)
    (gamma : Array α) : Ck (Array α × Array Int) :=
  forRange 1 (nF + 1) (gamma, (#[] : Array Int)) (fun i (st : Array α × Array Int) => do
    let pt ← rd indices i
    let ev ← rd e pt
    let g := o.div ev infn
    let gamma ← wr st.1 pt g
    if c.gt g thetacs then pure (gamma, st.2.push pt) else pure (gamma, st.2))

/-- step 3.1f: `omega[pt] = |{neighbours of pt with splitting 0}| + gamma[pt]` for the candidates -/
def crWeights (o : KOps α) (c : CrOps α) (ap aj splitting : Array Int) (gamma : Array α) (uindex : Array Int)
    (omega : Array α) : Ck (Array α) :=
  forRange 0 (uindex.size : Int) omega (fun i (om : Array α) => do
    let pt ← rd uindex i
    let a0 ← rd ap pt
    let a1 ← rd ap (pt+1)
    let nn ← forRange a0 a1 (0 : Int) (fun j (nn : Int) => do
      let nb ← rd aj j
      let s ← rd splitting nb
      if s = 0 then pure (nn + 1) else pure nn)
    let g ← rd gamma pt
    wr om pt (o.add (c.ofInt nn) g))

/-- state of the `while(true)` loop: `splitting`, `gamma`, `omega` -/
abbrev CrW (α : Type) := Array Int × Array α × Array α

/-- the candidate of maximal weight: state `(max_weight, new_pt)` started at `(0, -1)` -/
def crScan (o : KOps α) (c : CrOps α) (uindex : Array Int) (omega : Array α) : Ck (α × Int) :=
  forRange 0 (uindex.size : Int) (o.zero, (-1 : Int)) (fun i (st : α × Int) => do
    let pt ← rd uindex i
    let w ← rd omega pt
    if c.gt w st.1 then pure (w, pt) else pure st)

/-- step 2: `neighbors.push_back(Aj[i]); omega[Aj[i]] = 0` over the row of `new_pt`; state `(omega, neighbors)` -/
def crKill (o : KOps α) (aj : Array Int) (a0 a1 : Int) (omega : Array α) : Ck (Array α × Array Int) :=
  forRange a0 a1 (omega, (#[] : Array Int)) (fun i (st : Array α × Array Int) => do
    let t ← rd aj i
    let om ← wr st.1 t o.zero
    pure (om, st.2.push t))

/-- step 3: `if(omega[temp] != 0) omega[temp] += 1` over the rows of the removed nodes -/
def crBump (o : KOps α) (ap aj : Array Int) (neighbors : Array Int) (omega : Array α) : Ck (Array α) :=
  forRange 0 (neighbors.size : Int) omega (fun i (om : Array α) => do
    let pt ← rd neighbors i
    let b0 ← rd ap pt
    let b1 ← rd ap (pt+1)
    forRange b0 b1 om (fun j (om : Array α) => do
      let t ← rd aj j
      let w ← rd om t
      if o.isZero w then pure om else wr om t (o.add w o.one)))

/-- one pass through the body of `while(true)`; the `Bool` is `false` when the `break` was taken -/
def crIter (o : KOps α) (c : CrOps α) (ap aj uindex : Array Int) (st : CrW α) : Ck (CrW α × Bool) := do
  let sc ← crScan o c uindex st.2.2
  if sc.2 < 0 then pure (st, false)
  else do
    -- `splitting[new_pt] = 1; gamma[new_pt] = 0; omega[new_pt] = 0;`
    let spl ← wr st.1 sc.2 1
    let gam ← wr st.2.1 sc.2 o.zero
    let om ← wr st.2.2 sc.2 o.zero
    let a0 ← rd ap sc.2
    let a1 ← rd ap (sc.2 + 1)
    let r ← crKill o aj a0 a1 om
    let om ← crBump o ap aj r.2 r.1
    pure ((spl, gam, om), true)

/-- the `while(true)` loop with fuel; `none` = fuel exhausted -/
def crWhile (o : KOps α) (c : CrOps α) (ap aj uindex : Array Int) : Nat → Ck (CrW α) → Option (Ck (CrW α))
  | 0, _ => none
  | f+1, st =>
    let r := st >>= crIter o c ap aj uindex
    if r.val.2 then crWhile o c ap aj uindex f (r >>= fun x => pure x.1)
    else some (r >>= fun x => pure x.1)

/-- the final reordering of `indices`: state `(indices, next_Find, next_Cind)`; `num_Fpts` is `indices[0]` -/
def crReorder (splitting indices : Array Int) : Ck (Array Int) := do
  let ind ← wr indices 0 0
  let r ← forRange 0 (splitting.size : Int) (ind, (1 : Int), (splitting.size : Int))
    (fun i (st : Array Int × Int × Int) => do
      let s ← rd splitting i
      if s = 0 then do
        let ind ← wr st.1 st.2.1 i
        -- `num_Fpts += 1`
        let cnt ← rd ind 0
        let ind ← wr ind 0 (cnt + 1)
        pure (ind, st.2.1 + 1, st.2.2)
      else do
        let ind ← wr st.1 st.2.2 i
        pure (ind, st.2.1, st.2.2 - 1))
  pure r.1

/-- `cr_helper(Ap, Aj, B, e, indices, splitting, gamma, thetacs)` with `n = splitting_size`; returns
`(e, indices, splitting, gamma)` -/
def crHelper (o : KOps α) (c : CrOps α) (ap aj : Array Int) (B e : Array α) (indices splitting : Array Int)
    (gamma : Array α) (thetacs : α) : Ck (Array α × Array Int × Array Int × Array α) := do
  let nF ← rd indices 0
  let en ← crNorm o c B indices nF e
  let gu ← crCand o c en.1 indices nF en.2 thetacs gamma
  let om ← crWeights o c ap aj splitting gu.1 gu.2 (Array.replicate splitting.size o.zero)
  let w ← orFault (crWhile o c ap aj gu.2 (splitting.size + 1) (pure (splitting, gu.1, om)))
  let ind ← crReorder w.1 indices
  pure (en.1, ind, w.1, w.2.1)

end PyamgV.C17
