import PyamgV.Proofs.C17Safe4

/-! PyamgV (C17, extension E19, round 3): checked-execution (`Ck`) model of `most_interior_nodes` (graph.h),
written loop by loop after the C++; the call of `bellman_ford` is the existing checked model
`C17.bellmanFord` (defined next to its safety proof in `Proofs/C17Safe4.lean`; passes on fuel).
Distances are abstract (`BOps`: `+`, `<`), `zero` and `inf` are parameters.  Core Lean only. -/
namespace PyamgV.C17
open PyamgV.Ck

variable {α : Type} [Inhabited α]

/-- the boundary marking: `d[i] = 0` for every node with a neighbour in another cluster (with the `break`) -/
def miBoundary (zero : α) (G : Csr α) (m : Array Int) (d : Array α) : Ck (Array α) :=
  forRange 0 (G.n : Int) d (fun i (d : Array α) => do
    let s ← rd G.ap i
    let e ← rd G.ap (i+1)
    let r ← forRange s e (d, false) (fun jj (st : Array α × Bool) =>
      if st.2 then pure st
      else do
        let j ← rd G.aj jj
        let mi ← rd m i
        let mj ← rd m j
        if mi ≠ mj then do
          let d ← wr st.1 i zero
          pure (d, true)
        else pure st)
    pure r.1)

/-- the new centers: `if(d[c[a]] < d[i]){ c[a] = i; changed = true; }` for `a = m[i] != -1`; state `(c, changed)` -/
def miCenters (o : BOps α) (n : Nat) (d : Array α) (m : Array Int) (c : Array Int) : Ck (Array Int × Bool) :=
  forRange 0 (n : Int) (c, false) (fun i (st : Array Int × Bool) => do
    let a ← rd m i
    if a = -1 then pure st
    else do
      let ca ← rd st.1 a
      let dca ← rd d ca
      let di ← rd d i
      if o.lt dca di then do
        let c ← wr st.1 a i
        pure (c, true)
      else pure st)

/-- `most_interior_nodes(num_nodes, Ap, Aj, Ax, c, d, m, p)`; `fuel` = number of Bellman-Ford passes allowed;
returns `(c, changed)` and the Bellman-Ford state `(d, m, p, done)` -/
def mostInterior (o : BOps α) (zero inf : α) (G : Csr α) (fuel : Nat) (c : Array Int) (d : Array α)
    (m p : Array Int) : Ck ((Array Int × Bool) × BF α) := do
  -- `std::fill(d, d+d_size, infinity)`
  let d ← forRange 0 (d.size : Int) d (fun k (d : Array α) => wr d k inf)
  let d ← miBoundary zero G m d
  let bf ← bellmanFord o G fuel (pure (d, m, p, false))
  let cc ← miCenters o G.n bf.1 bf.2.1 c
  pure (cc, bf)

end PyamgV.C17
