import PyamgV.Model.C07Krylov
/-! PyamgV (C07): executable model of one cycle of `pyamg/krylov/_gmres_mgs.py` (left preconditioning,
modified Gram–Schmidt Arnoldi, Givens rotations on the Hessenberg columns, triangular solve for every
intermediate iterate as the `callback` path does), written over the abstract vector operations
`Ops K V` and a square-root function.  The driver runs it on `Vector Float n` (`sqrt = Float.sqrt`,
op `c07_gmres_mgs`); `Proofs/C07GmresArn.lean` is about the same definitions over a `K`-module with
an exact square root.  Core Lean only. -/
namespace PyamgV.C07

section
variable {K V : Type} [Add K] [Sub K] [Mul K] [Div K] [Neg K] [OfNat K 0] [OfNat K 1]

/-- the modified Gram–Schmidt inner loop: `for k: alpha = <v_k, w>; H[.,k] = alpha; w -= alpha v_k` -/
def orthO (o : Ops K V) : List V → V → V × List K
  | [], w => (w, [])
  | q :: qs, w =>
    let d := o.dot q w
    let r := orthO o qs (o.sub w (o.smul d q))
    (r.1, d :: r.2)

/-- normalisation with the breakdown test `H[inner, inner+1] != 0` -/
def newColO (o : Ops K V) (sqrt : K → K) (pos : K → Bool) (rem : V) : V × K :=
  let nrm := sqrt (o.dot rem rem)
  if pos nrm then (o.smul (1 / nrm) rem, nrm) else (o.smul 0 rem, 0)

/-- one Arnoldi step: new basis vector and the new Hessenberg column `(h_0 … h_j, h_{j+1})` -/
def arnoldiO (o : Ops K V) (sqrt : K → K) (pos : K → Bool) (vs : List V) (vk : V) : V × List K :=
  let r := orthO o vs (o.M (o.A vk))
  let c := newColO o sqrt pos r.1
  (c.1, r.2 ++ [c.2])

/-- rotation `i` applied to entries `i`, `i+1` of a column -/
def rotL (i : Nat) (c s : K) (u : List K) : List K :=
  let a := u.getD i 0
  let b := u.getD (i + 1) 0
  (u.set i (c * a + s * b)).set (i + 1) (-s * a + c * b)

/-- the first `cs.length` rotations, rotation `0` first -/
def applyRots : Nat → List K → List K → List K → List K
  | i, c :: cs, s :: sn, u => applyRots (i + 1) cs sn (rotL i c s u)
  | _, _, _, u => u

/-- `lartg` (real): `c = f / r`, `s = g / r`, `r = sqrt (f² + g²)` -/
def lartgO (sqrt : K → K) (f g : K) : K × K :=
  let r := sqrt (f * f + g * g)
  (f / r, g / r)

/-- back substitution for the upper triangular system whose column `j` is `rcols[j]` (entries `0 … j`):
returns `y_0 … y_{m-1}` with `Σ_j y_j rcols[j][i] = g[i]` -/
def backSub (rcols : List (List K)) (g : List K) : Nat → List K → List K
  | 0, acc => acc
  | i+1, acc =>
    -- acc = y_{i+1} … y_{m-1}
    let m := rcols.length
    let s := (List.range (m - (i + 1))).foldl
      (fun t d => t + (rcols.getD (i + 1 + d) []).getD i 0 * acc.getD d 0) 0
    let yi := (g.getD i 0 - s) / (rcols.getD i []).getD i 0
    backSub rcols g i (yi :: acc)

/-- `x0 + Σ y_j v_j` -/
def combO (o : Ops K V) : V → List K → List V → V
  | x, c :: cs, v :: vs => combO o (o.add x (o.smul c v)) cs vs
  | x, _, _ => x

/-- result of the Givens bookkeeping of one inner iteration -/
structure GivUpd (K : Type) where
  rc : List K     -- the new Hessenberg column after all rotations (entry `inner+1` zeroed)
  c : K
  s : K
  g : List K      -- the rotated right-hand side, one entry longer

/-- "Apply previous Givens rotations to H", "calculate and apply next Givens rotation" (skipped in the
iteration `inner = n-1` and when `H[inner, inner+1] = 0`), "apply Givens rotation to g" -/
def givensUpdate (sqrt : K → K) (nz : K → Bool) (lastFull : Bool) (inner : Nat) (cs sn g col : List K) :
    GivUpd K :=
  let rc := applyRots 0 cs sn col
  let hj := rc.getD inner 0
  let hj1 := rc.getD (inner + 1) 0
  let rot := !lastFull && nz hj1
  let cssn := if rot then lartgO sqrt hj hj1 else ((1 : K), (0 : K))
  ⟨if rot then (rc.set inner (cssn.1 * hj + cssn.2 * hj1)).set (inner + 1) 0 else rc, cssn.1, cssn.2,
   if rot then rotL inner cssn.1 cssn.2 (g ++ [0]) else g ++ [0]⟩

structure GmSt (K V : Type) where
  vs : List V            -- Arnoldi basis v_0 … v_j
  cols : List (List K)   -- Hessenberg columns as computed (unrotated), column i has i+2 entries
  rcols : List (List K)  -- the same columns after all rotations applied so far
  cs : List K
  sn : List K
  g : List K             -- rotated right-hand side, j+1 entries
  xs : List V            -- iterates x_1 … x_j

/-- one inner iteration of `_gmres_mgs.py` (`n` = dimension: no rotation in the iteration `inner = n-1`) -/
def gmresStep (o : Ops K V) (sqrt : K → K) (pos : K → Bool) (nz : K → Bool) (n : Nat) (x0 : V)
    (s : GmSt K V) : GmSt K V :=
  let inner := s.cols.length
  let vk := s.vs.getLast?.getD x0
  let a := arnoldiO o sqrt pos s.vs vk
  let u := givensUpdate sqrt nz (inner + 1 == n) inner s.cs s.sn s.g a.2
  let rcols := s.rcols ++ [u.rc]
  let y := backSub rcols u.g (inner + 1) []
  let x := combO o x0 y s.vs
  ⟨s.vs ++ [a.1], s.cols ++ [a.2], rcols, s.cs ++ [u.c], s.sn ++ [u.s], u.g, s.xs ++ [x]⟩

def gmresInit (o : Ops K V) (sqrt : K → K) (b x0 : V) : GmSt K V :=
  let r := o.M (o.sub b (o.A x0))
  let nrm := sqrt (o.dot r r)
  ⟨[o.smul (1 / nrm) r], [], [], [], [], [nrm], []⟩

/-- the iterates `x_1 … x_k` of one GMRES(MGS) cycle -/
def gmresMgs (o : Ops K V) (sqrt : K → K) (pos nz : K → Bool) (n : Nat) (b x0 : V) (k : Nat) : List V :=
  (iter (gmresStep o sqrt pos nz n x0) k (gmresInit o sqrt b x0)).xs
end

/-- the `Float` instance the driver runs -/
def gmresMgsFloat (A M : List (List Float)) (b x0 : List Float) (k : Nat) : Option (List (List Float)) :=
  let n := b.length
  match toMat? n A, toMat? n M, toVec? n b, toVec? n x0 with
  | some A, some M, some b, some x0 =>
    let o := vecOps (fun a => a) A M
    some ((gmresMgs o Float.sqrt (fun a => a > 0) (fun a => a != 0) n b x0 k).map (·.toList))
  | _, _, _, _ => none

end PyamgV.C07
