import PyamgV.Proofs.SolveLoop
/-! PyamgV: `MultilevelSolver.solve` without `accel` (pyamg/multilevel.py:464-588), statement by
statement, with every caller-visible option: `x0` given/omitted, the one-level branch, the `residuals`
list (with whatever it held before the call), `callback`, `return_info`, the `normb == 0 -> 1` rule.
Core Lean only.  The cycle (`__solve`), the coarse solver and the residual norm are parameters: any
functions.  `Proofs/C01Solve.lean` proves that this function is the bookkeeping loop
`PyamgV.solve` (Proofs/SolveLoop.lean) seen through the options, and derives the property. -/
namespace PyamgV.C01

/-- what one call leaves behind, as the caller sees it -/
structure PyOut (X R : Type) where
  /-- the returned vector -/
  x : X
  /-- second component of the return value; `none` when `return_info=False` -/
  info : Option Nat
  /-- final content of the caller's `residuals` list; `none` when no list was passed -/
  residuals : Option (List R)
  /-- arguments the callback was called with, in order (`[]` when `callback=None`) -/
  cb : List X
deriving Repr, DecidableEq

variable {X R : Type}

/-- `while True:` of multilevel.py:562-588, literally:
one-level branch or `__solve`; `it += 1`; `normr`; `residuals.append`; `callback(x)`;
`if normr < tol*normb: return`; `if it == maxiter: return`.  `rem` is fuel (`none` = not stopped). -/
def loopPy (cycleML : X → X) (coarse : X) (oneLevel : Bool) (resnorm : X → R) (below : R → Bool)
    (maxiter : Nat) (hasRes hasCb returnInfo : Bool) :
    Nat → Nat → X → List R → List X → Option (PyOut X R)
  | 0, _, _, _, _ => none
  | rem+1, it, x, res, cb =>
    let x' := if oneLevel then coarse else cycleML x
    let it' := it + 1
    let normr := resnorm x'
    let res' := if hasRes then res ++ [normr] else res
    let cb' := if hasCb then cb ++ [x'] else cb
    if below normr then
      some ⟨x', if returnInfo then some 0 else none, if hasRes then some res' else none, cb'⟩
    else if it' = maxiter then
      some ⟨x', if returnInfo then some it' else none, if hasRes then some res' else none, cb'⟩
    else loopPy cycleML coarse oneLevel resnorm below maxiter hasRes hasCb returnInfo rem it' x' res' cb'

/-- the whole call.  `zeros` = `np.zeros_like(b)`; `x0 = none` = argument omitted;
`residuals = some l` = the caller passed a list currently holding `l` (`residuals[:] = [normr]`
discards `l`); `below r` = `r < tol*normb` with `normb` already replaced by 1 when it is 0. -/
def solvePy (zeros : X) (cycleML : X → X) (coarse : X) (oneLevel : Bool) (resnorm : X → R)
    (below : R → Bool) (maxiter : Nat) (x0 : Option X) (residuals : Option (List R))
    (hasCb returnInfo : Bool) : Option (PyOut X R) :=
  let x := match x0 with
    | none => zeros
    | some v => v
  let normr := resnorm x
  let res := match residuals with
    | some _ => [normr]
    | none => []
  loopPy cycleML coarse oneLevel resnorm below maxiter residuals.isSome hasCb returnInfo maxiter 0 x res []

/-- `normb = np.linalg.norm(b); if normb == 0.0: normb = 1.0` -/
def normbEff (normb : Rat) : Rat := if normb = 0 then 1 else normb

/-- `normr < tol * normb` on exact rationals -/
def belowRat (tol normb : Rat) (r : Rat) : Bool := decide (r < tol * normbEff normb)

/-! ### the replay instance the driver runs
Vectors are positions in an observed sequence of iterates (`0` = initial guess); a multilevel cycle
moves to the next position; the one-level branch always yields the first solve (position 1); the
residual norm of position `i` is the `i`-th observed norm.  Running past the observations counts as
"below" so that the run stops there and the overrun is visible (`x ≥ seq.size`). -/
def seqNorm (seq : Array Rat) (i : Nat) : Option Rat := seq[i]?
def belowObs (tol normb : Rat) : Option Rat → Bool
  | some r => belowRat tol normb r
  | none => true

def replayPy (maxiter : Nat) (tol normb : Rat) (seq : Array Rat) (oneLevel x0given : Bool)
    (residuals : Option (List (Option Rat))) (hasCb returnInfo : Bool) : Option (PyOut Nat (Option Rat)) :=
  solvePy 0 (· + 1) 1 oneLevel (seqNorm seq) (belowObs tol normb) maxiter
    (if x0given then some 0 else none) residuals hasCb returnInfo

/-- the bare bookkeeping loop of Proofs/SolveLoop.lean on the same instance -/
def replayLoop (maxiter : Nat) (tol normb : Rat) (seq : Array Rat) : Option (Out Nat (Option Rat)) :=
  solve (· + 1) (seqNorm seq) (belowObs tol normb) maxiter 0

end PyamgV.C01
