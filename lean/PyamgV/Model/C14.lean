import PyamgV.Model.KNum
import PyamgV.Model.CRat
/-! PyamgV (C14): executable row-level models of the strength-of-connection code paths.

* kernels (`ruge_stuben.h`, `smoothed_aggregation.h`): `socRow` (classical, both norms, real and
  complex: the norm is a parameter), `symRow` + `diagNorm` (symmetric), `rowMax`
  (`maximum_row_value`), `distFilterRow` / `absDistFilterRow` / `minBlock` (`evolution_strength.h`);
* Python post-processing of `pyamg/strength.py` and `pyamg/util/utils.py`: `absRow` (`np.abs`),
  `scaleRow` (`scale_rows_by_largest_entry`), `elimZeros` (`eliminate_zeros`), block reductions
  (`blockAbs/blockMin/blockFro` + the `1e-16` drop), `amalgRow` (`amalgamate`);
* the public functions assembled from them: `pubClassical*`, `pubSymmetric*`.

A matrix is read through `rowOf` (the stored entries of a CSR row in storage order: unsorted,
duplicated, missing or zero diagonal entries are all allowed).  Scalars are `Rat`, complex scalars
`CRat`; the complex modulus is exact or the request is rejected (`cnorm?`).  Core Lean only. -/
namespace PyamgV.C14
open PyamgV PyamgV.N

abbrev RowOf (α : Type) := List (Nat × α)
abbrev Row := RowOf Rat

/-- stored entries `(column, value)` of row `i`, in storage order -/
def rowOf (A : Csr) (i : Nat) : Row := (A.jjs i).map fun jj => (rdN A.aj jj, rdQ A.ax jj)

/-! ### classical strength kernels (ruge_stuben.h:63-204) -/

/-- first inner loop: `max_offdiagonal`, started at `tiny` (`numeric_limits<F>::min()` for the
`abs` kernel, `0.0` for the `min` kernel); `nrm` is `mynorm` resp. `x ↦ -x` -/
def maxOff {α : Type} (nrm : α → Rat) (tiny : Rat) (i : Nat) (row : RowOf α) : Rat :=
  row.foldl (fun m cv => if cv.1 ≠ i then max m (nrm cv.2) else m) tiny

/-- second inner loop, literally: "add entry if it exceeds the threshold" (off-diagonal only),
then "always add the diagonal" -/
def socRow {α : Type} (nrm : α → Rat) (tiny θ : Rat) (i : Nat) (row : RowOf α) : RowOf α :=
  let thr := θ * maxOff nrm tiny i row
  row.foldl (fun out cv =>
    let out := if nrm cv.2 ≥ thr ∧ cv.1 ≠ i then out ++ [cv] else out
    if cv.1 = i then out ++ [cv] else out) []

def negQ (q : Rat) : Rat := -q

/-! ### symmetric strength kernel (smoothed_aggregation.h:55-106) -/

/-- `diags[i] = mynorm(sum of the stored diagonal entries of row i)` -/
def diagNorm {α : Type} (nrm : α → Rat) (add : α → α → α) (zero : α) (i : Nat) (row : RowOf α) : Rat :=
  nrm (row.foldl (fun d cv => if cv.1 = i then add d cv.2 else d) zero)

/-- second loop of the symmetric kernel for row `i`; `nsq` is `mynormsq`, `d j = diags[j]` -/
def symRow {α : Type} (nsq : α → Rat) (θ : Rat) (d : Nat → Rat) (i : Nat) (row : RowOf α) : RowOf α :=
  row.foldl (fun out cv =>
    if i = cv.1 then out ++ [cv]
    else if nsq cv.2 ≥ θ * θ * d i * d cv.1 then out ++ [cv] else out) []

/-! ### post-processing: `np.abs`, `scale_rows_by_largest_entry`, `eliminate_zeros` -/

def absRow {α : Type} (nrm : α → Rat) (row : RowOf α) : Row := row.map fun cv => (cv.1, nrm cv.2)

/-- `maximum_row_value` (ruge_stuben.h:229-250): running maximum of `mynorm`, started at `tiny` -/
def rowMax {α : Type} (nrm : α → Rat) (tiny : Rat) (row : RowOf α) : Rat :=
  row.foldl (fun m cv => max m (nrm cv.2)) tiny

/-- `scale_rows_by_largest_entry` on one row: `largest[largest != 0] = 1/largest`, then
`csr_scale_rows` multiplies every stored entry -/
def scaleRow (tiny : Rat) (row : Row) : Row :=
  let m := rowMax absQ tiny row
  let s := if m ≠ 0 then 1 / m else m
  row.map fun cv => (cv.1, cv.2 * s)

def elimZeros (row : Row) : Row := row.filter fun cv => cv.2 ≠ 0

/-! ### whole matrices -/

/-- a matrix as the list of its rows -/
def rowsOf (A : Csr) : List Row := (List.range A.n).map (rowOf A)

def rowsToOut {α : Type} (rows : List (RowOf α)) : Array Nat × Array Nat × Array α :=
  rows.foldl (fun (o : Array Nat × Array Nat × Array α) r =>
    let sj := r.foldl (fun a cv => a.push cv.1) o.2.1
    let sx := r.foldl (fun a cv => a.push cv.2) o.2.2
    (o.1.push sj.size, sj, sx)) (#[0], #[], #[])

def mapRows {α β : Type} (f : Nat → RowOf α → RowOf β) (rows : List (RowOf α)) : List (RowOf β) :=
  (rows.zipIdx).map fun (r, i) => f i r

/-- `classical_strength_of_connection_abs/min` on every row -/
def classical {α : Type} (nrm : α → Rat) (tiny θ : Rat) (rows : List (RowOf α)) : List (RowOf α) :=
  mapRows (socRow nrm tiny θ) rows

/-- `symmetric_strength_of_connection` on every row -/
def symmetric {α : Type} (nrm nsq : α → Rat) (add : α → α → α) (zero : α) (θ : Rat)
    (rows : List (RowOf α)) : List (RowOf α) :=
  let diags : Array Rat := ((rows.zipIdx).map fun (r, i) => diagNorm nrm add zero i r).toArray
  mapRows (symRow nsq θ (fun j => diags.getD j 0)) rows

/-- `classical_strength_of_connection` (strength.py:214-245), CSR input, scalar type `α`:
kernel, `np.abs`, `scale_rows_by_largest_entry`, `eliminate_zeros` -/
def pubClassicalRow {α : Type} (nrm absf : α → Rat) (tinyK tiny θ : Rat) (i : Nat) (row : RowOf α) : Row :=
  elimZeros (scaleRow tiny (absRow absf (socRow nrm tinyK θ i row)))

def pubClassical {α : Type} (nrm absf : α → Rat) (tinyK tiny θ : Rat) (rows : List (RowOf α)) : List Row :=
  mapRows (pubClassicalRow nrm absf tinyK tiny θ) rows

/-- `symmetric_strength_of_connection` (strength.py:316-355), CSR input: kernel, `np.abs`, scaling -/
def pubSymmetric {α : Type} (nrm nsq : α → Rat) (add : α → α → α) (zero : α) (tiny θ : Rat)
    (rows : List (RowOf α)) : List Row :=
  (symmetric nrm nsq add zero θ rows).map fun r => scaleRow tiny (absRow nrm r)

/-! ### BSR input: block reductions and amalgamation -/

def blockAbs (b : List Rat) : Rat := b.foldl (fun m v => max m (absQ v)) 0
def blockMin (b : List Rat) : Rat := match b with | [] => 0 | v :: t => t.foldl (fun m w => min m w) v
def blockFro (b : List Rat) : Rat := b.foldl (fun s v => s + v * v) 0
/-- `data[np.abs(data) < 1e-16] = 0.0` -/
def dropSmall (drop : Rat) (d : Rat) : Rat := if absQ d < drop then 0 else d

/-- chop a flat array into blocks of `k` entries -/
def chunks (k : Nat) (xs : List Rat) : List (List Rat) :=
  if k = 0 then [] else
  (List.range (xs.length / k)).map fun b => (xs.drop (b * k)).take k

/-- sorted, duplicate-free insertion -/
def insSorted (x : Nat) : List Nat → List Nat
  | [] => [x]
  | y :: t => if x < y then x :: y :: t else if x = y then y :: t else y :: insSorted x t

/-- `amalgamate(S, bs)`: nodal row `I` = sorted set of `j / bs` over the scalar rows `I*bs .. I*bs+bs-1`, data one -/
def amalgamate (bs : Nat) (rows : List Row) : List Row :=
  if bs = 0 then [] else
  (List.range (rows.length / bs)).map fun I =>
    let cols := ((rows.drop (I * bs)).take bs).foldl (fun acc r => r.foldl (fun acc cv => insSorted (cv.1 / bs) acc) acc) []
    cols.map fun c => (c, (1 : Rat))

/-- kernel selection of `classical_strength_of_connection` (strength.py:228-235): `abs`/`fro` → abs
kernel started at `tiny`, `min` → signed kernel started at `0` -/
def pubClassicalNorm (norm : String) (tiny θ : Rat) (rows : List Row) : List Row :=
  if norm = "min" then pubClassical negQ absQ 0 tiny θ rows else pubClassical absQ absQ tiny tiny θ rows

/-- block-wise reduced values of a BSR matrix (strength.py:193-212), one per stored block -/
def blockData (norm : String) (drop : Rat) (bs : Nat) (data : List Rat) : List Rat :=
  (chunks (bs * bs) data).map fun b =>
    dropSmall drop (if norm = "min" then blockMin b else if norm = "fro" then blockFro b else blockAbs b)

/-- `classical_strength_of_connection(A_bsr, θ, block=True, norm)`: the nodal CSR matrix of the
reduced values through the CSR path -/
def pubClassicalBsr (norm : String) (tiny drop θ : Rat) (n : Nat) (ap aj : Array Nat) (bs : Nat)
    (data : List Rat) : List Row :=
  pubClassicalNorm norm tiny θ (rowsOf ⟨n, ap, aj, (blockData norm drop bs data).toArray⟩)

/-- `classical_strength_of_connection(A_bsr, θ, block=False, norm)` on the scalar CSR form of `A`:
strength.py:243 `if blocksize > 1 and not block: S = amalgamate(S, blocksize)` -/
def pubClassicalNoBlock (norm : String) (tiny θ : Rat) (bs : Nat) (rows : List Row) : List Row :=
  let S := pubClassicalNorm norm tiny θ rows
  if bs > 1 then amalgamate bs S else S

/-! ### exact complex modulus -/

def sqrtNat? (n : Nat) : Option Nat := let s := n.sqrt; if s * s = n then some s else none
/-- exact square root of a non-negative rational, if it is rational -/
def sqrtQ? (q : Rat) : Option Rat :=
  if q < 0 then none else
  match sqrtNat? q.num.toNat, sqrtNat? q.den with
  | some a, some b => some ((a : Rat) / (b : Rat))
  | _, _ => none
def cnorm? (z : CRat) : Option Rat := sqrtQ? (CRat.normSq z)
def cnorm (z : CRat) : Rat := (cnorm? z).getD 0

/-- `symmetric_strength_of_connection(A_bsr, θ)` (strength.py:322-342): `θ = 0` → ones on the block
pattern; otherwise the CSR path on the Frobenius norms of the blocks (`none`: a norm is irrational) -/
def pubSymmetricBsr (tiny θ : Rat) (n : Nat) (ap aj : Array Nat) (bs : Nat) (data : List Rat) : Option (List Row) :=
  if θ = 0 then
    some ((rowsOf ⟨n, ap, aj, Array.replicate aj.size 1⟩).map fun r => scaleRow tiny (absRow absQ r))
  else
    let fro := (chunks (bs * bs) data).map fun b => sqrtQ? (blockFro b)
    if fro.all (·.isSome) then
      some (pubSymmetric absQ (fun v => v * v) (· + ·) 0 tiny θ (rowsOf ⟨n, ap, aj, (fro.map (·.getD 0)).toArray⟩))
    else none

/-! ### distance filters and block minimum (evolution_strength.h:63-246) -/

/-- `apply_distance_filter` on row `i`: the diagonal becomes 1, off-diagonal entries
`≥ ε · min_offdiagonal` become 0; `big` models `numeric_limits<T>::max()` -/
def distFilterRow (big ε : Rat) (i : Nat) (row : Row) : Row :=
  let mn := row.foldl (fun m cv => if cv.1 ≠ i then min m cv.2 else m) big
  let thr := ε * mn
  row.map fun cv => if cv.1 = i then (cv.1, 1) else if cv.2 ≥ thr then (cv.1, 0) else cv

/-- `apply_absolute_distance_filter` on row `i` -/
def absDistFilterRow (ε : Rat) (i : Nat) (row : Row) : Row :=
  row.map fun cv => if cv.1 = i then (cv.1, 1) else if cv.2 ≥ ε then (cv.1, 0) else cv

/-- `min_blocks`: smallest non-zero entry of a block (`big` if there is none) -/
def minBlock (big : Rat) (b : List Rat) : Rat := b.foldl (fun m v => if v ≠ 0 then min m v else m) big

/-! ### the distance-type measures (strength.py:24-111, 1023-1072) -/

/-- `C + I` on a row sorted by column (scipy adds canonical matrices): the diagonal entry is
incremented, or inserted with value one -/
def addDiag (i : Nat) : Row → Row
  | [] => [(i, 1)]
  | (j, v) :: t => if j < i then (j, v) :: addDiag i t else if j = i then (j, v + 1) :: t else (i, 1) :: (j, v) :: t

/-- `C.data = 1.0 / C.data` -/
def invRow (row : Row) : Row := row.map fun cv => (cv.1, 1 / cv.2)

/-- tail of `distance_measure_common` (algebraic_distance, affinity_distance) for row `i`; `row` holds the
distances `func(x)` on the non-zero pattern of `A`: drop distances to self, `eliminate_zeros`,
`apply_distance_filter`, `eliminate_zeros`, invert, `+ I`, `scale_rows_by_largest_entry` -/
def distCommonRow (big tiny ε : Rat) (i : Nat) (row : Row) : Row :=
  let r0 := elimZeros (row.map fun cv => if cv.1 = i then (cv.1, 0) else cv)
  let r1 := elimZeros (distFilterRow big ε i r0)
  scaleRow tiny (addDiag i (invRow r1))

/-- `distance_strength_of_connection` for row `i`; `row` holds the clamped Euclidean distances on the
stored pattern of `A`; `θ = none` is `numpy.inf` -/
def distStrengthRow (big tiny : Rat) (θ : Option Rat) (relative : Bool) (i : Nat) (row : Row) : Row :=
  let r1 := match relative, θ with
    | true, some t => distFilterRow big t i row
    | true, none => row                                   -- `if theta != np.inf` : no filter at all
    | false, some t => absDistFilterRow t i row
    | false, none => row.map fun cv => if cv.1 = i then (cv.1, 1) else cv
  scaleRow tiny (invRow (addDiag i (elimZeros r1)))

/-- tail of `energy_based_strength_of_connection` (strength.py:474-495, CSR input) for row `i`; `row` holds the
energy measure on the pattern of `A` (sorted by column): `classical_strength_of_connection(·, θ)`,
`eliminate_zeros`, `+ I`, `scale_rows_by_largest_entry` -/
def energyTailRow (tiny θ : Rat) (i : Nat) (row : Row) : Row :=
  scaleRow tiny (addDiag i (elimZeros (pubClassicalRow absQ absQ tiny tiny θ i row)))

/-! ### tail of `evolution_strength_of_connection` (strength.py:817-857, CSR input) -/

def present (rows : List Row) (i j : Nat) : Bool := (rows.getD i []).any (fun cv => cv.1 == j)
def entry (rows : List Row) (i j : Nat) : Rat := (((rows.getD i []).find? (fun cv => cv.1 == j)).map (·.2)).getD 0

/-- row `i` of `0.5 * (T + T.T)` (scipy stores no zero sums; columns come out sorted) -/
def symmetrizeRow (rows : List Row) (i : Nat) : Row :=
  (List.range rows.length).filterMap fun j =>
    if present rows i j || present rows j i then
      (if entry rows i j + entry rows j i ≠ 0 then some (j, (entry rows i j + entry rows j i) / 2) else none)
    else none

/-- `Id.data -= T.diagonal(); T = T + Id` on a row sorted by column: the diagonal becomes `d + (1 - d)` -/
def unitDiag (i : Nat) : Row → Row
  | [] => [(i, 1)]
  | (j, v) :: t => if j < i then (j, v) :: unitDiag i t else if j = i then (j, v + (1 - v)) :: t else (i, 1) :: (j, v) :: t

/-- everything after the strength values of `evolution_strength_of_connection` for finite `epsilon`, CSR input:
`apply_distance_filter`, `eliminate_zeros`, optional symmetrisation, unit diagonal, inversion, row scaling;
`rows` holds the (real, non-negative) measure handed to the filter, rows sorted by column -/
def evolTail (big tiny ε : Rat) (symm : Bool) (rows : List Row) : List Row :=
  let r1 := mapRows (fun i r => elimZeros (distFilterRow big ε i r)) rows
  let r2 := if symm then (List.range r1.length).map (symmetrizeRow r1) else r1
  mapRows (fun i r => scaleRow tiny (invRow (unitDiag i r))) r2

/-- `C(i,j) = max(‖V_i − V_j‖₂, lo)` on the stored pattern (`none`: an irrational distance) -/
def distRow (lo : Rat) (V : Array (List Rat)) (i : Nat) (cols : List Nat) : Option Row :=
  cols.mapM fun j =>
    let vi := V.getD i []
    let vj := V.getD j []
    (sqrtQ? ((vi.zip vj).foldl (fun s (a, b) => s + (a - b) * (a - b)) 0)).map fun c => (j, if c < lo then lo else c)

end PyamgV.C14
