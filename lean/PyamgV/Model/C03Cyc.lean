/-! # C03 model: `MultilevelSolver.solve` / `__solve` / `aspreconditioner` on dense rational data

Import-free (core Lean only), executable, total.  Vectors are `List Rat`, matrices lists of rows.
All vector operations are *zero-padding*: a list denotes the sequence `i ↦ l.getD i 0`, so every
operation below is defined (and linear) for every shape -- there are no shape side conditions.

Mirrors `pyamg/multilevel.py`:
* `cycM`  = `MultilevelSolver.__solve(lvl, x, b, cycle, cycles_per_level)` for `cycle ∈ {V, W, F}`;
  the smoothers of a level are given as linear-iteration matrices `Q` (`x ← x + Q (b − A x)`), the
  coarse solver as a matrix `S` (`coarse_x[:] = coarse_solver(levels[-1].A, coarse_b)`),
* `cycT`  = the same recursion, additionally recording the order of smoother / coarse-solver calls,
* `solveM` = the un-accelerated loop of `solve` (one-level hierarchies: `x = coarse_solver(A, b)`),
* `precM`  = `aspreconditioner(cycle).matvec`,
* `mopM`   = the textbook operator `M` of a cycle as a dense matrix, composed from the same pieces,
* `traceM` = the textbook order of visits (`pre l`, `coarse`, `post l`). -/
namespace PyamgV.C03

abbrev Vec := List Rat
abbrev Mat := List (List Rat)

/-! ## zero-padding dense linear algebra -/

def vadd : Vec → Vec → Vec
  | [], ys => ys
  | x :: xs, [] => x :: xs
  | x :: xs, y :: ys => (x + y) :: vadd xs ys

def vneg (x : Vec) : Vec := x.map (fun a => -a)

def vsub : Vec → Vec → Vec
  | [], ys => vneg ys
  | x :: xs, [] => x :: xs
  | x :: xs, y :: ys => (x - y) :: vsub xs ys

def vsmul (a : Rat) (x : Vec) : Vec := x.map (fun t => a * t)

def dot : Vec → Vec → Rat
  | a :: r, x :: xs => a * x + dot r xs
  | _, _ => 0

def matVec (A : Mat) (x : Vec) : Vec := A.map (fun r => dot r x)

def zeros (n : Nat) : Vec := List.replicate n 0

/-- `Σ_k r_k · B_k` (row `k` of `B`) -/
def rowComb : Vec → Mat → Vec
  | a :: r, row :: B => vadd (vsmul a row) (rowComb r B)
  | _, _ => []

def matMul (A B : Mat) : Mat := A.map (fun r => rowComb r B)

def madd : Mat → Mat → Mat
  | [], B => B
  | r :: A, [] => r :: A
  | r :: A, s :: B => vadd r s :: madd A B

def msub : Mat → Mat → Mat
  | [], B => B.map vneg
  | r :: A, [] => r :: A
  | r :: A, s :: B => vsub r s :: msub A B

/-! ## the hierarchy -/

/-- cycle argument of `solve` (`str(cycle).upper()`); AMLI is nonlinear and not modelled -/
inductive Cyc | V | W | F
  deriving DecidableEq, Repr

/-- a non-coarsest level: `levels[i].A/P/R`, `presmoother`/`postsmoother` as `x ← x + Q (b − A x)` -/
structure Lvl where
  A : Mat
  P : Mat
  R : Mat
  Qpre : Mat
  Qpost : Mat

/-- one stationary smoothing step in linear-iteration form -/
def smooth (A Q : Mat) (x b : Vec) : Vec := vadd x (matVec Q (vsub b (matVec A x)))

def iterN {α : Type} (f : α → α) : Nat → α → α
  | 0, x => x
  | k + 1, x => iterN f k (f x)

/-- `__solve(lvl, x, b, cycle, cycles_per_level)`; `Ls = levels[lvl:-1]` (non-empty when called).
Line by line: presmooth; `residual = b - A x`; `coarse_b = R residual`; `coarse_x = 0`;
coarse solve on the last level, else the V / W / F branch (the recursive `'V'` and `'W'` calls use
the default `cycles_per_level = 1`, the recursive `'F'` call forwards it); `x += P coarse_x`;
postsmooth. -/
def cycM (S : Mat) : Cyc → Nat → List Lvl → Vec → Vec → Vec
  | _, _, [], x, _ => x
  | c, cpl, L :: rest, x, b =>
    let x1 := smooth L.A L.Qpre x b
    let residual := vsub b (matVec L.A x1)
    let coarse_b := matVec L.R residual
    let coarse_x0 := zeros coarse_b.length
    let coarse_x : Vec := match rest with
      | [] => matVec S coarse_b
      | _ :: _ => match c with
        | .V => cycM S .V 1 rest coarse_x0 coarse_b
        | .W => cycM S .W 1 rest (cycM S .W 1 rest coarse_x0 coarse_b) coarse_b
        | .F => iterN (fun cx => cycM S .V 1 rest cx coarse_b) cpl (cycM S .F cpl rest coarse_x0 coarse_b)
    let x2 := vadd x1 (matVec L.P coarse_x)
    smooth L.A L.Qpost x2 b

/-! ## the order of visits -/

inductive Ev
  | pre (l : Nat)
  | post (l : Nat)
  | coarse
  deriving DecidableEq, Repr

/-- textbook order of the calls made by one cycle entered on level `lvl` with `m` non-coarsest
levels below and including it -/
def traceM : Cyc → Nat → Nat → Nat → List Ev
  | _, _, _, 0 => []
  | c, cpl, lvl, m + 1 =>
    let inner : List Ev := match m with
      | 0 => [Ev.coarse]
      | _ + 1 => match c with
        | .V => traceM .V 1 (lvl + 1) m
        | .W => traceM .W 1 (lvl + 1) m ++ traceM .W 1 (lvl + 1) m
        | .F => traceM .F cpl (lvl + 1) m ++ (List.replicate cpl (traceM .V 1 (lvl + 1) m)).flatten
    Ev.pre lvl :: (inner ++ [Ev.post lvl])

/-- thread a state through `k` applications, concatenating the logs -/
def iterT {α β : Type} (f : α → α × List β) : Nat → α × List β → α × List β
  | 0, s => s
  | k + 1, s => let r := f s.1; iterT f k (r.1, s.2 ++ r.2)

/-- `cycM` instrumented: also returns the sequence of smoother / coarse-solver calls -/
def cycT (S : Mat) : Cyc → Nat → Nat → List Lvl → Vec → Vec → Vec × List Ev
  | _, _, _, [], x, _ => (x, [])
  | c, cpl, lvl, L :: rest, x, b =>
    let x1 := smooth L.A L.Qpre x b
    let residual := vsub b (matVec L.A x1)
    let coarse_b := matVec L.R residual
    let coarse_x0 := zeros coarse_b.length
    let cx : Vec × List Ev := match rest with
      | [] => (matVec S coarse_b, [Ev.coarse])
      | _ :: _ => match c with
        | .V => cycT S .V 1 (lvl + 1) rest coarse_x0 coarse_b
        | .W =>
          let r1 := cycT S .W 1 (lvl + 1) rest coarse_x0 coarse_b
          let r2 := cycT S .W 1 (lvl + 1) rest r1.1 coarse_b
          (r2.1, r1.2 ++ r2.2)
        | .F => iterT (fun v => cycT S .V 1 (lvl + 1) rest v coarse_b) cpl
                  (cycT S .F cpl (lvl + 1) rest coarse_x0 coarse_b)
    let x2 := vadd x1 (matVec L.P cx.1)
    (smooth L.A L.Qpost x2 b, Ev.pre lvl :: (cx.2 ++ [Ev.post lvl]))

/-! ## the outer loop and the preconditioner -/

/-- one iteration of the `while True` loop of `solve` (no acceleration): a one-level hierarchy
calls the coarse solver on `(A, b)` and ignores `x`; otherwise `__solve(0, x, b, cycle, cpl)` -/
def stepM (S : Mat) (c : Cyc) (cpl : Nat) (Ls : List Lvl) (b x : Vec) : Vec :=
  match Ls with
  | [] => matVec S b
  | _ :: _ => cycM S c cpl Ls x b

/-- the loop `while True: step; it += 1; if normr < tol*normb: return; if it == maxiter: return`
with `stop x` standing for the residual test; `maxiter ≥ 1` -/
def loopM (step : Vec → Vec) (stop : Vec → Bool) : Nat → Vec → Vec
  | 0, x => x
  | k + 1, x =>
    let x' := step x
    if stop x' then x' else if k = 0 then x' else loopM step stop k x'

def solveM (S : Mat) (c : Cyc) (cpl : Nat) (Ls : List Lvl) (stop : Vec → Bool) (maxiter : Nat)
    (b x0 : Vec) : Vec :=
  loopM (stepM S c cpl Ls b) stop maxiter x0

/-- `aspreconditioner(cycle).matvec(b) = solve(b, maxiter=1, cycle=cycle, tol=1e-12)`:
zero initial guess, default `cycles_per_level = 1` -/
def precM (S : Mat) (c : Cyc) (Ls : List Lvl) (stop : Vec → Bool) (v : Vec) : Vec :=
  solveM S c 1 Ls stop 1 v (zeros v.length)

/-! ## the textbook operator as a matrix -/

/-- operator of "first `M₁`, then `M₂`" for the matrix `A`: `M₁ + M₂ − M₂ A M₁` -/
def compMat (A M₁ M₂ : Mat) : Mat := msub (madd M₁ M₂) (matMul M₂ (matMul A M₁))

def iterMat (A M : Mat) : Nat → Mat → Mat
  | 0, M0 => M0
  | k + 1, M0 => iterMat A M k (compMat A M0 M)

/-- `M` of one cycle: pre-smoother, then `P · Mc · R` with the coarse operator `Mc` (the coarse
solve on the last level; otherwise one V-cycle / two W-cycles / one F-cycle followed by `cpl`
V-cycles on the next level, all for that level's own matrix), then the post-smoother -/
def mopM (S : Mat) : Cyc → Nat → List Lvl → Mat
  | _, _, [] => S
  | c, cpl, L :: rest =>
    let Mc : Mat := match rest with
      | [] => S
      | L' :: _ => match c with
        | .V => mopM S .V 1 rest
        | .W => compMat L'.A (mopM S .W 1 rest) (mopM S .W 1 rest)
        | .F => iterMat L'.A (mopM S .V 1 rest) cpl (mopM S .F cpl rest)
    compMat L.A (compMat L.A L.Qpre (matMul L.P (matMul Mc L.R))) L.Qpost

end PyamgV.C03
