import PyamgV.Generated.PyLogic3_classical
/-! PyamgV (extension E58, properties C13 / C11): the SCENARIOS in which the definitions generated from the Python
wrappers of pyamg/classical/split.py and pyamg/classical/interpolate.py (`Generated/PyLogic3_classical.lean`) are
evaluated by the theorems of `Proofs/ExtPy3ClassicalSplit.lean` / `ExtPy3ClassicalInterp.lean`, and the SPECIFICATION of each wrapper (the exact sequence of
events -- SciPy / NumPy operations, calls of other pyamg functions, native kernels with their argument identities --
and the result or exception class).  Core Lean only, executable: the driver op `ext_py3_classical_grid <fn> <k>` runs
scenario `k` of the grid of `fn`, and `harness/extpy3_classical.py` runs the REAL function in the same scenario (mirrored
there) and compares result and trace exactly, on every run of the checks.

Naming: the scripted answers give the interesting intermediate objects readable names -- `S1` = `remove_diagonal(S)`,
`T1` = `S1.T.tocsr()`, `Cc` = `C.copy()`, `Cs` = `classical_strength_of_connection(A, ...)`, `Cm` = `Cc.multiply(A)` /
`Cs.multiply(A)` -- so that "which matrix does the kernel receive" can be read off the arguments (`S1.indptr` vs
`T1.indptr`, `Cc.data` vs `C.data`). -/
namespace PyamgV.ExtPy3ClassicalW
open PyamgV.ExtPy PyamgV.ExtPy2 PyamgV.ExtPy3Classical PyamgV.Generated.PyLogic3_classical

abbrev Out := Except String PyVal × List PyVal

def o (p : String) : PyVal := .obj p

def exec (x : PyM2 PyVal) (script : List (String × List PyVal)) : Out :=
  let r := PyM2.exec x { trace := [], script := script }
  (match r.1 with | .ok v => .ok v | .error e => .error e.cls, r.2.trace)

def bools : List Bool := [false, true]
def fmts : List String := ["csr", "csc", "bsr"]
/-- option values as Python passes them: `False True 0 1 None` -/
def flags : List PyVal := [.bool false, .bool true, .int 0, .int 1, .none]

def intc : List (String × PyVal) := [("dtype", .str "intc")]

/-- `x.shape[0]` of an object whose shape the world does not fix -/
def dim0 (x : String) : PyVal := o (x ++ ".shape[0]")

/-! ### pyamg/classical/split.py -/

structure SplitSc where
  sparse : Bool
  fmt : String
  /-- `second_pass` (RS) / `color` (CLJP) / `maxiter` (MIS) -/
  opt : PyVal
deriving Repr

def splitWorld (name fmt : String) : World := { heap := [(name, [("format", .str fmt)])] }

def splitScript (sparse : Bool) : List (String × List PyVal) :=
  [("issparse", [.bool sparse]), ("remove_diagonal", [o "S1"]), ("S1.T.tocsr", [o "T1"]), ("np.empty", [o "splitting"]),
   ("np.zeros", [o "influence"])]

def SplitSc.valid (sc : SplitSc) : Bool := sc.sparse && sc.fmt == "csr"

def runRS (sc : SplitSc) : Out := exec (split_RS (splitWorld "S" sc.fmt) (o "S") sc.opt) (splitScript sc.sparse)
def runCLJP (sc : SplitSc) : Out := exec (split_CLJP (splitWorld "S" sc.fmt) (o "S") sc.opt) (splitScript sc.sparse)

/-- validation, `S1 = remove_diagonal(S)`, `T1 = S1.T.tocsr()` -/
def prepEvents : List PyVal := [callEv "remove_diagonal" [o "S"] [], callEv "S1.T.tocsr" [] []]

/-- the first pass receives (S1, T1) -- the hand-written model's `RS.run (prepS S) (prepT S)` --, the second pass
receives S1 -- `RS.pass2 (prepS S) x` -- and the splitting of the first pass -/
def expectedRS (sc : SplitSc) : Out :=
  if sc.valid then
    (.ok (o "splitting"),
     [callEv "issparse" [o "S"] []] ++ prepEvents ++
     [callEv "np.empty" [dim0 "S1"] intc, callEv "np.zeros" [.tuple [dim0 "S1"]] intc,
      callEv "amg_core.rs_cf_splitting" [dim0 "S1", o "S1.indptr", o "S1.indices", o "T1.indptr", o "T1.indices", o "influence", o "splitting"] []] ++
     (if pyTruthy sc.opt then [callEv "amg_core.rs_cf_splitting_pass2" [dim0 "S1", o "S1.indptr", o "S1.indices", o "splitting"] []] else []))
  else (.error "TypeError", [callEv "issparse" [o "S"] []])

/-- `KCljp.run o (prepS S) (prepT S)`: the kernel receives (S1, T1), the output array and the colouring flag -/
def expectedCLJP (sc : SplitSc) : Out :=
  if sc.valid then
    (.ok (o "splitting"),
     [callEv "issparse" [o "S"] []] ++ prepEvents ++
     [callEv "np.empty" [dim0 "S1"] intc,
      callEv "amg_core.cljp_naive_splitting" [dim0 "S1", o "S1.indptr", o "S1.indices", o "T1.indptr", o "T1.indices", o "splitting",
        .int (if pyTruthy sc.opt then 1 else 0)] []])
  else (.error "TypeError", [callEv "issparse" [o "S"] []])

def gridRS : List SplitSc :=
  bools.flatMap fun sp => fmts.flatMap fun fmt => flags.map fun op => { sparse := sp, fmt := fmt, opt := op }

def gridCLJP : List SplitSc := gridRS

def misScript (sparse : Bool) : List (String × List PyVal) :=
  [("issparse", [.bool sparse]), ("remove_diagonal", [o "G1"]), ("np.empty", [o "mis"])]

/-- `MIS` with an arbitrary `weights` value (it is only handed on) -/
def runMISG (sc : SplitSc) (wts : PyVal) : Out :=
  exec (split_MIS (splitWorld "G" sc.fmt) (o "G") wts sc.opt) (misScript sc.sparse)

def runMIS (sc : SplitSc) : Out := runMISG sc (o "weights")

/-- `maxiter` as the kernel gets it: -1 for `None` -/
def misMaxiter : PyVal → Option PyVal
  | .none => some (.int (-1))
  | .int k => if k < 0 then Option.none else some (.int k)
  | _ => Option.none

def expectedMISG (sc : SplitSc) (wts : PyVal) : Out :=
  if sc.valid then
    let pre := [callEv "issparse" [o "G"] [], callEv "remove_diagonal" [o "G"] [], callEv "np.empty" [dim0 "G1"] intc,
                fillEv "mis" (.int (-1))]
    match misMaxiter sc.opt with
    | some m =>
      (.ok (o "mis"), pre ++ [callEv "amg_core.maximal_independent_set_parallel"
        [dim0 "G1", o "G1.indptr", o "G1.indices", .int (-1), .int 1, .int 0, o "mis", wts, m] []])
    | Option.none => (.error "ValueError", pre)
  else (.error "TypeError", [callEv "issparse" [o "G"] []])

def expectedMIS (sc : SplitSc) : Out := expectedMISG sc (o "weights")

def gridMIS : List SplitSc :=
  bools.flatMap fun sp => fmts.flatMap fun fmt => [PyVal.none, .int 0, .int 3, .int (-1)].map fun op =>
    { sparse := sp, fmt := fmt, opt := op }

/-- what `_preprocess` answers: 0 = the 4-tuple, 1 = a 3-tuple, 2 = not scripted (a fresh opaque object) -/
def preAnswer : Nat → List PyVal
  | 0 => [.tuple [o "w", o "G", o "S2", o "T2"]]
  | 1 => [.tuple [o "w", o "G", o "S2"]]
  | _ => []

def pmisScript (kind : Nat) : List (String × List PyVal) :=
  [("remove_diagonal", [o "S1"]), ("_preprocess", preAnswer kind), ("MIS", [o "split"])]

def runPMIS (kind : Nat) : Out := exec (split_PMIS {} (o "S")) (pmisScript kind)
/-- `PMISc` with an arbitrary `method` value (it is only handed on) -/
def runPMIScG (method : PyVal) (kind : Nat) : Out := exec (split_PMISc {} (o "S") method) (pmisScript kind)
def runPMISc (mk : String × Nat) : Out := runPMIScG (.str mk.1) mk.2

def pmisTail (kind : Nat) (pre : List PyVal) (dirichlet : Bool) : Out :=
  match kind with
  | 0 => (.ok (o "split"), pre ++ [callEv "MIS" [o "G", o "w"] []] ++
           (if dirichlet then [callEv "_set_dirichlet" [o "G", o "split"] []] else []))
  | 1 => (.error "ValueError", pre)
  | _ => (.error "TypeError", pre)

/-- `PMIS`: diagonal removed, `_preprocess` on the result, `MIS(G, weights)` on ITS graph and weights, Dirichlet rows -/
def expectedPMIS (kind : Nat) : Out :=
  pmisTail kind [callEv "remove_diagonal" [o "S"] [], callEv "_preprocess" [o "S1"] []] true

/-- `PMISc`: the same with the colouring method handed on; no Dirichlet post-processing -/
def expectedPMIScG (method : PyVal) (kind : Nat) : Out :=
  pmisTail kind [callEv "remove_diagonal" [o "S"] [], callEv "_preprocess" [o "S1"] [("coloring_method", method)]] false
def expectedPMISc (mk : String × Nat) : Out := expectedPMIScG (.str mk.1) mk.2

def gridPMIS : List Nat := [0, 1, 2]
def gridPMISc : List (String × Nat) := ["JP", "MIS", "LDF"].flatMap fun m => [0, 1, 2].map fun k => (m, k)

def runCLJPc (_ : Unit) : Out := exec (split_CLJPc {} (o "S")) [("remove_diagonal", [o "S1"]), ("CLJP", [o "split"])]
def expectedCLJPc (_ : Unit) : Out :=
  (.ok (o "split"), [callEv "remove_diagonal" [o "S"] [], callEv "CLJP" [o "S1"] [("color", .bool true)]])
def gridCLJPc : List Unit := [()]

structure PreSc where
  sparse : Bool
  fmt : String
  cols : Int
  method : PyVal
deriving Repr

def preWorld (sc : PreSc) : World :=
  { heap := [("S", [("format", .str sc.fmt), ("shape", .tuple [.int 5, .int sc.cols])]), ("w0", [("__len__", .int 5)])] }

def preScript (sparse : Bool) : List (String × List PyVal) :=
  [("issparse", [.bool sparse]), ("np.ones", [o "ones"]), ("csr_array", [o "S2"]), ("S2.T.tocsr", [o "T2"]),
   ("<add>", [o "G", o "a1", o "a2", o "a3"]), ("<div>", [o "d1"]), ("T2.sum", [o "rowsum"]), ("np.ravel", [o "w0"]),
   ("np.random.rand", [o "rnd"]), ("vertex_coloring", [o "coloring"]), ("coloring.max", [o "cmax"])]

def runPre (sc : PreSc) : Out := exec (split_preprocess (preWorld sc) (o "S") sc.method) (preScript sc.sparse)

def binEv (op : String) (a b : PyVal) : PyVal := .tuple [.str "binop", .str op, a, b]

/-- `_preprocess`: validation (sparse CSR, square), the pattern copy `S2` (ones of `np.int32`, the caller's index
arrays, shape (N, N)), `T2 = S2.T.tocsr()`, `G = S2 + T2` with `G.data[:] = 1` (the fresh sum is filled, not an
argument), weights = row sums of `T2` (= column counts of `S2`) plus random numbers (plus colour / #colours) -/
def expectedPre (sc : PreSc) : Out :=
  let v := [callEv "issparse" [o "S"] []]
  if !(sc.sparse && sc.fmt == "csr") then (.error "TypeError", v)
  else if sc.cols != 5 then (.error "ValueError", v)
  else
    let pre := v ++
      [callEv "np.ones" [o "S.nnz"] [("dtype", o "np.int32")],
       callEv "csr_array" [.tuple [o "ones", o "S.indices", o "S.indptr"]] [("shape", .tuple [.int 5, .int 5])],
       callEv "S2.T.tocsr" [] [], binEv "add" (o "S2") (o "T2"), fillEv "G.data" (.int 1),
       callEv "T2.sum" [] [("axis", .int 1)], callEv "np.ravel" [o "rowsum"] []]
    match sc.method with
    | .none => (.ok (.tuple [o "a1", o "G", o "S2", o "T2"]),
                pre ++ [callEv "np.random.rand" [.int 5] [], binEv "add" (o "w0") (o "rnd")])
    | m => (.ok (.tuple [o "a3", o "G", o "S2", o "T2"]),
            pre ++ [callEv "vertex_coloring" [o "G", m] [], callEv "coloring.max" [] [], binEv "add" (o "cmax") (.int 1),
                    callEv "np.random.rand" [.int 5] [], binEv "add" (o "rnd") (o "coloring"), binEv "div" (o "a2") (o "a1"),
                    binEv "add" (o "w0") (o "d1")])

def gridPre : List PreSc :=
  bools.flatMap fun sp => fmts.flatMap fun fmt => [(5 : Int), 4].flatMap fun c => [PyVal.none, .str "JP"].map fun m =>
    { sparse := sp, fmt := fmt, cols := c, method := m }

/-! ### pyamg/classical/interpolate.py -/

structure InterpSc where
  spA : Bool
  spC : Bool
  fmtA : String
  fmtC : String
  theta : PyVal
  norm : String
  /-- `modified` (classical_interpolation only) -/
  modified : Bool
deriving Repr

/-- both matrices pass the validation -/
def InterpSc.valid (sc : InterpSc) : Bool := sc.spA && sc.fmtA == "csr" && sc.spC && sc.fmtC == "csr"

def interpWorld (sc : InterpSc) : World := { heap := [("A", [("format", .str sc.fmtA)]), ("C", [("format", .str sc.fmtC)])] }

def interpScript (sc : InterpSc) : List (String × List PyVal) :=
  [("issparse", [.bool sc.spA, .bool sc.spC]), ("C.copy", [o "Cc"]), ("classical_strength_of_connection", [o "Cs"]),
   ("Cc.multiply", [o "Cm"]), ("Cs.multiply", [o "Cm"]), ("np.empty_like", [o "P_indptr"]),
   ("np.empty", [o "P_indices", o "P_data"]), ("np.sum", [o "nc"]), ("csr_array", [o "P"])]

/-- with an arbitrary `splitting` value (it is only handed on) -/
def runDirectG (sc : InterpSc) (sp : PyVal) : Out :=
  exec (interp_direct_interpolation (interpWorld sc) (o "A") (o "C") sp sc.theta (.str sc.norm)) (interpScript sc)
def runDirect (sc : InterpSc) : Out := runDirectG sc (o "splitting")

def runClassicalG (sc : InterpSc) (sp : PyVal) : Out :=
  exec (interp_classical_interpolation (interpWorld sc) (o "A") (o "C") sp sc.theta (.str sc.norm) (.bool sc.modified))
    (interpScript sc)
def runClassical (sc : InterpSc) : Out := runClassicalG sc (o "splitting")

/-- the argument validation: A first, C only when A passed -/
def interpValidation (sc : InterpSc) : List PyVal × Bool :=
  if !(sc.spA && sc.fmtA == "csr") then ([callEv "issparse" [o "A"] []], false)
  else ([callEv "issparse" [o "A"] [], callEv "issparse" [o "C"] []], sc.spC && sc.fmtC == "csr")

/-- the strength matrix the function works on: the COPY `Cc` of the caller's `C`, or the recomputed `Cs` -/
def work (sc : InterpSc) : String := match sc.theta with | .none => "Cc" | _ => "Cs"

def socEv (sc : InterpSc) : PyVal :=
  match sc.theta with
  | .none => callEv "C.copy" [] []
  | t => callEv "classical_strength_of_connection" [o "A"] [("theta", t), ("norm", .str sc.norm)]

def pArrays : List PyVal := [o "P_indptr", o "P_indices", o "P_data"]

def allocEvents : List PyVal :=
  [callEv "np.empty" [o "P_indptr[-1]"] [("dtype", o "P_indptr.dtype")], callEv "np.empty" [o "P_indptr[-1]"] [("dtype", o "A.dtype")]]

def resultEv : PyVal := callEv "csr_array" [.tuple [o "P_data", o "P_indices", o "P_indptr"]] [("shape", .list [dim0 "A", o "nc"])]

/-- `direct_interpolation` (`Glue.apiDirect` / `apiDirectTheta`): copy | strength, eliminate_zeros, data = 1,
multiply(A), pass 1 on the product's pattern, pass 2 on A and the product -/
def expectedDirectG (sc : InterpSc) (sp : PyVal) : Out :=
  let (v, ok) := interpValidation sc
  if !ok then (.error "TypeError", v)
  else
    let X := work sc
    (.ok (o "P"), v ++
      [socEv sc, callEv (X ++ ".eliminate_zeros") [] [], fillEv (X ++ ".data") (.float 1), callEv (X ++ ".multiply") [o "A"] [],
       callEv "np.empty_like" [o "A.indptr"] [],
       callEv "amg_core.rs_direct_interpolation_pass1" [dim0 "A", o "Cm.indptr", o "Cm.indices", sp, o "P_indptr"] []] ++
      allocEvents ++
      [callEv "amg_core.rs_direct_interpolation_pass2"
         ([dim0 "A", o "A.indptr", o "A.indices", o "A.data", o "Cm.indptr", o "Cm.indices", o "Cm.data", sp] ++ pArrays) [],
       callEv "np.sum" [sp] [], resultEv])

def expectedDirect (sc : InterpSc) : Out := expectedDirectG sc (o "splitting")

/-- `classical_interpolation` (`Glue.apiClassical` / `apiClassicalTheta`): copy -> eliminate_zeros (copy only) ->
remove_strong_FF_connections on the working matrix (modified only) -> eliminate_zeros -> data = 1 -> multiply(A) ->
pass 1 -> pass 2 (which is told `modified`) -/
def expectedClassicalG (sc : InterpSc) (sp : PyVal) : Out :=
  let (v, ok) := interpValidation sc
  if !ok then (.error "TypeError", v)
  else
    let X := work sc
    (.ok (o "P"), v ++ [callEv "np.sum" [sp] [], socEv sc] ++
      (match sc.theta with | .none => [callEv "Cc.eliminate_zeros" [] []] | _ => []) ++
      (if sc.modified then [callEv "amg_core.remove_strong_FF_connections"
          [dim0 "A", o (X ++ ".indptr"), o (X ++ ".indices"), o (X ++ ".data"), sp] []] else []) ++
      [callEv (X ++ ".eliminate_zeros") [] [], fillEv (X ++ ".data") (.float 1), callEv (X ++ ".multiply") [o "A"] [],
       callEv "np.empty_like" [o "A.indptr"] [],
       callEv "amg_core.rs_classical_interpolation_pass1" [dim0 "A", o "Cm.indptr", o "Cm.indices", sp, o "P_indptr"] []] ++
      allocEvents ++
      [callEv "amg_core.rs_classical_interpolation_pass2"
         ([dim0 "A", o "A.indptr", o "A.indices", o "A.data", o "Cm.indptr", o "Cm.indices", o "Cm.data", sp] ++ pArrays ++
          [.bool sc.modified]) [],
       resultEv])

def expectedClassical (sc : InterpSc) : Out := expectedClassicalG sc (o "splitting")

def theta25 : PyVal := .float ((1 : Rat) / 4)

def gridDirect : List InterpSc :=
  bools.flatMap fun a => bools.flatMap fun c => ["csr", "csc"].flatMap fun fa => ["csr", "csc"].flatMap fun fc =>
  [PyVal.none, theta25].flatMap fun t => ["min", "abs"].map fun nm =>
    { spA := a, spC := c, fmtA := fa, fmtC := fc, theta := t, norm := nm, modified := true }

def gridClassical : List InterpSc :=
  bools.flatMap fun a => bools.flatMap fun c => ["csr", "csc"].flatMap fun fa => ["csr", "csc"].flatMap fun fc =>
  [PyVal.none, theta25].flatMap fun t => ["min", "abs"].flatMap fun nm => [true, false].map fun m =>
    { spA := a, spC := c, fmtA := fa, fmtC := fc, theta := t, norm := nm, modified := m }

/-! #### injection / one-point interpolation -/

structure PSc where
  sparse : Bool
  fmt : String
  bs : Int
  byVal : Bool
  /-- `A.tocsr()` raises -/
  bad : Bool
deriving Repr

/-- `A` is sparse and BSR / CSR / convertible to CSR -/
def PSc.valid (sc : PSc) : Bool := sc.sparse && !(sc.fmt == "csc" && sc.bad)

def pWorld (sc : PSc) : World :=
  { heap := [("A", [("format", .str sc.fmt), ("blocksize", .tuple [.int sc.bs, .int sc.bs]), ("shape", .tuple [.int 6, .int 6])]),
             ("Acsr", [("shape", .tuple [.int 6, .int 6])])] }

def pScript (sc : PSc) : List (String × List PyVal) :=
  [("A.tocsr", [if sc.bad then mkRaise "ValueError" else o "Acsr"]),
   ("np.array", [o "arr"]), ("np.cumsum", [o "cs"]), ("np.append", [o "P_rowptr"]), ("np.arange", [o "P_colinds"]),
   ("np.ones", [o "ones"]), ("np.identity", [o "eye"]), ("np.tile", [o "tiled"]), ("csr_array", [o "P"]), ("bsr_array", [o "Pb"]),
   ("<mul>", [o "m1", o "m2"]), ("np.sum", [o "nc"]), ("np.empty", [o "P_rowptr", o "P_colinds", o "P_data"]),
   ("issparse", [.bool sc.sparse])]

def runInjection (sc : PSc) : Out := exec (interp_injection_interpolation (pWorld sc) (o "A") (o "splitting")) (pScript sc)
def runOnePoint (sc : PSc) : Out :=
  exec (interp_one_point_interpolation (pWorld sc) (o "A") (o "C") (o "splitting") (.bool sc.byVal)) (pScript sc)

/-- the format dispatch shared by both: (events, the matrix `A` refers to afterwards, n, blocksize) or the error -/
def pDispatch (sc : PSc) : List PyVal × Option (String × Int × Int) :=
  let v := [callEv "issparse" [o "A"] []]
  if !sc.sparse then (v, Option.none)
  else if sc.fmt == "bsr" then (v, some ("A", 6 / sc.bs, sc.bs))
  else if sc.fmt == "csr" then (v, some ("A", 6, 1))
  else if sc.bad then (v ++ [callEv "A.tocsr" [] []], Option.none)
  else (v ++ [callEv "A.tocsr" [] [], callEv "warn" [.str "Implicit conversion of A to csr", o "SparseEfficiencyWarning"] []],
        some ("Acsr", 6, 1))

/-- `injection_interpolation`: no native kernel at all; P is built from fresh NumPy arrays -/
def expectedInjection (sc : PSc) : Out :=
  match pDispatch sc with
  | (v, Option.none) => (.error "TypeError", v)
  | (v, some (X, n, b)) =>
    let idt : List (String × PyVal) := [("dtype", o (X ++ ".indptr.dtype"))]
    let dt : List (String × PyVal) := [("dtype", o (X ++ ".dtype"))]
    let pre := v ++ [callEv "np.array" [.list [.int 0]] idt, callEv "np.cumsum" [o "splitting"] idt,
                     callEv "np.append" [o "arr", o "cs"] [],
                     callEv "np.arange" [] ([("start", .int 0), ("stop", o "P_rowptr[-1]"), ("step", .int 1)] ++ idt)]
    if b == 1 then
      (.ok (o "P"), pre ++ [callEv "np.ones" [.tuple [o "P_rowptr[-1]"]] dt,
                            callEv "csr_array" [.tuple [o "ones", o "P_colinds", o "P_rowptr"]] [("shape", .list [.int n, o "P_rowptr[-1]"])]])
    else
      (.ok (o "Pb"), pre ++ [callEv "np.identity" [.int b] dt, callEv "np.tile" [o "eye", .tuple [o "P_rowptr[-1]", .int 1, .int 1]] [],
                             binEv "mul" (o "P_rowptr[-1]") (.int b),
                             callEv "bsr_array" [.tuple [o "tiled", o "P_colinds", o "P_rowptr"]]
                               [("blocksize", .list [.int b, .int b]), ("shape", .list [.int (n * b), o "m1"])]])

/-- `one_point_interpolation`: the kernel writes into the three FRESH arrays and reads the arrays of `A` (by value) or
of the strength matrix `C` (otherwise, and always for block matrices) -/
def expectedOnePoint (sc : PSc) : Out :=
  match pDispatch sc with
  | (v, Option.none) => (.error "TypeError", v)
  | (v, some (X, n, b)) =>
    let idt : List (String × PyVal) := [("dtype", o (X ++ ".indptr.dtype"))]
    let dt : List (String × PyVal) := [("dtype", o (X ++ ".dtype"))]
    let pre := v ++ [callEv "np.sum" [o "splitting"] [], callEv "np.empty" [.tuple [.int (n + 1)]] idt,
                     callEv "np.empty" [.tuple [.int n]] idt, callEv "np.empty" [.tuple [.int n]] dt]
    let kern (src : String) : PyVal := callEv "amg_core.one_point_interpolation"
      [o "P_rowptr", o "P_colinds", o "P_data", o (src ++ ".indptr"), o (src ++ ".indices"), o (src ++ ".data"), o "splitting"] []
    if b == 1 then
      if sc.byVal then
        (.ok (o "P"), pre ++ [kern X, callEv "csr_array" [.tuple [o "P_data", o "P_colinds", o "P_rowptr"]] [("shape", .list [.int n, o "nc"])]])
      else
        (.ok (o "P"), pre ++ [kern "C", callEv "np.ones" [.tuple [.int n]] dt,
                              callEv "csr_array" [.tuple [o "ones", o "P_colinds", o "P_rowptr"]] [("shape", .list [.int n, o "nc"])]])
    else
      (.ok (o "Pb"), pre ++ [kern "C", callEv "np.identity" [.int b] dt,
                             callEv "np.array" [.list (List.replicate n.toNat (o "eye"))] dt, binEv "mul" (.int b) (o "nc"),
                             callEv "bsr_array" [.tuple [o "arr", o "P_colinds", o "P_rowptr"]]
                               [("blocksize", .list [.int b, .int b]), ("shape", .list [.int (b * n), o "m1"])]])

def gridInjection : List PSc :=
  bools.flatMap fun sp => fmts.flatMap fun fmt => [(1 : Int), 2].flatMap fun bs => bools.map fun bad =>
    { sparse := sp, fmt := fmt, bs := bs, byVal := false, bad := bad }

def gridOnePoint : List PSc :=
  bools.flatMap fun sp => fmts.flatMap fun fmt => [(1 : Int), 2].flatMap fun bs => bools.flatMap fun bv => bools.map fun bad =>
    { sparse := sp, fmt := fmt, bs := bs, byVal := bv, bad := bad }

/-! ### the driver's view -/

/-- the runs of the grid of a generated function, in grid order -/
def gridRuns : String → Option (List Out)
  | "split_RS" => some (gridRS.map runRS)
  | "split_CLJP" => some (gridCLJP.map runCLJP)
  | "split_MIS" => some (gridMIS.map runMIS)
  | "split_PMIS" => some (gridPMIS.map runPMIS)
  | "split_PMISc" => some (gridPMISc.map runPMISc)
  | "split_CLJPc" => some (gridCLJPc.map runCLJPc)
  | "split_preprocess" => some (gridPre.map runPre)
  | "interp_direct_interpolation" => some (gridDirect.map runDirect)
  | "interp_classical_interpolation" => some (gridClassical.map runClassical)
  | "interp_injection_interpolation" => some (gridInjection.map runInjection)
  | "interp_one_point_interpolation" => some (gridOnePoint.map runOnePoint)
  | _ => Option.none

end PyamgV.ExtPy3ClassicalW
