import PyamgV.Model.C03Cyc
import PyamgV.Model.ExtC09Block
import PyamgV.Model.ExtSmoothers

/-! # C03 extension E38: the cycle model with the linear smoother families as executed kernels

`Model/C03Cyc.lean` gives the smoothers of a level as matrices `Q` (`x ← x + Q (b − A x)`).  Here a smoother is a
*recorded relaxation call*: the relaxation method, its options and the data its closure holds (the CSR / CSC / BSR
copy of the level matrix it works on, coefficients, inverse blocks, subdomains), and `applySm` runs the validated
executable model of that relaxation function (Model/KRelax.lean, Model/ExtC09Block.lean, Model/ExtSmoothers.lean:
the definitions C09 compares bit-exactly with relaxation.h / relaxation.py) on the current iterate:

* `poly`    -- `relaxation.polynomial` (what `richardson` and `chebyshev` install) with the recorded coefficients,
* `bjac`    -- `relaxation.block_jacobi` on BSR data with the inverse diagonal blocks,
* `bgs`     -- `relaxation.block_gauss_seidel`,
* `jacne`   -- `relaxation.jacobi_ne`, `gsne` -- `relaxation.gauss_seidel_ne`, `gsnr` -- `relaxation.gauss_seidel_nr` (CSC),
* `cfjac`   -- `relaxation.cf_jacobi` / `fc_jacobi`,
* `schwarz` -- `relaxation.schwarz` with the recorded subdomains and subdomain inverses,
* `gs`, `jac` -- `relaxation.gauss_seidel` / `sor` / `jacobi` (kernel models `pyGaussSeidel`, `pyJacobi`),
* `mat`     -- a smoother given by its matrix `Q` as before.

`cycF` is `C03.cycM` with the two smoother calls of a level abstracted (`cycM` is the instance `smooth A Q`), `cycX` the
instance `applySm`.  Vectors stay zero-padding lists; an array kernel of size `n` acts on the first `n` entries
(`viaArr`).  Core Lean only. -/
namespace PyamgV.C03X
open PyamgV.C03

/-! ## the generic cycle: smoothers as functions -/

/-- a non-coarsest level whose smoothers are arbitrary maps `(x, b) ↦ x'` -/
structure LvlF where
  A : Mat
  P : Mat
  R : Mat
  pre : Vec → Vec → Vec
  post : Vec → Vec → Vec

/-- `MultilevelSolver.__solve` line by line (see `C03.cycM`), the smoother calls being `L.pre x b`, `L.post x b` -/
def cycF (S : Mat) : Cyc → Nat → List LvlF → Vec → Vec → Vec
  | _, _, [], x, _ => x
  | c, cpl, L :: rest, x, b =>
    let x1 := L.pre x b
    let residual := vsub b (matVec L.A x1)
    let coarse_b := matVec L.R residual
    let coarse_x0 := zeros coarse_b.length
    let coarse_x : Vec := match rest with
      | [] => matVec S coarse_b
      | _ :: _ => match c with
        | .V => cycF S .V 1 rest coarse_x0 coarse_b
        | .W => cycF S .W 1 rest (cycF S .W 1 rest coarse_x0 coarse_b) coarse_b
        | .F => iterN (fun cx => cycF S .V 1 rest cx coarse_b) cpl (cycF S .F cpl rest coarse_x0 coarse_b)
    let x2 := vadd x1 (matVec L.P coarse_x)
    L.post x2 b

/-- the level of `C03.cycM` as a level of `cycF` -/
def ofLvl (L : Lvl) : LvlF := ⟨L.A, L.P, L.R, smooth L.A L.Qpre, smooth L.A L.Qpost⟩

/-! ## recorded smoothers -/

/-- a recorded relaxation call (real scalars) -/
inductive Sm
  | mat (Q : Mat)
  | poly (A : K.Csr Rat) (coeffs : List Rat) (iters : Nat)
  | bjac (ω : Rat) (A : K.Bsr Rat) (Dinv : Array Rat) (iters : Nat)
  | bgs (A : K.Bsr Rat) (Dinv : Array Rat) (iters : Nat) (sw : K.Sweep)
  | jacne (ω : Rat) (A : K.Csr Rat) (iters : Nat)
  | gsne (ω : Rat) (A : K.Csr Rat) (iters : Nat) (sw : K.Sweep)
  | gsnr (ω : Rat) (Acsc : K.Csr Rat) (iters : Nat) (sw : K.Sweep)
  | cfjac (cFirst : Bool) (ω : Rat) (A : K.Csr Rat) (C F : List Nat) (iters fIt cIt : Nat)
  | schwarz (A : K.Csr Rat) (Tx : Array Rat) (Tp Sj Sp : Array Nat) (iters : Nat) (sw : K.Sweep)
  | gs (ω : Rat) (A : K.Csr Rat) (iters : Nat) (sw : K.Sweep)
  | jac (ω : Rat) (A : K.Csr Rat) (iters : Nat)

/-- the first `n` entries of a zero-padded list as an array of size `n` -/
def padA (n : Nat) (v : Vec) : Array Rat := ((List.range n).map (fun i => v.getD i 0)).toArray

/-- an array kernel for vectors of size `n` acting on a zero-padding list: the first `n` entries are replaced by the
kernel's result on the first `n` entries of `x` and `b`, entries beyond `n` (absent for well-shaped data) are kept -/
def viaArr (n : Nat) (g : Array Rat → Array Rat → Array Rat) (x b : Vec) : Vec :=
  (List.range n).map (fun i => K.rd (g (padA n x) (padA n b)) i) ++ x.drop n

/-- size of the vectors the recorded call works on -/
def Sm.n : Sm → Nat
  | .mat _ => 0
  | .poly A _ _ => A.n
  | .bjac _ A _ _ => A.nb * A.bs
  | .bgs A _ _ _ => A.nb * A.bs
  | .jacne _ A _ => A.n
  | .gsne _ A _ _ => A.n
  | .gsnr _ A _ _ => A.n
  | .cfjac _ _ A _ _ _ _ _ => A.n
  | .schwarz A _ _ _ _ _ _ => A.n
  | .gs _ A _ _ => A.n
  | .jac _ A _ => A.n

/-- the recorded call on arrays, `(x, b) ↦ x'`; a call the relaxation function rejects leaves `x` (excluded by `Sm.OK`) -/
def Sm.arr : Sm → Array Rat → Array Rat → Array Rat
  | .mat _ => fun x _ => x
  | .poly A cs it => fun x b => (ExtSm.polynomial A cs it b x).getD x
  | .bjac ω A Dinv it => fun x b => (K.pyBlockJacobi ω A b Dinv it x).getD x
  | .bgs A Dinv it sw => fun x b => (K.pyBlockGaussSeidel A b Dinv it sw x).getD x
  | .jacne ω A it => fun x b => K.pyJacobiNE id ω A b it x
  | .gsne ω A it sw => fun x b => K.pyGaussSeidelNE id ω A b none it sw x
  | .gsnr ω A it sw => fun x b => K.pyGaussSeidelNR id ω A b none it sw x
  | .cfjac cf ω A C F it fIt cIt => fun x b => K.pyCFJacobi cf ω A b C F it fIt cIt x
  | .schwarz A Tx Tp Sj Sp it sw => fun x b => K.pySchwarz A b Tx Tp Sj Sp it sw x
  | .gs ω A it sw => fun x b => K.pyGaussSeidel ω A b it sw x
  | .jac ω A it => fun x b => K.pyJacobi ω A b it x

/-- `smoother(A, x, b)` of a level with matrix `A` -/
def applySm (A : Mat) : Sm → Vec → Vec → Vec
  | .mat Q => smooth A Q
  | s => viaArr s.n s.arr

/-- a non-coarsest level with recorded smoothers -/
structure LvlX where
  A : Mat
  P : Mat
  R : Mat
  pre : Sm
  post : Sm

def LvlX.toF (L : LvlX) : LvlF := ⟨L.A, L.P, L.R, applySm L.A L.pre, applySm L.A L.post⟩

/-- **the extended cycle model**: `__solve` with the recorded relaxation calls as smoothers -/
def cycX (S : Mat) (c : Cyc) (cpl : Nat) (Ls : List LvlX) (x b : Vec) : Vec :=
  cycF S c cpl (Ls.map LvlX.toF) x b

/-- one iteration of the loop of `solve` (one-level hierarchies: the coarse solver on `(A, b)`) -/
def stepX (S : Mat) (c : Cyc) (cpl : Nat) (Ls : List LvlX) (b x : Vec) : Vec :=
  match Ls with
  | [] => matVec S b
  | _ :: _ => cycX S c cpl Ls x b

def solveX (S : Mat) (c : Cyc) (cpl : Nat) (Ls : List LvlX) (stop : Vec → Bool) (maxiter : Nat) (b x0 : Vec) : Vec :=
  loopM (stepX S c cpl Ls b) stop maxiter x0

/-- `aspreconditioner(cycle).matvec` -/
def precX (S : Mat) (c : Cyc) (Ls : List LvlX) (stop : Vec → Bool) (v : Vec) : Vec :=
  solveX S c 1 Ls stop 1 v (zeros v.length)

/-! ## the recorded data are data of the level matrix (decidable, checked by the driver before a run) -/

/-- dense `n × n` form of CSR arrays (stored duplicates add up) -/
def csrDense (A : K.Csr Rat) : Mat :=
  (List.range A.n).map (fun i => (List.range A.n).map (fun q =>
    (A.jjs i).foldl (fun s jj => if K.rdN A.aj jj = q then s + K.rd A.ax jj else s) 0))

/-- dense form of CSC arrays (`A.jjs j` = stored entries of column `j`) -/
def cscDense (A : K.Csr Rat) : Mat :=
  (List.range A.n).map (fun i => (List.range A.n).map (fun j =>
    (A.jjs j).foldl (fun s ii => if K.rdN A.aj ii = i then s + K.rd A.ax ii else s) 0))

/-- dense form of square-block BSR arrays -/
def bsrDense (A : K.Bsr Rat) : Mat :=
  (List.range (A.nb * A.bs)).map (fun p => (List.range (A.nb * A.bs)).map (fun q =>
    (A.jjs (p / A.bs)).foldl (fun s jj =>
      if K.rdN A.bj jj = q / A.bs then s + K.rd A.bx (jj * (A.bs * A.bs) + (p % A.bs) * A.bs + q % A.bs) else s) 0))

/-- every stored column (row, for CSC) index is inside the matrix -/
def ColsOK (A : K.Csr Rat) : Prop := ∀ i < A.n, ∀ jj ∈ A.jjs i, K.rdN A.aj jj < A.n
instance (A : K.Csr Rat) : Decidable (ColsOK A) := by unfold ColsOK; infer_instance

def BColsOK (A : K.Bsr Rat) : Prop := ∀ i < A.nb, ∀ jj ∈ A.jjs i, K.rdN A.bj jj < A.nb
instance (A : K.Bsr Rat) : Decidable (BColsOK A) := by unfold BColsOK; infer_instance

/-- exactly one stored diagonal entry in every row, and it is not zero (`jacobi`, `gauss_seidel` divide by it) -/
def DiagOK (A : K.Csr Rat) : Prop :=
  ∀ i < A.n, ((A.jjs i).filter (fun jj => K.rdN A.aj jj = i)).length = 1 ∧
    ∀ jj ∈ A.jjs i, K.rdN A.aj jj = i → K.rd A.ax jj ≠ 0
instance (A : K.Csr Rat) : Decidable (DiagOK A) := by unfold DiagOK; infer_instance

/-- entry `(k, l)` of the sum of the stored diagonal blocks of block row `i` -/
def diagBlkL (A : K.Bsr Rat) (i k l : Nat) : Rat :=
  (A.jjs i).foldl (fun s jj => if K.rdN A.bj jj = i then s + K.rd A.bx (jj * (A.bs * A.bs) + k * A.bs + l) else s) 0

/-- `Dinv_i D_i = I` for every block row -/
def LeftInvOK (A : K.Bsr Rat) (Dinv : Array Rat) : Prop :=
  ∀ i < A.nb, ∀ k < A.bs, ∀ m < A.bs,
    (List.range A.bs).foldl (fun s l => s + K.rd Dinv (i * (A.bs * A.bs) + k * A.bs + l) * diagBlkL A i l m) 0 =
      if k = m then 1 else 0
instance (A : K.Bsr Rat) (Dinv : Array Rat) : Decidable (LeftInvOK A Dinv) := by unfold LeftInvOK; infer_instance

/-- the subdomain rows are rows of the matrix -/
def SubOK (A : K.Csr Rat) (Sj Sp : Array Nat) : Prop :=
  ∀ d < Sp.size - 1, ∀ c < K.rdN Sp (d + 1) - K.rdN Sp d, K.rdN Sj (K.rdN Sp d + c) < A.n
instance (A : K.Csr Rat) (Sj Sp : Array Nat) : Decidable (SubOK A Sj Sp) := by unfold SubOK; infer_instance

/-- **the recorded call is a call for the level matrix `A`**: the matrix copy it holds is `A`, indices are in range,
the options are ones the relaxation function accepts, inverse blocks are inverses -/
def Sm.OK (A : Mat) : Sm → Prop
  | .mat _ => True
  | .poly M cs it => A = csrDense M ∧ ColsOK M ∧ (cs ≠ [] ∨ it = 0)
  | .bjac _ M Dinv _ => A = bsrDense M ∧ BColsOK M ∧ 0 < M.bs ∧ Dinv.size = M.nb * (M.bs * M.bs) ∧ LeftInvOK M Dinv
  | .bgs M Dinv _ _ => A = bsrDense M ∧ BColsOK M ∧ 0 < M.bs ∧ Dinv.size = M.nb * (M.bs * M.bs) ∧ LeftInvOK M Dinv
  | .jacne _ M _ => A = csrDense M ∧ ColsOK M
  | .gsne _ M _ _ => A = csrDense M ∧ ColsOK M
  | .gsnr _ M _ _ => A = cscDense M ∧ ColsOK M
  | .cfjac _ _ M C F _ _ _ => A = csrDense M ∧ ColsOK M ∧ DiagOK M ∧ (∀ i ∈ C, i < M.n) ∧ (∀ i ∈ F, i < M.n)
  | .schwarz M _ _ Sj Sp _ _ => A = csrDense M ∧ ColsOK M ∧ SubOK M Sj Sp
  | .gs _ M _ _ => A = csrDense M ∧ ColsOK M ∧ DiagOK M
  | .jac _ M _ => A = csrDense M ∧ ColsOK M ∧ DiagOK M

instance (A : Mat) (s : Sm) : Decidable (s.OK A) := by
  cases s <;> unfold Sm.OK <;> infer_instance

def LvlX.OK (L : LvlX) : Prop := L.pre.OK L.A ∧ L.post.OK L.A
instance (L : LvlX) : Decidable L.OK := by unfold LvlX.OK; infer_instance

def AllOK (Ls : List LvlX) : Prop := ∀ L ∈ Ls, L.OK
instance (Ls : List LvlX) : Decidable (AllOK Ls) := by unfold AllOK; infer_instance

end PyamgV.C03X
