import PyamgV.Model.ExtPy2Rt
/-! PyamgV (extension E57, properties C03 / C08): what the translation of `MultilevelSolver.__solve`
(`harness/py2lean3_cycle.py`, output `Generated/PyLogic3_cycle.lean`) needs on top of `Model/ExtPy2Rt.lean`.
Core Lean only, executable, total.

* `getItemT` : `x[k, :]`, `x[k, j]` -- a subscript whose index is a TUPLE of integers and slices.  On an opaque
  object it is the same pure look-up as `getItem2` (heap entry, `IndexError` for closed objects, otherwise the opaque
  object `path[k,:]`); the index is written `[a,b]` with a slice written `lo:hi` (an absent bound is empty).
  `harness/extpy3_cycle.py` (`Sym3`) does the same on the Python side.
* the recursion `self.__solve(...)` is translated as a call of the generated definition itself, which is
  structurally recursive in an explicit `fuel__ : Nat` (the recursion depth that is still allowed; exhausted fuel is
  the pseudo exception `FuelExhausted`, which nothing catches).  `recFuel` is what the driver passes. -/
namespace PyamgV.ExtPy3Cyc
open PyamgV.ExtPy PyamgV.ExtPy2

/-- how one component of a tuple index is written in an object path -/
def idxPart : PyVal → Option String
  | .int i => some (toString i)
  | .tuple [.str "<slice>", lo, hi] =>
    match (match lo with | .none => some "" | .int i => some (toString i) | _ => Option.none),
          (match hi with | .none => some "" | .int i => some (toString i) | _ => Option.none) with
    | some a, some b => some (a ++ ":" ++ b)
    | _, _ => Option.none
  | _ => Option.none

/-- the key `[a,b,...]` of a tuple index -/
def tupleKey (parts : List PyVal) : Option String :=
  (parts.mapM idxPart).map (fun ps => "[" ++ String.intercalate "," ps ++ "]")

/-- `x[i, j, ...]` (the index is the tuple `key`) -/
def getItemT (w : World) (x key : PyVal) : PyM PyVal :=
  match x, key with
  | .obj p, .tuple parts =>
    match tupleKey parts with
    | some k =>
      match heapGet w p k with
      | some v => pure v
      | Option.none => if w.closed.contains p then raise "IndexError" k else pure (.obj (p ++ k))
    | Option.none => raise "Unsupported" "tuple subscript of an opaque object with a component that is not an int or a slice"
  | _, _ => raise "Unsupported" "tuple subscript of a built-in value"

/-- recursion depth the driver allows (CPython's limit is 1000; the mock hierarchies have at most 8 levels) -/
def recFuel : Nat := 64

end PyamgV.ExtPy3Cyc
