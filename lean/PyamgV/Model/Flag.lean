/-! PyamgV: model of the `symmetric_smoothing` derivation in `change_smoothers`
(smoothing.py:181-369). Import-free. A smoother spec is (name, iterations?, sweep?, f_iters?, c_iters?). -/
namespace PyamgV.Flag

structure Cfg where
  name : Option String           -- None smoother = none
  iterations : Option Nat := none
  sweep : Option String := none
  fit : Option Nat := none
  cit : Option Nat := none
deriving Repr, DecidableEq

def symmetricRelaxation : List (Option String) :=
  [some "jacobi", some "richardson", some "block_jacobi", some "jacobi_ne", some "chebyshev", none]
def krylovRelaxation : List (Option String) := [some "cg", some "cgne", some "cgnr", some "gmres"]
def defaultSweep := "forward"
def defaultNiter := 1

/-- the per-level test; `true` = "this level keeps the flag" -/
def levelOk (a b : Cfg) : Bool :=
  let it1 := a.iterations.getD defaultNiter
  let it2 := b.iterations.getD defaultNiter
  if it1 ≠ it2 then false
  else if (a.name, b.name) ∈ [(some "cf_jacobi", some "fc_jacobi"), (some "fc_jacobi", some "cf_jacobi"),
      (some "cf_block_jacobi", some "fc_block_jacobi"), (some "fc_block_jacobi", some "cf_block_jacobi")] then
    (a.fit.getD defaultNiter == b.fit.getD defaultNiter) && (a.cit.getD defaultNiter == b.cit.getD defaultNiter)
  else if a.name ≠ b.name then false
  else if a.name ∈ krylovRelaxation ∨ b.name ∈ krylovRelaxation then false
  else if a.name ∉ symmetricRelaxation then
    match a.name with
    | some nm =>
      if nm.startsWith "cf_" ∨ nm.startsWith "fc_" then false
      else
        let s1 := a.sweep.getD defaultSweep
        let s2 := b.sweep.getD defaultSweep
        (s1, s2) ∈ [("forward", "backward"), ("backward", "forward"), ("symmetric", "symmetric")]
    | none => true
  else true

/-- `change_smoothers`: lists `pre`, `post` (non-empty), `nl = len(ml.levels) - 1` smoothing levels.
Level i uses pre[min(i, len-1)] … but the flag is only examined for i < max(len pre, len post)
(clipped to nl): the final "fill in remaining levels" loop does not re-test. -/
def flag (pre post : List Cfg) (nl : Nat) : Bool :=
  let minLen := min (min pre.length post.length) nl
  let midLen := if pre.length = post.length then minLen else min (max pre.length post.length) nl
  (List.range midLen).all (fun i =>
    let a := pre.getD (min i (pre.length - 1)) ⟨none, none, none, none, none⟩
    let b := post.getD (min i (post.length - 1)) ⟨none, none, none, none, none⟩
    levelOk a b)

#eval flag [⟨some "gauss_seidel", none, some "forward", none, none⟩] [⟨some "gauss_seidel", none, some "backward", none, none⟩] 3
#eval flag [⟨some "gauss_seidel", none, none, none, none⟩] [⟨some "gauss_seidel", none, none, none, none⟩] 3

end PyamgV.Flag
