import PyamgV.Model.Stencil
/-! PyamgV (C20): executable models of the gallery front ends. Import-free apart from `Model/Stencil`.

* `stencilDense`  : `stencil_grid` as called (dense odd-shaped stencil array + grid, argument checks,
                    offsets `index - shape//2` of the nonzero entries), on top of `Stencil.stencilGrid`;
* `poisson`       : `laplacian.poisson` (`FD` / `FE` stencils in any dimension);
* `diffusion2d`, `diffusion3dFD` : `diffusion.diffusion_stencil_2d/_3d` with the pair (cos, sin) as input;
* `q12d`          : `elasticity.q12d` (= `linear_elasticity`): Lame parameters, `q12d_local`, node numbering,
                    element connectivity offsets, rigid-body modes, Dirichlet elimination.
Matrices are lists of `(row, col, value)` triples (duplicates add), exactly like COO input. -/
namespace PyamgV.C20
open PyamgV.Stencil

abbrev Triple := Nat × Nat × Rat

/-! ## stencil_grid as called (stencil.py:66-88) -/

/-- offset vector of the dense stencil entry with row-major flat index `k`: `index - shape // 2` -/
def offsetOf (shape : List Nat) (k : Nat) : List Int :=
  List.zipWith (fun (c s : Nat) => (c : Int) - ((s / 2 : Nat) : Int)) (coords shape k) shape

/-- the nonzero entries of the dense stencil, as (offset, value) -/
def sparse (shape : List Nat) (vals : List Rat) : List (List Int × Rat) :=
  (List.range (shape.foldl (· * ·) 1)).filterMap fun k =>
    let v := vals.getD k 0
    if v = 0 then none else some (offsetOf shape k, v)

/-- `stencil_grid(S, grid)`: the three `ValueError`s in the order of the code, then the matrix -/
def stencilDense (shape : List Nat) (vals : List Rat) (grid : List Nat) : Except String (List Triple) :=
  if ¬ shape.all (fun s => s % 2 = 1) then .error "odd"
  else if grid.length ≠ shape.length then .error "dim"
  else if grid.isEmpty ∨ grid.any (fun g => g < 1) then .error "grid"
  else .ok (stencilGrid grid (sparse shape vals))

/-! ## poisson (laplacian.py:10-85) -/

/-- all offsets in `{-1,0,1}^N`, row-major -/
def cube : Nat → List (List Int)
  | 0 => [[]]
  | n + 1 => [-1, 0, 1].flatMap fun o => (cube n).map (o :: ·)

def unitVec (N i : Nat) (s : Int) : List Int := (List.range N).map fun k => if k = i then s else 0

/-- `type='FD'`: `-1` at the `2N` axis neighbours, `2N` at the centre -/
def poissonFD (N : Nat) : List (List Int × Rat) :=
  (List.replicate N (0 : Int), ((2 * N : Nat) : Rat)) ::
    (List.range N).flatMap fun i => [(unitVec N i (-1), (-1 : Rat)), (unitVec N i 1, (-1 : Rat))]

/-- `type='FE'`: `-1` everywhere in the `3^N` box, `3^N - 1` at the centre -/
def poissonFE (N : Nat) : List (List Int × Rat) :=
  (cube N).map fun o => (o, if o.all (fun x => x = 0) then ((3 ^ N - 1 : Nat) : Rat) else (-1 : Rat))

def poissonStencil (fe : Bool) (N : Nat) : List (List Int × Rat) := if fe then poissonFE N else poissonFD N

def poisson (grid : List Nat) (fe : Bool) : Option (List Triple) :=
  if grid.length < 1 ∨ grid.any (fun g => g < 1) then none
  else some (stencilGrid grid (poissonStencil fe grid.length))

/-! ## diffusion stencils (diffusion.py:15-168, 280-444); `C`, `S` = cos, sin of the angle -/

/-- 3x3 stencil, row-major -/
def diffusion2d (fe : Bool) (eps C S : Rat) : List Rat :=
  let CS := C * S
  let CC := C * C
  let SS := S * S
  if fe then
    let a := (-1 * eps - 1) * CC + (-1 * eps - 1) * SS + (3 * eps - 3) * CS
    let b := (2 * eps - 4) * CC + (-4 * eps + 2) * SS
    let c := (-1 * eps - 1) * CC + (-1 * eps - 1) * SS + (-3 * eps + 3) * CS
    let d := (-4 * eps + 2) * CC + (2 * eps - 4) * SS
    let e := (8 * eps + 8) * CC + (8 * eps + 8) * SS
    [a / 6, b / 6, c / 6, d / 6, e / 6, d / 6, c / 6, b / 6, a / 6]
  else
    let a := (1 / 2) * (eps - 1) * CS
    let b := -(eps * SS + CC)
    let c := -a
    let d := -(eps * CC + SS)
    let e := 2 * (eps + 1)
    [a, b, c, d, e, d, c, b, a]

/-- the rotated diffusion tensor `D = Q diag(1, epsy, epsz) Q^T` as written in the code (row-major 9 entries) -/
def tensor3d (epsy epsz cphi sphi cth sth cpsi spsi : Rat) : List Rat :=
  let sq (x : Rat) := x * x
  let d00 := epsy * sq (cphi * cth * spsi + cpsi * sphi) + epsz * sq spsi * sq sth + sq (cphi * cpsi - cth * sphi * spsi)
  let d01 := cpsi * epsz * spsi * sq sth + epsy * (cphi * cpsi * cth - sphi * spsi) * (cphi * cth * spsi + cpsi * sphi)
             + (cphi * cpsi - cth * sphi * spsi) * (-cphi * spsi - cpsi * cth * sphi)
  let d02 := -cphi * epsy * sth * (cphi * cth * spsi + cpsi * sphi) + cth * epsz * spsi * sth
             + sphi * sth * (cphi * cpsi - cth * sphi * spsi)
  let d11 := sq cpsi * epsz * sq sth + epsy * sq (cphi * cpsi * cth - sphi * spsi) + sq (-cphi * spsi - cpsi * cth * sphi)
  let d12 := -cphi * epsy * sth * (cphi * cpsi * cth - sphi * spsi) + cpsi * cth * epsz * sth
             + sphi * sth * (-cphi * spsi - cpsi * cth * sphi)
  let d22 := sq cphi * epsy * sq sth + sq cth * epsz + sq sphi * sq sth
  [d00, d01, d02, d01, d11, d12, d02, d12, d22]

/-- accumulate `(i, j, k, value)` contributions into the 27 entries (index `9 i + 3 j + k`) -/
def accum27 (cs : List (Nat × Nat × Nat × Rat)) : List Rat :=
  (List.range 27).map fun idx => ((cs.filter fun c => 9 * c.1 + 3 * c.2.1 + c.2.2.1 = idx).map fun c => c.2.2.2).sum

/-- `type='FD'` 3x3x3 stencil from the tensor entries -/
def diffusion3dOfTensor (D : List Rat) : List Rat :=
  let d (i j : Nat) := D.getD (3 * i + j) 0
  let q : Rat := 1 / 4
  accum27 [
    (0, 1, 1, -1 * d 0 0), (1, 1, 1, 2 * d 0 0), (2, 1, 1, -1 * d 0 0),
    (1, 0, 1, -1 * d 1 1), (1, 1, 1, 2 * d 1 1), (1, 2, 1, -1 * d 1 1),
    (1, 1, 0, -1 * d 2 2), (1, 1, 1, 2 * d 2 2), (1, 1, 2, -1 * d 2 2),
    (0, 0, 1, q * 1 * (d 1 0 + d 0 1)), (0, 2, 1, q * -1 * (d 1 0 + d 0 1)),
    (2, 0, 1, q * -1 * (d 1 0 + d 0 1)), (2, 2, 1, q * 1 * (d 1 0 + d 0 1)),
    (0, 1, 0, q * 1 * (d 2 0 + d 0 2)), (0, 1, 2, q * -1 * (d 2 0 + d 0 2)),
    (2, 1, 0, q * -1 * (d 2 0 + d 0 2)), (2, 1, 2, q * 1 * (d 2 0 + d 0 2)),
    (1, 0, 0, q * 1 * (d 2 1 + d 1 2)), (1, 0, 2, q * -1 * (d 2 1 + d 1 2)),
    (1, 2, 0, q * -1 * (d 2 1 + d 1 2)), (1, 2, 2, q * 1 * (d 2 1 + d 1 2))]

def diffusion3dFD (epsy epsz cphi sphi cth sth cpsi spsi : Rat) : List Rat :=
  diffusion3dOfTensor (tensor3d epsy epsz cphi sphi cth sth cpsi spsi)

/-! ## q12d / linear_elasticity (elasticity.py:59-200) -/

def tab (t : List (List Rat)) (a b : Nat) : Rat := (t.getD a []).getD b 0
def r11 (a b : Nat) : Rat := tab [[2, -2, -1, 1], [-2, 2, 1, -1], [-1, 1, 2, -2], [1, -1, -2, 2]] a b / 6
def r12 (a b : Nat) : Rat := tab [[1, 1, -1, -1], [-1, -1, 1, 1], [-1, -1, 1, 1], [1, 1, -1, -1]] a b / 4
def r22 (a b : Nat) : Rat := tab [[2, 1, -1, -2], [1, 2, -2, -1], [-1, -2, 2, 1], [-2, -1, 1, 2]] a b / 6

/-- 2x2 matrix `[[a, b], [c, d]]` -/
structure M2 where
  a : Rat
  b : Rat
  c : Rat
  d : Rat

def M2.mul (x y : M2) : M2 :=
  ⟨x.a * y.a + x.b * y.c, x.a * y.b + x.b * y.d, x.c * y.a + x.d * y.c, x.c * y.b + x.d * y.d⟩
def M2.tr (x : M2) : M2 := ⟨x.a, x.c, x.b, x.d⟩
def M2.det (x : M2) : Rat := x.a * x.d - x.b * x.c
def M2.inv (x : M2) : M2 := ⟨x.d / x.det, -x.b / x.det, -x.c / x.det, x.a / x.det⟩

/-- `E[0,0]*R_11 + E[0,1]*R_12 + E[1,0]*R_12.T + E[1,1]*R_22`, entry `(a, b)` -/
def blockE (E : M2) (a b : Nat) : Rat := E.a * r11 a b + E.b * r12 a b + E.c * r12 b a + E.d * r22 a b

/-- `q12d_local`: entry `(i, j)` of the 8x8 element matrix; `F = inv([v1 - v0; v3 - v0])` -/
def kloc (F : M2) (lame mu : Rat) (i j : Nat) : Rat :=
  let M := lame + 2 * mu
  let E1 := F.tr.mul (M2.mul ⟨M, 0, 0, mu⟩ F)
  let E2 := F.tr.mul (M2.mul ⟨mu, 0, 0, M⟩ F)
  let E3 := F.tr.mul (M2.mul ⟨0, mu, lame, 0⟩ F)
  let v := match i % 2, j % 2 with
    | 0, 0 => blockE E1 (i / 2) (j / 2)
    | 1, 1 => blockE E2 (i / 2) (j / 2)
    | 1, 0 => blockE E3 (i / 2) (j / 2)
    | _, _ => blockE E3 (j / 2) (i / 2)
  v / F.det

/-- local dof offsets of LL, LR, UR, UL relative to `2 * LL` (`X` = elements per row) -/
def offs (X : Nat) : List Nat := [0, 1, 2, 3, 2 * X + 4, 2 * X + 5, 2 * X + 2, 2 * X + 3]
def off (X a : Nat) : Nat := (offs X).getD a 0

/-- `Id = base + off[b]`, `J = base + off[a]`, `V = K[a, b]` -/
def elemTriples (X : Nat) (K : Nat → Nat → Rat) (base : Nat) : List Triple :=
  (List.range 8).flatMap fun a => (List.range 8).map fun b => (base + off X b, base + off X a, K a b)

/-- `2 * nodes[:-1, :-1]` raveled; `nodes = arange((X+1)(Y+1)).reshape(Y+1, X+1)` -/
def elems (X Y : Nat) : List Nat :=
  (List.range Y).flatMap fun j => (List.range X).map fun i => 2 * (j * (X + 1) + i)

def assemble (X Y : Nat) (K : Nat → Nat → Rat) : List Triple := (elems X Y).flatMap (elemTriples X K)

/-- node coordinates: node `k` sits in column `k % (X+1)`, row `k / (X+1)`; centred, scaled -/
def ptx (X : Nat) (DX : Rat) (k : Nat) : Rat := (((k % (X + 1) : Nat) : Rat) - (X : Rat) / 2) * DX
def pty (X Y : Nat) (DY : Rat) (k : Nat) : Rat := (((k / (X + 1) : Nat) : Rat) - (Y : Rat) / 2) * DY

/-- rigid-body mode `m` (0: x-translation, 1: y-translation, 2: rotation `(-y, x)`) at dof `t` -/
def pick3 (m : Nat) (a b c : Rat) : Rat := match m with | 0 => a | 1 => b | _ => c
def mode (X Y : Nat) (DX DY : Rat) (m t : Nat) : Rat :=
  if t % 2 = 0 then pick3 m 1 0 (-pty X Y DY (t / 2)) else pick3 m 0 1 (ptx X DX (t / 2))

/-- the Dirichlet mask `mask[1:-1, 1:-1]` on the `(Y+1) x (X+1)` node array -/
def interior (X Y k : Nat) : Bool :=
  decide (1 ≤ k % (X + 1)) && decide (k % (X + 1) + 1 ≤ X) && decide (1 ≤ k / (X + 1)) && decide (k / (X + 1) + 1 ≤ Y)

/-- `indptr[k] = cumsum(mask)[k-1]`: the new number of an interior node -/
def ren (X Y k : Nat) : Nat := ((List.range k).filter (interior X Y)).length

def renDof (X Y t : Nat) : Nat := 2 * ren X Y (t / 2) + t % 2

/-- `P.T @ A @ P`: keep the triples whose row and column nodes are interior, renumbered -/
def restrict (X Y : Nat) (A : List Triple) : List Triple :=
  (A.filter fun t => interior X Y (t.1 / 2) && interior X Y (t.2.1 / 2)).map fun t =>
    (renDof X Y t.1, renDof X Y t.2.1, t.2.2)

structure Q12 where
  ndof : Nat
  A : List Triple
  B : List (List Rat)      -- rows of the candidate array (3 columns)

/-- rows `2k`, `2k+1` of the candidate array for the listed nodes -/
def modeRows (X Y : Nat) (DX DY : Rat) (nodes : List Nat) : List (List Rat) :=
  nodes.flatMap fun k => [[mode X Y DX DY 0 (2 * k), mode X Y DX DY 1 (2 * k), mode X Y DX DY 2 (2 * k)],
    [mode X Y DX DY 0 (2 * k + 1), mode X Y DX DY 1 (2 * k + 1), mode X Y DX DY 2 (2 * k + 1)]]

/-- the body of `q12d` after the argument handling: `X x Y` elements, spacing, Lame parameters -/
def q12dCore (X Y : Nat) (DX DY lame mu : Rat) (dirichlet : Bool) : Q12 :=
  let A := assemble X Y (kloc (M2.inv ⟨DX, 0, 0, DY⟩) lame mu)
  let nn := (X + 1) * (Y + 1)
  if dirichlet then
    let keepN := (List.range nn).filter (interior X Y)
    ⟨2 * keepN.length, restrict X Y A, modeRows X Y DX DY keepN⟩
  else
    ⟨2 * nn, A, modeRows X Y DX DY (List.range nn)⟩

def q12d (X0 Y0 : Nat) (spacing : Option (Rat × Rat)) (E nu : Rat) (dirichlet : Bool) : Option Q12 :=
  if X0 < 1 ∨ Y0 < 1 then none else
  let X := if dirichlet then X0 + 1 else X0
  let Y := if dirichlet then Y0 + 1 else Y0
  let DX := (spacing.getD (1, 1)).1
  let DY := (spacing.getD (1, 1)).2
  if (1 + nu) * (1 - 2 * nu) = 0 ∨ 2 + 2 * nu = 0 then none else
  let lame := E * nu / ((1 + nu) * (1 - 2 * nu))
  let mu := E / (2 + 2 * nu)
  if DX * DY - 0 * 0 = 0 then none else     -- `sla.inv` of the singular edge matrix raises
  some (q12dCore X Y DX DY lame mu dirichlet)

end PyamgV.C20
