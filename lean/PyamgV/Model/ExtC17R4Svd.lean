import PyamgV.Model.ExtC17R4Fit
import PyamgV.Model.ExtC17CkBlock

/-! PyamgV (C17, extension E32, round 4): checked-execution (`Ck`) models of the dense helpers `dot_prod`, `norm`,
`transpose`, `svd_jacobi`, `svd_solve` and of the kernel `pinv_array` (linalg.h), written loop by loop after the C++.

* a C pointer into an array is a pair (array, offset); the work arrays `new T[nsq]` of `pinv_array` are part of the state;
* `while( (count > 0) && (sweep <= sweepmax) )` runs on fuel `sweepmax + 1` inside `orFault`: `ok = true` includes its
  termination;
* `transpose`: the hand-unrolled cases `m = n = 4 .. 10` are one loop `Bx[i + t] = Ax[j + t*m]`, `t < m`;
* `gemm` is the existing model `C17.gemmFF` (mode `'F','F','F'`, overwrite).

Scalars are abstract (`SvOps`; the real type `F` is embedded in `T`).  Core Lean only. -/
namespace PyamgV.C17R4
open PyamgV.Ck PyamgV.C17

structure SvOps (α : Type) where
  add : α → α → α
  sub : α → α → α
  mul : α → α → α
  div : α → α → α
  neg : α → α
  conj : α → α
  /-- `real(.)` -/
  re : α → α
  /-- `mynorm` -/
  nrm : α → α
  sqrt : α → α
  /-- `fabs` -/
  abs : α → α
  /-- `signof` -/
  sgn : α → α
  zero : α
  one : α
  two : α
  fifty : α
  /-- `std::numeric_limits<F>::epsilon()` -/
  eps : α
  /-- `(F) int` -/
  ofInt : Int → α
  lt : α → α → Bool
  le : α → α → Bool
  eq : α → α → Bool

variable {α : Type} [Inhabited α]

/-- the operations `gemm` uses -/
def SvOps.toK (o : SvOps α) : KOps α :=
  ⟨o.mul, o.add, o.sub, o.div, o.zero, o.one, fun a => o.eq a o.zero, o.nrm, fun a _ => a, o.zero, o.conj⟩

/-- `dot_prod(&x[xo], &y[yo], n)` -/
def dotProd (o : SvOps α) (x : Array α) (xo : Int) (y : Array α) (yo : Int) (n : Int) : Ck α :=
  forRange 0 n o.zero (fun i (sum : α) => do
    let xi ← rd x (xo + i)
    let yi ← rd y (yo + i)
    pure (o.add sum (o.mul (o.conj xi) yi)))

/-- `norm(&x[xo], n, normx)`: `sqrt(real(dot_prod(x,x,n)))` -/
def normAt (o : SvOps α) (x : Array α) (xo n : Int) : Ck α := do
  let d ← dotProd o x xo x xo n
  pure (o.sqrt (o.re d))

/-- `transpose(&Ax[ao], &Bx[bo], m, n)` -/
def transposeM (ax : Array α) (ao : Int) (bx : Array α) (bo : Int) (m n : Int) : Ck (Array α) :=
  let cp (bx : Array α) (bi ai : Int) : Ck (Array α) := do
    let a ← rd ax (ao + ai)
    wr bx (bo + bi) a
  if m = 1 ∧ n = 1 then cp bx 0 0
  else if m = 2 ∧ n = 2 then do
    let bx ← cp bx 0 0
    let bx ← cp bx 1 2
    let bx ← cp bx 2 1
    cp bx 3 3
  else if m = 3 ∧ n = 3 then do
    let bx ← cp bx 0 0
    let bx ← cp bx 1 3
    let bx ← cp bx 2 6
    let bx ← cp bx 3 1
    let bx ← cp bx 4 4
    let bx ← cp bx 5 7
    let bx ← cp bx 6 2
    let bx ← cp bx 7 5
    cp bx 8 8
  else if m = n ∧ m < 11 then do
    -- `I j = 0; for(I i = 0; i < m*m; i+=m){ if(m == 4){ Bx[i] = Ax[j]; Bx[i+1] = Ax[j+4]; .. } .. j++; }`
    let r ← forStep 0 (m * m) m (bx, (0 : Int)) (fun i (st : Array α × Int) =>
      if 4 ≤ m then do
        let bx ← forRange 0 m st.1 (fun t (bx : Array α) => cp bx (i + t) (st.2 + t * m))
        pure (bx, st.2 + 1)
      else pure (st.1, st.2 + 1))
    pure r.1
  else do
    let r ← forRange 0 n (bx, (0 : Int)) (fun i (st : Array α × Int) => do
      -- state of the inner loop: `(Bx, Bcounter, Acounter)`, `Acounter = i`
      let r ← forRange 0 m (st.1, st.2, i) (fun _ (s : Array α × Int × Int) => do
        let bx ← cp s.1 s.2.1 s.2.2
        pure (bx, s.2.1 + 1, s.2.2 + n))
      pure (r.1, r.2.1))
    pure r.1

/-- the arrays `U`, `V`, `S` of `svd_jacobi` -/
structure SV (α : Type) where
  U : Array α
  V : Array α
  S : Array α

instance : Inhabited (SV α) := ⟨⟨#[], #[], #[]⟩⟩

/-- `for(i = 0; i < nsq; i++) V[i] = 0.0; for(i = 0; i < nsq; i += (n+1)) V[i] = 1.0;` -/
def setIdentity (o : SvOps α) (n : Int) (V : Array α) : Ck (Array α) := do
  let V ← forRange 0 (n * n) V (fun i (V : Array α) => wr V i o.zero)
  forStep 0 (n * n) (n + 1) V (fun i (V : Array α) => wr V i o.one)

/-- the two column updates of a rotation step: `X[joffset] = f Xij Xik; X[koffset] = g Xij Xik;` over `len` entries -/
def rotCols (f g : α → α → α) (X : Array α) (jo ko len : Int) : Ck (Array α) := do
  let r ← forRange jo (jo + len) (X, ko) (fun joffset (st : Array α × Int) => do
    let xij ← rd st.1 joffset
    let xik ← rd st.1 st.2
    let X ← wr st.1 joffset (f xij xik)
    let X ← wr X st.2 (g xij xik)
    pure (X, st.2 + 1))
  pure r.1

/-- the body of the `k` loop; state `(arrays, count)` -/
def svdPair (o : SvOps α) (m n : Int) (tolerance : α) (j k jm jn km kn : Int) (st : SV α × Int) : Ck (SV α × Int) := do
  let a ← normAt o st.1.U jm m
  let b ← normAt o st.1.U km m
  let d ← dotProd o st.1.U jm st.1.U km m
  let normd := o.nrm d
  let aerr ← rd st.1.S j
  let berr ← rd st.1.S k
  let sorted := o.le b a
  let orthog := o.le normd (o.mul (o.mul tolerance a) b)
  let noisya := o.lt a aerr
  let noisyb := o.lt b berr
  if sorted && (orthog || noisya || noisyb) then pure (st.1, st.2 - 1)
  else if !sorted || (o.eq normd o.zero && o.eq a b) then do
    let S ← wr st.1.S j berr
    let S ← wr S k aerr
    let U ← rotCols (fun _ uik => o.neg uik) (fun uij _ => uij) st.1.U jm km m
    let V ← rotCols (fun _ vik => o.neg vik) (fun vij _ => vij) st.1.V jn kn n
    pure (⟨U, V, S⟩, st.2)
  else do
    let tau := o.div (o.sub (o.mul b b) (o.mul a a)) (o.mul o.two normd)
    let t := o.div (o.sgn tau) (o.add (o.abs tau) (o.sqrt (o.add o.one (o.mul tau tau))))
    let cos := o.div o.one (o.sqrt (o.add o.one (o.mul t t)))
    let sin := o.mul d (o.div (o.mul t cos) normd)
    let ncs := o.neg (o.conj sin)
    let nsin := o.nrm sin
    let S ← wr st.1.S j (o.add (o.mul (o.abs cos) aerr) (o.mul nsin berr))
    let S ← wr S k (o.add (o.mul nsin aerr) (o.mul (o.abs cos) berr))
    let f := fun xij xik => o.add (o.mul xij cos) (o.mul ncs xik)
    let g := fun xij xik => o.add (o.mul sin xij) (o.mul xik cos)
    let U ← rotCols f g st.1.U jm km m
    let V ← rotCols f g st.1.V jn kn n
    pure (⟨U, V, S⟩, st.2)

/-- one sweep: `count = n*(n-1)/2;` and the double loop over the column pairs; returns `(arrays, count)` -/
def svdSweep (o : SvOps α) (m n : Int) (tolerance : α) (sv : SV α) : Ck (SV α × Int) := do
  -- state of the `j` loop: `(arrays, count, jm, jn)`
  let r ← forRange 0 (n - 1) ((sv, n * (n - 1) / 2), (0 : Int), (0 : Int)) (fun j (st : (SV α × Int) × Int × Int) => do
    -- state of the `k` loop: `(arrays, count, km, kn)`
    let r ← forRange (j + 1) n (st.1, (j + 1) * m, (j + 1) * n) (fun k (s : (SV α × Int) × Int × Int) => do
      let p ← svdPair o m n tolerance j k st.2.1 st.2.2 s.2.1 s.2.2 s.1
      pure (p, s.2.1 + m, s.2.2 + n))
    pure (r.1, st.2.1 + m, st.2.2 + n))
  pure r.1

/-- state of the `while` loop: arrays, `count`, `sweep` -/
abbrev SW (α : Type) := SV α × Int × Int

/-- `while( (count > 0) && (sweep <= sweepmax) )` with fuel -/
def svdWhile (o : SvOps α) (m n : Int) (tolerance : α) (sweepmax : Int) : Nat → Ck (SW α) → Option (Ck (SW α))
  | 0, st => if st.val.2.1 > 0 ∧ st.val.2.2 ≤ sweepmax then none else some st
  | f+1, st =>
    if st.val.2.1 > 0 ∧ st.val.2.2 ≤ sweepmax then
      svdWhile o m n tolerance sweepmax f (st >>= fun s => do
        let r ← svdSweep o m n tolerance s.1
        pure (r.1, r.2, s.2.2 + 1))
    else some st

/-- the final loop: singular values and normalisation of the columns of `U`; state `(U, S, sigma_tol, iszero)` -/
def svdFinish (o : SvOps α) (m n : Int) (U S : Array α) : Ck (Array α × Array α × α × Int) :=
  forRange 0 n (U, S, o.zero, n) (fun j (st : Array α × Array α × α × Int) => do
    let uoff := j * m
    let cn ← normAt o st.1 uoff m
    let stol := if j = 0 then o.mul (o.mul (o.div o.fifty (o.sqrt (o.sqrt o.eps))) cn) o.eps else st.2.2.1
    if o.le cn stol then do
      let S ← wr st.2.1 j o.zero
      let U ← forRange uoff (uoff + m) st.1 (fun i (U : Array α) => wr U i o.zero)
      pure (U, S, stol, st.2.2.2 - 1)
    else do
      let S ← wr st.2.1 j cn
      let U ← forRange uoff (uoff + m) st.1 (fun i (U : Array α) => do
        let u ← rd U i
        wr U i (o.div u cn))
      pure (U, S, stol, st.2.2.2))

/-- `svd_jacobi(&Ax[ao], U, V, S, m, n)`; returns the arrays and the return code -/
def svdJacobi (o : SvOps α) (ax : Array α) (ao : Int) (sv : SV α) (m n : Int) : Ck (SV α × Int) :=
  if m < n then pure (sv, -1)
  else if n = 1 ∧ m = 1 then do
    let a0 ← rd ax ao
    let normA := o.nrm a0
    let V ← wr sv.V 0 o.one
    let S ← wr sv.S 0 normA
    let U ← (if o.eq normA o.zero then wr sv.U 0 o.one else wr sv.U 0 (o.div a0 normA))
    pure (⟨U, V, S⟩, 0)
  else do
    let sweepmax : Int := if 15 * n < 30 then 30 else 15 * n
    let tolerance := o.mul (o.sqrt (o.ofInt m)) o.eps
    let V ← setIdentity o n sv.V
    -- `std::copy(&(A[0]), &(A[m*n]), &(U[0]))`
    let U ← forRange 0 (m * n) sv.U (fun t (U : Array α) => do
      let a ← rd ax (ao + t)
      wr U t a)
    let S ← forRange 0 n sv.S (fun j (S : Array α) => do
      let nx ← normAt o U (j * m) m
      wr S j (o.mul o.eps nx))
    let w ← orFault (svdWhile o m n tolerance sweepmax (sweepmax + 1).toNat (pure (⟨U, V, S⟩, 1, 0)))
    let f ← svdFinish o m n w.1.U w.1.S
    if f.2.2.2 = 0 then do
      let V ← setIdentity o n w.1.V
      let U ← forStep 0 (n * m) (m + 1) f.1 (fun i (U : Array α) => wr U i o.one)
      pure (⟨U, V, f.2.1⟩, 0)
    else if w.2.1 > 0 then pure (⟨f.1, w.1.V, f.2.1⟩, 1)
    else pure (⟨f.1, w.1.V, f.2.1⟩, 0)

/-- the work arrays of `pinv_array`: `Tran`, `U`, `V`, `SinvUh`, `S` -/
structure PV (α : Type) where
  aa : Array α
  tran : Array α
  sv : SV α
  sinv : Array α

/-- `pinv_array(AA, m, n, TransA)`; returns `AA` -/
def pinvArray (o : SvOps α) (z : α) (aa : Array α) (m n : Int) (transA : Bool) : Ck (Array α) := do
  let nsq := (n * n).toNat
  let r ← forRange 0 m ((⟨aa, Array.replicate nsq z, ⟨Array.replicate nsq z, Array.replicate nsq z, Array.replicate n.toNat z⟩,
      Array.replicate nsq z⟩ : PV α), (0 : Int)) (fun _ (st : PV α × Int) => do
    let ac := st.2
    let p ← (if transA then do
        let tran ← transposeM st.1.aa ac st.1.tran 0 n n
        let r ← svdJacobi o tran 0 st.1.sv n n
        pure (tran, r.1)
      else do
        let r ← svdJacobi o st.1.aa ac st.1.sv n n
        pure (st.1.tran, r.1))
    let S ← forRange 0 n p.2.S (fun j (S : Array α) => do
      let sj ← rd S j
      if o.eq sj o.zero then pure S else wr S j (o.div o.one sj))
    -- `SinvUh[counter] = conjugate(U[Uoffset])*S[k]`
    let r ← forRange 0 n (st.1.sinv, (0 : Int)) (fun j (s : Array α × Int) => do
      let r ← forRange 0 n (s.1, s.2, j) (fun k (s2 : Array α × Int × Int) => do
        let u ← rd p.2.U s2.2.2
        let sk ← rd S k
        let sinv ← wr s2.1 s2.2.1 (o.mul (o.conj u) sk)
        pure (sinv, s2.2.1 + 1, s2.2.2 + n))
      pure (r.1, r.2.1))
    let tran ← transposeM p.2.V 0 p.1 0 n n
    let aa ← gemmFF o.toK tran 0 n.toNat n.toNat r.1 0 n.toNat n.toNat st.1.aa ac n.toNat n.toNat
    pure (⟨aa, tran, ⟨p.2.U, p.2.V, S⟩, r.1⟩, ac + n * n))
  pure r.1.aa

end PyamgV.C17R4
