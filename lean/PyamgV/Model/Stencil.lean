/-! PyamgV: executable model of `pyamg.gallery.stencil_grid` (stencil.py:66-135). Import-free.
Stencil = list of (offset vector, value) for its nonzero entries (offset = index − shape//2);
grid = list of extents. Output = list of (row, col, value) triples (duplicates add). -/
namespace PyamgV.Stencil

/-- row-major coordinates of a linear index -/
def coords (grid : List Nat) (idx : Nat) : List Nat :=
  (grid.foldr (fun g (acc : List Nat × Nat) => ((acc.2 % g) :: acc.1, acc.2 / g)) ([], idx)).1

/-- strides = cumprod([1] ++ reversed(grid))[:-1], listed in grid order -/
def strides (grid : List Nat) : List Nat :=
  (grid.foldr (fun g (acc : List Nat × Nat) => (acc.2 :: acc.1, acc.2 * g)) ([], 1)).1

def dot (a : List Nat) (b : List Int) : Int := (List.zipWith (fun (s : Nat) (o : Int) => (s : Int) * o) a b).foldl (· + ·) 0

/-- boundary zeroing: the DIA data array is indexed by COLUMN; entry survives iff for every
dimension `n` with offset `i`: (i > 0 → c_n ≥ i) ∧ (i < 0 → c_n < g_n + i) -/
def keep (grid : List Nat) (off : List Int) (c : List Nat) : Bool :=
  (List.zip grid (List.zip off c)).all (fun (g, i, cn) =>
    (if i > 0 then decide ((cn : Int) ≥ i) else true) && (if i < 0 then decide ((cn : Int) < (g : Int) + i) else true))

def stencilGrid (grid : List Nat) (sten : List (List Int × Rat)) : List (Nat × Nat × Rat) :=
  let nv := grid.foldl (· * ·) 1
  let st := strides grid
  sten.foldl (fun acc (off, v) =>
    let d := dot st off
    if d.natAbs ≥ nv then acc else          -- "remove diagonals that lie outside matrix"
    acc ++ (List.range nv).filterMap (fun (j : Nat) =>
      let r : Int := (j : Int) - d
      if r < 0 ∨ r ≥ (nv : Int) then none            -- DIA entries outside the matrix are ignored
      else if keep grid off (coords grid j) then some (r.toNat, j, v) else none)) []

#eval stencilGrid [3] [([-1], -1), ([0], 2), ([1], -1)]
#eval coords [2,3] 4
#eval strides [2,3,4]

end PyamgV.Stencil
