import PyamgV.Model.C20Gallery
/-! PyamgV (C20): reading a list of `(row, col, value)` triples as a matrix (duplicates add, exactly like
COO -> CSR conversion): single entries, one component of `A v`, row sums, `xᵀ A x`. Core only; the driver
evaluates these on the model outputs and the check compares them with the real matrices. -/
namespace PyamgV.C20

/-- entry `(r, c)` of `A` -/
def entry (T : List Triple) (r c : Nat) : Rat :=
  (T.map fun t => if t.1 = r ∧ t.2.1 = c then t.2.2 else 0).sum
/-- component `r` of `A v` -/
def rowdot (T : List Triple) (v : Nat → Rat) (r : Nat) : Rat :=
  (T.map fun t => if t.1 = r then t.2.2 * v t.2.1 else 0).sum
/-- sum of the entries of row `p` -/
def rowsum (T : List Triple) (p : Nat) : Rat := (T.map fun t => if t.1 = p then t.2.2 else 0).sum
/-- `xᵀ A x` -/
def qform (T : List Triple) (x : Nat → Rat) : Rat :=
  (T.map fun t => x t.1 * t.2.2 * x t.2.1).sum

/-- column `m` of a candidate array given as a list of rows -/
def colOf (B : List (List Rat)) (m : Nat) : Nat → Rat := fun t => (B.getD t []).getD m 0

end PyamgV.C20
