import PyamgV.Model.C14
import PyamgV.Model.C19Utils
import PyamgV.Model.ExtC14XBlock
/-! PyamgV (C14, extension E44): executable model of the WHOLE of `evolution_strength_of_connection`
(strength.py:515-857) beyond the E28 model (`Model/ExtC14Evol.lean`: real CSR, one candidate, `k = 2^(m+1)`, finite `epsilon`):

* any number `K = NullDim ≥ 1` of candidate vectors `B` (`n x K`): for `K > 1` the kernel `evolution_strength_helper`
  (evolution_strength.h:329-566) with its local constrained least-squares problem
  `x = pinv(LHS) · RHS` (`svd_solve`), modelled with the exact Moore-Penrose inverse `C19.Mat.pinv`;
* every `k ≥ 1`: `k = 1` (no squaring; on CSR input no mask is applied at all), `k` not a power of two (squarings, then
  `ninc` products with the one-step matrix, then `Atilde.multiply(mask)`), `k = 2^m` (squarings and
  `incomplete_mat_mult_csr`);
* `epsilon = inf` (`eps = none`: the drop-tolerance filter is skipped);
* `proj_type` `'l2'` / `'D_A'`; `symmetrize_measure`;
* BSR input: `A.tocsr()`, mask restricted to the same PDE, `block_flag` (block-diagonal pseudo-inverse as `Dinv`), the
  nodal result through `tobsr` + `min_blocks`;
* real and complex scalars: the model is written once over a scalar type `α` read through `Scal α`
  (`conj`, `re`, `im`, `ri`, the modulus `md` = `mynorm` / `np.abs`); `Rat` with `scalQ`, Gaussian rationals with `scalC sq`.

Input that is not recomputed: `c = 1.0 / approximate_spectral_radius(Dinv_A)` (recorded from the real call).
Comparisons of moduli with thresholds are made on squares (exact); only stored values go through `md`.
Core Lean only. -/
namespace PyamgV.C14Y
open PyamgV PyamgV.N PyamgV.C14

abbrev DMat (α : Type) := C19.Mat α

/-- how a scalar type is read: conjugate, real / imaginary part, `re + i im`, modulus -/
structure Scal (α : Type) where
  conj : α → α
  re : α → Rat
  im : α → Rat
  ri : Rat → Rat → α
  md : α → Rat

def scalQ : Scal Rat := ⟨id, id, fun _ => 0, fun r _ => r, absQ⟩
def scalC (sq : Rat → Rat) : Scal CRat := ⟨CRat.conj, (·.re), (·.im), fun r i => ⟨r, i⟩, C14X.cmodS sq⟩

/-- `mynormsq` -/
def Scal.nsq {α : Type} (S : Scal α) (a : α) : Rat := S.re a * S.re a + S.im a * S.im a

/-- the numeric constants of the call -/
structure Par where
  big : Rat            -- `numeric_limits<double>::max()`
  tiny : Rat           -- `numeric_limits<double>::min()`
  eps : Option Rat     -- `epsilon`; `none` is `numpy.inf`
  wk : Rat             -- the double `1e-4` (`weak_ratio` of the `NullDim == 1` shortcut)
  wk8 : Rat            -- the double `1e-8` (`mynormsq(ratio) <= 1e-8` in the helper)
  sqe : Rat            -- `sqrt(eps) = 2^-26`
  perf : Rat           -- the double `1e-4` written for near-perfect connections
  tolz : Rat           -- `set_tol(dtype) = 1e6 * eps`
  c : Rat              -- `1 / rho(Dinv A)` as recorded
  k : Nat
  symm : Bool
  projDA : Bool
  blockFlag : Bool
  bs : Nat             -- `numPDEs` (1 for CSR input)

section ops
variable {α : Type} [Add α] [Sub α] [Mul α] [Div α] [OfNat α 0] [OfNat α 1] [DecidableEq α]

/-- value of the stored entry `(i, j)` of canonical rows (`0` if there is none) -/
def ent (rows : List (RowOf α)) (i j : Nat) : α :=
  (((rows.getD i []).find? (fun cv => cv.1 == j)).map (·.2)).getD 0

def denseG (n : Nat) (rows : List (RowOf α)) : DMat α := C19.Mat.ofFn n n fun i j => ent rows i j

/-- `Dinv[mask] = 1.0 / D[mask]; Dinv[D == 0] = 1.0; Dinv_A = scale_rows(A, Dinv)` -/
def dinvA (n : Nat) (A : DMat α) : DMat α :=
  C19.Mat.ofFn n n fun i j => (if A.get i i = 0 then 1 else 1 / A.get i i) * A.get i j

/-- `Dinv_A`: point scaling, or (`block_flag` on BSR input, `1 x 1` blocks included: a zero diagonal entry then has the
pseudo-inverse `0`, not `1`) `get_block_diag(A, bs, inv_flag=True) @ A` -/
def dinvAOf (S : Scal α) (P : Par) (n : Nat) (A : DMat α) : Option (DMat α) :=
  if P.blockFlag then (C19.scaleBlockInverse S.conj P.bs A).map (·.1) else some (dinvA n A)

/-- `Atilde = (Id - (1/rho) Dinv_A).T` -/
def oneStep (S : Scal α) (c : Rat) (n : Nat) (DA : DMat α) : DMat α :=
  C19.Mat.ofFn n n fun i j => (if i = j then 1 else 0) - S.ri c 0 * DA.get j i

def iterN {β : Type} (f : β → β) : Nat → β → β
  | 0, a => a
  | t + 1, a => iterN f t (f a)

/-- the dense matrix whose masked entries the code hands to the strength computation, in the code's order of
operations: `nsquare = int(log2 k)` squarings, then `ninc = k - 2^nsquare` products with the one-step matrix
(for `ninc = 0`, `nsquare ≥ 1` the last squaring is the one `incomplete_mat_mult_csr` performs on the mask) -/
def powLit (k : Nat) (T : DMat α) : DMat α :=
  let nsq := Nat.log2 k
  iterN (fun M => C19.Mat.mul M T) (k - 2 ^ nsq) (iterN (fun M => C19.Mat.mul M M) nsq T)

/-- `mask`: row `i` of `A` without explicit zeros; on BSR input only the columns of the same PDE -/
def maskRow (bs : Nat) (i : Nat) (row : RowOf α) : List Nat :=
  (row.filter fun cv => cv.2 ≠ 0 ∧ (bs ≤ 1 ∨ cv.1 % bs = i % bs)).map (·.1)

/-- does the code apply the mask?  (`k = 1` on CSR input: `elif nsquare == 0: if numPDEs > 1:`) -/
def masked (P : Par) : Bool := decide (P.k ≠ 1) || decide (1 < P.bs)

/-- row `i` of `Atilde` as handed to the strength computation: the non-zero entries of `M` on the columns `cols` -/
def spRowOn (M : DMat α) (i : Nat) (cols : List Nat) : RowOf α :=
  cols.filterMap fun j => if M.get i j ≠ 0 then some (j, M.get i j) else none

def atildeRows (P : Par) (n : Nat) (M : DMat α) (rows : List (RowOf α)) : List (RowOf α) :=
  (rows.zipIdx).map fun (r, i) => spRowOn M i (if masked P then maskRow P.bs i r else List.range n)

/-! ### `NullDim == 1`: the shortcut (strength.py:740-789) -/

def entOf (row : RowOf α) (j : Nat) : α := ((row.find? (fun cv => cv.1 == j)).map (·.2)).getD 0

/-- `Bmat_forscaling[Bmat_forscaling == 0] = 1.0` -/
def bScalG (B : DMat α) (i : Nat) : α := if B.get i 0 = 0 then 1 else B.get i 0

def shortcutRow (S : Scal α) (P : Par) (B : DMat α) (i : Nat) (p : RowOf α) : Row :=
  let d := entOf p i
  let r1 : Row := p.map fun cv =>
    let z := 1 * (d / bScalG B i) * bScalG B cv.1
    let ratio := z / cv.2
    (cv.1, if S.nsq ratio < P.wk * P.wk ∨ S.re z * S.re cv.2 + S.im z * S.im cv.2 < 0 then 0
           else S.md (1 - ratio))
  (elimZeros r1).map fun cv => (cv.1, if cv.2 < P.sqe then P.perf else cv.2)

/-! ### `NullDim > 1`: `evolution_strength_helper` (evolution_strength.h:329-566) -/

def sumG (l : List α) : α := l.foldl (· + ·) 0

/-- `D_A`: `diag(A)` for `proj_type = 'D_A'`, the identity for `'l2'` -/
def dAOf (P : Par) (A : DMat α) (j : Nat) : α := if P.projDA then A.get j j else 1

/-- `BDB[j, counter(m, n)] = 2.0 * (conj(B[j, m]) * (D_A B)[j, n])`, `m ≤ n` -/
def bdb (S : Scal α) (dA : Nat → α) (B : DMat α) (j m n : Nat) : α :=
  S.ri 2 0 * (S.conj (B.get j m) * (dA j * B.get j n))

/-- `DB = (D_A conj(B))`, entry `(j, m)` -/
def dbOf (S : Scal α) (dA : Nat → α) (B : DMat α) (j m : Nat) : α := dA j * S.conj (B.get j m)

/-- the `(K+1) x (K+1)` matrix of the local problem of row `i` with stored columns `cols` (column major in the code) -/
def lhsOf (S : Scal α) (dA : Nat → α) (B : DMat α) (K i : Nat) (cols : List Nat) : DMat α :=
  C19.Mat.ofFn (K + 1) (K + 1) fun r c =>
    if r < K ∧ c < K then
      (if r ≤ c then sumG (cols.map fun j => bdb S dA B j r c)
       else sumG (cols.map fun j => S.conj (bdb S dA B j c r)))
    else if r = K ∧ c < K then B.get i c          -- last row: `e_i^T B`
    else if r < K ∧ c = K then dbOf S dA B i r    -- last column: `B^H D_A e_i`
    else 0

/-- right-hand side: `2 · DB_i^T z`, then `z_at_i` (`1.0` when the diagonal is not stored) -/
def rhsOf (S : Scal α) (dA : Nat → α) (B : DMat α) (K i : Nat) (p : RowOf α) : DMat α :=
  C19.Mat.ofFn (K + 1) 1 fun r _ =>
    if r < K then sumG (p.map fun cv => dbOf S dA B cv.1 r * cv.2) * S.ri 2 0
    else ((p.find? (fun cv => cv.1 == i)).map (·.2)).getD 1

/-- `svd_solve`: `pinv(LHS) · RHS`; `none` only if the exact pseudo-inverse fails (it cannot: `helper_pinv_defined`) -/
def solveOf (S : Scal α) (L R : DMat α) : Option (DMat α) := (C19.Mat.pinv S.conj L).map fun X => C19.Mat.mul X R

/-- `zhat = B_i x[0:K]` on the stored columns -/
def zhatOf (B : DMat α) (K : Nat) (x : DMat α) (p : RowOf α) : List α :=
  p.map fun cv => sumG ((List.range K).map fun m => B.get cv.1 m * x.get m 0)

/-- "filter out numerically zero values in zhat": real / imaginary parts below `tol · max|zhat|` are zeroed -/
def zhatFilter (S : Scal α) (tolz : Rat) (zh : List α) : List α :=
  let mx := zh.foldl (fun m v => max m (S.nsq v)) 0
  zh.map fun v =>
    let v1 := if S.re v * S.re v < tolz * tolz * mx then S.ri 0 (S.im v) else v
    if S.im v1 * S.im v1 < tolz * tolz * mx then S.ri (S.re v1) 0 else v1

/-- the strength value of one stored entry: `zv = z[j]`, `zh = zhat[j]` -/
def helperVal (S : Scal α) (P : Par) (i j : Nat) (zv zh : α) : Rat :=
  if j = i then 1 else
  let ratio := zh / zv
  if S.nsq ratio ≤ P.wk8 then 0
  else if S.re zh * S.re zv + S.im zh * S.im zv < 0 then 0
  else
    let err := S.md (1 - ratio)       -- `mynorm(-ratio + 1.0)`
    if err < P.sqe then P.perf else err

/-- one row of the helper, then `eliminate_zeros`; `none` = the exact pseudo-inverse failed -/
def helperRow (S : Scal α) (P : Par) (dA : Nat → α) (B : DMat α) (K i : Nat) (p : RowOf α) : Option Row :=
  if p.length ≤ K then some (p.map fun cv => (cv.1, (1 : Rat)))
  else
    (solveOf S (lhsOf S dA B K i (p.map (·.1))) (rhsOf S dA B K i p)).map fun x =>
      let zh := zhatFilter S P.tolz (zhatOf B K x p)
      elimZeros ((p.zip zh).map fun (cv, h) => (cv.1, helperVal S P i cv.1 cv.2 h))

/-- all rows, or `none` -/
def allRows : List (Option Row) → Option (List Row)
  | [] => some []
  | none :: _ => none
  | some r :: t => (allRows t).map (r :: ·)

/-- the strength values handed to the drop-tolerance filter -/
def measureOf (S : Scal α) (P : Par) (A : DMat α) (B : DMat α) (K : Nat) (atl : List (RowOf α)) : Option (List Row) :=
  if K = 1 then some ((atl.zipIdx).map fun (p, i) => shortcutRow S P B i p)
  else allRows ((atl.zipIdx).map fun (p, i) => helperRow S P (dAOf P A) B K i p)

end ops

/-! ### after the strength values (strength.py:812-857) -/

/-- `if epsilon != np.inf: apply_distance_filter; eliminate_zeros` -/
def filterO (big : Rat) (eps : Option Rat) (i : Nat) (r : Row) : Row :=
  match eps with
  | some ε => elimZeros (distFilterRow big ε i r)
  | none => r

/-- filter, optional symmetrisation, unit diagonal: the scalar matrix before the inversion -/
def preTail (big : Rat) (eps : Option Rat) (symm : Bool) (rows : List Row) : List Row :=
  let r1 := mapRows (filterO big eps) rows
  let r2 := if symm then (List.range r1.length).map (symmetrizeRow r1) else r1
  mapRows unitDiag r2

/-- CSR input: `Atilde.data = 1.0 / Atilde.data; scale_rows_by_largest_entry` -/
def tailO (big tiny : Rat) (eps : Option Rat) (symm : Bool) (rows : List Row) : List Row :=
  (preTail big eps symm rows).map fun r => scaleRow tiny (invRow r)

/-- BSR input: `tobsr(blocksize)` + `min_blocks`: nodal row `I` holds, for every block column with a stored scalar entry,
the smallest non-zero stored value of the block -/
def nodalMin (big : Rat) (bs : Nat) (rows : List Row) : List Row :=
  if bs = 0 then [] else
  (List.range (rows.length / bs)).map fun I =>
    let blk := (rows.drop (I * bs)).take bs
    let cols := blk.foldl (fun acc r => r.foldl (fun acc cv => insSorted (cv.1 / bs) acc) acc) []
    cols.map fun J => (J, minBlock big (blk.flatMap fun r => (r.filter fun cv => cv.1 / bs = J).map (·.2)))

def tailBsr (big tiny : Rat) (eps : Option Rat) (symm : Bool) (bs : Nat) (rows : List Row) : List Row :=
  (nodalMin big bs (preTail big eps symm rows)).map fun r => scaleRow tiny (invRow r)

section full
variable {α : Type} [Add α] [Sub α] [Mul α] [Div α] [OfNat α 0] [OfNat α 1] [DecidableEq α]

/-- `Atilde` handed to the strength computation (rows of non-zero entries, sorted by column) -/
def atildeOf (S : Scal α) (P : Par) (rows : List (RowOf α)) : Option (List (RowOf α)) :=
  let n := rows.length
  let A := denseG n rows
  (dinvAOf S P n A).map fun DA => atildeRows P n (powLit P.k (oneStep S P.c n DA)) rows

/-- the strength values at the filter; `B` is the `n x K` candidate matrix -/
def evMeasureG (S : Scal α) (P : Par) (B : DMat α) (K : Nat) (rows : List (RowOf α)) : Option (List Row) :=
  (atildeOf S P rows).bind fun atl => measureOf S P (denseG rows.length rows) B K atl

/-- `evolution_strength_of_connection(A, B, epsilon, k, proj_type, symmetrize_measure)` on canonical CSR rows -/
def evolFullG (S : Scal α) (P : Par) (B : DMat α) (K : Nat) (rows : List (RowOf α)) : Option (List Row) :=
  (evMeasureG S P B K rows).map (tailO P.big P.tiny P.eps P.symm)

/-- … on a BSR matrix (`P.bs` = its block size): `A.tocsr()`, the scalar computation, the nodal matrix -/
def evolFullBsr (S : Scal α) (P : Par) (B : DMat α) (K : Nat) (X : Spmm.Bsr α) : Option (List Row) :=
  (evMeasureG S P B K (C14X.scalarRows X)).map (tailBsr P.big P.tiny P.eps P.symm P.bs)

end full

end PyamgV.C14Y
