import PyamgV.Model.ExtC17Ck

/-! PyamgV (C17, extension E7): checked-execution (`Ck`) model of `truncate_rows_csr`
(smoothed_aggregation.h) with its helpers `swap` and the recursive `qsort_twoarrays`.
The recursion runs on fuel (`right - left` suffices: both recursive calls are on strictly shorter
ranges); running out of fuel clears the flag, so `ok = true` includes termination.  Core Lean only. -/
namespace PyamgV.C17
open PyamgV.Ck

variable {α : Type} [Inhabited α]

/-- the two arrays sorted together: `x` (values), `y` (indices) -/
abbrev XY (α : Type) := Array α × Array Int

/-- `swap(x, y, i, j)` -/
def qsSwap (st : XY α) (i j : Int) : Ck (XY α) := do
  let t ← rd st.1 i
  let xj ← rd st.1 j
  let x ← wr st.1 i xj
  let x ← wr x j t
  let ti ← rd st.2 i
  let yj ← rd st.2 j
  let y ← wr st.2 i yj
  let y ← wr y j ti
  pure (x, y)

/-- `qsort_twoarrays(x, y, left, right)` (ascending in `mynorm(x)`) -/
def qsortTwo (o : KOps α) (lt : α → α → Bool) : Nat → Int → Int → XY α → Ck (XY α)
  | 0, left, right, st => if left ≥ right then pure st else ⟨st, false⟩
  | f+1, left, right, st =>
    if left ≥ right then pure st
    else do
      let st ← qsSwap st left ((left + right) / 2)
      -- `last = left; for(i = left+1; i <= right; i++) if(mynorm(x[i]) < mynorm(x[left])) swap(x, y, ++last, i);`
      let r ← forRange (left + 1) (right + 1) (st, left) (fun i (acc : XY α × Int) => do
        let xi ← rd acc.1.1 i
        let xl ← rd acc.1.1 left
        if lt (o.norm xi) (o.norm xl) then do
          let st ← qsSwap acc.1 (acc.2 + 1) i
          pure (st, acc.2 + 1)
        else pure acc)
      let st ← qsSwap r.1 left r.2
      let st ← qsortTwo o lt f left (r.2 - 1) st
      qsortTwo o lt f (r.2 + 1) right st

/-- `truncate_rows_csr(n_row, k, Sp, Sj, Sx)`; returns `(Sx, Sj)` -/
def truncateRows (o : KOps α) (lt : α → α → Bool) (k : Int) (S : Csr α) : Ck (XY α) :=
  forRange 0 (S.n : Int) (S.ax, S.aj) (fun i (st : XY α) => do
    let s ← rd S.ap i
    let e ← rd S.ap (i+1)
    if e - s > k then do
      let st ← qsortTwo o lt (e - s).toNat s (e - 1) st
      let sx ← forRange s (e - k) st.1 (fun jj (sx : Array α) => wr sx jj o.zero)
      pure (sx, st.2)
    else pure st)

end PyamgV.C17
