import PyamgV.Model.ExtC17R4Svd
import PyamgV.Model.ExtC17CkR3Split

/-! PyamgV (C17, extension E32, round 4): checked-execution (`Ck`) models of the dense helpers `QR`, `upper_tri_solve`,
`least_squares` (linalg.h), `dense_GMRES` (krylov.h) and of the kernel `approx_ideal_restriction_pass2` (air.h), written loop
by loop after the C++.

* `std::set<I> colinds` is the list computed by the loops of the first pass (`C17.airP1Row`, the same code), traversed in
  ascending order (`List.mergeSort`);
* local `std::vector`s (`A0`, `b0`, `Q`, `v`, `rhs`, `V`, `H`, `g`) are arrays accessed through `rd`/`wr`;
* a `break` is a flag that turns the remaining iterations into no-ops; the early `return`s of `dense_GMRES` are branches;
* `get_ind` is `getInd` with the storage order as a `Bool` (`true` = column major).

Scalars are abstract (`AirOps`: the operations of `SvOps` and the constant `1e-12`).  Core Lean only. -/
namespace PyamgV.C17R4
open PyamgV.Ck PyamgV.C17

structure AirOps (α : Type) where
  sv : SvOps α
  /-- `1e-12` -/
  c12 : α

variable {α : Type} [Inhabited α]

/-- `col_major(r, c, C)` / `row_major(r, c, C)` -/
def getInd (cm : Bool) (r c C : Int) : Int := if cm then c * C + r else r * C + c

/-- `QR(&A[ao], m, n, is_col_major)`; returns `(A, Q)` -/
def qrM (o : AirOps α) (A : Array α) (ao : Int) (m n : Int) (cm : Bool) : Ck (Array α × Array α) := do
  let v := o.sv
  let C := if cm then m else n
  let Q ← forRange 0 m (Array.replicate (m * m).toNat v.zero) (fun i (Q : Array α) => wr Q (getInd cm i i m) v.one)
  forRange 0 n (A, Q) (fun j (st : Array α × Array α) =>
    if m ≤ j then pure st
    else do
      let nx ← forRange j m v.zero (fun i (nx : α) => do
        let t ← rd st.1 (ao + getInd cm i j C)
        pure (v.add nx (v.mul t t)))
      let nx := v.sqrt nx
      if v.lt nx o.c12 then pure st
      else do
        let ajj ← rd st.1 (ao + getInd cm j j C)
        let nx := v.mul nx (v.mul (v.neg v.one) (v.sgn ajj))
        let ajj ← rd st.1 (ao + getInd cm j j C)
        let scale := v.sub ajj nx
        let tau := v.div (v.neg scale) nx
        let vv ← wr (Array.replicate (m - j).toNat v.zero) 0 v.one
        let vv ← forRange 1 (m - j) vv (fun i (vv : Array α) => do
          let a ← rd st.1 (ao + getInd cm (j + i) j C)
          wr vv i (v.div a scale))
        let A ← forRange j n st.1 (fun k (A : Array α) => do
          let vtR ← forRange 0 (m - j) v.zero (fun i (acc : α) => do
            let vi ← rd vv i
            let a ← rd A (ao + getInd cm (j + i) k C)
            pure (v.add acc (v.mul vi a)))
          forRange 0 (m - j) A (fun i (A : Array α) => do
            let a ← rd A (ao + getInd cm (j + i) k C)
            let vi ← rd vv i
            wr A (ao + getInd cm (j + i) k C) (v.sub a (v.mul (v.mul tau vi) vtR))))
        let Q ← forRange 0 m st.2 (fun i (Q : Array α) => do
          let qv ← forRange 0 (m - j) v.zero (fun k (acc : α) => do
            let vk ← rd vv k
            let q ← rd Q (getInd cm i (k + j) m)
            pure (v.add acc (v.mul vk q)))
          forRange 0 (m - j) Q (fun k (Q : Array α) => do
            let q ← rd Q (getInd cm i (k + j) m)
            let vk ← rd vv k
            wr Q (getInd cm i (k + j) m) (v.sub q (v.mul (v.mul tau vk) qv))))
        pure (A, Q))

/-- `upper_tri_solve(&R[ro], rhs, &x[xo], m, n, is_col_major)`; returns `x` -/
def upperTriSolve (o : AirOps α) (R : Array α) (ro : Int) (rhs : Array α) (x : Array α) (xo : Int) (m n : Int) (cm : Bool) :
    Ck (Array α) := do
  let v := o.sv
  let C := if cm then m else n
  let rank := if m < n then m else n
  -- `for (I i=(rank-1); i>=0; i--)`
  let x ← forRange 0 rank x (fun t (x : Array α) => do
    let i := rank - 1 - t
    let t0 ← rd rhs i
    let temp ← forRange (i + 1) rank t0 (fun j (temp : α) => do
      let r ← rd R (ro + getInd cm i j C)
      let xj ← rd x (xo + j)
      pure (v.sub temp (v.mul r xj)))
    let rii ← rd R (ro + getInd cm i i C)
    if v.lt (v.abs rii) o.c12 then wr x (xo + i) v.zero
    else do
      let rii ← rd R (ro + getInd cm i i C)
      wr x (xo + i) (v.div temp rii))
  forRange m n x (fun i (x : Array α) => wr x (xo + i) v.zero)

/-- `least_squares(&A[ao], b, &x[xo], m, n, is_col_major)`; returns `(A, x)` -/
def leastSquares (o : AirOps α) (A : Array α) (ao : Int) (b : Array α) (x : Array α) (xo : Int) (m n : Int) (cm : Bool) :
    Ck (Array α × Array α) := do
  let v := o.sv
  let q ← qrM o A ao m n cm
  let rhs ← forRange 0 m (Array.replicate m.toNat v.zero) (fun i (rhs : Array α) =>
    forRange 0 m rhs (fun k (rhs : Array α) => do
      let r ← rd rhs i
      let bk ← rd b k
      let qq ← rd q.2 (getInd cm k i m)
      wr rhs i (v.add r (v.mul bk qq))))
  let x ← upperTriSolve o q.1 ao rhs x xo m n cm
  pure (q.1, x)

/-- `norm(b, n)` of krylov.h: `sqrt(dot_prod(b, b, n))` -/
def normT (o : SvOps α) (x : Array α) (n : Int) : Ck α := do
  let d ← dotProd o x 0 x 0 n
  pure (o.sqrt d)

/-- the Arnoldi loop of `dense_GMRES`; state `(b, V, H, rank, broke)` -/
def gmresArnoldi (o : AirOps α) (A : Array α) (n maxiter Ch : Int) (cm : Bool) (st : Array α × Array α × Array α × Int × Bool) :
    Ck (Array α × Array α × Array α × Int × Bool) :=
  let v := o.sv
  forRange 0 maxiter st (fun j (st : Array α × Array α × Array α × Int × Bool) =>
    if st.2.2.2.2 then pure st
    else do
      let vind := n * j
      -- `b = A V[:,j]`
      let b ← forRange 0 n st.1 (fun l (b : Array α) => do
        let b ← wr b l v.zero
        forRange 0 n b (fun k (b : Array α) => do
          let bl ← rd b l
          let a ← rd A (getInd cm l k n)
          let vk ← rd st.2.1 (vind + k)
          wr b l (v.add bl (v.mul a vk))))
      -- modified Gram-Schmidt; state `(b, H)`
      let bh ← forRange 0 (j + 1) (b, st.2.2.1) (fun i (s : Array α × Array α) => do
        let vi := i * n
        let temp ← dotProd v s.1 0 st.2.1 vi n
        let H ← wr s.2 (getInd cm i j Ch) temp
        -- `axpy(b, &V[v_ind], -temp, n)`
        let b ← forRange 0 n s.1 (fun t (b : Array α) => do
          let bt ← rd b t
          let vt ← rd st.2.1 (vi + t)
          wr b t (v.add bt (v.mul (v.neg temp) vt)))
        pure (b, H))
      let nb ← normT v bh.1 n
      if v.lt nb o.c12 then do
        let H ← (if j < maxiter - 1 then wr bh.2 (getInd cm (j + 1) j Ch) v.zero else pure bh.2)
        pure (bh.1, st.2.1, H, j + 1, true)
      else if j < maxiter - 1 then do
        let H ← wr bh.2 (getInd cm (j + 1) j Ch) nb
        let V ← forRange 0 n st.2.1 (fun i (V : Array α) => do
          let bi ← rd bh.1 i
          wr V ((j + 1) * n + i) (v.div bi nb))
        pure (bh.1, V, H, st.2.2.2.1, false)
      else pure (bh.1, st.2.1, bh.2, st.2.2.2.1, false))

/-- the Givens rotations of `dense_GMRES`; state `(H, g)` -/
def gmresGivens (o : AirOps α) (maxiter Ch : Int) (cm : Bool) (st : Array α × Array α) : Ck (Array α × Array α) :=
  let v := o.sv
  forRange 1 (maxiter + 1) st (fun j (st : Array α × Array α) => do
    let h11 ← rd st.1 (getInd cm (j - 1) (j - 1) Ch)
    let h21 ← rd st.1 (getInd cm j (j - 1) Ch)
    if v.eq h21 v.zero then pure st
    else do
      let c0 := v.div v.one (v.sqrt (v.add (v.mul h11 h11) (v.mul h21 h21)))
      let s1 := v.mul h21 c0
      let c1 := v.mul c0 h11
      let temp ← rd st.2 (j - 1)
      let gj ← rd st.2 j
      let g ← wr st.2 (j - 1) (v.add (v.mul c1 temp) (v.mul s1 gj))
      let gj ← rd g j
      let g ← wr g j (v.add (v.mul (v.neg s1) temp) (v.mul c1 gj))
      let H ← forRange (j - 1) maxiter st.1 (fun k (H : Array α) => do
        let temp ← rd H (getInd cm (j - 1) k Ch)
        let hjk ← rd H (getInd cm j k Ch)
        let H ← wr H (getInd cm (j - 1) k Ch) (v.add (v.mul c1 temp) (v.mul s1 hjk))
        let hjk ← rd H (getInd cm j k Ch)
        wr H (getInd cm j k Ch) (v.add (v.mul (v.neg s1) temp) (v.mul c1 hjk)))
      let H ← wr H (getInd cm j (j - 1) Ch) v.zero
      pure (H, g))

/-- `dense_GMRES(A, b, &x[xo], n, is_col_major, maxiter, precondition)`; returns `(A, b, x)` -/
def denseGmres (o : AirOps α) (A b : Array α) (x : Array α) (xo : Int) (n : Int) (cm : Bool) (maxiter0 : Int) (precond : Bool) :
    Ck (Array α × Array α × Array α) := do
  let v := o.sv
  let maxiter := if maxiter0 = 0 then n else (if maxiter0 < n then maxiter0 else n)
  let Ch := if cm then maxiter + 1 else maxiter
  if n = 1 then do
    let b0 ← rd b 0
    let a0 ← rd A 0
    let x ← wr x (xo + 0) (v.div b0 a0)
    pure (A, b, x)
  else do
    let ab ← (if precond then
        forRange 0 n (A, b) (fun i (st : Array α × Array α) => do
          let d ← rd st.1 (getInd cm i i n)
          if v.lt (v.abs d) o.c12 then pure st
          else do
            let d := v.div v.one d
            let bi ← rd st.2 i
            let b ← wr st.2 i (v.mul bi d)
            let A ← forRange 0 n st.1 (fun j (A : Array α) => do
              let a ← rd A (getInd cm i j n)
              wr A (getInd cm i j n) (v.mul a d))
            pure (A, b))
      else pure (A, b))
    let nb ← normT v ab.2 n
    if v.lt nb o.c12 then do
      let x ← forRange 0 n x (fun i (x : Array α) => wr x (xo + i) v.zero)
      pure (ab.1, ab.2, x)
    else do
      let g ← wr (Array.replicate (n + 1).toNat v.zero) 0 nb
      let V ← forRange 0 n (Array.replicate (maxiter * n).toNat v.zero) (fun i (V : Array α) => do
        let bi ← rd ab.2 i
        wr V i (v.div bi nb))
      let ar ← gmresArnoldi o ab.1 n maxiter Ch cm (ab.2, V, Array.replicate (maxiter * (maxiter + 1)).toNat v.zero, maxiter, false)
      let hg ← gmresGivens o maxiter Ch cm (ar.2.2.1, g)
      let b ← upperTriSolve o hg.1 0 hg.2 ar.1 0 (maxiter + 1) maxiter cm
      let x ← forRange 0 n x (fun l (x : Array α) => do
        let x ← wr x (xo + l) v.zero
        forRange 0 ar.2.2.2.1 x (fun k (x : Array α) => do
          let xl ← rd x (xo + l)
          let vv ← rd ar.2.1 (getInd true l k n)
          let bk ← rd b k
          wr x (xo + l) (v.add xl (v.mul vv bk))))
      pure (ab.1, b, x)

/-- one row of `approx_ideal_restriction_pass2`; state `(Rj, Rx)` -/
def airP2Row (o : AirOps α) (rp : Array Int) (G : Csr α) (cp cj cpts splitting : Array Int) (distance : Int) (useGmres : Bool)
    (maxiter : Int) (precond : Bool) (row : Int) (st : Array Int × Array α) : Ck (Array Int × Array α) := do
  let v := o.sv
  let cpoint ← rd cpts row
  let r0 ← rd rp row
  let colinds ← airP1Row cp cj splitting distance cpoint
  -- `for (const I cc : colinds){ Rj[ind] = cc; ind += 1; }`
  let ri ← (colinds.mergeSort (fun a b => decide (a ≤ b))).foldl (fun (acc : Ck (Array Int × Int)) cc => do
      let s ← acc
      let rj ← wr s.1 s.2 cc
      pure (rj, s.2 + 1)) (pure (st.1, r0))
  let ind := ri.2
  let _ ← rd rp (row + 1)
  let sizeN := ind - r0
  -- `A0`; state `(A0, temp_A)`
  let a0 ← forRange r0 ind (Array.replicate (sizeN * sizeN).toNat v.zero, (0 : Int)) (fun j (s : Array α × Int) => do
    let thisInd ← rd ri.1 j
    forRange r0 ind s (fun i (s : Array α × Int) => do
      let ks ← rd G.ap thisInd
      let ke ← rd G.ap (thisInd + 1)
      let f ← forRange ks ke (s, false) (fun k (q : (Array α × Int) × Bool) =>
        if q.2 then pure q
        else do
          let ri_i ← rd ri.1 i
          let ajk ← rd G.aj k
          if ri_i = ajk then do
            let a ← rd G.ax k
            let A0 ← wr q.1.1 q.1.2 a
            pure ((A0, q.1.2 + 1), true)
          else pure q)
      if f.2 then pure f.1
      else do
        let A0 ← wr f.1.1 f.1.2 v.zero
        pure (A0, f.1.2 + 1)))
  -- `b0`; state `(b0, temp_b)`
  let b0 ← forRange r0 ind (Array.replicate sizeN.toNat v.zero, (0 : Int)) (fun i (s : Array α × Int) => do
    let ks ← rd G.ap cpoint
    let ke ← rd G.ap (cpoint + 1)
    let f ← forRange ks ke (s.1, false) (fun k (q : Array α × Bool) =>
      if q.2 then pure q
      else do
        let ri_i ← rd ri.1 i
        let ajk ← rd G.aj k
        if ri_i = ajk then do
          let a ← rd G.ax k
          let b ← wr q.1 s.2 (v.neg a)
          pure (b, true)
        else pure q)
    pure (f.1, s.2 + 1))
  let rx ← (if sizeN > 0 then
      if useGmres then do
        let r ← denseGmres o a0.1 b0.1 st.2 r0 sizeN true maxiter precond
        pure r.2.2
      else do
        let r ← leastSquares o a0.1 0 b0.1 st.2 r0 sizeN sizeN true
        pure r.2
    else pure st.2)
  let rj ← wr ri.1 ind cpoint
  let rx ← wr rx ind v.one
  pure (rj, rx)

/-- `approx_ideal_restriction_pass2(Rp, Rj, Rx, Ap, Aj, Ax, Cp, Cj, Cx, Cpts, splitting, distance, use_gmres, maxiter, precondition)`;
returns `(Rj, Rx)` -/
def airPass2 (o : AirOps α) (rp rj : Array Int) (rx : Array α) (G : Csr α) (cp cj cpts splitting : Array Int) (distance : Int)
    (useGmres : Bool) (maxiter : Int) (precond : Bool) : Ck (Array Int × Array α) :=
  forRange 0 (cpts.size : Int) (rj, rx) (airP2Row o rp G cp cj cpts splitting distance useGmres maxiter precond)

end PyamgV.C17R4
