import PyamgV.Model.C03Cyc
import PyamgV.Model.C01Solve
import PyamgV.Model.C08Accel
import PyamgV.Model.C02Cycle
/-! PyamgV (extension E17; C08 / C01 / C03): the three models of the solve path composed.
Core Lean only; nothing here is new behaviour, every definition is an *instance* of the executed
definitions `C01.solvePy` (Model/C01Solve.lean), `C03.cycM` (Model/C03Cyc.lean) and of the `Call`
records produced by `C08.plan` (Model/C08Accel.lean).

* `solvePyM`   = `MultilevelSolver.solve(b, x0, tol, maxiter, cycle, residuals, callback, return_info)`
  without `accel`: C01's statement-by-statement loop whose cycle is C03's model of `__solve` on a dense
  rational hierarchy (one-level branch: the coarse solver applied to `b`),
* `precPy`     = `aspreconditioner(cycle).matvec(v)` = `solve(v, maxiter=1, cycle=cycle, tol=1e-12)`:
  no `x0`, no list, no callback, no `return_info`, default `cycles_per_level = 1`,
* `callPrecond` = the `M` of one accelerator call issued by the C08 plan (`Call.precond` is the
  upper-cased cycle string) applied to a vector,
* `solvePyK`   = the same call with C02's arrays-and-kernels model of `__solve` (`C02.cycle`: CSR levels,
  the relaxation kernel models of C09, a direct coarse solve) as the cycle,
* `resSq` / `belowSq` = the residual test `‖b − A x‖ < tol·‖b‖` on exact squares (`tol ≥ 0`). -/
namespace PyamgV.SolvePath
open PyamgV PyamgV.C03

/-- the upper-cased cycle string as a cycle type of the C03 model (`AMLI` and unknown strings: `none`;
`__solve` raises `TypeError` for the latter) -/
def parseCyc (s : String) : Option Cyc :=
  if s = "V" then some .V else if s = "W" then some .W else if s = "F" then some .F else none

/-- C01's loop on C03's cycle -/
def solvePyM {R : Type} (S : Mat) (c : Cyc) (cpl : Nat) (Ls : List Lvl) (resnorm : Vec → R)
    (below : R → Bool) (maxiter : Nat) (b : Vec) (x0 : Option Vec) (residuals : Option (List R))
    (hasCb returnInfo : Bool) : Option (C01.PyOut Vec R) :=
  C01.solvePy (zeros b.length) (fun x => cycM S c cpl Ls x b) (matVec S b) Ls.isEmpty resnorm below
    maxiter x0 residuals hasCb returnInfo

/-- `aspreconditioner(cycle).matvec(v)`; `resnorm v` is the residual norm for the right-hand side `v` -/
def precPy {R : Type} (S : Mat) (c : Cyc) (Ls : List Lvl) (resnorm : Vec → Vec → R) (below : R → Bool)
    (v : Vec) : Option Vec :=
  (solvePyM S c 1 Ls (resnorm v) below 1 v none none false false).map (·.x)

/-- the preconditioner handed over in one accelerator call of the C08 plan, applied to `v` -/
def callPrecond {R : Type} (S : Mat) (Ls : List Lvl) (resnorm : Vec → Vec → R) (below : R → Bool)
    (cl : C08.Call) (v : Vec) : Option Vec :=
  match parseCyc cl.precond with
  | none => none
  | some cy => precPy S cy Ls resnorm below v

/-- C01's loop on C02's arrays-and-kernels cycle (`C02.cycle solve c cpl [] x b = solve b`: the
one-level branch) -/
def solvePyK {α R : Type} [Add α] [Sub α] [Mul α] [Div α] [OfNat α 0] [OfNat α 1] [DecidableEq α]
    (solve : Array α → Array α) (c : C02.Cyc) (cpl : Nat) (ls : List (C02.Lvl α)) (resnorm : Array α → R)
    (below : R → Bool) (maxiter : Nat) (b : Array α) (x0 : Option (Array α)) (residuals : Option (List R))
    (hasCb returnInfo : Bool) : Option (C01.PyOut (Array α) R) :=
  C01.solvePy (C02.zeros b.size) (fun x => C02.cycle solve c cpl ls x b) (solve b) ls.isEmpty resnorm below
    maxiter x0 residuals hasCb returnInfo

/-- `‖b − A x‖²` exactly -/
def resSq (A : Mat) (b x : Vec) : Rat :=
  let r := vsub b (matVec A x)
  dot r r

/-- `normr < tol * normb` (`normb = 0 ↦ 1`) decided on squares; `tol ≥ 0` -/
def belowSq (tol normbSq : Rat) (rSq : Rat) : Bool :=
  decide (rSq < tol * tol * (if normbSq = 0 then 1 else normbSq))

end PyamgV.SolvePath
