import PyamgV.Model.ExtC15Canon
/-! PyamgV (extension E54, property C15), executable, core only: `pairwise_aggregation(A, matchings=m, theta, norm,
compute_P=True)` for ANY number of matchings (E41's `Canon.pwRaw` is the case `m = 1`; the default of
`pairwise_solver` is `m = 2`), as `pairwise.py` / `aggregate.py` compute it on arrays:

```
Ac = A; T = None
for i in range(matchings):
    C = classical_strength_of_connection(Ac, theta, norm)          -- model `C14.pubClassicalNorm`
    num_aggregates = amg_core.pairwise_aggregation(.., C.indptr, C.indices, C.data, Tj, ..)   -- model `ExtPw.pairwise`
    T_temp = zeros((n_i, 1)) if num_aggregates == 0 else csr_array((ones, Tj - 1, arange(n_i + 1)))
    T = T_temp if i == 0 else csr_array(T @ T_temp)                -- model `Spmm.mul`
    if num_aggregates == 0: break
    if i < matchings - 1: Ac = T_temp.T.tocsr() @ Ac @ T_temp      -- models `Spmm.transpose`, `Spmm.galerkin`
```
followed by the stall test of `pairwise_solver._extend_hierarchy`, `P.shape[1] >= P.shape[0]`.  The intermediate
matrix `Ac` reaches the strength routine and the kernel in the storage order `csr_matmat` leaves (unsorted), which
the kernel's tie-break (the LAST of several equal weights) can see; `Spmm.mul` models that order.
`pwMStep` = the same path reading the level matrix through the canonical form. -/
namespace PyamgV.CanonM
open PyamgV.Spmm PyamgV.Canon

/-- strength + kernel on the arrays of `A`: `(Tj, num_aggregates)`; `none` = arrays the kernel would overrun -/
def pwOnce (norm : String) (tiny θ : Rat) (A : Csr Rat) : Option (Array Nat × Nat) :=
  let o := C14.rowsToOut (C14.pubClassicalNorm norm tiny θ (rowsOfCsr A))
  match ExtPw.pairwise A.rows o.1 o.2.1 o.2.2 with
  | none => none
  | some (x, _, k) => some (x, k)

/-- `sparse.csr_array((num_rows, 1))` -/
def zeroT (n : Nat) : Csr Rat := ofRows n 1 ((List.range n).map fun _ => [])

/-- `T_temp` of one matching -/
def pwTemp (n : Nat) (x : Array Nat) (k : Nat) : Csr Rat := if k = 0 then zeroT n else pwT n k x

/-- the loop over the matchings: `m` matchings to go, current `Ac`, `T` so far -/
def pwLoop (norm : String) (tiny θ : Rat) : Nat → Csr Rat → Option (Csr Rat) → Option (Csr Rat)
  | 0, _, T => T
  | m + 1, Ac, T =>
    match pwOnce norm tiny θ Ac with
    | none => none
    | some (x, k) =>
      let T' := match T with
        | none => pwTemp Ac.rows x k
        | some T0 => mul T0 (pwTemp Ac.rows x k)
      if k = 0 then some T'
      else pwLoop norm tiny θ m
        (if m = 0 then Ac else galerkin (transpose (pwTemp Ac.rows x k)) Ac (pwTemp Ac.rows x k)) (some T')

/-- `pairwise_aggregation(A, matchings=m, ..)[0]` then the stall test; `m = 0` leaves `T = None` (the real code raises) -/
def pwMRaw (m : Nat) (norm : String) (tiny θ : Rat) (A : Csr Rat) : Option (Csr Rat) :=
  match pwLoop norm tiny θ m A none with
  | none => none
  | some P => if A.rows ≤ P.cols then none else some P

/-- the same path reading its matrix through the canonical form -/
def pwMStep (m : Nat) (norm : String) (tiny θ : Rat) (A : Csr Rat) : Option (Csr Rat) :=
  pwMRaw m norm tiny θ (canonNZ A)

end PyamgV.CanonM
