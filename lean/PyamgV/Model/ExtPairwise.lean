/-! PyamgV (C12 extension): executable model of the `pairwise_aggregation` kernel
(amg_core/smoothed_aggregation.h:336), loop by loop. Import-free.

* `m[c]` = number of stored entries `(r, c)` with `r ≠ c` (duplicates counted);
* the `std::multimap<I,I>` is a key-ordered association list; `insert` puts a new entry behind all
  entries with a key `≤` the new key (C++11: upper bound of the equal range), so entries with equal
  keys stay in insertion order; `mmap_iterators[v]` = the entry whose value is `v`;
* each iteration takes the value `i` of the first entry, marks it, picks among the still unmarked
  column indices of row `i` the one with the largest `Sx` (`>=`: the LAST one among equal weights;
  `max_val` starts at `numeric_limits::lowest()`, which every finite weight reaches: `none` here),
  marks it, records the root `i`, re-keys (`key - 1`, new entry inserted, old one erased) every
  still unmarked column index of row `i` (once per stored entry), erases `i`, then does the same
  for row `j` and erases `j`;
* ids are 1-based in `x` (`0` = not aggregated), `y[a-1]` = root of aggregate `a` (written at
  consecutive positions: modelled as `push`, the result is `y[:k]`), return value `k = next - 1`.

The C++ reads `Sp`, `Sj`, `Sx`, `x` without bounds checks; the model rejects (`none`) index arrays
for which that would be undefined behaviour. -/
namespace PyamgV.ExtPw

@[inline] def rd (a : Array Nat) (i : Nat) : Nat := a.getD i 0
@[inline] def wr (a : Array Nat) (i v : Nat) : Array Nat := a.setIfInBounds i v

/-- the multimap: `(key, node)` entries, sorted by key, insertion-stable among equal keys -/
abbrev MMap := List (Int × Nat)

/-- `mmap.insert({k, v})` -/
def mmInsert (k : Int) (v : Nat) : MMap → MMap
  | [] => [(k, v)]
  | e :: l => if e.1 ≤ k then e :: mmInsert k v l else (k, v) :: e :: l

/-- `mmap.erase(mmap_iterators[v])` -/
def mmErase (v : Nat) (l : MMap) : MMap := l.filter (fun e => e.2 != v)

/-- `mmap_iterators[v]->first` -/
def mmKey (v : Nat) : MMap → Option Int
  | [] => none
  | e :: l => if e.2 = v then some e.1 else mmKey v l

/-- change the key of `v` to `key - 1`: add a new entry, remove the old one -/
def mmDec (v : Nat) (l : MMap) : MMap :=
  match mmKey v l with
  | none => l
  | some k => mmInsert (k - 1) v (mmErase v l)

/-- positions `Sp[i] .. Sp[i+1]-1` -/
def rowIdx (ap : Array Nat) (i : Nat) : List Nat :=
  List.range' (rd ap i) (rd ap (i + 1) - rd ap i)

/-- the `m` vector: off-diagonal entries per column -/
def initM (n : Nat) (ap aj : Array Nat) : Array Int :=
  (List.range n).foldl (fun (m : Array Int) i =>
    (rowIdx ap i).foldl (fun (m : Array Int) jj =>
      let c := rd aj jj
      if c ≠ i then m.setIfInBounds c (m.getD c 0 + 1) else m) m) (Array.replicate n 0)

/-- the initial multimap: `insert({m[i], i})` for `i = 0 .. n-1` -/
def initMM (n : Nat) (m : Array Int) : MMap :=
  (List.range n).foldl (fun mm i => mmInsert (m.getD i 0) i mm) []

/-- the selection loop over row `i`: `(max_val, j)`, `none` = not found -/
def pick (x aj : Array Nat) (ax : Array Rat) (idx : List Nat) : Option (Rat × Nat) :=
  idx.foldl (fun (best : Option (Rat × Nat)) jj =>
    if rd x (rd aj jj) = 0 then
      match best with
      | none => some (ax.getD jj 0, rd aj jj)
      | some (mx, _) => if mx ≤ ax.getD jj 0 then some (ax.getD jj 0, rd aj jj) else best
    else best) none

/-- the re-keying loop over one row -/
def decRow (x aj : Array Nat) (idx : List Nat) (mm : MMap) : MMap :=
  idx.foldl (fun mm jj => if rd x (rd aj jj) = 0 then mmDec (rd aj jj) mm else mm) mm

structure PSt where
  x : Array Nat
  y : Array Nat
  mm : MMap
  next : Nat

/-- one pass of the `while` body for the selected node `i` -/
def iter (ap aj : Array Nat) (ax : Array Rat) (s : PSt) (i : Nat) : PSt :=
  let x := wr s.x i s.next
  match pick x aj ax (rowIdx ap i) with
  | none =>
    ⟨x, s.y.push i, mmErase i (decRow x aj (rowIdx ap i) s.mm), s.next + 1⟩
  | some (_, j) =>
    let x := wr x j s.next
    let mm := mmErase i (decRow x aj (rowIdx ap i) s.mm)
    ⟨x, s.y.push i, mmErase j (decRow x aj (rowIdx ap j) mm), s.next + 1⟩

/-- `while (!mmap.empty())`, bounded by `fuel` (each pass erases at least one entry) -/
def loop (ap aj : Array Nat) (ax : Array Rat) : Nat → PSt → PSt
  | 0, s => s
  | f + 1, s =>
    match s.mm with
    | [] => s
    | e :: _ => loop ap aj ax f (iter ap aj ax s e.2)

def init (n : Nat) (ap aj : Array Nat) : PSt :=
  ⟨Array.replicate n 0, #[], initMM n (initM n ap aj), 1⟩

/-- what the kernel needs to stay inside its arrays -/
def valid (n : Nat) (ap aj : Array Nat) (ax : Array Rat) : Bool :=
  ap.size == n + 1 && aj.size == ax.size && rd ap n ≤ aj.size &&
  (List.range n).all (fun i => rd ap i ≤ rd ap (i + 1)) &&
  aj.toList.all (fun c => c < n)

/-- `pairwise_aggregation(n, Sp, Sj, Sx, x, y)`: `(x, y[:k], k)` -/
def pairwise (n : Nat) (ap aj : Array Nat) (ax : Array Rat) : Option (Array Nat × Array Nat × Nat) :=
  if valid n ap aj ax then
    let s := loop ap aj ax n (init n ap aj)
    some (s.x, s.y, s.next - 1)
  else none

end PyamgV.ExtPw
