import PyamgV.Driver.Util
import PyamgV.Driver.Relax
import PyamgV.Model.KRelax
/-! Driver ops for property C09 (line protocol). Op names are prefixed `c09_`.

The ops below run the SAME models as `Driver/Relax.lean` (`Model/KRelax.lean`), on inputs the older ops cannot
express: Gaussian-rational data for the indexed / coarse-fine kernels, a complex damping parameter, and explicit
row lists (the BSR point kernels relax the rows of a block row in sweep direction, i.e. they are the point kernels
on an explicit list of rows). `c09_r_*` = `Rat`, `c09_c_*` = `CRat`. -/
namespace PyamgV.Drv.C09
open PyamgV PyamgV.K PyamgV.Drv PyamgV.Drv.Relax

def rows (s : String) : List Nat := (parseNats s).toList

def handle : List String → Option String
  -- Gauss-Seidel on an explicit list of rows (bsr_gauss_seidel)
  | ["c09_r_gsrows", n, ap, aj, ax, b, x, rs] =>
    some <| showRats (gaussSeidel (mkR n ap aj ax) (parseRats b) (rows rs) (parseRats x))
  | ["c09_c_gsrows", n, ap, aj, ax, b, x, rs] =>
    some <| showCRats (gaussSeidel (mkC n ap aj ax) (parseCRats b) (rows rs) (parseCRats x))
  -- weighted Jacobi on an explicit list of rows, temp = full copy of x (bsr_jacobi, bsr_jacobi_indexed)
  | ["c09_r_jacrows", om, n, ap, aj, ax, b, x, rs] =>
    some <| showRats (jacobiIndexed (parseRat om) (mkR n ap aj ax) (parseRats b) (rows rs) (parseRats x))
  | ["c09_c_jacrows", om, n, ap, aj, ax, b, x, rs] =>
    some <| showCRats (jacobiIndexed (parseCRat om) (mkC n ap aj ax) (parseCRats b) (rows rs) (parseCRats x))
  -- `jacobi` with a complex damping parameter
  | ["c09_c_jac", om, n, ap, aj, ax, b, x, s0, s1, s2] =>
    let xv := parseCRats x
    some <| showCRats (jacobi (parseCRat om) (mkC n ap aj ax) (parseCRats b) (sw s0 s1 s2) (Array.replicate xv.size 0) xv)
  -- complex indexed kernels
  | ["c09_c_jaci", om, n, ap, aj, ax, b, x, idx] =>
    some <| showCRats (jacobiIndexed (parseCRat om) (mkC n ap aj ax) (parseCRats b) (parseNats idx).toList (parseCRats x))
  | ["c09_c_gsi", n, ap, aj, ax, b, x, idx, s0, s1, s2] =>
    some <| showCRats (gaussSeidelIndexed (mkC n ap aj ax) (parseCRats b) (parseNats idx) (sw s0 s1 s2) (parseCRats x))
  -- complex public drivers of the indexed / coarse-fine routines
  | ["c09_c_pygsi", n, ap, aj, ax, b, x, idx, iters, sweep] =>
    some <| showCRats (pyGaussSeidelIndexed (mkC n ap aj ax) (parseCRats b) (parseNats idx) (nat iters) (sweepOf sweep) (parseCRats x))
  | ["c09_c_pyjaci", om, n, ap, aj, ax, b, x, idx, iters] =>
    some <| showCRats (pyJacobiIndexed (parseCRat om) (mkC n ap aj ax) (parseCRats b) (parseNats idx).toList (nat iters) (parseCRats x))
  | ["c09_c_pycfjac", cfirst, om, n, ap, aj, ax, b, x, cpts, fpts, iters, fit, cit] =>
    some <| showCRats (pyCFJacobi (cfirst = "1") (parseCRat om) (mkC n ap aj ax) (parseCRats b) (parseNats cpts).toList (parseNats fpts).toList (nat iters) (nat fit) (nat cit) (parseCRats x))
  | _ => none

end PyamgV.Drv.C09
