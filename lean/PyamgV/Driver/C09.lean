import PyamgV.Driver.Util
/-! Driver ops for property C09 (line protocol). Op names are prefixed `c09_`. -/
namespace PyamgV.Drv.C09
open PyamgV PyamgV.Drv

def handle : List String → Option String
  | _ => none

end PyamgV.Drv.C09
