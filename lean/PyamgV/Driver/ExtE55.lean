import PyamgV.Driver.Util
import PyamgV.Model.ExtC03YCyc

/-! Driver ops of extension E55 (property C03): the scalar-polymorphic extended cycle model `Model/ExtC03YCyc.lean`, run over
`Rat` (scalar tag `r`, `conj = id`) and over the Gaussian rationals `CRat` (scalar tag `c`, `conj = CRat.conj`; a complex
number is `re|im`).

A recorded smoother is ONE token, fields separated by `:` (lists `,`-separated, `-` = empty, matrix rows `;`-separated); the
tokens of Driver/ExtE38.lean plus
  `bsrgs:<omega>:<nb>:<bs>:<bp>:<bj>:<bx>:<iters>:<sweep>`      (gauss_seidel / sor on a BSR level)
  `bsrjac:<omega>:<nb>:<bs>:<bp>:<bj>:<bx>:<iters>`             (jacobi on a BSR level)
  `cfbjac:<cFirst 0|1>:<omega>:<nb>:<bs>:<bp>:<bj>:<bx>:<Dinv>:<C>:<F>:<iters>:<f_iters>:<c_iters>`

`c03y_run <r|c> <cycle V|W|F> <cpl> <k> <chk 0|1> <m> (<A> <P> <R> <smpre> <smpost>){m} <S> <x0> <b>`
  reply `x1#xk#pv#flags` : `x1` = `cycY` one cycle from `x0` (`stepY` if m = 0), `xk` = `solveY` with maxiter = k and a test
  that never fires, `pv` = `precY` applied to `b`; flags = two 0/1:
    ok   -- `AllOK` (every recorded call is a call for its level matrix; the hypothesis of the theorems); when it fails the
            reply is `notok:<level>:<pre|post>` instead,
    lin  -- (chk = 1) `x1` equals the cycle run with the matrices `Q` obtained by applying each recorded call to the unit
            right-hand sides from a zero guess (what `cycY_affine` / `sm_semLin` imply), else 1.
`c03y_q <r|c> <A> <sm>` : `ok#Q` with `Q` = the `n × n` matrix whose column `k` is the recorded call applied to `(0, e_k)`. -/
namespace PyamgV.Drv.ExtE55
open PyamgV PyamgV.Drv PyamgV.C03Y
open PyamgV.C03 (Cyc)

variable {α : Type} [Add α] [Sub α] [Mul α] [Div α] [OfNat α 0] [OfNat α 1] [DecidableEq α]

/-- how a scalar is read and printed -/
structure Codec (α : Type) where
  rd : String → α
  sh : α → String
  conj : α → α

def ratCodec : Codec Rat := ⟨parseRat, showRat, id⟩
def cratCodec : Codec CRat := ⟨parseCRat, showCRat, CRat.conj⟩

def vecOf (cd : Codec α) (s : String) : List α := (listOf s).map cd.rd
def arrOf (cd : Codec α) (s : String) : Array α := (vecOf cd s).toArray
def matOf (cd : Codec α) (s : String) : Mat α := if s = "-" then [] else (s.splitOn ";").map (vecOf cd)
def showVec (cd : Codec α) (v : List α) : String := sh (v.map cd.sh)
def showM (cd : Codec α) (m : Mat α) : String := if m.isEmpty then "-" else String.intercalate ";" (m.map (showVec cd))

def cycOf (s : String) : Option Cyc :=
  if s = "V" then some .V else if s = "W" then some .W else if s = "F" then some .F else none

def sweepOf? (s : String) : Option K.Sweep :=
  if s = "forward" then some .forward else if s = "backward" then some .backward
  else if s = "symmetric" then some .symmetric else none

def csr (cd : Codec α) (n ap aj ax : String) : K.Csr α := ⟨nat n, parseNats ap, parseNats aj, arrOf cd ax⟩
def bsr (cd : Codec α) (nb bs bp bj bx : String) : K.Bsr α := ⟨nat nb, nat bs, parseNats bp, parseNats bj, arrOf cd bx⟩
def natsL (s : String) : List Nat := (parseNats s).toList

def smOf (cd : Codec α) (tok : String) : Option (Sm α) :=
  match tok.splitOn ":" with
  | ["mat", q] => some (.mat (matOf cd q))
  | ["poly", n, ap, aj, ax, cs, it] => some (.poly (csr cd n ap aj ax) (vecOf cd cs) (nat it))
  | ["bjac", om, nb, bs, bp, bj, bx, dinv, it] => some (.bjac (cd.rd om) (bsr cd nb bs bp bj bx) (arrOf cd dinv) (nat it))
  | ["bgs", nb, bs, bp, bj, bx, dinv, it, sw] => (sweepOf? sw).map (Sm.bgs (bsr cd nb bs bp bj bx) (arrOf cd dinv) (nat it))
  | ["jacne", om, n, ap, aj, ax, it] => some (.jacne (cd.rd om) (csr cd n ap aj ax) (nat it))
  | ["gsne", om, n, ap, aj, ax, it, sw] => (sweepOf? sw).map (Sm.gsne (cd.rd om) (csr cd n ap aj ax) (nat it))
  | ["gsnr", om, n, ap, aj, ax, it, sw] => (sweepOf? sw).map (Sm.gsnr (cd.rd om) (csr cd n ap aj ax) (nat it))
  | ["cfjac", cf, om, n, ap, aj, ax, c, f, it, fit, cit] =>
    some (.cfjac (cf = "1") (cd.rd om) (csr cd n ap aj ax) (natsL c) (natsL f) (nat it) (nat fit) (nat cit))
  | ["schwarz", n, ap, aj, ax, tx, tp, sj, sp, it, sw] =>
    (sweepOf? sw).map (Sm.schwarz (csr cd n ap aj ax) (arrOf cd tx) (parseNats tp) (parseNats sj) (parseNats sp) (nat it))
  | ["gs", om, n, ap, aj, ax, it, sw] => (sweepOf? sw).map (Sm.gs (cd.rd om) (csr cd n ap aj ax) (nat it))
  | ["jac", om, n, ap, aj, ax, it] => some (.jac (cd.rd om) (csr cd n ap aj ax) (nat it))
  | ["bsrgs", om, nb, bs, bp, bj, bx, it, sw] => (sweepOf? sw).map (Sm.bsrgs (cd.rd om) (bsr cd nb bs bp bj bx) (nat it))
  | ["bsrjac", om, nb, bs, bp, bj, bx, it] => some (.bsrjac (cd.rd om) (bsr cd nb bs bp bj bx) (nat it))
  | ["cfbjac", cf, om, nb, bs, bp, bj, bx, dinv, c, f, it, fit, cit] =>
    some (.cfbjac (cf = "1") (cd.rd om) (bsr cd nb bs bp bj bx) (arrOf cd dinv) (natsL c) (natsL f) (nat it) (nat fit) (nat cit))
  | _ => none

def takeLevels (cd : Codec α) : Nat → List String → Option (List (LvlY α) × List String)
  | 0, rest => some ([], rest)
  | m + 1, a :: p :: r :: s1 :: s2 :: rest => do
    let pre ← smOf cd s1
    let post ← smOf cd s2
    let (ls, tl) ← takeLevels cd m rest
    some (⟨matOf cd a, matOf cd p, matOf cd r, pre, post⟩ :: ls, tl)
  | _, _ => none

def unitVec (n k : Nat) : List α := (List.range n).map (fun i => if i = k then 1 else 0)

/-- the matrix whose column `k` is `smoother(A, 0, e_k)` (`n` = number of rows of `A`) -/
def probeQ (conj : α → α) (A : Mat α) (s : Sm α) : Mat α :=
  let n := A.length
  let cols : List (List α) := (List.range n).map (fun k => applySm conj A s (zeros n) (unitVec n k))
  (List.range n).map (fun i => cols.map (fun c => c.getD i 0))

/-- first level / side whose recorded call is not a call for the level matrix -/
def firstBad : Nat → List (LvlY α) → Option String
  | _, [] => none
  | i, L :: rest =>
    if ¬ decide (L.pre.OK L.A) then some s!"notok:{i}:pre"
    else if ¬ decide (L.post.OK L.A) then some s!"notok:{i}:post"
    else firstBad (i + 1) rest

def b01 (b : Bool) : String := if b then "1" else "0"

def run (cd : Codec α) : List String → Option String
  | cs :: cpl :: k :: chk :: m :: rest => do
    let c ← cycOf cs
    let (Ls, tl) ← takeLevels cd (nat m) rest
    match tl with
    | [s, x0s, bs] =>
      match firstBad 0 Ls with
      | some msg => some msg
      | none =>
        let S := matOf cd s
        let x0 := vecOf cd x0s
        let b := vecOf cd bs
        let cpl := nat cpl
        let never : List α → Bool := fun _ => false
        let x1 := stepY cd.conj S c cpl Ls b x0
        let xk := solveY cd.conj S c cpl Ls never (nat k) b x0
        let pv := precY cd.conj S c Ls never b
        let lin := chk != "1" ||
          (let LsM : List (LvlY α) :=
             Ls.map (fun L => ⟨L.A, L.P, L.R, .mat (probeQ cd.conj L.A L.pre), .mat (probeQ cd.conj L.A L.post)⟩)
           decide (x1 = stepY cd.conj S c cpl LsM b x0))
        some (String.intercalate "#" [showVec cd x1, showVec cd xk, showVec cd pv, b01 (decide (AllOK Ls)) ++ b01 lin])
    | _ => none
  | _ => none

def probe (cd : Codec α) (a tok : String) : Option String := do
  let s ← smOf cd tok
  let A := matOf cd a
  some (b01 (decide (s.OK A)) ++ "#" ++ showM cd (probeQ cd.conj A s))

def handle : List String → Option String
  | "c03y_run" :: "r" :: rest => run ratCodec rest
  | "c03y_run" :: "c" :: rest => run cratCodec rest
  | ["c03y_q", "r", a, tok] => probe ratCodec a tok
  | ["c03y_q", "c", a, tok] => probe cratCodec a tok
  | _ => none

end PyamgV.Drv.ExtE55
