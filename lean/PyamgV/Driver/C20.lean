import PyamgV.Driver.Util
import PyamgV.Model.C20Gallery
import PyamgV.Model.C20Read
/-! Driver ops for property C20 (line protocol). Op names are prefixed `c20_`.
Matrices are printed as `r,c,v|r,c,v|...` (raw triples, duplicates add), `-` = none. -/
namespace PyamgV.Drv.C20
open PyamgV PyamgV.Drv

def showTriples (out : List (Nat × Nat × Rat)) : String :=
  if out.isEmpty then "-" else String.intercalate "|" (out.map fun (r, c, v) => s!"{r},{c},{showRat v}")

def showRatL (l : List Rat) : String := sh (l.map showRat)

def parseSpacing (s : String) : Option (Rat × Rat) :=
  match listOf s with
  | [a, b] => some (parseRat a, parseRat b)
  | _ => none

def handle : List String → Option String
  | ["c20_stencil", shape, vals, grid] =>
    some <| match PyamgV.C20.stencilDense ((listOf shape).map nat) ((listOf vals).map parseRat) ((listOf grid).map nat) with
      | .error e => "err:" ++ e
      | .ok out => showTriples out
  | ["c20_stencil_read", shape, vals, grid] =>
    -- proof-side reading `entry` of the model output, row by row
    some <| match PyamgV.C20.stencilDense ((listOf shape).map nat) ((listOf vals).map parseRat) ((listOf grid).map nat) with
      | .error e => "err:" ++ e
      | .ok out =>
        let rows := List.range (((listOf grid).map nat).foldl (· * ·) 1)
        String.intercalate "|" (rows.map fun i => showRatL (rows.map fun j => PyamgV.C20.entry out i j))
  | ["c20_poisson", grid, ty] =>
    some <| match PyamgV.C20.poisson ((listOf grid).map nat) (ty = "FE") with
      | none => "err"
      | some out => showTriples out
  | ["c20_poisson_rowsums", grid, ty] =>
    -- proof-side reading `rowsum` of the model output
    some <| match PyamgV.C20.poisson ((listOf grid).map nat) (ty = "FE") with
      | none => "err"
      | some out => showRatL ((List.range (((listOf grid).map nat).foldl (· * ·) 1)).map fun p => PyamgV.C20.rowsum out p)
  | ["c20_diff2", ty, eps, c, s] =>
    some <| showRatL (PyamgV.C20.diffusion2d (ty = "FE") (parseRat eps) (parseRat c) (parseRat s))
  | ["c20_diff3", epsy, epsz, cphi, sphi, cth, sth, cpsi, spsi] =>
    some <| showRatL (PyamgV.C20.diffusion3dFD (parseRat epsy) (parseRat epsz) (parseRat cphi) (parseRat sphi)
      (parseRat cth) (parseRat sth) (parseRat cpsi) (parseRat spsi))
  | ["c20_q12d", x, y, spacing, e, nu, dir] =>
    some <| match PyamgV.C20.q12d (nat x) (nat y) (parseSpacing spacing) (parseRat e) (parseRat nu) (dir = "1") with
      | none => "err"
      | some r => s!"{r.ndof};{showTriples r.A};" ++ (if r.B.isEmpty then "-" else String.intercalate "|" (r.B.map showRatL))
  | ["c20_q12d_read", x, y, spacing, e, nu, dir] =>
    -- proof-side readings of the model output: all entries (`entry`) and `A B` (`rowdot` on `colOf B m`)
    some <| match PyamgV.C20.q12d (nat x) (nat y) (parseSpacing spacing) (parseRat e) (parseRat nu) (dir = "1") with
      | none => "err"
      | some r =>
        let rows := List.range r.ndof
        let dense := rows.map fun i => showRatL (rows.map fun j => PyamgV.C20.entry r.A i j)
        let ab := (List.range 3).map fun m => showRatL (rows.map fun i => PyamgV.C20.rowdot r.A (PyamgV.C20.colOf r.B m) i)
        String.intercalate "|" dense ++ ";" ++ String.intercalate "|" ab
  | _ => none

end PyamgV.Drv.C20
