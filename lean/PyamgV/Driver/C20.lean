import PyamgV.Driver.Util
/-! Driver ops for property C20 (line protocol). Op names are prefixed `c20_`. -/
namespace PyamgV.Drv.C20
open PyamgV PyamgV.Drv

def handle : List String → Option String
  | _ => none

end PyamgV.Drv.C20
