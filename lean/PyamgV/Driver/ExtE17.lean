import PyamgV.Driver.Util
import PyamgV.Driver.C03
import PyamgV.Driver.C08
import PyamgV.Model.ExtSolvePath
/-! Driver ops of extension task E17 (op names prefixed `ext_e17_`): the composed solve-path models
of Model/ExtSolvePath.lean (theorems in Proofs/ExtSolvePath.lean), run on the hierarchy data of C03.

`ext_e17_solve <cycle V|W|F> <cpl> <maxiter> <tol> <x0given> <hasRes> <hasCb> <retInfo> <A0> <m>
   (<A> <P> <R> <Qpre> <Qpost>){m} <S> <x0> <b>`
  = `SolvePath.solvePyM` (C01's `solvePy` on C03's `cycM`) with the exact residual test
  `‖b − A0 x‖² < tol² ‖b‖²` (`‖b‖ = 0 ↦ 1`); the caller's list, when passed, holds one stale entry.
  reply `x # info|_ # r0²,r1²,…|_ # cb1;cb2;…|- # flag` with flag = 1 iff the returned vector is C03's
  `solveM` with the same test (theorem `solvePyM_x`); `none` if the model does not stop (maxiter = 0).
`ext_e17_precond <the ten arguments of c08_plan> <A0> <m> levels… <S> <v>`
  = `C08.plan tables` followed by `SolvePath.callPrecond` for every accelerator call of the plan;
  reply `raise` or `pv|pv…` (`?` for a call whose cycle string is not V/W/F). -/
namespace PyamgV.Drv.ExtE17
open PyamgV PyamgV.Drv PyamgV.C03 PyamgV.SolvePath

def flag (s : String) : Bool := s = "1"

def showVecs (l : List Vec) : String :=
  if l.isEmpty then "-" else String.intercalate ";" (l.map C03.showVec)

def handle : List String → Option String
  | "ext_e17_solve" :: cs :: cpl :: mx :: tol :: x0g :: hres :: hcb :: ri :: a0 :: m :: rest => do
    let c ← C03.cycOf cs
    let (Ls, tl) ← C03.takeLevels (nat m) rest
    match tl with
    | [s, x0s, bs] =>
      let S := C03.mat s
      let A0 := C03.mat a0
      let b := C03.vec bs
      let x0 : Option Vec := if flag x0g then some (C03.vec x0s) else none
      let resn := resSq A0 b
      let below := belowSq (parseRat tol) (dot b b)
      let res : Option (List Rat) := if flag hres then some [-1] else none
      match solvePyM S c (nat cpl) Ls resn below (nat mx) b x0 res (flag hcb) (flag ri) with
      | none => some "none"
      | some p =>
        let xm := solveM S c (nat cpl) Ls (fun y => below (resn y)) (nat mx) b (x0.getD (zeros b.length))
        some (String.intercalate "#" [C03.showVec p.x,
          (match p.info with | some i => toString i | none => "_"),
          (match p.residuals with | some l => showRats l.toArray | none => "_"),
          showVecs p.cb, C03.b01 (decide (p.x = xm))])
    | _ => none
  | "ext_e17_precond" :: cyc :: sym :: ss :: acc :: tol :: mx :: x0 :: cb :: res :: ri :: a0 :: m :: rest => do
    let r ← C08.parseReq [cyc, sym, ss, acc, tol, mx, x0, cb, res, ri]
    let (Ls, tl) ← C03.takeLevels (nat m) rest
    match tl with
    | [s, vs] =>
      let S := C03.mat s
      let A0 := C03.mat a0
      let v := C03.vec vs
      match PyamgV.C08.plan PyamgV.C08.tables r with
      | .raise _ _ => some "raise"
      | .run _ calls _ _ =>
        some (String.intercalate "|" (calls.map fun cl =>
          match callPrecond S Ls (resSq A0) (belowSq (1 / 1000000000000) 1) cl v with
          | some y => C03.showVec y
          | none => "?"))
    | _ => none
  | _ => none

end PyamgV.Drv.ExtE17
