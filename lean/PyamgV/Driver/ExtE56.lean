import PyamgV.Driver.Util
import PyamgV.Driver.ExtC12ZWrap
import PyamgV.Driver.ExtC12ZMeas
import PyamgV.Driver.ExtC12ZBal

namespace PyamgV.Drv.ExtE56

/-- line-protocol ops of extension E56: the pairwise wrapper (`ExtC12ZWrap`), the Lloyd measure on complex
strength values (`ExtC12ZMeas`), balanced Lloyd every-pass invariant (`ExtC12ZBal`) -/
def handle (ws : List String) : Option String :=
  match ExtC12ZWrap.handle ws with
  | some r => some r
  | none =>
    match ExtC12ZMeas.handle ws with
    | some r => some r
    | none => ExtC12ZBal.handle ws

end PyamgV.Drv.ExtE56
