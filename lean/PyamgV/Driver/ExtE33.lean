import PyamgV.Driver.Util
import PyamgV.Driver.Relax
import PyamgV.Driver.ExtE15
import PyamgV.Model.ExtC09XIndexed
/-! Driver ops of extension task E33 (property C09): `e33_r_*` run the models of Model/ExtC09XIndexed.lean on
`Rat`, `e33_c_*` on Gaussian rationals `CRat`.
* `bjik om nb bs bp bj bx b x dinv idx` — the raw `block_jacobi_indexed` kernel on BSR arrays
* `cfbj cf om fmt n bs ap aj ax b x dinv C F iters fit cit` — `cf_block_jacobi` (`cf = 1`) / `fc_block_jacobi`
  (`cf = 0`); `fmt = bsr`: the arrays are the BSR arrays (`n` = number of block rows), `fmt = csr`: the public
  routine on CSR input (`pubCFBlockJacobi`, conversion by the model)
* `pbjac`, `pbgs`, `pgsnr` — the public `block_jacobi`, `block_gauss_seidel`, `gauss_seidel_nr` on CSR input -/
namespace PyamgV.Drv.ExtE33
open PyamgV PyamgV.K PyamgV.Drv PyamgV.ExtC09X
open PyamgV.Drv.ExtE15 (Sc scR scC mkCsr showO optArr)

section
variable {α : Type} [Add α] [Sub α] [Mul α] [Div α] [OfNat α 0] [OfNat α 1] [DecidableEq α]

def handleG (S : Sc α) : List String → Option String
  | ["bjik", om, nb, bs, bp, bj, bx, b, x, dinv, idx] =>
    some <| S.shw (blockJacobiIndexed (S.parse1 om) ⟨nat nb, nat bs, parseNats bp, parseNats bj, S.parse bx⟩ (S.parse b)
      (S.parse dinv) (parseNats idx).toList (S.parse x))
  | ["cfbj", cf, om, fmt, n, bs, ap, aj, ax, b, x, dinv, cpts, fpts, iters, fit, cit] =>
    some <| showO S <|
      if fmt = "bsr" then
        pyCFBlockJacobi (cf = "1") (S.parse1 om) ⟨nat n, nat bs, parseNats ap, parseNats aj, S.parse ax⟩ (S.parse b)
          (S.parse dinv) (parseNats cpts).toList (parseNats fpts).toList (nat iters) (nat fit) (nat cit) (S.parse x)
      else
        pubCFBlockJacobi (cf = "1") (S.parse1 om) (mkCsr S n ap aj ax) (nat bs) (S.parse b)
          (S.parse dinv) (parseNats cpts).toList (parseNats fpts).toList (nat iters) (nat fit) (nat cit) (S.parse x)
  | ["pbjac", om, n, bs, ap, aj, ax, b, x, dinv, iters] =>
    some <| showO S (pubBlockJacobi (S.parse1 om) (mkCsr S n ap aj ax) (nat bs) (S.parse b) (S.parse dinv) (nat iters) (S.parse x))
  | ["pbgs", n, bs, ap, aj, ax, b, x, dinv, iters, sweep] =>
    some <| showO S (pubBlockGaussSeidel (mkCsr S n ap aj ax) (nat bs) (S.parse b) (S.parse dinv) (nat iters)
      (Relax.sweepOf sweep) (S.parse x))
  | ["pgsnr", om, n, ap, aj, ax, b, x, dinv, iters, sweep] =>
    some <| S.shw (pubGaussSeidelNR S.conj (S.parse1 om) (mkCsr S n ap aj ax) (S.parse b) (optArr S dinv) (nat iters)
      (Relax.sweepOf sweep) (S.parse x))
  | _ => none
end

/-- line-protocol ops of extension E33 -/
def handle : List String → Option String
  | op :: args =>
    if op.startsWith "e33_r_" then handleG scR ((op.drop 6).toString :: args)
    else if op.startsWith "e33_c_" then handleG scC ((op.drop 6).toString :: args)
    else none
  | _ => none

end PyamgV.Drv.ExtE33
