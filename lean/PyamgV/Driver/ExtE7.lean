import PyamgV.Driver.Util
import PyamgV.Driver.C17
import PyamgV.Model.ExtC17Ck
import PyamgV.Model.ExtC17CkBlock
import PyamgV.Model.ExtC17CkInterp
import PyamgV.Model.ExtC17CkTrunc
/-! Driver ops of extension task E7 (property C17; op names prefixed `ext_c17_`): the checked (`Ck`)
models of `Model/ExtC17Ck*.lean`, same output conventions as `Driver/C17.lean` (values, then
`;ok` / `;fault`; `nonterm` when an outer strided loop runs out of fuel). -/
namespace PyamgV.Drv.ExtE7
open PyamgV PyamgV.Drv PyamgV.Ck PyamgV.Drv.C17

def ltR (a b : Rat) : Bool := decide (a < b)
/-- IEEE doubles (bit-exact comparison with the kernel for the interpolation weights, whose divisions are not dyadic) -/
def kOpsF : C17.KOps Float :=
  ⟨(· * ·), (· + ·), (· - ·), (· / ·), 0.0, 1.0, fun q => q == 0.0, Float.abs, fun a b => if a < b then b else a, 0.0, id⟩
/-- `eps` is the double `1e-15` of the C++ source (sent by the harness as a bit pattern) -/
def iOpsF (eps : Float) : C17.IOps Float :=
  ⟨fun a => -a, fun a => a < 0.0, fun a b => Float.abs a > eps * Float.abs b⟩
def showFloats (a : Array Float) : String := sh (a.toList.map (fun x => if x.isNaN then "nan" else toString x.toBits.toNat))
def mkGF (n ap aj ax : String) : Ck.Csr Float := ⟨nat n, parseInts ap, parseInts aj, parseFloats ax⟩
def outPJX (r : Ck (C17.PJX Float)) : String := showInts r.val.1 ++ ";" ++ showFloats r.val.2 ++ flag r.ok
def out1 {σ : Type} (r : Option (Ck σ)) (f : σ → String) : String :=
  match r with
  | none => "nonterm"
  | some r => f r.val ++ flag r.ok

def handle : List String → Option String
  | ["ext_c17_filter_matrix_rows", th, lump, n, ap, aj, ax] =>
    some <| outR (C17.filterRows kOps ltR (parseRat th) (lump == "1") (mkG n ap aj ax))
  | ["ext_c17_remove_strong_FF_connections", n, sp, sj, sx, split] =>
    some <| outR (C17.removeFF kOps (mkG n sp sj sx) (parseInts split))
  | ["ext_c17_incomplete_mat_mult_csr", na, ap, aj, ax, nb, bp, bj, bx, ns, sp, sj, sx] =>
    some <| outR (C17.incompleteMatMult kOps (mkG na ap aj ax) (mkG nb bp bj bx) (mkG ns sp sj sx))
  | ["ext_c17_bsr_gauss_seidel", bs, n, ap, aj, ax, b, x, s0, s1, s2] =>
    let G := mkG n ap aj ax
    some <| out1 (C17.bsrGaussSeidel kOps G (parseRats b) (nat bs) (int s0) (int s1) (int s2) (G.n + 1) (parseRats x))
      (fun st => showRats st.1)
  | ["ext_c17_bsr_jacobi", om, bs, n, ap, aj, ax, b, x, temp, s0, s1, s2] =>
    let G := mkG n ap aj ax
    some <| out1 (C17.bsrJacobi kOps (parseRats om) G (parseRats b) (nat bs) (int s0) (int s1) (int s2) (G.n + 1)
      (parseRats x) (parseRats temp)) (fun st => showRats st.1 ++ ";" ++ showRats st.2.1)
  | ["ext_c17_block_jacobi", om, bs, n, ap, aj, ax, b, dinv, x, temp, s0, s1, s2] =>
    let G := mkG n ap aj ax
    some <| out1 (C17.blockJacobi kOps (parseRats om) G (parseRats b) (parseRats dinv) (nat bs) (int s0) (int s1) (int s2)
      (G.n + 1) (parseRats x) (parseRats temp)) (fun st => showRats st.1 ++ ";" ++ showRats st.2.1)
  | ["ext_c17_block_gauss_seidel", bs, n, ap, aj, ax, b, dinv, x, s0, s1, s2] =>
    let G := mkG n ap aj ax
    some <| out1 (C17.blockGaussSeidel kOps G (parseRats b) (parseRats dinv) (nat bs) (int s0) (int s1) (int s2) (G.n + 1)
      (parseRats x)) (fun st => showRats st.1)
  | ["ext_c17_rs_direct_interpolation_pass2", n, ap, aj, ax, sp, sj, sx, split, pp, pj, px] =>
    some <| outPJX (C17.directPass2 kOpsF (iOpsF 0.0) (mkGF n ap aj ax) (mkGF n sp sj sx) (parseInts split) (parseInts pp)
      (parseInts pj) (parseFloats px))
  | ["ext_c17_rs_classical_interpolation_pass2", md, eps, n, ap, aj, ax, sp, sj, sx, split, pp, pj, px] =>
    some <| outPJX (C17.classicalPass2 kOpsF (iOpsF ((parseFloats eps).getD 0 0.0)) (md == "1") (mkGF n ap aj ax) (mkGF n sp sj sx)
      (parseInts split) (parseInts pp) (parseInts pj) (parseFloats px))
  | ["ext_c17_truncate_rows_csr", k, n, sp, sj, sx] =>
    let r := C17.truncateRows kOps ltR (int k) (mkG n sp sj sx)
    some <| showInts r.val.2 ++ ";" ++ showRats r.val.1 ++ flag r.ok
  | _ => none

end PyamgV.Drv.ExtE7
