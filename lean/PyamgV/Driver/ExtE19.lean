import PyamgV.Driver.Util
import PyamgV.Driver.C17
import PyamgV.Model.ExtC17CkR3Relax
import PyamgV.Model.ExtC17CkR3Split
import PyamgV.Model.ExtC17CkR3Schwarz
import PyamgV.Model.ExtC17CkR3Sa
import PyamgV.Model.ExtC17CkR3Cr
import PyamgV.Model.ExtC17CkR3Misc
import PyamgV.Model.ExtC17CkR3CC
import PyamgV.Model.ExtC17CkR3Interior
/-! Driver ops of extension task E19 (property C17; op names prefixed `ext_c17r3_`): the checked (`Ck`)
models of `Model/ExtC17CkR3*.lean`, same output conventions as `Driver/C17.lean` (values, then
`;ok` / `;fault`; `nonterm` when an outer strided loop runs out of fuel). -/
namespace PyamgV.Drv.ExtE19
open PyamgV PyamgV.Drv PyamgV.Ck PyamgV.Drv.C17

def outI (r : Ck (Array Int)) : String := showInts r.val ++ flag r.ok
def crOps : C17.CrOps Rat := ⟨fun a b => decide (b < a), fun i => (i : Rat)⟩

def handle : List String → Option String
  | ["ext_c17r3_bsr_jacobi_indexed", om, bs, n, ap, aj, ax, b, idx, x] =>
    let r := C17.bsrJacobiIndexed kOps (parseRats om) (mkG n ap aj ax) (parseRats b) (parseInts idx) (nat bs) (parseRats x)
    some <| showRats r.val.1 ++ flag r.ok
  | ["ext_c17r3_block_jacobi_indexed", om, bs, n, ap, aj, ax, b, dinv, idx, x] =>
    let r := C17.blockJacobiIndexed kOps (parseRats om) (mkG n ap aj ax) (parseRats b) (parseRats dinv) (parseInts idx) (nat bs)
      (parseRats x)
    some <| showRats r.val.1 ++ flag r.ok
  | ["ext_c17r3_rs_cf_splitting_pass2", n, sp, sj, split] =>
    some <| outI (C17.rsPass2 (nat n) (parseInts sp) (parseInts sj) (parseInts split))
  | ["ext_c17r3_approx_ideal_restriction_pass1", dist, rp, cp, cj, cpts, split] =>
    some <| outI (C17.airPass1 (parseInts rp) (parseInts cp) (parseInts cj) (parseInts cpts) (parseInts split) (int dist))
  | ["ext_c17r3_extract_subblocks", n, ap, aj, ax, tx, tp, sj, sp, nsd] =>
    some <| outR (C17.extractSubblocks kOps (mkG n ap aj ax) (parseRats tx) (parseInts tp) (parseInts sj) (parseInts sp) (nat nsd))
  | ["ext_c17r3_overlapping_schwarz_csr", n, ap, aj, ax, b, tx, tp, sj, sp, nsd, nrows, x, s0, s1, s2] =>
    match C17.schwarz kOps (mkG n ap aj ax) (parseRats b) (parseRats tx) (parseInts tp) (parseInts sj) (parseInts sp) (nat nsd) (int nrows)
        (int s0) (int s1) (int s2) (nat nsd + 1) (parseRats x) with
    | none => some "nonterm"
    | some r => some <| showRats r.val.1 ++ flag r.ok
  | ["ext_c17r3_satisfy_constraints_helper", rpb, cpb, nd, bt, ub, btbinv, n, sp, sj, sx] =>
    let r := C17.satisfyConstraints kOps (nat rpb) (nat cpb) (nat nd) (parseRats bt) (parseRats ub) (parseRats btbinv) (mkG n sp sj sx)
    some <| showRats r.val.1 ++ flag r.ok
  | ["ext_c17r3_calc_BtB", nd, nnodes, cpb, bsq, bsqcols, x, sp, sj] =>
    let r := C17.calcBtB kOps (nat nd) (nat nnodes) (nat cpb) (parseRats bsq) (int bsqcols) (parseRats x) (parseInts sp) (parseInts sj)
    some <| showRats r.val.1 ++ flag r.ok
  | ["ext_c17r3_incomplete_mat_mult_bsr", na, ap, aj, ax, nb, bp, bj, bx, ns, sp, sj, sx, nbcol, browA, bcolA, bcolB] =>
    let r := C17.incompleteMatMultBsr kOps (mkG na ap aj ax) (mkG nb bp bj bx) (mkG ns sp sj sx) (nat nbcol) (nat browA) (nat bcolA) (nat bcolB)
    some <| showRats r.val.1 ++ flag r.ok
  | ["ext_c17r3_cr_helper", ap, aj, bv, e, idx, split, gamma, th] =>
    let r := C17.crHelper kOps crOps (parseInts ap) (parseInts aj) (parseRats bv) (parseRats e) (parseInts idx) (parseInts split)
      (parseRats gamma) (parseRat th)
    some <| showRats r.val.1 ++ ";" ++ showInts r.val.2.1 ++ ";" ++ showInts r.val.2.2.1 ++ ";" ++ showRats r.val.2.2.2 ++ flag r.ok
  | ["ext_c17r3_apply_householders", bv, n, s0, s1, s2, z] =>
    let B := parseRats bv
    match C17.applyHouseholders kOps B (int n) (int s0) (int s1) (int s2) (B.size + 1) (parseRats z) with
    | none => some "nonterm"
    | some r => some <| showRats r.val.1 ++ flag r.ok
  | ["ext_c17r3_householder_hornerscheme", bv, y, n, s0, s1, s2, z] =>
    let B := parseRats bv
    match C17.hornerScheme kOps B (parseRats y) (int n) (int s0) (int s1) (int s2) (B.size + 1) (parseRats z) with
    | none => some "nonterm"
    | some r => some <| showRats r.val.1 ++ flag r.ok
  | ["ext_c17r3_apply_givens", bv, nrot, x] =>
    some <| outR (C17.applyGivens kOps (parseRats bv) (int nrot) (parseRats x))
  | ["ext_c17r3_floyd_warshall", n, ap, aj, ax, cc, l, m, a, nn, d, pp] =>
    let r := C17.floydWarshall kOps (fun x y => decide (y < x)) (1 / (100000000000000 : Rat)) (mkG n ap aj ax) (parseInts cc) (parseInts l)
      (parseInts m) (int a) (int nn) (parseRats d) (parseInts pp)
    some <| showRats r.val.1 ++ ";" ++ showInts r.val.2 ++ flag r.ok
  | ["ext_c17r3_connected_components", n, ap, aj, comps] =>
    let r := C17.connectedComponents (nat n) (parseInts ap) (parseInts aj) (parseInts comps)
    some <| showInts r.val.1 ++ ";" ++ toString r.val.2 ++ flag r.ok
  | ["ext_c17r3_most_interior_nodes", n, ap, aj, ax, c, d, m, p] =>
    let G : Ck.Csr (Option Rat) := ⟨nat n, parseInts ap, parseInts aj, (parseRats ax).map some⟩
    let r := C17.mostInterior bOps (some 0) none G (G.n + 2) (parseInts c) (parseORats d) (parseInts m) (parseInts p)
    some <| (if r.val.2.2.2.2 then showInts r.val.1.1 ++ ";" ++ (if r.val.1.2 then "1" else "0") ++ ";" ++ showORats r.val.2.1 ++ ";" ++
      showInts r.val.2.2.1 ++ ";" ++ showInts r.val.2.2.2.1 else "nonterm") ++ flag r.ok
  | _ => none

end PyamgV.Drv.ExtE19
