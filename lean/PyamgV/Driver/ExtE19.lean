import PyamgV.Driver.Util
/-! Driver ops of extension task E19 (op names prefixed `ext_`). -/
namespace PyamgV.Drv.ExtE19
open PyamgV PyamgV.Drv

def handle : List String → Option String
  | _ => none

end PyamgV.Drv.ExtE19
