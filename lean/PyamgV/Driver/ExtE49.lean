import PyamgV.Driver.Util
import PyamgV.Model.ExtC11XBlock
import PyamgV.Model.ExtC11XApi
import PyamgV.Model.ExtC11XGmres
/-! Driver ops of extension task E49 (property C11; op names prefixed `ext_c11x_`).

`ext_c11x_bair2 <eps> <bs> <ap> <aj> <ax> <n> <sp> <sj> <cpts> <split> <dist>`
    `block_approx_ideal_restriction_pass2` (`C11XB.bairPass2`): block rows separated by `;`, blocks by `,`,
    a block is `col:v|v|…|v` (row-major); `singular` when a local system has no exact solution
`ext_c11x_bair_sys <bs> <ap> <aj> <ax> <c> <nf>`
    the dense local system of one C-point as the kernel assembles it: `A0;b0` (`C11XB.assembleA0/B0`)
`ext_c11x_inj <A…> <split>` / `ext_c11x_onept <A…> <n> <cp> <cj> <cx> <split> <byval>`
    the wrappers `injection_interpolation` / `one_point_interpolation` (`C11XA.apiInjection/apiOnePoint`);
    `<A…>` = `csr <rows> <cols> <ap> <aj> <ax>` | `csc <rows> <cols> <ap> <ai> <ax>` |
    `bsr <rows> <cols> <br> <bc> <ap> <aj> <ax>`; answer `rows,cols,bs;indptr;indices;data`
`ext_c11x_gmres <A> <b> <maxiter> <precondition>`
    `dense_GMRES` on binary64 (`C11XG.denseGmresFloat`); `A` by rows (`;`), numbers = bit patterns written
    as decimal integers; answer = bit patterns of `x`, then `;` and the stored subdiagonal entries `H[j+1, j]` of the
    run (`C11XG.denseGmresTrace`; a tiny non-zero entry = Krylov space exhausted up to rounding), `bad-size` when the
    shapes do not fit -/
namespace PyamgV.Drv.ExtE49
open PyamgV PyamgV.Drv

def showBRow (r : List (Nat × List Rat)) : String :=
  if r.isEmpty then "-" else
    String.intercalate "," (r.map fun cb => s!"{cb.1}:" ++ String.intercalate "|" (cb.2.map showRat))
def showBRows (rs : List (List (Nat × List Rat))) : String :=
  if rs.isEmpty then "none" else String.intercalate ";" (rs.map showBRow)

def mkPat (n ap aj : String) : N.Csr := ⟨nat n, parseNats ap, parseNats aj, #[]⟩
def mkB (bs ap aj ax : String) : C11XB.BMat := ⟨nat bs, parseNats ap, parseNats aj, parseRats ax⟩

/-- the matrix argument and the remaining tokens -/
def mkIn : List String → Option (C11XA.AIn × List String)
  | "csr" :: r :: c :: ap :: aj :: ax :: rest =>
    some (.csr ⟨nat r, nat c, parseNats ap, parseNats aj, parseRats ax⟩, rest)
  | "csc" :: r :: c :: ap :: ai :: ax :: rest =>
    some (.csc ⟨nat r, nat c, parseNats ap, parseNats ai, parseRats ax⟩, rest)
  | "bsr" :: r :: c :: br :: bc :: ap :: aj :: ax :: rest =>
    some (.bsr ⟨nat r, nat c, nat br, nat bc, parseNats ap, parseNats aj, parseRats ax⟩, rest)
  | _ => none

def showBsr (P : Spmm.Bsr Rat) : String :=
  s!"{P.rows},{P.cols},{P.br};" ++ showNats P.ap ++ ";" ++ showNats P.aj ++ ";" ++ showRats P.ax

def fmat (t : String) : List (List Float) :=
  if t = "-" then [] else (t.splitOn ";").map (fun r => (parseFloats r).toList)

def handle : List String → Option String
  | ["ext_c11x_bair2", eps, bs, ap, aj, ax, n, sp, sj, cpts, split, dist] =>
    some <| match C11XB.bairPass2 (parseRat eps) (mkB bs ap aj ax) (mkPat n sp sj) (parseNats cpts)
        (parseInts split) (nat dist) with
      | some rows => showBRows rows
      | none => "singular"
  | ["ext_c11x_bair_sys", bs, ap, aj, ax, c, nf] =>
    let A := mkB bs ap aj ax
    let nfl := (parseNats nf).toList
    some <| showRats (C11XB.assembleA0 A nfl) ++ ";" ++ showRats (C11XB.assembleB0 A (nat c) nfl)
  | "ext_c11x_inj" :: rest =>
    match mkIn rest with
    | some (a, [split]) => some (showBsr (C11XA.apiInjection a (parseInts split)))
    | _ => none
  | "ext_c11x_onept" :: rest =>
    match mkIn rest with
    | some (a, [n, cp, cj, cx, split, bv]) =>
      some (showBsr (C11XA.apiOnePoint a ⟨nat n, parseNats cp, parseNats cj, parseRats cx⟩ (parseInts split) (bv == "1")))
    | _ => none
  | ["ext_c11x_gmres", a, b, maxiter, pc] =>
    some <| match C11XG.denseGmresFloat (fmat a) (parseFloats b).toList (nat maxiter) (pc == "1") with
      | some x => sh (x.map fun f => toString f.toBits.toNat) ++ ";" ++
          sh ((C11XG.denseGmresTraceFloat (fmat a) (parseFloats b).toList (nat maxiter) (pc == "1")).map
            fun f => toString f.toBits.toNat)
      | none => "bad-size"
  | _ => none

end PyamgV.Drv.ExtE49
