import PyamgV.Driver.Util

namespace PyamgV.Drv.ExtE42

/-- line-protocol ops of extension E42 (filled in by the extension) -/
def handle : List String → Option String
  | _ => none

end PyamgV.Drv.ExtE42
