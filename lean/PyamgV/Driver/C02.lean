import PyamgV.Driver.Util
/-! Driver ops for property C02 (line protocol). Op names are prefixed `c02_`. -/
namespace PyamgV.Drv.C02
open PyamgV PyamgV.Drv

def handle : List String → Option String
  | _ => none

end PyamgV.Drv.C02
