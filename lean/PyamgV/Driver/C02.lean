import PyamgV.Driver.Util
import PyamgV.Model.C02Cycle
/-! Driver ops for property C02 (line protocol). Op names are prefixed `c02_`.

* `c02_energy_le n ap aj ax e e'`            -> `true|false` : `e'ᵀ A e' ≤ eᵀ A e` in exact arithmetic
* `c02_functional_le n ap aj ax b x x'`      -> `true|false` : `J(x') ≤ J(x)`, `J(x) = xᵀAx − 2bᵀx`
* `c02_cycle cyc cpl n ap aj ax x b k (nr nc ap aj ax pre post)*k`
      -> `x' # symmetric # J(x') ≤ J(x) # coarsest matrix # pivots positive # data hypotheses` (numbers as integers `⌊q·2¹²⁰⌋`) : one cycle of the model on the hierarchy
         it builds exactly from `A₀` and the `P`s (`R = Pᵀ`, Galerkin products, exact coarse solve);
         `singular` when the coarsest matrix has no inverse.
  Smoother tokens: `none`, `gs:ω:sweep:iters`, `jac:ω:iters`. -/
namespace PyamgV.Drv.C02
open PyamgV PyamgV.Drv PyamgV.K PyamgV.C02

def mkR (n ap aj ax : String) : Csr Rat := ⟨nat n, parseNats ap, parseNats aj, parseRats ax⟩

def parseSm (s : String) : Option (Sm Rat) :=
  match s.splitOn ":" with
  | ["none"] => some .none
  | ["gs", om, sw, it] =>
    let sweep := if sw = "backward" then Sweep.backward else if sw = "symmetric" then Sweep.symmetric else Sweep.forward
    (parseRat? om).map (fun ω => Sm.gs ω sweep (nat it))
  | ["jac", om, it] => (parseRat? om).map (fun ω => Sm.jac ω (nat it))
  | _ => none

def parseCyc (s : String) : Option Cyc :=
  if s = "V" then some .V else if s = "W" then some .W else if s = "F" then some .F else none

def parseLevels : Nat → List String → Option (List (PSpec Rat))
  | 0, [] => some []
  | k + 1, nr :: nc :: ap :: aj :: ax :: pre :: post :: rest => do
    let p ← parseSm pre
    let q ← parseSm post
    let tl ← parseLevels k rest
    some (⟨nat nr, nat nc, mkR nr ap aj ax, p, q⟩ :: tl)
  | _, _ => none

/-- results are reported rounded down to multiples of 2⁻¹²⁰ (the exact numbers have thousands of
digits); the exact comparisons are made before rounding -/
def scale : Rat := (2 : Rat) ^ 120
def showApprox (q : Rat) : String := toString (q * scale).floor
def showApproxs (a : Array Rat) : String := sh (a.toList.map showApprox)
def showApproxMat (m : Array (Array Rat)) : String :=
  if m.isEmpty then "-" else String.intercalate ";" (m.toList.map showApproxs)

def showB (b : Bool) : String := if b then "true" else "false"

def runCycle (c : Cyc) (cpl : Nat) (A0 : Csr Rat) (x b : Array Rat) (specs : List (PSpec Rat)) : String :=
  let (ls, Ac, _) := mkHierarchy A0 specs
  -- the direct coarse solve: elimination once per call of the coarse solver
  match gaussSolve Ac (zeros Ac.size) with
  | none => "singular"
  | some _ =>
    let solve : Array Rat → Array Rat := fun rhs => (gaussSolve Ac rhs).getD (zeros rhs.size)
    let x' := cycle solve c cpl ls x b
    showApproxs x' ++ "#" ++ showB (isSymmetric A0) ++ "#" ++ showB (functionalLe A0 b x x') ++ "#" ++ showApproxMat Ac
      ++ "#" ++ showB (pivotsPositive (toDense A0 A0.n)) ++ "#" ++ showB (checkLevels Ac Ac.size ls)

def handle : List String → Option String
  | ["c02_energy_le", n, ap, aj, ax, e, e'] =>
    some <| showB (energyLe (mkR n ap aj ax) (parseRats e) (parseRats e'))
  | ["c02_functional_le", n, ap, aj, ax, b, x, x'] =>
    some <| showB (functionalLe (mkR n ap aj ax) (parseRats b) (parseRats x) (parseRats x'))
  | "c02_cycle" :: cyc :: cpl :: n :: ap :: aj :: ax :: x :: b :: k :: rest =>
    match parseCyc cyc, parseLevels (nat k) rest with
    | some c, some specs => some <| runCycle c (nat cpl) (mkR n ap aj ax) (parseRats x) (parseRats b) specs
    | _, _ => some "bad-request"
  | _ => none

end PyamgV.Drv.C02
