import PyamgV.Driver.Util
import PyamgV.Model.ExtC12ZMeas
/-! Driver ops of extension task E56, part 3: the Lloyd measure on complex values / stored zeros (C12).

* `ext_c12z_lloyd_agg measure ratio n ap aj ax perm maxiter` (`ax`: `re|im` entries)
     -> `indptr;indices;data;centres` | `ValueError` | `unmodelled` | `diverges`
* `ext_c12z_measure measure ax` -> the measured data (`inf` for `+inf`) | `unmodelled` -/
namespace PyamgV.Drv.ExtC12ZMeas
open PyamgV PyamgV.Drv

def showAgg (t : Array Nat × Array Nat × Array Int) : String :=
  showNats t.1 ++ ";" ++ showNats t.2.1 ++ ";" ++ showInts t.2.2

def handle : List String → Option String
  | ["ext_c12z_lloyd_agg", measure, ratio, n, ap, aj, ax, perm, maxiter] =>
    some <| match C12ZM.lloydAggregationQ (nat n) (parseNats ap) (parseNats aj) (parseCRats ax) measure
        (parseRat ratio) (parseInts perm) (nat maxiter) with
      | .error e => e
      | .ok none => "diverges"
      | .ok (some (agg, ce)) => showAgg agg ++ ";" ++ showNats ce
  | ["ext_c12z_measure", measure, ax] =>
    some <| match C12ZM.applyMeasureC C14.sqrtQ? measure (parseCRats ax) with
      | none => "unmodelled"
      | some w => showORats w
  | _ => none

end PyamgV.Drv.ExtC12ZMeas
