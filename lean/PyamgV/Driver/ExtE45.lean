import PyamgV.Driver.Util
import PyamgV.Model.C20Gallery
import PyamgV.Model.C20Read
import PyamgV.Model.ExtC20Spec
import PyamgV.Model.ExtC20CompIdx
/-! Driver ops of extension task E45 (property C20; op names prefixed `c20e45_`): the numbering of the closed-form
eigenpairs used by the completeness theorems (`tuplesQ`, proved equal to `Comp.tuples`), and — on the grids all of
whose Chebyshev roots are rational (extents 1 and 2) — the exact spectral reconstruction
`Σ_m lam_m V_m(i) V_m(j) / ‖V_m‖²` from the closed-form eigenpairs (`chebUQ`, `tvecQ`, `eigQ`), which equals the
matrix iff the pairs are a complete orthogonal eigen-system (theorems `poisson_tensor_complete`,
`poisson_fd/fe_orthobasis`). -/
namespace PyamgV.Drv.ExtE45
open PyamgV PyamgV.Drv

/-- `cos(k π/(g+1))` when it is rational -/
def rootQ (g k : Nat) : Option Rat :=
  if 2 * k = g + 1 then some 0
  else if 3 * k = g + 1 then some (1 / 2)
  else if 3 * k = 2 * (g + 1) then some (-1 / 2)
  else none

def rootsQ : List Nat → List Nat → Option (List Rat)
  | [], [] => some []
  | g :: gs, k :: ks => do
    let c ← rootQ g k
    let cs ← rootsQ gs ks
    pure (c :: cs)
  | _, _ => none

def showRatL (l : List Rat) : String := sh (l.map showRat)

def handle : List String → Option String
  | ["c20e45_tuples", grid] =>
    -- all index tuples in the order of their numbers, `|`-separated
    let g := (listOf grid).map nat
    some <| String.intercalate "|" ((PyamgV.C20.tuplesQ g).map fun ks => sh (ks.map toString))
  | ["c20e45_recon", grid, ty] =>
    -- eigenvalues ; rows of `Σ_m lam_m V_m V_mᵀ / ‖V_m‖²` (`|`-separated) ; rows of `Σ_m V_m V_mᵀ / ‖V_m‖²` ;
    -- flag: roots are roots, the pairs are eigenpairs of the model, pairwise orthogonal
    let g := (listOf grid).map nat
    let fe := ty = "FE"
    some <| match PyamgV.C20.poisson g fe with
      | none => "err"
      | some T =>
        let n := g.foldl (· * ·) 1
        match (PyamgV.C20.tuplesQ g).mapM (fun ks => rootsQ g ks) with
        | none => "irrational"
        | some css =>
          let rng := List.range n
          let vs : List (List Rat) := css.map fun cs => rng.map (PyamgV.C20.tvecQ g (cs.map PyamgV.C20.chebUQ))
          let lams := css.map (PyamgV.C20.eigQ fe)
          let dot (a b : List Rat) : Rat := ((List.zip a b).map fun (x, y) => x * y).foldl (· + ·) 0
          let rootsOk := css.all fun cs => (List.zip g cs).all fun (gi, ci) => PyamgV.C20.chebUQ ci gi = 0
          let eigOk := (List.zip (List.zip css vs) lams).all fun ((cs, v), lam) =>
            rng.all fun p =>
              PyamgV.C20.rowdot T (PyamgV.C20.tvecQ g (cs.map PyamgV.C20.chebUQ)) p = lam * v.getD p 0
          let orthOk := (List.range vs.length).all fun a => (List.range vs.length).all fun b =>
            a = b ∨ dot (vs.getD a []) (vs.getD b []) = 0
          let nzOk := vs.all fun v => dot v v ≠ 0
          let rec_ (w : List Rat) : String :=
            String.intercalate "|" (rng.map fun i => showRatL (rng.map fun j =>
              ((List.zip vs w).map fun (v, c) => c * v.getD i 0 * v.getD j 0 / dot v v).foldl (· + ·) 0))
          showRatL lams ++ ";" ++ rec_ lams ++ ";" ++ rec_ (lams.map fun _ => 1) ++ ";" ++
            (if rootsOk ∧ eigOk ∧ orthOk ∧ nzOk then "1" else "0")
  | _ => none

end PyamgV.Drv.ExtE45
