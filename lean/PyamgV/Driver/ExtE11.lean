import PyamgV.Driver.Util
import PyamgV.Model.ExtC07Restart
import PyamgV.Model.ExtC07Hh
/-! Driver ops of extension task E11 (property C07; op names prefixed `ext_`).  All numbers are binary64 bit
patterns written as decimal integers; matrices: rows separated by `;`; the answer is `<x_1;…;x_m>` (the iterates
the model hands to `callback`), `-` for none, `bad-size` when the shapes do not fit.

`ext_gmres_restart <A> <M> <b> <x0> <restart> <cycles>`  restarted GMRES(MGS) (`Model/ExtC07Restart.lean`)
`ext_fgmres <A> <M_0|M_1|…> <b> <x0> <k>`   one FGMRES cycle, preconditioner `M_(j mod count)` in inner
                                              iteration `j` (`Model/ExtC07Hh.lean`)
`ext_gmres_hh <A> <M> <b> <x0> <k>`          one cycle of GMRES with Householder orthogonalisation -/
namespace PyamgV.Drv.ExtE11
open PyamgV PyamgV.Drv PyamgV.C07

def fmat (t : String) : List (List Float) :=
  if t = "-" then [] else (t.splitOn ";").map (fun r => (parseFloats r).toList)

def showIts : Option (List (List Float)) → String
  | none => "bad-size"
  | some xs => if xs.isEmpty then "-" else
      String.intercalate ";" (xs.map fun v => sh (v.map fun f => toString f.toBits.toNat))

def handle : List String → Option String
  | ["ext_gmres_restart", a, m, b, x0, r, c] =>
    some (showIts (gmresRestartFloat (fmat a) (fmat m) (parseFloats b).toList (parseFloats x0).toList (nat r) (nat c)))
  | ["ext_fgmres", a, ms, b, x0, k] =>
    some (showIts (fgmresFloat (fmat a) ((ms.splitOn "|").map fmat) (parseFloats b).toList (parseFloats x0).toList (nat k)))
  | ["ext_gmres_hh", a, m, b, x0, k] =>
    some (showIts (gmresHhFloat (fmat a) (fmat m) (parseFloats b).toList (parseFloats x0).toList (nat k)))
  | _ => none

end PyamgV.Drv.ExtE11
