import PyamgV.Driver.Util
import PyamgV.Driver.C19
import PyamgV.Model.ExtC19Coo
/-! Driver ops of extension task E26 (op names prefixed `ext_`).

`ext_c19_cooscale <r|c> <rows|cols> n row col data v`: the fallback branch of `scale_rows` /
`scale_columns` on a COO matrix with `n` rows (`cooScale`, Model/ExtC19Coo.lean); reply `ptr;idx;data`
of the scaled canonical CSR matrix. -/
namespace PyamgV.Drv.ExtE26
open PyamgV PyamgV.Drv PyamgV.C19 PyamgV.Drv.C19

section
variable {α : Type} [Add α] [Sub α] [Mul α] [Div α] [OfNat α 0] [OfNat α 1] [DecidableEq α]

def run (s : Sc α) : List String → Option String
  | ["cooscale", which, n, row, col, ax, v] =>
    let r := parseNats row
    let c := parseNats col
    let x := s.parse ax
    let coo : Coo α := (List.range r.size).map fun k => (r.getD k 0, c.getD k 0, x.getD k 0)
    some (showRows s (cooScale (which = "rows") (s.parse v) (nat n) coo))
  | _ => none
end

def handle : List String → Option String
  | op :: "r" :: rest => if op.startsWith "ext_c19_" then run scR ((op.drop 8).toString :: rest) else none
  | op :: "c" :: rest => if op.startsWith "ext_c19_" then run scC ((op.drop 8).toString :: rest) else none
  | _ => none

end PyamgV.Drv.ExtE26
