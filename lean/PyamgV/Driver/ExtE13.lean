import PyamgV.Driver.Util
import PyamgV.Proofs.C04Loop
import PyamgV.Proofs.ExtC04Steps
/-! Driver ops of extension task E13 (op names prefixed `ext_`): the step guards of the five
constructors (`Model/ExtC04Steps.lean`) and the loop `Coarsen.build` instantiated with them.

Step input token `<in>` per constructor: `rs` = splitting as a string of `0`/`1` (`-` = empty);
`air` = `<nnz>:<splitting>`; `sa` = `<AggOp.shape[1]>:<B.shape[1]>`; `rn` = `<AggOp.shape[1]>`;
`pw` = `<P.shape[0]>:<P.shape[1]>`.

* `ext_c04_step <rs|air|sa|rn|pw> <level index> <rows> <blocksize> <in>`: one call of
  `_extend_hierarchy`; reply `stall`, `proceed <rows> <blocksize>` or `error:<why>`
* `ext_c04_build <ctor> <max_levels> <max_coarse> <rows0> <blocksize0> <in_0> <in_1> ...`: the loop
  (`ExtC04.buildC` = `Coarsen.build` with `extend (tableOracle ..)`) with the effective limits, one
  `<in_k>` per call observed on the real run; reply `rows;blocksizes;reason;calls` -/
namespace PyamgV.Drv.ExtE13
open PyamgV PyamgV.Drv PyamgV.ExtC04

def parseBits (s : String) : Option (List Bool) :=
  if s = "-" then some [] else
  s.toList.mapM fun ch => if ch = '1' then some true else if ch = '0' then some false else none

def parseIn (c s : String) : Option StepIn :=
  match c, s.splitOn ":" with
  | "rs", [b] => (parseBits b).map .rs
  | "air", [n, b] => do
    let n ← n.toNat?
    let b ← parseBits b
    some (.air n b)
  | "sa", [a, k] => do
    let a ← a.toNat?
    let k ← k.toNat?
    some (.sa a k)
  | "rn", [a] => a.toNat?.map .rn
  | "pw", [r, k] => do
    let r ← r.toNat?
    let k ← k.toNat?
    some (.pw r k)
  | _, _ => none

def blockwiseOf (c : String) : Option Bool :=
  if c = "rs" ∨ c = "air" then some false
  else if c = "sa" ∨ c = "rn" ∨ c = "pw" then some true else none

def showOutcome : Outcome → String
  | .stall => "stall"
  | .proceed r b => s!"proceed {r} {b}"
  | .error m => "error:" ++ m

def handle : List String → Option String
  | ["ext_c04_step", c, idx, rows, bs, inp] =>
    match idx.toNat?, rows.toNat?, bs.toNat?, parseIn c inp with
    | some idx, some rows, some bs, some i => some (showOutcome (step ⟨idx, rows, bs⟩ i))
    | _, _, _, _ => some "error:parse"
  | "ext_c04_build" :: c :: ml :: mc :: r0 :: b0 :: ins =>
    match ml.toNat?, mc.toNat?, r0.toNat?, b0.toNat?, ins.mapM (parseIn c), blockwiseOf c with
    | some ml, some mc, some r0, some b0, some tbl, some bw =>
      if ml = 0 then some "error:max_levels" else
      match buildC bw (tableOracle tbl.toArray) ml mc ml ⟨0, r0, b0⟩ with
      | [] => some "error:empty"
      | last :: rest =>
        let lv := (last :: rest).reverse
        let stop := C04.stopOf ml mc (rest.length + 1) (nodes bw last)
        some (showNats (lv.map (·.rows)).toArray ++ ";" ++ showNats (lv.map (·.bs)).toArray ++ ";" ++
          C04.stopName stop ++ ";" ++ toString (rest.length + C04.extraCall stop))
    | _, _, _, _, _, _ => some "error:parse"
  | _ => none

end PyamgV.Drv.ExtE13
