import PyamgV.Driver.Util
import PyamgV.Model.C03Cyc
/-! Driver ops for property C03 (line protocol). Op names are prefixed `c03_`.

`c03_run <cycle V|W|F> <cpl> <k> <wantM 0|1> <m> (<A> <P> <R> <Qpre> <Qpost>){m} <S> <x0> <b>`
  m = number of non-coarsest levels (0 = one-level hierarchy), matrices as rows `;`-separated.
  reply (parts separated by `#`):
    x1    = one cycle from x0            (`cycT`, the instrumented model of `__solve`; `stepM` if m = 0)
    xk    = `solveM` with maxiter = k and a residual test that never fires
    pv    = `precM` applied to b         (model of `aspreconditioner(cycle) @ b`)
    trace = order of smoother / coarse-solver calls of the one cycle (`pre l`, `post l`, `c`)
    M     = `mopM` (the textbook operator of this cycle type and cpl as a matrix; `-` if wantM = 0)
    flags = three 0/1: x1 = cycM result; x1 = x0 + M (b − A x0) exactly; trace = traceM
`c03_trace <cycle> <cpl> <m>` : `traceM` alone. -/
namespace PyamgV.Drv.C03
open PyamgV PyamgV.Drv PyamgV.C03

def cycOf (s : String) : Option Cyc :=
  if s = "V" then some .V else if s = "W" then some .W else if s = "F" then some .F else none

def mat (s : String) : Mat := (parseMat s).toList.map (·.toList)
def vec (s : String) : Vec := (parseRats s).toList
def showVec (v : Vec) : String := showRats v.toArray
def showM (m : Mat) : String := showMat (m.map (·.toArray)).toArray

def showEv : Ev → String
  | .pre l => s!"pre{l}"
  | .post l => s!"post{l}"
  | .coarse => "c"
def showTrace (t : List Ev) : String := sh (t.map showEv)

def takeLevels : Nat → List String → Option (List Lvl × List String)
  | 0, rest => some ([], rest)
  | m + 1, a :: p :: r :: q1 :: q2 :: rest =>
    (takeLevels m rest).map fun (ls, tl) => (⟨mat a, mat p, mat r, mat q1, mat q2⟩ :: ls, tl)
  | _, _ => none

def b01 (b : Bool) : String := if b then "1" else "0"

def handle : List String → Option String
  | "c03_run" :: cs :: cpl :: k :: wantM :: m :: rest => do
    let c ← cycOf cs
    let (Ls, tl) ← takeLevels (nat m) rest
    match tl with
    | [s, x0s, bs] =>
      let S := mat s
      let x0 := vec x0s
      let b := vec bs
      let cpl := nat cpl
      let never : Vec → Bool := fun _ => false
      let (x1, tr) : Vec × List Ev := match Ls with
        | [] => (stepM S c cpl [] b x0, [Ev.coarse])
        | _ :: _ => cycT S c cpl 0 Ls x0 b
      let xref := stepM S c cpl Ls b x0
      let xk := solveM S c cpl Ls never (nat k) b x0
      let pv := precM S c Ls never b
      let M : Mat := if wantM = "1" then mopM S c cpl Ls else []
      let A0 : Mat := match Ls with | [] => [] | L :: _ => L.A
      let aff := match Ls with
        | [] => true
        | _ :: _ => wantM != "1" || decide (x1 = vadd x0 (matVec M (vsub b (matVec A0 x0))))
      let trOk := match Ls with
        | [] => true
        | _ :: _ => decide (tr = traceM c cpl 0 Ls.length)
      some (String.intercalate "#" [showVec x1, showVec xk, showVec pv, showTrace tr, showM M,
        b01 (decide (x1 = xref)) ++ b01 aff ++ b01 trOk])
    | _ => none
  | ["c03_trace", cs, cpl, m] => do
    let c ← cycOf cs
    some (showTrace (traceM c (nat cpl) 0 (nat m)))
  | _ => none

end PyamgV.Drv.C03
