import PyamgV.Driver.Util
/-! Driver ops for property C03 (line protocol). Op names are prefixed `c03_`. -/
namespace PyamgV.Drv.C03
open PyamgV PyamgV.Drv

def handle : List String → Option String
  | _ => none

end PyamgV.Drv.C03
