import PyamgV.Driver.Util
import PyamgV.Driver.C17
import PyamgV.Model.ExtC17R4Graph
import PyamgV.Model.ExtC17R4Pairwise
import PyamgV.Model.ExtC17R4Cljp
import PyamgV.Model.ExtC17R4Fit
import PyamgV.Driver.ExtE7
/-! Driver ops of extension task E32 (property C17, round 4; op names prefixed `ext_c17r4_`): the checked
(`Ck`) models of `Model/ExtC17R4*.lean`, same output conventions as `Driver/C17.lean` (values, then
`;ok` / `;fault`; `nonterm` when an outer loop runs out of fuel). -/
namespace PyamgV.Drv.ExtE32
open PyamgV PyamgV.Drv PyamgV.Ck PyamgV.Drv.C17

def wOps : C17R4.WOps Rat := ⟨fun a b => decide (b < a), fun a b => decide (a = b), fun a i => a + (i : Rat), fun i => (i : Rat)⟩

/-- `>=` and `std::numeric_limits<double>::lowest()` -/
def pwOps : C17R4.PwOps Rat := ⟨fun a b => decide (b ≤ a), -bigR⟩

/-- IEEE doubles: `double(c)/double(ncolors)`, `w++`, `w--`, `a > b`, `w < 1` -/
def cjOpsF : C17R4.CjOps Float := ⟨fun c nc => Float.ofInt c / Float.ofInt nc, fun w => w + 1.0, fun w => w - 1.0, fun a b => a > b, fun w => w < 1.0⟩

/-- `fit_candidates_real<int, double>`: `norm(a) = a*a`, `dot(a, b) = b*a` -/
def fitOpsF : C17R4.FitOps Float := ⟨(· + ·), (· - ·), (· * ·), (· / ·), 0.0, 1.0, fun a => a * a, fun a b => b * a, Float.sqrt, fun a b => a > b⟩

def handle : List String → Option String
  | ["ext_c17r4_vertex_coloring_mis", n, ap, aj, x] =>
    let r := C17R4.vertexColoringMis (nat n) (parseInts ap) (parseInts aj) (parseInts x)
    some <| showInts r.val.1 ++ ";" ++ toString r.val.2 ++ flag r.ok
  | ["ext_c17r4_maximal_independent_set_parallel", n, ap, aj, act, c, f, x, y, mi] =>
    match C17R4.misParallel wOps (nat n) (parseInts ap) (parseInts aj) (int act) (int c) (int f) (parseInts x) (parseRats y) (int mi) (nat n + 2) with
    | none => some "nonterm"
    | some r => some <| showInts r.val.1 ++ ";" ++ toString r.val.2 ++ flag r.ok
  | ["ext_c17r4_vertex_coloring_jones_plassmann", n, ap, aj, x, z] =>
    match C17R4.vertexColoringJP wOps (nat n) (parseInts ap) (parseInts aj) (parseInts x) (parseRats z) (nat n + 1) with
    | none => some "nonterm"
    | some r => some <| showInts r.val.1 ++ ";" ++ showRats r.val.2.1 ++ ";" ++ toString r.val.2.2 ++ flag r.ok
  | ["ext_c17r4_vertex_coloring_LDF", n, ap, aj, x, y] =>
    match C17R4.vertexColoringLDF wOps (nat n) (parseInts ap) (parseInts aj) (parseInts x) (parseRats y) (nat n + 1) with
    | none => some "nonterm"
    | some r => some <| showInts r.val.1 ++ ";" ++ toString r.val.2 ++ flag r.ok
  | ["ext_c17r4_maximal_independent_set_k_parallel", n, ap, aj, k, x, y, mi] =>
    match C17R4.misKParallel wOps (nat n) (parseInts ap) (parseInts aj) (int k) (parseInts x) (parseRats y) (int mi) (nat n + 2) with
    | none => some "nonterm"
    | some r => some <| showInts r.val ++ flag r.ok
  | ["ext_c17r4_pairwise_aggregation", n, ap, aj, ax, x, y] =>
    let r := C17R4.pairwiseAgg pwOps (nat n) (parseInts ap) (parseInts aj) (parseRats ax) (parseInts x) (parseInts y)
    some <| showInts r.val.1 ++ ";" ++ showInts r.val.2.1 ++ ";" ++ toString r.val.2.2 ++ flag r.ok
  | ["ext_c17r4_cljp_naive_splitting", n, sp, sj, tp, tj, spl, cf, rnd] =>
    match C17R4.cljp cjOpsF 0.0 (nat n) (parseInts sp) (parseInts sj) (parseInts tp) (parseInts tj) (parseInts spl) (int cf) (parseFloats rnd) (nat n + 1) with
    | none => some "nonterm"
    | some r => some <| showInts r.val ++ flag r.ok
  | ["ext_c17r4_fit_candidates", ncol, k1, k2, ap, ai, ax, b, r, tol] =>
    let res := C17R4.fitCandidates fitOpsF ((parseFloats tol).getD 0 0.0) (nat ncol) (int k1) (int k2) (parseInts ap) (parseInts ai) (parseFloats ax)
      (parseFloats b) (parseFloats r)
    some <| ExtE7.showFloats res.val.1 ++ ";" ++ ExtE7.showFloats res.val.2 ++ flag res.ok
  | _ => none

end PyamgV.Drv.ExtE32
