import PyamgV.Driver.Util
import PyamgV.Driver.C17
import PyamgV.Model.ExtC17R4Graph
import PyamgV.Model.ExtC17R4Pairwise
import PyamgV.Model.ExtC17R4Cljp
import PyamgV.Model.ExtC17R4Fit
import PyamgV.Model.ExtC17R4Svd
import PyamgV.Model.ExtC17R4Evo
import PyamgV.Model.ExtC17R4Air
import PyamgV.Model.ExtC17R4AirB
import PyamgV.Driver.ExtE7
/-! Driver ops of extension task E32 (property C17, round 4; op names prefixed `ext_c17r4_`): the checked
(`Ck`) models of `Model/ExtC17R4*.lean`, same output conventions as `Driver/C17.lean` (values, then
`;ok` / `;fault`; `nonterm` when an outer loop runs out of fuel). -/
namespace PyamgV.Drv.ExtE32
open PyamgV PyamgV.Drv PyamgV.Ck PyamgV.Drv.C17

def wOps : C17R4.WOps Rat := ⟨fun a b => decide (b < a), fun a b => decide (a = b), fun a i => a + (i : Rat), fun i => (i : Rat)⟩

/-- `>=` and `std::numeric_limits<double>::lowest()` -/
def pwOps : C17R4.PwOps Rat := ⟨fun a b => decide (b ≤ a), -bigR⟩

/-- IEEE doubles: `double(c)/double(ncolors)`, `w++`, `w--`, `a > b`, `w < 1` -/
def cjOpsF : C17R4.CjOps Float := ⟨fun c nc => Float.ofInt c / Float.ofInt nc, fun w => w + 1.0, fun w => w - 1.0, fun a b => a > b, fun w => w < 1.0⟩

/-- `fit_candidates_real<int, double>`: `norm(a) = a*a`, `dot(a, b) = b*a` -/
def fitOpsF : C17R4.FitOps Float := ⟨(· + ·), (· - ·), (· * ·), (· / ·), 0.0, 1.0, fun a => a * a, fun a b => b * a, Float.sqrt, fun a b => a > b⟩

/-- IEEE doubles for the dense helpers of linalg.h (`T = F = double`) -/
def svOpsF : C17R4.SvOps Float :=
  { add := (· + ·), sub := (· - ·), mul := (· * ·), div := (· / ·), neg := fun a => -a, conj := id, re := id, nrm := Float.abs,
    sqrt := Float.sqrt, abs := Float.abs, sgn := fun a => if a < 0.0 then -1.0 else 1.0, zero := 0.0, one := 1.0, two := 2.0,
    fifty := 50.0, eps := Float.ofScientific 2220446049250313 true 31, ofInt := Float.ofInt, lt := fun a b => a < b,
    le := fun a b => a ≤ b, eq := fun a b => a == b }

def esOpsF : C17R4.EsOps Float := ⟨svOpsF, fun _ => 0.0, fun _ => 0.0, id, fun a => a * a, 1e-8, 1e-4⟩

def airOpsF : C17R4.AirOps Float := ⟨svOpsF, 1e-12⟩

def handle : List String → Option String
  | ["ext_c17r4_vertex_coloring_mis", n, ap, aj, x] =>
    let r := C17R4.vertexColoringMis (nat n) (parseInts ap) (parseInts aj) (parseInts x)
    some <| showInts r.val.1 ++ ";" ++ toString r.val.2 ++ flag r.ok
  | ["ext_c17r4_maximal_independent_set_parallel", n, ap, aj, act, c, f, x, y, mi] =>
    match C17R4.misParallel wOps (nat n) (parseInts ap) (parseInts aj) (int act) (int c) (int f) (parseInts x) (parseRats y) (int mi) (nat n + 2) with
    | none => some "nonterm"
    | some r => some <| showInts r.val.1 ++ ";" ++ toString r.val.2 ++ flag r.ok
  | ["ext_c17r4_vertex_coloring_jones_plassmann", n, ap, aj, x, z] =>
    match C17R4.vertexColoringJP wOps (nat n) (parseInts ap) (parseInts aj) (parseInts x) (parseRats z) (nat n + 1) with
    | none => some "nonterm"
    | some r => some <| showInts r.val.1 ++ ";" ++ showRats r.val.2.1 ++ ";" ++ toString r.val.2.2 ++ flag r.ok
  | ["ext_c17r4_vertex_coloring_LDF", n, ap, aj, x, y] =>
    match C17R4.vertexColoringLDF wOps (nat n) (parseInts ap) (parseInts aj) (parseInts x) (parseRats y) (nat n + 1) with
    | none => some "nonterm"
    | some r => some <| showInts r.val.1 ++ ";" ++ toString r.val.2 ++ flag r.ok
  | ["ext_c17r4_maximal_independent_set_k_parallel", n, ap, aj, k, x, y, mi] =>
    match C17R4.misKParallel wOps (nat n) (parseInts ap) (parseInts aj) (int k) (parseInts x) (parseRats y) (int mi) (nat n + 2) with
    | none => some "nonterm"
    | some r => some <| showInts r.val ++ flag r.ok
  | ["ext_c17r4_pairwise_aggregation", n, ap, aj, ax, x, y] =>
    let r := C17R4.pairwiseAgg pwOps (nat n) (parseInts ap) (parseInts aj) (parseRats ax) (parseInts x) (parseInts y)
    some <| showInts r.val.1 ++ ";" ++ showInts r.val.2.1 ++ ";" ++ toString r.val.2.2 ++ flag r.ok
  | ["ext_c17r4_cljp_naive_splitting", n, sp, sj, tp, tj, spl, cf, rnd] =>
    match C17R4.cljp cjOpsF 0.0 (nat n) (parseInts sp) (parseInts sj) (parseInts tp) (parseInts tj) (parseInts spl) (int cf) (parseFloats rnd) (nat n + 1) with
    | none => some "nonterm"
    | some r => some <| showInts r.val ++ flag r.ok
  | ["ext_c17r4_fit_candidates", ncol, k1, k2, ap, ai, ax, b, r, tol] =>
    let res := C17R4.fitCandidates fitOpsF ((parseFloats tol).getD 0 0.0) (nat ncol) (int k1) (int k2) (parseInts ap) (parseInts ai) (parseFloats ax)
      (parseFloats b) (parseFloats r)
    some <| ExtE7.showFloats res.val.1 ++ ";" ++ ExtE7.showFloats res.val.2 ++ flag res.ok
  | ["ext_c17r4_pinv_array", m, n, tr, aa] =>
    let r := C17R4.pinvArray svOpsF 0.0 (parseFloats aa) (int m) (int n) (tr == "T")
    some <| ExtE7.showFloats r.val ++ flag r.ok
  | ["ext_c17r4_evolution_strength_helper", sx, sp, sj, nrows, b, db, bdb, cols, nd, tol] =>
    let r := C17R4.evolutionHelper esOpsF 0.0 ((parseFloats tol).getD 0 0.0) (parseFloats sx) (parseInts sp) (parseInts sj) (nat nrows) (parseFloats b)
      (parseFloats db) (parseFloats bdb) (int cols) (nat nd)
    some <| ExtE7.showFloats r.val ++ flag r.ok
  | ["ext_c17r4_approx_ideal_restriction_pass2", rp, rj, rx, n, ap, aj, ax, cp, cj, cpts, split, dist, ug, mi, pc] =>
    let r := C17R4.airPass2 airOpsF (parseInts rp) (parseInts rj) (parseFloats rx) (ExtE7.mkGF n ap aj ax) (parseInts cp) (parseInts cj) (parseInts cpts)
      (parseInts split) (int dist) (ug == "1") (int mi) (pc == "1")
    some <| showInts r.val.1 ++ ";" ++ ExtE7.showFloats r.val.2 ++ flag r.ok
  | ["ext_c17r4_block_approx_ideal_restriction_pass2", rp, rj, rx, n, ap, aj, ax, cp, cj, cpts, split, bs, dist, ug, mi, pc] =>
    let r := C17R4.airBPass2 airOpsF 1e-15 (parseInts rp) (parseInts rj) (parseFloats rx) (ExtE7.mkGF n ap aj ax) (parseInts cp) (parseInts cj) (parseInts cpts)
      (parseInts split) (int bs) (int dist) (ug == "1") (int mi) (pc == "1")
    some <| showInts r.val.1 ++ ";" ++ ExtE7.showFloats r.val.2 ++ flag r.ok
  | _ => none

end PyamgV.Drv.ExtE32
