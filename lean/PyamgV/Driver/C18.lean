import PyamgV.Driver.Util
/-! Driver ops for property C18 (line protocol). Op names are prefixed `c18_`. -/
namespace PyamgV.Drv.C18
open PyamgV PyamgV.Drv

def handle : List String → Option String
  | _ => none

end PyamgV.Drv.C18
