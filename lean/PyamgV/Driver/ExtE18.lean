import PyamgV.Driver.Util
import PyamgV.Model.ExtC12Lloyd
/-! Driver ops of extension task E18 (op names prefixed `ext_`): Lloyd clustering / aggregation (C12).

* `ext_c12_lloyd n ap aj ax centres maxiter` -> `clusters;centres` | `ValueError` | `diverges`
* `ext_c12_lloyd_agg measure ratio n ap aj ax perm maxiter` -> `indptr;indices;data;centres` | ...
* `ext_c12_most_interior n ap aj ax c m p` -> `c;d;m;p;changed` | `diverges` (raw kernel)
* `ext_c12_aggop clusters` -> `indptr;indices;data` -/
namespace PyamgV.Drv.ExtE18
open PyamgV PyamgV.Drv

def mk (n ap aj ax : String) : N.Csr := ⟨nat n, parseNats ap, parseNats aj, parseRats ax⟩
def showAgg (t : Array Nat × Array Nat × Array Int) : String :=
  showNats t.1 ++ ";" ++ showNats t.2.1 ++ ";" ++ showInts t.2.2

def handle : List String → Option String
  | ["ext_c12_lloyd", n, ap, aj, ax, c, maxiter] =>
    some <| match ExtLloyd.lloydCluster (mk n ap aj ax) (parseInts c) (nat maxiter) with
      | .error e => e
      | .ok none => "diverges"
      | .ok (some (cl, ce)) => showInts cl ++ ";" ++ showNats ce
  | ["ext_c12_lloyd_agg", measure, ratio, n, ap, aj, ax, perm, maxiter] =>
    some <| match ExtLloyd.lloydAggregation (mk n ap aj ax) measure (parseRat ratio) (parseInts perm) (nat maxiter) with
      | .error e => e
      | .ok none => "diverges"
      | .ok (some (agg, ce)) => showAgg agg ++ ";" ++ showNats ce
  | ["ext_c12_most_interior", n, ap, aj, ax, c, m, p] =>
    some <| match ExtLloyd.mostInterior (mk n ap aj ax) (parseNats c) (parseInts m) (parseInts p) with
      | none => "diverges"
      | some (c', (d, m', p'), ch) =>
        showNats c' ++ ";" ++ showORats d ++ ";" ++ showInts m' ++ ";" ++ showInts p' ++ ";" ++ toString ch
  | ["ext_c12_aggop", cl] => some <| showAgg (ExtLloyd.aggOp (parseInts cl))
  | _ => none

end PyamgV.Drv.ExtE18
