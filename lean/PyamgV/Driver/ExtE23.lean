import PyamgV.Driver.Util
import PyamgV.Driver.C05
import PyamgV.Proofs.ExtC05BridgeCheck
/-! Driver ops of extension task E23 (op names prefixed `ext_`).

`ext_c05_symh r|c <pre> <post> <levels as for c05_cyc>`: the Boolean `C05.c05Check` of
`Proofs/ExtC05BridgeCheck.lean` on the concrete hierarchy (`r`: rationals, `conj = id`; `c`: Gaussian
rationals, `conj = CRat.conj`), followed by its five components (shapes, C-points and diagonals, in-range
column indices, Hermitian dense copies, installed smoothers). `Proofs/ExtC05Bridge.lean`: flag `True` and
this Boolean `true` ⇒ `denseM` is symmetric (`flag_denseM_symmetric_checked`). -/
namespace PyamgV.Drv.ExtE23
open PyamgV PyamgV.Drv

def showParts (l : List Bool) : String := String.intercalate "," (l.map (fun b => if b then "1" else "0"))

def runCheck {α : Type} [Add α] [Sub α] [Mul α] [Div α] [OfNat α 0] [OfNat α 1] [DecidableEq α]
    (conj : α → α) (p : String → Array α) (pre post : String) (rest : List String) : String :=
  let pre := PyamgV.Drv.C05.parseCfgs pre
  let post := PyamgV.Drv.C05.parseCfgs post
  match PyamgV.Drv.C05.parseLevels p pre post 0 rest with
  | none => "unmodelled"
  | some (ls, ac) =>
    s!"{PyamgV.C05.c05Check conj pre post ac ls} {showParts (PyamgV.C05.c05CheckParts conj pre post ac ls)}"

def handle : List String → Option String
  | "ext_c05_symh" :: "r" :: pre :: post :: rest =>
    some <| runCheck (α := Rat) id parseRats pre post rest
  | "ext_c05_symh" :: "c" :: pre :: post :: rest =>
    some <| runCheck (α := CRat) CRat.conj parseCRats pre post rest
  | _ => none

end PyamgV.Drv.ExtE23
