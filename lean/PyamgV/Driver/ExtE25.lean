import PyamgV.Driver.Util
import PyamgV.Model.ExtRsCk
/-! Driver ops of extension task E25 (op names prefixed `ext_`): the checked (`Ck`) model of the whole
`rs_cf_splitting` (`Model/ExtRsCk.lean`).  Output: the splitting, then `;ok` / `;fault` (an index
left its array, a count/position went negative, or the main loop needed more than `n` iterations).
The model keeps the CSR arrays as naturals: a request with a negative (or unparsable) entry is
answered `rejected`, never defaulted. -/
namespace PyamgV.Drv.ExtE25
open PyamgV PyamgV.Drv

def strictNats (s : String) : Option (Array Nat) :=
  (listOf s).foldl (fun acc t => do
    let a ← acc
    let v ← t.toNat?
    pure (a.push v)) (some #[])

def handle : List String → Option String
  | ["ext_rs_whole", n, sp, sj, tp, tj] =>
    match n.toNat?, strictNats sp, strictNats sj, strictNats tp, strictNats tj with
    | some n, some sp, some sj, some tp, some tj =>
      let r := RS.runCk ⟨n, sp, sj⟩ ⟨n, tp, tj⟩
      some <| showInts r.val ++ (if r.ok then ";ok" else ";fault")
    | _, _, _, _, _ => some "rejected"
  | _ => none

end PyamgV.Drv.ExtE25
