import PyamgV.Driver.Util
/-! Driver ops for property C19 (line protocol). Op names are prefixed `c19_`. -/
namespace PyamgV.Drv.C19
open PyamgV PyamgV.Drv

def handle : List String → Option String
  | _ => none

end PyamgV.Drv.C19
