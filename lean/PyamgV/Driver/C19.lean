import PyamgV.Driver.Util
import PyamgV.Model.C19Utils
/-! Driver ops for property C19 (line protocol). Op names are prefixed `c19_`.
Scalar modes: `r` = `Rat`, `c` = Gaussian rationals.  Compressed matrices are sent as
`n ap aj ax` (`n` major slices); dense matrices as `rows cols flat` (row major). -/
namespace PyamgV.Drv.C19
open PyamgV PyamgV.Drv PyamgV.C19

def parsePat (s : String) : Pat := if s = "none" then #[] else (s.splitOn ";").toArray.map parseNats
def showBools (l : List Bool) : String := sh (l.map fun b => if b then "1" else "0")

/-- everything the ops need from a scalar type -/
structure Sc (α : Type) where
  parse : String → Array α
  shw : Array α → String
  conj : α → α
  nsq : α → Rat
  nsqA : α → α
  sqrt? : α → Option α

def scR : Sc Rat := ⟨parseRats, showRats, id, nsqQ, nsqQ, sqrtAbsQ?⟩
def scC : Sc CRat := ⟨parseCRats, showCRats, CRat.conj, CRat.normSq, cnsq, csqrt?⟩

section
variable {α : Type} [Add α] [Sub α] [Mul α] [Div α] [OfNat α 0] [OfNat α 1] [DecidableEq α]

def showRows (s : Sc α) (rows : Rows α) : String :=
  showNats (ptrOf rows).toArray ++ ";" ++ showNats (idxOf rows).toArray ++ ";" ++ s.shw (dataOf rows).toArray

def diagOp (normeq : String) (csr : Bool) (s : Sc α) (nmaj nmin : Nat) (rows : Rows α) : List α :=
  if normeq = "0" then diagOf (min nmaj nmin) rows
  else if (normeq = "1") = csr then normMinor s.nsqA nmin rows
  else normMajor s.nsqA nmin rows

def run (s : Sc α) : List String → Option String
  | ["scale", fmt, which, n, ap, aj, ax, v] =>
    let rows := rowsOf (nat n) (parseNats ap) (parseNats aj) (s.parse ax)
    let out := if (fmt = "csr") = (which = "rows") then scaleMajor (s.parse v) rows else scaleMinor (s.parse v) rows
    some (s.shw (dataOf out).toArray)
  | ["bscale", which, nb, R, C, ap, aj, ax, v] =>
    let b := bRowsOf (nat nb) (nat R * nat C) (parseNats ap) (parseNats aj) (s.parse ax)
    let out := if which = "rows" then bsrScaleRows (nat R) (nat C) (s.parse v) b else bsrScaleCols (nat R) (nat C) (s.parse v) b
    some (s.shw (bDataOf out).toArray)
  | ["diag", fmt, normeq, inv, nmaj, nmin, ap, aj, ax] =>
    let rows := rowsOf (nat nmaj) (parseNats ap) (parseNats aj) (s.parse ax)
    let d := diagOp normeq (fmt = "csr") s (nat nmaj) (nat nmin) rows
    some (s.shw (if inv = "1" then invZero d else d).toArray)
  | ["bdiag", normeq, inv, nb, mb, R, C, ap, aj, ax] =>
    let b := bRowsOf (nat nb) (nat R * nat C) (parseNats ap) (parseNats aj) (s.parse ax)
    let d := diagOp normeq true s (nat nb * nat R) (nat mb * nat C) (bsrExpand (nat R) (nat C) b)
    some (s.shw (if inv = "1" then invZero d else d).toArray)
  | ["symresc", n, ap, aj, ax] =>
    match symRescale s.sqrt? (nat n) (rowsOf (nat n) (parseNats ap) (parseNats aj) (s.parse ax)) with
    | none => some "noroot"
    | some (sq, sinv, rows) => some (s.shw sq.toArray ++ ";" ++ s.shw sinv.toArray ++ ";" ++ s.shw (dataOf rows).toArray)
  | ["bsymresc", nb, R, ap, aj, ax] =>
    let b := bRowsOf (nat nb) (nat R * nat R) (parseNats ap) (parseNats aj) (s.parse ax)
    match symRescale s.sqrt? (nat nb * nat R) (bsrExpand (nat R) (nat R) b) with
    | none => some "noroot"
    | some (sq, sinv, _) =>
      let out := bsrScaleCols (nat R) (nat R) sinv.toArray (bsrScaleRows (nat R) (nat R) sinv.toArray b)
      some (s.shw sq.toArray ++ ";" ++ s.shw sinv.toArray ++ ";" ++ s.shw (bDataOf out).toArray)
  | ["filter", theta, n, ap, aj, ax] =>
    some (showRows s (filterRowsMax s.nsq (parseRat theta) (rowsOf (nat n) (parseNats ap) (parseNats aj) (s.parse ax))))
  | ["filterdiag", theta, lump, n, ap, aj, ax] =>
    some (showRows s (filterRowsDiag s.nsq (parseRat theta) (lump = "1") (rowsOf (nat n) (parseNats ap) (parseNats aj) (s.parse ax))))
  | ["trunc", k, n, ap, aj, ax] =>
    let rows := rowsOf (nat n) (parseNats ap) (parseNats aj) (s.parse ax)
    some (showRows s (truncateRows s.nsq (nat k) rows) ++ ";" ++
      (if rows.all (truncCheck s.nsq (nat k)) then "sorted-ok" else "sorted-bad"))
  | ["blockdiag", bs, inv, n, a] =>
    let A := Mat.unflat (nat n) (nat n) (s.parse a)
    if inv = "1" then
      match blockDiagInv s.conj (nat bs) A with
      | none => some "fail"
      | some bl => some (s.shw (bl.foldl (fun acc M => acc ++ M.flat) #[]))
    else some (s.shw ((blockDiag (nat bs) A).foldl (fun acc M => acc ++ M.flat) #[]))
  | ["sbi", bs, n, a] =>
    match scaleBlockInverse s.conj (nat bs) (Mat.unflat (nat n) (nat n) (s.parse a)) with
    | none => some "fail"
    | some (DA, D) => some (s.shw DA.flat ++ ";" ++ s.shw D.flat)
  | ["pinv", n, a] =>
    match Mat.pinv s.conj (Mat.unflat (nat n) (nat n) (s.parse a)) with
    | none => some "fail"
    | some X => some (s.shw X.flat)
  | ["filterop", rpb, cpb, nd, pat, n, m, a, b, bf] =>
    let (F, ok) := filterOp s.conj (nat rpb) (nat cpb) (nat nd) (parsePat pat)
      (Mat.unflat (nat n) (nat m) (s.parse a)) (Mat.unflat (nat m) (nat nd) (s.parse b)) (Mat.unflat (nat n) (nat nd) (s.parse bf))
    -- exact self-check of the constraint on the flagged block rows: (F B - Bf) = 0 there
    let E := Mat.sub (Mat.mul F (Mat.unflat (nat m) (nat nd) (s.parse b))) (Mat.unflat (nat n) (nat nd) (s.parse bf))
    let good := (List.range (nat n)).all fun i =>
      !(ok.getD (i / nat rpb) false) || (List.range (nat nd)).all fun k => decide (E.get i k = 0)
    some (s.shw F.flat ++ ";" ++ showBools ok ++ ";" ++ (if good then "constraint-ok" else "constraint-broken"))
  | _ => none
end

def handle : List String → Option String
  | op :: "r" :: rest => if op.startsWith "c19_" then run scR ((op.drop 4).toString :: rest) else none
  | op :: "c" :: rest => if op.startsWith "c19_" then run scC ((op.drop 4).toString :: rest) else none
  | _ => none

end PyamgV.Drv.C19
