import PyamgV.Driver.Util
import PyamgV.Model.ExtCGGmres
/-! Driver ops of extension task E43 (properties C06, C07; op names prefixed `ext_cg_`): the complex GMRES family.
Numbers are binary64 bit patterns written as decimal integers, a complex vector is the interleaved list
`re_0,im_0,re_1,im_1,…`; matrices: rows separated by `;`.

`ext_cg_cycle <mgs|hh|fg|mgsr> <A> <M> <b> <x0> <k> <cycles>`
  the iterates one cycle of `k` inner iterations hands to `callback` (`mgsr`: `cycles` restarted cycles of `k`
  inner iterations of `gmres_mgs`); `fg`: `M` is the (constant) right preconditioner
  → `<x_1;…;x_m>`, `-` for none, `bad-size`
`ext_cg_full <mgs|hh|fg> <A> <M> <b> <x0> <tol> <restart|_> <maxiter|_>`
  the complete run of `gmres_mgs` / `gmres_householder` / `fgmres` on complex data (`Model/ExtCGGmres.lean`)
  → `<status> <niter> <residuals> <x> <callback_1;…;callback_m>`, `short` for the `n == 1` shortcut / rejected input -/
namespace PyamgV.Drv.ExtE43
open PyamgV PyamgV.Drv PyamgV.ExtCG

def fmat (t : String) : List (List Float) :=
  if t = "-" then [] else (t.splitOn ";").map (fun r => (parseFloats r).toList)

def optNat (t : String) : Option Nat := if t = "_" then none else t.toNat?

def bitsOf (v : List Float) : String := sh (v.map fun f => toString f.toBits.toNat)

def showIts : Option (List (List Float)) → String
  | none => "bad-size"
  | some xs => if xs.isEmpty then "-" else String.intercalate ";" (xs.map bitsOf)

def handle : List String → Option String
  | ["ext_cg_cycle", kind, a, m, b, x0, k, c] =>
    some (showIts (cgmresCycleFloat kind (fmat a) (fmat m) (parseFloats b).toList (parseFloats x0).toList (nat k) (nat c)))
  | ["ext_cg_full", kind, a, m, b, x0, tol, r, mi] =>
    match cgmresFullFloat kind (fmat a) (fmat m) (parseFloats b).toList (parseFloats x0).toList
        ((parseFloats tol).getD 0 0) (optNat r) (optNat mi) with
    | none => some "short"
    | some (st, ni, hist, x, log) =>
      some s!"{st} {ni} {bitsOf hist} {bitsOf x} {if log.isEmpty then "-" else String.intercalate ";" (log.map bitsOf)}"
  | _ => none

end PyamgV.Drv.ExtE43
