import PyamgV.Driver.Util

namespace PyamgV.Drv.ExtE43

/-- line-protocol ops of extension E43 (filled in by the extension) -/
def handle : List String → Option String
  | _ => none

end PyamgV.Drv.ExtE43
