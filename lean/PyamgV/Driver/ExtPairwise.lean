import PyamgV.Driver.Util
import PyamgV.Model.ExtPairwise
/-! Driver ops of the extension models (ExtPairwise). Op names are prefixed `ext_`. -/
namespace PyamgV.Drv.ExtPairwise
open PyamgV PyamgV.Drv

def handle : List String → Option String
  -- `ext_pairwise n Sp Sj Sx` -> `x;y[:k];k` of the kernel model the C12 theorems are about
  | ["ext_pairwise", n, ap, aj, ax] =>
    some <| match ExtPw.pairwise (nat n) (parseNats ap) (parseNats aj) (parseRats ax) with
      | some (x, y, k) => showNats x ++ ";" ++ showNats y ++ ";" ++ toString k
      | none => "invalid"
  | _ => none

end PyamgV.Drv.ExtPairwise
