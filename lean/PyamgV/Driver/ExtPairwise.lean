import PyamgV.Driver.Util
/-! Driver ops of the extension models (ExtPairwise). Op names are prefixed `ext_`. -/
namespace PyamgV.Drv.ExtPairwise
open PyamgV PyamgV.Drv

def handle : List String → Option String
  | _ => none

end PyamgV.Drv.ExtPairwise
