import PyamgV.Driver.Util
import PyamgV.Model.KGraph
import PyamgV.Model.RsModel
import PyamgV.Model.KCljp
import PyamgV.Proofs.RsPass2
/-! Driver ops for graph / aggregation / splitting kernels (C12, C13, C18, C17). -/
namespace PyamgV.Drv.Graph
open PyamgV PyamgV.Drv

def mkG (n ap aj : String) : G.Graph := ⟨nat n, parseNats ap, parseNats aj⟩

def handle : List String → Option String
  | ["mis_serial", n, ap, aj] =>
    let g := mkG n ap aj
    some <| showInts (G.misSerial g (-1) 1 0 (Array.replicate g.n (-1))).1
  | ["mis_par", n, ap, aj, y] =>
    let g := mkG n ap aj
    some <| showInts (G.misParallel g (-1) 1 0 (parseInts y) none (Array.replicate g.n (-1))).1
  | ["color_mis", n, ap, aj] => some <| showInts (G.coloringMis (mkG n ap aj))
  | ["cc", n, ap, aj] => some <| showInts (G.connectedComponents (mkG n ap aj))
  | ["bfs", n, ap, aj, seed] =>
    let (o, l) := G.bfs (mkG n ap aj) (nat seed)
    some <| showInts o ++ ";" ++ showInts l
  | ["std_agg", n, ap, aj] =>
    let (x, y, k) := G.standardAggregation (mkG n ap aj)
    some <| showInts x ++ ";" ++ showInts (y.extract 0 k) ++ ";" ++ toString k
  | ["naive_agg", n, ap, aj] =>
    let (x, y, k) := G.naiveAggregation (mkG n ap aj)
    some <| showInts x ++ ";" ++ showInts (y.extract 0 k) ++ ";" ++ toString k
  | ["rs", n, sp, sj, tp, tj] =>
    let n := nat n
    some <| showInts (RS.run ⟨n, parseNats sp, parseNats sj⟩ ⟨n, parseNats tp, parseNats tj⟩)
  | ["rs2", n, sp, sj, split] =>
    some <| showInts (RS.pass2 ⟨nat n, parseNats sp, parseNats sj⟩ (parseInts split))
  | ["cljp", n, sp, sj, tp, tj, w] =>
    let S : KCljp.Csr := ⟨nat n, parseNats sp, parseNats sj⟩
    let T : KCljp.Csr := ⟨nat n, parseNats tp, parseNats tj⟩
    let (r, ok) := KCljp.run KCljp.floatOps S T (parseFloats w) (S.n + 1)
    some <| if ok then showInts r else "fuel-exhausted"
  | _ => none

end PyamgV.Drv.Graph
