import PyamgV.Driver.Util
import PyamgV.Model.KGraph
import PyamgV.Model.RsModel
import PyamgV.Model.KCljp
import PyamgV.Proofs.RsPass2
import PyamgV.Proofs.Checker
import PyamgV.Proofs.StdAgg5
import PyamgV.Proofs.NaiveAgg
import PyamgV.Proofs.Bfs
import PyamgV.Proofs.CC
import PyamgV.Proofs.ColoringLoop
import PyamgV.Proofs.MisParTerm2
/-! Driver ops for graph / aggregation / splitting kernels (C12, C13, C18, C17). -/
namespace PyamgV.Drv.Graph
open PyamgV PyamgV.Drv

def mkG (n ap aj : String) : G.Graph := ⟨nat n, parseNats ap, parseNats aj⟩
/-- the proof-side graph (`adj` function) of the same CSR arrays -/
def mkP (n ap aj : String) : PyamgV.Graph := let g := mkG n ap aj; ⟨g.n, g.row⟩

def handle : List String → Option String
  | ["mis_serial", n, ap, aj] =>
    let g := mkG n ap aj
    some <| showInts (G.misSerial g (-1) 1 0 (Array.replicate g.n (-1))).1
  | ["mis_par", n, ap, aj, y] =>
    let g := mkG n ap aj
    some <| showInts (G.misParallel g (-1) 1 0 (parseInts y) none (Array.replicate g.n (-1))).1
  | ["color_mis", n, ap, aj] => some <| showInts (G.coloringMis (mkG n ap aj))
  | ["cc", n, ap, aj] => some <| showInts (G.connectedComponents (mkG n ap aj))
  | ["bfs", n, ap, aj, seed] =>
    let (o, l) := G.bfs (mkG n ap aj) (nat seed)
    some <| showInts o ++ ";" ++ showInts l
  | ["std_agg", n, ap, aj] =>
    let (x, y, k) := G.standardAggregation (mkG n ap aj)
    some <| showInts x ++ ";" ++ showInts (y.extract 0 k) ++ ";" ++ toString k
  | ["naive_agg", n, ap, aj] =>
    let (x, y, k) := G.naiveAggregation (mkG n ap aj)
    some <| showInts x ++ ";" ++ showInts (y.extract 0 k) ++ ";" ++ toString k
  | ["rs", n, sp, sj, tp, tj] =>
    let n := nat n
    some <| showInts (RS.run ⟨n, parseNats sp, parseNats sj⟩ ⟨n, parseNats tp, parseNats tj⟩)
  | ["rs2", n, sp, sj, split] =>
    some <| showInts (RS.pass2 ⟨nat n, parseNats sp, parseNats sj⟩ (parseInts split))
  | ["cljp", n, sp, sj, tp, tj, w] =>
    let S : KCljp.Csr := ⟨nat n, parseNats sp, parseNats sj⟩
    let T : KCljp.Csr := ⟨nat n, parseNats tp, parseNats tj⟩
    let (r, ok) := KCljp.run KCljp.floatOps S T (parseFloats w) (S.n + 1)
    some <| if ok then showInts r else "fuel-exhausted"
  -- `p_*`: the definitions the theorems of Props/ are stated about, run on the same inputs
  | ["p_mis_serial", n, ap, aj] =>
    let g := mkP n ap aj
    some <| showInts (PyamgV.misSerial g (-1) 1 0 (Array.replicate g.n (-1)))
  | ["p_mis_par", n, ap, aj, y] =>
    let g := mkP n ap aj
    let w := parseInts y
    some <| showInts (PyamgV.parIter g (-1) 1 0 (fun i => w.getD i 0) g.n (Array.replicate g.n (-1)))
  | ["p_std_agg", n, ap, aj] =>
    let (x, y, k) := Agg.standardAggregation (mkP n ap aj)
    some <| showInts x ++ ";" ++ showInts (y.extract 0 k.toNat) ++ ";" ++ toString k
  | ["p_naive_agg", n, ap, aj] =>
    let s := Agg.naive (mkP n ap aj)
    some <| showInts s.x ++ ";" ++ showInts (s.y.extract 0 (s.next - 1).toNat) ++ ";" ++ toString (s.next - 1)
  | ["p_bfs", n, ap, aj, seed] =>
    let g := mkP n ap aj
    let (l, ok) := Bfs.bfs g (nat seed) (g.n + 1)
    some <| if ok then showInts l else "fuel-exhausted"
  | ["p_cc", n, ap, aj] =>
    let g := mkP n ap aj
    let (x, _, ok) := CC.cc g g.n
    some <| if ok then showInts x else "fuel-exhausted"
  | ["p_color_mis", n, ap, aj] =>
    let g := mkP n ap aj
    some <| match Col.vertexColoringMis g (g.n + 1) with
      | some (x, _) => showInts x
      | none => "fuel-exhausted"
  | ["check_mis", n, ap, aj, x] =>
    -- the proved checker (`Chk.checkMIS_iff`) applied to an output of the real code
    let g := mkG n ap aj
    some <| if Chk.checkMIS ⟨g.n, g.row⟩ (parseInts x) then "ok" else "fail"
  | _ => none

end PyamgV.Drv.Graph
