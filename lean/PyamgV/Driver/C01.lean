import PyamgV.Driver.Util
import PyamgV.Model.C01Solve
import PyamgV.Model.C01Store
/-! Driver ops for property C01 (line protocol). Op names are prefixed `c01_`.

* `c01_solve_loop <maxiter> <tol> <normb> <r0,r1,...>`: the bookkeeping loop `PyamgV.solve`
  (Proofs/SolveLoop.lean, theorem `solve_spec`) replayed over an observed residual-norm sequence.
  Reply `status;cycles;history-length;index-of-returned-iterate`, or `short` when the loop would
  have continued past the observations.
* `c01_solve_py <maxiter> <tol> <normb> <r0,...> <oneLevel> <x0given> <residuals> <callback> <return_info>`:
  the Python-level model `C01.solvePy` (theorems `solvePy_spec`, `solvePy_oneLevel`) on the same
  instance; flags are `0/1`; `<residuals>` is `none` (no list passed), `-` (empty list) or the
  list's content before the call.  Reply `x;info;residuals;callback-args` with `none` for an absent
  info / list, positions for vectors, or `short`.
* `c01_store <x0given> <oneLevel> <bConv> <xConv> <bRavelCopy> <xRavelCopy> <cycles>`: the store model
  `C01.Store.solveStore` (theorem `solveStore_inputs_unchanged`) on the heap `b = buffer 0, x0 = buffer 1,
  matrix = buffer 2`.  Reply `buffer of b as the cycles see it;buffer of the returned array;buffers of the
  callback arguments;buffers written in place;1 if buffers 0..2 are unchanged else 0`. -/
namespace PyamgV.Drv.C01
open PyamgV PyamgV.Drv PyamgV.C01

def flag (s : String) : Bool := s = "1"
def showOR : Option Rat → String
  | some q => showRat q
  | none => "short"

def handle : List String → Option String
  | ["c01_solve_loop", maxiter, tol, normb, seq] =>
    let s := parseRats seq
    match replayLoop (nat maxiter) (parseRat tol) (parseRat normb) s with
    | none => some "none"
    | some o =>
      if o.x ≥ s.size then some "short"
      else some s!"{o.status};{o.cb.length};{o.residuals.length};{o.x}"
  | ["c01_solve_py", maxiter, tol, normb, seq, one, x0g, res, cb, ri] =>
    let s := parseRats seq
    let r0 : Option (List (Option Rat)) :=
      if res = "none" then none else some ((parseRats res).toList.map some)
    match replayPy (nat maxiter) (parseRat tol) (parseRat normb) s (flag one) (flag x0g) r0 (flag cb) (flag ri) with
    | none => some "none"
    | some p =>
      if p.x ≥ s.size then some "short"
      else
        let info := match p.info with | some i => toString i | none => "none"
        let rs := match p.residuals with | some l => sh (l.map showOR) | none => "none"
        some s!"{p.x};{info};{rs};{showNats p.cb.toArray}"
  | ["c01_store", x0g, one, bc, xc, brc, xrc, k] =>
    let h0 : Store.Heap Nat := #[[10, 11], [20, 21], [30, 31, 32]]
    let t := Store.solveStore (fun x b => (x.zip b).map (fun p => p.1 + p.2 + 1)) (fun b => b.map (· + 5))
      (fun c => c.map (fun _ => 0)) id ⟨flag x0g, flag one, flag bc, flag xc, flag brc, flag xrc⟩ (nat k) h0 0 1
    let same := (List.range 3).all (fun i => t.heap[i]? == h0[i]?)
    some s!"{t.bUsed};{t.ret};{showNats t.cb.toArray};{showNats t.writes.toArray};{if same then 1 else 0}"
  | _ => none

end PyamgV.Drv.C01
