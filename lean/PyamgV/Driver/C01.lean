import PyamgV.Driver.Util
/-! Driver ops for property C01 (line protocol). Op names are prefixed `c01_`. -/
namespace PyamgV.Drv.C01
open PyamgV PyamgV.Drv

def handle : List String → Option String
  | _ => none

end PyamgV.Drv.C01
