import PyamgV.Driver.Util
/-! Driver ops of the extension models (ExtMisc). Op names are prefixed `ext_`. -/
namespace PyamgV.Drv.ExtMisc
open PyamgV PyamgV.Drv

def handle : List String → Option String
  | _ => none

end PyamgV.Drv.ExtMisc
