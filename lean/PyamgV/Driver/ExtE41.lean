import PyamgV.Driver.Util
import PyamgV.Driver.ExtE27
import PyamgV.Model.ExtC15Canon
/-! Driver ops of extension task E41 (C15): the canonical stored form (`Model/ExtC15Canon.lean`).

Matrix tokens `<M>` as in `Driver/ExtE27.lean` (`csr:` / `csc:` / `coo:` / `dense:` / `bsr:`), CSR replies
`<rows>:<cols>:<indptr>:<indices>:<data>`.

* `ext_c15_canon nz <M>`: the input converted to CSR (`Input.toCsr`), then
  reply `<canonNZ>;<canonSD>;<isCanonical of the conversion>;<noStoredZeros of the conversion>;<the conversion>`
  (`canonNZ` = `sum_duplicates(); eliminate_zeros()`, `canonSD` = `sum_duplicates()`; flags `1` / `0`);
  `error:<why>` when the arrays are not well formed
* `ext_c15_canon pw <norm> <theta> <tiny> <rows>:<cols>:<indptr>:<indices>:<rational data>`: one step of the
  pairwise-aggregation constructor path on the arrays as they are (`pwRaw`) and behind the canonicaliser (`pwStep`);
  reply `<P or none>;<P or none>`, `error:not-well-formed` -/
namespace PyamgV.Drv.ExtE41
open PyamgV PyamgV.Drv PyamgV.Spmm PyamgV.Canon

def flag (b : Bool) : String := if b then "1" else "0"

def showRatCsr (A : Csr Rat) : String :=
  s!"{A.rows}:{A.cols}:{showNats A.ap}:{showNats A.aj}:{showRats A.ax}"

def showOpt : Option (Csr Rat) → String
  | none => "none"
  | some P => showRatCsr P

def handle : List String → Option String
  | ["ext_c15_canon", "nz", m] =>
    some <| match ExtE27.toCsr m with
      | .ok A => ExtE27.showCsr (canonNZC A) ++ ";" ++ ExtE27.showCsr (canonSDC A) ++ ";" ++ flag (isCanonicalC A)
          ++ ";" ++ flag (noStoredZerosC A) ++ ";" ++ ExtE27.showCsr A
      | .error e => e
  | ["ext_c15_canon", "pw", norm, th, tiny, m] =>
    some <| match m.splitOn ":" with
      | [r, c, ap, aj, ax] =>
        let A : Csr Rat := ⟨nat r, nat c, parseNats ap, parseNats aj, parseRats ax⟩
        if A.wf ∧ A.rows = A.cols then
          showOpt (pwRaw norm (parseRat tiny) (parseRat th) A) ++ ";" ++ showOpt (pwStep norm (parseRat tiny) (parseRat th) A)
        else "error:not-well-formed"
      | _ => "error:parse"
  | _ => none

end PyamgV.Drv.ExtE41
