import PyamgV.Driver.Util
import PyamgV.Model.ExtC12ZWrap
/-! Driver ops of extension task E56, part 2: the wrapper `pairwise_aggregation` (C12), `Model/ExtC12ZWrap.lean`.

* `ext_c12z_pw norm theta tiny matchings rows:cols:ap:aj:ax`
    -> `rows:cols:indptr:indices:data;Cpts;k_1,k_2,..;F`  | `none` | `error:...`
  (`T` and `Cpts` of `C12ZW.wrapper`; the numbers of aggregates of the levels of `C12ZW.levels`; `F` = the
  composed assignment map `ExtPw.composeAll`-style over `C12ZW.maps` evaluated on `0..n-1`) -/
namespace PyamgV.Drv.ExtC12ZWrap
open PyamgV PyamgV.Drv PyamgV.Spmm

def showRatCsr (A : Csr Rat) : String :=
  s!"{A.rows}:{A.cols}:{showNats A.ap}:{showNats A.aj}:{showRats A.ax}"

/-- the composed assignment map, first matching first -/
def compose : List (Nat → Nat) → Nat → Nat
  | [] => id
  | f :: fs => compose fs ∘ f

def handle : List String → Option String
  | ["ext_c12z_pw", norm, th, tiny, mt, m] =>
    some <| match m.splitOn ":" with
      | [r, c, ap, aj, ax] =>
        let A : Csr Rat := ⟨nat r, nat c, parseNats ap, parseNats aj, parseRats ax⟩
        match C12ZW.wrapper norm (parseRat tiny) (parseRat th) (nat mt) A with
        | none => "none"
        | some (T, cp) =>
          match C12ZW.levels norm (parseRat tiny) (parseRat th) (nat mt) A with
          | none => "error:levels"
          | some ls =>
            let F := compose (C12ZW.maps ls)
            showRatCsr T ++ ";" ++ showNats cp ++ ";" ++ showNats (ls.map (·.2.2)).toArray ++ ";" ++
              showNats ((List.range A.rows).map F).toArray
      | _ => "error:parse"
  | _ => none

end PyamgV.Drv.ExtC12ZWrap
