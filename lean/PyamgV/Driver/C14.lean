import PyamgV.Driver.Util
/-! Driver ops for property C14 (line protocol). Op names are prefixed `c14_`. -/
namespace PyamgV.Drv.C14
open PyamgV PyamgV.Drv

def handle : List String → Option String
  | _ => none

end PyamgV.Drv.C14
