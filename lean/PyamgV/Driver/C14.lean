import PyamgV.Driver.Util
import PyamgV.Model.KNum
import PyamgV.Model.C14
/-! Driver ops for property C14 (line protocol). Op names are prefixed `c14_`.
Every op runs the definitions of `Model/C14.lean`, i.e. the ones `Props/C14.lean` is about. -/
namespace PyamgV.Drv.C14
open PyamgV PyamgV.Drv PyamgV.N PyamgV.C14

def mk (n ap aj ax : String) : List Row := rowsOf ⟨nat n, parseNats ap, parseNats aj, parseRats ax⟩

/-- complex rows; `none` when some modulus is irrational (the exact model rejects the request) -/
def mkC (n ap aj ax : String) : Option (List (RowOf CRat)) :=
  let ap := parseNats ap
  let aj := parseNats aj
  let ax := parseCRats ax
  if ax.all (fun z => (cnorm? z).isSome) then
    some <| (List.range (nat n)).map fun i =>
      (List.range' (rdN ap i) (rdN ap (i+1) - rdN ap i)).map fun jj => (rdN aj jj, ax.getD jj 0)
  else none

def showRows {α : Type} (sh : Array α → String) (rows : List (RowOf α)) : String :=
  let (sp, sj, sx) := rowsToOut rows
  showNats sp ++ ";" ++ showNats sj ++ ";" ++ sh sx

def cadd (a b : CRat) : CRat := a + b

def handle : List String → Option String
  | ["c14_abs", th, tiny, n, ap, aj, ax] =>
    some <| showRows showRats (classical absQ (parseRat tiny) (parseRat th) (mk n ap aj ax))
  | ["c14_min", th, n, ap, aj, ax] =>
    some <| showRows showRats (classical negQ 0 (parseRat th) (mk n ap aj ax))
  | ["c14_cabs", th, tiny, n, ap, aj, ax] =>
    some <| match mkC n ap aj ax with
      | some rows => showRows showCRats (classical cnorm (parseRat tiny) (parseRat th) rows)
      | none => "inexact"
  | ["c14_sym", th, n, ap, aj, ax] =>
    some <| showRows showRats (symmetric absQ (fun v => v * v) (· + ·) 0 (parseRat th) (mk n ap aj ax))
  | ["c14_csym", th, n, ap, aj, ax] =>
    some <| match mkC n ap aj ax with
      | some rows =>
        -- the diagonal sums must have an exact modulus as well
        if (rows.zipIdx).all (fun (r, i) => (cnorm? (r.foldl (fun d cv => if cv.1 = i then cadd d cv.2 else d) 0)).isSome)
        then showRows showCRats (symmetric cnorm CRat.normSq cadd 0 (parseRat th) rows) else "inexact"
      | none => "inexact"
  | ["c14_rowmax", tiny, n, ap, aj, ax] =>
    some <| showRats ((mk n ap aj ax).map (rowMax absQ (parseRat tiny))).toArray
  | ["c14_crowmax", tiny, n, ap, aj, ax] =>
    some <| match mkC n ap aj ax with
      | some rows => showRats (rows.map (rowMax cnorm (parseRat tiny))).toArray
      | none => "inexact"
  | ["c14_pub_classical", norm, th, tiny, n, ap, aj, ax] =>
    some <| showRows showRats (pubClassicalNorm norm (parseRat tiny) (parseRat th) (mk n ap aj ax))
  | ["c14_pub_cclassical", th, tiny, n, ap, aj, ax] =>
    some <| match mkC n ap aj ax with
      | some rows => showRows showRats (pubClassical cnorm cnorm (parseRat tiny) (parseRat tiny) (parseRat th) rows)
      | none => "inexact"
  | ["c14_pub_classical_bsr", norm, th, tiny, drop, n, ap, aj, bs, data] =>
    some <| showRows showRats (pubClassicalBsr norm (parseRat tiny) (parseRat drop) (parseRat th) (nat n)
      (parseNats ap) (parseNats aj) (nat bs) (parseRats data).toList)
  | ["c14_pub_classical_amalg", norm, th, tiny, bs, n, ap, aj, ax] =>
    some <| showRows showRats (pubClassicalNoBlock norm (parseRat tiny) (parseRat th) (nat bs) (mk n ap aj ax))
  | ["c14_pub_sym", th, tiny, n, ap, aj, ax] =>
    some <| showRows showRats (pubSymmetric absQ (fun v => v * v) (· + ·) 0 (parseRat tiny) (parseRat th) (mk n ap aj ax))
  | ["c14_pub_csym", th, tiny, n, ap, aj, ax] =>
    some <| match mkC n ap aj ax with
      | some rows =>
        if (rows.zipIdx).all (fun (r, i) => (cnorm? (r.foldl (fun d cv => if cv.1 = i then cadd d cv.2 else d) 0)).isSome)
        then showRows showRats (pubSymmetric cnorm CRat.normSq cadd 0 (parseRat tiny) (parseRat th) rows) else "inexact"
      | none => "inexact"
  | ["c14_pub_sym_bsr", th, tiny, n, ap, aj, bs, data] =>
    some <| match pubSymmetricBsr (parseRat tiny) (parseRat th) (nat n) (parseNats ap) (parseNats aj) (nat bs) (parseRats data).toList with
      | some rows => showRows showRats rows
      | none => "inexact"
  | ["c14_dfilt", big, eps, n, ap, aj, ax] =>
    some <| showRows showRats (mapRows (distFilterRow (parseRat big) (parseRat eps)) (mk n ap aj ax))
  | ["c14_adfilt", eps, n, ap, aj, ax] =>
    some <| showRows showRats (mapRows (absDistFilterRow (parseRat eps)) (mk n ap aj ax))
  | ["c14_dist_common", big, tiny, eps, n, ap, aj, d] =>
    some <| showRows showRats (mapRows (distCommonRow (parseRat big) (parseRat tiny) (parseRat eps)) (mk n ap aj d))
  | ["c14_distance", big, tiny, lo, theta, rel, n, ap, aj, v] =>
    -- `v`: nodal coordinates, points separated by `;`
    let V : Array (List Rat) := (parseMat v).map (·.toList)
    let ap := parseNats ap
    let aj := parseNats aj
    let θ : Option Rat := if theta = "inf" then none else some (parseRat theta)
    let rows := (List.range (nat n)).map fun i =>
      distRow (parseRat lo) V i ((List.range' (rdN ap i) (rdN ap (i+1) - rdN ap i)).map (rdN aj))
    some <| if rows.all (·.isSome) then
      showRows showRats (mapRows (distStrengthRow (parseRat big) (parseRat tiny) θ (rel = "1")) (rows.map (·.getD [])))
    else "inexact"
  | ["c14_energy_tail", th, tiny, n, ap, aj, ax] =>
    some <| showRows showRats (mapRows (energyTailRow (parseRat tiny) (parseRat th)) (mk n ap aj ax))
  | ["c14_evol_tail", big, tiny, eps, symm, n, ap, aj, ax] =>
    some <| showRows showRats (evolTail (parseRat big) (parseRat tiny) (parseRat eps) (symm = "1") (mk n ap aj ax))
  | ["c14_scale", tiny, n, ap, aj, ax] =>
    -- the last step of every measure: `scale_rows_by_largest_entry` on the observed argument
    some <| showRows showRats ((mk n ap aj ax).map (scaleRow (parseRat tiny)))
  | ["c14_minblocks", big, k, data] =>
    some <| showRats ((chunks (nat k) (parseRats data).toList).map (minBlock (parseRat big))).toArray
  | _ => none

end PyamgV.Drv.C14
