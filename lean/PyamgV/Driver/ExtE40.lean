import PyamgV.Driver.Util
import PyamgV.Model.ExtC14XBlock
/-! Driver ops of extension task E40 (property C14; op names prefixed `ext_c14x_`): strength measures on BSR input and on
complex input.  They run the definitions of `Model/ExtC14XBlock.lean` that `Props/C14.lean` (section E40) is about.
`kind` is `r` (real scalars) or `c` (complex, tokens `re|im`); BSR matrices come as `rows bs ap aj data` (square blocks,
blocks row-major one after the other); the square root is `sqrtApprox 100` (relative error `2^-100`, exact on squares). -/
namespace PyamgV.Drv.ExtE40
open PyamgV PyamgV.Drv PyamgV.N PyamgV.C14 PyamgV.C14X

def sqD : Rat → Rat := sqrtApprox 100

def showRows {α : Type} (shw : Array α → String) (rows : List (RowOf α)) : String :=
  let (sp, sj, sx) := rowsToOut rows
  showNats sp ++ ";" ++ showNats sj ++ ";" ++ shw sx

def showO (o : Option (List Row)) : String :=
  match o with | some rows => showRows showRats rows | none => "reject"

def mkC (n ap aj ax : String) : List (RowOf CRat) :=
  let ap := parseNats ap
  let aj := parseNats aj
  let ax := parseCRats ax
  (List.range (nat n)).map fun i =>
    (List.range' (rdN ap i) (rdN ap (i+1) - rdN ap i)).map fun jj => (rdN aj jj, ax.getD jj 0)

def mkBsrR (rows bs ap aj data : String) : Spmm.Bsr Rat :=
  ⟨nat rows, nat rows, nat bs, nat bs, parseNats ap, parseNats aj, parseRats data⟩
def mkBsrC (rows bs ap aj data : String) : Spmm.Bsr CRat :=
  ⟨nat rows, nat rows, nat bs, nat bs, parseNats ap, parseNats aj, parseCRats data⟩

def idQ (q : Rat) : Rat := q
def sqQ (q : Rat) : Rat := q * q

def handle : List String → Option String
  -- complex CSR, kernels: output rows with the complex values copied
  | ["ext_c14x_kcabs", th, tiny, n, ap, aj, ax] =>
    some <| showRows showCRats (classical (cmodS sqD) (parseRat tiny) (parseRat th) (mkC n ap aj ax))
  | ["ext_c14x_kcsym", th, n, ap, aj, ax] =>
    some <| showRows showCRats (symmetric (cmodS sqD) CRat.normSq cadd 0 (parseRat th) (mkC n ap aj ax))
  -- complex CSR, public functions
  | ["ext_c14x_cclassical", th, tiny, n, ap, aj, ax] =>
    some <| showRows showRats (cclassical sqD (parseRat tiny) (parseRat th) (mkC n ap aj ax))
  | ["ext_c14x_csym", th, tiny, n, ap, aj, ax] =>
    some <| showRows showRats (csymmetric sqD (parseRat tiny) (parseRat th) (mkC n ap aj ax))
  -- BSR input
  | ["ext_c14x_bsr_classical", "r", norm, block, th, tiny, drop, rows, bs, ap, aj, data] =>
    let X := mkBsrR rows bs ap aj data
    some <| showO <|
      if block = "1" then classicalBlock absQ sqQ idQ true norm (parseRat tiny) (parseRat drop) (parseRat th) X
      else classicalNoBlock absQ idQ true norm (parseRat tiny) (parseRat th) X
  | ["ext_c14x_bsr_classical", "c", norm, block, th, tiny, drop, rows, bs, ap, aj, data] =>
    let X := mkBsrC rows bs ap aj data
    some <| showO <|
      if block = "1" then classicalBlock (cmodS sqD) CRat.normSq creal false norm (parseRat tiny) (parseRat drop) (parseRat th) X
      else classicalNoBlock (cmodS sqD) creal false norm (parseRat tiny) (parseRat th) X
  | ["ext_c14x_bsr_sym", "r", th, tiny, rows, bs, ap, aj, data] =>
    some <| showO (symmetricBsr sqD sqQ (parseRat tiny) (parseRat th) (mkBsrR rows bs ap aj data))
  | ["ext_c14x_bsr_sym", "c", th, tiny, rows, bs, ap, aj, data] =>
    some <| showO (symmetricBsr sqD CRat.normSq (parseRat tiny) (parseRat th) (mkBsrC rows bs ap aj data))
  -- `A.tocsr()` of a BSR matrix
  | ["ext_c14x_tocsr", "r", rows, bs, ap, aj, data] =>
    some <| showRows showRats (scalarRows (mkBsrR rows bs ap aj data))
  | ["ext_c14x_tocsr", "c", rows, bs, ap, aj, data] =>
    some <| showRows showCRats (scalarRows (mkBsrC rows bs ap aj data))
  -- energy measure: reply  measure | result | per row |<v,Av>| | per row sum of |terms| of <v,Av>
  | ["ext_c14x_cenergy", omega, neg, tiny, th, k, n, ap, aj, ax] =>
    let rows := mkC n ap aj ax
    let n := rows.length
    let A := cdense n rows
    let S := cS n (parseRat omega) A (nat k + 1)
    some <| if cEnDefined n A S rows then
      let den := (List.range n).map fun i => cmodS sqD (cQuad n A (cCol S i none))
      let aden := (List.range n).map fun i =>
        sumR n fun r => sumR n fun c => cmodS sqD (CRat.conj (cCol S i none r) * cget A r c * cCol S i none c)
      showRows showRats (cEnMeasure sqD (parseRat neg) n A S rows) ++ "|" ++
        showRows showRats (energyFullC sqD (parseRat omega) (parseRat neg) (parseRat tiny) (parseRat th) (nat k) rows) ++ "|" ++
        showRats den.toArray ++ "|" ++ showRats aden.toArray
    else "undefined"
  | ["ext_c14x_bsr_energy", "r", omega, neg, tiny, th, k, rows, bs, ap, aj, data] =>
    let X := mkBsrR rows bs ap aj data
    let rs := scalarRows X
    let n := rs.length
    let A := dense n rs
    let S := enS n (parseRat omega) A (nat k + 1)
    some <| if enDefined n A S rs then
      let den := (List.range n).map fun i => enQuad n A (enCol S i none)
      let aden := (List.range n).map fun i =>
        sumR n fun r => sumR n fun c => absQ (enCol S i none r * mget A r c * enCol S i none c)
      showRows showRats (enMeasure sqD (parseRat neg) n A S rs) ++ "|" ++
        showRows showRats (energyFullBsr sqD (parseRat omega) (parseRat neg) (parseRat tiny) (parseRat th) (nat k) X) ++ "|" ++
        showRats den.toArray ++ "|" ++ showRats aden.toArray
    else "undefined"
  | ["ext_c14x_bsr_energy", "c", omega, neg, tiny, th, k, rows, bs, ap, aj, data] =>
    let X := mkBsrC rows bs ap aj data
    let rs := scalarRows X
    let n := rs.length
    let A := cdense n rs
    let S := cS n (parseRat omega) A (nat k + 1)
    some <| if cEnDefined n A S rs then
      let den := (List.range n).map fun i => cmodS sqD (cQuad n A (cCol S i none))
      let aden := (List.range n).map fun i =>
        sumR n fun r => sumR n fun c => cmodS sqD (CRat.conj (cCol S i none r) * cget A r c * cCol S i none c)
      showRows showRats (cEnMeasure sqD (parseRat neg) n A S rs) ++ "|" ++
        showRows showRats (energyFullBsrC sqD (parseRat omega) (parseRat neg) (parseRat tiny) (parseRat th) (nat k) X) ++ "|" ++
        showRats den.toArray ++ "|" ++ showRats aden.toArray
    else "undefined"
  | _ => none

end PyamgV.Drv.ExtE40
