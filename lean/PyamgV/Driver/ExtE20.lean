import PyamgV.Driver.Util
/-! Driver ops of extension task E20 (op names prefixed `ext_`). -/
namespace PyamgV.Drv.ExtE20
open PyamgV PyamgV.Drv

def handle : List String → Option String
  | _ => none

end PyamgV.Drv.ExtE20
