import PyamgV.Driver.Util
import PyamgV.Model.ExtC18Bal
import PyamgV.Model.ExtC18Rcm
/-! Driver ops of extension task E20 (op names prefixed `ext_`): balanced Bellman-Ford
(`Model/ExtC18Bal.lean`) and symmetric RCM / pseudo-peripheral node (`Model/ExtC18Rcm.lean`).
The theorems of `Proofs/ExtC18Bal.lean`, `Proofs/ExtC18Rcm.lean` are about exactly these definitions. -/
namespace PyamgV.Drv.ExtE20
open PyamgV PyamgV.Drv

def showSt (st : Bal.St) : String :=
  showORats st.d ++ ";" ++ showInts st.m ++ ";" ++ showInts st.p ++ ";" ++ showInts st.pc ++ ";" ++ showInts st.s

def mkA (n ap aj ax : String) : Bal.Csr := ⟨nat n, parseNats ap, parseNats aj, parseRats ax⟩
def mkG (n ap aj : String) : G.Graph := ⟨nat n, parseNats ap, parseNats aj⟩

def handle : List String → Option String
  -- kernel on explicit arrays: `tol` exact rational, `tb` 0/1
  | ["ext_c18_bfbal", n, ap, aj, ax, tol, tb, d, m, p, pc, s] =>
    let st : Bal.St := ⟨parseORats d, parseInts m, parseInts p, parseInts pc, parseInts s⟩
    some <| match Bal.kernel (parseRat tol) (tb = "1") (mkA n ap aj ax) st with
      | .ok st ch => showSt st ++ ";" ++ toString ch
      | .fault => "fault"
      | .tooMany => "too-many-iterations"
  -- the public wrapper `bellman_ford(G, centers, method='balanced', tiebreaking=tb)`
  | ["ext_c18_bfbal_w", n, ap, aj, ax, tol, tb, centers] =>
    some <| match Bal.wrapper (parseRat tol) (tb = "1") (mkA n ap aj ax) (parseInts centers).toList with
      | .ok st => showORats st.d ++ ";" ++ showInts st.m ++ ";" ++ showInts st.p
      | .valueError => "ValueError"
      | .indexError => "IndexError"
      | .fault => "fault"
      | .tooMany => "too-many-iterations"
  | ["ext_c18_rcm", n, ap, aj, x0] =>
    some <| match Rcm.rcmPerm (mkG n ap aj) (nat x0) with
      | some p => showInts p.toArray
      | none => "none"
  | ["ext_c18_ppn", n, ap, aj, x0] =>
    let g := mkG n ap aj
    some <| match Rcm.ppn g (g.n + 3) (nat x0) 0 with
      | some (x, order, level) =>
        toString x ++ ";" ++ showInts (Rcm.reachedPrefix order level).toArray ++ ";" ++ showInts level
      | none => "none"
  | _ => none

end PyamgV.Drv.ExtE20
