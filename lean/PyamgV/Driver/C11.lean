import PyamgV.Driver.Util
import PyamgV.Model.KNum
import PyamgV.Model.C11
import PyamgV.Proofs.C11Kernel
import Mathlib.Algebra.Order.Ring.Rat
import Mathlib.Algebra.Field.Rat
/-! Driver ops for property C11 (line protocol). Op names are prefixed `c11_`.
`c11_p_*` run the proof-side definitions (the ones the theorems are about) on `Rat`. -/
namespace PyamgV.Drv.C11
open PyamgV PyamgV.Drv PyamgV.N

def mk (n ap aj ax : String) : N.Csr := ⟨nat n, parseNats ap, parseNats aj, parseRats ax⟩
def mkPat (n ap aj : String) : N.Csr := ⟨nat n, parseNats ap, parseNats aj, #[]⟩

/-- rows of a CSR matrix as (column, value) lists, in storage order -/
def rowsOf (A : N.Csr) : Nat → List (Nat × Rat) :=
  fun i => (A.jjs i).map (fun jj => (rdN A.aj jj, rdQ A.ax jj))

def isCf (split : Array Int) : Nat → Bool := fun j => rdI split j == 1

def showRow (r : List (Nat × Rat)) : String :=
  if r.isEmpty then "-" else String.intercalate "," (r.map fun cv => s!"{cv.1}:{showRat cv.2}")
def showRows (rs : List (List (Nat × Rat))) : String :=
  if rs.isEmpty then "none" else String.intercalate ";" (rs.map showRow)

/-- the wrapper's `eliminate_zeros(); data[:] = 1; C.multiply(A)` for sorted duplicate-free `A`:
entries of `C` with non-zero value whose `A` entry is non-zero, carrying `A`'s value -/
def strengthWithA (A C : N.Csr) (cx : Array Rat) : N.Csr :=
  let o : N.Out := (List.range C.n).foldl (fun (o : N.Out) i =>
    let o := (C.jjs i).foldl (fun (o : N.Out) jj =>
      let j := rdN C.aj jj
      let a := C11M.entry A i j
      if rdQ cx jj ≠ 0 ∧ a ≠ 0 then { o with sj := o.sj.push j, sx := o.sx.push a } else o) o
    { o with sp := o.sp.push o.sj.size }) {}
  ⟨C.n, o.sp, o.sj, o.sx⟩

/-- `C.eliminate_zeros()` -/
def dropZeros (C : N.Csr) : N.Csr :=
  let o : N.Out := (List.range C.n).foldl (fun (o : N.Out) i =>
    let o := (C.jjs i).foldl (fun (o : N.Out) jj =>
      if rdQ C.ax jj ≠ 0 then { o with sj := o.sj.push (rdN C.aj jj), sx := o.sx.push (rdQ C.ax jj) } else o) o
    { o with sp := o.sp.push o.sj.size }) {}
  ⟨C.n, o.sp, o.sj, o.sx⟩

def showP (pp : Array Nat) (pj : Array Int) (px : Array (Option Rat)) : String :=
  showNats pp ++ ";" ++ showInts pj ++ ";" ++ showORats px

def handle : List String → Option String
  | ["c11_cls1", n, sp, sj, split] =>
    some <| showNats (C11M.classicalPass1 (nat n) (mkPat n sp sj) (parseInts split))
  | ["c11_rmff", n, sp, sj, sx, split] =>
    some <| showRats (C11M.removeFF (mk n sp sj sx) (parseInts split))
  | ["c11_cls2", eps, md, n, ap, aj, ax, sp, sj, sx, split, pp] =>
    let (pj, px) := C11M.classicalPass2 (parseRat eps) (md == "1") (mk n ap aj ax) (mk n sp sj sx)
      (parseInts split) (parseNats pp)
    some <| showInts pj ++ ";" ++ showORats px
  | ["c11_api_classical", eps, md, n, ap, aj, ax, cp, cj, cx, split] =>
    -- classical_interpolation(A, C, splitting, modified=md) with theta=None:
    -- C.copy(); eliminate_zeros(); [remove_strong_FF_connections]; eliminate_zeros(); data = 1; multiply(A)
    let A := mk n ap aj ax
    let C := dropZeros (mk n cp cj cx)
    let split := parseInts split
    let cx' := if md == "1" then C11M.removeFF C split else C.ax
    let S := strengthWithA A C cx'
    let pp := C11M.classicalPass1 A.n S split
    let (pj, px) := C11M.classicalPass2 (parseRat eps) (md == "1") A S split pp
    some <| showP pp pj px
  | ["c11_api_direct", n, ap, aj, ax, cp, cj, cx, split] =>
    let A := mk n ap aj ax
    let C := mk n cp cj cx
    let (pp, pj, px) := N.directInterp A (strengthWithA A C C.ax) (parseInts split)
    some <| showNats pp ++ ";" ++ showNats pj ++ ";" ++ showORats px
  | ["c11_onept", n, cp, cj, cx, split] =>
    let (pp, pj, px) := C11M.onePoint (nat n) (mk n cp cj cx) (parseInts split)
    some <| showNats pp ++ ";" ++ showInts pj ++ ";" ++ showRats px
  | ["c11_inj", n, split] =>
    let (rp, cols) := C11M.injection (nat n) (parseInts split)
    some <| showInts rp ++ ";" ++ showInts cols
  | ["c11_air1", n, sp, sj, cpts, split, dist] =>
    some <| showNats (C11M.airPass1 (mkPat n sp sj) (parseNats cpts) (parseInts split) (nat dist))
  | ["c11_air2", n, ap, aj, ax, sp, sj, cpts, split, dist] =>
    some <| match C11M.airPass2 (mk n ap aj ax) (mkPat n sp sj) (parseNats cpts) (parseInts split) (nat dist) with
      | some rows => showRows rows
      | none => "singular"
  -- proof-side definitions (Proofs/C11Kernel.lean, Direct, Classical, ClassicalMod, OnePoint)
  | ["c11_p_direct", n, ap, aj, ax, sp, sj, sx, split] =>
    some <| showRows (C11.directP (K := Rat) (isCf (parseInts split)) (nat n) (rowsOf (mk n ap aj ax)) (rowsOf (mk n sp sj sx)))
  | ["c11_p_classical", eps, md, n, ap, aj, ax, sp, sj, sx, split] =>
    let A := rowsOf (mk n ap aj ax)
    let S := rowsOf (mk n sp sj sx)
    let isC := isCf (parseInts split)
    some <| showRows (if md == "1" then C11.classicalModP (K := Rat) (parseRat eps) isC (nat n) A S
                      else C11.classicalP (K := Rat) (parseRat eps) isC (nat n) A S)
  | ["c11_p_onept", n, cp, cj, cx, split] =>
    some <| showRows (C11.onePointP (K := Rat) (isCf (parseInts split)) (nat n) (rowsOf (mk n cp cj cx)))
  | ["c11_p_inj", n, split] =>
    some <| showRows (C11.injectionP (K := Rat) (isCf (parseInts split)) (nat n))
  | _ => none

end PyamgV.Drv.C11
