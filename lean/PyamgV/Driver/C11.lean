import PyamgV.Driver.Util
/-! Driver ops for property C11 (line protocol). Op names are prefixed `c11_`. -/
namespace PyamgV.Drv.C11
open PyamgV PyamgV.Drv

def handle : List String → Option String
  | _ => none

end PyamgV.Drv.C11
