import PyamgV.Driver.Util
/-! Driver ops of extension task E29 (op names prefixed `ext_`). -/
namespace PyamgV.Drv.ExtE29
open PyamgV PyamgV.Drv

def handle : List String → Option String
  | _ => none

end PyamgV.Drv.ExtE29
