import PyamgV.Driver.Util
import PyamgV.Driver.C16
import PyamgV.Model.ExtC16Relax
/-! Driver ops of extension task E29 (op names prefixed `ext_`).

* `ext_c16_relax f name opts rho bs dinv cheb shape b n ap aj ax nb bap baj bax`
      the model `C16R.relaxCallR` of one call of `coarse_grid_solver((name, opts))` on the CSR matrix
      `(n ap aj ax)`.  `f` = `r` | `c` (rationals / Gaussian rationals), `opts` as for `c16_run`, recorded inputs:
      `rho` (`-` = none), block size `bs` with the BSR arrays `(nb bap baj bax)` (`0 - - -` when unused),
      `dinv` = the inverted diagonal blocks (flattened), `cheb` = the Chebyshev polynomial coefficients.
      -> `ok:<shape>:<x>` or `err:<why>`
* `ext_c16_csc f n ap aj ax`  -> `ap;aj;ax` of the model's `cscOf` (`A.tocsc()`) -/
namespace PyamgV.Drv.ExtE29
open PyamgV PyamgV.Drv PyamgV.K PyamgV.C16 PyamgV.C16R

def relaxOp {α : Type} [Add α] [Sub α] [Mul α] [Div α] [OfNat α 0] [OfNat α 1] [DecidableEq α]
    (conj : α → α) (pq : String → α) (pl : String → Array α) (sl : Array α → String)
    (name opts rho bs dinv cheb shape b : String) (A B : Csr α) : String :=
  let ri : Rec α := { rho := if rho = "-" then none else some (pq rho), bs := nat bs, bsr := B,
                      dinv := pl dinv, cheb := pl cheb }
  match relaxCallR conj name (Drv.C16.parseOpts pq opts) ri A ⟨pl b, Drv.C16.parseShape shape⟩ with
  | .ok x => "ok:" ++ Drv.C16.showShape x.shape ++ ":" ++ sl x.data
  | .error e => "err:" ++ e

def handle : List String → Option String
  | ["ext_c16_relax", "r", name, opts, rho, bs, dinv, cheb, shape, b, n, ap, aj, ax, nb, bap, baj, bax] =>
    some <| relaxOp id parseRat parseRats showRats name opts rho bs dinv cheb shape b
      (Drv.C16.mkR n ap aj ax) (Drv.C16.mkR nb bap baj bax)
  | ["ext_c16_relax", "c", name, opts, rho, bs, dinv, cheb, shape, b, n, ap, aj, ax, nb, bap, baj, bax] =>
    some <| relaxOp CRat.conj parseCRat parseCRats showCRats name opts rho bs dinv cheb shape b
      (Drv.C16.mkC n ap aj ax) (Drv.C16.mkC nb bap baj bax)
  | ["ext_c16_csc", "r", n, ap, aj, ax] =>
    let C := cscOf (Drv.C16.mkR n ap aj ax)
    some <| showNats C.ap ++ ";" ++ showNats C.aj ++ ";" ++ showRats C.ax
  | ["ext_c16_csc", "c", n, ap, aj, ax] =>
    let C := cscOf (Drv.C16.mkC n ap aj ax)
    some <| showNats C.ap ++ ";" ++ showNats C.aj ++ ";" ++ showCRats C.ax
  | _ => none

end PyamgV.Drv.ExtE29
