import PyamgV.Driver.Util
import PyamgV.Model.C04Model
import PyamgV.Proofs.C04Loop
/-! Driver ops for property C04 (line protocol). Op names are prefixed `c04_`.

* `c04_coarsen <max_levels> <max_coarse> <sizes>`: the coarsening loop (`Coarsen.build` through
  `C04.runTrace`) on the observed step outcomes; reply `sizes;reason;calls` or `error`
* `c04_levelize <kinds> <max_levels> <max_coarse>`: `levelize` applied left to right; kinds are
  `plain`, `ptuple`, `list:<len>`, `plist:<len>`; reply `max_levels max_coarse len,len,...`
* `c04_ctor <rs|air|sa|rn|pw> <kinds> <max_levels> <max_coarse> <rows> <blocksizes>`: the loop of one
  constructor: effective limits (`levelize` left to right), the size its loop looks at (`nodeSize`),
  then `runTrace`; reply `max_levels' max_coarse' sizes;reason;calls`
* `c04_size <blockwise 0/1> <rows> <blocksize>`
* `c04_check <sym> <tol> <A0> <P0> <R0> <A1> ... <Ak>`: the proved checker on real levels; matrices are
  `rows:cols:entries` (row-major, `re|im` or a rational); reply `ok` or `fail:<level>:<clause>` -/
namespace PyamgV.Drv.C04
open PyamgV PyamgV.Drv PyamgV.C04

def parseKind (s : String) : Option OptKind :=
  match s.splitOn ":" with
  | ["plain"] => some .plain
  | ["ptuple"] => some .predefTuple
  | ["list", n] => n.toNat?.map .listPlain
  | ["plist", n] => n.toNat?.map .listPredef
  | _ => none

def parseMat (s : String) : Option Mat :=
  match s.splitOn ":" with
  | [r, c, d] => do
    let r ← r.toNat?
    let c ← c.toNat?
    some ⟨r, c, parseCRats d⟩
  | _ => none

def parseSym (s : String) : Option Sym :=
  if s = "herm" then some .herm else if s = "symm" then some .symm else if s = "none" then some .none else none

/-- `A0 P0 R0 A1 P1 R1 ... Ak` -/
def parseLevels : List String → Option (List Lvl)
  | [a] => do let A ← parseMat a; some [⟨A, ⟨0, 0, #[]⟩, ⟨0, 0, #[]⟩⟩]
  | a :: p :: r :: rest => do
    let A ← parseMat a
    let P ← parseMat p
    let R ← parseMat r
    let tl ← parseLevels rest
    some (⟨A, P, R⟩ :: tl)
  | _ => none

def handle : List String → Option String
  | ["c04_coarsen", ml, mc, sizes] =>
    match ml.toNat?, mc.toNat? with
    | some ml, some mc =>
      some <| match runTrace ml mc (parseNats sizes) with
        | none => "error"
        | some (tr, stop, calls) => showNats tr.toArray ++ ";" ++ stopName stop ++ ";" ++ toString calls
    | _, _ => some "error"
  | ["c04_levelize", kinds, ml, mc] =>
    match ml.toNat?, mc.toNat?, (listOf kinds).mapM parseKind with
    | some ml, some mc, some ks =>
      let (ml', mc', lens) := ks.foldl (fun (acc : Nat × Nat × List Nat) k =>
        let (a, b, len) := levelize k acc.1 acc.2.1
        (a, b, acc.2.2 ++ [len])) (ml, mc, [])
      some s!"{ml'} {mc'} {showNats lens.toArray}"
    | _, _, _ => some "error"
  | ["c04_ctor", c, kinds, ml, mc, rows, bs] =>
    let c? : Option Ctor := match c with
      | "rs" => some .rs | "air" => some .air | "sa" => some .sa | "rn" => some .rn | "pw" => some .pw
      | _ => none
    match c?, ml.toNat?, mc.toNat?, (listOf kinds).mapM parseKind with
    | some c, some ml, some mc, some ks =>
      let lim := ctorLimits c ks ml mc
      some <| match ctorTrace c ks ml mc (parseNats rows) (parseNats bs) with
        | none => "error"
        | some (tr, stop, calls) =>
          s!"{lim.1} {lim.2} " ++ showNats tr.toArray ++ ";" ++ stopName stop ++ ";" ++ toString calls
    | _, _, _, _ => some "error"
  | ["c04_size", bw, rows, bs] =>
    some <| toString (nodeSize (bw = "1") (nat rows) (nat bs))
  | "c04_check" :: sym :: tol :: mats =>
    match parseSym sym, parseRat? tol, parseLevels mats with
    | some sym, some tol, some ls =>
      some <| if checkHier sym tol ls then "ok" else
        let w := whyFail sym tol 0 ls
        if w = "ok" then "fail:?:checker-and-diagnostic-disagree" else w
    | _, _, _ => some "error"
  | _ => none

end PyamgV.Drv.C04
