import PyamgV.Driver.Util
/-! Driver ops for property C04 (line protocol). Op names are prefixed `c04_`. -/
namespace PyamgV.Drv.C04
open PyamgV PyamgV.Drv

def handle : List String → Option String
  | _ => none

end PyamgV.Drv.C04
