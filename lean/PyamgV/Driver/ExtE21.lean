import PyamgV.Driver.Util
import PyamgV.Model.C20Gallery
import PyamgV.Model.C20Read
import PyamgV.Model.ExtC20Spec
/-! Driver ops of extension task E21 (property C20; op names prefixed `ext_c20_`): the proof-side readings
`qform` / `rowdot` of the Poisson and Dirichlet elasticity models on a given vector, and the objects of the
closed-form spectrum theorems (`chebUQ`, `tvecQ`, `eigQ`). -/
namespace PyamgV.Drv.ExtE21
open PyamgV PyamgV.Drv

def showRatL (l : List Rat) : String := sh (l.map showRat)

def vecOf (s : String) : Nat → Rat :=
  let a := parseRats s
  fun i => a.getD i 0

def parseSpacing (s : String) : Option (Rat × Rat) :=
  match listOf s with
  | [a, b] => some (parseRat a, parseRat b)
  | _ => none

def handle : List String → Option String
  | ["ext_c20_pq", grid, ty, xs, rows] =>
    -- `qform` and the components `rowdot` (rows `rows`) of the Poisson model on the vector `xs`
    let g := (listOf grid).map nat
    some <| match PyamgV.C20.poisson g (ty = "FE") with
      | none => "err"
      | some T =>
        let x := vecOf xs
        showRat (PyamgV.C20.qform T x) ++ ";" ++ showRatL (((listOf rows).map nat).map fun p => PyamgV.C20.rowdot T x p)
  | ["ext_c20_eig", grid, ty, cs, rows] =>
    -- closed-form eigenpair: roots flag ; eigenvalue ; v = tvecQ grid (cs.map chebUQ) ; (A v)[rows] (model)
    let g := (listOf grid).map nat
    let c := (listOf cs).map parseRat
    some <| match PyamgV.C20.poisson g (ty = "FE") with
      | none => "err"
      | some T =>
        let n := g.foldl (· * ·) 1
        let v := PyamgV.C20.tvecQ g (c.map PyamgV.C20.chebUQ)
        let ok := g.length = c.length ∧ (List.zip g c).all fun (gi, ci) => PyamgV.C20.chebUQ ci gi = 0
        (if ok then "1" else "0") ++ ";" ++ showRat (PyamgV.C20.eigQ (ty = "FE") c) ++ ";" ++
          showRatL ((List.range n).map v) ++ ";" ++ showRatL (((listOf rows).map nat).map fun p => PyamgV.C20.rowdot T v p)
  | ["ext_c20_cheb", n, c] =>
    -- `U_0(c) .. U_n(c)` ; `A v` for the 1-D FD model, `v_j = U_j(c)`
    let nn := nat n
    let cc := parseRat c
    some <| match PyamgV.C20.poisson [nn] false with
      | none => "err"
      | some T =>
        showRatL ((List.range (nn + 1)).map (PyamgV.C20.chebUQ cc)) ++ ";" ++
          showRatL ((List.range nn).map fun p => PyamgV.C20.rowdot T (PyamgV.C20.chebUQ cc) p)
  | ["ext_c20_eq", x, y, spacing, e, nu, xs] =>
    -- Dirichlet elasticity model: ndof ; `qform` on the vector `xs`
    some <| match PyamgV.C20.q12d (nat x) (nat y) (parseSpacing spacing) (parseRat e) (parseRat nu) true with
      | none => "err"
      | some r => s!"{r.ndof};{showRat (PyamgV.C20.qform r.A (vecOf xs))}"
  | _ => none

end PyamgV.Drv.ExtE21
