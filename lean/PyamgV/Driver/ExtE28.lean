import PyamgV.Driver.Util
import PyamgV.Model.ExtC14Energy
import PyamgV.Model.ExtC14Evol
/-! Driver ops of extension task E28 (property C14; op names prefixed `ext_c14_`): the whole of
`energy_based_strength_of_connection` and of `evolution_strength_of_connection` (`NullDim == 1`, `k = 2^(m+1)`)
for canonical real CSR input.  They run the definitions `energyFull` / `evolFull` (and their stages) that
`Props/C14.lean` is about. -/
namespace PyamgV.Drv.ExtE28
open PyamgV PyamgV.Drv PyamgV.N PyamgV.C14

def mk (n ap aj ax : String) : List Row := rowsOf ⟨nat n, parseNats ap, parseNats aj, parseRats ax⟩

def showRows (rows : List Row) : String :=
  let (sp, sj, sx) := rowsToOut rows
  showNats sp ++ ";" ++ showNats sj ++ ";" ++ showRats sx

def handle : List String → Option String
  | ["ext_c14_energy", omega, neg, tiny, th, k, n, ap, aj, ax] =>
    -- reply: measure | result | per row `<v,Av>` | per row sum of |terms| of `<v,Av>` (conditioning of the denominator)
    let rows := mk n ap aj ax
    let n := rows.length
    let A := dense n rows
    let S := enS n (parseRat omega) A (nat k + 1)
    some <| if enDefined n A S rows then
      let sq := sqrtApprox 80
      let den := (List.range n).map fun i => enQuad n A (enCol S i none)
      let aden := (List.range n).map fun i =>
        sumR n fun r => sumR n fun c => absQ (enCol S i none r * mget A r c * enCol S i none c)
      showRows (enMeasure sq (parseRat neg) n A S rows) ++ "|" ++
        showRows (energyFull sq (parseRat omega) (parseRat neg) (parseRat tiny) (parseRat th) (nat k) rows) ++ "|" ++
        showRats den.toArray ++ "|" ++ showRats aden.toArray
    else "undefined"
  | ["ext_c14_evol", big, tiny, eps, wk, sqe, perf, c, m, symm, b, n, ap, aj, ax] =>
    -- reply: Atilde after incomplete_mat_mult_csr + eliminate_zeros | measure at the filter | result
    let rows := mk n ap aj ax
    let b := parseRats b
    some <| showRows (evAtilde (parseRat c) (nat m) rows) ++ "|" ++
      showRows (evMeasure (parseRat wk) (parseRat sqe) (parseRat perf) (parseRat c) (nat m) b rows) ++ "|" ++
      showRows (evolFull (parseRat big) (parseRat tiny) (parseRat eps) (parseRat wk) (parseRat sqe) (parseRat perf)
        (parseRat c) (nat m) (symm = "1") b rows)
  | ["ext_c14_sqrt", p, q] => some <| showRat (sqrtApprox (nat p) (parseRat q))
  | ["ext_c14_inner", na, aj, ax, nb, bj, bx] =>
    -- `my_inner` on one sparse row and one sparse column
    let a := (List.range (nat na)).map fun t => (rdN (parseNats aj) t, rdQ (parseRats ax) t)
    let b := (List.range (nat nb)).map fun t => (rdN (parseNats bj) t, rdQ (parseRats bx) t)
    some <| showRat (myInner a b)
  | _ => none

end PyamgV.Drv.ExtE28
