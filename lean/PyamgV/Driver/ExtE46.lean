import PyamgV.Driver.Util
import PyamgV.Model.ExtC17R5Mis

namespace PyamgV.Drv.ExtE46
open PyamgV PyamgV.Drv

/-- line-protocol ops of extension E46:
* `c13r5_mis n ap aj w maxiter` — `split.MIS(G, w, maxiter)` (`maxiter` = `-` for `None`), rational weights -/
def handle : List String → Option String
  | ["c13r5_mis", n, ap, aj, w, mi] =>
    let S : C13.Pat := ⟨nat n, parseNats ap, parseNats aj⟩
    let wa := parseRats w
    some (if !S.valid || wa.size != S.n then "invalid-input"
      else showInts (C17R5.misSplit S wa (if mi = "-" then none else some (nat mi))))
  | _ => none

end PyamgV.Drv.ExtE46
