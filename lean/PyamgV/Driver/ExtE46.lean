import PyamgV.Driver.Util
import PyamgV.Model.ExtC17R5Mis
import PyamgV.Model.ExtC17R5Ops
import PyamgV.Model.ExtGraph

namespace PyamgV.Drv.ExtE46
open PyamgV PyamgV.Drv

def flag (ok : Bool) : String := if ok then ";ok" else ";fault"

/-- line-protocol ops of extension E46:
* `c13r5_mis n ap aj w maxiter` — `split.MIS(G, w, maxiter)` (`maxiter` = `-` for `None`), rational weights (`C17R5.misSplit`);
* `c17r5_mis_parallel n ap aj active C F x y` — the checked model of `maximal_independent_set_parallel` with `max_iters = -1` and
  fuel `n + 1` (theorem `misParallel_total_rat`): `x;N;ok` | `x;N;fault` | `nonterm`;
* `c17r5_mis_k_parallel n ap aj k x y` — the checked model of `maximal_independent_set_k_parallel` with `max_iters = -1` and fuel
  `n + 1`, and the function model `G.misK` on the same input (theorem `misKParallel_total_rat`): `x;ok;xf` | `nonterm` -/
def handle : List String → Option String
  | ["c13r5_mis", n, ap, aj, w, mi] =>
    let S : C13.Pat := ⟨nat n, parseNats ap, parseNats aj⟩
    let wa := parseRats w
    some (if !S.valid || wa.size != S.n then "invalid-input"
      else showInts (C17R5.misSplit S wa (if mi = "-" then none else some (nat mi))))
  | ["c17r5_mis_parallel", n, ap, aj, act, c, f, x, y] =>
    match C17R4.misParallel C17R5.ratW (nat n) (parseInts ap) (parseInts aj) (int act) (int c) (int f) (parseInts x) (parseRats y)
        (-1) (nat n + 1) with
    | none => some "nonterm"
    | some r => some <| showInts r.val.1 ++ ";" ++ toString r.val.2 ++ flag r.ok
  | ["c17r5_mis_k_parallel", n, ap, aj, k, x, y] =>
    let api := parseInts ap
    let aji := parseInts aj
    match C17R4.misKParallel C17R5.ratW (nat n) api aji (int k) (parseInts x) (parseRats y) (-1) (nat n + 1) with
    | none => some "nonterm"
    | some r =>
      let fm := G.misK ⟨nat n, api.map Int.toNat, aji.map Int.toNat⟩ (int k).toNat C17R5.ratW.ofInt (parseRats y) none (nat n + 1)
      some <| showInts r.val ++ flag r.ok ++ ";" ++ (match fm with | some xf => showInts xf | none => "nonterm")
  | _ => none

end PyamgV.Drv.ExtE46
