import PyamgV.Driver.Util

namespace PyamgV.Drv.ExtE46

/-- line-protocol ops of extension E46 (filled in by the extension) -/
def handle : List String → Option String
  | _ => none

end PyamgV.Drv.ExtE46
