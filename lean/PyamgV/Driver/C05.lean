import PyamgV.Driver.Util
/-! Driver ops for property C05 (line protocol). Op names are prefixed `c05_`. -/
namespace PyamgV.Drv.C05
open PyamgV PyamgV.Drv

def handle : List String → Option String
  | _ => none

end PyamgV.Drv.C05
