import PyamgV.Driver.Util
import PyamgV.Model.C05Flag
import PyamgV.Model.C05Cycle
/-! Driver ops for property C05 (line protocol). Op names are prefixed `c05_`.

A smoother specification is written `name~key=val~key=val` (`_` = Python `None` as the name); values
are `n<rational>` (bool/int/float), `s<text>`, `N` (None), `o<tag>` (opaque object); lists of
specifications are separated by `|`. -/
namespace PyamgV.Drv.C05
open PyamgV PyamgV.Drv PyamgV.C05 PyamgV.K

def parseVal (s : String) : Val :=
  if s = "N" then .none
  else match s.toList with
    | 'n' :: r => match parseRat? (String.ofList r) with
      | some q => .num q
      | none => .other s
    | 's' :: r => .str (String.ofList r)
    | _ => .other s

def parseCfg (s : String) : Cfg :=
  match s.splitOn "~" with
  | [] => ⟨none, []⟩
  | nm :: kws =>
    ⟨if nm = "_" then none else some nm,
     kws.filterMap (fun kv => match kv.splitOn "=" with
       | [k, v] => some (k, parseVal v)
       | _ => none)⟩

def parseCfgs (s : String) : List Cfg := (s.splitOn "|").map parseCfg

def showOptStr : Option String → String
  | none => "_"
  | some s => s

def showBoolOpt : Option Bool → String
  | none => "reject"
  | some b => toString b

def mkCsr {α : Type} (p : String → Array α) (n ap aj ax : String) : Csr α := ⟨nat n, parseNats ap, parseNats aj, p ax⟩

/-- levels: 10 tokens each `n ap aj ax  pp pj px  nc rp rj rx  C`, then the coarsest `n ap aj ax` -/
def parseLevels {α : Type} (p : String → Array α) (pre post : List Cfg) :
    Nat → List String → Option (List (Lvl α) × Csr α)
  | _, [n, ap, aj, ax] => some ([], mkCsr p n ap aj ax)
  | i, n :: ap :: aj :: ax :: pp :: pj :: px :: nc :: rp :: rj :: rx :: c :: rest => do
    let s ← smOf (preAt pre i)
    let t ← smOf (postAt post i)
    let (ls, ac) ← parseLevels p pre post (i+1) rest
    some (⟨mkCsr p n ap aj ax, mkCsr p n pp pj px, mkCsr p nc rp rj rx, (parseNats c).toList, s, t⟩ :: ls, ac)
  | _, _ => none

def showMatWith {α : Type} (f : Array α → String) (m : Array (Array α)) : String :=
  if m.isEmpty then "-" else String.intercalate ";" (m.toList.map f)

def runCyc {α : Type} [Add α] [Sub α] [Mul α] [Div α] [OfNat α 0] [OfNat α 1] [DecidableEq α]
    (ofRat : Rat → α) (conj : α → α) (sh : Array α → String) (p : String → Array α)
    (cyc pre post : String) (rest : List String) : String :=
  let pre := parseCfgs pre
  let post := parseCfgs post
  match parseLevels p pre post 0 rest with
  | none => "unmodelled"
  | some (ls, ac) =>
    let c : Cyc := if cyc = "W" then .W else .V
    match denseM ofRat ac c ls, mopMat ofRat ac c ls with
    | some M, some M' =>
      let n := M.size
      let herm := M == mconjT conj M n n
      s!"{showMatWith sh M} {herm} {adjointPairs ofRat conj ls} {M == M'} {hermitianHierarchy conj ac ls}"
    | _, _ => "singular"

def handle : List String → Option String
  | ["c05_flag", pre, post, nl] =>
    some <| showBoolOpt (flag (parseCfgs pre) (parseCfgs post) (nat nl))
  | ["c05_levelok", a, b] => some <| toString (levelOk (parseCfg a) (parseCfg b))
  | ["c05_installed", pre, post, nl] =>
    -- names installed per level, to compare with the `__name__`s on the real hierarchy
    some <| sh ((List.range (nat nl)).map (fun i =>
      showOptStr (preAt (parseCfgs pre) i).name ++ "/" ++ showOptStr (postAt (parseCfgs post) i).name))
  | ["c05_warn", fl, accel] => some <| toString (cgWarns (fl = "true") (accel = "cg"))
  | ["c05_tables"] =>
    some <| sh (symmetricRelaxation.map showOptStr) ++ " " ++ sh (krylovRelaxation.map showOptStr) ++ " " ++
      (match defaultSweep with | .str s => s | _ => "?") ++ " " ++
      (match defaultNiter with | .num q => showRat q | _ => "?") ++ " " ++
      String.intercalate ";" (registry.map (fun (nm, keys) => showOptStr nm ++ ":" ++ sh keys))
  | "c05_cyc" :: "r" :: cyc :: pre :: post :: rest =>
    some <| runCyc (α := Rat) id id showRats parseRats cyc pre post rest
  | "c05_cyc" :: "c" :: cyc :: pre :: post :: rest =>
    some <| runCyc (α := CRat) CRat.ofRat CRat.conj showCRats parseCRats cyc pre post rest
  | _ => none

end PyamgV.Drv.C05
