import PyamgV.Driver.Util
/-! Driver ops for property C17 (line protocol). Op names are prefixed `c17_`. -/
namespace PyamgV.Drv.C17
open PyamgV PyamgV.Drv

def handle : List String → Option String
  | _ => none

end PyamgV.Drv.C17
