import PyamgV.Driver.Util
import PyamgV.Proofs.Ck
import PyamgV.Proofs.Safe
import PyamgV.Proofs.BfsCk
import PyamgV.Proofs.SocCk
import PyamgV.Model.C17Ck
import PyamgV.Proofs.C17Safe3
import PyamgV.Proofs.C17Safe4
import PyamgV.Proofs.C17Safe5
/-! Driver ops for property C17 (line protocol). Op names are prefixed `c17_`.
Every op runs the *checked* (`Ck`) model of one kernel on exact rationals and prints the value
(`.val`, compared with the real kernel) followed by `;ok` / `;fault` (the flag the safety theorems
are about), or `nonterm` when a strided loop runs out of fuel. -/
namespace PyamgV.Drv.C17
open PyamgV PyamgV.Drv PyamgV.Ck

def absR (q : Rat) : Rat := if q < 0 then -q else q
def maxR (a b : Rat) : Rat := if a < b then b else a
/-- `std::numeric_limits<double>::min()` = 2^-1022 -/
def tinyR : Rat := 1 / ((2 ^ 1022 : Nat) : Rat)

def ckOps : Ck.Ops Rat := ⟨(· * ·), (· + ·), (· - ·), (· / ·), 0, fun q => q == 0⟩
def kOps : C17.KOps Rat := ⟨(· * ·), (· + ·), (· - ·), (· / ·), 0, 1, fun q => q == 0, absR, maxR, tinyR, id⟩
def socOps : SocCk.Ops Rat := ⟨absR, maxR, fun a b => decide (b ≤ a), (· * ·), tinyR⟩
/-- `classical_strength_of_connection_min` is the same loop with `norm a = -a` and the running maximum started at 0 -/
def socMinOps : SocCk.Ops Rat := ⟨fun a => -a, maxR, fun a b => decide (b ≤ a), (· * ·), 0⟩
def symOps : C17.SymOps Rat := ⟨fun a => a * a, fun a b => decide (b ≤ a)⟩

/-- `std::numeric_limits<double>::max()` = 2^1024 - 2^971 -/
def bigR : Rat := (((2 ^ 1024 - 2 ^ 971 : Nat) : Int) : Rat)
def minR (a b : Rat) : Rat := if b < a then b else a
def fOps : C17.FOps Rat := ⟨1, 0, bigR, minR, fun a b => decide (b ≤ a), (· * ·), fun q => q == 0⟩
def pOps : C17.POps Rat := ⟨1, fun a => -a, 0, fun v m => decide (m < absR v), absR, -1⟩
/-- distances with `none` = +infinity -/
def bOps : C17.BOps (Option Rat) :=
  ⟨fun a b => match a, b with | some x, some y => some (x + y) | _, _ => none,
   fun a b => match a, b with | some x, some y => decide (x < y) | some _, none => true | none, _ => false⟩

def mkG (n ap aj ax : String) : Ck.Csr Rat := ⟨nat n, parseInts ap, parseInts aj, parseRats ax⟩
def flag (b : Bool) : String := if b then ";ok" else ";fault"
def outR (r : Ck (Array Rat)) : String := showRats r.val ++ flag r.ok
def outO (r : Option (Ck (Array Rat))) : String :=
  match r with
  | none => "nonterm"
  | some r => outR r
def outXT (r : Option (Ck (C17.XT Rat))) (both : Bool) : String :=
  match r with
  | none => "nonterm"
  | some r => showRats r.val.1 ++ (if both then ";" ++ showRats r.val.2 else "") ++ flag r.ok

def handle : List String → Option String
  | ["c17_gs", n, ap, aj, ax, b, x, s0, s1, s2] =>
    let G := mkG n ap aj ax
    some <| outO (Ck.forStride (int s1) (int s2) (Ck.gsRow ckOps G (parseRats b)) (G.n + 1) (int s0) (pure (parseRats x)))
  | ["c17_sor", om, n, ap, aj, ax, b, x, s0, s1, s2] =>
    let G := mkG n ap aj ax
    some <| outO (C17.sorSweep kOps (parseRat om) G (parseRats b) (int s0) (int s1) (int s2) (G.n + 1) (parseRats x))
  | ["c17_jac", om, n, ap, aj, ax, b, x, temp, s0, s1, s2] =>
    let G := mkG n ap aj ax
    some <| outXT (C17.jacobi kOps (parseRats om) G (parseRats b) (int s0) (int s1) (int s2) (G.n + 1) (parseRats x) (parseRats temp)) false
  | ["c17_jaci", om, n, ap, aj, ax, b, x, idx] =>
    some <| outR (C17.jacobiIndexed kOps (parseRats om) (mkG n ap aj ax) (parseRats b) (parseInts idx) (parseRats x))
  | ["c17_gsi", n, ap, aj, ax, b, x, idx, s0, s1, s2] =>
    let Id := parseInts idx
    some <| outO (C17.gsIndexed kOps (mkG n ap aj ax) (parseRats b) Id (int s0) (int s1) (int s2) (Id.size + 1) (parseRats x))
  | ["c17_gsne", om, n, ap, aj, ax, b, x, dinv, s0, s1, s2] =>
    let G := mkG n ap aj ax
    some <| outO (C17.gsNe kOps (parseRat om) G (parseRats b) (parseRats dinv) (int s0) (int s1) (int s2) (G.n + 1) (parseRats x))
  | ["c17_gsnr", om, n, ap, aj, ax, r, x, dinv, s0, s1, s2] =>
    let G := mkG n ap aj ax
    some <| outXT (C17.gsNr kOps (parseRat om) G (parseRats dinv) (int s0) (int s1) (int s2) (G.n + 1) (parseRats x) (parseRats r)) true
  | ["c17_scalecols", n, ap, aj, ax, xx] =>
    some <| outR (C17.scaleColumns kOps (mkG n ap aj ax) (parseRats xx))
  | ["c17_scalerows", n, ap, aj, ax, xx] =>
    some <| outR (C17.scaleRows kOps (mkG n ap aj ax) (parseRats xx))
  | ["c17_maxrow", n, ap, aj, ax, x] =>
    some <| outR (C17.maxRowValue kOps (mkG n ap aj ax) (parseRats x))
  | ["c17_pass1", n, sp, sj, split, pp] =>
    let r := C17.interpPass1 (nat n) (parseInts sp) (parseInts sj) (parseInts split) (parseInts pp)
    some <| showInts r.val ++ flag r.ok
  | ["c17_naive", n, ap, aj, x, y] =>
    let r := C17.naiveAgg (nat n) (parseInts ap) (parseInts aj) (parseInts x) (parseInts y)
    let k := (r.val.2.2 - 1).toNat
    some <| showInts r.val.1 ++ ";" ++ showInts (r.val.2.1.extract 0 k) ++ ";" ++ toString k ++ flag r.ok
  | ["c17_stdagg", n, ap, aj, x, y] =>
    let r := C17.stdAgg (nat n) (parseInts ap) (parseInts aj) (parseInts x) (parseInts y)
    let k := r.val.2.2.toNat
    some <| showInts r.val.1 ++ ";" ++ showInts (r.val.2.1.extract 0 k) ++ ";" ++ toString r.val.2.2 ++ flag r.ok
  | ["c17_bfs", n, ap, aj, seed, order, level] =>
    let G : BfsCk.Csr := ⟨nat n, parseInts ap, parseInts aj⟩
    let r := BfsCk.bfs G (int seed) (parseInts order) (parseInts level) (G.n + 1)
    let k := r.val.2.2.toNat
    some <| showInts (r.val.1.extract 0 k) ++ ";" ++ showInts r.val.2.1 ++ flag r.ok
  | ["c17_soc_abs", th, n, ap, aj, ax, sp, sj, sx] =>
    let G : SocCk.Csr Rat := ⟨nat n, parseInts ap, parseInts aj, parseRats ax⟩
    let r := SocCk.kernel socOps (parseRat th) G (parseInts sp) (parseInts sj) (parseRats sx)
    let k := r.val.2.2.2.toNat
    some <| showInts r.val.1 ++ ";" ++ showInts (r.val.2.1.extract 0 k) ++ ";" ++ showRats (r.val.2.2.1.extract 0 k) ++ flag r.ok
  | ["c17_soc_min", th, n, ap, aj, ax, sp, sj, sx] =>
    let G : SocCk.Csr Rat := ⟨nat n, parseInts ap, parseInts aj, parseRats ax⟩
    let r := SocCk.kernel socMinOps (parseRat th) G (parseInts sp) (parseInts sj) (parseRats sx)
    let k := r.val.2.2.2.toNat
    some <| showInts r.val.1 ++ ";" ++ showInts (r.val.2.1.extract 0 k) ++ ";" ++ showRats (r.val.2.2.1.extract 0 k) ++ flag r.ok
  | ["c17_symsoc", th, n, ap, aj, ax, sp, sj, sx] =>
    let r := C17.symSoc kOps symOps (parseRat th) (mkG n ap aj ax) (parseInts sp) (parseInts sj) (parseRats sx)
    let k := r.val.2.2.2.toNat
    some <| showInts r.val.1 ++ ";" ++ showInts (r.val.2.1.extract 0 k) ++ ";" ++ showRats (r.val.2.2.1.extract 0 k) ++ flag r.ok
  | ["c17_distf", eps, n, ap, aj, ax] => some <| outR (C17.distFilter fOps (parseRat eps) (mkG n ap aj ax))
  | ["c17_adistf", eps, n, ap, aj, ax] => some <| outR (C17.absDistFilter fOps (parseRat eps) (mkG n ap aj ax))
  | ["c17_minblocks", nb, bs, sx, tx] => some <| outR (C17.minBlocks fOps (nat nb) (nat bs) (parseRats sx) (parseRats tx))
  | ["c17_jacne", om, n, ap, aj, ax, delta, x, temp, s0, s1, s2] =>
    let G := mkG n ap aj ax
    some <| outXT (C17.jacobiNe kOps (parseRats om) G (parseRats delta) (int s0) (int s1) (int s2) (G.n + 1) (parseRats x) (parseRats temp)) true
  | ["c17_onepoint", pp, pj, px, n, cp, cj, cx, split] =>
    let r := C17.onePoint pOps (parseInts pp) (parseInts pj) (parseRats px) (mkG n cp cj cx) (parseInts split)
    let k := r.val.2.2.2.toNat
    some <| showInts r.val.1 ++ ";" ++ showInts (r.val.2.1.extract 0 k) ++ ";" ++ showRats (r.val.2.2.1.extract 0 k) ++ flag r.ok
  | ["c17_bf", n, ap, aj, ax, d, m, p] =>
    let G : Ck.Csr (Option Rat) := ⟨nat n, parseInts ap, parseInts aj, (parseRats ax).map some⟩
    let r := C17.bellmanFord bOps G (G.n + 2) (pure (parseORats d, parseInts m, parseInts p, false))
    some <| (if r.val.2.2.2 then showORats r.val.1 ++ ";" ++ showInts r.val.2.1 ++ ";" ++ showInts r.val.2.2.1 else "nonterm") ++ flag r.ok
  | ["c17_mis", n, ap, aj, act, c, f, x] =>
    let G : Safe.Csr := ⟨nat n, parseNats ap, parseNats aj⟩
    let r := Safe.misSerial G (int act) (int c) (int f) ⟨parseInts x, true⟩
    some <| showInts r.x ++ flag r.ok
  | _ => none

end PyamgV.Drv.C17
