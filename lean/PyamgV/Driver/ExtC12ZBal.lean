import PyamgV.Driver.Util

namespace PyamgV.Drv.ExtC12ZBal

/-- line-protocol ops of extension E56, part Bal -/
def handle : List String → Option String
  | _ => none

end PyamgV.Drv.ExtC12ZBal
