import PyamgV.Driver.Util
import PyamgV.Model.ExtC12ZBal
/-! Driver ops of extension task E56, part 1: the hypotheses of `every_pass_final` / `cluster_final` in checkable form.

* `ext_c12z_sym n ap aj ax` -> `1` / `0`: the sparsity pattern is symmetric (`C12ZB.symEB`, the Boolean form of `SymE`:
  `symE_of_bool`)
* `ext_c12z_grid n ap aj ax h tol` -> `1` / `0`: every weight is a positive multiple of `h`, `>= tol`, and `2 tol < h`
  (`C12ZB.gridB`: `grid_of_bool`) -/
namespace PyamgV.Drv.ExtC12ZBal
open PyamgV PyamgV.Drv

def flag (b : Bool) : String := if b then "1" else "0"

def handle : List String → Option String
  | ["ext_c12z_sym", n, ap, aj, ax] =>
    some (flag (C12ZB.symEB ⟨nat n, parseNats ap, parseNats aj, parseRats ax⟩))
  | ["ext_c12z_grid", n, ap, aj, ax, h, tol] =>
    some (flag (C12ZB.gridB ⟨nat n, parseNats ap, parseNats aj, parseRats ax⟩ (parseRat h) (parseRat tol)))
  | _ => none

end PyamgV.Drv.ExtC12ZBal
