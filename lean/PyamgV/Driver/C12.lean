import PyamgV.Driver.Util
/-! Driver ops for property C12 (line protocol). Op names are prefixed `c12_`. -/
namespace PyamgV.Drv.C12
open PyamgV PyamgV.Drv

def handle : List String → Option String
  | _ => none

end PyamgV.Drv.C12
