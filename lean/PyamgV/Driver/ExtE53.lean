import PyamgV.Driver.Util
import PyamgV.Driver.C10
import PyamgV.Model.ExtC10cComplex
import PyamgV.Model.ExtC10dEnergy
/-! Driver ops of extension task E53 (property C10; op names prefixed `ext_c10d_`):

* `ext_c10d_energy r|c cg|cgnr|gmres ...` -- the whole of `energy_prolongation_smoother` (`C10dM.energyFullCG` /
  `energyFullGmres`): pattern selection with `degree` / `prefilter` / root rows, `filter_operator` pass, Krylov
  loop, `postfilter` and second pass.  Reply `pat1#pat2#P#P1#flags#checks#diag1#diag2` or `error:<what>`. -/
namespace PyamgV.Drv.ExtE53
open PyamgV PyamgV.Drv PyamgV.Drv.C10 PyamgV.C10M PyamgV.C10bM PyamgV.C10cM PyamgV.C10dM

def showPat (p : Pat) : String :=
  if p.isEmpty then "none" else String.intercalate ";" (p.toList.map showNats)

def optNat (s : String) : Option Nat := if s = "-" then none else s.toNat?
def optRat (s : String) : Option Rat := if s = "-" then none else parseRat? s

section generic
variable {α : Type} [Add α] [Sub α] [Mul α] [Div α] [OfNat α 0] [OfNat α 1] [DecidableEq α]

def cgDiag (showA : Array α → String) (o : EnergyOut α) : String :=
  (if o.breakdown then "breakdown" else "regular") ++ "," ++ toString o.ups.length ++ "@" ++ showA o.sums.toArray

def gmDiag (showA : Array α → String) (o : Option (EnergyGmresOut α)) : String :=
  match o with
  | none => "regular,generic,0@-@-@-"
  | some o =>
    let c := o.core
    (if c.ok then (if c.breakdown then "breakdown" else "regular") else "singular") ++ "," ++
      (if c.lucky then "lucky" else "generic") ++ "," ++ toString c.ups.length ++ "@" ++
      showA c.normrs.toArray ++ "@" ++ showA c.hns.toArray ++ "@" ++ showA c.diag.toArray

def report {ι : Type} (showM : Mat α → String) (diag : ι → String) (chk : Out α ι → String)
    (r : Except String (Out α ι)) : String :=
  match r with
  | .error e => "error:" ++ e
  | .ok o =>
    showPat o.pat1 ++ "#" ++ (if o.second then showPat o.pat2 else "-") ++ "#" ++ showM o.P ++ "#" ++ showM o.P1 ++ "#" ++
      (if o.fitted then "fitted" else "plain") ++ "," ++ (if o.second then "second" else "single") ++ "#" ++
      chk o ++ "#" ++ diag o.info1 ++ "#" ++ (match o.info2 with | none => "-" | some i => diag i)

end generic

def handle : List String → Option String
  | ["ext_c10d_energy", "r", kry, wt, bsA, degree, preT, preK, postT, postK, root, maxiter, n, m, nd, rpb, cpb, nA,
      ap, aj, ax, tpat, a, aux, t, b, bf, cpts, tol, tol2] =>
    let o : Opts := { degree := nat degree, pre := ⟨optRat preT, optNat preK⟩, post := ⟨optRat postT, optNat postK⟩,
                      root := root == "1", maxiter := nat maxiter }
    let atilde := PyamgV.C19.rowsOf (nat nA) (parseNats ap) (parseNats aj) (parseRats ax)
    let A := matR n n a
    let T := matR n m t
    let B := matR m nd b
    let Bf := matR n nd bf
    if kry == "gmres" then
      some <| report showMatR (gmDiag showRats) (fun _ => "-") <|
        energyFullGmres PyamgV.C19.nsqQ ratScal (nat wt) (nat bsA) (parseRats aux) o (nat n) (nat m) (nat nd) (nat rpb) (nat cpb)
          atilde (parsePat tpat) A T B Bf (parseNats cpts) (parseRat tol) (parseRat tol2)
    else
      some <| report showMatR (cgDiag showRats) (fun _ => "-") <|
        energyFullCG PyamgV.C19.nsqQ id (fun x y => decide (x < y)) (kry == "cgnr") (nat wt) (nat bsA) (parseRats aux) o
          (nat n) (nat m) (nat nd) (nat rpb) (nat cpb) atilde (parsePat tpat) A T B Bf (parseNats cpts) (parseRat tol) (parseRat tol2)
  | ["ext_c10d_energy", "c", kry, wt, bsA, degree, preT, preK, postT, postK, root, maxiter, n, m, nd, rpb, cpb, nA,
      ap, aj, ax, tpat, a, aux, t, b, bf, cpts, tol, tol2] =>
    let o : Opts := { degree := nat degree, pre := ⟨optRat preT, optNat preK⟩, post := ⟨optRat postT, optNat postK⟩,
                      root := root == "1", maxiter := nat maxiter }
    let atilde := PyamgV.C19.rowsOf (nat nA) (parseNats ap) (parseNats aj) (parseCRats ax)
    let A := matC n n a
    let T := matC n m t
    let B := matC m nd b
    let Bf := matC n nd bf
    if kry == "gmres" then
      some <| report showMatC (gmDiag showCRats) (fun _ => "-") <|
        energyFullGmres CRat.normSq cratScal (nat wt) (nat bsA) (parseCRats aux) o (nat n) (nat m) (nat nd) (nat rpb) (nat cpb)
          atilde (parsePat tpat) A T B Bf (parseNats cpts) (parseCRat tol) (parseCRat tol2)
    else
      some <| report showMatC (cgDiag showCRats) (fun _ => "-") <|
        energyFullCG CRat.normSq CRat.conj cratLt (kry == "cgnr") (nat wt) (nat bsA) (parseCRats aux) o
          (nat n) (nat m) (nat nd) (nat rpb) (nat cpb) atilde (parsePat tpat) A T B Bf (parseNats cpts) (parseCRat tol) (parseCRat tol2)
  | _ => none

end PyamgV.Drv.ExtE53
