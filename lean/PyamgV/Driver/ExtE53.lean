import PyamgV.Driver.Util
import PyamgV.Driver.C10
import PyamgV.Model.ExtC10cComplex
import PyamgV.Model.ExtC10dEnergy
import PyamgV.Driver.ExtE48
import PyamgV.Proofs.ExtC10dEnergy
import PyamgV.Model.ExtC10dHierarchy
/-! Driver ops of extension task E53 (property C10; op names prefixed `ext_c10d_`):

* `ext_c10d_hier root none|jacobi|cg|cgnr|gmres ...` -- the level loop of `smoothed_aggregation_solver` / `rootnode_solver`
  (`C10dM.hierarchy` on `Rat` with 64-bit square roots); one reply block per level (`T#Bc#P#Anext#exact#<energy report>`),
  joined by `~`, the error (if any) last;
* `ext_c10d_energy r|c cg|cgnr|gmres ...` -- the whole of `energy_prolongation_smoother` (`C10dM.energyFullCG` /
  `energyFullGmres`): pattern selection with `degree` / `prefilter` / root rows, `filter_operator` pass, Krylov
  loop, `postfilter` and second pass.  Reply `pat1#pat2#P#P1#flags#checks#diag1#diag2` or `error:<what>`. -/
namespace PyamgV.Drv.ExtE53
open PyamgV PyamgV.Drv PyamgV.Drv.C10 PyamgV.C10M PyamgV.C10bM PyamgV.C10cM PyamgV.C10dM

def showPat (p : Pat) : String :=
  if p.isEmpty then "none" else String.intercalate ";" (p.toList.map showNats)

def optNat (s : String) : Option Nat := if s = "-" then none else s.toNat?
def optRat (s : String) : Option Rat := if s = "-" then none else parseRat? s

section generic
variable {α : Type} [Add α] [Sub α] [Mul α] [Div α] [OfNat α 0] [OfNat α 1] [DecidableEq α]

def cgDiag (showA : Array α → String) (o : EnergyOut α) : String :=
  (if o.breakdown then "breakdown" else "regular") ++ "," ++ toString o.ups.length ++ "@" ++ showA o.sums.toArray

def gmDiag (showA : Array α → String) (o : Option (EnergyGmresOut α)) : String :=
  match o with
  | none => "regular,generic,0@-@-@-"
  | some o =>
    let c := o.core
    (if c.ok then (if c.breakdown then "breakdown" else "regular") else "singular") ++ "," ++
      (if c.lucky then "lucky" else "generic") ++ "," ++ toString c.ups.length ++ "@" ++
      showA c.normrs.toArray ++ "@" ++ showA c.hns.toArray ++ "@" ++ showA c.diag.toArray

/-- the clause `C10d.Fitted` of `energyFullCG_property` / `energyFullGmres_property`, decided on a result -/
def fittedB (n m nd rpb cpb : Nat) (pat : Pat) (cpts : Array Nat) (B Bf P : Mat α) : Bool :=
  let PB := Mat.mul P B
  decide (P.rows = n) && decide (P.cols = m) &&
  (List.range n).all fun i =>
    match PyamgV.C10c.rootIdx cpts i with
    | none =>
      ((pat.getD (i / rpb) #[]).isEmpty || (List.range nd).all fun c => PB.get i c == Bf.get i c) &&
      ((List.range m).all fun j => (pat.getD (i / rpb) #[]).contains (j / cpb) || P.get i j == 0)
    | some k => (List.range m).all fun j => P.get i j == (if k = j then 1 else 0)

/-- hypotheses (`hyps`) and conclusion (`prop`) of the property theorems, decided on the call and on the result -/
def chkFull {ι : Type} (n m nd rpb cpb : Nat) (A T B Bf : Mat α) (cpts : Array Nat) (o : Out α ι) : String :=
  (if PyamgV.C10c.hypsOK n m nd rpb cpb o.pat1 A T B && PyamgV.C10c.patInB m cpb o.pat then "hyps" else "NOHYPS") ++ "," ++
  (if (if !o.fitted && !o.second then PyamgV.Drv.ExtE48.relB n m nd rpb cpb o.pat cpts B T o.P
       else fittedB n m nd rpb cpb o.pat cpts B Bf o.P) then "prop" else "NOPROP")

def report {ι : Type} (showM : Mat α → String) (diag : ι → String) (chk : Out α ι → String)
    (r : Except String (Out α ι)) : String :=
  match r with
  | .error e => "error:" ++ e
  | .ok o =>
    showPat o.pat1 ++ "#" ++ (if o.second then showPat o.pat2 else "-") ++ "#" ++ showM o.P ++ "#" ++ showM o.P1 ++ "#" ++
      (if o.fitted then "fitted" else "plain") ++ "," ++ (if o.second then "second" else "single") ++ "#" ++
      chk o ++ "#" ++ diag o.info1 ++ "#" ++ (match o.info2 with | none => "-" | some i => diag i)

end generic

/-! ### hierarchies -/

/-- one level `nFine:nCol:cp:ci:nA:ap:aj:ax:cpts:w` -/
def parseLevel (s : String) : LvlIn Rat :=
  match s.splitOn ":" with
  | [nf, nc, cp, ci, nA, ap, aj, ax, cpts, w] =>
    { nFine := nat nf, nCol := nat nc, cp := parseNats cp, ci := parseNats ci,
      atilde := PyamgV.C19.rowsOf (nat nA) (parseNats ap) (parseNats aj) (parseRats ax), cpts := parseNats cpts,
      w := parseRat w }
  | _ => { nFine := 0, nCol := 0, cp := #[], ci := #[], atilde := [], cpts := #[], w := 0 }

/-- rounding to the nearest multiple of `2^-bits` (`bits = 0`: exact) -/
def rndQ (bits : Nat) (q : Rat) : Rat :=
  if bits = 0 then q else
    let s : Rat := ((2 ^ bits : Nat) : Rat)
    ((q * s + 1 / 2).floor : Rat) / s

def showLevel {δ : Type} (diag : δ → String) (o : LvlOut Rat δ) : String :=
  showMatR o.T ++ "#" ++ showMatR o.Bc ++ "#" ++ showMatR o.P ++ "#" ++ showMatR o.Anext ++ "#" ++
    (if o.st.ok then "exact" else "inexact") ++ "#" ++ diag o.diag

/-- run `hierarchy` on the longest prefix of the levels on which it returns -/
def runHier {δ : Type} (diag : δ → String) (run : List (LvlIn Rat) → Except String (List (LvlOut Rat δ)))
    (ls : List (LvlIn Rat)) : String :=
  let rec go (k : Nat) (fuel : Nat) (err : String) : String :=
    match fuel with
    | 0 => "error:" ++ err
    | fuel + 1 =>
      match run (ls.take k) with
      | .ok outs => String.intercalate "~" (outs.map (showLevel diag)) ++ (if err = "" then "" else "~error:" ++ err)
      | .error e => if k = 0 then "error:" ++ e else go (k - 1) fuel (if err = "" then e else err)
  go ls.length (ls.length + 1) ""

def handle : List String → Option String
  | ["ext_c10d_hier", root, kry, wt, degree, preT, preK, postT, postK, maxiter, k1, n, nd, a, b, levels, tol, tolfit, bits] =>
    let o : Opts := { degree := nat degree, pre := ⟨optRat preT, optNat preK⟩, post := ⟨optRat postT, optNat postK⟩,
                      root := root == "1", maxiter := nat maxiter }
    let A := matR n n a
    let B := matR n nd b
    let ls := if levels = "-" then [] else (levels.splitOn "~").map parseLevel
    let rt := root == "1"
    let tl := parseRat tol
    let absQ : Rat → Rat := fun x => if x < 0 then -x else x
    if kry == "none" then
      some <| runHier (fun _ => "-") (fun l => hierarchy ratOpsD id (rndQ (nat bits)) rt (parseRat tolfit) smoNone l (nat k1) A B) ls
    else if kry == "jacobi" then
      -- `wt` = weighting code (2 = Richardson), `degree` = number of sweeps
      some <| runHier (fun _ => "-") (fun l => hierarchy ratOpsD id (rndQ (nat bits)) rt (parseRat tolfit)
        (smoJacobi absQ (nat wt) (nat degree)) l (nat k1) A B) ls
    else if kry == "gmres" then
      some <| runHier (fun (d : Out Rat _) => report showMatR (gmDiag showRats) (fun _ => "-") (.ok d))
        (fun l => hierarchy ratOpsD id (rndQ (nat bits)) rt (parseRat tolfit)
          (smoEnergyGmres PyamgV.C19.nsqQ absQ ratScal (nat wt) o tl tl) l (nat k1) A B) ls
    else
      some <| runHier (fun (d : Out Rat _) => report showMatR (cgDiag showRats) (fun _ => "-") (.ok d))
        (fun l => hierarchy ratOpsD id (rndQ (nat bits)) rt (parseRat tolfit)
          (smoEnergyCG PyamgV.C19.nsqQ absQ id (fun x y => decide (x < y)) (kry == "cgnr") (nat wt) o tl tl) l (nat k1) A B) ls
  | ["ext_c10d_energy", "r", kry, wt, bsA, degree, preT, preK, postT, postK, root, maxiter, n, m, nd, rpb, cpb, nA,
      ap, aj, ax, tpat, a, aux, t, b, bf, cpts, tol, tol2] =>
    let o : Opts := { degree := nat degree, pre := ⟨optRat preT, optNat preK⟩, post := ⟨optRat postT, optNat postK⟩,
                      root := root == "1", maxiter := nat maxiter }
    let atilde := PyamgV.C19.rowsOf (nat nA) (parseNats ap) (parseNats aj) (parseRats ax)
    let A := matR n n a
    let T := matR n m t
    let B := matR m nd b
    let Bf := matR n nd bf
    if kry == "gmres" then
      some <| report showMatR (gmDiag showRats) (chkFull (nat n) (nat m) (nat nd) (nat rpb) (nat cpb) A T B Bf (parseNats cpts)) <|
        energyFullGmres PyamgV.C19.nsqQ ratScal (nat wt) (nat bsA) (parseRats aux) o (nat n) (nat m) (nat nd) (nat rpb) (nat cpb)
          atilde (parsePat tpat) A T B Bf (parseNats cpts) (parseRat tol) (parseRat tol2)
    else
      some <| report showMatR (cgDiag showRats) (chkFull (nat n) (nat m) (nat nd) (nat rpb) (nat cpb) A T B Bf (parseNats cpts)) <|
        energyFullCG PyamgV.C19.nsqQ id (fun x y => decide (x < y)) (kry == "cgnr") (nat wt) (nat bsA) (parseRats aux) o
          (nat n) (nat m) (nat nd) (nat rpb) (nat cpb) atilde (parsePat tpat) A T B Bf (parseNats cpts) (parseRat tol) (parseRat tol2)
  | ["ext_c10d_energy", "c", kry, wt, bsA, degree, preT, preK, postT, postK, root, maxiter, n, m, nd, rpb, cpb, nA,
      ap, aj, ax, tpat, a, aux, t, b, bf, cpts, tol, tol2] =>
    let o : Opts := { degree := nat degree, pre := ⟨optRat preT, optNat preK⟩, post := ⟨optRat postT, optNat postK⟩,
                      root := root == "1", maxiter := nat maxiter }
    let atilde := PyamgV.C19.rowsOf (nat nA) (parseNats ap) (parseNats aj) (parseCRats ax)
    let A := matC n n a
    let T := matC n m t
    let B := matC m nd b
    let Bf := matC n nd bf
    if kry == "gmres" then
      some <| report showMatC (gmDiag showCRats) (chkFull (nat n) (nat m) (nat nd) (nat rpb) (nat cpb) A T B Bf (parseNats cpts)) <|
        energyFullGmres CRat.normSq cratScal (nat wt) (nat bsA) (parseCRats aux) o (nat n) (nat m) (nat nd) (nat rpb) (nat cpb)
          atilde (parsePat tpat) A T B Bf (parseNats cpts) (parseCRat tol) (parseCRat tol2)
    else
      some <| report showMatC (cgDiag showCRats) (chkFull (nat n) (nat m) (nat nd) (nat rpb) (nat cpb) A T B Bf (parseNats cpts)) <|
        energyFullCG CRat.normSq CRat.conj cratLt (kry == "cgnr") (nat wt) (nat bsA) (parseCRats aux) o
          (nat n) (nat m) (nat nd) (nat rpb) (nat cpb) atilde (parsePat tpat) A T B Bf (parseNats cpts) (parseCRat tol) (parseCRat tol2)
  | _ => none

end PyamgV.Drv.ExtE53
