import PyamgV.Driver.Relax
import PyamgV.Driver.Graph
import PyamgV.Driver.Num
import PyamgV.Driver.C01
import PyamgV.Driver.C02
import PyamgV.Driver.C03
import PyamgV.Driver.C04
import PyamgV.Driver.C05
import PyamgV.Driver.C06
import PyamgV.Driver.C07
import PyamgV.Driver.C08
import PyamgV.Driver.C09
import PyamgV.Driver.C10
import PyamgV.Driver.C11
import PyamgV.Driver.C12
import PyamgV.Driver.C13
import PyamgV.Driver.C14
import PyamgV.Driver.C15
import PyamgV.Driver.C16
import PyamgV.Driver.C17
import PyamgV.Driver.C18
import PyamgV.Driver.C19
import PyamgV.Driver.C20
import PyamgV.Driver.ExtGraph
import PyamgV.Driver.ExtPairwise
import PyamgV.Driver.ExtMisc
import PyamgV.Driver.ExtE5
import PyamgV.Driver.ExtE6
import PyamgV.Driver.ExtE7
import PyamgV.Driver.ExtE8
import PyamgV.Driver.ExtE9
import PyamgV.Driver.ExtE10
import PyamgV.Driver.ExtE11
import PyamgV.Driver.ExtE12
import PyamgV.Driver.ExtE13
import PyamgV.Driver.ExtE14
import PyamgV.Driver.ExtE15
import PyamgV.Driver.ExtE16
import PyamgV.Driver.ExtE17
import PyamgV.Driver.ExtE18
import PyamgV.Driver.ExtE19
import PyamgV.Driver.ExtE20
import PyamgV.Driver.ExtE21
import PyamgV.Driver.ExtE22
import PyamgV.Driver.ExtE23
import PyamgV.Driver.ExtE24
import PyamgV.Driver.ExtE25
import PyamgV.Driver.ExtE26
import PyamgV.Driver.ExtE27
import PyamgV.Driver.ExtE28
import PyamgV.Driver.ExtE29
import PyamgV.Driver.ExtE30
import PyamgV.Driver.ExtE31
import PyamgV.Driver.ExtE32
import PyamgV.Driver.ExtE33
import PyamgV.Driver.ExtE34
import PyamgV.Driver.ExtE35
import PyamgV.Driver.ExtE36
import PyamgV.Driver.ExtE37
import PyamgV.Driver.ExtE38
import PyamgV.Driver.ExtE39
import PyamgV.Driver.ExtE40
import PyamgV.Driver.ExtE41
import PyamgV.Driver.ExtE42
import PyamgV.Driver.ExtE43
import PyamgV.Driver.ExtE44
import PyamgV.Driver.ExtE45
import PyamgV.Driver.ExtE46
import PyamgV.Driver.ExtE47
import PyamgV.Driver.ExtE48
import PyamgV.Driver.ExtE49
import PyamgV.Driver.ExtE50
import PyamgV.Driver.ExtE51
import PyamgV.Driver.ExtE52
import PyamgV.Driver.ExtE53
import PyamgV.Driver.ExtE54
import PyamgV.Driver.ExtE55
import PyamgV.Driver.ExtE56
import PyamgV.Driver.ExtE57
import PyamgV.Driver.ExtE58
import PyamgV.Driver.ExtE59
/-! The line-protocol driver: one request per line, one reply per line. Unknown ops reply `bad-op`. -/
namespace PyamgV.Drv

def handlers : List (List String → Option String) :=
  [Relax.handle, Graph.handle, Num.handle, C01.handle, C02.handle, C03.handle, C04.handle, C05.handle, C06.handle, C07.handle, C08.handle, C09.handle, C10.handle, C11.handle, C12.handle, C13.handle, C14.handle, C15.handle, C16.handle, C17.handle, C18.handle, C19.handle, C20.handle,
   ExtGraph.handle, ExtPairwise.handle, ExtMisc.handle,
   ExtE5.handle, ExtE6.handle, ExtE7.handle, ExtE8.handle, ExtE9.handle, ExtE10.handle, ExtE11.handle, ExtE12.handle, ExtE13.handle, ExtE14.handle,
   ExtE15.handle, ExtE16.handle, ExtE17.handle, ExtE18.handle, ExtE19.handle, ExtE20.handle, ExtE21.handle, ExtE22.handle, ExtE23.handle, ExtE24.handle, ExtE25.handle, ExtE26.handle, ExtE27.handle, ExtE28.handle, ExtE29.handle, ExtE30.handle,
   ExtE31.handle, ExtE32.handle, ExtE33.handle, ExtE34.handle, ExtE35.handle, ExtE36.handle, ExtE37.handle, ExtE38.handle, ExtE39.handle, ExtE40.handle, ExtE41.handle, ExtE42.handle, ExtE43.handle, ExtE44.handle, ExtE45.handle, ExtE46.handle, ExtE47.handle, ExtE48.handle, ExtE49.handle, ExtE50.handle,
   ExtE51.handle, ExtE52.handle, ExtE53.handle, ExtE54.handle, ExtE55.handle, ExtE56.handle,
   ExtE57.handle, ExtE58.handle, ExtE59.handle]

def dispatch (toks : List String) : String :=
  match handlers.findSome? (fun h => h toks) with
  | some s => s
  | none => "bad-op"

partial def loop (h : IO.FS.Stream) (out : IO.FS.Stream) : IO Unit := do
  let line ← h.getLine
  if line.isEmpty then return ()
  out.putStrLn (dispatch (line.trimAscii.toString.splitOn " "))
  loop h out

def main : IO Unit := do
  let out ← IO.getStdout
  loop (← IO.getStdin) out
  out.flush

end PyamgV.Drv
