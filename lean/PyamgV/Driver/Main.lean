import PyamgV.Driver.Relax
import PyamgV.Driver.Graph
import PyamgV.Driver.Num
/-! The line-protocol driver: one request per line, one reply per line. Unknown ops reply `bad-op`. -/
namespace PyamgV.Drv

def handlers : List (List String → Option String) := [Relax.handle, Graph.handle, Num.handle]

def dispatch (toks : List String) : String :=
  match handlers.findSome? (fun h => h toks) with
  | some s => s
  | none => "bad-op"

partial def loop (h : IO.FS.Stream) (out : IO.FS.Stream) : IO Unit := do
  let line ← h.getLine
  if line.isEmpty then return ()
  out.putStrLn (dispatch (line.trimAscii.toString.splitOn " "))
  loop h out

def main : IO Unit := do
  let out ← IO.getStdout
  loop (← IO.getStdin) out
  out.flush

end PyamgV.Drv
