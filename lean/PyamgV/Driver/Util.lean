import PyamgV.Model.CRat
/-! Line-protocol helpers: parsing and canonical printing. Import-free (core only). -/
namespace PyamgV.Drv

def parseRat? (s : String) : Option Rat :=
  match s.splitOn "/" with
  | [a] => a.toInt?.map (fun (z : Int) => (z : Rat))
  | [a, b] => do
    let p ← a.toInt?
    let q ← b.toInt?
    if q = 0 then none else some ((p : Rat) / (q : Rat))
  | _ => none
def parseRat (s : String) : Rat := (parseRat? s).getD 0
/-- complex: `re|im` (each a rational) or a plain rational -/
def parseCRat (s : String) : CRat :=
  match s.splitOn "|" with
  | [a, b] => ⟨parseRat a, parseRat b⟩
  | _ => ⟨parseRat s, 0⟩
def listOf (s : String) : List String := if s = "-" then [] else s.splitOn ","
def parseNats (s : String) : Array Nat := (listOf s).toArray.map (·.toNat?.getD 0)
def parseInts (s : String) : Array Int := (listOf s).toArray.map (·.toInt?.getD 0)
def parseRats (s : String) : Array Rat := (listOf s).toArray.map parseRat
def parseCRats (s : String) : Array CRat := (listOf s).toArray.map parseCRat
def parseORats (s : String) : Array (Option Rat) :=
  (listOf s).toArray.map (fun t => if t = "inf" then none else some (parseRat t))
def parseFloats (s : String) : Array Float :=
  (listOf s).toArray.map (fun t => Float.ofBits (t.toNat?.getD 0).toUInt64)
def nat (s : String) : Nat := s.toNat?.getD 0
def int (s : String) : Int := s.toInt?.getD 0

def sh (l : List String) : String := if l.isEmpty then "-" else String.intercalate "," l
def showRat (q : Rat) : String := if q.den = 1 then toString q.num else s!"{q.num}/{q.den}"
def showCRat (c : CRat) : String := showRat c.re ++ "|" ++ showRat c.im
def showNats (a : Array Nat) : String := sh (a.toList.map toString)
def showInts (a : Array Int) : String := sh (a.toList.map toString)
def showRats (a : Array Rat) : String := sh (a.toList.map showRat)
def showCRats (a : Array CRat) : String := sh (a.toList.map showCRat)
def showORats (a : Array (Option Rat)) : String :=
  sh (a.toList.map fun | none => "inf" | some q => showRat q)
/-- matrix as rows separated by `;` -/
def parseMat (s : String) : Array (Array Rat) := if s = "-" then #[] else (s.splitOn ";").toArray.map parseRats
def showMat (m : Array (Array Rat)) : String :=
  if m.isEmpty then "-" else String.intercalate ";" (m.toList.map showRats)

end PyamgV.Drv
