import PyamgV.Driver.Util
/-! Driver ops for property C13 (line protocol). Op names are prefixed `c13_`. -/
namespace PyamgV.Drv.C13
open PyamgV PyamgV.Drv

def handle : List String → Option String
  | _ => none

end PyamgV.Drv.C13
