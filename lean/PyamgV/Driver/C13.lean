import PyamgV.Driver.Util
import PyamgV.Model.C13Wrap
/-! Driver ops for property C13 (line protocol). Op names are prefixed `c13_`.

Kernel level (arrays as handed to the kernel): `rs`, `rs2`, `cljp`, `mis_par`, `p_mis_par` live in
`Driver/Graph.lean`; here: `c13_kcljp_rat` (the CLJP kernel model over exact rationals, the weight
type for which the weight laws are proved).

Wrapper level (arrays of the caller's matrix; the model does `remove_diagonal`, the transpose, the
symmetrisation, the kernel and `_set_dirichlet`): `c13_prep`, `c13_rs`, `c13_pmis`, `c13_cljp`,
`c13_cljp_rat`. -/
namespace PyamgV.Drv.C13
open PyamgV PyamgV.Drv PyamgV.C13

def mkS (n ap aj : String) : Pat := ⟨nat n, parseNats ap, parseNats aj⟩

def showCsr (S : RS.Csr) : String := showNats S.ap ++ ";" ++ showNats S.aj

def guarded (S : Pat) (k : Unit → String) : Option String :=
  some (if S.valid then k () else "invalid-input")

def showRun (r : Array Int × Bool) : String := if r.2 then showInts r.1 else "fuel-exhausted"

def handle : List String → Option String
  | ["c13_prep", n, ap, aj] =>
    let S := mkS n ap aj
    guarded S fun _ => showCsr (prepS S) ++ ";" ++ showCsr (prepT S) ++ ";" ++ showCsr (prepG S)
  | ["c13_rs", n, ap, aj, second] =>
    let S := mkS n ap aj
    guarded S fun _ => showInts (rsSplit S (second == "1"))
  | ["c13_pmis", n, ap, aj, w, dirichlet] =>
    let S := mkS n ap aj
    let wa := parseRats w
    guarded S fun _ =>
      if wa.size != S.n then "invalid-input" else
      showInts (pmisSplitK S wa (dirichlet == "1")) ++ ";" ++
        showInts (pmisSplit S (fun i => wa.getD i 0) (dirichlet == "1"))
  | ["c13_cljp", n, ap, aj, color, w] =>
    let S := mkS n ap aj
    guarded S fun _ =>
      let w0 : Array Float :=
        if color == "1" then colorWeights Float.ofInt (· / ·) S else parseFloats w
      if w0.size != S.n then "invalid-input"
      else if !(w0.all (fun v => 0.0 ≤ v)) then "negative-weight"   -- hypothesis `h0` of `cljp_spec`
      else showRun (cljpSplit KCljp.floatOps S w0)
  | ["c13_cljp_rat", n, ap, aj, color, w] =>
    let S := mkS n ap aj
    guarded S fun _ =>
      let w0 : Array Rat :=
        if color == "1" then colorWeights (fun (z : Int) => (z : Rat)) (· / ·) S else parseRats w
      if w0.size != S.n then "invalid-input"
      else if !(w0.all (fun v => decide (0 ≤ v))) then "negative-weight"
      else showRun (cljpSplit ratOps S w0)
  | ["c13_kcljp_rat", n, sp, sj, tp, tj, w] =>
    let S : KCljp.Csr := ⟨nat n, parseNats sp, parseNats sj⟩
    let T : KCljp.Csr := ⟨nat n, parseNats tp, parseNats tj⟩
    some <| showRun (KCljp.run ratOps S T (parseRats w) (S.n + 1))
  | _ => none

end PyamgV.Drv.C13
