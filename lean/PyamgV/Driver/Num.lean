import PyamgV.Driver.Util
import PyamgV.Model.KNum
import PyamgV.Model.Stencil
import PyamgV.Model.Flag
import PyamgV.Model.KKrylov
/-! Driver ops for strength / interpolation / Bellman-Ford / stencil / flag / Krylov models. -/
namespace PyamgV.Drv.Num
open PyamgV PyamgV.Drv

def mk (n ap aj ax : String) : N.Csr := ⟨nat n, parseNats ap, parseNats aj, parseRats ax⟩
def showOut (o : N.Out) : String := showNats o.sp ++ ";" ++ showNats o.sj ++ ";" ++ showRats o.sx
def parseOpt (s : String) : Option String := if s = "_" then none else some s
def parseCfg (s : String) : Flag.Cfg :=
  match s.splitOn ":" with
  | [nm, it, sw, f, c] => ⟨parseOpt nm, (parseOpt it).bind (·.toNat?), parseOpt sw, (parseOpt f).bind (·.toNat?), (parseOpt c).bind (·.toNat?)⟩
  | _ => ⟨none, none, none, none, none⟩

def handle : List String → Option String
  | ["soc_abs", th, n, ap, aj, ax] => some <| showOut (N.classicalAbs 0 (parseRat th) (mk n ap aj ax))
  | ["soc_min", th, n, ap, aj, ax] => some <| showOut (N.classicalMin (parseRat th) (mk n ap aj ax))
  | ["soc_sym", th, n, ap, aj, ax] => some <| showOut (N.symmetricSoc (parseRat th) (mk n ap aj ax))
  | ["direct", n, ap, aj, ax, sp, sj, sx, split] =>
    let (pp, pj, px) := N.directInterp (mk n ap aj ax) (mk n sp sj sx) (parseInts split)
    some <| showNats pp ++ ";" ++ showNats pj ++ ";" ++ showORats px
  | ["bf", n, ap, aj, ax, d, m, p] =>
    let (d, m, p, ok) := N.bellmanFord (mk n ap aj ax) (parseORats d) (parseInts m) (parseInts p)
    some <| showORats d ++ ";" ++ showInts m ++ ";" ++ showInts p ++ ";" ++ toString ok
  | ["stencil", grid, sten] =>
    let g := (listOf grid).map nat
    let s := (sten.splitOn "|").map (fun e =>
      match e.splitOn ":" with
      | [off, v] => ((listOf off).map int, parseRat v)
      | _ => ([], 0))
    let out := Stencil.stencilGrid g s
    some <| if out.isEmpty then "-" else String.intercalate "|" (out.map fun (r, c, v) => s!"{r},{c},{showRat v}")
  | ["flag", pre, post, nl] =>
    some <| toString (Flag.flag ((pre.splitOn "|").map parseCfg) ((post.splitOn "|").map parseCfg) (nat nl))
  | ["kry", name, a, b, x0, tol2, maxiter] =>
    let A := parseMat a
    let f := match name with | "cg" => Kry.cg | "sd" => Kry.steepestDescent | _ => Kry.minimalResidual
    let r := f A (parseRats b) (parseRats x0) (parseRat tol2) (nat maxiter)
    some s!"{r.status} {r.nres} {showRats r.x} {String.intercalate ";" (r.iterates.map showRats)}"
  | _ => none

end PyamgV.Drv.Num
