import PyamgV.Driver.Util
import PyamgV.Model.ExtC19TCx
/-! Driver ops of extension task E52 (property C19).  Numbers are binary64 bit patterns written as decimal integers; a
complex vector is the list `re_0,im_0,re_1,im_1,...`; matrices / lists of vectors: rows separated by `;`; the oracle of
`ext_c19t_asr` lists the cycles separated by `|`, each cycle `ev;evect[:,0];evect[:,1];...`, optionally prefixed by
`<max_index of the run>@` when the largest moduli tie.

`ext_c19t_arnoldi <A> <breakdown tol> <symmetric 0|1> <maxiter> <v0>`
  -> `<breakdown_flag> <V_0;V_1;...> <col_0;col_1;...>`   `_approximate_eigenvalues` with conjugated inner products
`ext_c19t_asr <A> <breakdown tol> <tol> <vtolSq> <tieTol> <maxiter> <restart> <A real 0|1> <initial_guess> <oracle>`
  -> `ok <rho> <cycle>*` with `<cycle> = flag/max_index/theta/error/converged/new v0/H columns`, or `err <message>`
`ext_c19t_condest <A> <breakdown tol> <vtolSq> <symmetric 0|1> <maxiter> <v0> <ev> <evect>`
  -> `ok <estimate> <max |ev|> <min |ev|> <flag> <H columns>` or `err <message>`
`ext_c19t_cond <A> <U columns> <V columns> <Sigma> <tolSq>`
  -> `ok <max Sigma / min Sigma> <defect>` or `err <message> <defect>` -/
namespace PyamgV.Drv.ExtE52
open PyamgV PyamgV.Drv PyamgV.C19T

def cvec (t : String) : List (Cx Float) :=
  let rec go : List Float → List (Cx Float)
    | a :: b :: r => ⟨a, b⟩ :: go r
    | _ => []
  go (parseFloats t).toList

def cmat (t : String) : List (List (Cx Float)) :=
  if t = "-" then [] else (t.splitOn ";").map cvec

def fb (f : Float) : String := toString f.toBits.toNat
def showC (z : Cx Float) : String := fb z.re ++ "," ++ fb z.im
def showCv (v : List (Cx Float)) : String := sh (v.map showC)
def showCm (xs : List (List (Cx Float))) : String :=
  if xs.isEmpty then "-" else String.intercalate ";" (xs.map showCv)

def cplx1 (t : String) : Cx Float := (cvec t).getD 0 ⟨0, 0⟩
def msg (e : String) : String := "err " ++ e.replace " " "_"

def oracle (t : String) : List (List (Cx Float) × List (List (Cx Float)) × Option Nat) :=
  if t = "-" then [] else
  (t.splitOn "|").map fun c =>
    let (hint, body) := match c.splitOn "@" with
      | [h, b] => (h.toNat?, b)
      | _ => (none, c)
    match cmat body with
    | ev :: ys => (ev, ys, hint)
    | [] => ([], [], hint)

def showCyc (c : CycL (Cx Float)) : String :=
  String.intercalate "/" [if c.brk then "1" else "0", toString c.idx, showC c.theta, showC c.err,
    if c.conv then "1" else "0", showCv c.next, showCm c.cols]

/-- line-protocol ops of extension E52 -/
def handle : List String → Option String
  | ["ext_c19t_arnoldi", a, tol, sym, maxiter, v0] =>
    let v := cvec v0
    let A := cmat a
    if A.length ≠ v.length || A.any (fun r => r.length ≠ v.length) then some "bad-size" else
    match approxEigCFloat A (cplx1 tol) (sym = "1") (nat maxiter) v with
    | none => some "none"
    | some (vs, cols, brk) => some s!"{if brk then 1 else 0} {showCm vs} {showCm cols}"
  | ["ext_c19t_asr", a, btol, tol, vtol, ttol, maxiter, restart, realA, guess, orc] =>
    match asrCFloat (realA = "1") (cmat a) (cplx1 btol) (cplx1 tol) (cplx1 vtol) (cplx1 ttol) (int maxiter) (int restart) (cvec guess)
        (oracle orc) with
    | .error e => some (msg e)
    | .ok cs =>
      let rho := match cs.getLast? with
        | some c => fb (Cx.absC Float.sqrt c.theta).re
        | none => "-"
      some (String.intercalate " " ("ok" :: rho :: cs.map showCyc))
  | ["ext_c19t_condest", a, btol, vtol, sym, maxiter, v0, ev, evect] =>
    let v := cvec v0
    let A := cmat a
    if A.length ≠ v.length || A.any (fun r => r.length ≠ v.length) then some "err bad-size" else
    match condestCFloat A (cplx1 btol) (cplx1 vtol) (sym = "1") (nat maxiter) v (cvec ev) (cmat evect) with
    | .error e => some (msg e)
    | .ok (c, mx, mn, brk, _, cols) => some s!"ok {fb c.re} {fb mx.re} {fb mn.re} {if brk then 1 else 0} {showCm cols}"
  | ["ext_c19t_cond", a, us, vs, sig, tol] =>
    let A := cmat a
    let n := A.length
    let d := svdDefect Cx.conj n A (cmat us) (cmat vs) (cvec sig)
    match condCertCFloat (cplx1 tol) n A (cmat us) (cmat vs) (cvec sig) with
    | .error e => some s!"{msg e} {fb d.re}"
    | .ok c => some s!"ok {fb c.re} {fb d.re}"
  | _ => none

end PyamgV.Drv.ExtE52
