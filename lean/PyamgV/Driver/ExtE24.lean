import PyamgV.Driver.Util
import PyamgV.Driver.C10
import PyamgV.Model.ExtC10bImm
import PyamgV.Model.ExtC10bGmres
import PyamgV.Proofs.ExtC10bCFit
import PyamgV.Proofs.ExtC10bGmresArr
/-! Driver ops of extension task E24 (property C10; op names prefixed `ext_c10b_`):
`ext_c10b_imm_csr` (`incomplete_mat_mult_csr`), `ext_c10b_gmres` (`gmres_prolongation_smoothing`, whole
loop, with the hypotheses of the constraint theorems decided on the instance), `ext_c10b_p_cfit`
(proof-side complex per-aggregate Gram-Schmidt `C10.cfitAgg`). -/
namespace PyamgV.Drv.ExtE24
open PyamgV PyamgV.Drv PyamgV.Drv.C10 PyamgV.C10M PyamgV.C10bM

/-- every matrix of the list annihilates `B` exactly and vanishes outside the block pattern -/
def allConstrained (rpb cpb : Nat) (pat : Pat) (B : Mat Rat) (l : List (Mat Rat)) : Bool :=
  l.all fun X =>
    (Mat.mul X B).flat.all (· == 0) && (Mat.sub X (maskDense rpb cpb pat X)).flat.all (· == 0)

/-- `PyamgV.C10.cfitAgg` for every aggregate on Gaussian rationals, laid out as dense `T`, `R`
(complex above the diagonal, real on it) and the discarded remainders, like `pFit` -/
def pCFit (nFine nCoarse K1 K2 : Nat) (ap aj : Array Nat) (b : Array CRat) (tol : Rat) :
    Array CRat × Array CRat × Array CRat :=
  let N := nFine * K1
  let agg : Fin N → Option (Fin nCoarse) := fun i =>
    let node := i.val / K1
    if rdN ap (node + 1) > rdN ap node then
      let a := rdN aj (rdN ap node)
      if h : a < nCoarse then some ⟨a, h⟩ else none
    else none
  let B : Fin N → Nat → Rat × Rat := fun i c => let z := b.getD (i.val * K2 + c) 0; (z.re, z.im)
  let outs := (List.finRange nCoarse).map fun a => PyamgV.C10.cfitAgg ratSqrt tol agg B K2 a
  let cr (w : (Fin N → Rat) × (Fin N → Rat)) (i : Fin N) : CRat := ⟨w.1 i, w.2 i⟩
  let dense := ((List.finRange N).flatMap fun i => outs.flatMap fun o =>
    (List.range K2).map fun c => cr (o.q.getD c 0) i).toArray
  let r := (outs.flatMap fun o => (List.range K2).flatMap fun bi => (List.range K2).map fun bj =>
    let e := o.r.getD bj ([], 0)
    if bi < bj then (let d := e.1.getD bi (0, 0); (⟨d.1, d.2⟩ : CRat)) else if bi = bj then ⟨e.2, 0⟩ else 0).toArray
  let drop := ((List.finRange N).flatMap fun i => outs.flatMap fun o =>
    (List.range K2).map fun c => cr (o.drop.getD c 0) i).toArray
  (dense, r, drop)

def handle : List String → Option String
  | ["ext_c10b_imm_csr", "r", ap, aj, ax, bp, bj, bx, sp, sj, sx, n] =>
    some <| showRats (incompleteMatMultCsr (parseNats ap) (parseNats aj) (parseRats ax) (parseNats bp) (parseNats bj)
      (parseRats bx) (parseNats sp) (parseNats sj) (parseRats sx) (nat n))
  | ["ext_c10b_imm_csr", "c", ap, aj, ax, bp, bj, bx, sp, sj, sx, n] =>
    some <| showCRats (incompleteMatMultCsr (parseNats ap) (parseNats aj) (parseCRats ax) (parseNats bp) (parseNats bj)
      (parseCRats bx) (parseNats sp) (parseNats sj) (parseCRats sx) (nat n))
  | ["ext_c10b_gmres", wt, bs, rpb, cpb, nd, pat, n, m, a, aux, t, b, maxiter, tol, cpts] =>
    let A := matR n n a
    let T := matR n m t
    let B := matR m nd b
    let pt := parsePat pat
    match mkPrecond (nat wt) (nat bs) A (parseRats aux) with
    | none => some "singular"
    | some pre =>
      match energyGmres ratScal (nat rpb) (nat cpb) (nat nd) pt A pre T B (nat maxiter) (parseRat tol) (parseNats cpts) with
      | none => some "singular"
      | some o =>
        let c := o.core
        let flags := (if c.ok then "ok" else "singular") ++ "," ++ (if c.breakdown then "breakdown" else "regular") ++ "," ++
          (if c.lucky then "lucky" else "generic") ++ "," ++
          -- hypothesis `hchk` of `C10b.gmres_run_checked` decided on the instance (every projected matrix of the run
          -- annihilates B and vanishes outside the pattern), with the checkers the theorem is about
          (if c.projs.all (fun Y => PyamgV.C10b.annihilates Y B && PyamgV.C10b.offPatternZero (nat rpb) (nat cpb) pt Y)
              && allConstrained (nat rpb) (nat cpb) pt B c.projs
            then "projs-constrained" else "PROJS-UNCONSTRAINED") ++ "," ++
          -- its conclusion, and the hypotheses of updates_keep_product / updates_keep_pattern
          (if upsConstrained (nat rpb) (nat cpb) pt B c.ups then "constrained" else "UNCONSTRAINED") ++ "," ++
          (if pApply (nat n) (nat m) T c.ups == c.T.flat then "fold" else "NOFOLD") ++ "," ++
          (if (Mat.mul c.T B).flat == (Mat.mul T B).flat then "product" else "NOPRODUCT")
        some <| showMatR o.T ++ ";" ++ flags ++ ";" ++ showRats c.normrs.toArray ++ ";" ++ toString c.ups.length ++ ";" ++
          showRats c.hns.toArray ++ ";" ++ showRats c.diag.toArray
  | ["ext_c10b_p_cfit", nf, nc, k1, k2, ap, aj, b, tol] =>
    let (d, r, dr) := pCFit (nat nf) (nat nc) (nat k1) (nat k2) (parseNats ap) (parseNats aj) (parseCRats b) (parseRat tol)
    some <| showCRats d ++ ";" ++ showCRats r ++ ";" ++ showCRats dr
  | _ => none

end PyamgV.Drv.ExtE24
