import PyamgV.Driver.Util
import PyamgV.Model.ExtC02XCycle
/-! Driver ops of extension E35 (property C02): the cycle model on complex Hermitian hierarchies and on BSR levels
with block smoothers.  Numbers in replies are integers `⌊q·2¹²⁰⌋` (complex: `re|im`); all comparisons are exact.

* `c02x_ccycle cyc cpl n ap aj ax x b k (nr nc ap aj ax pre post)*k`   (complex data `re|im`)
      -> `x' # Hermitian # J(x') ≤ J(x) # coarsest matrix # real form positive definite # data hypotheses`
         one cycle of `C02.cycle` over `CRat` on the hierarchy built exactly from `A₀` and the `P`s (`R = Pᴴ`, Galerkin
         products, exact coarse solve); `J(x) = Re(xᴴAx) − 2Re(bᴴx)`; `singular` when the coarsest matrix has no inverse.
      Smoother tokens: `none`, `gs:ω:sweep:iters`, `jac:ω:iters` (ω complex).
* `c02x_cenergy_le n ap aj ax e e'` -> `true|false` : `Re(e'ᴴ A e') ≤ Re(eᴴ A e)`
* `c02x_bcycle cyc cpl n ap aj ax x b k (nr nc ap aj ax pre post)*k`   (real data)
      -> `x' # symmetric # J(x') ≤ J(x) # coarsest matrix # pivots positive # data hypotheses`
         one cycle of `C02X.cycleO` on `BLvl` levels (`R = Pᵀ`, Galerkin products, exact coarse solve, exact inverse
         diagonal blocks); `singular` / `singular-block` when the coarsest matrix resp. a diagonal block has no inverse
         (or a block size does not divide the level size).
      Smoother tokens: `none`, `gs:ω:sweep:iters`, `jac:ω:iters`, `bgs:bs:sweep:iters`, `bjac:bs:ω:iters`. -/
namespace PyamgV.Drv.ExtE35
open PyamgV PyamgV.Drv PyamgV.K PyamgV.C02 PyamgV.C02X

def mkR (n ap aj ax : String) : Csr Rat := ⟨nat n, parseNats ap, parseNats aj, parseRats ax⟩
def mkC (n ap aj ax : String) : Csr CRat := ⟨nat n, parseNats ap, parseNats aj, parseCRats ax⟩

def parseSweep (sw : String) : Sweep :=
  if sw = "backward" then .backward else if sw = "symmetric" then .symmetric else .forward

def parseCyc (s : String) : Option Cyc :=
  if s = "V" then some .V else if s = "W" then some .W else if s = "F" then some .F else none

def parseCSm (s : String) : Option (Sm CRat) :=
  match s.splitOn ":" with
  | ["none"] => some .none
  | ["gs", om, sw, it] => some (Sm.gs (parseCRat om) (parseSweep sw) (nat it))
  | ["jac", om, it] => some (Sm.jac (parseCRat om) (nat it))
  | _ => none

def parseBReq (s : String) : Option (BReq Rat) :=
  match s.splitOn ":" with
  | ["none"] => some (.pt .none)
  | ["gs", om, sw, it] => (parseRat? om).map (fun ω => .pt (Sm.gs ω (parseSweep sw) (nat it)))
  | ["jac", om, it] => (parseRat? om).map (fun ω => .pt (Sm.jac ω (nat it)))
  | ["bgs", bs, sw, it] => some (.bgs (nat bs) (parseSweep sw) (nat it))
  | ["bjac", bs, om, it] => (parseRat? om).map (fun ω => .bjac (nat bs) ω (nat it))
  | _ => none

def parseCLevels : Nat → List String → Option (List (PSpec CRat))
  | 0, [] => some []
  | k + 1, nr :: nc :: ap :: aj :: ax :: pre :: post :: rest => do
    let p ← parseCSm pre
    let q ← parseCSm post
    let tl ← parseCLevels k rest
    some (⟨nat nr, nat nc, mkC nr ap aj ax, p, q⟩ :: tl)
  | _, _ => none

def parseBLevels : Nat → List String → Option (List (BSpec Rat))
  | 0, [] => some []
  | k + 1, nr :: nc :: ap :: aj :: ax :: pre :: post :: rest => do
    let p ← parseBReq pre
    let q ← parseBReq post
    let tl ← parseBLevels k rest
    some (⟨nat nr, nat nc, mkR nr ap aj ax, p, q⟩ :: tl)
  | _, _ => none

def scale : Rat := (2 : Rat) ^ 120
def showApprox (q : Rat) : String := toString (q * scale).floor
def showApproxs (a : Array Rat) : String := sh (a.toList.map showApprox)
def showApproxMat (m : Array (Array Rat)) : String :=
  if m.isEmpty then "-" else String.intercalate ";" (m.toList.map showApproxs)
def showCApprox (z : CRat) : String := showApprox z.re ++ "|" ++ showApprox z.im
def showCApproxs (a : Array CRat) : String := sh (a.toList.map showCApprox)
def showCApproxMat (m : Array (Array CRat)) : String :=
  if m.isEmpty then "-" else String.intercalate ";" (m.toList.map showCApproxs)
def showB (b : Bool) : String := if b then "true" else "false"

def runCCycle (c : Cyc) (cpl : Nat) (A0 : Csr CRat) (x b : Array CRat) (specs : List (PSpec CRat)) : String :=
  let (ls, Ac, _) := mkHierarchyH CRat.conj A0 specs
  match gaussSolve Ac (zeros Ac.size) with
  | none => "singular"
  | some _ =>
    let solve : Array CRat → Array CRat := fun rhs => (gaussSolve Ac rhs).getD (zeros rhs.size)
    let x' := C02.cycle solve c cpl ls x b
    showCApproxs x' ++ "#" ++ showB (isHermitian A0) ++ "#" ++ showB (cfunctionalLe A0 b x x') ++ "#" ++ showCApproxMat Ac
      ++ "#" ++ showB (pivotsPositive (realForm (toDense A0 A0.n) A0.n A0.n)) ++ "#" ++ showB (ccheckLevels Ac Ac.size ls)

def runBCycle (c : Cyc) (cpl : Nat) (A0 : Csr Rat) (x b : Array Rat) (specs : List (BSpec Rat)) : String :=
  let Ad := toDense A0 A0.n
  match bmkHierarchy Ad specs with
  | none => "singular-block"
  | some (ls, Ac, _) =>
    match gaussSolve Ac (zeros Ac.size) with
    | none => "singular"
    | some _ =>
      let solve : Array Rat → Array Rat := fun rhs => (gaussSolve Ac rhs).getD (zeros rhs.size)
      let x' := cycleO solve c cpl (ls.map BLvl.toO) x b
      let A0d := C02.ofDense Ad A0.n
      showApproxs x' ++ "#" ++ showB (isSymmetricD Ad A0.n) ++ "#" ++ showB (functionalLe A0d b x x') ++ "#" ++ showApproxMat Ac
        ++ "#" ++ showB (pivotsPositive Ad) ++ "#" ++ showB (bcheckLevels Ac Ac.size ls)

def handle : List String → Option String
  | "c02x_ccycle" :: cyc :: cpl :: n :: ap :: aj :: ax :: x :: b :: k :: rest =>
    match parseCyc cyc, parseCLevels (nat k) rest with
    | some c, some specs => some <| runCCycle c (nat cpl) (mkC n ap aj ax) (parseCRats x) (parseCRats b) specs
    | _, _ => some "bad-request"
  | ["c02x_cenergy_le", n, ap, aj, ax, e, e'] =>
    some <| showB (cenergyLe (mkC n ap aj ax) (parseCRats e) (parseCRats e'))
  | "c02x_bcycle" :: cyc :: cpl :: n :: ap :: aj :: ax :: x :: b :: k :: rest =>
    match parseCyc cyc, parseBLevels (nat k) rest with
    | some c, some specs => some <| runBCycle c (nat cpl) (mkR n ap aj ax) (parseRats x) (parseRats b) specs
    | _, _ => some "bad-request"
  | _ => none

end PyamgV.Drv.ExtE35
