import PyamgV.Driver.Util
/-! Driver ops for property C06 (line protocol). Op names are prefixed `c06_`. -/
namespace PyamgV.Drv.C06
open PyamgV PyamgV.Drv

def handle : List String → Option String
  | _ => none

end PyamgV.Drv.C06
