import PyamgV.Driver.Util
import PyamgV.Model.C06Krylov
/-! Driver ops for property C06 (line protocol). Op names are prefixed `c06_`.

`c06_run <solver> <r|c> <A> <M> <b> <x0> <crit> <tol2> <maxiter>` (matrices: rows separated by `;`)
  → `<status> <res2 list> <x> <log: iterates separated by ;>`
`c06_gctl <late 0|1> <n> <restart|_> <maxiter|_> <conv0 0|1> <gtest bits> <rtest bits> <stag bits>`
  → `short` | `<status> <niter> <ncb> <maxInner> <maxOuter>` -/
namespace PyamgV.Drv.C06
open PyamgV PyamgV.Drv PyamgV.C06

def critOf (s : String) : Option Crit :=
  match s with
  | "rr" => some .rr | "rr+" => some .rrp | "MrMr" => some .MrMr | "rMr" => some .rMr | _ => none

def parseMatC (s : String) : Array (Array CRat) :=
  if s = "-" then #[] else (s.splitOn ";").toArray.map parseCRats

def showRes {K : Type} (sh : Array K → String) (r : Res K) : String :=
  let log := if r.log.isEmpty then "-" else String.intercalate ";" (r.log.map fun v => sh v.toArray)
  s!"{r.status} {showRats r.res2.toArray} {sh r.x.toArray} {log}"

def runR (name : String) (A M : Mat Rat) (b x0 : Vec Rat) (c : Crit) (tol2 : Rat) (mi : Nat) : Option (Res Rat) :=
  match name with
  | "cg" => some (cg A M b x0 c tol2 mi)
  | "cr" => some (cr A M b x0 c tol2 mi)
  | "cgne" => some (cgne A M b x0 c tol2 mi)
  | "cgnr" => some (cgnr A M b x0 c tol2 mi)
  | "bicgstab" => some (bicgstab A M b x0 c tol2 mi)
  | "steepest_descent" => some (steepestDescent A M b x0 c tol2 mi)
  | "minimal_residual" => some (minimalResidual A M b x0 tol2 mi)
  | _ => none

def runC (name : String) (A M : Mat CRat) (b x0 : Vec CRat) (c : Crit) (tol2 : Rat) (mi : Nat) : Option (Res CRat) :=
  match name with
  | "cg" => some (cg A M b x0 c tol2 mi)
  | "cr" => some (cr A M b x0 c tol2 mi)
  | "cgne" => some (cgne A M b x0 c tol2 mi)
  | "cgnr" => some (cgnr A M b x0 c tol2 mi)
  | "bicgstab" => some (bicgstab A M b x0 c tol2 mi)
  | "steepest_descent" => some (steepestDescent A M b x0 c tol2 mi)
  | "minimal_residual" => some (minimalResidual A M b x0 tol2 mi)
  | _ => none

def optNat (s : String) : Option Nat := if s = "_" then none else s.toNat?
def bits (s : String) : Nat → Bool := fun k => (s.toList.getD (k - 1) '0') = '1' && k ≥ 1

def handle : List String → Option String
  | ["c06_run", name, fld, a, m, b, x0, crit, tol2, mi] =>
    match critOf crit with
    | none => some "bad-crit"
    | some c =>
      if nat mi < 1 then some "reject" else
      if fld = "c" then
        let A := (parseMatC a).toList.map (·.toList)
        let M := (parseMatC m).toList.map (·.toList)
        (runC name A M (parseCRats b).toList (parseCRats x0).toList c (parseRat tol2) (nat mi)).map (showRes showCRats)
      else
        let A := (parseMat a).toList.map (·.toList)
        let M := (parseMat m).toList.map (·.toList)
        (runR name A M (parseRats b).toList (parseRats x0).toList c (parseRat tol2) (nat mi)).map (showRes showRats)
  | ["c06_gctl", late, n, restart, maxiter, conv0, g, r, st] =>
    let d := gmresDims (nat n) (optNat restart) (optNat maxiter)
    match gmresCtl (late = "1") (nat n) (optNat restart) (optNat maxiter) (conv0 = "1") (bits g) (bits r) (bits st) with
    | none => some "short"
    | some o => some s!"{o.status} {o.niter} {o.ncb} {d.maxInner} {d.maxOuter}"
  | _ => none

end PyamgV.Drv.C06
