import PyamgV.Driver.Util
import PyamgV.Model.C08Accel
import PyamgV.Proofs.C08Accel
/-! Driver ops for property C08 (line protocol). Op names are prefixed `c08_`.

* `c08_tables` : the two name spaces the model assumes, `k1,k2,...;s1:0/1,...`.
* `c08_plan <cycle> <symmetry|_> <symsm> <accel> <tol> <maxiter> <x0> <cb> <res> <ri>` : `C08.plan tables`.
  `<accel>` is `n:<name>`, `f:pyamg`, `f:scipy1` (signature has `atol`), `f:scipy0`, `f:scipyx` (signature
  not inspectable); flags are `0/1`.  Reply `raise;<warn>;<exception>` or
  `run;<warn>;<preinit>;<tuple>;<call>|<call>` with `<call>` =
  `target,style,x0,tol,rtol,atol,maxiter,precond,callback,residuals-keyword`.
* `c08_hist <norms> <events>` : `C08.scipyHistory`; `<norms>` = residual norms of the start vector (index 0)
  and of the vectors handed to the callback, `<events>` = `v<index>` / `s<rational>`.
* `c08_run <the ten arguments of c08_plan> native <info> <history> <k>` / `... scipy <info> <norms> <events>` :
  `C08.accelRun` for an accelerator that behaves as described (PyAMG convention: returns `info`, writes
  `<history>`, hands `k` iterates to the callback; SciPy convention: as in `c08_hist`).  Reply
  `info|_;final list|_;callback arguments` or `none` when the behaviour is not of the convention `plan` uses.
* `c08_native <the ten arguments of c08_plan> <normb> <r0,r1,...>` : `C08.nativeSolve` (theorem
  `honest_native`) replayed over an observed residual history with the criterion `r < tol * normb`.
  Reply `status;history-length;callbacks;index`, `short` when the skeleton would have continued past
  the observations, `none` when the plan does not reach a native accelerator.
* `c08_bb <existing n|_> <existing symmetry|_> <n> <herm> <symsm> <tol> <maxiter> <x0> <verb> <res>
  <return_solver> <shape>` : `C08.bbPlan` followed by `C08.plan tables` on the inner call. -/
namespace PyamgV.Drv.C08
open PyamgV PyamgV.Drv PyamgV.C08

def flag (s : String) : Bool := s = "1"
def shB (b : Bool) : String := if b then "1" else "0"
def optStr (s : String) : Option String := if s = "_" then none else some s

def parseAccel (s : String) : Option Accel :=
  match s.splitOn ":" with
  | ["n", nm] => some (.name nm)
  | ["f", "pyamg"] => some (.fn .pyamg)
  | ["f", "scipy1"] => some (.fn (.scipy (some true)))
  | ["f", "scipy0"] => some (.fn (.scipy (some false)))
  | ["f", "scipyx"] => some (.fn (.scipy none))
  | _ => none

def parseReq : List String → Option Req
  | [cyc, sym, ss, acc, tol, mx, x0, cb, res, ri] => do
    let a ← parseAccel acc
    some { cycle := cyc, symmetry := optStr sym, symSmoothing := flag ss, accel := a, tol := parseRat tol,
           maxiter := int mx, x0 := flag x0, callback := flag cb, residuals := flag res, returnInfo := flag ri }
  | _ => none

def shORat : Option Rat → String
  | some q => showRat q
  | none => "_"
def shTarget : Target → String
  | .krylov s => "k:" ++ s
  | .scipy s => "s:" ++ s
  | .user => "u"
def shCb : Cb → String
  | .none => "none"
  | .user => "user"
  | .wrapper => "wrapper"
def shOB : Option Bool → String
  | none => "_"
  | some b => shB b
def shCall (c : Call) : String :=
  String.intercalate "," [shTarget c.target, if c.pyamgStyle then "pyamg" else "scipy", shB c.x0, shORat c.tol,
    shORat c.rtol, shORat c.atol, toString c.maxiter, c.precond, shCb c.callback, shOB c.residualsKw]
def shOutcome : Outcome → String
  | .raise w e => s!"raise;{shB w};{e}"
  | .run w cs p t => s!"run;{shB w};{shB p};{shB t};{String.intercalate "|" (cs.map shCall)}"

def parseEv (s : String) : Ev Nat Rat :=
  match s.toList with
  | 'v' :: r => .vec (nat (String.ofList r))
  | 's' :: r => .scal (parseRat (String.ofList r))
  | _ => .scal 0

def handle : List String → Option String
  | ["c08_tables"] =>
    some (sh tables.krylov ++ ";" ++ sh (tables.scipy.map fun (n, a) => n ++ ":" ++ shB a))
  | "c08_plan" :: args =>
    match parseReq args with
    | some r => some (shOutcome (plan tables r))
    | none => some "bad-request"
  | ["c08_hist", norms, evs] =>
    let ns := parseRats norms
    let es := (listOf evs).map parseEv
    some (showRats (scipyHistory (fun i => ns.getD i 0) 0 es).toArray)
  | ["c08_run", cyc, sym, ss, acc, tol, mx, x0, cb, res, ri, style, info, a1, a2] =>
    match parseReq [cyc, sym, ss, acc, tol, mx, x0, cb, res, ri] with
    | none => some "bad-request"
    | some r =>
      let ns := parseRats a1
      let beh : Beh Nat Rat :=
        if style = "native" then .native 0 (int info) ns.toList ((List.range (nat a2)).map (· + 1))
        else .scipy 0 (int info) ((listOf a2).map parseEv)
      match accelRun tables r (fun i => ns.getD i 0) 0 beh with
      | none => some "none"
      | some v =>
        let i := match v.info with | some k => toString k | none => "_"
        let l := match v.residuals with | some l => showRats l.toArray | none => "_"
        let c := sh (v.userCb.map fun | .vec k => s!"v{k}" | .scal q => "s" ++ showRat q)
        some s!"{i};{l};{c}"
  | ["c08_native", cyc, sym, ss, acc, tol, mx, x0, cb, res, ri, normb, seq] =>
    match parseReq [cyc, sym, ss, acc, tol, mx, x0, cb, res, ri] with
    | none => some "bad-request"
    | some r =>
      let s := parseRats seq
      let nb := parseRat normb
      let crit : Rat → Nat → Bool := fun t i => match s[i]? with
        | some v => decide (v < t * nb)
        | none => false
      match nativeSolve tables r (fun i => some (i + 1)) crit 0 with
      | none => some "none"
      | some o => if o.s ≥ s.size then some "short" else some s!"{o.status};{o.nres};{o.ncb};{o.s}"
  | ["c08_bb", en, es, n, herm, ss, tol, mx, x0, verb, res, rs, shape] =>
    let ex : Option (Nat × Option String) := if en = "_" then none else some (nat en, optStr es)
    let r : BBReq := { existing := ex, n := nat n, hermitian := flag herm, symSmoothing := flag ss, tol := parseRat tol,
                       maxiter := int mx, x0 := flag x0, verb := flag verb, residuals := flag res,
                       returnSolver := flag rs, bShape := (parseNats shape).toList }
    match bbPlan r with
    | .raise e => some s!"raise;{e}"
    | .run setup inner rnd shp tuple =>
      some s!"run;{(setup.getD "_")};{shB rnd};{showNats shp.toArray};{shB tuple};{shOutcome (plan tables inner)}"
  | _ => none

end PyamgV.Drv.C08
