import PyamgV.Driver.Util
/-! Driver ops for property C08 (line protocol). Op names are prefixed `c08_`. -/
namespace PyamgV.Drv.C08
open PyamgV PyamgV.Drv

def handle : List String → Option String
  | _ => none

end PyamgV.Drv.C08
