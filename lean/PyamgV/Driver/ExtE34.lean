import PyamgV.Driver.Util
import PyamgV.Model.ExtC12Bal
/-! Driver ops of extension task E34: balanced Lloyd clustering / aggregation (C12), `Model/ExtC12Bal.lean`.

* `ext_c12_ballloyd n ap aj ax tol tb centres maxiter reb esorts ssorts` -> `clusters;centres` | error string
* `ext_c12_ballloyd_agg measure ratio n ap aj ax tol perm maxiter reb esorts ssorts`
    -> `indptr;indices;data;centres` | error string
* `ext_c12_center_nodes n ap aj ax tol maxsize c d m p pc s` -> `c;d;p;pc;changed` | `fault` (raw kernel)
`esorts` / `ssorts`: the recorded `np.argsort` results of the successive `_rebalance` calls, concatenated
(`-` = none recorded: the model sorts stably itself). -/
namespace PyamgV.Drv.ExtE34
open PyamgV PyamgV.Drv

def mkA (n ap aj ax : String) : Bal.Csr := ⟨nat n, parseNats ap, parseNats aj, parseRats ax⟩

/-- split a flat list into chunks of length `k` -/
def chunks (k : Nat) (a : Array Nat) : List (Array Nat) :=
  if k = 0 then [] else (List.range (a.size / k)).map (fun t => a.extract (t * k) (t * k + k))

def mkOrds (k : Nat) (es ss : String) : List (Array Nat × Array Nat) :=
  (chunks k (parseNats es)).zip (chunks k (parseNats ss))

def showAgg (t : Array Nat × Array Nat × Array Int) : String :=
  showNats t.1 ++ ";" ++ showNats t.2.1 ++ ";" ++ showInts t.2.2

def handle : List String → Option String
  | ["ext_c12_ballloyd", n, ap, aj, ax, tol, tb, c, maxiter, reb, es, ss] =>
    let cs := parseInts c
    some <| match BalLloyd.cluster (parseRat tol) (tb = "1") (mkA n ap aj ax) cs (nat maxiter) (nat reb)
        (mkOrds cs.size es ss) with
      | .error e => e
      | .ok (cl, ce) => showInts cl ++ ";" ++ showNats ce
  | ["ext_c12_ballloyd_agg", measure, ratio, n, ap, aj, ax, tol, perm, maxiter, reb, es, ss] =>
    let A := mkA n ap aj ax
    let k := ExtLloyd.naggs (parseRat ratio) A.n
    some <| match BalLloyd.aggregation (parseRat tol) A measure (parseRat ratio) (parseInts perm) (nat maxiter)
        (nat reb) (mkOrds k es ss) with
      | .error e => e
      | .ok (agg, ce) => showAgg agg ++ ";" ++ showNats ce
  | ["ext_c12_center_nodes", n, ap, aj, ax, tol, maxsize, c, d, m, p, pc, s] =>
    let A := mkA n ap aj ax
    let st0 : Bal.St := ⟨parseORats d, parseInts m, parseInts p, parseInts pc, parseInts s⟩
    let x : BalLloyd.LSt := ⟨st0, parseNats c, #[], Array.replicate A.n none, Array.replicate A.n none⟩
    some <| match BalLloyd.centerNodes (parseRat tol) A (nat maxsize) x with
      | none => "fault"
      | some (y, ch) => showNats y.c ++ ";" ++ showORats y.st.d ++ ";" ++ showInts y.st.p ++ ";" ++
          showInts y.st.pc ++ ";" ++ toString ch
  | _ => none

end PyamgV.Drv.ExtE34
