import PyamgV.Driver.Util
import PyamgV.Model.ExtGraph
/-! Driver ops of the extension models (ExtGraph). Op names are prefixed `ext_`.
The theorems of `Proofs/ExtGraph*.lean` are stated about exactly these definitions
(`G.coloringJP`, `G.coloringLDF`, `G.misK`), so no proof-side twins are needed. -/
namespace PyamgV.Drv.ExtGraph
open PyamgV PyamgV.Drv

def mkG (n ap aj : String) : G.Graph := ⟨nat n, parseNats ap, parseNats aj⟩

def showCol : Option (Array Int × Int) → String
  | some (x, m) => showInts x ++ ";" ++ toString m
  | none => "fuel-exhausted"

def handle : List String → Option String
  | ["ext_color_jp", n, ap, aj, z] => some <| showCol (G.coloringJP (mkG n ap aj) (parseInts z))
  | ["ext_color_ldf", n, ap, aj, y] => some <| showCol (G.coloringLDF (mkG n ap aj) (parseInts y))
  | ["ext_mis_k", n, ap, aj, y, k] =>
    let g := mkG n ap aj
    some <| match G.misK g (nat k) (fun (z : Int) => z) (parseInts y) none (g.n + 1) with
      | some x => showInts x
      | none => "fuel-exhausted"
  | ["ext_mis_k_iters", n, ap, aj, y, k, m] =>
    -- bounded number of outer iterations (`max_iters = m`)
    let g := mkG n ap aj
    some <| match G.misK g (nat k) (fun (z : Int) => z) (parseInts y) (some (nat m)) (nat m + 1) with
      | some x => showInts x
      | none => "fuel-exhausted"
  | _ => none

end PyamgV.Drv.ExtGraph
