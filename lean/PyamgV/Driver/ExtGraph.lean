import PyamgV.Driver.Util
/-! Driver ops of the extension models (ExtGraph). Op names are prefixed `ext_`. -/
namespace PyamgV.Drv.ExtGraph
open PyamgV PyamgV.Drv

def handle : List String → Option String
  | _ => none

end PyamgV.Drv.ExtGraph
