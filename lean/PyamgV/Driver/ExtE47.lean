import PyamgV.Driver.Util

namespace PyamgV.Drv.ExtE47

/-- line-protocol ops of extension E47 (filled in by the extension) -/
def handle : List String → Option String
  | _ => none

end PyamgV.Drv.ExtE47
