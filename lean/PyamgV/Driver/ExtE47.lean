import PyamgV.Driver.Util
import PyamgV.Driver.C05
import PyamgV.Driver.C16
import PyamgV.Proofs.ExtC05ZCheck
import PyamgV.Proofs.ExtC05ZBlkCheck
import PyamgV.Proofs.ExtC05ZYCheck
import PyamgV.Driver.ExtE36

/-! Driver ops of extension E47 (property C05, definiteness clause and block-smoother certificates).

`ext_c05z_spd r <pre> <post> <levels as for c05_cyc>`: the proved Boolean `C05Z.c05SpdCheck` (finest matrix positive
definite by an exact `Uᵀ D U` certificate, positive diagonal, a strict finest smoother, all smoothers non-expansive -- damped
Jacobi through the certificate of `2 D − ω A` --, Galerkin coarse matrices, invertible level matrices) on the concrete
hierarchy, its components, and -- cross-check of `flag_denseM_spd_checked` -- the same exact positive-definiteness
certificate applied to the model matrices `denseM` of the V- and the W-cycle.
Reply: `spd parts pdV pdW` (`pdV`/`pdW`: `true`/`false`/`-` when `denseM` fails), or `unmodelled`.
`ext_c05z_spd c …`: Gaussian-rational data; reply `- - hpdV hpdW`, the exact Hermitian-positive-definite certificate `isHPD`
of C16 (proved sound) on the executed complex model matrices.

`ext_c05z_spdy r <pre> <post> <levels as for ext_c05y_cyc>`: hierarchies of the extended model whose smoothers all belong to the
first model; reply `check spd parts pdV pdW` for the projected hierarchy / `denseMY`, or `nobase` / `unmodelled`.

`ext_c05z_blk r <bs> <n ap aj ax>`: the proved Boolean `C05ZB.blkSmCheck` (`A.toBsr bs`, `blockDinv` succeed,
`Dinv_i B_ii = I`, symmetric inverse blocks) and its components. -/
namespace PyamgV.Drv.ExtE47
open PyamgV PyamgV.Drv PyamgV.C05 PyamgV.K PyamgV.C05Z

def showParts (l : List Bool) : String :=
  if l.isEmpty then "-" else String.intercalate "," (l.map (fun b => if b then "1" else "0"))

def runSpd (pre post : String) (rest : List String) : String :=
  let pre := PyamgV.Drv.C05.parseCfgs pre
  let post := PyamgV.Drv.C05.parseCfgs post
  match PyamgV.Drv.C05.parseLevels parseRats pre post 0 rest with
  | none => "unmodelled"
  | some (ls, ac) =>
    let pdOf (c : Cyc) : String := match denseM (α := Rat) id ac c ls with
      | some M => toString (PyamgV.C05Z.pdB posR M.size M)
      | none => "-"
    s!"{PyamgV.C05Z.c05SpdCheck posR id ac ls} {showParts (PyamgV.C05Z.c05SpdParts posR id ac ls)} {pdOf .V} {pdOf .W}"

/-- complex data: the exact Hermitian-positive-definite certificate `isHPD` (soundness `C16X.isHPD_sound_crat`,
`C05Z.hpd_certificate_complex`) on the executed complex model matrices -/
def runHpdC (pre post : String) (rest : List String) : String :=
  let pre := PyamgV.Drv.C05.parseCfgs pre
  let post := PyamgV.Drv.C05.parseCfgs post
  match PyamgV.Drv.C05.parseLevels parseCRats pre post 0 rest with
  | none => "unmodelled"
  | some (ls, ac) =>
    let pdOf (c : Cyc) : String := match denseM (α := CRat) CRat.ofRat ac c ls with
      | some M => toString (PyamgV.C16.isHPD CRat.conj PyamgV.Drv.C16.posC M M.size)
      | none => "-"
    s!"- - {pdOf .V} {pdOf .W}"

/-- the extended cycle model (`ext_c05y_cyc` data) on hierarchies whose smoothers are all of the first model: `c05Check` and
`c05SpdCheck` on the projection `toBaseH` (`flag_denseMY_spd_checked_rat`), the exact certificate `pdB` on `denseMY` as cross-check -/
def runSpdY (pre post : String) (rest : List String) : String :=
  let pre := PyamgV.Drv.C05.parseCfgs pre
  let post := PyamgV.Drv.C05.parseCfgs post
  match PyamgV.Drv.ExtE36.parseLevelsY parseRats pre post 0 rest with
  | none => "unmodelled"
  | some (ls, ac) =>
    match toBaseH ls with
    | none => "nobase"
    | some ls' =>
      let pdOf (c : Cyc) : String := match PyamgV.C05Y.denseMY (α := Rat) id id ac c ls with
        | some M => toString (pdB posR M.size M)
        | none => "-"
      s!"{c05Check id pre post ac ls'} {c05SpdCheck posR id ac ls'} {showParts (c05SpdParts posR id ac ls')} {pdOf .V} {pdOf .W}"

def handle : List String → Option String
  | "ext_c05z_spdy" :: "r" :: pre :: post :: rest => some <| runSpdY pre post rest
  | "ext_c05z_spd" :: "r" :: pre :: post :: rest => some <| runSpd pre post rest
  | "ext_c05z_spd" :: "c" :: pre :: post :: rest => some <| runHpdC pre post rest
  | ["ext_c05z_blk", "r", bs, n, ap, aj, ax] =>
    let A : Csr Rat := PyamgV.Drv.C05.mkCsr parseRats n ap aj ax
    some <| s!"{PyamgV.C05ZB.blkSmCheck A (nat bs)} {showParts (PyamgV.C05ZB.blkSmParts A (nat bs))}"
  | _ => none

end PyamgV.Drv.ExtE47
