import PyamgV.Driver.Util
import PyamgV.Model.ExtC19SArnoldi
/-! Driver ops of extension task E39 (property C19).  All numbers are binary64 bit patterns written as decimal
integers; matrices: rows separated by `;`.

`ext_c19_arnoldi <A> <breakdown tol> <symmetric 0|1> <maxiter> <v0>`
  -> `<breakdown_flag 0|1> <V_0;V_1;...> <col_0;col_1;...>`  the list `V` and the written part `H[0 .. j+1, j]` of every
     column of `H` that the model of `_approximate_eigenvalues` (`Model/ExtC19SArnoldi.lean`, run in `Float`)
     produces; `none` when `min(n, maxiter) = 0` (the code fails), `bad-size` when the shapes do not fit -/
namespace PyamgV.Drv.ExtE39
open PyamgV PyamgV.Drv PyamgV.C19S

def fmat (t : String) : List (List Float) :=
  if t = "-" then [] else (t.splitOn ";").map (fun r => (parseFloats r).toList)

def showVecs (xs : List (List Float)) : String :=
  if xs.isEmpty then "-" else String.intercalate ";" (xs.map fun v => sh (v.map fun f => toString f.toBits.toNat))

/-- line-protocol ops of extension E39 -/
def handle : List String → Option String
  | ["ext_c19_arnoldi", a, tol, sym, maxiter, v0] =>
    let v := (parseFloats v0).toList
    let A := fmat a
    if A.length ≠ v.length || A.any (fun r => r.length ≠ v.length) then some "bad-size" else
    match approxEigFloat A ((parseFloats tol).getD 0 0) (sym = "1") (nat maxiter) v with
    | none => some "none"
    | some (vs, cols, brk) => some s!"{if brk then 1 else 0} {showVecs vs} {showVecs cols}"
  | _ => none

end PyamgV.Drv.ExtE39
