import PyamgV.Driver.Util
import PyamgV.Driver.Relax
import PyamgV.Model.ExtC09Block
/-! Driver ops of extension task E15 (property C09): `ext_c09_r_*` run the models of
Model/ExtC09Block.lean on `Rat`, `ext_c09_c_*` on Gaussian rationals `CRat`.
Matrices: `fmt n bs ap aj ax` with `fmt = csr` (converted by the model with `toBsr bs` / `toCsc`) or
`fmt = bsr` / `csc` (arrays used as they are; for `bsr`, `n` = number of block rows). -/
namespace PyamgV.Drv.ExtE15
open PyamgV PyamgV.K PyamgV.Drv

structure Sc (α : Type) where
  parse : String → Array α
  parse1 : String → α
  shw : Array α → String
  conj : α → α

def scR : Sc Rat := ⟨parseRats, parseRat, showRats, id⟩
def scC : Sc CRat := ⟨parseCRats, parseCRat, showCRats, CRat.conj⟩

section
variable {α : Type} [Add α] [Sub α] [Mul α] [Div α] [OfNat α 0] [OfNat α 1] [DecidableEq α]

def mkCsr (S : Sc α) (n ap aj ax : String) : Csr α := ⟨nat n, parseNats ap, parseNats aj, S.parse ax⟩

def mkBsr (S : Sc α) (fmt n bs ap aj ax : String) : Option (Bsr α) :=
  if fmt = "bsr" then some ⟨nat n, nat bs, parseNats ap, parseNats aj, S.parse ax⟩
  else (mkCsr S n ap aj ax).toBsr (nat bs)

def optArr (S : Sc α) (s : String) : Option (Array α) := if s = "none" then none else some (S.parse s)

def showO (S : Sc α) : Option (Array α) → String
  | none => "reject"
  | some a => S.shw a

def handleG (S : Sc α) : List String → Option String
  | ["tobsr", n, bs, ap, aj, ax] =>
    some <| match (mkCsr S n ap aj ax).toBsr (nat bs) with
      | none => "reject"
      | some B => s!"{B.nb};{showNats B.bp};{showNats B.bj};{S.shw B.bx}"
  | ["tocsc", n, ap, aj, ax] =>
    let B := (mkCsr S n ap aj ax).toCsc
    some s!"{showNats B.ap};{showNats B.aj};{S.shw B.ax}"
  | ["bjac", om, fmt, n, bs, ap, aj, ax, b, x, dinv, iters] =>
    some <| showO S ((mkBsr S fmt n bs ap aj ax).bind fun A =>
      pyBlockJacobi (S.parse1 om) A (S.parse b) (S.parse dinv) (nat iters) (S.parse x))
  | ["bgs", fmt, n, bs, ap, aj, ax, b, x, dinv, iters, sweep] =>
    some <| showO S ((mkBsr S fmt n bs ap aj ax).bind fun A =>
      pyBlockGaussSeidel A (S.parse b) (S.parse dinv) (nat iters) (Relax.sweepOf sweep) (S.parse x))
  | ["bjack", om, nb, bs, ap, aj, ax, b, x, dinv, temp, s0, s1, s2] =>
    some <| S.shw (blockJacobi (S.parse1 om) ⟨nat nb, nat bs, parseNats ap, parseNats aj, S.parse ax⟩ (S.parse b) (S.parse dinv)
      (Relax.sw s0 s1 s2) (S.parse temp) (S.parse x))
  | ["bgsk", nb, bs, ap, aj, ax, b, x, dinv, s0, s1, s2] =>
    some <| S.shw (blockGaussSeidel ⟨nat nb, nat bs, parseNats ap, parseNats aj, S.parse ax⟩ (S.parse b) (S.parse dinv)
      (Relax.sw s0 s1 s2) (S.parse x))
  | ["poly", n, ap, aj, ax, b, x, cs, iters] =>
    some <| showO S (pyPolynomial (mkCsr S n ap aj ax) (S.parse b) (S.parse cs).toList (nat iters) (S.parse x))
  | ["jacne", om, n, ap, aj, ax, b, x, iters] =>
    some <| S.shw (pyJacobiNE S.conj (S.parse1 om) (mkCsr S n ap aj ax) (S.parse b) (nat iters) (S.parse x))
  | ["gsne", om, n, ap, aj, ax, b, x, dinv, iters, sweep] =>
    some <| S.shw (pyGaussSeidelNE S.conj (S.parse1 om) (mkCsr S n ap aj ax) (S.parse b) (optArr S dinv) (nat iters)
      (Relax.sweepOf sweep) (S.parse x))
  | ["gsnr", om, fmt, n, ap, aj, ax, b, x, dinv, iters, sweep] =>
    let A0 := mkCsr S n ap aj ax
    let A := if fmt = "csc" then A0 else A0.toCsc
    some <| S.shw (pyGaussSeidelNR S.conj (S.parse1 om) A (S.parse b) (optArr S dinv) (nat iters)
      (Relax.sweepOf sweep) (S.parse x))
  | ["schwarz", n, ap, aj, ax, b, x, tx, tp, sj, sp, iters, sweep] =>
    some <| S.shw (pySchwarz (mkCsr S n ap aj ax) (S.parse b) (S.parse tx) (parseNats tp) (parseNats sj) (parseNats sp)
      (nat iters) (Relax.sweepOf sweep) (S.parse x))
  | ["schwarzk", n, ap, aj, ax, b, x, tx, tp, sj, sp, s0, s1, s2] =>
    some <| S.shw (schwarzSweep (mkCsr S n ap aj ax) (S.parse b) (S.parse tx) (parseNats tp) (parseNats sj) (parseNats sp)
      (Relax.sw s0 s1 s2) (S.parse x))
  | _ => none
end

def handle : List String → Option String
  | op :: args =>
    if op.startsWith "ext_c09_r_" then handleG scR ((op.drop 10).toString :: args)
    else if op.startsWith "ext_c09_c_" then handleG scC ((op.drop 10).toString :: args)
    else none
  | _ => none

end PyamgV.Drv.ExtE15
