import PyamgV.Driver.Util
import PyamgV.Driver.C10
import PyamgV.Model.ExtC10cComplex
import PyamgV.Proofs.ExtC10cComplex
/-! Driver ops of extension task E48 (property C10; op names prefixed `ext_c10c_`):

* `ext_c10c_energy r|c` -- `cg_prolongation_smoothing` / `cgnr_prolongation_smoothing` (model `energyCG`, the
  function `cg_run_property` is about; mode `c` = `energyCGC` on Gaussian rationals), with the hypotheses of
  `cg_run_checked` decided on the call (`hyps`), its conclusion re-checked on the result (`rel`), and the
  per-update flags of `c10_energy`;
* `ext_c10c_gmres c` -- `gmres_prolongation_smoothing` on Gaussian rationals (`energyGmresC`), flags as
  `ext_c10b_gmres` plus `hyps`;
* `ext_c10c_smooth` / `ext_c10c_p_smooth` -- complex unfiltered Jacobi / Richardson: loop and polynomial of
  the array model, and both sides of `smoothing_polynomial` on `Matrix _ _ CRat`;
* `ext_c10c_jacf` -- complex filtered Jacobi (`filteredLoopC`). -/
namespace PyamgV.Drv.ExtE48
open PyamgV PyamgV.Drv PyamgV.Drv.C10 PyamgV.C10M PyamgV.C10bM PyamgV.C10cM

def matOfC (r c : Nat) (a : Array CRat) : Matrix (Fin r) (Fin c) CRat := fun i j => a.getD (i.val * c + j.val) 0
def flatOfC {r c : Nat} (M : Matrix (Fin r) (Fin c) CRat) : Array CRat :=
  ((List.finRange r).flatMap fun i => (List.finRange c).map fun j => M i j).toArray

/-- `PyamgV.C10.applyUpdates` on Gaussian-rational matrices -/
def pApplyC (n m : Nat) (T : Mat CRat) (ups : List (CRat × Mat CRat)) : Array CRat :=
  flatOfC (PyamgV.C10.applyUpdates (matOfC n m T.flat) (ups.map fun u => (u.1, matOfC n m u.2.flat)))

/-- both sides of `PyamgV.C10.smoothing_polynomial` over `CRat` -/
def pPolyC (n m d : Nat) (mm t : Array CRat) : Array CRat × Array CRat :=
  let M := matOfC n n mm
  let T := matOfC n m t
  (flatOfC ((fun P : Matrix (Fin n) (Fin m) CRat => P - M * P)^[d] T), flatOfC ((1 - M) ^ d * T))

section generic
variable {α : Type} [Add α] [Sub α] [Mul α] [Div α] [OfNat α 0] [OfNat α 1] [DecidableEq α]

/-- every update annihilates `B` exactly and vanishes outside the block pattern -/
def upsOK (rpb cpb : Nat) (pat : Pat) (B : Mat α) (ups : List (α × Mat α)) : Bool :=
  ups.all fun u =>
    (Mat.mul u.2 B).flat.all (· == 0) && (Mat.sub u.2 (maskDense rpb cpb pat u.2)).flat.all (· == 0)

/-- the conclusion of `cg_run_property` (`C10c.Rel`) decided on the result -/
def relB (n m nd rpb cpb : Nat) (pat : Pat) (cpts : Array Nat) (B T0 T : Mat α) : Bool :=
  let TB := Mat.mul T B
  let T0B := Mat.mul T0 B
  decide (T.rows = n) && decide (T.cols = m) &&
  (List.range n).all fun i =>
    match PyamgV.C10c.rootIdx cpts i with
    | none =>
      ((List.range nd).all fun c => TB.get i c == T0B.get i c) &&
      ((List.range m).all fun j => (pat.getD (i / rpb) #[]).contains (j / cpb) || T.get i j == T0.get i j)
    | some k =>
      ((List.range m).all fun j => T.get i j == T0.get i j) ||
      ((List.range m).all fun j => T.get i j == (if k = j then 1 else 0))

/-- the report of one cg / cgnr run -/
def energyReport (conj : α → α) (lt : α → α → Bool) (showM : Mat α → String) (showA : Array α → String)
    (fold : Mat α → List (α × Mat α) → Array α)
    (cgnr : Bool) (wt rpb cpb nd : Nat) (pat : Pat) (n m : Nat) (A : Mat α) (aux : Array α) (T B : Mat α)
    (maxiter : Nat) (tol : α) (cpts : Array Nat) : String :=
  match mkPrecond wt rpb A aux with
  | none => "singular"
  | some pre =>
    let o := energyCG conj lt cgnr rpb cpb nd pat A pre T B maxiter tol cpts
    let flags := (if o.ok then "ok" else "singular") ++ "," ++ (if o.breakdown then "breakdown" else "regular") ++ "," ++
      (if upsOK rpb cpb pat B o.ups then "constrained" else "UNCONSTRAINED") ++ "," ++
      (if cpts.isEmpty then (if fold T o.ups == o.T.flat then "fold" else "NOFOLD") else "roots") ++ "," ++
      (if PyamgV.C10c.hypsOK n m nd rpb cpb pat A T B then "hyps" else "NOHYPS") ++ "," ++
      (if relB n m nd rpb cpb pat cpts B T o.T then "rel" else "NOREL")
    showM o.T ++ ";" ++ flags ++ ";" ++ showA o.sums.toArray ++ ";" ++ toString o.ups.length

end generic

def handle : List String → Option String
  | ["ext_c10c_energy", "r", cgnr, wt, rpb, cpb, nd, pat, n, m, a, aux, t, b, maxiter, tol, cpts] =>
    some <| energyReport (α := Rat) id (fun x y => decide (x < y)) showMatR showRats (pApply (nat n) (nat m))
      (cgnr == "1") (nat wt) (nat rpb) (nat cpb) (nat nd) (parsePat pat) (nat n) (nat m) (matR n n a) (parseRats aux)
      (matR n m t) (matR m nd b) (nat maxiter) (parseRat tol) (parseNats cpts)
  | ["ext_c10c_energy", "c", cgnr, wt, rpb, cpb, nd, pat, n, m, a, aux, t, b, maxiter, tol, cpts] =>
    some <| energyReport CRat.conj cratLt showMatC showCRats (pApplyC (nat n) (nat m))
      (cgnr == "1") (nat wt) (nat rpb) (nat cpb) (nat nd) (parsePat pat) (nat n) (nat m) (matC n n a) (parseCRats aux)
      (matC n m t) (matC m nd b) (nat maxiter) (parseCRat tol) (parseNats cpts)
  | ["ext_c10c_gmres", "c", wt, rpbS, cpbS, ndS, pat, n, m, a, aux, t, b, maxiter, tol, cpts] =>
    let rpb := nat rpbS
    let cpb := nat cpbS
    let nd := nat ndS
    let A := matC n n a
    let T := matC n m t
    let B := matC m ndS b
    let pt := parsePat pat
    match mkPrecondC (nat wt) rpb A (parseCRats aux) with
    | none => some "singular"
    | some pre =>
      match energyGmresC rpb cpb nd pt A pre T B (nat maxiter) (parseCRat tol) (parseNats cpts) with
      | none => some "singular"
      | some o =>
        let c := o.core
        let flags := (if c.ok then "ok" else "singular") ++ "," ++ (if c.breakdown then "breakdown" else "regular") ++ "," ++
          (if c.lucky then "lucky" else "generic") ++ "," ++
          (if c.projs.all (fun Y => PyamgV.C10b.annihilates Y B && PyamgV.C10b.offPatternZero rpb cpb pt Y)
            then "projs-constrained" else "PROJS-UNCONSTRAINED") ++ "," ++
          (if upsOK rpb cpb pt B c.ups then "constrained" else "UNCONSTRAINED") ++ "," ++
          (if pApplyC (nat n) (nat m) T c.ups == c.T.flat then "fold" else "NOFOLD") ++ "," ++
          (if (Mat.mul c.T B).flat == (Mat.mul T B).flat then "product" else "NOPRODUCT") ++ "," ++
          (if PyamgV.C10c.hypsOK (nat n) (nat m) nd rpb cpb pt A T B then "hyps" else "NOHYPS")
        some <| showMatC o.T ++ ";" ++ flags ++ ";" ++ showCRats c.normrs.toArray ++ ";" ++ toString c.ups.length ++ ";" ++
          showCRats c.hns.toArray ++ ";" ++ showCRats c.diag.toArray
  | ["ext_c10c_smooth", wt, bs, w, deg, n, m, s, absrow, t] =>
    match scaledMatrixC (nat wt) (nat bs) (parseCRat w) (matC n n s) (parseCRats absrow) with
    | none => some "singular"
    | some M =>
      let T := matC n m t
      some <| showMatC (smoothLoopC M (nat deg) T) ++ ";" ++ showMatC (polyApplyC M (nat deg) T)
  | ["ext_c10c_p_smooth", wt, bs, w, deg, n, m, s, absrow, t] =>
    match scaledMatrixC (nat wt) (nat bs) (parseCRat w) (matC n n s) (parseCRats absrow) with
    | none => some "singular"
    | some M =>
      let (a, b) := pPolyC (nat n) (nat m) (nat deg) M.flat (parseCRats t)
      some <| showCRats a ++ ";" ++ showCRats b
  | ["ext_c10c_jacf", wt, bs, w, rpb, cpb, nd, n, m, s, absrow, b, pats, t] =>
    match scaledMatrixC (nat wt) (nat bs) (parseCRat w) (matC n n s) (parseCRats absrow) with
    | none => some "singular"
    | some M =>
      let pl := if pats = "-" then [] else (pats.splitOn "|").map parsePat
      let B := matC m nd b
      let T := matC n m t
      match filteredLoopC (nat rpb) (nat cpb) (nat nd) M B pl T with
      | none => some "singular"
      | some (P, us) =>
        -- conclusion of filteredC_run_property re-checked, its hypotheses decided, the proof-side fold replayed
        let ups := us.map (fun U => ((0 - 1 : CRat), U))
        let flag := if (us.all fun U => (Mat.mul U B).flat.all (· == 0)) && pApplyC (nat n) (nat m) T ups == P.flat
            && (Mat.mul P B).flat == (Mat.mul T B).flat
          then "constrained" else "UNCONSTRAINED"
        let hyps := if decide (0 < nat n) && decide (0 < nat rpb) && decide (0 < nat cpb) && decide (M.rows = nat n) &&
            decide (T.rows = nat n) && decide (T.cols = nat m) && decide (B.cols = nat nd) &&
            pl.all (fun pt => PyamgV.C10c.patInB (nat m) (nat cpb) pt) then "hyps" else "NOHYPS"
        some <| showMatC P ++ ";" ++ flag ++ ";" ++ hyps
  | _ => none

end PyamgV.Drv.ExtE48
