import PyamgV.Driver.Util
import PyamgV.Driver.C07
import PyamgV.Model.ExtC07CCert
/-! Driver ops of extension E37 (property C07, complex case).

`ext_c07c_argmin <kind> <A> <M> <b> <x0> <k>`  (Gaussian rationals; matrices: rows separated by `;`)
  → `<cert 0|1> <xs> <y_1;…;y_k> <val_0,…,val_k>` | `singular` | `bad-kind`
  the complex branch of `c07_krylov_argmin`, with the certificate **re-checked by the checker proved sound** in
  `Proofs/ExtC07CCert.lean`: `cert = 1` only if the Gram matrix is Hermitian (`isHermL`) and every `(d_j, y_j)` passes
  `certVH` (`certAllVH`) with the conjugating `Vector` operations -/
namespace PyamgV.Drv.ExtE37
open PyamgV PyamgV.Drv PyamgV.C07 PyamgV.Drv.C07

/-- line-protocol ops of extension E37 -/
def handle : List String → Option String
  | ["ext_c07c_argmin", kind, a, m, b, x0, k] =>
    if !(["cg", "gmres", "res", "cgnr", "cgne"].contains kind) then some "bad-kind" else
    match krylovArgmin CRat.conj kind (parseMatC a) (parseMatC m) (1 : CRat) (parseCRats b).toList (parseCRats x0).toList (nat k) with
    | none => some "singular"
    | some r =>
      let b' := (parseCRats b).toList
      let n := b'.length
      let ok := r.cert && isHermL CRat.conj n r.G &&
        certAllVH CRat.conj n r.G r.basis r.xs (parseCRats x0).toList r.ds r.ys
      some s!"{if ok then 1 else 0} {showCRats r.xs.toArray} {showVecs showCRats r.ys} {showCRats r.vals.toArray}"
  | _ => none

end PyamgV.Drv.ExtE37
