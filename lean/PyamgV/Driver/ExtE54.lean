import PyamgV.Driver.Util
import PyamgV.Driver.C04
import PyamgV.Driver.ExtE13
import PyamgV.Driver.ExtE27
import PyamgV.Driver.ExtE41
import PyamgV.Driver.ExtE50
import PyamgV.Model.ExtC04YLoop
import PyamgV.Model.ExtC04YConv
import PyamgV.Model.ExtC04YPairwise
/-! Driver ops of extension task E54 (properties C04, C15), prefix `c04y_`.

* `c04y_build <ctor> <sym> <max_levels> <max_coarse> <blocksize0> <theta|-> <lump 0/1> <tolN> <slack> <A0> {<in_k> <P_k> <R_k>}*`:
  the loop of the constructors on sparse levels (`C04Y.buildG` = `Coarsen.build` with `extendG`: guard model of E13,
  sparse Galerkin product of E27, for `theta != -` the stored-row filter `filterCsr`), fed with the numerical parts
  observed on a real run (`tableNum`): per call of the step the guard token `<in_k>` of `ext_c04_step` and the
  matrix tokens (`Driver/ExtE27.lean`; `-` = none) of the `P`, `R` the real step produced.  Reply
  `<rows>;<blocksizes>;<reason>;<calls>;<verdict>;<near>;<flags>;<A_0>&<A_1>&...`: `verdict` = the proved checker on the
  MODEL's hierarchy (`checkHierS sym 0 (hier ..)`, with filtering `checkHierF <theta, lump, 0> sym 0 (toMat A0) (hierF ..)`;
  `ok` by `Props/C04.loop_builds_hierarchy_sparse` / `air_loop_builds_filtered_hierarchy` whenever the observed `P`, `R`
  are well formed), `near` = filter decisions of the model within `slack` (+ `tolN` bounds) of the threshold, `flags` =
  levels stored filtered in place, `A_l` = row-major dense meaning of the matrices of `hier` / `hierF` (with filtering
  the first one is the filtered copy of level 0)
* `c04y_convert <M>`: `<M>` a matrix token of `Driver/ExtE27.lean`, or `lil:<rows>:<cols>:<idx lists>:<data lists>`
  (rows separated by `/`, `-` = empty row), or `dia:<rows>:<cols>:<L>:<offsets>:<data, diagonal after diagonal>`;
  reply `<csr>;<dense>;<isCanonical>;<noStoredZeros>`, `error:<why>`
* `c04y_pw <matchings> <norm> <theta> <tiny> <rows>:<cols>:<indptr>:<indices>:<rational data>`: the pairwise
  constructor path with any number of matchings on the arrays as they are (`pwMRaw`) and behind the canonicaliser
  (`pwMStep`); reply `<P or none>;<P or none>` -/
namespace PyamgV.Drv.ExtE54
open PyamgV PyamgV.Drv PyamgV.Spmm PyamgV.C04 PyamgV.C04X PyamgV.C04Y PyamgV.ExtC04 PyamgV.ConvX PyamgV.Canon
  PyamgV.CanonM

def emptyCsr : Csr CRat := ⟨0, 0, #[0], #[], #[]⟩

def optCsr (s : String) : Except String (Csr CRat) := if s = "-" then .ok emptyCsr else ExtE27.toCsr s

/-- `<in> <P> <R>` triples -/
def parseTable (c : String) : List String → Except String (List NumOut)
  | [] => .ok []
  | i :: p :: r :: rest =>
    match ExtE13.parseIn c i, optCsr p, optCsr r, parseTable c rest with
    | some g, .ok P, .ok R, .ok tl => .ok (⟨g, P, R⟩ :: tl)
    | none, _, _, _ => .error "error:parse-guard"
    | _, .error e, _, _ => .error e
    | _, _, .error e, _ => .error e
    | _, _, _, .error e => .error e
  | _ => .error "error:parse-table"

def flagStr (b : Bool) : String := if b then "1" else "0"

def splitRows (s : String) : List String := s.splitOn "/"

def parseLil (r c idx dat : String) : Lil CRat :=
  ⟨nat r, nat c, ((splitRows idx).map fun t => (parseNats t).toList).toArray,
    ((splitRows dat).map fun t => (parseCRats t).toList).toArray⟩

def parseX (s : String) : Option (InputX CRat) :=
  match s.splitOn ":" with
  | ["lil", r, c, idx, dat] => some (.lil (parseLil r c idx dat))
  | ["dia", r, c, l, offs, dat] => some (.dia ⟨nat r, nat c, nat l, parseInts offs, parseCRats dat⟩)
  | _ => (ExtE27.parseInput s).map .base

def handle : List String → Option String
  | "c04y_build" :: c :: sym :: ml :: mc :: b0 :: theta :: lump :: tolN :: slack :: a0 :: tbl =>
    match C04.parseSym sym, ml.toNat?, mc.toNat?, b0.toNat?, ExtE13.blockwiseOf c, ExtE27.toCsr a0, parseTable c tbl with
    | some sym, some ml, some mc, some b0, some bw, .ok A0, .ok tbl =>
      if ml = 0 then some "error:max_levels" else
      let num := tableNum tbl.toArray
      let filt := theta != "-"
      let θ := parseRat theta
      let lmp := lump = "1"
      let work : Csr CRat → Csr CRat := if filt then filterCsr θ lmp else id
      match buildG work num bw ml mc ml A0 b0 with
      | [] => some "error:empty"
      | last :: rest =>
        let lvs := last :: rest
        let fl := lvs.reverse
        let stop := C04.stopOf ml mc lvs.length (sizeS bw last)
        let head := showNats (fl.map (·.lv.rows)).toArray ++ ";" ++ showNats (fl.map (·.lv.bs)).toArray ++ ";" ++
          C04.stopName stop ++ ";" ++ toString (rest.length + C04.extraCall stop)
        if filt then
          let hf := hierF work bw ml mc lvs
          let ok := checkHierF ⟨θ, lmp, 0⟩ sym 0 (toMat A0) hf
          let cN : FCfg := ⟨θ, lmp, parseRat slack⟩
          let tN := parseRat tolN
          let near := countSkip cN tN A0.rows A0.cols (toMat A0) (toMat A0).absM + countSkipF cN tN hf
          some (head ++ ";" ++ (if ok then "ok" else whyFailF ⟨θ, lmp, 0⟩ sym 0 (toMat A0) hf) ++ ";" ++ toString near ++ ";" ++
            sh (hf.map fun l => flagStr l.2) ++ ";" ++ String.intercalate "&" (hf.map fun l => showCRats l.1.A.data))
        else
          let h := hier lvs
          let ok := checkHierS sym 0 h
          some (head ++ ";" ++ (if ok then "ok" else ExtE50.whyFailS sym 0 0 h) ++ ";0;" ++
            sh (h.map fun _ => "0") ++ ";" ++ String.intercalate "&" (h.map fun l => showCRats l.A.data))
    | none, _, _, _, _, _, _ => some "error:parse-sym"
    | _, _, _, _, _, .error e, _ => some e
    | _, _, _, _, _, _, .error e => some e
    | _, _, _, _, _, _, _ => some "error:parse"
  | ["c04y_convert", m] =>
    some <| match parseX m with
      | none => "error:parse"
      | some X =>
        if X.wf then
          let A := toCsrXC X
          ExtE27.showBoth A ++ ";" ++ ExtE41.flag (isCanonicalC A) ++ ";" ++ ExtE41.flag (noStoredZerosC A)
        else "error:not-well-formed"
  | ["c04y_pw", m, norm, th, tiny, a] =>
    some <| match a.splitOn ":" with
      | [r, c, ap, aj, ax] =>
        let A : Csr Rat := ⟨nat r, nat c, parseNats ap, parseNats aj, parseRats ax⟩
        if A.wf ∧ A.rows = A.cols then
          ExtE41.showOpt (pwMRaw (nat m) norm (parseRat tiny) (parseRat th) A) ++ ";" ++
            ExtE41.showOpt (pwMStep (nat m) norm (parseRat tiny) (parseRat th) A)
        else "error:not-well-formed"
      | _ => "error:parse"
  | _ => none

end PyamgV.Drv.ExtE54
