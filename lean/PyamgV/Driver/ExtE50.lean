import PyamgV.Driver.Util
import PyamgV.Driver.C04
import PyamgV.Model.ExtC04XModel
/-! Driver ops of extension E50 (property C04), prefix `c04x_`.

* `c04x_check <sym> <tol> <A0> <P0> <R0> <A1> ... <Ak>`: `C04X.checkHierS` = the proved checker `C04.checkHier`
  (`Props/C04.check_hier_fast_same`) with the product computed over the non-zeros; same reply as `c04_check`
* `c04x_checkf <sym> <tol> <theta> <lump 0/1> <slack> <flags> <A0> <Af0> <P0> <R0> <A1> ... <Ak>`: `C04X.checkHierF`,
  the checker for AIR hierarchies built with `filter_operator`; `flags` = comma list of 0/1, one per level
  (stored matrix filtered in place; the first is ignored); reply `ok;<skipped decisions>` or `fail:<level>:<clause>`
* `c04x_filter <theta> <lump> <M>`: `C04X.filterMat` (the C19 kernel model on every dense row) and the entrywise
  definition `C04X.filtDef`; reply `<entries>;<same|differ>` -/
namespace PyamgV.Drv.ExtE50
open PyamgV PyamgV.Drv PyamgV.C04 PyamgV.C04X

def whyFailS (sym : Sym) (tol : Rat) : Nat → List Lvl → String
  | _, [] => "no-levels"
  | k, [l] => if l.A.wf && decide (l.A.rows = l.A.cols) && decide (0 < l.A.rows) then "ok"
              else s!"fail:{k}:coarsest-empty-or-not-square"
  | k, f :: c :: rest =>
    if !chkWf f c.A then s!"fail:{k}:encoding"
    else if !chkDims f c.A then s!"fail:{k}:dims"
    else if !chkDecr f c.A then s!"fail:{k}:decrease"
    else if !chkGalerkinS tol f c.A then s!"fail:{k}:galerkin"
    else if !chkTranspose sym f then s!"fail:{k}:transpose"
    else whyFailS sym tol (k + 1) (c :: rest)

def zipFlags : List Lvl → List Nat → List (Lvl × Bool)
  | [], _ => []
  | l :: ls, [] => (l, false) :: zipFlags ls []
  | l :: ls, b :: bs => (l, b != 0) :: zipFlags ls bs

def handle : List String → Option String
  | "c04x_check" :: sym :: tol :: mats =>
    match C04.parseSym sym, parseRat? tol, C04.parseLevels mats with
    | some sym, some tol, some ls =>
      some <| if checkHierS sym tol ls then "ok" else
        let w := whyFailS sym tol 0 ls
        if w = "ok" then "fail:?:checker-and-diagnostic-disagree" else w
    | _, _, _ => some "error"
  | "c04x_checkf" :: sym :: tol :: theta :: lump :: slack :: flags :: a0 :: mats =>
    match C04.parseSym sym, parseRat? tol, parseRat? theta, parseRat? slack, C04.parseMat a0, C04.parseLevels mats with
    | some sym, some tol, some θ, some slack, some A0, some ls =>
      let c : FCfg := ⟨θ, lump = "1", slack⟩
      let fl := zipFlags ls (parseNats flags).toList
      some <| if checkHierF c sym tol A0 fl then
          s!"ok;{countSkip c tol A0.rows A0.cols A0 A0.absM + countSkipF c tol fl}"
        else
          let w := whyFailF c sym tol A0 fl
          if w = "ok" then "fail:?:checker-and-diagnostic-disagree" else w
    | _, _, _, _, _, _ => some "error"
  | ["c04x_filter", theta, lump, m] =>
    match parseRat? theta, C04.parseMat m with
    | some θ, some M =>
      let F := filterMat θ (lump = "1") M
      let same := allLt M.rows fun i => allLt M.cols fun j => decide (F.ent i j = filtDef θ (lump = "1") M i j)
      some (showCRats F.data ++ ";" ++ (if same then "same" else "differ"))
    | _, _ => some "error"
  | _ => none

end PyamgV.Drv.ExtE50
