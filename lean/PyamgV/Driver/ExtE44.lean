import PyamgV.Driver.Util

namespace PyamgV.Drv.ExtE44

/-- line-protocol ops of extension E44 (filled in by the extension) -/
def handle : List String → Option String
  | _ => none

end PyamgV.Drv.ExtE44
