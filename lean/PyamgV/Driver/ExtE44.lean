import PyamgV.Driver.Util
import PyamgV.Model.ExtC14YEvol
/-! Driver ops of extension task E44 (property C14; op names prefixed `ext_c14y_`): the whole of
`evolution_strength_of_connection` for several candidate vectors, every `k`, `epsilon = inf`, BSR input and complex input.
They run the definitions of `Model/ExtC14YEvol.lean` that `Props/C14.lean` (section E44) is about.
`kind` is `r` (real scalars) or `c` (complex, tokens `re|im`); sections of a reply are separated by `#`; the complex
modulus is `sqrt` to relative precision `2^-100` (exact on squares). -/
namespace PyamgV.Drv.ExtE44
open PyamgV PyamgV.Drv PyamgV.N PyamgV.C14 PyamgV.C14X PyamgV.C14Y

def sqD : Rat → Rat := sqrtApprox 100

def showRowsG {α : Type} (shw : Array α → String) (rows : List (RowOf α)) : String :=
  let (sp, sj, sx) := rowsToOut rows
  showNats sp ++ ";" ++ showNats sj ++ ";" ++ shw sx

def mkRows {α : Type} [OfNat α 0] (n : Nat) (ap aj : Array Nat) (ax : Array α) : List (RowOf α) :=
  (List.range n).map fun i =>
    (List.range' (rdN ap i) (rdN ap (i+1) - rdN ap i)).map fun jj => (rdN aj jj, ax.getD jj 0)

def mkB {α : Type} [OfNat α 0] (n K : Nat) (b : Array α) : DMat α := C19.Mat.unflat n K b

def parseEps (s : String) : Option Rat := if s = "inf" then none else some (parseRat s)

/-- `big tiny eps wk wk8 sqe perf tolz c k symm projDA blockFlag bs` -/
def mkPar : List String → Option Par
  | [big, tiny, eps, wk, wk8, sqe, perf, tolz, c, k, symm, proj, bf, bs] =>
    some ⟨parseRat big, parseRat tiny, parseEps eps, parseRat wk, parseRat wk8, parseRat sqe, parseRat perf, parseRat tolz,
      parseRat c, nat k, symm = "1", proj = "1", bf = "1", nat bs⟩
  | _ => none

section run
variable {α : Type} [Add α] [Sub α] [Mul α] [Div α] [OfNat α 0] [OfNat α 1] [DecidableEq α]

def runFull (S : Scal α) (shw : Array α → String) (P : Par) (bsr : Bool) (B : DMat α) (K : Nat)
    (rows : List (RowOf α)) (X : Spmm.Bsr α) : String :=
  let rows := if bsr then scalarRows X else rows
  match atildeOf S P rows, evMeasureG S P B K rows,
      (if bsr then evolFullBsr S P B K X else evolFullG S P B K rows) with
  | some a, some m, some r => showRowsG shw a ++ "#" ++ showRowsG showRats m ++ "#" ++ showRowsG showRats r
  | _, _, _ => "reject"

def runHelper (S : Scal α) (P : Par) (dA : Array α) (B : DMat α) (K : Nat) (rows : List (RowOf α)) : String :=
  match allRows ((rows.zipIdx).map fun (p, i) => helperRow S P (fun j => dA.getD j 0) B K i p) with
  | some m => showRowsG showRats m
  | none => "reject"

end run

def handle : List String → Option String
  -- the whole call; `fmt` = `csr` (`rows bs ap aj ax`, `bs = 1`) or `bsr` (`rows bs ap aj data`)
  | "ext_c14y_evol" :: kind :: fmt :: big :: tiny :: eps :: wk :: wk8 :: sqe :: perf :: tolz :: c :: k :: symm :: proj :: bf
      :: [K, b, n, bs, ap, aj, ax] =>
    (mkPar [big, tiny, eps, wk, wk8, sqe, perf, tolz, c, k, symm, proj, bf, bs]).map fun P =>
      let n := nat n
      let K := nat K
      let bsr := fmt = "bsr"
      if kind = "c" then
        let ax := parseCRats ax
        runFull (scalC sqD) showCRats P bsr (mkB n K (parseCRats b)) K (mkRows n (parseNats ap) (parseNats aj) ax)
          ⟨n, n, P.bs, P.bs, parseNats ap, parseNats aj, ax⟩
      else
        let ax := parseRats ax
        runFull scalQ showRats P bsr (mkB n K (parseRats b)) K (mkRows n (parseNats ap) (parseNats aj) ax)
          ⟨n, n, P.bs, P.bs, parseNats ap, parseNats aj, ax⟩
  -- the kernel `evolution_strength_helper` alone on given rows of `Atilde`; `dA` = the diagonal of `D_A`
  | ["ext_c14y_helper", kind, wk8, sqe, perf, tolz, K, dA, b, n, ap, aj, ax] =>
    let P : Par := ⟨0, 0, none, 0, parseRat wk8, parseRat sqe, parseRat perf, parseRat tolz, 0, 1, false, false, false, 1⟩
    let n := nat n
    let K := nat K
    some <| if kind = "c" then
      runHelper (scalC sqD) P (parseCRats dA) (mkB n K (parseCRats b)) K (mkRows n (parseNats ap) (parseNats aj) (parseCRats ax))
    else
      runHelper scalQ P (parseRats dA) (mkB n K (parseRats b)) K (mkRows n (parseNats ap) (parseNats aj) (parseRats ax))
  -- everything after the strength values, on given measure rows
  | ["ext_c14y_tail", fmt, big, tiny, eps, symm, bs, n, ap, aj, ax] =>
    let rows : List Row := mkRows (nat n) (parseNats ap) (parseNats aj) (parseRats ax)
    some <| showRowsG showRats <|
      if fmt = "bsr" then tailBsr (parseRat big) (parseRat tiny) (parseEps eps) (symm = "1") (nat bs) rows
      else tailO (parseRat big) (parseRat tiny) (parseEps eps) (symm = "1") rows
  | _ => none

end PyamgV.Drv.ExtE44
