import PyamgV.Driver.Util
import PyamgV.Model.ExtC03XCyc

/-! Driver ops of extension E38 (property C03): the extended cycle model `Model/ExtC03XCyc.lean`.

A recorded smoother is ONE token, fields separated by `:` (lists `,`-separated, `-` = empty, matrix rows `;`-separated):
  `mat:<Q>`
  `poly:<n>:<ap>:<aj>:<ax>:<coefficients>:<iters>`
  `bjac:<omega>:<nb>:<bs>:<bp>:<bj>:<bx>:<Dinv>:<iters>`        `bgs:<nb>:<bs>:<bp>:<bj>:<bx>:<Dinv>:<iters>:<sweep>`
  `jacne:<omega>:<n>:<ap>:<aj>:<ax>:<iters>`                    `gsne:<omega>:<n>:<ap>:<aj>:<ax>:<iters>:<sweep>`
  `gsnr:<omega>:<n>:<ap>:<aj>:<ax>:<iters>:<sweep>` (CSC arrays)
  `cfjac:<cFirst 0|1>:<omega>:<n>:<ap>:<aj>:<ax>:<C>:<F>:<iters>:<f_iters>:<c_iters>`
  `schwarz:<n>:<ap>:<aj>:<ax>:<Tx>:<Tp>:<Sj>:<Sp>:<iters>:<sweep>`
  `gs:<omega>:<n>:<ap>:<aj>:<ax>:<iters>:<sweep>`                `jac:<omega>:<n>:<ap>:<aj>:<ax>:<iters>`

`c03x_run <cycle V|W|F> <cpl> <k> <chk 0|1> <m> (<A> <P> <R> <smpre> <smpost>){m} <S> <x0> <b>`
  reply `x1#xk#pv#flags` : `x1` = `cycX` one cycle from `x0` (`stepX` if m = 0), `xk` = `solveX` with maxiter = k and a
  test that never fires, `pv` = `precX` applied to `b`; flags = two 0/1:
    ok   -- `AllOK` (every recorded call is a call for its level matrix; the hypothesis of the theorems); when it
            fails the reply is `notok:<level>:<pre|post>` instead,
    lin  -- (chk = 1) `x1` equals `C03.cycM` run with the matrices `Q` obtained by applying each recorded call to the
            unit right-hand sides from a zero guess (what `cycX_affine` / `sm_semLin` imply), else 1.
`c03x_q <A> <sm>` : `ok#Q` with `Q` = the `n × n` matrix whose column `k` is the recorded call applied to `(0, e_k)`. -/
namespace PyamgV.Drv.ExtE38
open PyamgV PyamgV.Drv PyamgV.C03 PyamgV.C03X

def mat (s : String) : Mat := (parseMat s).toList.map (·.toList)
def vec (s : String) : Vec := (parseRats s).toList
def showVec (v : Vec) : String := showRats v.toArray
def showM (m : Mat) : String := showMat (m.map (·.toArray)).toArray

def cycOf (s : String) : Option Cyc :=
  if s = "V" then some .V else if s = "W" then some .W else if s = "F" then some .F else none

def sweepOf? (s : String) : Option K.Sweep :=
  if s = "forward" then some .forward else if s = "backward" then some .backward
  else if s = "symmetric" then some .symmetric else none

def csr (n ap aj ax : String) : K.Csr Rat := ⟨nat n, parseNats ap, parseNats aj, parseRats ax⟩
def bsr (nb bs bp bj bx : String) : K.Bsr Rat := ⟨nat nb, nat bs, parseNats bp, parseNats bj, parseRats bx⟩

def smOf (tok : String) : Option Sm :=
  match tok.splitOn ":" with
  | ["mat", q] => some (.mat (mat q))
  | ["poly", n, ap, aj, ax, cs, it] => some (.poly (csr n ap aj ax) (parseRats cs).toList (nat it))
  | ["bjac", om, nb, bs, bp, bj, bx, dinv, it] => some (.bjac (parseRat om) (bsr nb bs bp bj bx) (parseRats dinv) (nat it))
  | ["bgs", nb, bs, bp, bj, bx, dinv, it, sw] => (sweepOf? sw).map (Sm.bgs (bsr nb bs bp bj bx) (parseRats dinv) (nat it))
  | ["jacne", om, n, ap, aj, ax, it] => some (.jacne (parseRat om) (csr n ap aj ax) (nat it))
  | ["gsne", om, n, ap, aj, ax, it, sw] => (sweepOf? sw).map (Sm.gsne (parseRat om) (csr n ap aj ax) (nat it))
  | ["gsnr", om, n, ap, aj, ax, it, sw] => (sweepOf? sw).map (Sm.gsnr (parseRat om) (csr n ap aj ax) (nat it))
  | ["cfjac", cf, om, n, ap, aj, ax, c, f, it, fit, cit] =>
    some (.cfjac (cf = "1") (parseRat om) (csr n ap aj ax) (parseNats c).toList (parseNats f).toList (nat it) (nat fit) (nat cit))
  | ["schwarz", n, ap, aj, ax, tx, tp, sj, sp, it, sw] =>
    (sweepOf? sw).map (Sm.schwarz (csr n ap aj ax) (parseRats tx) (parseNats tp) (parseNats sj) (parseNats sp) (nat it))
  | ["gs", om, n, ap, aj, ax, it, sw] => (sweepOf? sw).map (Sm.gs (parseRat om) (csr n ap aj ax) (nat it))
  | ["jac", om, n, ap, aj, ax, it] => some (.jac (parseRat om) (csr n ap aj ax) (nat it))
  | _ => none

def takeLevels : Nat → List String → Option (List LvlX × List String)
  | 0, rest => some ([], rest)
  | m + 1, a :: p :: r :: s1 :: s2 :: rest => do
    let pre ← smOf s1
    let post ← smOf s2
    let (ls, tl) ← takeLevels m rest
    some (⟨mat a, mat p, mat r, pre, post⟩ :: ls, tl)
  | _, _ => none

def unitVec (n k : Nat) : Vec := (List.range n).map (fun i => if i = k then 1 else 0)

/-- the matrix whose column `k` is `smoother(A, 0, e_k)` (`n` = number of rows of `A`) -/
def probeQ (A : Mat) (s : Sm) : Mat :=
  let n := A.length
  let cols : List Vec := (List.range n).map (fun k => applySm A s (zeros n) (unitVec n k))
  (List.range n).map (fun i => cols.map (fun c => c.getD i 0))

/-- first level / side whose recorded call is not a call for the level matrix -/
def firstBad : Nat → List LvlX → Option String
  | _, [] => none
  | i, L :: rest =>
    if ¬ decide (L.pre.OK L.A) then some s!"notok:{i}:pre"
    else if ¬ decide (L.post.OK L.A) then some s!"notok:{i}:post"
    else firstBad (i + 1) rest

def b01 (b : Bool) : String := if b then "1" else "0"

def handle : List String → Option String
  | "c03x_run" :: cs :: cpl :: k :: chk :: m :: rest => do
    let c ← cycOf cs
    let (Ls, tl) ← takeLevels (nat m) rest
    match tl with
    | [s, x0s, bs] =>
      match firstBad 0 Ls with
      | some msg => some msg
      | none =>
        let S := mat s
        let x0 := vec x0s
        let b := vec bs
        let cpl := nat cpl
        let never : Vec → Bool := fun _ => false
        let x1 := stepX S c cpl Ls b x0
        let xk := solveX S c cpl Ls never (nat k) b x0
        let pv := precX S c Ls never b
        let lin := chk != "1" ||
          (let LsM : List Lvl := Ls.map (fun L => ⟨L.A, L.P, L.R, probeQ L.A L.pre, probeQ L.A L.post⟩)
           decide (x1 = stepM S c cpl LsM b x0))
        some (String.intercalate "#" [showVec x1, showVec xk, showVec pv, b01 (decide (AllOK Ls)) ++ b01 lin])
    | _ => none
  | ["c03x_q", a, tok] => do
    let s ← smOf tok
    let A := mat a
    some (b01 (decide (s.OK A)) ++ "#" ++ showM (probeQ A s))
  | _ => none

end PyamgV.Drv.ExtE38
