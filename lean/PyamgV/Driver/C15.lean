import PyamgV.Driver.Util
/-! Driver ops for property C15 (line protocol). Op names are prefixed `c15_`. -/
namespace PyamgV.Drv.C15
open PyamgV PyamgV.Drv

def handle : List String → Option String
  | _ => none

end PyamgV.Drv.C15
