import PyamgV.Driver.Util
import PyamgV.Model.C15Solve
import PyamgV.Model.C15Store
/-! Driver ops for property C15 (line protocol). Op names are prefixed `c15_`.

* `c15_kind <name>`: `coarse_grid_solver` dispatch; reply `direct` / `stateless` / `error`
* `c15_cache <name> <history>`: `grun` on an abstract history of calls on one coarse-solver object.
  The history is a comma-separated list of matrix ids (id 0 = a matrix without stored entries); call
  number `i` passes the vector `b<i>`.  Instance: `factor = id`, `apply f b = S<f>:<b>`,
  `direct m b = D<m>:<b>`, `zero b = Z`.  Reply: `result/state` per call (state `n` = nothing cached,
  otherwise the id of the matrix whose factors are cached), then `;` and `gcount`.
* `c15_trace <name> <levels> <nnz> <lazy> <calls>`: `runCalls` on a hierarchy with `<levels>` levels whose
  coarsest matrix has `<nnz>` (0/1) stored entries; `<calls>` = comma-separated `cycle:cpl:passes:mode`
  (mode `l` = the un-accelerated loop, `a` = an accelerated call that made that many passes).
  Vectors are call counters (`countLvl`): the number of coarse-solver calls of a call is read off its
  result.  `<lazy>` = 1: the smoothers of level 0 fetch their parameters through a memo cell
  (`strength_based_schwarz`).  Reply per call: `coarse-solver calls:factorisations:cached factors:memo
  cell`, or `error` (unknown solver name) / `TypeError` for a call with an unrecognised cycle on >= 3
  levels (the call and everything after it is not run).
* `c15_store <ctor> <fmt> <dtype> <filter 0/1> <nlevels>`: the store model of the constructor prologue;
  reply `alias|copy;writes-to-user 0/1;filter targets;user-layout-at-risk 0/1` (see `Model/C15Store.lean`). -/
namespace PyamgV.Drv.C15
open PyamgV PyamgV.Drv PyamgV.C15

def symOps : Ops Nat String Nat :=
  { nnz := fun m => m, factor := fun m => m,
    apply := fun f b => s!"S{f}:{b}", direct := fun m b => s!"D{m}:{b}", zero := fun _ => "Z" }

def showState : Option Nat → String
  | none => "n"
  | some f => toString f

/-- `grun`, also reporting the state after every call (same `gcall`) -/
def cacheSteps (k : Kind) : Option Nat → Nat → List Nat → List String
  | _, _, [] => []
  | c, i, m :: rest =>
    let r := gcall symOps k c m s!"b{i}"
    s!"{r.2}/{showState r.1}" :: cacheSteps k r.1 (i + 1) rest

/-- a level that only forwards a call counter: vectors are numbers, every coarse-solver call adds 1 to
the "iterate" that travels through the recursion exactly like `x` / `coarse_x` do -/
def countLvl : Lvl Nat Nat :=
  { pre := fun x _ => x, post := fun x _ => x, coarseRhs := fun x _ => x, zeros := fun cb => cb,
    prolong := fun _ cx => cx, amliStart := fun cb => cb, amliGuess := fun _ a => (a, a),
    amliUpdate := fun _ _ v => v, amliOut := fun a => a }

def countOps (nnz : Nat) : Ops Unit Nat Nat :=
  { nnz := fun _ => nnz, factor := fun _ => 1, apply := fun _ b => b + 1, direct := fun _ b => b + 1,
    zero := fun b => b + 1 }

abbrev TS := Option Nat × Option Nat   -- (cached factors, lazily cached smoother parameters of level 0)

/-- `levels - 1` non-coarsest levels; with `lazy` the smoothers of level 0 fetch their parameters through
a memo cell (`strength_based_schwarz`), all others are state-free -/
def traceLevels (levels : Nat) (lazy : Bool) : List (LvlS TS Nat Nat) :=
  match levels - 1 with
  | 0 => []
  | m + 1 =>
    (if lazy then memoLevel (Fact := Nat) countLvl (fun (_ : Unit) => (1 : Nat)) () (fun _ x _ => x)
     else LvlS.ofPure countLvl) :: List.replicate m (LvlS.ofPure countLvl)

def parseCall (levels : Nat) (s : String) : Option (Option (Call Nat (Nat × Nat))) :=
  match s.splitOn ":" with
  | [c, cpl, n, mode] => do
    let cpl ← cpl.toNat?
    let n ← n.toNat?
    let mk := if mode = "a" then accelCall (Vec := Nat) (Res := Nat × Nat) else plainCall
    let prog := loopProg (fun _ => false) (fun x it => (x, it)) 0 n 0 0
    match cycOf c with
    | some cy => some (some (mk cy cpl prog))
    | none =>
      -- `lvl == len(levels) - 2` is tested before the cycle name: no error with <= 2 levels
      if levels ≤ 2 then some (some (mk .V cpl prog)) else some none
  | _ => none

def traceCalls (k : Kind) (nnz levels : Nat) (Ls : List (LvlS TS Nat Nat)) :
    TS → List (Option (Call Nat (Nat × Nat))) → List String
  | _, [] => []
  | _, none :: _ => ["TypeError"]
  | s, some c :: rest =>
    let r := runCalls (gcallFst (T := Option Nat) (countOps nnz) k ()) Ls s [c]
    let res := (r.2.headD (0, 0))
    let ncoarse := if levels ≤ 1 then res.2 else res.1
    let nfact := if s.1.isNone && r.1.1.isSome then 1 else 0
    s!"{ncoarse}:{nfact}:{showState r.1.1}:{showState r.1.2}" :: traceCalls k nnz levels Ls r.1 rest

def handle : List String → Option String
  | ["c15_kind", name] =>
    some (match kindOf name with | some .direct => "direct" | some .stateless => "stateless" | none => "error")
  | ["c15_cache", name, hist] =>
    match kindOf name with
    | none => some "error"
    | some k =>
      let ms := (parseNats hist).toList
      let pairs := (List.range ms.length).zip ms |>.map (fun (i, m) => (m, s!"b{i}"))
      some (sh (cacheSteps k none 0 ms) ++ ";" ++ toString (gcount symOps k none pairs))
  | ["c15_trace", name, levels, nnz, lazy, calls] =>
    match kindOf name with
    | none => some "error"
    | some k =>
      let L := nat levels
      match (listOf calls).mapM (parseCall L) with
      | none => some "parse-error"
      | some cs => some (sh (traceCalls k (nat nnz) L (traceLevels L (lazy = "1")) (none, none) cs))
  | ["c15_store", ctor, fmt, dtype, filt, nlev] => some (Store.reply ctor fmt dtype (nat filt) (nat nlev))
  | _ => none

end PyamgV.Drv.C15
