import PyamgV.Driver.Util
import PyamgV.Model.ExtC06Gmres
/-! Driver ops of extension task E16 (property C06; op names prefixed `ext_`).  Numbers are binary64 bit patterns
written as decimal integers; matrices: rows separated by `;`.

`ext_c06_gmres <mgs|hh|fg> <A> <M> <b> <x0> <tol> <restart|_> <maxiter|_>`
  the complete run of `gmres_mgs` / `gmres_householder` / `fgmres` (`Model/ExtC06Gmres.lean`, binary64)
  → `<status> <niter> <residuals> <x> <callback_1;…;callback_m>`, `short` for the `n == 1` shortcut / rejected input -/
namespace PyamgV.Drv.ExtE16
open PyamgV PyamgV.Drv PyamgV.ExtC06

def fmat (t : String) : List (List Float) :=
  if t = "-" then [] else (t.splitOn ";").map (fun r => (parseFloats r).toList)

def optNat (t : String) : Option Nat := if t = "_" then none else t.toNat?

def bitsOf (v : List Float) : String := sh (v.map fun f => toString f.toBits.toNat)

def handle : List String → Option String
  | ["ext_c06_gmres", kind, a, m, b, x0, tol, r, mi] =>
    match gmresFullFloat kind (fmat a) (fmat m) (parseFloats b).toList (parseFloats x0).toList
        ((parseFloats tol).getD 0 0) (optNat r) (optNat mi) with
    | none => some "short"
    | some (st, ni, hist, x, log) =>
      some s!"{st} {ni} {bitsOf hist} {bitsOf x} {if log.isEmpty then "-" else String.intercalate ";" (log.map bitsOf)}"
  | _ => none

end PyamgV.Drv.ExtE16
