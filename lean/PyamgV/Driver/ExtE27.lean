import PyamgV.Driver.Util
/-! Driver ops of extension task E27 (op names prefixed `ext_`). -/
namespace PyamgV.Drv.ExtE27
open PyamgV PyamgV.Drv

def handle : List String → Option String
  | _ => none

end PyamgV.Drv.ExtE27
