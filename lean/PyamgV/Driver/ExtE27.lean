import PyamgV.Driver.Util
import PyamgV.Model.ExtSpmm
/-! Driver ops of extension task E27 (op names prefixed `ext_`): the CSR algebra of `Model/ExtSpmm.lean`
over the Gaussian rationals.

Matrix tokens (`<M>`; index lists and value lists comma separated, `-` = empty, values `re|im` or rational):
`csr:<rows>:<cols>:<indptr>:<indices>:<data>`, `csc:<rows>:<cols>:<indptr>:<row indices>:<data>`,
`coo:<rows>:<cols>:<row>:<col>:<data>`, `dense:<rows>:<cols>:<row-major data>`,
`bsr:<rows>:<cols>:<br>:<bc>:<indptr>:<indices>:<data, block after block, row-major>`.
A CSR reply `<csr>` is `<rows>:<cols>:<indptr>:<indices>:<data>`; `<dense>` is the row-major dense meaning.

* `ext_convert <M>`: the conversion to CSR (`cooToCsr`, `cscToCsr`, `denseToCsr`, `bsrToCsr`; `csr` is
  returned as it is); reply `<csr>;<dense>`, `error:<why>` when the arrays are not well formed
* `ext_spmm mul <A> <B>`: `A @ B` (operands converted to CSR first); reply `<csr>;<dense>`
* `ext_spmm galerkin <R> <A> <P>`: `R @ A @ P`; reply `<csr>;<dense>`
* `ext_spmm transpose <A>`: reply `<csr of transpose>;<csr of transposeArr>;<dense>`
* `ext_spmm conjT <A>`: `A.T.conjugate()` in CSR; reply `<csr>;<dense>`
* `ext_spmm sumdup <A>`: `sum_duplicates()`; reply `<csr>;<dense>` -/
namespace PyamgV.Drv.ExtE27
open PyamgV PyamgV.Drv PyamgV.Spmm

def showCsr (A : Csr CRat) : String :=
  s!"{A.rows}:{A.cols}:{showNats A.ap}:{showNats A.aj}:{showCRats A.ax}"

def showBoth (A : Csr CRat) : String := showCsr A ++ ";" ++ showCRats (toDenseC A)

def parseInput (s : String) : Option (Input CRat) :=
  match s.splitOn ":" with
  | ["csr", r, c, ap, aj, ax] => do
    let r ← r.toNat?; let c ← c.toNat?
    some (.csr ⟨r, c, parseNats ap, parseNats aj, parseCRats ax⟩)
  | ["csc", r, c, ap, ai, ax] => do
    let r ← r.toNat?; let c ← c.toNat?
    some (.csc ⟨r, c, parseNats ap, parseNats ai, parseCRats ax⟩)
  | ["coo", r, c, ri, ci, x] => do
    let r ← r.toNat?; let c ← c.toNat?
    some (.coo ⟨r, c, parseNats ri, parseNats ci, parseCRats x⟩)
  | ["dense", r, c, x] => do
    let r ← r.toNat?; let c ← c.toNat?
    some (.dense ⟨r, c, parseCRats x⟩)
  | ["bsr", r, c, br, bc, ap, aj, ax] => do
    let r ← r.toNat?; let c ← c.toNat?; let br ← br.toNat?; let bc ← bc.toNat?
    some (.bsr ⟨r, c, br, bc, parseNats ap, parseNats aj, parseCRats ax⟩)
  | _ => none

/-- parse, reject what is not well formed (`Input.wf`), convert to CSR (`Input.toCsr`) -/
def toCsr (s : String) : Except String (Csr CRat) :=
  match parseInput s with
  | none => .error "error:parse"
  | some X => if X.wf then .ok (toCsrC X) else .error "error:not-well-formed"

def handle : List String → Option String
  | ["ext_convert", m] =>
    some <| match toCsr m with
      | .ok A => showBoth A
      | .error e => e
  | ["ext_spmm", "mul", a, b] =>
    some <| match toCsr a, toCsr b with
      | .ok A, .ok B => if A.cols = B.rows then showBoth (mulC A B) else "error:dims"
      | .error e, _ => e
      | _, .error e => e
  | ["ext_spmm", "galerkin", r, a, p] =>
    some <| match toCsr r, toCsr a, toCsr p with
      | .ok R, .ok A, .ok P =>
        if R.cols = A.rows ∧ A.cols = P.rows then showBoth (galerkinC R A P) else "error:dims"
      | .error e, _, _ => e
      | _, .error e, _ => e
      | _, _, .error e => e
  | ["ext_spmm", "transpose", a] =>
    some <| match toCsr a with
      | .ok A => showCsr (transposeC A) ++ ";" ++ showCsr (transposeArrC A) ++ ";" ++ showCRats (toDenseC (transposeC A))
      | .error e => e
  | ["ext_spmm", "conjT", a] =>
    some <| match toCsr a with
      | .ok A => showBoth (conjTC A)
      | .error e => e
  | ["ext_spmm", "sumdup", a] =>
    some <| match toCsr a with
      | .ok A => showBoth (sumDuplicatesC A)
      | .error e => e
  | _ => none

end PyamgV.Drv.ExtE27
