import PyamgV.Driver.Util
/-! Driver ops of extension task E22 (op names prefixed `ext_`). -/
namespace PyamgV.Drv.ExtE22
open PyamgV PyamgV.Drv

def handle : List String → Option String
  | _ => none

end PyamgV.Drv.ExtE22
