import PyamgV.Driver.Util
import PyamgV.Driver.Relax
import PyamgV.Model.ExtSmoothers
/-! Driver ops of extension task E22 (op names prefixed `ext_`).
`ext_poly n ap aj ax coefficients iterations b x` / `ext_cpoly …` (Gaussian rationals): the model
`ExtSm.polynomial` of `relaxation.polynomial`; reply `error` when the model rejects (empty coefficient list). -/
namespace PyamgV.Drv.ExtE22
open PyamgV PyamgV.Drv PyamgV.Drv.Relax

def handle : List String → Option String
  | ["ext_poly", n, ap, aj, ax, cs, iters, b, x] =>
    some <| match ExtSm.polynomial (mkR n ap aj ax) (parseRats cs).toList (nat iters) (parseRats b) (parseRats x) with
      | some y => showRats y
      | none => "error"
  | ["ext_cpoly", n, ap, aj, ax, cs, iters, b, x] =>
    some <| match ExtSm.polynomial (mkC n ap aj ax) (parseCRats cs).toList (nat iters) (parseCRats b) (parseCRats x) with
      | some y => showCRats y
      | none => "error"
  | _ => none

end PyamgV.Drv.ExtE22
