import PyamgV.Driver.Util
import PyamgV.Driver.C16
import PyamgV.Model.ExtC16Relax
import PyamgV.Model.ExtC09Block
/-! Driver ops of extension task E51 (property C16; op names prefixed `c16y_`).

* `c16y_relax f name opts rho bs dinv cheb sj sp tx tp shape b n ap aj ax nb bap baj bax`
      the model `C16R.relaxCallR` of one call of `coarse_grid_solver((name, opts))` with every recorded input of
      `C16R.Rec`: as `ext_c16_relax` plus the Schwarz parameters `sj sp tx tp` (`subdomain`, `subdomain_ptr`,
      `inv_subblock`, `inv_subblock_ptr` as returned by `relaxation.schwarz_parameters`).
      -> `ok:<shape>:<x>` or `err:<why>`
* `c16y_hyp_schwarz n ap aj ax sj sp tx tp`  (rationals) the hypotheses of `relax_schwarz_energy` on the recorded inputs:
      -> `<schwarzRecOK>#<max_d,c,c' |(A|_d T_d − I)_{c c'}|>`
* `c16y_hyp_block nb bs bap baj bax dinv`    (rationals) the hypothesis `RightInv` of `relax_block_gauss_seidel_energy`:
      -> `max_i,l,l' |(A_ii Dinv_i − I)_{l l'}|` (`A_ii` = the sum of the stored diagonal blocks of block row `i`)
* `c16y_tobsr n ap aj ax bs nb bap baj bax`    (rationals) is the recorded block storage the model's `A.tobsr()`
      (`K.Csr.toBsr`, SciPy `csr_tobsr`) of the CSR matrix?  the hypothesis `htb` of `relax_block_*_energy_tobsr` -> `true|false`
* `c16y_poly cheb lams`                      (rationals) `1 − λ p(λ)` for `p` = `-cheb[:-1]` (Horner, the loop of
      `polyScalar`) at every listed `λ` -> list -/
namespace PyamgV.Drv.ExtE51
open PyamgV PyamgV.Drv PyamgV.K PyamgV.C16 PyamgV.C16R

def relaxOp {α : Type} [Add α] [Sub α] [Mul α] [Div α] [OfNat α 0] [OfNat α 1] [DecidableEq α]
    (conj : α → α) (pq : String → α) (pl : String → Array α) (sl : Array α → String)
    (name opts rho bs dinv cheb sj sp tx tp shape b : String) (A B : Csr α) : String :=
  let ri : Rec α := { rho := if rho = "-" then none else some (pq rho), bs := nat bs, bsr := B,
                      dinv := pl dinv, cheb := pl cheb,
                      sj := parseNats sj, sp := parseNats sp, tx := pl tx, tp := parseNats tp }
  match relaxCallR conj name (Drv.C16.parseOpts pq opts) ri A ⟨pl b, Drv.C16.parseShape shape⟩ with
  | .ok x => "ok:" ++ Drv.C16.showShape x.shape ++ ":" ++ sl x.data
  | .error e => "err:" ++ e

def absQ (q : Rat) : Rat := if q < 0 then -q else q
def maxQ (l : List Rat) : Rat := l.foldl (fun m q => if m < q then q else m) 0

/-- entry `(i, q)` of a CSR matrix (duplicates add up) -/
def entry (A : Csr Rat) (i q : Nat) : Rat :=
  (A.jjs i).foldl (fun s jj => if rdN A.aj jj = q then s + rd A.ax jj else s) 0

/-- `max |A|_d T_d − I|` over the recorded subdomains -/
def schwarzDefect (A : Csr Rat) (tx : Array Rat) (tp sj sp : Array Nat) : Rat :=
  maxQ ((List.range (sp.size - 1)).flatMap (fun d =>
    let s0 := rdN sp d
    let m := rdN sp (d + 1) - s0
    (List.range m).flatMap (fun c => (List.range m).map (fun c' =>
      absQ ((List.range m).foldl (fun s c'' =>
        s + entry A (rdN sj (s0 + c)) (rdN sj (s0 + c'')) * rd tx (rdN tp d + c'' * m + c')) 0
        - (if c = c' then 1 else 0))))))

/-- `max |A_ii Dinv_i − I|` over the block rows of BSR-shaped arrays -/
def blockDefect (B : Csr Rat) (bs : Nat) (dinv : Array Rat) : Rat :=
  maxQ ((List.range B.n).flatMap (fun i =>
    (List.range bs).flatMap (fun l => (List.range bs).map (fun l' =>
      absQ ((List.range bs).foldl (fun s m =>
        s + (B.jjs i).foldl (fun t jj => if rdN B.aj jj = i then t + rd B.ax (jj * (bs * bs) + l * bs + m) else t) 0
          * rd dinv (i * (bs * bs) + m * bs + l')) 0
        - (if l = l' then 1 else 0))))))

def handle : List String → Option String
  | ["c16y_relax", "r", name, opts, rho, bs, dinv, cheb, sj, sp, tx, tp, shape, b, n, ap, aj, ax, nb, bap, baj, bax] =>
    some <| relaxOp id parseRat parseRats showRats name opts rho bs dinv cheb sj sp tx tp shape b
      (Drv.C16.mkR n ap aj ax) (Drv.C16.mkR nb bap baj bax)
  | ["c16y_relax", "c", name, opts, rho, bs, dinv, cheb, sj, sp, tx, tp, shape, b, n, ap, aj, ax, nb, bap, baj, bax] =>
    some <| relaxOp CRat.conj parseCRat parseCRats showCRats name opts rho bs dinv cheb sj sp tx tp shape b
      (Drv.C16.mkC n ap aj ax) (Drv.C16.mkC nb bap baj bax)
  | ["c16y_hyp_schwarz", n, ap, aj, ax, sj, sp, tx, tp] =>
    let A := Drv.C16.mkR n ap aj ax
    let ri : Rec Rat := { sj := parseNats sj, sp := parseNats sp, tx := parseRats tx, tp := parseNats tp }
    some <| Drv.C16.showB (schwarzRecOK A.n ri) ++ "#" ++ showRat (schwarzDefect A ri.tx ri.tp ri.sj ri.sp)
  | ["c16y_hyp_block", nb, bs, bap, baj, bax, dinv] =>
    some <| showRat (blockDefect (Drv.C16.mkR nb bap baj bax) (nat bs) (parseRats dinv))
  | ["c16y_tobsr", n, ap, aj, ax, bs, nb, bap, baj, bax] =>
    let B := Drv.C16.mkR nb bap baj bax
    some <| Drv.C16.showB (match (Drv.C16.mkR n ap aj ax).toBsr (nat bs) with
      | some T => decide (T.nb = B.n) && decide (T.bs = nat bs) && decide (T.bp = B.ap) && decide (T.bj = B.aj) &&
          decide (T.bx = B.ax)
      | none => false)
  | ["c16y_poly", cheb, lams] =>
    match chebCoeffs (parseRats cheb) with
    | [] => some "-"
    | c0 :: cs =>
      some <| showRats ((parseRats lams).map (fun t => 1 - t * cs.foldl (fun h c => c + t * h) c0))
  | _ => none

end PyamgV.Drv.ExtE51
