import PyamgV.Driver.Util
import PyamgV.Driver.C05
import PyamgV.Model.ExtC05YCycle

/-! Driver ops of extension E36 (property C05): the cycle model over the extended smoother families
(`Model/ExtC05YCycle.lean`).

`ext_c05y_cyc r|c V|W pre post  (n ap aj ax  pp pj px  nc rp rj rx  C  orc)*  n ap aj ax`

as `c05_cyc`, each smoothing level followed by its coefficient oracle `orc`: `-` or entries separated by `@`,
each `name:arg;arg;...:c0,c1,...` (arguments in the value syntax of the specifications).
Reply: `M herm adj erradj resadj hh ne strict pd` (`pd`: exact positive definiteness of the real model matrix by
symmetric elimination, `-` for complex data), or `unmodelled` / `singular`.

`ext_c05y_sm orc spec` -- the smoother of the extended model a specification produces (debugging / table check). -/
namespace PyamgV.Drv.ExtE36
open PyamgV PyamgV.Drv PyamgV.C05 PyamgV.C05Y PyamgV.K PyamgV.Drv.C05

def parseOracle (s : String) : Oracle :=
  if s = "-" then fun _ _ => none
  else
    let entries : List (String × List Val × Rat × List Rat) := (s.splitOn "@").filterMap (fun e =>
      match e.splitOn ":" with
      | [nm, args, coefs] =>
        let as := if args = "" then [] else (args.splitOn ";").map parseVal
        match (listOf coefs).map parseRat with
        | c0 :: cs => some (nm, as, c0, cs)
        | [] => none
      | _ => none)
    fun nm args => (entries.find? (fun e => e.1 == nm && e.2.1 == args)).map (fun e => e.2.2)

def parseLevelsY {α : Type} (p : String → Array α) (pre post : List Cfg) :
    Nat → List String → Option (List (LvlY α) × Csr α)
  | _, [n, ap, aj, ax] => some ([], mkCsr p n ap aj ax)
  | i, n :: ap :: aj :: ax :: pp :: pj :: px :: nc :: rp :: rj :: rx :: c :: orc :: rest => do
    let o := parseOracle orc
    let s ← smOfY o (preAt pre i)
    let t ← smOfY o (postAt post i)
    let (ls, ac) ← parseLevelsY p pre post (i+1) rest
    some (⟨mkCsr p n ap aj ax, mkCsr p n pp pj px, mkCsr p nc rp rj rx, (parseNats c).toList, s, t⟩ :: ls, ac)
  | _, _ => none

/-- exact positive definiteness of a symmetric rational matrix: all pivots of the elimination are positive -/
def isPosDef (n : Nat) (M : C05.Mat Rat) : Bool :=
  ((List.range n).foldl (fun (st : Option (C05.Mat Rat)) k =>
    match st with
    | none => none
    | some M =>
      let piv := mget M k k
      if piv ≤ 0 then none
      else
        let rowk := M.getD k #[]
        some ((Array.range n).map (fun i =>
          if i ≤ k then M.getD i #[]
          else
            let f := mget M i k / piv
            let rowi := M.getD i #[]
            (Array.range n).map (fun j => rd rowi j - f * rd rowk j)))) (some M)).isSome

def hermY {α : Type} [Add α] [Sub α] [Mul α] [Div α] [OfNat α 0] [OfNat α 1] [DecidableEq α]
    (conj : α → α) (Ac : Csr α) (Ls : List (LvlY α)) : Bool :=
  hermitianHierarchy conj Ac (Ls.map (fun L => ⟨L.A, L.P, L.R, L.C, .none, .none⟩))

def showSmY : SmY → String
  | .base s => "base:" ++ reprStr s
  | .ext f sw k => "ext:" ++ reprStr f ++ ":" ++ reprStr sw ++ ":" ++ toString k

def runCycY {α : Type} [Add α] [Sub α] [Mul α] [Div α] [OfNat α 0] [OfNat α 1] [DecidableEq α]
    (ofRat : Rat → α) (conj : α → α) (shw : Array α → String) (p : String → Array α)
    (pd : C05.Mat α → String)
    (cyc pre post : String) (rest : List String) : String :=
  let pre := parseCfgs pre
  let post := parseCfgs post
  match parseLevelsY p pre post 0 rest with
  | none => "unmodelled"
  | some (ls, ac) =>
    let c : Cyc := if cyc = "W" then .W else .V
    match denseMY ofRat conj ac c ls with
    | some M =>
      let n := M.size
      let herm := M == mconjT conj M n n
      let ne := ls.any (fun L => L.pre.isNE || L.post.isNE)
      let strict := match ls with
        | L :: _ => strictSmB L.pre || strictSmB L.post
        | [] => false
      s!"{showMatWith shw M} {herm} {adjointPairsY ofRat conj ls} {errAdjointPairsY ofRat conj ls} {resAdjointPairsY ofRat conj ls} {hermY conj ac ls} {ne} {strict} {if herm then pd M else "-"}"
    | none => "singular"

def handle : List String → Option String
  | "ext_c05y_cyc" :: "r" :: cyc :: pre :: post :: rest =>
    some <| runCycY (α := Rat) id id showRats parseRats (fun M => toString (isPosDef M.size M)) cyc pre post rest
  | "ext_c05y_cyc" :: "c" :: cyc :: pre :: post :: rest =>
    some <| runCycY (α := CRat) CRat.ofRat CRat.conj showCRats parseCRats (fun _ => "-") cyc pre post rest
  | ["ext_c05y_sm", orc, spec] =>
    some <| match smOfY (parseOracle orc) (parseCfg spec) with
      | none => "none"
      | some s => (showSmY s).replace " " "_"
  | _ => none

end PyamgV.Drv.ExtE36
