import PyamgV.Driver.Util
/-! Driver ops for property C10 (line protocol). Op names are prefixed `c10_`. -/
namespace PyamgV.Drv.C10
open PyamgV PyamgV.Drv

def handle : List String → Option String
  | _ => none

end PyamgV.Drv.C10
