import PyamgV.Driver.Util
import PyamgV.Model.C10
import PyamgV.Proofs.C10Proj
import PyamgV.Proofs.C10Fit
import Mathlib.Algebra.Order.Ring.Rat
import Mathlib.Algebra.Field.Rat
/-! Driver ops for property C10 (line protocol). Op names are prefixed `c10_`.
Scalar modes: `f` = binary64 (values sent and returned as bit patterns), `cf` = complex binary64
(interleaved re, im bit patterns), `r` = `Rat`, `c` = Gaussian rationals. -/
namespace PyamgV.Drv.C10
open PyamgV PyamgV.Drv PyamgV.C10M

def showFloats (a : Array Float) : String := sh (a.toList.map (fun x => toString x.toBits.toNat))
def parseCFloats (s : String) : Array CFloat :=
  let a := parseFloats s
  (Array.range (a.size / 2)).map (fun i => ⟨a.getD (2 * i) 0.0, a.getD (2 * i + 1) 0.0⟩)
def showCFloats (a : Array CFloat) : String :=
  sh (a.toList.flatMap (fun z => [toString z.re.toBits.toNat, toString z.im.toBits.toNat]))
def parseFloat1 (s : String) : Float := (parseFloats s).getD 0 0.0

def parsePat (s : String) : Pat := if s = "none" then #[] else (s.splitOn ";").toArray.map parseNats
def showMatR (M : Mat Rat) : String := showRats M.flat
def showMatC (M : Mat CRat) : String := showCRats M.flat
def matR (r c a : String) : Mat Rat := Mat.unflat (nat r) (nat c) (parseRats a)
def matC (r c a : String) : Mat CRat := Mat.unflat (nat r) (nat c) (parseCRats a)
def optR (o : Option (Mat Rat)) : String := match o with | none => "singular" | some M => showMatR M
def optC (o : Option (Mat CRat)) : String := match o with | none => "singular" | some M => showMatC M

/-- dense matrix of a BSR matrix given by (indptr, indices, data), `nbr x ncb` blocks of `rpb x cpb` -/
def bsrDense {α : Type} [OfNat α 0] (rpb cpb nbr ncb : Nat) (sp sj : Array Nat) (sx : Array α) : Mat α :=
  let M0 : Mat α := Array.replicate (nbr * rpb) (Array.replicate (ncb * cpb) 0)
  (List.range nbr).foldl (fun (M : Mat α) i =>
    (List.range' (rdN sp i) (rdN sp (i+1) - rdN sp i)).foldl (fun (M : Mat α) jj =>
      (List.range rpb).foldl (fun (M : Mat α) a =>
        (List.range cpb).foldl (fun (M : Mat α) b =>
          let r := i * rpb + a
          M.setIfInBounds r ((M.getD r #[]).setIfInBounds (rdN sj jj * cpb + b) (sx.getD (jj * rpb * cpb + a * cpb + b) 0))) M) M) M) M0

def okS (b : Bool) : String := if b then "exact" else "inexact"

/-! #### proof-side definitions (`Proofs/C10Proj.lean`, `Proofs/C10Fit.lean`) on `Rat` -/

def matOf (r c : Nat) (a : Array Rat) : Matrix (Fin r) (Fin c) Rat := fun i j => a.getD (i.val * c + j.val) 0
def flatOf {r c : Nat} (M : Matrix (Fin r) (Fin c) Rat) : Array Rat :=
  ((List.finRange r).flatMap fun i => (List.finRange c).map fun j => M i j).toArray
def finsetOf (n : Nat) (l : List Nat) : Finset (Fin n) :=
  (l.filterMap fun x => if h : x < n then some (⟨x, h⟩ : Fin n) else none).toFinset

/-- `PyamgV.C10.project` for a BSR pattern: row `i` belongs to block row `i / rpb`, its allowed
columns are the scalar columns of the stored blocks, `Z i` is `BtBinv[i / rpb]` -/
def pProject (rpb cpb nbr ncb nd : Nat) (bt ub z : Array Rat) (sp sj : Array Nat) (sx : Array Rat) : Array Rat :=
  let m := nbr * rpb
  let n := ncb * cpb
  let U : Matrix (Fin m) (Fin n) Rat := fun i j => (bsrDense rpb cpb nbr ncb sp sj sx).get i.val j.val
  let J : Fin m → Finset (Fin n) := fun i =>
    let ib := i.val / rpb
    finsetOf n ((List.range' (rdN sp ib) (rdN sp (ib+1) - rdN sp ib)).flatMap fun jj =>
      (List.range cpb).map fun t => rdN sj jj * cpb + t)
  let Z : Fin m → Matrix (Fin nd) (Fin nd) Rat := fun i => fun a b => z.getD ((i.val / rpb) * nd * nd + a.val * nd + b.val) 0
  let Bh : Matrix (Fin nd) (Fin n) Rat := fun a j => bt.getD (j.val * nd + a.val) 0
  let y : Matrix (Fin m) (Fin nd) Rat := matOf m nd ub
  flatOf (PyamgV.C10.project J Z Bh y U)

/-- `PyamgV.C10.fitAgg` for every aggregate, laid out as dense `T` and `R` like `fitPy` -/
def pFit (nFine nCoarse K1 K2 : Nat) (ap aj : Array Nat) (b : Array Rat) (tol : Rat) : Array Rat × Array Rat × Array Rat :=
  let N := nFine * K1
  let agg : Fin N → Option (Fin nCoarse) := fun i =>
    let node := i.val / K1
    if rdN ap (node + 1) > rdN ap node then
      let a := rdN aj (rdN ap node)
      if h : a < nCoarse then some ⟨a, h⟩ else none
    else none
  let B : Fin N → Nat → Rat := fun i c => b.getD (i.val * K2 + c) 0
  let ncol := nCoarse * K2
  let outs := (List.finRange nCoarse).map fun a => PyamgV.C10.fitAgg ratSqrt tol agg B K2 a
  let dense := ((List.finRange N).flatMap fun i => outs.flatMap fun o =>
    (List.range K2).map fun c => (o.q.getD c 0) i).toArray
  let r := (outs.flatMap fun o => (List.range K2).flatMap fun bi => (List.range K2).map fun bj =>
    let e := o.r.getD bj ([], 0)
    if bi < bj then e.1.getD bi 0 else if bi = bj then e.2 else 0).toArray
  let drop := ((List.finRange N).flatMap fun i => outs.flatMap fun o =>
    (List.range K2).map fun c => (o.drop.getD c 0) i).toArray
  let _ := ncol
  (dense, r, drop)

/-- `PyamgV.C10.applyUpdates` on `Rat` matrices -/
def pApply (n m : Nat) (T : Mat Rat) (ups : List (Rat × Mat Rat)) : Array Rat :=
  flatOf (PyamgV.C10.applyUpdates (matOf n m T.flat) (ups.map fun u => (u.1, matOf n m u.2.flat)))

/-- hypotheses of `updates_keep_product` / `updates_keep_pattern`, decided on the instance -/
def upsConstrained (rpb cpb : Nat) (pat : Pat) (B : Mat Rat) (ups : List (Rat × Mat Rat)) : Bool :=
  ups.all fun u =>
    (Mat.mul u.2 B).flat.all (· == 0) &&
    (Mat.sub u.2 (maskDense rpb cpb pat u.2)).flat.all (· == 0)

/-- both sides of `PyamgV.C10.smoothing_polynomial` -/
def pPoly (n m d : Nat) (mm t : Array Rat) : Array Rat × Array Rat :=
  let M := matOf n n mm
  let T := matOf n m t
  (flatOf ((fun P : Matrix (Fin n) (Fin m) Rat => P - M * P)^[d] T), flatOf ((1 - M) ^ d * T))

/-- `I_F·X + P_I` with the proof-side `IF`, `PI` -/
def pReset (n nc : Nat) (roots : Array Nat) (x : Array Rat) : Array Rat :=
  if h : 0 < n then
    let root : Fin nc → Fin n := fun κ => ⟨roots.getD κ.val 0 % n, Nat.mod_lt _ h⟩
    let isRoot : Fin n → Prop := fun i => ∃ κ, i = root κ
    flatOf ((PyamgV.C10.IF isRoot : Matrix (Fin n) (Fin n) Rat) * matOf n nc x + PyamgV.C10.PI root)
  else #[]

def handle : List String → Option String
  | ["c10_fitk", "f", ncol, k1, k2, ap, ai, b, tol] =>
    let st := fitCandidates floatOps (nat ncol) (nat k1) (nat k2) (parseNats ap) (parseNats ai) (parseFloats b) (parseFloat1 tol)
    some <| showFloats st.ax ++ ";" ++ showFloats st.r ++ ";" ++ okS st.ok
  | ["c10_fitk", "cf", ncol, k1, k2, ap, ai, b, tol] =>
    let st := fitCandidates cfloatOps (nat ncol) (nat k1) (nat k2) (parseNats ap) (parseNats ai) (parseCFloats b) (parseFloat1 tol)
    some <| showCFloats st.ax ++ ";" ++ showCFloats st.r ++ ";" ++ okS st.ok
  | ["c10_fitk", "r", ncol, k1, k2, ap, ai, b, tol] =>
    let st := fitCandidates ratOps (nat ncol) (nat k1) (nat k2) (parseNats ap) (parseNats ai) (parseRats b) (parseRat tol)
    some <| showRats st.ax ++ ";" ++ showRats st.r ++ ";" ++ okS st.ok
  | ["c10_fitk", "c", ncol, k1, k2, ap, ai, b, tol] =>
    let st := fitCandidates cratOps (nat ncol) (nat k1) (nat k2) (parseNats ap) (parseNats ai) (parseCRats b) (parseRat tol)
    some <| showCRats st.ax ++ ";" ++ showCRats st.r ++ ";" ++ okS st.ok
  | ["c10_fitpy", "f", nf, nc, k1, k2, ap, aj, b, tol] =>
    let (d, r, ok) := fitPy floatOps (nat nf) (nat nc) (nat k1) (nat k2) (parseNats ap) (parseNats aj) (parseFloats b) (parseFloat1 tol)
    some <| showFloats d ++ ";" ++ showFloats r ++ ";" ++ okS ok
  | ["c10_fitpy", "cf", nf, nc, k1, k2, ap, aj, b, tol] =>
    let (d, r, ok) := fitPy cfloatOps (nat nf) (nat nc) (nat k1) (nat k2) (parseNats ap) (parseNats aj) (parseCFloats b) (parseFloat1 tol)
    some <| showCFloats d ++ ";" ++ showCFloats r ++ ";" ++ okS ok
  | ["c10_fitpy", "r", nf, nc, k1, k2, ap, aj, b, tol] =>
    let (d, r, ok) := fitPy ratOps (nat nf) (nat nc) (nat k1) (nat k2) (parseNats ap) (parseNats aj) (parseRats b) (parseRat tol)
    some <| showRats d ++ ";" ++ showRats r ++ ";" ++ okS ok
  | ["c10_fitpy", "c", nf, nc, k1, k2, ap, aj, b, tol] =>
    let (d, r, ok) := fitPy cratOps (nat nf) (nat nc) (nat k1) (nat k2) (parseNats ap) (parseNats aj) (parseCRats b) (parseRat tol)
    some <| showCRats d ++ ";" ++ showCRats r ++ ";" ++ okS ok
  | ["c10_sat", "r", rpb, cpb, nbr, nd, bt, ub, z, sp, sj, sx] =>
    some <| showRats (satisfyHelper (nat rpb) (nat cpb) (nat nbr) (nat nd) (parseRats bt) (parseRats ub) (parseRats z) (parseNats sp) (parseNats sj) (parseRats sx))
  | ["c10_sat", "c", rpb, cpb, nbr, nd, bt, ub, z, sp, sj, sx] =>
    some <| showCRats (satisfyHelper (nat rpb) (nat cpb) (nat nbr) (nat nd) (parseCRats bt) (parseCRats ub) (parseCRats z) (parseNats sp) (parseNats sj) (parseCRats sx))
  | ["c10_satpy", "r", rpb, cpb, nbr, ncb, nd, sp, sj, sx, b, z] =>
    let (rpb, cpb, nbr, ncb, nd) := (nat rpb, nat cpb, nat nbr, nat ncb, nat nd)
    let (sp, sj, sx) := (parseNats sp, parseNats sj, parseRats sx)
    let B := Mat.unflat (ncb * cpb) nd (parseRats b)
    let UB := (Mat.mul (bsrDense rpb cpb nbr ncb sp sj sx) B).flat
    some <| showRats (satisfyHelper rpb cpb nbr nd B.flat UB (parseRats z) sp sj sx)
  | ["c10_satpy", "c", rpb, cpb, nbr, ncb, nd, sp, sj, sx, b, z] =>
    let (rpb, cpb, nbr, ncb, nd) := (nat rpb, nat cpb, nat nbr, nat ncb, nat nd)
    let (sp, sj, sx) := (parseNats sp, parseNats sj, parseCRats sx)
    let B := Mat.unflat (ncb * cpb) nd (parseCRats b)
    let UB := (Mat.mul (bsrDense rpb cpb nbr ncb sp sj sx) B).flat
    some <| showCRats (satisfyHelper rpb cpb nbr nd (B.flat.map CRat.conj) UB (parseCRats z) sp sj sx)
  | ["c10_btb", "r", nd, nn, cpb, bsq, bc, sp, sj] =>
    some <| showRats (calcBtB id (nat nd) (nat nn) (nat cpb) (parseRats bsq) (nat bc) (parseNats sp) (parseNats sj))
  | ["c10_btb", "c", nd, nn, cpb, bsq, bc, sp, sj] =>
    some <| showCRats (calcBtB CRat.conj (nat nd) (nat nn) (nat cpb) (parseCRats bsq) (nat bc) (parseNats sp) (parseNats sj))
  | ["c10_imm", "r", ap, aj, ax, bp, bj, bx, sp, sj, sx, nbr, nbc, ra, ca, cb] =>
    some <| showRats (incompleteMatMultBsr (parseNats ap) (parseNats aj) (parseRats ax) (parseNats bp) (parseNats bj) (parseRats bx)
      (parseNats sp) (parseNats sj) (parseRats sx) (nat nbr) (nat nbc) (nat ra) (nat ca) (nat cb))
  | ["c10_imm", "c", ap, aj, ax, bp, bj, bx, sp, sj, sx, nbr, nbc, ra, ca, cb] =>
    some <| showCRats (incompleteMatMultBsr (parseNats ap) (parseNats aj) (parseCRats ax) (parseNats bp) (parseNats bj) (parseCRats bx)
      (parseNats sp) (parseNats sj) (parseCRats sx) (nat nbr) (nat nbc) (nat ra) (nat ca) (nat cb))
  | ["c10_filter", "r", rpb, cpb, nd, pat, n, m, a, b, bf] =>
    some <| optR (filterOperator id (nat rpb) (nat cpb) (nat nd) (parsePat pat) (matR n m a) (matR m nd b) (matR n nd bf))
  | ["c10_filter", "c", rpb, cpb, nd, pat, n, m, a, b, bf] =>
    some <| optC (filterOperator CRat.conj (nat rpb) (nat cpb) (nat nd) (parsePat pat) (matC n m a) (matC m nd b) (matC n nd bf))
  | ["c10_satdense", "r", rpb, cpb, nd, pat, n, m, u, b] =>
    some <| optR (satisfyDense id (nat rpb) (nat cpb) (nat nd) (parsePat pat) (matR n m u) (matR m nd b))
  | ["c10_satdense", "c", rpb, cpb, nd, pat, n, m, u, b] =>
    some <| optC (satisfyDense CRat.conj (nat rpb) (nat cpb) (nat nd) (parsePat pat) (matC n m u) (matC m nd b))
  | ["c10_scaleT", bs, cpts, n, m, t] =>
    some <| optR (scaleT (nat bs) (parseNats cpts) (matR n m t))
  | ["c10_smooth", wt, bs, w, deg, n, m, s, absrow, t] =>
    match scaledMatrix (nat wt) (nat bs) (parseRat w) (matR n n s) (parseRats absrow) with
    | none => some "singular"
    | some M =>
      let T := matR n m t
      some <| showMatR (smoothLoop M (nat deg) T) ++ ";" ++ showMatR (polyApply M (nat deg) T)
  | ["c10_jacf", wt, bs, w, rpb, cpb, nd, n, m, s, absrow, b, pats, t] =>
    match scaledMatrix (nat wt) (nat bs) (parseRat w) (matR n n s) (parseRats absrow) with
    | none => some "singular"
    | some M =>
      let pl := if pats = "-" then [] else (pats.splitOn "|").map parsePat
      let B := matR m nd b
      match filteredLoop id (nat rpb) (nat cpb) (nat nd) M B pl (matR n m t) with
      | none => some "singular"
      | some (P, us) =>
        -- hypotheses of updates_keep_product decided on the instance, and the proof-side fold replayed
        let ups := us.map (fun U => ((-1 : Rat), U))
        let flag := if (us.all fun U => (Mat.mul U B).flat.all (· == 0)) && pApply (nat n) (nat m) (matR n m t) ups == P.flat
          then "constrained" else "UNCONSTRAINED"
        some <| showMatR P ++ ";" ++ flag
  | ["c10_energy", cgnr, wt, bs, rpb, cpb, nd, pat, n, m, a, aux, t, b, maxiter, tol, cpts] =>
    let A := matR n n a
    let T := matR n m t
    let B := matR m nd b
    let pt := parsePat pat
    match mkPrecond (nat wt) (nat bs) A (parseRats aux) with
    | none => some "singular"
    | some pre =>
      let o := energyCG id (fun x y => decide (x < y)) (cgnr == "1") (nat rpb) (nat cpb) (nat nd) pt A pre T B
        (nat maxiter) (parseRat tol) (parseNats cpts)
      let flags := (if o.ok then "ok" else "singular") ++ "," ++ (if o.breakdown then "breakdown" else "regular") ++ "," ++
        (if upsConstrained (nat rpb) (nat cpb) pt B o.ups then "constrained" else "UNCONSTRAINED") ++ "," ++
        (if (parseNats cpts).isEmpty then (if pApply (nat n) (nat m) T o.ups == o.T.flat then "fold" else "NOFOLD") else "roots")
      some <| showMatR o.T ++ ";" ++ flags ++ ";" ++ showRats o.sums.toArray ++ ";" ++ toString o.ups.length
  | ["c10_p_proj", rpb, cpb, nbr, ncb, nd, bt, ub, z, sp, sj, sx] =>
    some <| showRats (pProject (nat rpb) (nat cpb) (nat nbr) (nat ncb) (nat nd) (parseRats bt) (parseRats ub) (parseRats z)
      (parseNats sp) (parseNats sj) (parseRats sx))
  | ["c10_p_fit", nf, nc, k1, k2, ap, aj, b, tol] =>
    let (d, r, dr) := pFit (nat nf) (nat nc) (nat k1) (nat k2) (parseNats ap) (parseNats aj) (parseRats b) (parseRat tol)
    some <| showRats d ++ ";" ++ showRats r ++ ";" ++ showRats dr
  | ["c10_p_poly", n, m, d, mm, t] =>
    let (a, b) := pPoly (nat n) (nat m) (nat d) (parseRats mm) (parseRats t)
    some <| showRats a ++ ";" ++ showRats b
  | ["c10_p_smooth", wt, bs, w, deg, n, m, s, absrow, t] =>
    match scaledMatrix (nat wt) (nat bs) (parseRat w) (matR n n s) (parseRats absrow) with
    | none => some "singular"
    | some M =>
      let (a, b) := pPoly (nat n) (nat m) (nat deg) M.flat (parseRats t)
      some <| showRats a ++ ";" ++ showRats b
  | ["c10_p_reset", n, nc, roots, x] =>
    some <| showRats (pReset (nat n) (nat nc) (parseNats roots) (parseRats x))
  | _ => none

end PyamgV.Drv.C10
