import PyamgV.Driver.Util
/-! Driver ops for property C16 (line protocol). Op names are prefixed `c16_`. -/
namespace PyamgV.Drv.C16
open PyamgV PyamgV.Drv

def handle : List String → Option String
  | _ => none

end PyamgV.Drv.C16
