import PyamgV.Driver.Util
import PyamgV.Model.C16Coarse
/-! Driver ops for property C16 (line protocol). Op names are prefixed `c16_`.
Field token `f`: `r` = rationals, `c` = Gaussian rationals (`re|im`).

* `c16_dispatch arg`                      -> kind (`pinv lu cholesky splu krylov:<s> relax:<s> none callable`) or `ValueError`
* `c16_solve f n A b`                     -> exact solution of `A x = b` by Gauss-Jordan elimination, re-checked by
                                             multiplying back; `singular` when a column has no pivot (dense rows `;`-separated)
* `c16_pinv f n A`                        -> `A⁺ # Penrose-ok # A⁺A=I` (exact Moore-Penrose inverse, certificate flags)
* `c16_hpd f n A`                         -> `true|false` (Hermitian positive definite, exactly)
* `c16_run f arg opts cb calls (n ap aj ax)+`
      the model of `coarse_grid_solver(arg or (arg, opts))` followed by the calls `k:shape:b` (`k` = index of the
      matrix passed, shape `v|c`), separated by `;`  ->  `ValueError` or per call `ok:shape:x` / `err:<why>` (`;`-separated)
      `#` number of factorisation calls.  `arg`: `s:<name>`, `none`, `callable`, `other`.
      `opts`: `-` or `it=<n>,sw=<sweep>,om=<q>,rho=<0|1>`.  `cb` (the callable): `scale:<q>` (q·b), `flat:<q>` (q·b.ravel()),
      `short` (b[:-1]).
* `c16_quad f n ap aj ax b x`             -> `xᴴAx # xᴴb # xᴴx # ‖b − Ax‖²` (exact; the imaginary parts are dropped) -/
namespace PyamgV.Drv.C16
open PyamgV PyamgV.Drv PyamgV.K PyamgV.C02 PyamgV.C16

def mkR (n ap aj ax : String) : Csr Rat := ⟨nat n, parseNats ap, parseNats aj, parseRats ax⟩
def mkC (n ap aj ax : String) : Csr CRat := ⟨nat n, parseNats ap, parseNats aj, parseCRats ax⟩
def parseCMat (s : String) : Array (Array CRat) := if s = "-" then #[] else (s.splitOn ";").toArray.map parseCRats
def showCMat (m : Array (Array CRat)) : String :=
  if m.isEmpty then "-" else String.intercalate ";" (m.toList.map showCRats)
def showB (b : Bool) : String := if b then "true" else "false"

def posR (q : Rat) : Bool := decide (0 < q)
def posC (z : CRat) : Bool := decide (z.im = 0) && decide (0 < z.re)

def parseArg (s : String) : Arg :=
  if s = "none" then .none else if s = "callable" then .callable
  else if s.startsWith "s:" then .str (s.drop 2).toString else .other

def showKind : Kind → String
  | .pinv => "pinv" | .lu => "lu" | .cholesky => "cholesky" | .splu => "splu"
  | .krylov s => "krylov:" ++ s | .relax s => "relax:" ++ s | .noSolve => "none" | .callable => "callable"

def parseSweep (s : String) : Sweep :=
  if s = "backward" then .backward else if s = "symmetric" then .symmetric else .forward

def parseOpts {α : Type} (pq : String → α) (s : String) : Opts α :=
  (listOf s).foldl (fun o t =>
    match t.splitOn "=" with
    | ["it", v] => { o with iterations := some (nat v) }
    | ["sw", v] => { o with sweep := some (parseSweep v) }
    | ["om", v] => { o with omega := some (pq v) }
    | ["rho", v] => { o with withrho := some (v = "1") }
    | _ => o) {}

def parseShape (s : String) : Shape := if s = "c" then .col else .vec
def showShape : Shape → String | .vec => "v" | .col => "c"

/-- the callables the check passes: `scale:q`, `flat:q`, `short` -/
def mkCb {α : Type} [Mul α] (pq : String → α) (s : String) : Csr α → Arr α → Except String (Arr α) :=
  fun _ b =>
    match s.splitOn ":" with
    | ["scale", q] => .ok ⟨b.data.map (fun v => pq q * v), b.shape⟩
    | ["flat", q] => .ok ⟨b.data.map (fun v => pq q * v), .vec⟩
    | ["short"] => .ok ⟨b.data.pop, b.shape⟩
    | _ => .error "bad-callable"

def parseMats {α : Type} (mk : String → String → String → String → Csr α) : List String → Option (List (Csr α))
  | [] => some []
  | n :: ap :: aj :: ax :: rest => (parseMats mk rest).map (fun l => mk n ap aj ax :: l)
  | _ => none

def runOp {α : Type} [Add α] [Sub α] [Mul α] [Div α] [OfNat α 0] [OfNat α 1] [DecidableEq α]
    (conj : α → α) (isPos : α → Bool) (pq : String → α) (pl : String → Array α) (sl : Array α → String)
    (arg opts cb calls : String) (mats : List (Csr α)) : String :=
  let hist : List (Csr α × Arr α) := (calls.splitOn ";").filterMap (fun c =>
    match c.splitOn ":" with
    | [k, sh, b] => (mats[nat k]?).map (fun A => (A, (⟨pl b, parseShape sh⟩ : Arr α)))
    | _ => none)
  match coarseGridSolver conj isPos (mkCb pq cb) (parseArg arg) (parseOpts pq opts) hist with
  | none => "ValueError"
  | some (rs, c) =>
    String.intercalate ";" (rs.map (fun r => match r with
      | .ok x => "ok:" ++ showShape x.shape ++ ":" ++ sl x.data
      | .error e => "err:" ++ e)) ++ "#" ++ toString c

/-- Gauss-Jordan solve, result multiplied back -/
def solveChecked {α : Type} [Add α] [Sub α] [Mul α] [Div α] [OfNat α 0] [OfNat α 1] [DecidableEq α]
    (A : Dense α) (n : Nat) (b : Array α) : Option (Array α) :=
  match gaussSolve (normalize A n n) b with
  | some x => if matVec A n n x = (Array.range n).map (fun i => rd b i) then some x else none
  | none => none

def quadOp {α : Type} [Add α] [Sub α] [Mul α] [Div α] [OfNat α 0] [OfNat α 1] [DecidableEq α]
    (conj : α → α) (re : α → Rat) (A : Csr α) (b x : Array α) : String :=
  let Ax := spmv A x
  let r := vsub b Ax
  showRat (re (cdot conj x Ax)) ++ "#" ++ showRat (re (cdot conj x b)) ++ "#" ++ showRat (re (cdot conj x x))
    ++ "#" ++ showRat (re (cdot conj r r))

def handle : List String → Option String
  | ["c16_dispatch", arg] =>
    some <| match dispatch (parseArg arg) with | some k => showKind k | none => "ValueError"
  | ["c16_solve", "r", n, A, b] =>
    some <| match solveChecked (parseMat A) (nat n) (parseRats b) with | some x => showRats x | none => "singular"
  | ["c16_solve", "c", n, A, b] =>
    some <| match solveChecked (parseCMat A) (nat n) (parseCRats b) with | some x => showCRats x | none => "singular"
  | ["c16_pinv", "r", n, A] =>
    let M := parseMat A
    let X := pinvD id M (nat n)
    some <| showMat X ++ "#" ++ showB (isPinv id M X (nat n)) ++ "#" ++ showB (isInv M X (nat n))
  | ["c16_pinv", "c", n, A] =>
    let M := parseCMat A
    let X := pinvD CRat.conj M (nat n)
    some <| showCMat X ++ "#" ++ showB (isPinv CRat.conj M X (nat n)) ++ "#" ++ showB (isInv M X (nat n))
  | ["c16_hpd", "r", n, A] => some <| showB (isHPD id posR (parseMat A) (nat n))
  | ["c16_hpd", "c", n, A] => some <| showB (isHPD CRat.conj posC (parseCMat A) (nat n))
  | "c16_run" :: "r" :: arg :: opts :: cb :: calls :: mats =>
    some <| match parseMats mkR mats with
      | some ms => runOp id posR parseRat parseRats showRats arg opts cb calls ms
      | none => "bad-request"
  | "c16_run" :: "c" :: arg :: opts :: cb :: calls :: mats =>
    some <| match parseMats mkC mats with
      | some ms => runOp CRat.conj posC parseCRat parseCRats showCRats arg opts cb calls ms
      | none => "bad-request"
  | ["c16_quad", "r", n, ap, aj, ax, b, x] =>
    some <| quadOp id id (mkR n ap aj ax) (parseRats b) (parseRats x)
  | ["c16_quad", "c", n, ap, aj, ax, b, x] =>
    some <| quadOp CRat.conj (fun z => z.re) (mkC n ap aj ax) (parseCRats b) (parseCRats x)
  | _ => none

end PyamgV.Drv.C16
