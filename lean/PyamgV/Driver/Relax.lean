import PyamgV.Driver.Util
import PyamgV.Model.KRelax
/-! Driver ops for the relaxation kernels (C09, C02, C05, C16, C17). `r`-prefixed ops run on `Rat`,
`c`-prefixed on Gaussian rationals `CRat`. -/
namespace PyamgV.Drv.Relax
open PyamgV PyamgV.K PyamgV.Drv

def mkR (n ap aj ax : String) : Csr Rat := ⟨nat n, parseNats ap, parseNats aj, parseRats ax⟩
def mkC (n ap aj ax : String) : Csr CRat := ⟨nat n, parseNats ap, parseNats aj, parseCRats ax⟩
def sw (s0 s1 s2 : String) : List Nat := sweepIdx (int s0) (int s1) (int s2)

def handle : List String → Option String
  | ["gs", n, ap, aj, ax, b, x, s0, s1, s2] =>
    some <| showRats (gaussSeidel (mkR n ap aj ax) (parseRats b) (sw s0 s1 s2) (parseRats x))
  | ["cgs", n, ap, aj, ax, b, x, s0, s1, s2] =>
    some <| showCRats (gaussSeidel (mkC n ap aj ax) (parseCRats b) (sw s0 s1 s2) (parseCRats x))
  | ["sor", om, n, ap, aj, ax, b, x, s0, s1, s2] =>
    some <| showRats (sorGaussSeidel (parseRat om) (mkR n ap aj ax) (parseRats b) (sw s0 s1 s2) (parseRats x))
  | ["csor", om, n, ap, aj, ax, b, x, s0, s1, s2] =>
    some <| showCRats (sorGaussSeidel (CRat.ofRat (parseRat om)) (mkC n ap aj ax) (parseCRats b) (sw s0 s1 s2) (parseCRats x))
  | ["jac", om, n, ap, aj, ax, b, x, s0, s1, s2] =>
    let xv := parseRats x
    some <| showRats (jacobi (parseRat om) (mkR n ap aj ax) (parseRats b) (sw s0 s1 s2) (Array.replicate xv.size 0) xv)
  | ["cjac", om, n, ap, aj, ax, b, x, s0, s1, s2] =>
    let xv := parseCRats x
    some <| showCRats (jacobi (CRat.ofRat (parseRat om)) (mkC n ap aj ax) (parseCRats b) (sw s0 s1 s2) (Array.replicate xv.size 0) xv)
  | ["jaci", om, n, ap, aj, ax, b, x, idx] =>
    some <| showRats (jacobiIndexed (parseRat om) (mkR n ap aj ax) (parseRats b) (parseNats idx).toList (parseRats x))
  | ["gsi", n, ap, aj, ax, b, x, idx, s0, s1, s2] =>
    some <| showRats (gaussSeidelIndexed (mkR n ap aj ax) (parseRats b) (parseNats idx) (sw s0 s1 s2) (parseRats x))
  | ["gsne", om, n, ap, aj, ax, b, x, dinv, s0, s1, s2] =>
    some <| showRats (gaussSeidelNE id (parseRat om) (mkR n ap aj ax) (parseRats b) (parseRats dinv) (sw s0 s1 s2) (parseRats x))
  | ["cgsne", om, n, ap, aj, ax, b, x, dinv, s0, s1, s2] =>
    some <| showCRats (gaussSeidelNE CRat.conj (parseCRat om) (mkC n ap aj ax) (parseCRats b) (parseCRats dinv) (sw s0 s1 s2) (parseCRats x))
  | ["gsnr", om, n, ap, aj, ax, r, x, dinv, s0, s1, s2] =>
    let (xo, ro) := gaussSeidelNR id (parseRat om) (mkR n ap aj ax) (parseRats dinv) (sw s0 s1 s2) (parseRats x) (parseRats r)
    some <| showRats xo ++ ";" ++ showRats ro
  | ["cgsnr", om, n, ap, aj, ax, r, x, dinv, s0, s1, s2] =>
    let (xo, ro) := gaussSeidelNR CRat.conj (parseCRat om) (mkC n ap aj ax) (parseCRats dinv) (sw s0 s1 s2) (parseCRats x) (parseCRats r)
    some <| showCRats xo ++ ";" ++ showCRats ro
  | ["jacne", om, n, ap, aj, ax, delta, x, s0, s1, s2] =>
    some <| showRats (jacobiNE id (parseRat om) (mkR n ap aj ax) (parseRats delta) (sw s0 s1 s2) (parseRats x))
  | ["cjacne", om, n, ap, aj, ax, delta, x, s0, s1, s2] =>
    some <| showCRats (jacobiNE CRat.conj (parseCRat om) (mkC n ap aj ax) (parseCRats delta) (sw s0 s1 s2) (parseCRats x))
  | _ => none

end PyamgV.Drv.Relax
