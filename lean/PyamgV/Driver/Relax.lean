import PyamgV.Driver.Util
import PyamgV.Model.KRelax
/-! Driver ops for the relaxation kernels (C09, C02, C05, C16, C17). `r`-prefixed ops run on `Rat`,
`c`-prefixed on Gaussian rationals `CRat`. -/
namespace PyamgV.Drv.Relax
open PyamgV PyamgV.K PyamgV.Drv

def mkR (n ap aj ax : String) : Csr Rat := ⟨nat n, parseNats ap, parseNats aj, parseRats ax⟩
def mkC (n ap aj ax : String) : Csr CRat := ⟨nat n, parseNats ap, parseNats aj, parseCRats ax⟩
def sweepOf (s : String) : Sweep := if s = "backward" then .backward else if s = "symmetric" then .symmetric else .forward
def sw (s0 s1 s2 : String) : List Nat := sweepIdx (int s0) (int s1) (int s2)

def handle : List String → Option String
  | ["gs", n, ap, aj, ax, b, x, s0, s1, s2] =>
    some <| showRats (gaussSeidel (mkR n ap aj ax) (parseRats b) (sw s0 s1 s2) (parseRats x))
  | ["cgs", n, ap, aj, ax, b, x, s0, s1, s2] =>
    some <| showCRats (gaussSeidel (mkC n ap aj ax) (parseCRats b) (sw s0 s1 s2) (parseCRats x))
  | ["sor", om, n, ap, aj, ax, b, x, s0, s1, s2] =>
    some <| showRats (sorGaussSeidel (parseRat om) (mkR n ap aj ax) (parseRats b) (sw s0 s1 s2) (parseRats x))
  | ["csor", om, n, ap, aj, ax, b, x, s0, s1, s2] =>
    some <| showCRats (sorGaussSeidel (CRat.ofRat (parseRat om)) (mkC n ap aj ax) (parseCRats b) (sw s0 s1 s2) (parseCRats x))
  | ["jac", om, n, ap, aj, ax, b, x, s0, s1, s2] =>
    let xv := parseRats x
    some <| showRats (jacobi (parseRat om) (mkR n ap aj ax) (parseRats b) (sw s0 s1 s2) (Array.replicate xv.size 0) xv)
  | ["cjac", om, n, ap, aj, ax, b, x, s0, s1, s2] =>
    let xv := parseCRats x
    some <| showCRats (jacobi (CRat.ofRat (parseRat om)) (mkC n ap aj ax) (parseCRats b) (sw s0 s1 s2) (Array.replicate xv.size 0) xv)
  | ["jaci", om, n, ap, aj, ax, b, x, idx] =>
    some <| showRats (jacobiIndexed (parseRat om) (mkR n ap aj ax) (parseRats b) (parseNats idx).toList (parseRats x))
  | ["gsi", n, ap, aj, ax, b, x, idx, s0, s1, s2] =>
    some <| showRats (gaussSeidelIndexed (mkR n ap aj ax) (parseRats b) (parseNats idx) (sw s0 s1 s2) (parseRats x))
  | ["gsne", om, n, ap, aj, ax, b, x, dinv, s0, s1, s2] =>
    some <| showRats (gaussSeidelNE id (parseRat om) (mkR n ap aj ax) (parseRats b) (parseRats dinv) (sw s0 s1 s2) (parseRats x))
  | ["cgsne", om, n, ap, aj, ax, b, x, dinv, s0, s1, s2] =>
    some <| showCRats (gaussSeidelNE CRat.conj (parseCRat om) (mkC n ap aj ax) (parseCRats b) (parseCRats dinv) (sw s0 s1 s2) (parseCRats x))
  | ["gsnr", om, n, ap, aj, ax, r, x, dinv, s0, s1, s2] =>
    let (xo, ro) := gaussSeidelNR id (parseRat om) (mkR n ap aj ax) (parseRats dinv) (sw s0 s1 s2) (parseRats x) (parseRats r)
    some <| showRats xo ++ ";" ++ showRats ro
  | ["cgsnr", om, n, ap, aj, ax, r, x, dinv, s0, s1, s2] =>
    let (xo, ro) := gaussSeidelNR CRat.conj (parseCRat om) (mkC n ap aj ax) (parseCRats dinv) (sw s0 s1 s2) (parseCRats x) (parseCRats r)
    some <| showCRats xo ++ ";" ++ showCRats ro
  | ["jacne", om, n, ap, aj, ax, delta, x, s0, s1, s2] =>
    some <| showRats (jacobiNE id (parseRat om) (mkR n ap aj ax) (parseRats delta) (sw s0 s1 s2) (parseRats x))
  | ["cjacne", om, n, ap, aj, ax, delta, x, s0, s1, s2] =>
    some <| showCRats (jacobiNE CRat.conj (parseCRat om) (mkC n ap aj ax) (parseCRats delta) (sw s0 s1 s2) (parseCRats x))
  | ["pygs", om, n, ap, aj, ax, b, x, iters, sweep] =>
    some <| showRats (pyGaussSeidel (parseRat om) (mkR n ap aj ax) (parseRats b) (nat iters) (sweepOf sweep) (parseRats x))
  | ["cpygs", om, n, ap, aj, ax, b, x, iters, sweep] =>
    some <| showCRats (pyGaussSeidel (CRat.ofRat (parseRat om)) (mkC n ap aj ax) (parseCRats b) (nat iters) (sweepOf sweep) (parseCRats x))
  | ["pyjac", om, n, ap, aj, ax, b, x, iters] =>
    some <| showRats (pyJacobi (parseRat om) (mkR n ap aj ax) (parseRats b) (nat iters) (parseRats x))
  | ["cpyjac", om, n, ap, aj, ax, b, x, iters] =>
    some <| showCRats (pyJacobi (parseCRat om) (mkC n ap aj ax) (parseCRats b) (nat iters) (parseCRats x))
  | ["pygsi", n, ap, aj, ax, b, x, idx, iters, sweep] =>
    some <| showRats (pyGaussSeidelIndexed (mkR n ap aj ax) (parseRats b) (parseNats idx) (nat iters) (sweepOf sweep) (parseRats x))
  | ["pyjaci", om, n, ap, aj, ax, b, x, idx, iters] =>
    some <| showRats (pyJacobiIndexed (parseRat om) (mkR n ap aj ax) (parseRats b) (parseNats idx).toList (nat iters) (parseRats x))
  | ["pycfjac", cfirst, om, n, ap, aj, ax, b, x, cpts, fpts, iters, fit, cit] =>
    some <| showRats (pyCFJacobi (cfirst = "1") (parseRat om) (mkR n ap aj ax) (parseRats b) (parseNats cpts).toList (parseNats fpts).toList (nat iters) (nat fit) (nat cit) (parseRats x))
  | _ => none

end PyamgV.Drv.Relax
