import PyamgV.Driver.Util
/-! Driver ops of extension task E30 (op names prefixed `ext_`). -/
namespace PyamgV.Drv.ExtE30
open PyamgV PyamgV.Drv

def handle : List String → Option String
  | _ => none

end PyamgV.Drv.ExtE30
