import PyamgV.Driver.Util
import PyamgV.Model.ExtGlue
/-! Driver ops of extension task E30 (op names prefixed `ext_`): the SciPy glue models of
Model/ExtGlue.lean and the composed API paths of `pyamg/classical/interpolate.py`. -/
namespace PyamgV.Drv.ExtE30
open PyamgV PyamgV.Drv PyamgV.N

def mk (n ap aj ax : String) : N.Csr := ⟨nat n, parseNats ap, parseNats aj, parseRats ax⟩
def showCsr (A : N.Csr) : String := showNats A.ap ++ ";" ++ showNats A.aj ++ ";" ++ showRats A.ax

def handle : List String → Option String
  | ["ext_glue_elim", n, ap, aj, ax] => some <| showCsr (Glue.eliminateZeros (mk n ap aj ax))
  | ["ext_glue_ones", n, ap, aj, ax] => some <| showCsr (Glue.setOnes (mk n ap aj ax))
  | ["ext_glue_sort", n, ap, aj, ax] => some <| showCsr (Glue.sortIndices (mk n ap aj ax))
  | ["ext_glue_sumdup", n, ap, aj, ax] => some <| showCsr (Glue.sumDuplicates (mk n ap aj ax))
  | ["ext_glue_canon", n, ap, aj] => some <| if Glue.isCanonical (mk n ap aj "-") then "1" else "0"
  | ["ext_glue_mul", n, cp, cj, cx, ap, aj, ax] =>
    some <| showCsr (Glue.multiply (mk n cp cj cx) (mk n ap aj ax))
  | ["ext_glue_stail", tiny, n, sp, sj, sx] =>
    some <| showCsr (Glue.strengthTail (parseRat tiny) (nat n) ⟨parseNats sp, parseNats sj, parseRats sx⟩)
  | ["ext_c11_api_strength", md, n, ap, aj, ax, cp, cj, cx, split] =>
    some <| showCsr (Glue.apiStrength (md == "1") (mk n ap aj ax) (mk n cp cj cx) (parseInts split))
  | ["ext_c11_api_classical", eps, md, n, ap, aj, ax, cp, cj, cx, split] =>
    let (pp, pj, px) := Glue.apiClassical (parseRat eps) (md == "1") (mk n ap aj ax) (mk n cp cj cx) (parseInts split)
    some <| showNats pp ++ ";" ++ showInts pj ++ ";" ++ showORats px
  | ["ext_c11_api_direct", n, ap, aj, ax, cp, cj, cx, split] =>
    let (pp, pj, px) := Glue.apiDirect (mk n ap aj ax) (mk n cp cj cx) (parseInts split)
    some <| showNats pp ++ ";" ++ showNats pj ++ ";" ++ showORats px
  | ["ext_c11_api_soc", tiny, th, norm, n, ap, aj, ax] =>
    some <| showCsr (Glue.apiSoc (parseRat tiny) (parseRat th) (norm == "abs") (mk n ap aj ax))
  | ["ext_c11_api_classical_theta", eps, md, tiny, th, norm, n, ap, aj, ax, split] =>
    let (pp, pj, px) := Glue.apiClassicalTheta (parseRat eps) (md == "1") (parseRat tiny) (parseRat th) (norm == "abs")
      (mk n ap aj ax) (parseInts split)
    some <| showNats pp ++ ";" ++ showInts pj ++ ";" ++ showORats px
  | ["ext_c11_api_direct_theta", tiny, th, norm, n, ap, aj, ax, split] =>
    let (pp, pj, px) := Glue.apiDirectTheta (parseRat tiny) (parseRat th) (norm == "abs") (mk n ap aj ax) (parseInts split)
    some <| showNats pp ++ ";" ++ showNats pj ++ ";" ++ showORats px
  | _ => none

end PyamgV.Drv.ExtE30
