import PyamgV.Driver.Util
/-! Driver ops for property C07 (line protocol). Op names are prefixed `c07_`. -/
namespace PyamgV.Drv.C07
open PyamgV PyamgV.Drv

def handle : List String → Option String
  | _ => none

end PyamgV.Drv.C07
