import PyamgV.Driver.Util
import PyamgV.Model.C07Krylov
import PyamgV.Model.C07Argmin
import PyamgV.Model.C07Gmres
/-! Driver ops for property C07 (line protocol). Op names are prefixed `c07_`.

`c07_iter <solver> <r|c> <A> <M> <b> <x0> <k>` (matrices: rows separated by `;`)
  → `<m> <x_1;…;x_m>`  the iterates of the recurrence model (`m ≤ k`: it stops before a division by 0)
`c07_krylov_argmin <kind> <r|c> <A> <M> <b> <x0> <k>`   kind ∈ cg | gmres | res | cgnr | cgne
  → `<cert 0|1> <xs> <y_1;…;y_k> <val_0,…,val_k>` | `singular` | `bad-kind`
  the exact minimisers over the j-dimensional Krylov spaces, `cert` = the Galerkin conditions hold exactly
`c07_gmres_mgs <A> <M> <b> <x0> <k>` (binary64 bit patterns as decimal integers)
  → `<x_1;…;x_k>` iterates of the GMRES(MGS) model run in `Float` -/
namespace PyamgV.Drv.C07
open PyamgV PyamgV.Drv PyamgV.C07

def parseMatC (s : String) : List (List CRat) :=
  if s = "-" then [] else (s.splitOn ";").map (fun r => (parseCRats r).toList)
def parseMatR (s : String) : List (List Rat) :=
  if s = "-" then [] else (s.splitOn ";").map (fun r => (parseRats r).toList)

def showVecs {K : Type} (sh : Array K → String) (l : List (List K)) : String :=
  if l.isEmpty then "-" else String.intercalate ";" (l.map fun v => sh v.toArray)

def handle : List String → Option String
  | ["c07_iter", name, fld, a, m, b, x0, k] =>
    if fld = "c" then
      match runByName CRat.conj name (parseMatC a) (parseMatC m) (parseCRats b).toList (parseCRats x0).toList (nat k) with
      | none => some "bad-solver"
      | some xs => some s!"{xs.length} {showVecs showCRats xs}"
    else
      match runByName (fun (q : Rat) => q) name (parseMatR a) (parseMatR m) (parseRats b).toList (parseRats x0).toList (nat k) with
      | none => some "bad-solver"
      | some xs => some s!"{xs.length} {showVecs showRats xs}"
  | ["c07_krylov_argmin", kind, fld, a, m, b, x0, k] =>
    if !(["cg", "gmres", "res", "cgnr", "cgne"].contains kind) then some "bad-kind" else
    if fld = "c" then
      match krylovArgmin CRat.conj kind (parseMatC a) (parseMatC m) (1 : CRat) (parseCRats b).toList (parseCRats x0).toList (nat k) with
      | none => some "singular"
      | some r => some s!"{if r.cert then 1 else 0} {showCRats r.xs.toArray} {showVecs showCRats r.ys} {showCRats r.vals.toArray}"
    else
      match krylovArgmin (fun (q : Rat) => q) kind (parseMatR a) (parseMatR m) (1 : Rat) (parseRats b).toList (parseRats x0).toList (nat k) with
      | none => some "singular"
      | some r =>
        -- real case: the certificate is re-checked by the checker proved sound in Proofs/C07Cert.lean
        let b' := (parseRats b).toList
        let ok := r.cert && certAllV b'.length r.G r.basis r.xs (parseRats x0).toList r.ds r.ys
        some s!"{if ok then 1 else 0} {showRats r.xs.toArray} {showVecs showRats r.ys} {showRats r.vals.toArray}"
  | ["c07_gmres_mgs", a, m, b, x0, k] =>
    let mat := fun (t : String) => if t = "-" then [] else (t.splitOn ";").map (fun r => (parseFloats r).toList)
    match gmresMgsFloat (mat a) (mat m) (parseFloats b).toList (parseFloats x0).toList (nat k) with
    | none => some "bad-size"
    | some xs => some (if xs.isEmpty then "-" else
        String.intercalate ";" (xs.map fun v => sh (v.map fun f => toString f.toBits.toNat)))
  | _ => none

end PyamgV.Drv.C07
