import PyamgV.Proofs.C06Loop
import Mathlib.Tactic.Ring
import Mathlib.Tactic.SplitIfs
/-! PyamgV (C06): the recursively updated residual of every recurrence solver model of
`Model/C06Krylov.lean` *is* the true residual `b − A x` of the iterate (an invariant of the
recurrences with no side condition on `alpha`, `beta`, `omega`), hence the value recorded in the
history and the tested criterion are functions of the iterate alone and `run_truthful` applies:
the statements below are the clauses of property C06 for the executable models, over any
commutative ring of scalars (`Rat`, Gaussian rationals, …) with any division. -/
namespace PyamgV.C06

variable {K : Type} [CommRing K] [Div K] [DecidableEq K] [Scal K]

/-! ### linear algebra on lists -/
omit [Div K] [DecidableEq K] [Scal K] in
theorem dotu_axpy (α : K) : ∀ (row u v : Vec K), u.length = v.length →
    dotu row (axpy α u v) = α * dotu row u + dotu row v
  | [], u, v, _ => by simp [dotu]
  | _ :: _, [], [], _ => by simp [dotu, axpy]
  | _ :: _, [], _ :: _, h => by simp at h
  | _ :: _, _ :: _, [], h => by simp at h
  | a :: as, ui :: us, vi :: vs, h => by
    have ih := dotu_axpy α as us vs (by simpa using h)
    simp only [axpy, List.zipWith_cons_cons, dotu] at ih ⊢
    rw [ih]; ring

omit [Div K] [DecidableEq K] [Scal K] in
theorem dotu_axmy (α : K) : ∀ (row u v : Vec K), u.length = v.length →
    dotu row (axmy α u v) = dotu row v - α * dotu row u
  | [], u, v, _ => by simp [dotu]
  | _ :: _, [], [], _ => by simp [dotu, axmy]
  | _ :: _, [], _ :: _, h => by simp at h
  | _ :: _, _ :: _, [], h => by simp at h
  | a :: as, ui :: us, vi :: vs, h => by
    have ih := dotu_axmy α as us vs (by simpa using h)
    simp only [axmy, List.zipWith_cons_cons, dotu] at ih ⊢
    rw [ih]; ring

omit [Div K] [DecidableEq K] [Scal K] in
theorem mv_axpy (α : K) (A : Mat K) (u v : Vec K) (h : u.length = v.length) :
    mv A (axpy α u v) = axpy α (mv A u) (mv A v) := by
  induction A with
  | nil => simp [mv, axpy]
  | cons row A ih =>
    simp only [mv, List.map_cons, axpy, List.zipWith_cons_cons] at ih ⊢
    rw [ih]
    congr 1
    exact dotu_axpy α row u v h

omit [Div K] [DecidableEq K] [Scal K] in
theorem mv_axmy (α : K) (A : Mat K) (u v : Vec K) (h : u.length = v.length) :
    mv A (axmy α u v) = axmy α (mv A u) (mv A v) := by
  induction A with
  | nil => simp [mv, axmy]
  | cons row A ih =>
    simp only [mv, List.map_cons, axmy, List.zipWith_cons_cons] at ih ⊢
    rw [ih]
    congr 1
    exact dotu_axmy α row u v h

omit [Div K] [DecidableEq K] [Scal K] in
theorem vsub_axpy (α : K) : ∀ (b u v : Vec K), vsub b (axpy α u v) = axmy α u (vsub b v)
  | [], u, v => by cases u <;> cases v <;> simp [vsub, axpy, axmy]
  | _ :: _, [], v => by simp [vsub, axpy, axmy]
  | _ :: _, _ :: _, [] => by simp [vsub, axpy, axmy]
  | bi :: bs, ui :: us, vi :: vs => by
    have ih := vsub_axpy α bs us vs
    simp only [vsub, axpy, axmy, List.zipWith_cons_cons] at ih ⊢
    rw [ih]
    congr 1
    ring

omit [Div K] [DecidableEq K] [Scal K] in
@[simp] theorem length_mv (A : Mat K) (x : Vec K) : (mv A x).length = A.length := by simp [mv]
omit [Div K] [DecidableEq K] [Scal K] in
@[simp] theorem length_axpy (α : K) (u v : Vec K) : (axpy α u v).length = min u.length v.length := by
  simp [axpy]
omit [Div K] [DecidableEq K] [Scal K] in
@[simp] theorem length_axmy (α : K) (u v : Vec K) : (axmy α u v).length = min u.length v.length := by
  simp [axmy]
omit [Div K] [DecidableEq K] [Scal K] in
@[simp] theorem length_resid (A : Mat K) (b x : Vec K) : (resid A b x).length = min b.length A.length := by
  simp [resid, vsub]
omit [CommRing K] [Div K] [DecidableEq K] in
@[simp] theorem length_ctrans [OfNat K 0] (n : Nat) (A : Mat K) : (ctrans n A).length = n := by simp [ctrans]

omit [Div K] [DecidableEq K] [Scal K] in
/-- the recursive residual update is the true residual of the updated iterate -/
theorem resid_axpy (α : K) (A : Mat K) (b p x : Vec K) (h : p.length = x.length) :
    resid A b (axpy α p x) = axmy α (mv A p) (resid A b x) := by
  simp only [resid]
  rw [mv_axpy α A p x h, vsub_axpy]

omit [Div K] [DecidableEq K] [Scal K] in
theorem ite_resid (c : Bool) (α : K) (A : Mat K) (b p x r : Vec K) (hr : r = resid A b x)
    (h : p.length = x.length) :
    (if c = true then axmy α (mv A p) r else resid A b (axpy α p x)) = resid A b (axpy α p x) := by
  split
  · rw [hr, resid_axpy α A b p x h]
  · rfl

omit [Div K] [DecidableEq K] [Scal K] in
theorem ite_resid' (c : Bool) (α : K) (A : Mat K) (b p x r : Vec K) (hr : r = resid A b x)
    (h : p.length = x.length) :
    (if c = true then resid A b (axpy α p x) else axmy α (mv A p) r) = resid A b (axpy α p x) := by
  split
  · rfl
  · rw [hr, resid_axpy α A b p x h]

/-! ### CG -/
section cg
variable (A M : Mat K) (b : Vec K) (n : Nat)

def CgInv (s : CgSt K) : Prop :=
  s.x.length = n ∧ s.p.length = n ∧ s.r = resid A b s.x ∧ s.z = mv M s.r ∧ s.rz = dotc s.r s.z

theorem cg_next (hA : A.length = n) (hM : M.length = n) (hb : b.length = n) (s s' : CgSt K)
    (hs : CgInv A M b n s) (h : cgStep A M b s = .next s') : CgInv A M b n s' := by
  obtain ⟨hx, hp, hr, hz, hrz⟩ := hs
  simp only [cgStep] at h
  split_ifs at h <;> cases h
  · exact ⟨by simp; omega, by simp; omega, by rw [hr]; exact (resid_axpy _ A b s.p s.x (by omega)).symm, rfl, rfl⟩
  · exact ⟨by simp; omega, by simp; omega, rfl, rfl, rfl⟩

theorem cg_truthful (x0 : Vec K) (c : Crit) (tol2 : Rat) (maxiter : Nat) (hm : 1 ≤ maxiter)
    (hA : A.length = n) (hM : M.length = n) (hb : b.length = n) (hx : x0.length = n) :
    Truthful (cg A M b x0 c tol2 maxiter) x0 maxiter (trueRes2 A b) (critOf c (mkThr A M b tol2) A M b) :=
  run_truthful (cgAlg A M b c (mkThr A M b tol2)) maxiter (cgInit A M b x0) (CgInv A M b n)
    (trueRes2 A b) (critOf c (mkThr A M b tol2) A M b) hm
    ⟨hx, by simp [cgInit]; omega, rfl, rfl, rfl⟩
    (fun s s' hs h => cg_next A M b n hA hM hb s s' hs h)
    (fun s s' _ h => by
      exfalso
      simp only [cgAlg, cgStep] at h
      split_ifs at h <;> cases h)
    (fun s hs => by obtain ⟨_, _, hr, _, _⟩ := hs; simp [cgAlg, trueRes2, hr])
    (fun s hs => by
      obtain ⟨_, _, hr, hz, hrz⟩ := hs
      simp only [cgAlg, critOf]
      rw [hrz, hz, hr])
end cg

/-! ### CR -/
section cr
variable (A M : Mat K) (b : Vec K) (n : Nat)

def CrInv (s : CrSt K) : Prop :=
  s.x.length = n ∧ s.p.length = n ∧ s.r = resid A b s.x ∧ s.z = mv M s.r ∧ s.Ap = mv A s.p

theorem cr_next (hM : M.length = n) (s s' : CrSt K)
    (hs : CrInv A M b n s) (h : crStep A M b s = .next s') : CrInv A M b n s' := by
  obtain ⟨hx, hp, hr, hz, hAp⟩ := hs
  simp only [crStep] at h
  split_ifs at h <;> cases h
  · refine ⟨by simp; omega, by simp; omega, ?_, rfl, ?_⟩
    · simp only [hAp, hr]; exact (resid_axpy _ A b s.p s.x (by omega)).symm
    · simp only [hAp]; exact (mv_axpy _ A s.p _ (by simp; omega)).symm
  · refine ⟨by simp; omega, by simp; omega, rfl, rfl, ?_⟩
    simp only [hAp]; exact (mv_axpy _ A s.p _ (by simp; omega)).symm

theorem cr_truthful (x0 : Vec K) (c : Crit) (tol2 : Rat) (maxiter : Nat) (hm : 1 ≤ maxiter)
    (hM : M.length = n) (hx : x0.length = n) :
    Truthful (cr A M b x0 c tol2 maxiter) x0 maxiter (trueRes2 A b)
      (critCR c (mkThr A M b tol2) A M b) :=
  run_truthful (crAlg A M b c (mkThr A M b tol2)) maxiter (crInit A M b x0) (CrInv A M b n)
    (trueRes2 A b) (critCR c (mkThr A M b tol2) A M b) hm
    ⟨hx, by simp [crInit]; omega, rfl, rfl, rfl⟩
    (fun s s' hs h => cr_next A M b n hM s s' hs h)
    (fun s s' _ h => by
      exfalso
      simp only [crAlg, crStep] at h
      split_ifs at h <;> cases h)
    (fun s hs => by obtain ⟨_, _, hr, _, _⟩ := hs; simp [crAlg, trueRes2, hr])
    (fun s hs => by
      obtain ⟨_, _, hr, hz, _⟩ := hs
      simp only [crAlg, critCR]
      rw [hz, hr])
end cr

/-! ### CGNE -/
section cgne
variable (A AH M : Mat K) (b : Vec K) (n : Nat)

def NeInv (s : NeSt K) : Prop :=
  s.x.length = n ∧ s.p.length = n ∧ s.r = resid A b s.x ∧ s.z = mv M s.r ∧ s.zr = dotc s.z s.r

theorem cgne_next (hAH : AH.length = n) (s s' : NeSt K)
    (hs : NeInv A M b n s) (h : cgneStep A AH M b s = .next s') : NeInv A M b n s' := by
  obtain ⟨hx, hp, hr, hz, hzr⟩ := hs
  simp only [cgneStep] at h
  split_ifs at h <;> cases h
  · exact ⟨by simp; omega, by simp; omega, by rw [hr]; exact (resid_axpy _ A b s.p s.x (by omega)).symm, rfl, rfl⟩
  · exact ⟨by simp; omega, by simp; omega, rfl, rfl, rfl⟩

theorem cgne_truthful (A M : Mat K) (b x0 : Vec K) (c : Crit) (tol2 : Rat) (maxiter : Nat) (hm : 1 ≤ maxiter)
    (hx : x0.length = b.length) :
    Truthful (cgne A M b x0 c tol2 maxiter) x0 (clampNE b.length maxiter) (trueRes2 A b)
      (critNE c (mkThr A M b tol2) A M b) :=
  run_truthful (cgneAlg A (ctrans b.length A) M b c (mkThr A M b tol2)) (clampNE b.length maxiter)
    (cgneInit A (ctrans b.length A) M b x0) (NeInv A M b b.length) (trueRes2 A b) (critNE c (mkThr A M b tol2) A M b)
    (by unfold clampNE; split <;> omega)
    ⟨hx, by simp [cgneInit], rfl, rfl, rfl⟩
    (fun s s' hs h => cgne_next A (ctrans b.length A) M b b.length (by simp) s s' hs h)
    (fun s s' _ h => by
      exfalso
      simp only [cgneAlg, cgneStep] at h
      split_ifs at h <;> cases h)
    (fun s hs => by obtain ⟨_, _, hr, _, _⟩ := hs; simp [cgneAlg, trueRes2, hr])
    (fun s hs => by
      obtain ⟨_, _, hr, hz, hzr⟩ := hs
      simp only [cgneAlg, critNE]
      rw [hzr, hz, hr])
end cgne

/-! ### CGNR -/
section cgnr
variable (A AH M : Mat K) (b : Vec K) (n : Nat)

def NrInv (s : NrSt K) : Prop :=
  s.x.length = n ∧ s.p.length = n ∧ s.r = resid A b s.x ∧ s.rhat = mv AH s.r ∧ s.z = mv M s.rhat ∧
    s.zr = dotc s.z s.rhat

theorem cgnr_next (hM : M.length = n) (s s' : NrSt K)
    (hs : NrInv A AH M b n s) (h : cgnrStep A AH M b s = .next s') : NrInv A AH M b n s' := by
  obtain ⟨hx, hp, hr, hrh, hz, hzr⟩ := hs
  simp only [cgnrStep] at h
  split_ifs at h <;> cases h
  · exact ⟨by simp; omega, by simp; omega, by rw [hr]; exact (resid_axpy _ A b s.p s.x (by omega)).symm, rfl, rfl, rfl⟩
  · exact ⟨by simp; omega, by simp; omega, rfl, rfl, rfl, rfl⟩

/-- note the criterion: `critNR` tests `z = M Aᴴ r` for 'MrMr' and 'rMr' (what `_cgnr.py` does) -/
theorem cgnr_truthful (A M : Mat K) (b x0 : Vec K) (c : Crit) (tol2 : Rat) (maxiter : Nat) (hm : 1 ≤ maxiter)
    (hM : M.length = b.length) (hx : x0.length = b.length) :
    Truthful (cgnr A M b x0 c tol2 maxiter) x0 (clampNE b.length maxiter) (trueRes2 A b)
      (critNR c (mkThr A M b tol2) A (ctrans b.length A) M b) :=
  run_truthful (cgnrAlg A (ctrans b.length A) M b c (mkThr A M b tol2)) (clampNE b.length maxiter)
    (cgnrInit A (ctrans b.length A) M b x0) (NrInv A (ctrans b.length A) M b b.length) (trueRes2 A b)
    (critNR c (mkThr A M b tol2) A (ctrans b.length A) M b)
    (by unfold clampNE; split <;> omega)
    ⟨hx, by simp [cgnrInit]; omega, rfl, rfl, rfl, rfl⟩
    (fun s s' hs h => cgnr_next A (ctrans b.length A) M b b.length hM s s' hs h)
    (fun s s' _ h => by
      exfalso
      simp only [cgnrAlg, cgnrStep] at h
      split_ifs at h <;> cases h)
    (fun s hs => by obtain ⟨_, _, hr, _, _, _⟩ := hs; simp [cgnrAlg, trueRes2, hr])
    (fun s hs => by
      obtain ⟨_, _, hr, hrh, hz, hzr⟩ := hs
      simp only [cgnrAlg, critNR]
      rw [hzr, hz, hrh, hr])
end cgnr

/-! ### steepest descent -/
section sd
variable (A M : Mat K) (b : Vec K) (n : Nat)

def SdInv (s : SdSt K) : Prop :=
  s.x.length = n ∧ s.r = resid A b s.x ∧ s.z = mv M s.r ∧ s.rz = dotc s.r s.z

theorem sd_next (hM : M.length = n) (s s' : SdSt K)
    (hs : SdInv A M b n s) (h : sdStep A M b s = .next s') : SdInv A M b n s' := by
  obtain ⟨hx, hr, hz, hrz⟩ := hs
  have hzl : s.z.length = n := by rw [hz]; simp; exact hM
  simp only [sdStep] at h
  split_ifs at h <;> cases h
  · exact ⟨by simp; omega, rfl, rfl, rfl⟩
  · exact ⟨by simp; omega, by rw [hr]; exact (resid_axpy _ A b s.z s.x (by omega)).symm, rfl, rfl⟩

theorem sd_truthful (x0 : Vec K) (c : Crit) (tol2 : Rat) (maxiter : Nat) (hm : 1 ≤ maxiter)
    (hM : M.length = n) (hx : x0.length = n) :
    Truthful (steepestDescent A M b x0 c tol2 maxiter) x0 maxiter (trueRes2 A b)
      (critOf c (mkThr A M b tol2) A M b) :=
  run_truthful (sdAlg A M b c (mkThr A M b tol2)) maxiter (sdInit A M b x0) (SdInv A M b n)
    (trueRes2 A b) (critOf c (mkThr A M b tol2) A M b) hm
    ⟨hx, rfl, rfl, rfl⟩
    (fun s s' hs h => sd_next A M b n hM s s' hs h)
    (fun s s' _ h => by
      exfalso
      simp only [sdAlg, sdStep] at h
      split_ifs at h <;> cases h)
    (fun s hs => by obtain ⟨_, hr, _, _⟩ := hs; simp [sdAlg, trueRes2, hr])
    (fun s hs => by
      obtain ⟨_, hr, hz, hrz⟩ := hs
      simp only [sdAlg, critOf]
      rw [hrz, hz, hr])
end sd

/-! ### minimal residual -/
section mr
variable (A M : Mat K) (b : Vec K) (n : Nat)

def MrInv (s : MrSt K) : Prop := s.x.length = n ∧ s.z = mv M (resid A b s.x)

theorem mr_next (hA : A.length = n) (hM : M.length = n) (hb : b.length = n) (s s' : MrSt K)
    (hs : MrInv A M b n s) (h : mrStep A M b s = .next s') : MrInv A M b n s' := by
  obtain ⟨hx, hz⟩ := hs
  have hzl : s.z.length = n := by rw [hz]; simp; exact hM
  simp only [mrStep] at h
  split_ifs at h <;> cases h
  · exact ⟨by simp; omega, rfl⟩
  · refine ⟨by simp; omega, ?_⟩
    show axmy _ (mv M (mv A s.z)) s.z = mv M (resid A b (axpy _ s.z s.x))
    rw [resid_axpy _ A b s.z s.x (by omega), mv_axmy _ M _ _ (by simp; omega), ← hz]

theorem mr_truthful (x0 : Vec K) (tol2 : Rat) (maxiter : Nat) (hm : 1 ≤ maxiter)
    (hA : A.length = n) (hM : M.length = n) (hb : b.length = n) (hx : x0.length = n) :
    Truthful (minimalResidual A M b x0 tol2 maxiter) x0 maxiter (truePRes2 A M b)
      (critMR (mrThr2 M b tol2) A M b) :=
  run_truthful (mrAlg A M b (mrThr2 M b tol2)) maxiter (mrInit A M b x0) (MrInv A M b n)
    (truePRes2 A M b) (critMR (mrThr2 M b tol2) A M b) hm
    ⟨hx, rfl⟩
    (fun s s' hs h => mr_next A M b n hA hM hb s s' hs h)
    (fun s s' _ h => by
      exfalso
      simp only [mrAlg, mrStep] at h
      split_ifs at h <;> cases h)
    (fun s hs => by obtain ⟨_, hz⟩ := hs; simp [mrAlg, truePRes2, hz])
    (fun s hs => by
      obtain ⟨_, hz⟩ := hs
      obtain ⟨x, z, it⟩ := s
      simp only at hz
      subst hz
      rfl)
end mr

/-! ### BiCGStab (systems with `n ≥ 2`; the one-dimensional shortcut is a known finding) -/
section bi
variable (A M : Mat K) (b : Vec K) (n : Nat)

def BiInv (s : BiSt K) : Prop := s.x.length = n ∧ s.p.length = n ∧ s.r = resid A b s.x

theorem bi_step (hA : A.length = n) (hM : M.length = n) (hb : b.length = n) (c : Crit) (t : Thr)
    (s : BiSt K) (hs : BiInv A b n s) :
    (∀ s', biStep A M c t s = .next s' → BiInv A b n s') ∧
    (∀ s', biStep A M c t s = .fin s' → BiInv A b n s' ∧ test c t s'.x s'.r s'.r 0 = true) := by
  obtain ⟨hx, hp, hr⟩ := hs
  have hrl : s.r.length = n := by rw [hr]; simp; omega
  have hhalf : axmy (s.rr / dotc s.rstar (mv A (mv M s.p))) (mv A (mv M s.p)) s.r =
      resid A b (axpy (s.rr / dotc s.rstar (mv A (mv M s.p))) (mv M s.p) s.x) := by
    rw [hr]; exact (resid_axpy _ A b (mv M s.p) s.x (by simp; omega)).symm
  constructor
  · intro s' h
    simp only [biStep] at h
    split_ifs at h <;> cases h
    refine ⟨by simp; omega, ?_, ?_⟩
    · simp; omega
    · show axmy _ (mv A (mv M _)) _ = resid A b (axpy _ (mv M _) (axpy _ (mv M s.p) s.x))
      rw [resid_axpy _ A b _ _ (by simp; omega), ← hhalf]
  · intro s' h
    simp only [biStep] at h
    split_ifs at h with h1 h2 <;> cases h
    exact ⟨⟨by simp; omega, hp, hhalf⟩, h2⟩

theorem bicgstab_truthful (x0 : Vec K) (c : Crit) (tol2 : Rat) (maxiter : Nat) (hm : 1 ≤ maxiter)
    (hn : 2 ≤ n) (hA : A.length = n) (hM : M.length = n) (hb : b.length = n) (hx : x0.length = n) :
    Truthful (bicgstab A M b x0 c tol2 maxiter) x0 maxiter (trueRes2 A b)
      (critBi c (mkThr A M b tol2) A b) := by
  have hshort : bicgstab A M b x0 c tol2 maxiter =
      run (biAlg A M c (mkThr A M b tol2)) maxiter (biInit A b x0) := by
    unfold bicgstab
    match A, b, hA, hb with
    | [[a]], [b0], hA, _ => simp at hA; omega
    | [], _, hA, _ => simp at hA; omega
    | [] :: _, _, _, _ => rfl
    | (_ :: _ :: _) :: _, _, _, _ => rfl
    | [_] :: _ :: _, _, _, _ => rfl
    | [[_]], [], _, hb => simp at hb; omega
    | [[_]], _ :: _ :: _, _, _ => rfl
  rw [hshort]
  exact run_truthful (biAlg A M c (mkThr A M b tol2)) maxiter (biInit A b x0) (BiInv A b n)
    (trueRes2 A b) (critBi c (mkThr A M b tol2) A b) hm
    ⟨hx, by simp [biInit]; omega, rfl⟩
    (fun s s' hs h => (bi_step A M b n hA hM hb c _ s hs).1 s' h)
    (fun s s' hs h => by
      obtain ⟨h1, h2⟩ := (bi_step A M b n hA hM hb c _ s hs).2 s' h
      exact ⟨h1, h2⟩)
    (fun s hs => by obtain ⟨_, _, hr⟩ := hs; simp [biAlg, trueRes2, hr])
    (fun s hs => by
      obtain ⟨_, _, hr⟩ := hs
      simp only [biAlg, critBi]
      rw [hr])
end bi

end PyamgV.C06
