import PyamgV.Proofs.GramSchmidt

/-! PyamgV (C10): the whole per-aggregate loop of `fit_candidates_common`
(smoothed_aggregation.h:517-609): modified Gram–Schmidt over the `K2` candidate columns of one
aggregate with the relative drop test. Proved for any number of columns:

* the computed columns are pairwise orthogonal with squared norm 0 or 1 (`TᵀT = I` up to
  dropped columns), and
* every candidate column is reproduced exactly, `b_j = Σ_{i<j} R[i,j] q_i + R[j,j] q_j + drop_j`,
  where `drop_j` is the remainder the kernel discarded (zero unless the column was dropped; a
  dropped remainder has norm ≤ tol·‖b_j‖). Hence `T·B_coarse = B` exactly whenever no non-zero
  remainder is dropped — the rank-deficient case the property mentions. -/
namespace PyamgV.GS

variable {K : Type*} [Field K] [LinearOrder K] [IsStrictOrderedRing K]
variable {V : Type*} [AddCommGroup V] [Module K V]

/-- result for one aggregate: new columns, `R` column by column (off-diagonal part, diagonal
entry), and what was discarded -/
structure Out (K V : Type*) where
  q : List V
  r : List (List K × K)
  drop : List V

def mgs (e : EForm K V) (sqrt : K → K) (tol : K) : List V → List V → Out K V
  | [], _ => ⟨[], [], []⟩
  | b :: bs, qs =>
    let o := orth e qs b
    let c := newCol e sqrt (tol * sqrt (e.a b b)) o.1
    let rest := mgs e sqrt tol bs (qs ++ [c.1])
    ⟨c.1 :: rest.q, (o.2, c.2) :: rest.r, (o.1 - c.2 • c.1) :: rest.drop⟩

/-- reconstruction `T·R` column by column -/
def recon : List V → List V → List (List K × K) → List V → List V
  | qs, c :: cs, (co, d) :: rs, dr :: drs => (comb co qs + d • c + dr) :: recon (qs ++ [c]) cs rs drs
  | _, _, _, _ => []

theorem ONZ_append (e : EForm K V) (qs : List V) (c : V) (h : ONZ e qs)
    (hc : e.a c c = 0 ∨ e.a c c = 1) (hq : ∀ q ∈ qs, e.a c q = 0) : ONZ e (qs ++ [c]) := by
  induction qs with
  | nil => exact ⟨hc, fun p hp => by simp at hp, trivial⟩
  | cons q qs ih =>
    obtain ⟨h1, h2, h3⟩ := h
    refine ⟨h1, ?_, ih h3 (fun p hp => hq p (by simp [hp]))⟩
    intro p hp
    rcases List.mem_append.1 hp with hp | hp
    · exact h2 p hp
    · have : p = c := by simpa using hp
      rw [this, e.symm]; exact hq q (by simp)

theorem mgs_spec (e : EForm K V) (hdef : ∀ v, e.a v v = 0 → v = 0) (sqrt : K → K)
    (hsq : ∀ a, 0 ≤ a → sqrt a * sqrt a = a) (hsq0 : ∀ a, 0 ≤ sqrt a) (tol : K) (htol : 0 ≤ tol) :
    ∀ (bs qs : List V), ONZ e qs →
      ONZ e (qs ++ (mgs e sqrt tol bs qs).q) ∧
      (mgs e sqrt tol bs qs).q.length = bs.length ∧
      recon qs (mgs e sqrt tol bs qs).q (mgs e sqrt tol bs qs).r (mgs e sqrt tol bs qs).drop = bs ∧
      (∀ d ∈ (mgs e sqrt tol bs qs).drop, d = 0 ∨
        ∃ b ∈ bs, sqrt (e.a d d) ≤ tol * sqrt (e.a b b)) := by
  intro bs
  induction bs with
  | nil => intro qs h; simp [mgs, recon, h]
  | cons b bs ih =>
    intro qs h
    have hz : ∀ q ∈ qs, e.a q q = 0 → q = 0 := fun q _ hq => hdef q hq
    obtain ⟨o1, o2, o3⟩ := orth_spec e qs b h hz
    have hthr : 0 ≤ tol * sqrt (e.a b b) := mul_nonneg htol (hsq0 _)
    obtain ⟨c1, c2, c3⟩ := newCol_spec e sqrt hsq (tol * sqrt (e.a b b)) hthr (orth e qs b).1 qs o2
    have hON := ONZ_append e qs _ h c1 c2
    obtain ⟨i1, i2, i3, i4⟩ := ih (qs ++ [(newCol e sqrt (tol * sqrt (e.a b b)) (orth e qs b).1).1]) hON
    simp only [mgs]
    refine ⟨?_, ?_, ?_, ?_⟩
    · rw [List.append_assoc] at i1; exact i1
    · simp [i2]
    · simp only [recon]
      rw [i3]
      congr 1
      conv_rhs => rw [o1]
      abel
    · intro d hd
      rcases List.mem_cons.1 hd with hd | hd
      · subst hd
        rcases c3 with h1 | ⟨h1, h2, h3⟩
        · left; rw [h1]; simp
        · right
          refine ⟨b, by simp, ?_⟩
          rw [h1, h2]; simpa using h3
      · rcases i4 d hd with h0 | ⟨b', hb', hle⟩
        · exact Or.inl h0
        · exact Or.inr ⟨b', by simp [hb'], hle⟩

#print axioms mgs_spec
end PyamgV.GS
