import PyamgV.Model.ExtC06Gmres

/-! PyamgV (C06, extension E16): the control flow `gRun` of the complete GMRES models (`Model/ExtC06Gmres.lean`)
turns the invariant "a recorded estimate is the residual norm of the iterate handed to `callback`" (`EstOK`) into
the C06 clauses `GTruthful`.  The invariant is only needed where the code uses it: for a cycle started at an iterate
that failed the convergence test, at an inner iteration whose estimate is *not* below the threshold (that is when the
estimate is appended).  Core Lean only. -/
namespace PyamgV.ExtC06
open PyamgV.C07 (iter)

variable {K V S : Type} (eng : GEng K V S) (lt : K → K → Bool) (abs : K → K) (thr : K)

/-- the state after `i` inner iterations of the cycle started at `x` -/
def stI (x : V) (i : Nat) : S := iter (eng.step x) i (eng.start x)

/-- the estimate after `i` inner iterations is the residual norm of the iterate that goes with it -/
def EstOK (x : V) (i : Nat) : Prop := abs (eng.est (stI eng x i)) = eng.resn (eng.cur x (stI eng x i))

/-- the invariant where the code relies on it -/
def EstInv (maxInner : Nat) : Prop :=
  ∀ x, lt (eng.resn x) thr = false → ∀ i, 1 ≤ i → i < maxInner →
    lt (abs (eng.est (stI eng x i))) thr = false → EstOK eng abs x i

theorem gInner_spec (maxInner : Nat) (x : V)
    (hE : ∀ i, 1 ≤ i → i < maxInner → lt (abs (eng.est (stI eng x i))) thr = false → EstOK eng abs x i) :
    ∀ (fuel inner : Nat) (s : S) (hist : List K) (log : List V), inner + fuel = maxInner → s = stI eng x inner →
      hist = log.map eng.resn → log.length = inner →
      (gInner eng lt abs thr maxInner x fuel inner s hist log).s =
          stI eng x (gInner eng lt abs thr maxInner x fuel inner s hist log).k ∧
        (gInner eng lt abs thr maxInner x fuel inner s hist log).hist =
          (gInner eng lt abs thr maxInner x fuel inner s hist log).log.map eng.resn ∧
        (gInner eng lt abs thr maxInner x fuel inner s hist log).k ≤ maxInner ∧
        (1 ≤ fuel → (gInner eng lt abs thr maxInner x fuel inner s hist log).log.length + 1 =
          (gInner eng lt abs thr maxInner x fuel inner s hist log).k) := by
  intro fuel
  induction fuel with
  | zero =>
    intro inner s hist log h1 h2 h3 h4
    exact ⟨h2, h3, by show inner ≤ maxInner; omega, fun h => absurd h (by omega)⟩
  | succ fuel ih =>
    intro inner s hist log h1 h2 h3 h4
    have hs' : eng.step x s = stI eng x (inner + 1) := by rw [h2]; rfl
    by_cases hlast : inner + 1 < maxInner
    · by_cases hbrk : lt (abs (eng.est (eng.step x s))) thr = true
      · have : gInner eng lt abs thr maxInner x (fuel + 1) inner s hist log =
            ⟨eng.step x s, inner + 1, hist, log⟩ := by
          simp only [gInner, hlast, if_true, hbrk]
        rw [this]
        exact ⟨hs', h3, by show inner + 1 ≤ maxInner; omega, fun _ => by show log.length + 1 = inner + 1; omega⟩
      · have hbf : lt (abs (eng.est (eng.step x s))) thr = false := by simpa using hbrk
        have : gInner eng lt abs thr maxInner x (fuel + 1) inner s hist log =
            gInner eng lt abs thr maxInner x fuel (inner + 1) (eng.step x s)
              (hist ++ [abs (eng.est (eng.step x s))]) (log ++ [eng.cur x (eng.step x s)]) := by
          simp only [gInner, hlast, if_true, hbf, Bool.false_eq_true, if_false]
        rw [this]
        have hest : abs (eng.est (eng.step x s)) = eng.resn (eng.cur x (eng.step x s)) := by
          have := hE (inner + 1) (by omega) hlast (by rw [← hs']; exact hbf)
          unfold EstOK at this
          rw [← hs'] at this; exact this
        obtain ⟨a1, a2, a3, a4⟩ := ih (inner + 1) (eng.step x s) (hist ++ [abs (eng.est (eng.step x s))])
          (log ++ [eng.cur x (eng.step x s)]) (by omega) hs'
          (by rw [h3, hest]; simp) (by simp [h4])
        exact ⟨a1, a2, a3, fun _ => a4 (by omega)⟩
    · have : gInner eng lt abs thr maxInner x (fuel + 1) inner s hist log =
          ⟨eng.step x s, inner + 1, hist, log⟩ := by
        simp only [gInner, hlast, if_false]
      rw [this]
      exact ⟨hs', h3, by show inner + 1 ≤ maxInner; omega, fun _ => by show log.length + 1 = inner + 1; omega⟩

/-- one cycle: the recorded estimates are the residual norms of the recorded iterates; `k − 1` of them -/
theorem gCycle_spec (maxInner : Nat) (hI : 1 ≤ maxInner) (x : V)
    (hE : ∀ i, 1 ≤ i → i < maxInner → lt (abs (eng.est (stI eng x i))) thr = false → EstOK eng abs x i) :
    (gCycle eng lt abs thr maxInner x).s = stI eng x (gCycle eng lt abs thr maxInner x).k ∧
    (gCycle eng lt abs thr maxInner x).hist = (gCycle eng lt abs thr maxInner x).log.map eng.resn ∧
    (gCycle eng lt abs thr maxInner x).k ≤ maxInner ∧
    (gCycle eng lt abs thr maxInner x).log.length + 1 = (gCycle eng lt abs thr maxInner x).k := by
  obtain ⟨a1, a2, a3, a4⟩ := gInner_spec eng lt abs thr maxInner x hE maxInner 0 (eng.start x) [] []
    (by omega) rfl rfl rfl
  exact ⟨a1, a2, a3, a4 hI⟩

variable (stag : V → V → Bool)

theorem gOuter_spec (maxInner : Nat) (hI : 1 ≤ maxInner) (hE : EstInv eng lt abs thr maxInner) (x0 : V) :
    ∀ (fuel : Nat) (x : V) (hist : List K) (log : List V) (niter : Nat),
      lt (eng.resn x) thr = false → hist = (x0 :: log).map eng.resn → (x0 :: log).getLast? = some x →
      niter = log.length →
      (gOuter eng lt abs thr stag maxInner fuel x hist log niter).hist =
          (x0 :: (gOuter eng lt abs thr stag maxInner fuel x hist log niter).log).map eng.resn ∧
        (x0 :: (gOuter eng lt abs thr stag maxInner fuel x hist log niter).log).getLast? =
          some (gOuter eng lt abs thr stag maxInner fuel x hist log niter).x ∧
        (gOuter eng lt abs thr stag maxInner fuel x hist log niter).log.length ≤ log.length + fuel * maxInner ∧
        (1 ≤ fuel → log.length + 1 ≤ (gOuter eng lt abs thr stag maxInner fuel x hist log niter).log.length) ∧
        ((gOuter eng lt abs thr stag maxInner fuel x hist log niter).status = -1 ∨
          ((gOuter eng lt abs thr stag maxInner fuel x hist log niter).status = 0 ∧
            lt (eng.resn (gOuter eng lt abs thr stag maxInner fuel x hist log niter).x) thr = true) ∨
          ((gOuter eng lt abs thr stag maxInner fuel x hist log niter).status =
              ((gOuter eng lt abs thr stag maxInner fuel x hist log niter).niter : Int) ∧
            lt (eng.resn (gOuter eng lt abs thr stag maxInner fuel x hist log niter).x) thr = false)) ∧
        (gOuter eng lt abs thr stag maxInner fuel x hist log niter).niter =
          (gOuter eng lt abs thr stag maxInner fuel x hist log niter).log.length := by
  intro fuel
  induction fuel with
  | zero =>
    intro x hist log niter hx hh hl hn
    have : gOuter eng lt abs thr stag maxInner 0 x hist log niter = ⟨x, (niter : Int), hist, log, niter⟩ := rfl
    rw [this]
    exact ⟨hh, hl, by simp, fun h => absurd h (by omega), Or.inr (Or.inr ⟨rfl, hx⟩), hn⟩
  | succ fuel ih =>
    intro x hist log niter hx hh hl hn
    obtain ⟨_, c2, c3, c4⟩ := gCycle_spec eng lt abs thr maxInner hI x (hE x hx)
    generalize hc : gCycle eng lt abs thr maxInner x = c at c2 c3 c4
    -- the bookkeeping after the cycle
    have hh' : hist ++ c.hist ++ [eng.resn (eng.cur x c.s)] =
        (x0 :: (log ++ c.log ++ [eng.cur x c.s])).map eng.resn := by
      rw [hh, c2]; simp
    have hl' : (x0 :: (log ++ c.log ++ [eng.cur x c.s])).getLast? = some (eng.cur x c.s) := by
      rw [← List.cons_append, List.getLast?_append]; simp
    have hlen : (log ++ c.log ++ [eng.cur x c.s]).length = log.length + c.k := by
      simp only [List.length_append, List.length_singleton]; omega
    have hmul : (fuel + 1) * maxInner = fuel * maxInner + maxInner := by
      rw [Nat.add_mul]; simp
    have hni : niter + c.k = (log ++ c.log ++ [eng.cur x c.s]).length := by rw [hlen, hn]
    by_cases hs : stag x (eng.cur x c.s) = true
    · have : gOuter eng lt abs thr stag maxInner (fuel + 1) x hist log niter =
          ⟨eng.cur x c.s, -1, hist ++ c.hist ++ [eng.resn (eng.cur x c.s)], log ++ c.log ++ [eng.cur x c.s],
            niter + c.k⟩ := by
        simp only [gOuter, hc, hs, if_true]
      rw [this]
      exact ⟨hh', hl', by rw [hlen, hmul]; omega, fun _ => by rw [hlen]; omega, Or.inl rfl, hni⟩
    · have hsf : stag x (eng.cur x c.s) = false := by simpa using hs
      by_cases hr : lt (eng.resn (eng.cur x c.s)) thr = true
      · have : gOuter eng lt abs thr stag maxInner (fuel + 1) x hist log niter =
            ⟨eng.cur x c.s, 0, hist ++ c.hist ++ [eng.resn (eng.cur x c.s)], log ++ c.log ++ [eng.cur x c.s],
              niter + c.k⟩ := by
          simp only [gOuter, hc, hsf, hr, if_true, Bool.false_eq_true, if_false]
        rw [this]
        exact ⟨hh', hl', by rw [hlen, hmul]; omega, fun _ => by rw [hlen]; omega, Or.inr (Or.inl ⟨rfl, hr⟩), hni⟩
      · have hrf : lt (eng.resn (eng.cur x c.s)) thr = false := by simpa using hr
        have : gOuter eng lt abs thr stag maxInner (fuel + 1) x hist log niter =
            gOuter eng lt abs thr stag maxInner fuel (eng.cur x c.s)
              (hist ++ c.hist ++ [eng.resn (eng.cur x c.s)]) (log ++ c.log ++ [eng.cur x c.s]) (niter + c.k) := by
          simp only [gOuter, hc, hsf, hrf, Bool.false_eq_true, if_false]
        rw [this]
        obtain ⟨e1, e2, e3, e4, e5, e6⟩ := ih (eng.cur x c.s) _ _ _ hrf hh' hl' hni
        refine ⟨e1, e2, by rw [hlen] at e3; rw [hmul]; omega, fun _ => ?_, e5, e6⟩
        cases fuel with
        | zero =>
          show log.length + 1 ≤ (log ++ c.log ++ [eng.cur x c.s]).length
          rw [hlen]; omega
        | succ f => have := e4 (by omega); rw [hlen] at this; omega

/-- **the C06 clauses for the complete GMRES models, from the estimate invariant** -/
theorem gRun_truthful (d : C06.GDims) (hI : 1 ≤ d.maxInner) (hO : 1 ≤ d.maxOuter)
    (hE : EstInv eng lt abs thr d.maxInner) (x0 : V) :
    GTruthful (gRun eng lt abs thr stag d x0) x0 eng.resn (fun x => lt (eng.resn x) thr) d := by
  by_cases h0 : lt (eng.resn x0) thr = true
  · have : gRun eng lt abs thr stag d x0 = ⟨x0, 0, [eng.resn x0], [], 0⟩ := by
      simp only [gRun, h0, if_true]
    rw [this]
    exact ⟨rfl, rfl, Nat.zero_le _, Or.inr (Or.inl ⟨rfl, h0⟩), fun _ => h0,
      fun h => absurd h (by show ¬ (0 : Int) < 0; decide), rfl, fun _ => rfl,
      fun h => by rw [h0] at h; exact absurd h (by decide)⟩
  · have h0f : lt (eng.resn x0) thr = false := by simpa using h0
    have : gRun eng lt abs thr stag d x0 =
        gOuter eng lt abs thr stag d.maxInner d.maxOuter x0 [eng.resn x0] [] 0 := by
      simp only [gRun, h0f, Bool.false_eq_true, if_false]
    rw [this]
    obtain ⟨e1, e2, e3, e4, e5, e6⟩ := gOuter_spec eng lt abs thr stag d.maxInner hI hE x0 d.maxOuter x0
      [eng.resn x0] [] 0 h0f rfl rfl rfl
    have e4' := e4 hO
    generalize gOuter eng lt abs thr stag d.maxInner d.maxOuter x0 [eng.resn x0] [] 0 = o at e1 e2 e3 e4' e5 e6
    refine ⟨e1, e2, by simpa using e3, e5, ?_, ?_, e6, fun h => by rw [h0f] at h; exact absurd h (by decide),
      fun _ => by simpa using e4'⟩
    · intro hz
      rcases e5 with h | h | ⟨h, h'⟩
      · rw [hz] at h; exact absurd h (by decide)
      · exact h.2
      · exfalso
        have hn : o.niter = 0 := by rw [hz] at h; exact_mod_cast h.symm
        simp at e4'
        omega
    · intro hp
      rcases e5 with h | h | h
      · rw [h] at hp; exact absurd hp (by decide)
      · rw [h.1] at hp; exact absurd hp (by decide)
      · exact ⟨h.2, h.1⟩

/-! ### transport along a map that commutes with the engine (module instance → the `Vector` instance) -/
section hom
variable {W T : Type}

structure EngHom (φ : V → W) (ψ : S → T) (ev : GEng K V S) (ew : GEng K W T) : Prop where
  start : ∀ x, ψ (ev.start x) = ew.start (φ x)
  step : ∀ x s, ψ (ev.step x s) = ew.step (φ x) (ψ s)
  est : ∀ s, ev.est s = ew.est (ψ s)
  cur : ∀ x s, φ (ev.cur x s) = ew.cur (φ x) (ψ s)
  resn : ∀ x, ev.resn x = ew.resn (φ x)

theorem stI_hom {φ : V → W} {ψ : S → T} {ev : GEng K V S} {ew : GEng K W T} (H : EngHom φ ψ ev ew) (x : V) :
    ∀ i, ψ (stI ev x i) = stI ew (φ x) i
  | 0 => H.start x
  | i+1 => by
    show ψ (ev.step x (stI ev x i)) = ew.step (φ x) (stI ew (φ x) i)
    rw [H.step, stI_hom H x i]

/-- the estimate invariant is inherited from the image -/
theorem estInv_hom {φ : V → W} {ψ : S → T} {ev : GEng K V S} {ew : GEng K W T} (H : EngHom φ ψ ev ew)
    (maxInner : Nat) (h : EstInv ew lt abs thr maxInner) : EstInv ev lt abs thr maxInner := by
  intro x hx i h1 hi hlt
  unfold EstOK
  rw [H.est, stI_hom H, H.resn, H.cur, stI_hom H]
  exact h (φ x) (by rw [← H.resn]; exact hx) i h1 hi (by rw [← stI_hom H, ← H.est]; exact hlt)
end hom

end PyamgV.ExtC06
