import PyamgV.Proofs.C03Sem

/-! PyamgV (C03): the property theorems about the executable model `Model/C03Cyc.lean`
(`cycM`, `cycT`, `solveM`, `precM`, `mopM`, `traceM` -- the definitions the driver runs). -/
namespace PyamgV.C03
open PyamgV

/-- **one cycle is `x ← x + M (b − A x)`** with `M = mopM` -- a matrix computed from the hierarchy
data and the cycle type alone; for every shape, cycle type and `cycles_per_level`. -/
theorem cycM_affine (S : Mat) (c : Cyc) (cpl : Nat) (L : Lvl) (Ls : List Lvl) (x b : Vec) :
    sem (cycM S c cpl (L :: Ls) x b) =
      sem x + msem (mopM S c cpl (L :: Ls)) (sem b - msem L.A (sem x)) := by
  rw [cycM_sem, map_toLevel, msem_mopM]
  exact cycL_isLinIter (msem S) (Ls.map absLvl) (ctype c cpl) (absLvl L) (wfls (L :: Ls))
    (sem x) (sem b)

/-- the exact solution is a fixed point of a cycle -/
theorem cycM_fixed_point (S : Mat) (c : Cyc) (cpl : Nat) (L : Lvl) (Ls : List Lvl) (xs b : Vec)
    (hb : msem L.A (sem xs) = sem b) : sem (cycM S c cpl (L :: Ls) xs b) = sem xs := by
  rw [cycM_affine, hb]; simp

/-- a cycle from the zero guess applies `M` -/
theorem cycM_zero (S : Mat) (c : Cyc) (cpl : Nat) (L : Lvl) (Ls : List Lvl) (n : Nat) (b : Vec) :
    sem (cycM S c cpl (L :: Ls) (zeros n) b) = msem (mopM S c cpl (L :: Ls)) (sem b) := by
  rw [cycM_affine, sem_zeros]; simp

/-! ## the outer loop -/

theorem loopM_one (step : Vec → Vec) (stop : Vec → Bool) (x : Vec) :
    loopM step stop 1 x = step x := by
  simp [loopM]

/-- a `maxiter = k` call that is not stopped early by the residual test performs `k` steps -/
theorem loopM_eq_iterN (step : Vec → Vec) (stop : Vec → Bool) :
    ∀ (k : Nat) (x : Vec), (∀ j, 1 ≤ j → j ≤ k → stop (iterN step j x) = false) →
      loopM step stop (k + 1) x = iterN step (k + 1) x := by
  intro k
  induction k with
  | zero => intro x _; simp [loopM, iterN]
  | succ k ih =>
    intro x h
    have h1 : stop (step x) = false := by simpa [iterN] using h 1 (Nat.le_refl 1) (by omega)
    have h2 := ih (step x) (fun j hj hjk => by
      have := h (j + 1) (by omega) (by omega)
      simpa [iterN] using this)
    rw [loopM]
    simp only [h1, Bool.false_eq_true, if_false, Nat.add_eq_zero_iff, one_ne_zero, and_false]
    rw [h2]; rfl

theorem iterN_congr {α : Type} (f g : α → α) (h : ∀ x, f x = g x) (k : Nat) (x : α) :
    iterN f k x = iterN g k x := by
  induction k generalizing x with
  | zero => rfl
  | succ k ih => simp [iterN, h, ih]

/-- **k one-cycle calls equal one k-cycle call** (whatever tolerance the one-cycle calls use),
provided the residual test of the k-cycle call does not stop it before the k-th cycle -/
theorem solveM_k_calls (S : Mat) (c : Cyc) (cpl : Nat) (Ls : List Lvl) (stop stop₁ : Vec → Bool)
    (b x0 : Vec) (k : Nat)
    (h : ∀ j, 1 ≤ j → j ≤ k → stop (iterN (stepM S c cpl Ls b) j x0) = false) :
    iterN (fun x => solveM S c cpl Ls stop₁ 1 b x) (k + 1) x0 =
      solveM S c cpl Ls stop (k + 1) b x0 := by
  unfold solveM
  rw [loopM_eq_iterN _ _ k x0 h]
  exact iterN_congr _ _ (fun x => loopM_one _ _ x) _ _

/-- a one-level hierarchy: the "cycle" is the coarse solve of `(A, b)`; it has the form
`x + S (b − A x)` when the solver inverts `A` (`S A = I`) -/
theorem oneLevel_affine (S A : Mat) (c : Cyc) (cpl : Nat) (x b : Vec)
    (hS : msem S ∘ₗ msem A = LinearMap.id) :
    sem (stepM S c cpl [] b x) = sem x + msem S (sem b - msem A (sem x)) := by
  have h2 : msem S (msem A (sem x)) = sem x := by
    have := congrArg (fun f => f (sem x)) hS
    simpa using this
  simp [stepM, sem_matVec, map_sub, h2]

/-! ## the preconditioner -/

/-- **`aspreconditioner(cycle)` is the linear map `M` of the requested cycle type**
(`cycles_per_level = 1`), whatever the tolerance test does -/
theorem precM_eq (S : Mat) (c : Cyc) (L : Lvl) (Ls : List Lvl) (stop : Vec → Bool) (v : Vec) :
    sem (precM S c (L :: Ls) stop v) = msem (mopM S c 1 (L :: Ls)) (sem v) := by
  simp only [precM, solveM, loopM_one, stepM]
  exact cycM_zero S c 1 L Ls _ v

theorem precM_one_level (S : Mat) (c : Cyc) (stop : Vec → Bool) (v : Vec) :
    sem (precM S c [] stop v) = msem S (sem v) := by
  simp only [precM, solveM, loopM_one, stepM, sem_matVec]

/-- additivity and homogeneity of the preconditioner -/
theorem precM_additive (S : Mat) (c : Cyc) (Ls : List Lvl) (stop : Vec → Bool) (u v : Vec) :
    sem (precM S c Ls stop (vadd u v)) = sem (precM S c Ls stop u) + sem (precM S c Ls stop v) := by
  cases Ls with
  | nil => simp [precM_one_level, sem_vadd]
  | cons L Ls => simp [precM_eq, sem_vadd]

theorem precM_homogeneous (S : Mat) (c : Cyc) (Ls : List Lvl) (stop : Vec → Bool) (a : Rat) (v : Vec) :
    sem (precM S c Ls stop (vsmul a v)) = a • sem (precM S c Ls stop v) := by
  cases Ls with
  | nil => simp [precM_one_level, sem_vsmul]
  | cons L Ls => simp [precM_eq, sem_vsmul]

/-! ## order and number of visits -/

def nCoarse (t : List Ev) : Nat := t.count Ev.coarse

theorem count_flatten_replicate (a : Ev) (t : List Ev) (k : Nat) :
    (List.replicate k t).flatten.count a = k * t.count a := by
  induction k with
  | zero => simp
  | succ k ih => simp [List.replicate_succ, ih, Nat.succ_mul, Nat.add_comm]

theorem traceM_V_succ (cpl lvl m : Nat) : traceM .V cpl lvl (m + 2) =
    Ev.pre lvl :: (traceM .V 1 (lvl + 1) (m + 1) ++ [Ev.post lvl]) := rfl
theorem traceM_W_succ (cpl lvl m : Nat) : traceM .W cpl lvl (m + 2) =
    Ev.pre lvl :: ((traceM .W 1 (lvl + 1) (m + 1) ++ traceM .W 1 (lvl + 1) (m + 1)) ++ [Ev.post lvl]) := rfl
theorem traceM_F_succ (cpl lvl m : Nat) : traceM .F cpl lvl (m + 2) =
    Ev.pre lvl :: ((traceM .F cpl (lvl + 1) (m + 1) ++
      (List.replicate cpl (traceM .V 1 (lvl + 1) (m + 1))).flatten) ++ [Ev.post lvl]) := rfl
theorem traceM_one (c : Cyc) (cpl lvl : Nat) : traceM c cpl lvl 1 =
    [Ev.pre lvl, Ev.coarse, Ev.post lvl] := by cases c <;> rfl

theorem nCoarse_V (cpl lvl m : Nat) : nCoarse (traceM .V cpl lvl (m + 1)) = 1 := by
  induction m generalizing cpl lvl with
  | zero => simp [traceM_one, nCoarse]
  | succ m ih =>
    have := ih 1 (lvl + 1)
    simp only [nCoarse] at this ⊢
    rw [traceM_V_succ]; simp [this]

theorem nCoarse_W (cpl lvl m : Nat) : nCoarse (traceM .W cpl lvl (m + 1)) = 2 ^ m := by
  induction m generalizing cpl lvl with
  | zero => simp [traceM_one, nCoarse]
  | succ m ih =>
    have := ih 1 (lvl + 1)
    simp only [nCoarse] at this ⊢
    rw [traceM_W_succ]; simp [this]; omega

theorem nCoarse_F (cpl lvl m : Nat) : nCoarse (traceM .F cpl lvl (m + 1)) = 1 + cpl * m := by
  induction m generalizing lvl with
  | zero => simp [traceM_one, nCoarse]
  | succ m ih =>
    have h1 := ih (lvl + 1)
    have h2 := nCoarse_V 1 (lvl + 1) m
    simp only [nCoarse] at h1 h2 ⊢
    rw [traceM_F_succ]; simp [h1, h2, count_flatten_replicate, Nat.mul_succ]; omega

/-- on a two-level hierarchy all cycle types (and every `cycles_per_level`) are the same operator -/
theorem mopM_two_level (S : Mat) (c : Cyc) (cpl : Nat) (L : Lvl) :
    mopM S c cpl [L] = mopM S .V 1 [L] := by cases c <;> rfl

theorem cycM_two_level (S : Mat) (c : Cyc) (cpl : Nat) (L : Lvl) (x b : Vec) :
    cycM S c cpl [L] x b = cycM S .V 1 [L] x b := by cases c <;> rfl

theorem count_wrap (a : Ev) (lvl : Nat) (t : List Ev) (h1 : Ev.pre lvl ≠ a) (h2 : Ev.post lvl ≠ a) :
    (Ev.pre lvl :: (t ++ [Ev.post lvl])).count a = t.count a := by
  simp [List.count_cons, List.count_append, h1, h2]

theorem count_wrap_self (lvl : Nat) (t : List Ev) :
    (Ev.pre lvl :: (t ++ [Ev.post lvl])).count (Ev.pre lvl) = t.count (Ev.pre lvl) + 1 := by
  simp [List.count_cons, List.count_append]

/-- no smoother call of a level above the entry level -/
theorem pre_absent (j : Nat) : ∀ (m : Nat) (c : Cyc) (cpl lvl : Nat), j < lvl →
    (traceM c cpl lvl m).count (Ev.pre j) = 0 := by
  intro m
  induction m with
  | zero => intro c cpl lvl _; simp [traceM]
  | succ m ih =>
    intro c cpl lvl h
    have hne : ¬ (lvl = j) := by omega
    cases m with
    | zero => simp [traceM_one, hne]
    | succ m =>
      have h1 : ∀ c' cpl', (traceM c' cpl' (lvl + 1) (m + 1)).count (Ev.pre j) = 0 :=
        fun c' cpl' => ih c' cpl' (lvl + 1) (by omega)
      cases c with
      | V => rw [traceM_V_succ, count_wrap _ _ _ (by simp [hne]) (by simp)]; exact h1 _ _
      | W => rw [traceM_W_succ, count_wrap _ _ _ (by simp [hne]) (by simp), List.count_append, h1]
      | F => rw [traceM_F_succ, count_wrap _ _ _ (by simp [hne]) (by simp), List.count_append, h1,
               count_flatten_replicate, h1]; simp

/-- **visits of level `lvl + d` per cycle entered on level `lvl`** (`d < m`, `m` = number of
non-coarsest levels from `lvl` on): V: once; W: `2^d` (twice per visit of the next finer level);
F: `1 + cpl·d` (the F-cycle once, plus `cpl` V-cycles started on each of the `d` finer levels) -/
theorem visits_V : ∀ (m cpl lvl d : Nat), d < m →
    (traceM .V cpl lvl m).count (Ev.pre (lvl + d)) = 1 := by
  intro m
  induction m with
  | zero => intro _ _ d h; omega
  | succ m ih =>
    intro cpl lvl d h
    cases m with
    | zero => have : d = 0 := by omega
              subst this; simp [traceM_one]
    | succ m =>
      rw [traceM_V_succ]
      cases d with
      | zero => rw [Nat.add_zero, count_wrap_self, pre_absent lvl (m + 1) .V 1 (lvl + 1) (by omega)]
      | succ d =>
        have := ih 1 (lvl + 1) d (by omega)
        have e : lvl + (d + 1) = lvl + 1 + d := by omega
        rw [e, count_wrap _ _ _ (by simp; omega) (by simp)]; exact this

theorem visits_W : ∀ (m cpl lvl d : Nat), d < m →
    (traceM .W cpl lvl m).count (Ev.pre (lvl + d)) = 2 ^ d := by
  intro m
  induction m with
  | zero => intro _ _ d h; omega
  | succ m ih =>
    intro cpl lvl d h
    cases m with
    | zero => have : d = 0 := by omega
              subst this; simp [traceM_one]
    | succ m =>
      rw [traceM_W_succ]
      cases d with
      | zero => rw [Nat.add_zero, count_wrap_self, List.count_append,
                  pre_absent lvl (m + 1) .W 1 (lvl + 1) (by omega)]; rfl
      | succ d =>
        have := ih 1 (lvl + 1) d (by omega)
        have e : lvl + (d + 1) = lvl + 1 + d := by omega
        rw [e, count_wrap _ _ _ (by simp; omega) (by simp), List.count_append, this, Nat.pow_succ]; omega

theorem visits_F : ∀ (m cpl lvl d : Nat), d < m →
    (traceM .F cpl lvl m).count (Ev.pre (lvl + d)) = 1 + cpl * d := by
  intro m
  induction m with
  | zero => intro _ _ d h; omega
  | succ m ih =>
    intro cpl lvl d h
    cases m with
    | zero => have : d = 0 := by omega
              subst this; simp [traceM_one]
    | succ m =>
      rw [traceM_F_succ]
      cases d with
      | zero =>
        rw [Nat.add_zero, count_wrap_self, List.count_append, count_flatten_replicate,
          pre_absent lvl (m + 1) .F cpl (lvl + 1) (by omega),
          pre_absent lvl (m + 1) .V 1 (lvl + 1) (by omega)]
        simp
      | succ d =>
        have h1 := ih cpl (lvl + 1) d (by omega)
        have h2 := visits_V (m + 1) 1 (lvl + 1) d (by omega)
        have e : lvl + (d + 1) = lvl + 1 + d := by omega
        rw [e, count_wrap _ _ _ (by simp; omega) (by simp), List.count_append, count_flatten_replicate,
          h1, h2]; ring

theorem iterT_const {α β : Type} (f : α → α × List β) (g : α → α) (t : List β)
    (h : ∀ v, f v = (g v, t)) (k : Nat) (s : α × List β) :
    iterT f k s = (iterN g k s.1, s.2 ++ (List.replicate k t).flatten) := by
  induction k generalizing s with
  | zero => simp [iterT, iterN]
  | succ k ih => simp [iterT, iterN, ih, h, List.replicate_succ]

def coarseB (L : Lvl) (x b : Vec) : Vec :=
  matVec L.R (vsub b (matVec L.A (smooth L.A L.Qpre x b)))
def finish (L : Lvl) (x b cx : Vec) : Vec :=
  smooth L.A L.Qpost (vadd (smooth L.A L.Qpre x b) (matVec L.P cx)) b

/-- the instrumented cycle computes the same vector as `cycM` and makes its smoother and
coarse-solver calls exactly in the textbook order `traceM` -/
theorem cycT_spec (S : Mat) : ∀ (Ls : List Lvl) (c : Cyc) (cpl lvl : Nat) (L : Lvl) (x b : Vec),
    cycT S c cpl lvl (L :: Ls) x b =
      (cycM S c cpl (L :: Ls) x b, traceM c cpl lvl (Ls.length + 1)) := by
  intro Ls
  induction Ls with
  | nil => intro c cpl lvl L x b; cases c <;> rfl
  | cons L' rest ih =>
    intro c cpl lvl L x b
    cases c with
    | V =>
      have h1 : cycT S .V cpl lvl (L :: L' :: rest) x b =
          (finish L x b (cycT S .V 1 (lvl + 1) (L' :: rest) (zeros (coarseB L x b).length) (coarseB L x b)).1,
           Ev.pre lvl :: ((cycT S .V 1 (lvl + 1) (L' :: rest) (zeros (coarseB L x b).length) (coarseB L x b)).2
              ++ [Ev.post lvl])) := rfl
      rw [h1, ih]; rfl
    | W =>
      have h1 : cycT S .W cpl lvl (L :: L' :: rest) x b =
          (finish L x b (cycT S .W 1 (lvl + 1) (L' :: rest)
              (cycT S .W 1 (lvl + 1) (L' :: rest) (zeros (coarseB L x b).length) (coarseB L x b)).1
              (coarseB L x b)).1,
           Ev.pre lvl :: (((cycT S .W 1 (lvl + 1) (L' :: rest) (zeros (coarseB L x b).length) (coarseB L x b)).2 ++
              (cycT S .W 1 (lvl + 1) (L' :: rest)
                (cycT S .W 1 (lvl + 1) (L' :: rest) (zeros (coarseB L x b).length) (coarseB L x b)).1
                (coarseB L x b)).2) ++ [Ev.post lvl])) := rfl
      rw [h1, ih, ih]; rfl
    | F =>
      have h1 : cycT S .F cpl lvl (L :: L' :: rest) x b =
          (finish L x b (iterT (fun v => cycT S .V 1 (lvl + 1) (L' :: rest) v (coarseB L x b)) cpl
              (cycT S .F cpl (lvl + 1) (L' :: rest) (zeros (coarseB L x b).length) (coarseB L x b))).1,
           Ev.pre lvl :: ((iterT (fun v => cycT S .V 1 (lvl + 1) (L' :: rest) v (coarseB L x b)) cpl
              (cycT S .F cpl (lvl + 1) (L' :: rest) (zeros (coarseB L x b).length) (coarseB L x b))).2
              ++ [Ev.post lvl])) := rfl
      rw [h1, iterT_const _ (fun v => cycM S .V 1 (L' :: rest) v (coarseB L x b))
        (traceM .V 1 (lvl + 1) (rest.length + 1)) (fun v => ih .V 1 (lvl + 1) L' v _), ih]
      rfl

/-- error propagation of `k` cycles: `e ↦ e − M A e`, `k` times -/
theorem cycM_iter_error (S : Mat) (c : Cyc) (cpl : Nat) (L : Lvl) (Ls : List Lvl) (xs b : Vec)
    (hb : msem L.A (sem xs) = sem b) (k : Nat) (x : Vec) :
    sem xs - sem (iterN (fun x => cycM S c cpl (L :: Ls) x b) k x) =
      Nat.iterate (fun e => e - msem (mopM S c cpl (L :: Ls)) (msem L.A e)) k (sem xs - sem x) := by
  induction k generalizing x with
  | zero => rfl
  | succ k ih =>
    simp only [iterN, Nat.iterate]
    rw [ih, cycM_affine, ← hb]
    congr 1
    simp only [map_sub]
    abel

end PyamgV.C03
