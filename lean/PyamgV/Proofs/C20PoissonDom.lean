import PyamgV.Proofs.C20Poisson
import PyamgV.Proofs.C20Assembly

/-! PyamgV (C20): weak diagonal dominance of the Poisson matrices — every row sum is non-negative
(with the sign pattern of `poisson_entries`: `a_pp ≥ Σ_{q≠p} |a_pq|`), every dimension / grid shape. -/
namespace PyamgV.C20
open PyamgV.Stencil

theorem rowsum_eq_rowdot (T : List Triple) (p : Nat) : rowsum T p = rowdot T (fun _ => 1) p := by
  unfold rowsum rowdot; simp

theorem rowsum_none (l : List Triple) (p : Nat) (h : ∀ t ∈ l, t.1 ≠ p) : rowsum l p = 0 := by
  unfold rowsum
  apply sum_map_eq_zero
  intro t ht
  simp [h t ht]

/-- a `filterMap` over distinct column indices that can hit row `p` only from column `j0` contributes
the common value `v` to row `p` if it hits the row at all -/
theorem rowsum_filterMap (p j0 : Nat) (v : Rat) (F : Nat → Option Triple)
    (hF : ∀ j t, F j = some t → t.2.2 = v ∧ (t.1 = p → j = j0)) :
    ∀ l : List Nat, l.Nodup → (∃ t ∈ l.filterMap F, t.1 = p) → rowsum (l.filterMap F) p = v := by
  intro l
  induction l with
  | nil => intro _ h; simp at h
  | cons a l ih =>
    intro hnd hex
    have hnd' := (List.nodup_cons.1 hnd)
    cases hFa : F a with
    | none =>
      rw [List.filterMap_cons_none hFa] at hex ⊢
      exact ih hnd'.2 hex
    | some t =>
      rw [List.filterMap_cons_some hFa] at hex ⊢
      by_cases htp : t.1 = p
      · have ha : a = j0 := (hF a t hFa).2 htp
        have hrest : rowsum (l.filterMap F) p = 0 := by
          apply rowsum_none
          intro t' ht' hp'
          obtain ⟨j, hj, hFj⟩ := List.mem_filterMap.1 ht'
          have : j = j0 := (hF j t' hFj).2 hp'
          exact hnd'.1 (by rw [ha, ← this]; exact hj)
        unfold rowsum at hrest ⊢
        simp only [List.map_cons, List.sum_cons, htp, if_true, hrest, (hF a t hFa).1]
        simp
      · have hex' : ∃ t ∈ l.filterMap F, t.1 = p := by
          obtain ⟨t', ht', hp'⟩ := hex
          simp only [List.mem_cons] at ht'
          rcases ht' with rfl | ht'
          · exact absurd hp' htp
          · exact ⟨t', ht', hp'⟩
        have := ih hnd'.2 hex'
        unfold rowsum at this ⊢
        simp only [List.map_cons, List.sum_cons, htp, if_false, this]
        simp

/-- one stencil entry contributes its value to row `p` if the neighbour exists, else nothing -/
theorem rowsum_contrib (grid : List Nat) (off : List Int) (v : Rat) (p : Nat) :
    rowsum (contrib grid off v) p = if (∃ t ∈ contrib grid off v, t.1 = p) then v else 0 := by
  split
  · rename_i hex
    unfold contrib at hex ⊢
    simp only at hex ⊢
    split at hex
    · simp at hex
    · rename_i hd
      rw [if_neg hd]
      apply rowsum_filterMap p ((p : Int) + dot (strides grid) off).toNat v _ _ _ List.nodup_range hex
      intro j t hjt
      split at hjt
      · simp at hjt
      · split at hjt
        · simp only [Option.some.injEq] at hjt
          subst hjt
          refine ⟨rfl, ?_⟩
          intro h
          simp only at h
          omega
        · simp at hjt
  · rename_i hex
    apply rowsum_none
    intro t ht hp
    exact hex ⟨t, ht, hp⟩

theorem shift_refl_zero : ∀ (grid : List Nat) (off : List Int) (c : List Nat),
    InRange grid c → off.length = grid.length → (∀ o ∈ off, o = 0) → Shift grid off c c := by
  intro grid
  induction grid with
  | nil =>
    intro off c hc hl _
    cases off with
    | nil => cases c <;> simp [Shift, InRange] at hc ⊢
    | cons o os => simp at hl
  | cons g gs ih =>
    intro off c hc hl hz
    cases off with
    | nil => simp at hl
    | cons o os =>
      cases c with
      | nil => simp [InRange] at hc
      | cons a as =>
        simp only [InRange] at hc
        simp only [Shift]
        refine ⟨by have := hz o (by simp); omega, ih os as hc.2 (by simpa using hl) (fun o' ho' => hz o' (by simp [ho']))⟩

theorem rowsum_contrib_centre (grid : List Nat) (off : List Int) (v : Rat) (p : Nat) (hp : p < prod grid)
    (hl : off.length = grid.length) (hz : ∀ o ∈ off, o = 0) : rowsum (contrib grid off v) p = v := by
  rw [rowsum_contrib, if_pos]
  refine ⟨(p, p, v), ?_, rfl⟩
  rw [contrib_mem grid off v hl]
  exact ⟨rfl, hp, hp, shift_refl_zero grid off _ (lin_coordsR grid p hp).1 hl hz⟩

theorem rowsum_contrib_ge (grid : List Nat) (off : List Int) (p : Nat) : -1 ≤ rowsum (contrib grid off (-1)) p := by
  rw [rowsum_contrib]; split <;> norm_num

theorem rowsum_flatMap (grid : List Nat) (sten : List (List Int × Rat)) (p : Nat) :
    rowsum (stencilGrid grid sten) p = (sten.map fun ov => rowsum (contrib grid ov.1 ov.2) p).sum := by
  rw [stencilGrid_eq]; unfold rowsum; rw [sum_flatMap']

theorem sum_map_mono {α : Type} (l : List α) (f g : α → Rat) (h : ∀ e ∈ l, g e ≤ f e) :
    (l.map g).sum ≤ (l.map f).sum := by
  induction l with
  | nil => simp
  | cons a l ih =>
    simp only [List.map_cons, List.sum_cons]
    exact add_le_add (h a (by simp)) (ih (fun e he => h e (by simp [he])))

theorem sum_map_const {α : Type} (l : List α) (c : Rat) : (l.map fun _ => c).sum = c * l.length := by
  induction l with
  | nil => simp
  | cons a l ih => simp only [List.map_cons, List.sum_cons, ih, List.length_cons]; push_cast; ring

/-- **FD Poisson matrix: row sums are non-negative** (weak diagonal dominance) -/
theorem poissonFD_rowsum_nonneg (grid : List Nat) (p : Nat) (hp : p < prod grid) :
    0 ≤ rowsum (stencilGrid grid (poissonFD grid.length)) p := by
  rw [rowsum_flatMap]
  unfold poissonFD
  simp only [List.map_cons, List.sum_cons]
  rw [rowsum_contrib_centre grid _ _ p hp (by simp) (fun o ho => (List.mem_replicate.1 ho).2)]
  rw [sum_flatMap']
  have hge : ((List.range grid.length).map fun _ => (-2 : Rat)).sum ≤
      ((List.range grid.length).map fun i =>
        (([(unitVec grid.length i (-1), (-1 : Rat)), (unitVec grid.length i 1, (-1 : Rat))]).map
          fun ov => rowsum (contrib grid ov.1 ov.2) p).sum).sum := by
    apply sum_map_mono
    intro i _
    simp only [List.map_cons, List.map_nil, List.sum_cons, List.sum_nil]
    have h1 := rowsum_contrib_ge grid (unitVec grid.length i (-1)) p
    have h2 := rowsum_contrib_ge grid (unitVec grid.length i 1) p
    linarith
  rw [sum_map_const, List.length_range] at hge
  push_cast
  linarith

theorem cube_length (n : Nat) : (cube n).length = 3 ^ n := by
  induction n with
  | zero => rfl
  | succ n ih =>
    simp only [cube, List.flatMap_cons, List.flatMap_nil, List.length_append, List.length_map, List.length_nil, ih]
    omega

theorem allz_cons (c : Rat) (h : Int) (t : List Int) :
    (if (h :: t).all (fun x => decide (x = 0)) = true then c else (-1 : Rat)) =
      if h = 0 then (if t.all (fun x => decide (x = 0)) = true then c else -1) else -1 := by
  by_cases hh : h = 0 <;> simp [hh]

theorem cube_sum (n : Nat) (c : Rat) :
    ((cube n).map fun o => if o.all (fun x => decide (x = 0)) = true then c else (-1 : Rat)).sum = c + 1 - 3 ^ n := by
  induction n with
  | zero => simp [cube]
  | succ n ih =>
    simp only [cube, List.flatMap_cons, List.flatMap_nil, List.append_nil, List.map_append, List.map_map,
      List.sum_append, Function.comp_def, allz_cons]
    simp only [show ((-1 : Int) = 0) = False by simp, show ((1 : Int) = 0) = False by simp, if_false, if_true,
      sum_map_const, cube_length, ih]
    push_cast
    ring

/-- **FE Poisson matrix: row sums are non-negative** (weak diagonal dominance) -/
theorem poissonFE_rowsum_nonneg (grid : List Nat) (p : Nat) (hp : p < prod grid) :
    0 ≤ rowsum (stencilGrid grid (poissonFE grid.length)) p := by
  rw [rowsum_flatMap]
  unfold poissonFE
  rw [List.map_map]
  have hc : (((3 ^ grid.length - 1 : Nat) : Rat)) = 3 ^ grid.length - 1 := by
    rw [Nat.cast_sub (Nat.one_le_pow _ _ (by norm_num))]; push_cast; ring
  have hge : ((cube grid.length).map fun o => if o.all (fun x => x = 0) then ((3 ^ grid.length - 1 : Nat) : Rat) else (-1 : Rat)).sum ≤
      ((cube grid.length).map ((fun ov : List Int × Rat => rowsum (contrib grid ov.1 ov.2) p) ∘
        fun o => (o, if o.all (fun x => x = 0) then ((3 ^ grid.length - 1 : Nat) : Rat) else (-1 : Rat)))).sum := by
    apply sum_map_mono
    intro o ho
    simp only [Function.comp]
    by_cases hz : o.all (fun x => x = 0) = true
    · simp only [hz, if_true]
      rw [rowsum_contrib_centre grid o _ p hp (cube_len _ o ho) (fun x hx => by simpa using (List.all_eq_true.1 hz) x hx)]
    · simp only [hz]
      exact rowsum_contrib_ge grid o p
  have h0 : ((3 ^ grid.length - 1 : Nat) : Rat) + 1 - 3 ^ grid.length = 0 := by rw [hc]; ring
  rw [cube_sum, h0] at hge
  exact hge

theorem poisson_rowsum_nonneg (grid : List Nat) (fe : Bool) (p : Nat) (hp : p < prod grid) :
    0 ≤ rowsum (stencilGrid grid (poissonStencil fe grid.length)) p := by
  cases fe
  · exact poissonFD_rowsum_nonneg grid p hp
  · exact poissonFE_rowsum_nonneg grid p hp

end PyamgV.C20
