import PyamgV.Proofs.ExtC10bGmres
import Mathlib.Algebra.BigOperators.Fin

/-! PyamgV (extension E24, property C10): the constraint theorem for the **array instance** of the GMRES
energy-minimisation model, `C10bM.energyGmres` (the function `ext_c10b_gmres` runs and the check
compares with `energy_prolongation_smoother(krylov='gmres')`).

`toMx n m X` is the matrix a dense array `X : Mat K` denotes.  `Mat.add`, `Mat.sub`, `Mat.smul` are the
matrix operations on arrays of the right shape (`Dim`), the projection `projectDense` keeps the shape
(`projectDense_shape`), so every Krylov vector of a run has the shape of `T` (`energyGmres_dims`).
`gmres_run_constrained`: if the projected matrices of the run annihilate `B_c` (decided exactly on
every instance by the driver, flag `projs-constrained`; for well-posed rows this is
`satisfy_constraints_spec`), then every update `y_j V_j` annihilates `B_c`, the returned matrix (before the
root-node reset) is `C10.applyUpdates` of these updates, and `T'·B_c = T·B_c`. -/
namespace PyamgV.C10b
open PyamgV PyamgV.C10M PyamgV.C10bM Matrix
set_option linter.unusedSectionVars false

variable {K : Type} [Field K] [DecidableEq K] {n m : Nat}

/-! ### dense arrays as matrices -/

/-- the matrix a dense array denotes -/
def toMx (n m : Nat) (X : Mat K) : Matrix (Fin n) (Fin m) K := fun i j => X.get i.val j.val

/-- `n × m` array (the column count is read from row 0, as `Mat.cols` does) -/
def Dim (n m : Nat) (X : Mat K) : Prop := X.rows = n ∧ X.cols = m

theorem ofFn_size (r c : Nat) (f : Nat → Nat → K) : (Mat.ofFn r c f).size = r := by
  simp [Mat.ofFn]

theorem ofFn_getD (r c : Nat) (f : Nat → Nat → K) (i : Nat) (hi : i < r) :
    (Mat.ofFn r c f).getD i #[] = (Array.range c).map fun j => f i j := by
  simp [Mat.ofFn, Array.getD_eq_getD_getElem?, hi]

theorem ofFn_get (r c : Nat) (f : Nat → Nat → K) (i j : Nat) (hi : i < r) (hj : j < c) :
    (Mat.ofFn r c f).get i j = f i j := by
  unfold Mat.get
  rw [ofFn_getD r c f i hi]
  simp [Array.getD_eq_getD_getElem?, hj]

theorem ofFn_rows (r c : Nat) (f : Nat → Nat → K) : (Mat.ofFn r c f).rows = r := ofFn_size r c f

theorem ofFn_cols (r c : Nat) (f : Nat → Nat → K) (hr : 0 < r) : (Mat.ofFn r c f).cols = c := by
  unfold Mat.cols
  rw [ofFn_getD r c f 0 hr]
  simp

theorem dim_ofFn (n m : Nat) (hn : 0 < n) (f : Nat → Nat → K) : Dim n m (Mat.ofFn n m f) :=
  ⟨ofFn_rows n m f, ofFn_cols n m f hn⟩

theorem toMx_ofFn (n m : Nat) (f : Nat → Nat → K) :
    toMx n m (Mat.ofFn n m f) = fun i j => f i.val j.val := by
  funext i j
  exact ofFn_get n m f i.val j.val i.isLt j.isLt

theorem dim_add (n m : Nat) (hn : 0 < n) (X Y : Mat K) (hX : Dim n m X) : Dim n m (Mat.add X Y) := by
  unfold Mat.add; rw [hX.1, hX.2]; exact dim_ofFn n m hn _

theorem dim_sub (n m : Nat) (hn : 0 < n) (X Y : Mat K) (hX : Dim n m X) : Dim n m (Mat.sub X Y) := by
  unfold Mat.sub; rw [hX.1, hX.2]; exact dim_ofFn n m hn _

theorem dim_smul (n m : Nat) (hn : 0 < n) (a : K) (X : Mat K) (hX : Dim n m X) : Dim n m (Mat.smul a X) := by
  unfold Mat.smul; rw [hX.1, hX.2]; exact dim_ofFn n m hn _

theorem toMx_add (n m : Nat) (X Y : Mat K) (hX : Dim n m X) :
    toMx n m (Mat.add X Y) = toMx n m X + toMx n m Y := by
  unfold Mat.add; rw [hX.1, hX.2, toMx_ofFn]; rfl

theorem toMx_sub (n m : Nat) (X Y : Mat K) (hX : Dim n m X) :
    toMx n m (Mat.sub X Y) = toMx n m X - toMx n m Y := by
  unfold Mat.sub; rw [hX.1, hX.2, toMx_ofFn]; rfl

theorem toMx_smul (n m : Nat) (a : K) (X : Mat K) (hX : Dim n m X) :
    toMx n m (Mat.smul a X) = a • toMx n m X := by
  unfold Mat.smul; rw [hX.1, hX.2, toMx_ofFn]; rfl

/-! ### `projectDense` keeps the shape -/

theorem foldl_size {ι : Type} (f : Array K → ι → Array K) (hf : ∀ r x, (f r x).size = r.size) :
    ∀ (l : List ι) (r : Array K), (l.foldl f r).size = r.size := by
  intro l
  induction l with
  | nil => intro r; rfl
  | cons x l ih => intro r; rw [List.foldl_cons, ih, hf]

/-- same number of rows, same length of every row -/
def SameShape (M M' : Mat K) : Prop := M'.size = M.size ∧ ∀ i, (M'.getD i #[]).size = (M.getD i #[]).size

theorem SameShape.refl (M : Mat K) : SameShape M M := ⟨rfl, fun _ => rfl⟩

theorem SameShape.trans {M M' M'' : Mat K} (h : SameShape M M') (h' : SameShape M' M'') : SameShape M M'' :=
  ⟨by rw [h'.1, h.1], fun i => by rw [h'.2 i, h.2 i]⟩

theorem sameShape_setRow (M : Mat K) (i : Nat) (row : Array K) (h : row.size = (M.getD i #[]).size) :
    SameShape M (M.setIfInBounds i row) := by
  refine ⟨Array.size_setIfInBounds, fun i' => ?_⟩
  simp only [Array.getD_eq_getD_getElem?, Array.getElem?_setIfInBounds]
  by_cases e : i = i'
  · subst e
    by_cases hs : i < M.size
    · simp only [hs, if_true, Option.getD_some]
      rw [h]; simp [Array.getD_eq_getD_getElem?, hs]
    · simp [hs]
  · simp [e]

theorem foldl_sameShape {ι : Type} (f : Mat K → ι → Mat K) (hf : ∀ M x, SameShape M (f M x)) :
    ∀ (l : List ι) (M : Mat K), SameShape M (l.foldl f M) := by
  intro l
  induction l with
  | nil => intro M; exact SameShape.refl M
  | cons x l ih => intro M; rw [List.foldl_cons]; exact (hf M x).trans (ih _)

theorem projectDense_shape (conj : K → K) (rpb cpb nd : Nat) (pat : Pat) (A Y B : Mat K) (M' : Mat K)
    (h : projectDense conj rpb cpb nd pat A Y B = some M') : SameShape A M' := by
  unfold projectDense at h
  have key : ∀ (l : List Nat) (st : Option (Mat K)) (M' : Mat K),
      (∀ M, st = some M → SameShape A M) →
      l.foldl (fun (st : Option (Mat K)) ib =>
        match st with
        | none => none
        | some M =>
          let J := pat.getD ib #[]
          if J.isEmpty then some M else
          match (localBtB conj cpb nd B J).inv with
          | none => none
          | some Z =>
            some ((List.range rpb).foldl (fun (M : Mat K) t =>
              let i := ib * rpb + t
              let yz : Array K := (Array.range nd).map (fun b => sumL ((List.range nd).map (fun a => Y.get i a * Z.get a b)))
              let row := (M.getD i #[])
              let row := J.foldl (fun (row : Array K) jb =>
                (List.range cpb).foldl (fun (row : Array K) s =>
                  let c := jb * cpb + s
                  row.setIfInBounds c (row.getD c 0 - sumL ((List.range nd).map (fun b => yz.getD b 0 * conj (B.get c b))))) row) row
              M.setIfInBounds i row) M)) st = some M' → SameShape A M' := by
    intro l
    induction l with
    | nil => intro st M' hst h; exact hst M' h
    | cons ib l ih =>
      intro st M' hst h
      rw [List.foldl_cons] at h
      refine ih _ M' ?_ h
      intro M hM
      cases st with
      | none => simp at hM
      | some M0 =>
        have h0 := hst M0 rfl
        dsimp only at hM
        by_cases hJ : (pat.getD ib #[]).isEmpty = true
        · rw [if_pos hJ] at hM
          cases hM; exact h0
        · rw [if_neg hJ] at hM
          cases hz : (localBtB conj cpb nd B (pat.getD ib #[])).inv with
          | none => rw [hz] at hM; simp at hM
          | some Z =>
            rw [hz] at hM
            simp only [Option.some.injEq] at hM
            rw [← hM]
            refine h0.trans (foldl_sameShape _ ?_ _ _)
            intro M1 t
            apply sameShape_setRow
            rw [← Array.foldl_toList]
            apply foldl_size
            intro r jb
            apply foldl_size
            intro r' s
            exact Array.size_setIfInBounds
  exact key _ (some A) M' (fun M hM => by cases hM; exact SameShape.refl A) h

theorem satisfyDense_dim (conj : K → K) (rpb cpb nd : Nat) (pat : Pat) (U B Y : Mat K) (n m : Nat)
    (hU : Dim n m U) (h : satisfyDense conj rpb cpb nd pat U B = some Y) : Dim n m Y := by
  obtain ⟨h1, h2⟩ := projectDense_shape conj rpb cpb nd pat U (Mat.mul U B) B Y h
  refine ⟨?_, ?_⟩
  · show Y.size = n
    rw [h1]; exact hU.1
  · show (Y.getD 0 #[]).size = m
    rw [h2 0]; exact hU.2

/-! ### the run on arrays -/

theorem dim_gmresOp (conj : K → K) (rpb cpb nd : Nat) (pat : Pat) (A : Mat K) (pre : Precond K) (B X Y : Mat K)
    (n m : Nat) (hn : 0 < n) (hA : A.rows = n) (hX : Dim n m X)
    (h : gmresOp conj rpb cpb nd pat A pre B X = some Y) : Dim n m Y := by
  unfold gmresOp at h
  refine satisfyDense_dim conj rpb cpb nd pat _ B Y n m ?_ h
  have h1 : Dim n m (Mat.mul A X) := by
    unfold Mat.mul; rw [hA, hX.2]; exact dim_ofFn n m hn _
  have h2 : Dim n m (maskDense rpb cpb pat (Mat.mul A X)) := by
    unfold maskDense; rw [h1.1, h1.2]; exact dim_ofFn n m hn _
  cases pre with
  | rows d => unfold Precond.apply; dsimp only; rw [h2.1, h2.2]; exact dim_ofFn n m hn _
  | blocks bs zs => unfold Precond.apply; dsimp only; rw [h2.1, h2.2]; exact dim_ofFn n m hn _

theorem dim_gmresR (conj : K → K) (rpb cpb nd : Nat) (pat : Pat) (A : Mat K) (pre : Precond K) (B T R : Mat K)
    (n m : Nat) (hn : 0 < n) (hA : A.rows = n) (hT : Dim n m T)
    (h : satisfyDense conj rpb cpb nd pat (pre.apply (Mat.neg (maskDense rpb cpb pat (Mat.mul A T)))) B = some R) :
    Dim n m R := by
  refine satisfyDense_dim conj rpb cpb nd pat _ B R n m ?_ h
  have h1 : Dim n m (Mat.mul A T) := by
    unfold Mat.mul; rw [hA, hT.2]; exact dim_ofFn n m hn _
  have h2 : Dim n m (maskDense rpb cpb pat (Mat.mul A T)) := by
    unfold maskDense; rw [h1.1, h1.2]; exact dim_ofFn n m hn _
  have h3 : Dim n m (Mat.neg (maskDense rpb cpb pat (Mat.mul A T))) := by
    unfold Mat.neg; rw [h2.1, h2.2]; exact dim_ofFn n m hn _
  cases pre with
  | rows d => unfold Precond.apply; dsimp only; rw [h3.1, h3.2]; exact dim_ofFn n m hn _
  | blocks bs zs => unfold Precond.apply; dsimp only; rw [h3.1, h3.2]; exact dim_ofFn n m hn _

/-- shapes through the loop: Krylov vectors and projected matrices have the shape of `T` -/
theorem gmresLoop_dims {α M : Type} [Add α] [Sub α] [Mul α] [Div α] [OfNat α 0] [OfNat α 1] [DecidableEq α]
    (o : MOps α M) (sc : SOps α) (opA : M → Option M) (tol : α) (C : M → Prop)
    (hsmul : ∀ a X, C X → C (o.smul a X)) (hsub : ∀ X Y, C X → C Y → C (o.sub X Y))
    (hop : ∀ X Y, C X → opA X = some Y → C Y) :
    ∀ (fuel : Nat) (st : GState α M), VIn C st.V → (∀ Y ∈ st.projs, C Y) →
      ∀ Y ∈ (gmresLoop o sc opA tol fuel st).projs, C Y := by
  intro fuel
  induction fuel with
  | zero => intro st _ h; exact h
  | succ fuel ih =>
    intro st hV h
    unfold gmresLoop
    by_cases hc : (!(sc.lt tol st.S.normr)) = true
    · rw [if_pos hc]; exact h
    · rw [if_neg hc]
      cases hVi : st.V[st.iters]? with
      | none => exact h
      | some Vi =>
        dsimp only
        cases hop' : opA Vi with
        | none => exact h
        | some AV =>
          dsimp only
          have hAV : C AV := hop Vi AV (hV _ _ hVi) hop'
          apply ih
          · exact VIn_push C _ _ hV (normalize_C o sc C hsmul _ (mgsStep_C o C hsmul hsub st.V hV st.iters AV hAV))
          · intro Y hY
            rcases List.mem_cons.1 hY with rfl | hY
            · exact hAV
            · exact h Y hY

/-- every projected matrix of a run of `energyGmres` has the shape of `T` -/
theorem energyGmres_dims (sc : SOps K) (rpb cpb nd : Nat) (pat : Pat) (A : Mat K) (pre : Precond K) (T B : Mat K)
    (maxiter : Nat) (tol : K) (cpts : Array Nat) (out : EnergyGmresOut K) (n m : Nat) (hn : 0 < n)
    (hA : A.rows = n) (hT : Dim n m T)
    (hrun : energyGmres sc rpb cpb nd pat A pre T B maxiter tol cpts = some out) :
    ∀ Y ∈ out.core.projs, Dim n m Y := by
  unfold energyGmres at hrun
  dsimp only at hrun
  by_cases hz : (pat.foldl (fun acc J => acc + J.size) 0) * rpb * cpb = 0
  · rw [if_pos hz] at hrun; cases hrun
  · rw [if_neg hz] at hrun
    cases hR : satisfyDense sc.conj rpb cpb nd pat (pre.apply (Mat.neg (maskDense rpb cpb pat (Mat.mul A T)))) B with
    | none => rw [hR] at hrun; cases hrun
    | some R =>
      rw [hR] at hrun
      simp only [Option.some.injEq] at hrun
      rw [← hrun]
      dsimp only
      have hRd := dim_gmresR sc.conj rpb cpb nd pat A pre B T R n m hn hA hT hR
      unfold gmresCore
      dsimp only
      apply gmresLoop_dims (matOps sc.conj) sc _ tol (Dim n m)
        (fun a X h => dim_smul n m hn a X h) (fun X Y h _ => dim_sub n m hn X Y h)
        (fun X Y hX h => dim_gmresOp sc.conj rpb cpb nd pat A pre B X Y n m hn hA hX h)
      · exact gmresInit_inv (matOps sc.conj) sc R maxiter (Dim n m) (fun a X h => dim_smul n m hn a X h)
          (fun Y hY => by
            have : Y = R := by simpa [gmresInit] using hY
            rw [this]; exact hRd)
      · intro Y hY
        have : Y = R := by simpa [gmresInit] using hY
        rw [this]; exact hRd

theorem fold_toMx (n m : Nat) (hn : 0 < n) : ∀ (ups : List (K × Mat K)) (T : Mat K), Dim n m T →
    (∀ u ∈ ups, Dim n m u.2) →
    toMx n m (ups.foldl (fun T u => Mat.add T (Mat.smul u.1 u.2)) T) =
      C10.applyUpdates (toMx n m T) (ups.map fun u => (u.1, toMx n m u.2)) := by
  intro ups
  induction ups with
  | nil => intro T _ _; rfl
  | cons u ups ih =>
    intro T hT hu
    rw [List.foldl_cons, ih _ (dim_add n m hn _ _ hT) (fun v hv => hu v (List.mem_cons_of_mem _ hv))]
    rw [toMx_add n m _ _ hT, toMx_smul n m _ _ (hu u (List.mem_cons_self ..))]
    rfl

/-- the run of `energyGmres` on `n × m` arrays and a property `Q` of matrices closed under scaling and
subtraction: if the projected matrices of the run have `Q`, every update direction has `Q`, and the result
before the root-node reset is `C10.applyUpdates` of the updates `(y_j, V_j)` -/
theorem gmres_run_closed (Q : Matrix (Fin n) (Fin m) K → Prop) (hQs : ∀ (a : K) X, Q X → Q (a • X))
    (hQsub : ∀ X Y, Q X → Q Y → Q (X - Y))
    (sc : SOps K) (rpb cpb nd : Nat) (pat : Pat) (A : Mat K) (pre : Precond K)
    (T B : Mat K) (maxiter : Nat) (tol : K) (cpts : Array Nat) (out : EnergyGmresOut K)
    (hn : 0 < n) (hA : A.rows = n) (hT : Dim n m T)
    (hrun : energyGmres sc rpb cpb nd pat A pre T B maxiter tol cpts = some out)
    (hP : ∀ Y ∈ out.core.projs, Q (toMx n m Y)) :
    (∀ u ∈ out.core.ups, Q (toMx n m u.2)) ∧
    toMx n m out.core.T = C10.applyUpdates (toMx n m T) (out.core.ups.map fun u => (u.1, toMx n m u.2)) ∧
    out.T = resetRoots cpts out.core.T := by
  have hdims := energyGmres_dims sc rpb cpb nd pat A pre T B maxiter tol cpts out n m hn hA hT hrun
  unfold energyGmres at hrun
  dsimp only at hrun
  by_cases hz : (pat.foldl (fun acc J => acc + J.size) 0) * rpb * cpb = 0
  · rw [if_pos hz] at hrun; cases hrun
  · rw [if_neg hz] at hrun
    cases hR : satisfyDense sc.conj rpb cpb nd pat (pre.apply (Mat.neg (maskDense rpb cpb pat (Mat.mul A T)))) B with
    | none => rw [hR] at hrun; cases hrun
    | some R =>
      rw [hR] at hrun
      simp only [Option.some.injEq] at hrun
      subst hrun
      dsimp only at hP hdims ⊢
      obtain ⟨h1, h2⟩ := gmresCore_inv (matOps sc.conj) sc (gmresOp sc.conj rpb cpb nd pat A pre B) R T maxiter tol
        (fun X => Dim n m X ∧ Q (toMx n m X))
        (fun a X h => ⟨dim_smul n m hn a X h.1, by
          dsimp only [matOps]
          rw [toMx_smul n m a X h.1]; exact hQs a _ h.2⟩)
        (fun X Y hX hY => ⟨dim_sub n m hn X Y hX.1, by
          dsimp only [matOps]
          rw [toMx_sub n m X Y hX.1]; exact hQsub _ _ hX.2 hY.2⟩)
        (fun Y hY => ⟨hdims Y hY, hP Y hY⟩)
      refine ⟨fun u hu => (h1 u hu).2, ?_, rfl⟩
      rw [h2]
      exact fold_toMx n m hn _ T hT (fun u hu => (h1 u hu).1)

/-- **the constraint theorem for the executable GMRES model** (`ext_c10b_gmres`): for a run of
`energyGmres` on `n × m` arrays whose projected matrices annihilate `B_c`: every update direction
annihilates `B_c`, the result before the root-node reset is `C10.applyUpdates` of the updates
`(y_j, V_j)`, and its product with `B_c` is that of the tentative prolongator -/
theorem gmres_run_constrained (sc : SOps K) (rpb cpb nd : Nat) (pat : Pat) (A : Mat K) (pre : Precond K)
    (T B : Mat K) (maxiter : Nat) (tol : K) (cpts : Array Nat) (out : EnergyGmresOut K) (n m k : Nat)
    (hn : 0 < n) (hA : A.rows = n) (hT : Dim n m T)
    (hrun : energyGmres sc rpb cpb nd pat A pre T B maxiter tol cpts = some out)
    (hP : ∀ Y ∈ out.core.projs, toMx n m Y * toMx m k B = 0) :
    (∀ u ∈ out.core.ups, toMx n m u.2 * toMx m k B = 0) ∧
    toMx n m out.core.T = C10.applyUpdates (toMx n m T) (out.core.ups.map fun u => (u.1, toMx n m u.2)) ∧
    toMx n m out.core.T * toMx m k B = toMx n m T * toMx m k B ∧
    out.T = resetRoots cpts out.core.T := by
  obtain ⟨h1, h2, h3⟩ := gmres_run_closed (fun X => X * toMx m k B = 0)
    (fun a X h => by rw [Matrix.smul_mul, h, smul_zero])
    (fun X Y hX hY => by rw [Matrix.sub_mul, hX, hY, sub_zero])
    sc rpb cpb nd pat A pre T B maxiter tol cpts out hn hA hT hrun hP
  refine ⟨h1, h2, ?_, h3⟩
  rw [h2]
  apply C10.updates_keep_product
  intro u hu
  obtain ⟨v, hv, rfl⟩ := List.mem_map.1 hu
  exact h1 v hv

/-- **the pattern clause for the executable GMRES model**: if the projected matrices of the run vanish
outside the allowed pattern `J`, so does every update direction, and no entry of the prolongator outside
`J` changes -/
theorem gmres_run_pattern (J : Fin n → Fin m → Prop) (sc : SOps K) (rpb cpb nd : Nat) (pat : Pat) (A : Mat K)
    (pre : Precond K) (T B : Mat K) (maxiter : Nat) (tol : K) (cpts : Array Nat) (out : EnergyGmresOut K)
    (hn : 0 < n) (hA : A.rows = n) (hT : Dim n m T)
    (hrun : energyGmres sc rpb cpb nd pat A pre T B maxiter tol cpts = some out)
    (hP : ∀ Y ∈ out.core.projs, ∀ i j, ¬ J i j → toMx n m Y i j = 0) :
    (∀ u ∈ out.core.ups, ∀ i j, ¬ J i j → toMx n m u.2 i j = 0) ∧
    ∀ i j, ¬ J i j → toMx n m out.core.T i j = toMx n m T i j := by
  obtain ⟨h1, h2, _⟩ := gmres_run_closed (fun X => ∀ i j, ¬ J i j → X i j = 0)
    (fun a X h i j hij => by rw [Matrix.smul_apply, h i j hij, smul_zero])
    (fun X Y hX hY i j hij => by rw [Matrix.sub_apply, hX i j hij, hY i j hij, sub_zero])
    sc rpb cpb nd pat A pre T B maxiter tol cpts out hn hA hT hrun hP
  refine ⟨h1, ?_⟩
  rw [h2]
  apply C10.updates_keep_pattern J
  intro u hu
  obtain ⟨v, hv, rfl⟩ := List.mem_map.1 hu
  exact h1 v hv

/-! ### the decisions the driver makes on every instance are sound for the hypotheses above -/

/-- `Y·B = 0`, decided entry by entry with the executable sum (flag `projs-constrained`) -/
def annihilates (Y B : Mat K) : Bool :=
  (List.range Y.rows).all fun i => (List.range B.cols).all fun j =>
    decide (sumL ((List.range Y.cols).map fun t => Y.get i t * B.get t j) = 0)

/-- every entry outside the block pattern is zero (flag `projs-constrained`, second half) -/
def offPatternZero (rpb cpb : Nat) (pat : Pat) (Y : Mat K) : Bool :=
  (List.range Y.rows).all fun i => (List.range Y.cols).all fun j =>
    (pat.getD (i / rpb) #[]).contains (j / cpb) || decide (Y.get i j = 0)

theorem sumL_eq (l : List K) : sumL l = l.sum := by
  unfold sumL
  have : ∀ (l : List K) (a : K), l.foldl (· + ·) a = a + l.sum := by
    intro l
    induction l with
    | nil => intro a; simp
    | cons x l ih => intro a; rw [List.foldl_cons, ih, List.sum_cons, add_assoc]
  rw [this l 0, zero_add]

theorem sumL_range_fin (m : Nat) (f : Nat → K) : sumL ((List.range m).map f) = ∑ t : Fin m, f t.val := by
  rw [sumL_eq]
  induction m with
  | zero => simp
  | succ m ih => rw [List.range_succ, List.map_append, List.sum_append, ih, Fin.sum_univ_castSucc]; simp

theorem annihilates_sound (n m k : Nat) (Y B : Mat K) (hY : Dim n m Y) (hB : B.cols = k)
    (h : annihilates Y B = true) : toMx n m Y * toMx m k B = 0 := by
  funext i j
  unfold annihilates at h
  rw [List.all_eq_true] at h
  have h1 := h i.val (List.mem_range.2 (by rw [hY.1]; exact i.isLt))
  rw [List.all_eq_true] at h1
  have h2 := h1 j.val (List.mem_range.2 (by rw [hB]; exact j.isLt))
  rw [decide_eq_true_eq, hY.2, sumL_range_fin] at h2
  rw [Matrix.mul_apply]
  exact h2

theorem offPatternZero_sound (n m rpb cpb : Nat) (pat : Pat) (Y : Mat K) (hY : Dim n m Y)
    (h : offPatternZero rpb cpb pat Y = true) :
    ∀ (i : Fin n) (j : Fin m), ¬ ((pat.getD (i.val / rpb) #[]).contains (j.val / cpb) = true) → toMx n m Y i j = 0 := by
  intro i j hij
  unfold offPatternZero at h
  rw [List.all_eq_true] at h
  have h1 := h i.val (List.mem_range.2 (by rw [hY.1]; exact i.isLt))
  rw [List.all_eq_true] at h1
  have h2 := h1 j.val (List.mem_range.2 (by rw [hY.2]; exact j.isLt))
  rw [Bool.or_eq_true] at h2
  rcases h2 with h2 | h2
  · exact absurd h2 hij
  · exact of_decide_eq_true h2

/-- **the instance decision discharges the hypothesis**: a run whose projected matrices pass the
driver's exact check keeps `T·B_c` and the pattern -/
theorem gmres_run_checked (sc : SOps K) (rpb cpb nd : Nat) (pat : Pat) (A : Mat K) (pre : Precond K)
    (T B : Mat K) (maxiter : Nat) (tol : K) (cpts : Array Nat) (out : EnergyGmresOut K) (k : Nat)
    (hn : 0 < n) (hA : A.rows = n) (hT : Dim n m T) (hB : B.cols = k)
    (hrun : energyGmres sc rpb cpb nd pat A pre T B maxiter tol cpts = some out)
    (hchk : out.core.projs.all (fun Y => annihilates Y B && offPatternZero rpb cpb pat Y) = true) :
    toMx n m out.core.T * toMx m k B = toMx n m T * toMx m k B ∧
    (∀ (i : Fin n) (j : Fin m), ¬ ((pat.getD (i.val / rpb) #[]).contains (j.val / cpb) = true) →
      toMx n m out.core.T i j = toMx n m T i j) := by
  have hdims := energyGmres_dims sc rpb cpb nd pat A pre T B maxiter tol cpts out n m hn hA hT hrun
  rw [List.all_eq_true] at hchk
  constructor
  · refine (gmres_run_constrained sc rpb cpb nd pat A pre T B maxiter tol cpts out n m k hn hA hT hrun ?_).2.2.1
    intro Y hY
    have := hchk Y hY
    rw [Bool.and_eq_true] at this
    exact annihilates_sound n m k Y B (hdims Y hY) hB this.1
  · refine (gmres_run_pattern (fun i j => (pat.getD (i.val / rpb) #[]).contains (j.val / cpb) = true)
      sc rpb cpb nd pat A pre T B maxiter tol cpts out hn hA hT hrun ?_).2
    intro Y hY
    have := hchk Y hY
    rw [Bool.and_eq_true] at this
    exact offPatternZero_sound n m rpb cpb pat Y (hdims Y hY) this.2

/-! ### a concrete run (non-vacuity): `A = [[2,1],[1,3]]`, `T = I`, `B_c = (1,1)ᵀ`, full pattern, row
preconditioner `diag(1/2, 1/3)`, `maxiter = 2` (scalar "square root" = identity: any function is allowed) -/

def exSc : SOps Rat :=
  { sqrt := fun x => x, abs := fun x => if x < 0 then -x else x, conj := id, lt := fun a b => decide (a < b) }
def exA : Mat Rat := #[#[2, 1], #[1, 3]]
def exT : Mat Rat := #[#[1, 0], #[0, 1]]
def exB : Mat Rat := #[#[1], #[1]]
def exRun : Option (EnergyGmresOut Rat) :=
  energyGmres exSc 1 1 1 #[#[0, 1], #[0, 1]] exA (.rows #[1 / 2, 1 / 3]) exT exB 2 0 #[]

/-- the run succeeds, makes two GMRES steps, and its three projected matrices pass the exact check -/
theorem exRun_checked :
    (exRun.map fun o => (o.core.ups.length,
      o.core.projs.all (fun Y => annihilates Y exB && offPatternZero 1 1 #[#[0, 1], #[0, 1]] Y))) = some (2, true) := by
  decide +kernel

/-- so the theorem applies to it: the smoothed prolongator has the row sums of `T` -/
theorem exRun_keeps_product (out : EnergyGmresOut Rat) (h : exRun = some out) :
    toMx 2 2 out.core.T * toMx 2 1 exB = toMx 2 2 exT * toMx 2 1 exB := by
  have hc := exRun_checked
  rw [h] at hc
  simp only [Option.map_some, Option.some.injEq, Prod.mk.injEq] at hc
  exact (gmres_run_checked exSc 1 1 1 #[#[0, 1], #[0, 1]] exA (.rows #[1 / 2, 1 / 3]) exT exB 2 0 #[] out 1
    (by decide) rfl ⟨rfl, rfl⟩ rfl h hc.2).1

#print axioms gmres_run_constrained
#print axioms gmres_run_pattern
#print axioms gmres_run_checked
#print axioms exRun_keeps_product
end PyamgV.C10b
