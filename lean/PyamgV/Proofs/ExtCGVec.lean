import PyamgV.Proofs.ExtCGRun
import PyamgV.Proofs.ExtCGField
import PyamgV.Proofs.ExtC07Hom

/-! PyamgV (extension E43, properties C06/C07): the complex GMRES theorems **for the `Vector K n` instance the driver
executes** (`vecOps star A M`, ops `ext_cg_cycle`, `ext_cg_full`; in binary64 pairs there), and their specialisation to
the pairs `K = CP F` over an ordered field `F` with an exact square root.

* `cgmresStep_hom`: the model commutes with any map that commutes with the vector operations; with
  `toFn : Vector K n → (Fin n → K)` the vector model is carried onto the module model over `Kⁿ` with the Hermitian form
  `dotH R n` (`cgVec_map`);
* `cgmres_mgs_vec_estimate`, `cgmres_mgs_vec_optimal_krylov`, `cgmres_mgs_vec_truthful`;
* `…_cp_…`: the same with `K = CP F`, `star = CP.conj`, `sqrt = CP.sqrtRe sqrtF`, `|z| = CP.mod sqrtF z`. -/
set_option linter.unusedSectionVars false
set_option linter.unusedVariables false
namespace PyamgV.ExtCG
open PyamgV.C07 PyamgV.CHerm PyamgV.C07.CH PyamgV.ExtC06 Finset

local notation "gF" => PyamgV.C07.F

/-! ### structural homomorphism -/
section hom
variable {K V W : Type} [Add K] [Sub K] [Mul K] [Div K] [Neg K] [OfNat K 0] [OfNat K 1] [OfNat K 2]
variable (φ : V → W) (ov : Ops K V) (ow : Ops K W) (H : OpsHom φ ov ow)

include H in
theorem cgmresStep_hom (conj sqrt : K → K) (nz : K → Bool) (n : Nat) (x0 : V) (s : GmSt K V) :
    mapGm φ (cgmresStep ov conj sqrt nz n x0 s) = cgmresStep ow conj sqrt nz n (φ x0) (mapGm φ s) := by
  obtain ⟨h1, h2⟩ := arnoldiO_hom φ ov ow H sqrt nz s.vs (s.vs.getLast?.getD x0)
  simp only [cgmresStep, mapGm, List.map_append, List.map_cons, List.map_nil, getLast_map]
  rw [h1, h2, combO_hom φ ov ow H]

include H in
theorem cgIter_hom (conj sqrt : K → K) (nz : K → Bool) (n : Nat) (b x0 : V) (k : Nat) :
    mapGm φ (iter (cgmresStep ov conj sqrt nz n x0) k (gmresInit ov sqrt b x0)) =
      iter (cgmresStep ow conj sqrt nz n (φ x0)) k (gmresInit ow sqrt (φ b) (φ x0)) := by
  have := iter_hom (cgmresStep ov conj sqrt nz n x0) (cgmresStep ow conj sqrt nz n (φ x0)) (mapGm φ)
    (cgmresStep_hom φ ov ow H conj sqrt nz n x0) k (gmresInit ov sqrt b x0)
  rw [gmresInit_hom φ ov ow H] at this
  exact this

include H in
theorem cmgsEng_hom {F : Type} (conj sqrt : K → K) (nz : K → Bool) (mod nrm : K → F) (n : Nat) (b : V) :
    EngHom φ (mapGm φ) (cmgsEng ov conj sqrt nz mod nrm n b) (cmgsEng ow conj sqrt nz mod nrm n (φ b)) where
  start x := gmresInit_hom φ ov ow H sqrt b x
  step x s := cgmresStep_hom φ ov ow H conj sqrt nz n x s
  est _ := rfl
  cur x s := by
    show φ (s.xs.getLast?.getD x) = (s.xs.map φ).getLast?.getD (φ x)
    rw [getLast_map]
  resn x := by
    show nrm (ov.dot (ov.M (ov.sub b (ov.A x))) (ov.M (ov.sub b (ov.A x)))) =
      nrm (ow.dot (ow.M (ow.sub (φ b) (ow.A (φ x)))) (ow.M (ow.sub (φ b) (ow.A (φ x)))))
    rw [H.dot, H.M, H.sub, H.A]
end hom

/-! ### the vector instance over a field with an involution -/
section vectors
variable {K : Type} [Field K] [StarRing K] [DecidableEq K]
variable {F₀ : Type} [Field F₀] [LinearOrder F₀] [IsStrictOrderedRing F₀] {n : Nat}
variable (R : ReMap K F₀) (A M : Vector (Vector K n) n) (sqrt : K → K) (hS : ExactSqrt R sqrt)
  (sqrtF : F₀ → F₀) (hsqF : ∀ a, 0 ≤ a → sqrtF a * sqrtF a = a) (b x0 : Vector K n)

theorem opsHom_cvec : OpsHom toFn (vecOps (star : K → K) A M) (modOpsH R A M) :=
  let h := opsHomH_vec R A M
  ⟨h.add, h.sub, h.smul, h.dot, h.A, h.M⟩

/-- complex GMRES(MGS) on vectors: the states behind `cgmresMgs (vecOps star A M)` -/
def cgVec (k : Nat) : GmSt K (Vector K n) :=
  iter (cgmresStep (vecOps star A M) star sqrt nzK n x0) k (gmresInit (vecOps star A M) sqrt b x0)

theorem cgVec_map (k : Nat) : mapGm toFn (cgVec A M sqrt b x0 k) =
    cgSeq (linOf A) (linOf (vctrans star A)) (linOf M) (dotH R n) sqrt n (toFn b) (toFn x0) k :=
  cgIter_hom toFn _ _ (opsHom_cvec R A M) star sqrt nzK n b x0 k

/-- the preconditioned residual `M (b − A x)`, computed with the operations of the executable model -/
def presV (x : Vector K n) : Vector K n := vmv M (subV b (vmv A x))

theorem toFn_presV (x : Vector K n) : toFn (presV A M b x) = linOf M (toFn b - linOf A (toFn x)) := by
  unfold presV; rw [toFn_vmv, toFn_subH, toFn_vmv]

/-- the iterate handed to `callback` in inner iteration `m` -/
def xkV (m : Nat) : Vector K n :=
  (cgmresMgs (vecOps star A M) star sqrt nzK n b x0 (m + 1)).getLast?.getD x0

include R in
theorem cgmresMgs_length (k : Nat) : (cgmresMgs (vecOps star A M) star sqrt nzK n b x0 k).length = k := by
  have h := cgVec_map R A M sqrt b x0 k
  have h2 := (cgSeq_shape (linOf A) (linOf (vctrans star A)) (linOf M) (dotH R n) sqrt n (toFn b) (toFn x0) k).2.2.2.2.2.2
  rw [← h] at h2
  have h3 : (cgVec A M sqrt b x0 k).xs.length = k := by simpa [mapGm] using h2
  exact h3

theorem toFn_xkV (m : Nat) : toFn (xkV A M sqrt b x0 m) =
    xG (linOf A) (linOf (vctrans star A)) (linOf M) (dotH R n) sqrt n (toFn b) (toFn x0) m := by
  unfold xkV xG
  rw [← cgVec_map R A M sqrt b x0 (m + 1)]
  show _ = ((cgVec A M sqrt b x0 (m + 1)).xs.map toFn).getLast?.getD (toFn x0)
  rw [getLast_map]; rfl

theorem cgVec_g (k : Nat) : (cgVec A M sqrt b x0 k).g =
    (cgSeq (linOf A) (linOf (vctrans star A)) (linOf M) (dotH R n) sqrt n (toFn b) (toFn x0) k).g := by
  rw [← cgVec_map R A M sqrt b x0 k]; rfl

include hS in
/-- **C06 clause, complex `gmres_mgs` on `Vector K n`** (the definition the driver runs): `‖M (b − A x_{m+1})‖² =
|g[m+1]|²` -/
theorem cgmres_mgs_vec_estimate (m : Nat) (hmn : m + 1 < n) (hg : gF (cgVec A M sqrt b x0 (m + 1)).g (m + 1) ≠ 0) :
    normSqH R (presV A M b (xkV A M sqrt b x0 m)) =
      R.re (star (gF (cgVec A M sqrt b x0 (m + 1)).g (m + 1)) * gF (cgVec A M sqrt b x0 (m + 1)).g (m + 1)) := by
  rw [cgVec_g R] at hg ⊢
  rw [normSqH_eq, toFn_presV, toFn_xkV R]
  exact cgmres_mgs_estimate (linOf A) (linOf (vctrans star A)) (linOf M) (dotH R n) R (fun _ => rfl) sqrt hS n
    (toFn b) (toFn x0) m hmn hg

include hS in
/-- **C07 clause, complex `gmres_mgs` on `Vector K n`**: the iterate handed to `callback` lies in
`x₀ + K_{m+1}(M A, M r₀)` and minimises `‖M (b − A x)‖₂` over it -/
theorem cgmres_mgs_vec_optimal_krylov (m : Nat) (hmn : m + 1 < n)
    (hg : gF (cgVec A M sqrt b x0 (m + 1)).g (m + 1) ≠ 0) :
    toFn (xkV A M sqrt b x0 m) - toFn x0 ∈
      ckry (linOf M ∘ₗ linOf A) (linOf M (toFn b - linOf A (toFn x0))) (m + 1) ∧
    ∀ y : Vector K n, toFn y - toFn x0 ∈ ckry (linOf M ∘ₗ linOf A) (linOf M (toFn b - linOf A (toFn x0))) (m + 1) →
      normSqH R (presV A M b (xkV A M sqrt b x0 m)) ≤ normSqH R (presV A M b y) := by
  rw [cgVec_g R] at hg
  obtain ⟨h1, h2⟩ := cgmres_mgs_optimal_krylov (linOf A) (linOf (vctrans star A)) (linOf M) (dotH R n) R
    (fun _ => rfl) sqrt hS n (toFn b) (toFn x0) m hmn hg
  rw [← toFn_xkV R] at h1 h2
  refine ⟨h1, fun y hy => ?_⟩
  rw [normSqH_eq, normSqH_eq, toFn_presV, toFn_presV]
  exact h2 (toFn y) hy

include hS hsqF in
/-- **complex `gmres_mgs` on `Vector K n`, complete run** (op `ext_cg_full mgs`): all C06 clauses -/
theorem cgmres_mgs_vec_truthful (thr : F₀) (hthr : 0 < thr) (stag : Vector K n → Vector K n → Bool) (d : C06.GDims)
    (hI : 1 ≤ d.maxInner) (hO : 1 ≤ d.maxOuter) (hmax : d.maxInner ≤ n) (x0 : Vector K n) :
    GTruthful (gRun (cmgsEng (vecOps star A M) star sqrt nzK (modR R sqrtF) (nrmR R sqrtF) n b) ltF
        (fun a => a) thr stag d x0) x0
      (fun x => sqrtF (normSqH R (presV A M b x)))
      (fun x => ltF (sqrtF (normSqH R (presV A M b x))) thr) d :=
  gRun_truthful _ ltF _ thr stag d hI hO
    (estInv_hom ltF _ thr (cmgsEng_hom toFn _ _ (opsHom_cvec R A M) star sqrt nzK (modR R sqrtF) (nrmR R sqrtF) n b)
      d.maxInner
      (cmgs_estInv (linOf A) (linOf (vctrans star A)) (linOf M) (dotH R n) R (fun _ => rfl) sqrt hS sqrtF hsqF n
        (toFn b) thr hthr d.maxInner hmax)) x0
end vectors

/-! ### pairs over an ordered field with an exact square root -/
section pairs
variable {F : Type} [Field F] [LinearOrder F] [IsStrictOrderedRing F] {n : Nat}
variable (sqrtF : F → F) (hsqF : ∀ a, 0 ≤ a → sqrtF a * sqrtF a = a)

include hsqF in
theorem exactSqrt_cp : ExactSqrt (cpRe (F := F)) (CP.sqrtRe sqrtF) :=
  ⟨fun z hz h0 => CP.sqrtRe_sq sqrtF hsqF z hz h0, fun z => CP.sqrtRe_star sqrtF z⟩

variable (A M : Vector (Vector (CP F) n) n) (b x0 : Vector (CP F) n)

/-- `‖v‖₂² = Σ |v_i|²` of a vector of pairs, computed with the operations of the executable model -/
theorem normSqH_cp (v : Vector (CP F) n) : normSqH cpRe v = (vdot CP.conj v v).re := rfl

include hsqF in
/-- **complex `gmres_mgs` over pairs, C06 clause**: `|g[m+1]| = ‖M (b − A x_{m+1})‖₂` for the iterate handed to
`callback` (`CP.mod sqrtF` is the `np.abs` of the model, `sqrtF (…).re` its `norm`) -/
theorem cgmres_mgs_cp_estimate (m : Nat) (hmn : m + 1 < n)
    (hg : gF (cgVec A M (CP.sqrtRe sqrtF) b x0 (m + 1)).g (m + 1) ≠ 0) :
    CP.mod sqrtF (gF (cgVec A M (CP.sqrtRe sqrtF) b x0 (m + 1)).g (m + 1)) =
      sqrtF (vdot CP.conj (presV A M b (xkV A M (CP.sqrtRe sqrtF) b x0 m))
        (presV A M b (xkV A M (CP.sqrtRe sqrtF) b x0 m))).re := by
  rw [CP.mod_eq, ← normSqH_cp]
  exact congrArg sqrtF
    (cgmres_mgs_vec_estimate cpRe A M (CP.sqrtRe sqrtF) (exactSqrt_cp sqrtF hsqF) b x0 m hmn hg).symm

include hsqF in
/-- **complex `gmres_mgs` over pairs, C07 clause** -/
theorem cgmres_mgs_cp_optimal_krylov (m : Nat) (hmn : m + 1 < n)
    (hg : gF (cgVec A M (CP.sqrtRe sqrtF) b x0 (m + 1)).g (m + 1) ≠ 0) :
    toFn (xkV A M (CP.sqrtRe sqrtF) b x0 m) - toFn x0 ∈
      ckry (linOf M ∘ₗ linOf A) (linOf M (toFn b - linOf A (toFn x0))) (m + 1) ∧
    ∀ y : Vector (CP F) n,
      toFn y - toFn x0 ∈ ckry (linOf M ∘ₗ linOf A) (linOf M (toFn b - linOf A (toFn x0))) (m + 1) →
      (vdot CP.conj (presV A M b (xkV A M (CP.sqrtRe sqrtF) b x0 m))
          (presV A M b (xkV A M (CP.sqrtRe sqrtF) b x0 m))).re ≤
        (vdot CP.conj (presV A M b y) (presV A M b y)).re :=
  cgmres_mgs_vec_optimal_krylov cpRe A M (CP.sqrtRe sqrtF) (exactSqrt_cp sqrtF hsqF) b x0 m hmn hg

include hsqF in
/-- **complex `gmres_mgs` over pairs, complete run**: the engine is the one `cgmresFullFloat "mgs"` runs in binary64 -/
theorem cgmres_mgs_cp_truthful (thr : F) (hthr : 0 < thr)
    (stag : Vector (CP F) n → Vector (CP F) n → Bool) (d : C06.GDims)
    (hI : 1 ≤ d.maxInner) (hO : 1 ≤ d.maxOuter) (hmax : d.maxInner ≤ n) (x0 : Vector (CP F) n) :
    GTruthful (gRun (cmgsEng (vecOps CP.conj A M) CP.conj (CP.sqrtRe sqrtF) nzK (CP.mod sqrtF)
        (fun z => sqrtF z.re) n b) ltF (fun a => a) thr stag d x0) x0
      (fun x => sqrtF (vdot CP.conj (presV A M b x) (presV A M b x)).re)
      (fun x => ltF (sqrtF (vdot CP.conj (presV A M b x) (presV A M b x)).re) thr) d := by
  have h := cgmres_mgs_vec_truthful cpRe A M (CP.sqrtRe sqrtF) (exactSqrt_cp sqrtF hsqF) sqrtF hsqF b thr hthr stag d
    hI hO hmax x0
  have hmod : modR (cpRe (F := F)) sqrtF = CP.mod sqrtF := by funext z; exact (CP.mod_eq sqrtF z).symm
  rw [hmod] at h
  exact h
end pairs

#print axioms cgmres_mgs_cp_estimate
#print axioms cgmres_mgs_cp_optimal_krylov
#print axioms cgmres_mgs_cp_truthful
end PyamgV.ExtCG
